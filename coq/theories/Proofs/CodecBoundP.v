(* Proofs about decoding arbitrary bytes: every step consumes a non-empty prefix of its input
   and returns a suffix, the fuel of the loops is never the reason for an error, and — when
   no map entry overruns — what is decoded is no larger than the input. *)
From Coq Require Import List NArith ZArith Bool Lia ZifyN ZifyNat ZifyBool.
From FS Require Import Sx Model.Path Model.Stat Model.Varint Model.Codec Model.CodecBound
  Proofs.VarintP Proofs.CodecP.
Import ListNotations.
Open Scope N_scope.

(* ------------------------------------------------------------------ proper suffixes *)
Definition psuffix (r l : bytes) : Prop := exists p, p <> [] /\ l = p ++ r.
Definition suffix (r l : bytes) : Prop := exists p, l = p ++ r.

Lemma psuffix_suffix r l : psuffix r l -> suffix r l.
Proof. intros (p & _ & E). exists p. exact E. Qed.
Lemma suffix_refl l : suffix l l.
Proof. exists []. reflexivity. Qed.
Lemma suffix_trans a b c : suffix a b -> suffix b c -> suffix a c.
Proof. intros (p & ->) (q & ->). exists (q ++ p). rewrite app_assoc. reflexivity. Qed.
Lemma psuffix_suffix_trans a b c : suffix a b -> psuffix b c -> psuffix a c.
Proof.
  intros (p & ->) (q & Hq & ->). exists (q ++ p). split; [|rewrite app_assoc; reflexivity].
  destruct q; [congruence|discriminate].
Qed.
Lemma suffix_len r l : suffix r l -> len r <= len l.
Proof. intros (p & ->). rewrite len_app. lia. Qed.
Lemma psuffix_len r l : psuffix r l -> len r < len l.
Proof. intros (p & Hp & ->). rewrite len_app. destruct p; [congruence|]. rewrite len_cons. lia. Qed.
Lemma psuffix_length r l : psuffix r l -> (length r < length l)%nat.
Proof. intros H. apply psuffix_len in H. rewrite !len_length in H. lia. Qed.

Lemma get_varint_psuffix l v r : get_varint l = Some (v, r) -> psuffix r l.
Proof.
  intros H. destruct (get_varint_suffix l v r H) as [p E]. exists p. split; [|exact E].
  intros ->. apply get_varint_shorter in H. subst l. cbn [List.app] in H. lia.
Qed.

Lemma take_n_spec n l a r : take_n n l = Some (a, r) -> l = a ++ r /\ len a = n.
Proof.
  unfold take_n. destruct (N.leb_spec n (len l)) as [H|H]; [|discriminate].
  intros E. inversion E; subst. split; [symmetry; apply firstn_skipn|].
  rewrite len_length, firstn_length. rewrite len_length in H. lia.
Qed.

Lemma get_bytes_spec l b r : get_bytes l = Some (b, r) -> exists p, p <> [] /\ l = p ++ b ++ r.
Proof.
  unfold get_bytes. destruct (get_varint l) as [[n r0]|] eqn:E; [|discriminate].
  intros H. apply take_n_spec in H. destruct H as [-> _].
  apply get_varint_psuffix in E. exact E.
Qed.
Lemma get_bytes_psuffix l b r : get_bytes l = Some (b, r) -> psuffix r l.
Proof.
  intros H. destruct (get_bytes_spec l b r H) as (p & Hp & ->).
  exists (p ++ b). split; [destruct p; [congruence|discriminate]|rewrite app_assoc; reflexivity].
Qed.
Lemma get_bytes_len l b r : get_bytes l = Some (b, r) -> len b + len r < len l.
Proof.
  intros H. destruct (get_bytes_spec l b r H) as (p & Hp & ->).
  rewrite !len_app. destruct p; [congruence|]. rewrite len_cons. lia.
Qed.

Lemma get_tag_psuffix l fn wt r : get_tag l = Some (fn, wt, r) -> psuffix r l.
Proof.
  unfold get_tag. destruct (get_varint l) as [[w r0]|] eqn:E; [|discriminate].
  intros H. inversion H; subst. eapply get_varint_psuffix; eauto.
Qed.

(* ------------------------------------------------------------------ Skip *)
Lemma skip_loop_psuffix f : forall d l r, skip_loop f d l = Some r -> psuffix r l.
Proof.
  induction f; intros d l r H; cbn [skip_loop] in H; [discriminate|].
  destruct l as [|x l']; [discriminate|].
  destruct (get_varint (x :: l')) as [[w r0]|] eqn:Ev; [|discriminate].
  apply get_varint_psuffix in Ev.
  set (step := match w mod 8 with
     | 0 => match get_varint r0 with Some (_, r') => Some (r', d) | None => None end
     | 1 => match take_n 8 r0 with Some (_, r') => Some (r', d) | None => None end
     | 2 => match get_bytes r0 with Some (_, r') => Some (r', d) | None => None end
     | 3 => Some (r0, S d)
     | 4 => match d with O => None | S d' => Some (r0, d') end
     | 5 => match take_n 4 r0 with Some (_, r') => Some (r', d) | None => None end
     | _ => None
     end) in *.
  assert (Hs : forall r' d', step = Some (r', d') -> suffix r' r0).
  { intros r' d' Hst. unfold step in Hst.
    destruct (w mod 8) as [|p]; [|do 3 (try destruct p as [p|p|])]; cbv iota beta in Hst; try discriminate;
    first
    [ inversion Hst; subst; apply suffix_refl
    | destruct d; [discriminate|]; inversion Hst; subst; apply suffix_refl
    | destruct (get_varint r0) as [[v1 r1]|] eqn:E1; [|discriminate]; inversion Hst; subst;
      apply psuffix_suffix; eapply get_varint_psuffix; eauto
    | destruct (get_bytes r0) as [[a1 r1]|] eqn:E1; [|discriminate]; inversion Hst; subst;
      apply psuffix_suffix; eapply get_bytes_psuffix; eauto
    | destruct (take_n 4 r0) as [[a1 r1]|] eqn:E1; [|discriminate]; inversion Hst; subst;
      apply take_n_spec in E1; destruct E1 as [-> _]; eexists; reflexivity
    | destruct (take_n 8 r0) as [[a1 r1]|] eqn:E1; [|discriminate]; inversion Hst; subst;
      apply take_n_spec in E1; destruct E1 as [-> _]; eexists; reflexivity ]. }
  destruct step as [[r' [|d']]|] eqn:Est; [| |discriminate].
  - inversion H; subst. eapply psuffix_suffix_trans; [eapply Hs; reflexivity|exact Ev].
  - apply IHf in H. eapply psuffix_suffix_trans; [|exact Ev].
    eapply suffix_trans; [apply psuffix_suffix; exact H|eapply Hs; reflexivity].
Qed.
Lemma skip_psuffix l r : skip l = Some r -> psuffix r l.
Proof. apply skip_loop_psuffix. Qed.

Lemma firstn_consumed (p r : bytes) : firstn (length (p ++ r) - length r) (p ++ r) = p.
Proof.
  rewrite app_length. replace (length p + length r - length r)%nat with (length p) by lia.
  rewrite firstn_app, Nat.sub_diag, firstn_all. cbn [firstn]. apply app_nil_r.
Qed.

Lemma unknown_field_spec {F} l (mk : bytes -> F) x r :
  unknown_field l mk = Some (x, r) -> exists raw, x = mk raw /\ raw <> [] /\ l = raw ++ r.
Proof.
  unfold unknown_field. destruct (skip l) as [r'|] eqn:E; [|discriminate].
  intros H. inversion H; subst. apply skip_psuffix in E. destruct E as (p & Hp & ->).
  exists p. rewrite firstn_consumed. auto.
Qed.

(* ------------------------------------------------------------------ the map-entry loop *)
Lemma dec_entry_end f : forall stop cur k v k' v',
  dec_entry f stop cur k v = Some (k', v') ->
  exists e, entry_end f stop cur = Some e /\ suffix e cur /\
            len k' + len v' + len e <= len k + len v + len cur.
Proof.
  induction f; intros stop cur k v k' v' H; cbn [dec_entry] in H; cbn [entry_end].
  - destruct (len cur <=? stop); [|discriminate]. inversion H; subst.
    exists cur. split; [reflexivity|]. split; [apply suffix_refl|lia].
  - destruct (len cur <=? stop).
    { inversion H; subst. exists cur. split; [reflexivity|]. split; [apply suffix_refl|lia]. }
    destruct (get_tag cur) as [[[fn wt] r]|] eqn:Et; [|discriminate].
    pose proof (get_tag_psuffix _ _ _ _ Et) as Hr. pose proof (psuffix_len _ _ Hr) as Hrl.
    destruct (fn =? 1).
    { destruct (get_bytes r) as [[k1 r1]|] eqn:Eb; [|discriminate].
      pose proof (get_bytes_len _ _ _ Eb). pose proof (get_bytes_psuffix _ _ _ Eb) as Hs1.
      destruct (IHf _ _ _ _ _ _ H) as (e & He & Hsuf & Hle). exists e. split; [exact He|].
      split; [|lia].
      eapply suffix_trans; [exact Hsuf|]. eapply suffix_trans; apply psuffix_suffix; eauto. }
    destruct (fn =? 2).
    { destruct (get_bytes r) as [[v1 r1]|] eqn:Eb; [|discriminate].
      pose proof (get_bytes_len _ _ _ Eb). pose proof (get_bytes_psuffix _ _ _ Eb) as Hs1.
      destruct (IHf _ _ _ _ _ _ H) as (e & He & Hsuf & Hle). exists e. split; [exact He|].
      split; [|lia].
      eapply suffix_trans; [exact Hsuf|]. eapply suffix_trans; apply psuffix_suffix; eauto. }
    destruct (skip cur) as [r1|] eqn:Es; [|discriminate].
    destruct (len r1 <? stop); [discriminate|].
    pose proof (skip_psuffix _ _ Es) as Hs1. pose proof (psuffix_len _ _ Hs1).
    destruct (IHf _ _ _ _ _ _ H) as (e & He & Hsuf & Hle). exists e. split; [exact He|].
    split; [|lia]. eapply suffix_trans; [exact Hsuf|apply psuffix_suffix; exact Hs1].
Qed.

(* field 10: the rest is a proper suffix; the entry's key and value fit into what followed
   the length prefix, and into the entry itself when it is contained *)
Lemma xattr_field_spec wt r f rest :
  xattr_field wt r = Some (f, rest) ->
  psuffix rest r /\
  exists k v, f = SF_xattr k v /\ len k + len v < len r /\
              (xattr_contained r = true -> len k + len v + len rest < len r).
Proof.
  unfold xattr_field, xattr_contained. destruct (wt =? 2); [|discriminate].
  destruct (get_varint r) as [[n r1]|] eqn:Ev; [|discriminate].
  pose proof (get_varint_psuffix _ _ _ Ev) as Hr1. pose proof (psuffix_len _ _ Hr1) as Hl1.
  destruct (N.leb_spec n (len r1)) as [Hn|Hn]; [|discriminate].
  destruct (dec_entry (length r1) (len r1 - n) r1 [] []) as [[k v]|] eqn:Ed; [|discriminate].
  intros H. inversion H; subst. clear H.
  destruct (dec_entry_end _ _ _ _ _ _ _ Ed) as (e & He & Hsuf & Hle). rewrite He.
  cbn [len] in Hle.
  assert (Hrest : len (skipn (N.to_nat n) r1) = len r1 - n).
  { rewrite !len_length, skipn_length. rewrite len_length in Hn. lia. }
  split.
  - eapply psuffix_suffix_trans; [|exact Hr1]. exists (firstn (N.to_nat n) r1). symmetry. apply firstn_skipn.
  - exists k, v. split; [reflexivity|]. split; [lia|].
    intros Hc. apply N.eqb_eq in Hc. rewrite Hrest. lia.
Qed.

(* ------------------------------------------------------------------ one Stat field *)
Definition is_unknown (f : sfield) : bool := match f with SF_unknown _ => true | _ => false end.

Inductive sshape (fn wt : N) (r0 l : bytes) : option (sfield * bytes) -> Prop :=
| sh_bytes mk : (forall b, sfield_alloc (mk b) = len b /\ is_unknown (mk b) = false) ->
                sshape fn wt r0 l (bytes_field wt r0 mk)
| sh_varint mk : (forall v, sfield_alloc (mk v) = 0 /\ is_unknown (mk v) = false) ->
                 sshape fn wt r0 l (varint_field wt r0 mk)
| sh_xattr : fn = 10 -> sshape fn wt r0 l (xattr_field wt r0)
| sh_unknown : sshape fn wt r0 l (unknown_field l SF_unknown).

Lemma dec_sfield_shape l fn wt r0 :
  get_tag l = Some (fn, wt, r0) -> tag_ok fn wt = true -> sshape fn wt r0 l (dec_sfield l).
Proof.
  intros Ht Hok. unfold dec_sfield. rewrite Ht, Hok.
  destruct fn as [|p]; [apply sh_unknown|].
  destruct p as [p|p|]; [destruct p as [p|p|] | destruct p as [p|p|] | ];
    try (destruct p as [p|p|]); try (destruct p as [p|p|]);
    first [ apply sh_unknown
          | apply sh_bytes; intros; split; reflexivity
          | apply sh_varint; intros; split; reflexivity
          | apply sh_xattr; reflexivity ].
Qed.

Lemma bytes_field_spec {F} wt r (mk : bytes -> F) x rest :
  bytes_field wt r mk = Some (x, rest) -> exists b, x = mk b /\ psuffix rest r /\ len b + len rest < len r.
Proof.
  unfold bytes_field. destruct (wt =? 2); [|discriminate].
  destruct (get_bytes r) as [[b r']|] eqn:E; [|discriminate]. intros H; inversion H; subst.
  exists b. split; [reflexivity|]. split; [eapply get_bytes_psuffix; eauto|eapply get_bytes_len; eauto].
Qed.
Lemma varint_field_spec {F} wt r (mk : N -> F) x rest :
  varint_field wt r mk = Some (x, rest) -> exists v, x = mk v /\ psuffix rest r.
Proof.
  unfold varint_field. destruct (wt =? 0); [|discriminate].
  destruct (get_varint r) as [[v r']|] eqn:E; [|discriminate]. intros H; inversion H; subst.
  exists v. split; [reflexivity|]. eapply get_varint_psuffix; eauto.
Qed.

Lemma dec_sfield_tag l f r : dec_sfield l = Some (f, r) ->
  exists fn wt r0, get_tag l = Some (fn, wt, r0) /\ tag_ok fn wt = true.
Proof.
  unfold dec_sfield. destruct (get_tag l) as [[[fn wt] r0]|]; [|discriminate].
  destruct (tag_ok fn wt) eqn:E; [|discriminate]. intros _. eauto.
Qed.

Lemma dec_sfield_spec l f r :
  dec_sfield l = Some (f, r) ->
  psuffix r l /\ (sfield_contained l = true -> sfield_alloc f + len r <= len l) /\
  (forall raw, f = SF_unknown raw -> l = raw ++ r).
Proof.
  intros H. destruct (dec_sfield_tag l f r H) as (fn & wt & r0 & Ht & Hok).
  pose proof (get_tag_psuffix _ _ _ _ Ht) as H0. pose proof (psuffix_len _ _ H0) as Hl0.
  pose proof (dec_sfield_shape l fn wt r0 Ht Hok) as Hsh. rewrite H in Hsh.
  inversion Hsh as [mk Hmk E|mk Hmk E|Hfn E|E].
  - apply bytes_field_spec in E. destruct E as (b & -> & Hs & Hlen). destruct (Hmk b) as [Ha Hu].
    split; [eapply psuffix_suffix_trans; [apply psuffix_suffix; exact Hs|exact H0]|].
    split; [intros _; rewrite Ha; lia|].
    intros raw Hraw. rewrite Hraw in Hu. discriminate.
  - apply varint_field_spec in E. destruct E as (v & -> & Hs). destruct (Hmk v) as [Ha Hu].
    pose proof (psuffix_len _ _ Hs).
    split; [eapply psuffix_suffix_trans; [apply psuffix_suffix; exact Hs|exact H0]|].
    split; [intros _; rewrite Ha; lia|].
    intros raw Hraw. rewrite Hraw in Hu. discriminate.
  - apply xattr_field_spec in E. destruct E as (Hs & k & v & -> & _ & Hc).
    split; [eapply psuffix_suffix_trans; [apply psuffix_suffix; exact Hs|exact H0]|].
    split; [|intros raw Hraw; discriminate].
    unfold sfield_contained. rewrite Ht, Hfn. change (10 =? 10) with true. cbv iota.
    intros Hcont. specialize (Hc Hcont). cbn [sfield_alloc]. lia.
  - apply unknown_field_spec in E. destruct E as (raw & -> & Hne & El).
    split; [exists raw; auto|]. split.
    + intros _. cbn [sfield_alloc]. rewrite El, len_app. lia.
    + intros raw' Hraw. inversion Hraw; subst raw'. exact El.
Qed.

(* ------------------------------------------------------------------ merging a field *)
Lemma xinsert_bytes k v l : xattrs_bytes (xinsert k v l) <= xattrs_bytes l + len k + len v.
Proof.
  induction l as [|[k' v'] r IH]; cbn [xinsert xattrs_bytes]; [lia|].
  destruct (cmp_bytes k k'); cbn [xattrs_bytes]; lia.
Qed.

Lemma apply_sfield_alloc su f su' :
  apply_sfield xinsert su f = Some su' -> stat_alloc su' <= stat_alloc su + sfield_alloc f.
Proof.
  destruct su as [s u]. destruct s as [p m ui g sz mt ln dj dn xa]. unfold apply_sfield. intros H. inversion H; subst; clear H.
  destruct f; unfold stat_alloc, set_path, set_mode, set_uid, set_gid, set_size, set_mtime, set_linkname,
    set_devmajor, set_devminor, set_xattrs;
    cbn [fst snd st_path st_linkname st_xattrs sfield_alloc]; try lia.
  - pose proof (xinsert_bytes k v xa). lia.
  - rewrite len_app. lia.
Qed.

Lemma stat_fold_alloc f : forall l su su',
  fold_fields dec_sfield (apply_sfield xinsert) f l su = Some su' ->
  no_overrun_f f l = true -> stat_alloc su' <= stat_alloc su + len l.
Proof.
  induction f; intros l su su' H Hno.
  - destruct l; cbn [fold_fields] in H; [|discriminate]. inversion H; subst. cbn [len]. lia.
  - destruct l as [|x l']; cbn [fold_fields] in H; [inversion H; subst; cbn [len]; lia|].
    cbn [no_overrun_f] in Hno.
    destruct (dec_sfield (x :: l')) as [[fld r]|] eqn:Ed; [|discriminate].
    destruct (apply_sfield xinsert su fld) as [su1|] eqn:Ea; [|discriminate].
    apply andb_true_iff in Hno. destruct Hno as [Hc Hno].
    destruct (dec_sfield_spec _ _ _ Ed) as (_ & Hb & _). specialize (Hb Hc).
    pose proof (apply_sfield_alloc _ _ _ Ea). pose proof (IHf _ _ _ H Hno). lia.
Qed.

Theorem stat_into_alloc su b su' :
  decode_stat_into xinsert su b = Some su' -> no_overrun_stat b = true ->
  stat_alloc su' <= stat_alloc su + len b.
Proof. apply stat_fold_alloc. Qed.

(* ------------------------------------------------------------------ one Packet field *)
Inductive pshape (l r0 : bytes) (wt : N) : option (pfield * bytes) -> Prop :=
| ph_bytes mk : (forall b, pfield_alloc (mk b) = len b) -> pshape l r0 wt (bytes_field wt r0 mk)
| ph_varint mk : (forall v, pfield_alloc (mk v) = 0) -> pshape l r0 wt (varint_field wt r0 mk)
| ph_unknown : pshape l r0 wt (unknown_field l PF_unknown).

Lemma dec_pfield_shape l fn wt r0 :
  get_tag l = Some (fn, wt, r0) -> tag_ok fn wt = true -> pshape l r0 wt (dec_pfield l).
Proof.
  intros Ht Hok. unfold dec_pfield. rewrite Ht, Hok.
  destruct fn as [|p]; [apply ph_unknown|].
  destruct p as [p|p|]; [destruct p as [p|p|] | destruct p as [p|p|] | ];
    try (destruct p as [p|p|]);
    first [ apply ph_unknown
          | apply ph_bytes; intros; reflexivity
          | apply ph_varint; intros; reflexivity ].
Qed.

Lemma dec_pfield_spec l f r :
  dec_pfield l = Some (f, r) -> psuffix r l /\ pfield_alloc f + len r <= len l.
Proof.
  intros H.
  assert (Htag : exists fn wt r0, get_tag l = Some (fn, wt, r0) /\ tag_ok fn wt = true).
  { unfold dec_pfield in H. destruct (get_tag l) as [[[fn wt] r0]|]; [|discriminate].
    destruct (tag_ok fn wt) eqn:E; [|discriminate]. eauto. }
  destruct Htag as (fn & wt & r0 & Ht & Hok).
  pose proof (get_tag_psuffix _ _ _ _ Ht) as H0. pose proof (psuffix_len _ _ H0) as Hl0.
  pose proof (dec_pfield_shape l fn wt r0 Ht Hok) as Hsh. rewrite H in Hsh.
  inversion Hsh as [mk Hmk E|mk Hmk E|E].
  - apply bytes_field_spec in E. destruct E as (b & -> & Hs & Hlen).
    split; [eapply psuffix_suffix_trans; [apply psuffix_suffix; exact Hs|exact H0]|]. rewrite Hmk. lia.
  - apply varint_field_spec in E. destruct E as (v & -> & Hs). pose proof (psuffix_len _ _ Hs).
    split; [eapply psuffix_suffix_trans; [apply psuffix_suffix; exact Hs|exact H0]|]. rewrite Hmk. lia.
  - apply unknown_field_spec in E. destruct E as (raw & -> & Hne & El).
    split; [exists raw; auto|]. cbn [pfield_alloc]. rewrite El, len_app. lia.
Qed.

Lemma apply_pfield_alloc q f q' :
  apply_pfield xinsert q f = Some q' -> pfield_contained f = true ->
  pstate_alloc q' <= pstate_alloc q + pfield_alloc f.
Proof.
  destruct q as [t os i d u]. unfold apply_pfield, pstate_alloc.
  destruct f; cbn [q_type q_stat q_id q_data q_unk pfield_alloc pfield_contained]; intros H Hc.
  - inversion H; subst. cbn [q_stat q_data q_unk]. lia.
  - set (su0 := match os with Some su => su | None => (empty_stat, []) end) in *.
    destruct (decode_stat_into xinsert su0 payload) as [su'|] eqn:Ed; [|discriminate].
    inversion H; subst. cbn [q_stat q_data q_unk].
    pose proof (stat_into_alloc _ _ _ Ed Hc) as Hb.
    assert (stat_alloc su0 = match os with Some su => stat_alloc su | None => 0 end).
    { unfold su0. destruct os; reflexivity. }
    lia.
  - inversion H; subst. cbn [q_stat q_data q_unk]. lia.
  - inversion H; subst. cbn [q_stat q_data q_unk]. lia.
  - inversion H; subst. cbn [q_stat q_data q_unk]. rewrite len_app. lia.
Qed.

Lemma packet_fold_alloc f : forall l q q',
  fold_fields dec_pfield (apply_pfield xinsert) f l q = Some q' ->
  no_overrun_pf f l = true -> pstate_alloc q' <= pstate_alloc q + len l.
Proof.
  induction f; intros l q q' H Hno.
  - destruct l; cbn [fold_fields] in H; [|discriminate]. inversion H; subst. cbn [len]. lia.
  - destruct l as [|x l']; cbn [fold_fields] in H; [inversion H; subst; cbn [len]; lia|].
    cbn [no_overrun_pf] in Hno.
    destruct (dec_pfield (x :: l')) as [[fld r]|] eqn:Ed; [|discriminate].
    destruct (apply_pfield xinsert q fld) as [q1|] eqn:Ea; [|discriminate].
    apply andb_true_iff in Hno. destruct Hno as [Hc Hno].
    destruct (dec_pfield_spec _ _ _ Ed) as (_ & Hb).
    pose proof (apply_pfield_alloc _ _ _ Ea Hc). pose proof (IHf _ _ _ H Hno). lia.
Qed.

Lemma packet_of_alloc q : packet_alloc (packet_of q) = pstate_alloc q.
Proof.
  destruct q as [t os i d u]. unfold packet_of, packet_alloc, pstate_alloc.
  cbn [q_type q_stat q_id q_data q_unk pstat pdata].
  destruct os as [[s su]|]; reflexivity.
Qed.

(* ------------------------------------------------------------------ decoded size <= input *)
Theorem decoded_size_le_input_proof :
  (forall b su, decode_stat_u b = Some su -> no_overrun_stat b = true -> stat_alloc su <= len b) /\
  (forall b x, decode_packet_u b = Some x -> no_overrun_packet b = true -> packet_alloc x <= len b).
Proof.
  split.
  - intros b su H Hno. unfold decode_stat_u in H.
    pose proof (stat_into_alloc _ _ _ H Hno) as Hb.
    change (stat_alloc (empty_stat, [])) with 0 in Hb. lia.
  - intros b x H Hno. unfold decode_packet_u in H.
    destruct (decode_packet_into xinsert empty_pstate b) as [q|] eqn:E; [|discriminate].
    inversion H; subst. rewrite packet_of_alloc.
    pose proof (packet_fold_alloc _ _ _ _ E Hno) as Hb.
    change (pstate_alloc empty_pstate) with 0 in Hb. lia.
Qed.

(* the 16-byte witness of corpus/C20/overrun.case: three nested entries whose keys run to the
   end of the message, then path "ab": 12 + 8 + 4 + 2 = 26 bytes decoded from 16 *)
Definition overrun_witness : bytes := [82; 2; 10; 12; 82; 2; 10; 8; 82; 2; 10; 4; 10; 2; 97; 98].

Theorem decoded_size_le_input_refuted_proof :
  (exists b su, decode_stat_u b = Some su /\ len b = 16 /\ stat_alloc su = 26) /\
  (exists b x, decode_packet_u b = Some x /\ len b = 18 /\ packet_alloc x = 26).
Proof.
  split.
  - exists overrun_witness. eexists. split; [vm_compute; reflexivity|]. split; vm_compute; reflexivity.
  - exists (18 :: 16 :: overrun_witness). eexists. split; [vm_compute; reflexivity|]. split; vm_compute; reflexivity.
Qed.

(* ------------------------------------------------------------------ fuel is never the error *)
Section FoldFuel.
  Context {F St : Type}.
  Variable decf : bytes -> option (F * bytes).
  Variable app : St -> F -> option St.
  Hypothesis decf_shorter : forall l f r, decf l = Some (f, r) -> (length r < length l)%nat.

  Lemma fold_fields_fuel n : forall m l st,
    (length l <= n)%nat -> (length l <= m)%nat -> fold_fields decf app n l st = fold_fields decf app m l st.
  Proof.
    induction n; intros m l st Hn Hm.
    - destruct l; [destruct m; reflexivity|cbn [length] in Hn; lia].
    - destruct l as [|x l']; [destruct m; reflexivity|].
      destruct m as [|m]; [cbn [length] in Hm; lia|]. cbn [fold_fields].
      destruct (decf (x :: l')) as [[fld r]|] eqn:E; [|reflexivity].
      destruct (app st fld) as [st'|]; [|reflexivity].
      apply decf_shorter in E. apply IHn; lia.
  Qed.
End FoldFuel.

Lemma dec_sfield_shorter l f r : dec_sfield l = Some (f, r) -> (length r < length l)%nat.
Proof. intros H. apply psuffix_length. apply (dec_sfield_spec _ _ _ H). Qed.
Lemma dec_pfield_shorter l f r : dec_pfield l = Some (f, r) -> (length r < length l)%nat.
Proof. intros H. apply psuffix_length. apply (dec_pfield_spec _ _ _ H). Qed.

Lemma skip_loop_fuel n : forall m d l,
  (length l <= n)%nat -> (length l <= m)%nat -> skip_loop n d l = skip_loop m d l.
Proof.
  induction n; intros m d l Hn Hm.
  - destruct l; [destruct m; reflexivity|cbn [length] in Hn; lia].
  - destruct l as [|x l']; [destruct m; reflexivity|].
    destruct m as [|m]; [cbn [length] in Hm; lia|]. cbn [skip_loop].
    destruct (get_varint (x :: l')) as [[w r0]|] eqn:Ev; [|reflexivity].
    apply get_varint_psuffix in Ev.
    set (step := match w mod 8 with
       | 0 => match get_varint r0 with Some (_, r') => Some (r', d) | None => None end
       | 1 => match take_n 8 r0 with Some (_, r') => Some (r', d) | None => None end
       | 2 => match get_bytes r0 with Some (_, r') => Some (r', d) | None => None end
       | 3 => Some (r0, S d)
       | 4 => match d with O => None | S d' => Some (r0, d') end
       | 5 => match take_n 4 r0 with Some (_, r') => Some (r', d) | None => None end
       | _ => None
       end).
    assert (Hs : forall r' d', step = Some (r', d') -> suffix r' r0).
    { intros r' d' Hst. unfold step in Hst.
      destruct (w mod 8) as [|p]; [|do 3 (try destruct p as [p|p|])]; cbv iota beta in Hst; try discriminate;
      first
      [ inversion Hst; subst; apply suffix_refl
      | destruct d; [discriminate|]; inversion Hst; subst; apply suffix_refl
      | destruct (get_varint r0) as [[v1 r1]|] eqn:E1; [|discriminate]; inversion Hst; subst;
        apply psuffix_suffix; eapply get_varint_psuffix; eauto
      | destruct (get_bytes r0) as [[a1 r1]|] eqn:E1; [|discriminate]; inversion Hst; subst;
        apply psuffix_suffix; eapply get_bytes_psuffix; eauto
      | destruct (take_n 4 r0) as [[a1 r1]|] eqn:E1; [|discriminate]; inversion Hst; subst;
        apply take_n_spec in E1; destruct E1 as [-> _]; eexists; reflexivity
      | destruct (take_n 8 r0) as [[a1 r1]|] eqn:E1; [|discriminate]; inversion Hst; subst;
        apply take_n_spec in E1; destruct E1 as [-> _]; eexists; reflexivity ]. }
    destruct step as [[r' [|d']]|] eqn:Est; [reflexivity| |reflexivity].
    specialize (Hs r' (S d') eq_refl).
    pose proof (psuffix_length _ _ (psuffix_suffix_trans _ _ _ Hs Ev)) as Hl.
    apply IHn; lia.
Qed.

Lemma dec_entry_fuel n : forall m stop cur k v,
  (length cur <= n)%nat -> (length cur <= m)%nat -> dec_entry n stop cur k v = dec_entry m stop cur k v.
Proof.
  induction n; intros m stop cur k v Hn Hm.
  - destruct cur; [|cbn [length] in Hn; lia]. destruct m; cbn [dec_entry len]; destruct (0 <=? stop) eqn:E; try reflexivity; lia.
  - destruct m as [|m].
    + destruct cur; [|cbn [length] in Hm; lia]. cbn [dec_entry len]. destruct (0 <=? stop) eqn:E; try reflexivity; lia.
    + cbn [dec_entry]. destruct (len cur <=? stop); [reflexivity|].
      destruct (get_tag cur) as [[[fn wt] r]|] eqn:Et; [|reflexivity].
      pose proof (psuffix_length _ _ (get_tag_psuffix _ _ _ _ Et)) as Hr.
      destruct (fn =? 1).
      { destruct (get_bytes r) as [[k1 r1]|] eqn:Eb; [|reflexivity].
        pose proof (psuffix_length _ _ (get_bytes_psuffix _ _ _ Eb)). apply IHn; lia. }
      destruct (fn =? 2).
      { destruct (get_bytes r) as [[k1 r1]|] eqn:Eb; [|reflexivity].
        pose proof (psuffix_length _ _ (get_bytes_psuffix _ _ _ Eb)). apply IHn; lia. }
      destruct (skip cur) as [r1|] eqn:Es; [|reflexivity].
      destruct (len r1 <? stop); [reflexivity|].
      pose proof (psuffix_length _ _ (skip_psuffix _ _ Es)). apply IHn; lia.
Qed.

(* ------------------------------------------------------------------ total, no over-read *)
Theorem decode_total_no_overread_proof :
  (* every field decoder returns a proper suffix of its input; a retained unknown field is
     exactly the consumed prefix *)
  (forall l f r, dec_sfield l = Some (f, r) ->
     (exists p, p <> [] /\ l = p ++ r) /\ (forall raw, f = SF_unknown raw -> l = raw ++ r)) /\
  (forall l f r, dec_pfield l = Some (f, r) -> exists p, p <> [] /\ l = p ++ r) /\
  (forall l r, skip l = Some r -> exists p, p <> [] /\ l = p ++ r) /\
  (* the loops are the unbounded loops of the code: any fuel >= the input length gives the
     same result, so an error is never "out of fuel" *)
  (forall ins su b n, (length b <= n)%nat ->
     fold_fields dec_sfield (apply_sfield ins) n b su = decode_stat_into ins su b) /\
  (forall ins q b n, (length b <= n)%nat ->
     fold_fields dec_pfield (apply_pfield ins) n b q = decode_packet_into ins q b) /\
  (forall d l n, (length l <= n)%nat -> skip_loop n d l = skip_loop (length l) d l) /\
  (forall stop cur k v n, (length cur <= n)%nat ->
     dec_entry n stop cur k v = dec_entry (length cur) stop cur k v).
Proof.
  split; [|split; [|split; [|split; [|split; [|split]]]]].
  - intros l f r H. destruct (dec_sfield_spec _ _ _ H) as (Hs & _ & Hu). split; [exact Hs|exact Hu].
  - intros l f r H. apply (dec_pfield_spec _ _ _ H).
  - intros l r H. exact (skip_psuffix _ _ H).
  - intros ins su b n Hn. unfold decode_stat_into. apply fold_fields_fuel; [exact dec_sfield_shorter|lia|lia].
  - intros ins q b n Hn. unfold decode_packet_into. apply fold_fields_fuel; [exact dec_pfield_shorter|lia|lia].
  - intros d l n Hn. apply skip_loop_fuel; lia.
  - intros stop cur k v n Hn. apply dec_entry_fuel; lia.
Qed.

(* ------------------------------------------------------------------ generic runtime *)
Theorem generic_agrees_proof :
  (forall s, wf_stat s -> utf8_valid_stat s = true ->
     generic_encode_stat s = Some (encode_stat s) /\
     generic_decode_stat (encode_stat s) = Some s) /\
  (forall p, wf_packet p -> utf8_valid_packet p = true ->
     generic_encode_packet p = Some (encode_packet p) /\
     generic_decode_packet (encode_packet p) = Some p).
Proof.
  split.
  - intros s Hwf Hu. unfold generic_encode_stat, generic_decode_stat.
    destruct (stat_roundtrip_proof s Hwf) as [E _]. rewrite E, Hu. split; reflexivity.
  - intros p Hwf Hu. unfold generic_encode_packet, generic_decode_packet.
    destruct (packet_roundtrip_proof p Hwf) as [E _]. rewrite E, Hu. split; reflexivity.
Qed.

(* path "a\xffb": carried by the VT codec, refused by the generic runtime in both directions *)
Definition non_utf8_stat : stat := set_path empty_stat [97; 255; 98].

Theorem generic_agrees_refuted_proof :
  exists s, wf_stat s /\ decode_stat (encode_stat s) = Some s /\
            generic_encode_stat s = None /\ generic_decode_stat (encode_stat s) = None.
Proof.
  exists non_utf8_stat. split; [vm_compute; repeat split; reflexivity|].
  split; [vm_compute; reflexivity|]. split; vm_compute; reflexivity.
Qed.
