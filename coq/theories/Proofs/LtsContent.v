(* The content part of C08 on the LTS: when Receive returns nil and no Open error was
   injected, every requested file received exactly its chunks — whatever the interleaving.
   Counting invariants per file id, in the style of LtsTok.v. *)
From Coq Require Import List Arith Bool PeanoNat Lia ZifyBool.
From FS Require Import Model.Lts Model.LtsExplore Proofs.LtsInv Proofs.LtsSafe Proofs.LtsTerm Proofs.LtsC08 Proofs.LtsTok.
Import ListNotations.

Definition is_data (id : nat) (pk : packet) : bool :=
  match pk with PData x => Nat.eqb id x | _ => false end.
Definition cntD (id : nat) (l : list packet) : nat := length (filter (is_data id) l).
Definition rlw_h (id : nat) (pc : rlpc) : nat := match pc with RL_Write x => b2n (Nat.eqb id x) | _ => 0 end.
Definition pg (p : params) (id : nat) (w : wkpc) : nat :=
  match w with
  | WK_Read h c | WK_Lock h c | WK_Send h c => if Nat.eqb id h then c else 0
  | WK_LockFin h | WK_SendFin h => if Nat.eqb id h then chunks_of p h else 0
  | _ => 0
  end.
Definition alive (st : state) : bool := match rl_pc st with RL_Drain | RL_Done => false | _ => true end.

Fixpoint noDafterE (id : nat) (l : list packet) : bool :=
  match l with
  | [] => true
  | pk :: r => (if is_dend id pk then cntD id r =? 0 else true) && noDafterE id r
  end.

Lemma cntD_cons : forall id x l, cntD id (x :: l) = b2n (is_data id x) + cntD id l.
Proof. intros. unfold cntD. cbn. destruct (is_data id x); reflexivity. Qed.
Lemma cntD_app : forall id l x, cntD id (l ++ [x]) = cntD id l + b2n (is_data id x).
Proof. intros. unfold cntD. rewrite filter_app, app_length. cbn. destruct (is_data id x); reflexivity. Qed.
Lemma noD_cons : forall id x r,
  noDafterE id (x :: r) = (if is_dend id x then cntD id r =? 0 else true) && noDafterE id r.
Proof. reflexivity. Qed.
Lemma noD_app_other : forall id l x, is_data id x = false -> noDafterE id (l ++ [x]) = noDafterE id l.
Proof.
  induction l; intros x H; cbn.
  - destruct (is_dend id x); reflexivity.
  - rewrite IHl by auto. rewrite cntD_app, H. cbn. rewrite Nat.add_0_r. reflexivity.
Qed.
Lemma noD_app_noend : forall id l x, cntE id l = 0 -> noDafterE id (l ++ [x]) = true.
Proof.
  induction l; intros x H; cbn.
  - destruct (is_dend id x); reflexivity.
  - rewrite cntE_cons in H. destruct (is_dend id a); cbn in H; try lia. cbn. apply IHl. lia.
Qed.
Arguments cntD : simpl never.
Arguments noDafterE : simpl never.

(* ---------- chunk counters of the workers stay within the file ---------- *)
Definition wk_ok (p : params) (w : wkpc) : Prop :=
  match w with
  | WK_Read h c => c <= chunks_of p h
  | WK_Lock h c | WK_Send h c => c < chunks_of p h
  | _ => True
  end.
Definition invW (p : params) (st : state) : Prop :=
  forall j w, nth_error (wks st) j = Some w -> wk_ok p w.

Lemma invW_step : forall p st l st', invW p st -> step p st l = Some st' -> invW p st'.
Proof.
  intros p st l st' I H. unfold invW in *.
  destruct l; unfold_steps H; step_split H; inv_some; subst;
  repeat match goal with w : writer |- _ => destruct w; cbn in * end; subst;
  intros j' w' Hn; cbn in Hn; unfold setw in Hn; cbn in Hn.
  all: try (apply I in Hn; exact Hn).
  all: try (match type of Hn with context [set_nth ?j _ _] =>
              match goal with E : nth_error _ j = Some _ |- _ =>
                rewrite (nth_error_set_nth _ _ _ j' _ _ E) in Hn; pose proof (I _ _ E) as IE end end;
            destruct (Nat.eqb_spec j j');
            [ inv_some; subst; cbn in *;
              repeat match goal with
                     | H : (_ <? _) = true |- _ => apply Nat.ltb_lt in H
                     | H : (_ <? _) = false |- _ => apply Nat.ltb_ge in H
                     end; auto; try lia
            | apply I in Hn; auto ]; fail).
Qed.

Lemma invW_reachable : forall p st, reachable p st -> invW p st.
Proof.
  induction 1.
  - intros j w Hn. apply nth_error_repeat in Hn. subst. exact Logic.I.
  - eapply invW_step; eauto.
Qed.

(* ---------- the per-file counting invariants ---------- *)
Definition Wc (id : nat) (st : state) : nat := cnt id (written st) + rlw_h id (rl_pc st).
Definition Fc (id : nat) (st : state) : nat := cntD id (buf_sr st).
Definition Pgc (p : params) (id : nat) (st : state) : nat := sumf (pg p id) (wks st).
Definition early (id : nat) (st : state) : nat := cnt id (sfiles st) + rq_h id (rq_pc st) + cnt id (pipe st).
Definition heldc (id : nat) (st : state) : nat := sumf (held id) (wks st).
Definition donec (id : nat) (st : state) : nat := cntE id (buf_sr st) + rl_h id (rl_pc st) + cnt id (completed st).
Definition latec (id : nat) (st : state) : nat := rl_h id (rl_pc st) + cnt id (completed st).

Record cinv (p : params) (id : nat) (st : state) : Prop := {
  (* not yet served: no data of this file anywhere *)
  c_za : early id st >= 1 \/ sw_bound st <= id -> Wc id st + Fc id st = 0;
  (* being served: chunks written + in flight = the worker's counter *)
  c_ea : alive st = true -> g_open_err st = false -> heldc id st >= 1 -> Wc id st + Fc id st = Pgc p id st;
  (* served: all chunks are written or in flight *)
  c_eb : alive st = true -> g_open_err st = false -> donec id st >= 1 -> Wc id st + Fc id st = chunks_of p id;
  (* no DATA of the file follows its terminator in the stream *)
  c_od : noDafterE id (buf_sr st) = true;
  (* once the terminator has been received nothing of the file is in flight *)
  c_ne : latec id st >= 1 -> Fc id st = 0 /\ rlw_h id (rl_pc st) = 0;
  (* ... and all its chunks have been written *)
  c_jf : latec id st >= 1 -> g_open_err st = false -> cnt id (written st) = chunks_of p id
}.

Lemma sumf_ge_nth : forall A (f : A -> nat) l j w, nth_error l j = Some w -> f w <= sumf f l.
Proof.
  induction l; destruct j; intros w H.
  - unfold nth_error in H; discriminate.
  - unfold nth_error in H; discriminate.
  - unfold nth_error in H. injection H as H. subst. unfold sumf; cbn. lia.
  - change (nth_error l j = Some w) in H. apply IHl in H. unfold sumf in *; cbn. lia.
Qed.

Ltac split_eqb id :=
  repeat match goal with
  | |- context [Nat.eqb id ?x] => destruct (Nat.eqb_spec id x); [subst|]
  | H : context [Nat.eqb id ?x] |- _ => destruct (Nat.eqb_spec id x); [subst|]
  end.

Lemma pg_zero : forall p id l, sumf (held id) l = 0 -> sumf (pg p id) l = 0.
Proof.
  induction l; intro H; auto.
  unfold sumf in *; cbn in *.
  assert (held id a = 0 /\ fold_right (fun x acc => held id x + acc) 0 l = 0) by lia.
  destruct H0 as [H1 H2]. rewrite (IHl H2).
  destruct a; cbn in *; auto; destruct (Nat.eqb id h); cbn in *; auto; discriminate.
Qed.

Ltac sumf_facts p id :=
  try match goal with E : nth_error (wks ?s) ?j = Some ?w |- _ =>
        let Y := fresh "Y" in pose proof (sumf_ge_nth _ (held id) _ _ _ E) as Y; cbn [held] in Y;
        match goal with IW : invW p s |- _ =>
          let V := fresh "V" in pose proof (IW _ _ E) as V; cbn [wk_ok] in V end;
        let Z := fresh "Z" in pose proof (pg_zero p id (wks s)) as Z;
        (* the list without worker j *)
        let R1 := fresh "R" in pose proof (sumf_set_nth _ (held id) (wks s) j w WK_Done E) as R1; cbn [held] in R1;
        let R2 := fresh "R" in pose proof (sumf_set_nth _ (pg p id) (wks s) j w WK_Done E) as R2; cbn [pg] in R2;
        let R3 := fresh "R" in pose proof (pg_zero p id (set_nth j WK_Done (wks s))) as R3 end;
  try match goal with E : nth_error ?l ?j = Some ?w |- context [set_nth ?j ?x ?l] =>
        let X1 := fresh "X" in pose proof (sumf_set_nth _ (held id) l j w x E) as X1; cbn [held] in X1;
        let X2 := fresh "X" in pose proof (sumf_set_nth _ (pg p id) l j w x E) as X2; cbn [pg] in X2;
        let Z := fresh "Z" in pose proof (pg_zero p id (set_nth j x l)) as Z end.

Ltac od_tac Od :=
  first
  [ exact Od
  | rewrite noD_app_other by reflexivity; exact Od ].

Ltac cinv_prep p id Od :=
  constructor;
  unfold Wc, Fc, Pgc, early, heldc, donec, latec, alive, sw_bound, setw, setwr, s_fail, r_fail, d_fail, eg_fail, rl_fail, dl_fail, wr_fail; cbn;
  repeat match goal with E : ?f ?s = ?v |- _ => match type of s with state => rewrite E in * end end; cbn in *;
  sumf_facts p id;
  try (rewrite noD_cons in Od; cbn [is_dend] in Od; apply andb_prop in Od;
       let Od1 := fresh "Od1" in destruct Od as [Od1 Od]);
  rewrite ?cnt_cons, ?cnt_app, ?cntE_cons, ?cntE_app, ?cntD_cons, ?cntD_app in *; cbn [is_dend is_data b2n] in *.

Ltac cinv_fin id Od :=
  try (od_tac Od);
  try (match goal with |- noDafterE id (_ ++ [PData ?h]) = true =>
         destruct (Nat.eqb_spec id h);
         [ subst; apply noD_app_noend; cbn [b2n] in *; rewrite ?Nat.eqb_refl in *; cbn [b2n] in *; lia
         | rewrite noD_app_other by (cbn; apply Nat.eqb_neq; auto); exact Od ] end);
  try (intros; lia);
  try (intros; split_eqb id; cbn [b2n] in *; lia);
  try (intros; match goal with M : memb ?x (sfiles _) = true |- _ =>
         destruct (Nat.eqb_spec id x);
         [ subst; rewrite ?cnt_remb_same in *; pose proof (cnt_memb _ _ M)
         | rewrite ?cnt_remb_other in * by auto ]; cbn [b2n] in *; lia end).

Ltac cinv_label p id :=
  let T1 := fresh "T1" in let T2 := fresh "T2" in
  intros (T1 & T2) IW [Za Ea Eb Od Ne Jf] H;
  specialize (T1 id); specialize (T2 id);
  unfold Wc, Fc, Pgc, early, heldc, donec, latec, alive, sw_bound, tok in *;
  unfold_steps H; step_split H; inv_some; subst;
  [> cinv_prep p id Od ..]; cinv_fin id Od.

Lemma cinv_step_wk : forall p id st j st',
  tokinv st -> invW p st -> cinv p id st -> step p st (LWorker j) = Some st' -> cinv p id st'.
Proof. intros p id st j st'. cinv_label p id. Qed.
Lemma cinv_step_wko : forall p id st j st',
  tokinv st -> invW p st -> cinv p id st -> step p st (LWorkerOpenErr j) = Some st' -> cinv p id st'.
Proof. intros p id st j st'. cinv_label p id. Qed.
Lemma cinv_step_wkr : forall p id st j st',
  tokinv st -> invW p st -> cinv p id st -> step p st (LWorkerReadErr j) = Some st' -> cinv p id st'.
Proof. intros p id st j st'. cinv_label p id. Qed.
