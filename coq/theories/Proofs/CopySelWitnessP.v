(* Witnesses for the refutations of C16 (evaluated by vm_compute): K1 (late shadow) and the
   unsafe star literal, both on the copier. *)
From Coq Require Import List NArith Lia Bool String Ascii.
From FS Require Import Sx Model.Path Model.Stat Model.Tree Model.Pattern Model.FilterWalk Model.CopierSel
  Proofs.Lex Proofs.PathP Proofs.PatternP Proofs.WitnessP.
Import ListNotations.
Open Scope bool_scope.

Definition lpaths (l : list litem) : list (list N) := map l_path l.

(* ---- K1: include [d, !d/c, d], tree d/{c,e}: the copier does not copy d/c ---- *)
Lemma k1_copy :
  exists fs' log, copy_sel pm_lit k1_cfg (SrcDir st_dir k1_view) empty_dst = (fs', log, None)
    /\ lpaths log = map bs ["d"; "d/e"]%string
    /\ lpaths (flat_items (keep_naive pm_lit k1_cfg) k1_view) = map bs ["d"; "d/c"; "d/e"]%string
    /\ log <> flat_items (keep_naive pm_lit k1_cfg) k1_view.
Proof.
  eexists. eexists. split; [vm_compute; reflexivity|]. split; [vm_compute; reflexivity|].
  split; [vm_compute; reflexivity|]. intros H. vm_compute in H. discriminate.
Qed.

Lemma k1_wf : wf_tree k1_view = true /\ wf_strict k1_view = true /\ all_paths (nls_path pm_lit k1_cfg) k1_view = false.
Proof. vm_compute. auto. Qed.

(* ---- unsafe star literal: include [a{2}/*], tree aa/x: the copier copies aa, aa/x; the walk
        (as the code runs it, pruning by byte prefix) reports nothing ---- *)
Lemma k5_copy :
  exists fs' log, copy_sel pm_k5 k5_cfg (SrcDir st_dir k5_view) empty_dst = (fs', log, None)
    /\ lpaths log = map bs ["aa"; "aa/x"]%string
    /\ filter_walk pm_k5 id_map k5_cfg k5_view = []
    /\ map l_st log <> filter_walk pm_k5 id_map k5_cfg k5_view.
Proof.
  eexists. eexists. split; [vm_compute; reflexivity|]. split; [vm_compute; reflexivity|].
  split; [vm_compute; reflexivity|]. intros H. vm_compute in H. discriminate.
Qed.

Lemma k5_wf : wf_tree k5_view = true.
Proof. vm_compute. reflexivity. Qed.
