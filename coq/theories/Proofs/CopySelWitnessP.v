(* Witnesses for the refutations of C16 (evaluated by vm_compute): K1 (late shadow) and the
   unsafe star literal, both on the copier. *)
From Coq Require Import List NArith Lia Bool String Ascii.
From FS Require Import Sx Model.Path Model.Stat Model.Tree Model.Pattern Model.FilterWalk Model.CopierSel
  Proofs.Lex Proofs.PathP Proofs.PatternP Proofs.WitnessP.
Import ListNotations.
Open Scope bool_scope.

Definition lpaths (l : list litem) : list (list N) := map l_path l.

(* ---- K1: include [d, !d/c, d], tree d/{c,e}: the copier does not copy d/c ---- *)
Lemma k1_copy :
  exists fs' log, copy_sel pm_lit k1_cfg false (SrcDir st_dir k1_view) empty_dst = (fs', log, None)
    /\ lpaths log = map bs ["d"; "d/e"]%string
    /\ lpaths (flat_items (keep_naive pm_lit k1_cfg) k1_view) = map bs ["d"; "d/c"; "d/e"]%string
    /\ log <> flat_items (keep_naive pm_lit k1_cfg) k1_view.
Proof.
  eexists. eexists. split; [vm_compute; reflexivity|]. split; [vm_compute; reflexivity|].
  split; [vm_compute; reflexivity|]. intros H. vm_compute in H. discriminate.
Qed.

Lemma k1_wf : wf_tree k1_view = true /\ wf_strict k1_view = true /\ all_paths (nls_path pm_lit k1_cfg) k1_view = false.
Proof. vm_compute. auto. Qed.

(* ---- unsafe star literal: include [a{2}/*], tree aa/x: the copier copies aa, aa/x; the walk
        (as the code runs it, pruning by byte prefix) reports nothing ---- *)
Lemma k5_copy :
  exists fs' log, copy_sel pm_k5 k5_cfg false (SrcDir st_dir k5_view) empty_dst = (fs', log, None)
    /\ lpaths log = map bs ["aa"; "aa/x"]%string
    /\ filter_walk pm_k5 id_map k5_cfg k5_view = []
    /\ map l_st log <> filter_walk pm_k5 id_map k5_cfg k5_view.
Proof.
  eexists. eexists. split; [vm_compute; reflexivity|]. split; [vm_compute; reflexivity|].
  split; [vm_compute; reflexivity|]. intros H. vm_compute in H. discriminate.
Qed.

Lemma k5_wf : wf_tree k5_view = true.
Proof. vm_compute. reflexivity. Qed.

(* packaged for Properties/C16.v *)
Lemma copy_ne_naive_refuted_proof :
  exists pmatch c rootst view fs0 fs' log,
    prefix_semantics pmatch /\ wf_tree view = true /\ wf_strict view = true /\
    all_paths (nls_path pmatch c) view = false /\
    copy_sel pmatch c false (SrcDir rootst view) fs0 = (fs', log, None) /\
    log <> flat_items (keep_naive pmatch c) view.
Proof.
  destruct k1_copy as (fs' & log & H & _ & _ & Hne). destruct k1_wf as (W1 & W2 & W3).
  exists pm_lit, k1_cfg, st_dir, k1_view, empty_dst, fs', log.
  exact (conj (lit_pmatch_prefix_semantics _) (conj W1 (conj W2 (conj W3 (conj H Hne))))).
Qed.

Lemma copy_ne_filter_walk_refuted_proof :
  exists pmatch c rootst view fs0 fs' log,
    prefix_semantics pmatch /\ wf_tree view = true /\ cfg_star_safe c = false /\
    copy_sel pmatch c false (SrcDir rootst view) fs0 = (fs', log, None) /\
    map l_st log <> filter_walk pmatch id_map c view.
Proof.
  destruct k5_copy as (fs' & log & H & _ & _ & Hne).
  exists pm_k5, k5_cfg, st_dir, k5_view, empty_dst, fs', log.
  exact (conj pm_k5_semantics (conj k5_wf (conj k5_not_safe (conj H Hne)))).
Qed.

(* ---- the tree of filter_test.go with distinctive directory metadata (corpus/C16/examples.case
        runs the same inputs against the real copy.Copy) ---- *)
Definition mk_stat (mode uid gid : N) (x : list (list N * list N)) : stat :=
  {| st_path := []; st_mode := mode; st_uid := uid; st_gid := gid; st_size := 0%N; st_mtime := 0%N;
     st_linkname := []; st_devmajor := 0%N; st_devminor := 0%N; st_xattrs := x |}.
Definition Dm (name : string) (mode uid gid : N) (x : list (list N * list N)) (kids : list node) : node :=
  Node (bs name) (mk_stat (ModeDir + mode) uid gid x) [] kids.
Definition Fx (name : string) : node := Node (bs name) (mk_stat 420 0 0 []) [120%N] [].

Definition c16_view : list node :=
  [ Dm "a" 457 0 7 [(bs "user.kb", [118%N])]
      [ Dm "b" (ModeSticky + 511) 5 0 []
          [ Dm "bar" 448 1000 5 [(bs "user.ka", [1%N; 2%N])] [Fx "foo"; Fx "fop"]; Dm "baz" 493 0 0 [] [] ] ];
    Dm "bar" 493 0 0 [] [Fx "foo"];
    Dm "baz" 493 0 0 [] [];
    Dm "foo" 493 0 0 [] [ Dm "bar" 493 0 0 [] [Fx "bee"] ];
    Fx "foo2" ].

Definition meta (o : option Tree.entry) : option (N * N * N * list (list N * list N)) :=
  option_map (fun e : Tree.entry => (st_mode (fst e), st_uid (fst e), st_gid (fst e), st_xattrs (fst e))) o.

Definition run_ex (pm : list N -> list N -> bool) (c : cfg) (fs0 : dfs) (look : list string) :=
  let '(fs', log, e) := copy_sel pm c false (SrcDir st_dir c16_view) fs0 in
  (e, map (fun it => (l_path it, l_sel it)) log, map (fun p => meta (fs' (bs p))) look).

Definition cfg_deep : cfg := {| c_inc := Some [ip "a/b/bar/fop"]; c_exc := None; c_prune := true |}.
Definition dst_with_a : dfs :=
  fun q => if bytes_eqb q [] then Some (blank_dir [])
           else if bytes_eqb q (bs "a") then Some (mk_stat (ModeDir + 320) 9 0 [(bs "user.old", [9%N])], [])
           else None.
Definition dst_file_a : dfs :=
  fun q => if bytes_eqb q [] then Some (blank_dir [])
           else if bytes_eqb q (bs "a") then Some (mk_stat 420 0 0 [], [102%N])
           else None.

Definition log_of (pm : list N -> list N -> bool) (c : cfg) (view : list node) (fs0 : dfs) : list litem :=
  let '(_, log, _) := copy_sel pm c false (SrcDir st_dir view) fs0 in log.
Definition err_of (pm : list N -> list N -> bool) (c : cfg) (view : list node) (fs0 : dfs) : option cerr :=
  let '(_, _, e) := copy_sel pm c false (SrcDir st_dir view) fs0 in e.
