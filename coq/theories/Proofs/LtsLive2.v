From Coq Require Import List Arith Bool PeanoNat Lia ZifyBool.
From FS Require Import Model.Lts Model.LtsExplore Proofs.LtsInv Proofs.LtsSafe Proofs.LtsTerm Proofs.LtsC08 Proofs.LtsTok
  Proofs.LtsContent Proofs.LtsContent2 Proofs.LtsContent3 Proofs.LtsClean1 Proofs.LtsClean2 Proofs.LtsClean3 Proofs.LtsClean4 Proofs.LtsClean5.
From FS Require Import Proofs.LtsLive1.
Import ListNotations.

Definition canf (p : params) (st : state) : Prop :=
  exists l, fault_free_label l = true /\ step p st l <> None.

Lemma idle_done_held0 : forall id l, forallb (fun w => wk_idle w || wk_done w) l = true -> sumf (held id) l = 0.
Proof.
  induction l; intro H; [reflexivity|].
  change (forallb (fun w => wk_idle w || wk_done w) (a :: l)) with ((wk_idle a || wk_done a) && forallb (fun w => wk_idle w || wk_done w) l) in H.
  apply andb_prop in H. destruct H as [H1 H2]. unfold sumf in *; cbn [fold_right]. rewrite (IHl H2).
  destruct a; cbn in *; try discriminate; reflexivity.
Qed.

Lemma cnt0_nil : forall l, (forall id, cnt id l = 0) -> l = [].
Proof.
  intros [|a l] H; auto. specialize (H a). rewrite cnt_cons, Nat.eqb_refl in H. cbn in H. lia.
Qed.

Lemma notmemb_cnt0 : forall id l, memb id l = false -> cnt id l = 0.
Proof.
  intros id l H. destruct (cnt id l) eqn:E; auto.
  assert (memb id l = true) by (apply cnt_pos_memb; lia). congruence.
Qed.

Section Progress.
  Variables (p : params) (st : state).
  Hypothesis WF : wf_params p.
  Hypothesis HW : p_W p >= 1.
  Hypothesis R : reachable p st.
  Hypothesis K : scal st.
  Hypothesis WQ : forall id, wq p id st.

  Let J := inv_reachable p st R.
  Let J8 := inv8_reachable p st R.
  Let LI := linv_reachable p st R.

  Lemma room_sr_wait : (rl_pc st = RL_Recv \/ rl_pc st = RL_Drain) -> buf_sr st = [] -> room_sr p st = true.
  Proof.
    intros [E|E] B; unfold room_sr, rl_in_recv; rewrite E, B; cbn; apply Nat.ltb_lt; lia.
  Qed.

  Lemma room_rs_wait : rq_pc st = RQ_Recv -> buf_rs st = [] -> room_rs p st = true.
  Proof.
    intros E B; unfold room_rs, rq_in_recv; rewrite E, B; cbn; apply Nat.ltb_lt; lia.
  Qed.

  (* whoever holds the sender's stream mutex is inside SendMsg and completes when there is room *)
  Lemma mutex_s_can : forall g, s_mu st = Some g -> room_sr p st = true -> canf p st.
  Proof.
    intros g M Rm. pose proof (k_sb st K) as Sb.
    destruct (i_mu _ _ J) as [Ms _]. pose proof (proj2 (Ms g) M) as M'.
    destruct g; cbn in M'; try discriminate.
    - destruct (sw_pc st) eqn:?; try discriminate. can_by LSWalk.
    - destruct (nth_error (wks st) j) as [w|] eqn:?; try discriminate.
      destruct w; try discriminate; can_by (LWorker j).
    - destruct (rq_pc st) eqn:?; try discriminate. can_by LReq.
  Qed.

  Lemma mutex_r_can : forall g, r_mu st = Some g -> room_rs p st = true -> canf p st.
  Proof.
    intros g M Rm. pose proof (k_rb st K) as Rb.
    destruct (i_mu _ _ J) as [_ Mr]. pose proof (proj2 (Mr g) M) as M'.
    destruct g; cbn in M'; try discriminate.
    - destruct (do_pc st) eqn:?; try discriminate; can_by LDiffOuter.
    - destruct (nth_error (wrs st) j) as [w|] eqn:?; try discriminate.
      destruct w as [id pc]. cbn in M'. destruct pc; try discriminate. can_by (LWriter j).
  Qed.

  Lemma walker_can : sw_pc st <> SW_Done -> room_sr p st = true -> canf p st.
  Proof.
    intros N Rm. pose proof (k_sb st K) as Sb.
    destruct (sw_pc st) eqn:SW; try congruence.
    - can_by LSWalk.
    - destruct (s_mu st) eqn:M; [eapply mutex_s_can; eauto | can_by LSWalk].
    - can_by LSWalk.
  Qed.

  Lemma worker_can : forall j w, nth_error (wks st) j = Some w -> wk_idle w = false -> wk_done w = false ->
    room_sr p st = true -> canf p st.
  Proof.
    intros j w E NI ND Rm. pose proof (k_sb st K) as Sb.
    destruct w; try discriminate; try (can_by (LWorker j); fail);
    (destruct (s_mu st) eqn:M; [eapply mutex_s_can; eauto | can_by (LWorker j)]).
  Qed.

  Lemma rq_can : match rq_pc st with RQ_Recv | RQ_Push _ | RQ_Done => False | _ => True end ->
    room_sr p st = true -> canf p st.
  Proof.
    intros N Rm. pose proof (k_sb st K) as Sb.
    destruct (rq_pc st) eqn:RQ; try contradiction; try (can_by LReq; fail).
    destruct (s_mu st) eqn:M; [eapply mutex_s_can; eauto | can_by LReq].
  Qed.

  (* fill holding an entry: either the diff channel has room, or the diff loop can take one / is busy *)
  Lemma fill_push_can : fl_pc st = FL_Push -> canf p st.
  Proof.
    intro F. destruct (i_3 _ _ J) as (_ & _ & _ & _ & _ & B6 & B7 & _).
    destruct (dl_pc st) eqn:DL.
    - destruct (room_c2 p st) eqn:Rm.
      + can_by LFill.
      + unfold room_c2, dl_in_next in Rm. rewrite DL in Rm. cbn in Rm. apply Nat.ltb_ge in Rm.
        destruct (c2_n st) eqn:CN; [lia|]. can_by LDiff.
    - can_by LDiff.
    - exfalso. destruct (B7 eq_refl (k_de st K)) as [C _]. apply B6 in C. rewrite F in C. exact C.
  Qed.

  Lemma recvloop_busy_can :
    match rl_pc st with RL_Recv | RL_Drain | RL_Done => False | _ => True end -> canf p st.
  Proof.
    intro N. destruct (rl_pc st) eqn:RL; try contradiction; try (can_by LRecvLoop; fail).
    (* RL_Push *)
    destruct (room_walk p st) eqn:Rm.
    { exists LRecvLoop. split; [reflexivity|]. unfold_goal_steps. rw_goal. discriminate. }
    destruct (fl_pc st) eqn:FL.
    - unfold room_walk, fl_in_sel in Rm. rewrite FL in Rm. cbn in Rm. apply Nat.ltb_ge in Rm.
      destruct (walk_n st) eqn:WN; [lia|]. can_by LFill.
    - apply fill_push_can; auto.
    - can_by LFill.
    - can_by LFill.
    - exfalso. destruct (i_3 _ _ J) as (_ & _ & _ & _ & B5 & _). rewrite FL in B5.
      destruct (B5 (k_de st K)) as [Wc _].
      destruct (i_2 _ _ J) as (_ & _ & _ & _ & _ & K6 & K7 & _). rewrite RL in K6. apply K7 in Wc. congruence.
  Qed.

  Lemma worker0 : exists w, nth_error (wks st) 0 = Some w.
  Proof.
    destruct J8 as (_ & _ & L & _). destruct (wks st) eqn:E; cbn in L; [lia|]. eexists; reflexivity.
  Qed.

  (* some worker is busy (then it can move when the stream has room), or all are idle / done *)
  Lemma workers_split : room_sr p st = true ->
    canf p st \/ forallb (fun w => wk_idle w || wk_done w) (wks st) = true.
  Proof.
    intro Rm. destruct (find_or_all _ (fun w => negb (wk_idle w || wk_done w)) (wks st)) as [(j & w & A & B)|A].
    - left. apply negb_true_iff in B. apply orb_false_elim in B. destruct B. eapply worker_can; eauto.
    - right. rewrite forallb_forall in *. intros x Hx. apply A in Hx. apply negb_true_iff in Hx.
      apply negb_false_iff in Hx. exact Hx.
  Qed.

  (* ---------- after the request loop has seen the receiver's FIN ---------- *)
  Lemma fin_phase_can : g_got_fin_s st = true -> final st = false -> canf p st.
  Proof.
    intros Gs NF.
    destruct (i_1 _ _ J) as (A1 & A2 & A3 & A4 & A5 & A6 & A7 & A8 & A9 & A10 & A11).
    destruct (i_3 _ _ J) as (B1 & B2 & B3 & B4 & B5 & B6 & B7 & B8).
    destruct (i_2 _ _ J) as (_ & _ & C3 & _ & C5 & _ & C7 & _ & C9).
    destruct LI as (N1 & N2 & N3 & N4 & N7 & N8 & N9).
    pose proof (A5 Gs) as Frs. destruct (B4 Frs) as (Dd & De & Ee & Wd).
    rewrite Dd in B1. destruct B1 as [Fd Ld].
    (* the walker has finished *)
    assert (SW: sw_pc st = SW_Done).
    { rewrite Fd in B5. destruct (B5 De) as [Wc _]. destruct (C5 (C7 Wc)) as (Ge & _). apply (C3 Ge). }
    (* nothing of any id is on its way *)
    assert (WFi: forall id, cntQ id (buf_rs st) + rq_h id (rq_pc st) + cnt id (pipe st) + sumf (held id) (wks st)
                            + cntE id (buf_sr st) + rl_h id (rl_pc st) = 0)
      by (intro id; apply (w_F p id st (WQ id) Frs)).
    assert (PE: pipe st = []) by (apply cnt0_nil; intro id; pose proof (WFi id) as X; clear - X; lia).
    (* the receive loop first *)
    destruct (rl_pc st) eqn:RL; try (apply recvloop_busy_can; rewrite RL; exact Logic.I).
    - (* RL_Recv *)
      destruct (buf_sr st) eqn:BS.
      2:{ can_by LRecvLoop. }
      destruct (sr_closed st) eqn:SC.
      { can_by LRecvLoop. }
      assert (Rm: room_sr p st = true) by (apply room_sr_wait; auto).
      destruct (workers_split Rm) as [Cn|AllID]; [exact Cn|].
      specialize (N8 Gs).
      destruct (rq_pc st) eqn:RQ; try contradiction; try (apply rq_can; [rewrite RQ; exact Logic.I | exact Rm]).
      (* RQ_Done: then FIN was echoed and consumed or still in the (empty) stream *)
      exfalso. cbn in A3. destruct A3 as [X|[_ Fsr]]; [rewrite (k_se st K) in X; discriminate|].
      destruct (inv_fin_reachable _ _ R) as [_ F2]. destruct (F2 Fsr) as [X|X].
      + rewrite BS in X. discriminate.
      + cbn in C9. congruence.
    - (* RL_Drain *)
      destruct (buf_sr st) eqn:BS.
      2:{ can_by LRecvLoop. }
      destruct (sr_closed st) eqn:SC.
      { can_by LRecvLoop. }
      assert (Rm: room_sr p st = true) by (apply room_sr_wait; auto).
      destruct (workers_split Rm) as [Cn|AllID]; [exact Cn|].
      specialize (N8 Gs).
      destruct (rq_pc st) eqn:RQ; try contradiction; try (apply rq_can; [rewrite RQ; exact Logic.I | exact Rm]).
      (* RQ_Done: workers leave, Send returns, the transport closes *)
      destruct J8 as (T1 & _). rewrite RQ in T1.
      destruct (find_or_all _ wk_idle (wks st)) as [(j & w & E1 & E2)|NoIdle].
      { destruct w; try discriminate. can_by (LWorker j). }
      assert (AD: forallb wk_done (wks st) = true).
      { rewrite forallb_forall in *. intros x Hx. specialize (AllID x Hx). specialize (NoIdle x Hx).
        destruct (wk_idle x); cbn in *; [discriminate | exact AllID]. }
      destruct (send_ret st) eqn:SR.
      + exists LEnvCloseSend. split; [reflexivity|]. cbn. rewrite SR, SC. discriminate.
      + exists LSendRet. split; [reflexivity|]. unfold step, step_send_ret, sender_quiet, sw_is_done, rq_is_done.
        rewrite SW, RQ, AD, SR. discriminate.
    - (* RL_Done *)
      assert (Gr: g_got_fin_r st = true) by (destruct A9 as [X|X]; [rewrite (k_re st K) in X; discriminate | exact X]).
      pose proof (A8 Gr) as Fsr.
      specialize (N8 Gs).
      destruct (rq_pc st) eqn:RQ; try contradiction; try (rewrite Fsr in N7; discriminate N7); try (can_by LReq; fail).
      destruct J8 as (T1 & _). rewrite RQ in T1.
      (* workers: none holds anything *)
      destruct (find_or_all _ (fun w => negb (wk_idle w || wk_done w)) (wks st)) as [(j & w & E1 & E2)|AllID'].
      { exfalso. pose proof (sumf_ge_nth _ (held (match w with WK_Ctx h | WK_Open h | WK_Read h _ | WK_Lock h _ | WK_Send h _ | WK_LockFin h | WK_SendFin h => h | _ => 0 end)) _ _ _ E1) as Y.
        destruct w; cbn in E2; try discriminate; cbn [held] in Y; rewrite Nat.eqb_refl in Y; cbn in Y;
        match type of Y with _ <= sumf (held ?h) _ => pose proof (WFi h) as X end; clear - X Y; lia. }
      destruct (find_or_all _ wk_idle (wks st)) as [(j & w & E1 & E2)|NoIdle].
      { destruct w; try discriminate. can_by (LWorker j). }
      assert (AD: forallb wk_done (wks st) = true).
      { rewrite forallb_forall in *. intros x Hx. specialize (AllID' x Hx). specialize (NoIdle x Hx).
        apply negb_true_iff in AllID'. apply negb_false_iff in AllID'.
        destruct (wk_idle x); cbn in *; [discriminate | exact AllID']. }
      destruct (send_ret st) eqn:SR.
      2:{ exists LSendRet. split; [reflexivity|]. unfold step, step_send_ret, sender_quiet, sw_is_done, rq_is_done.
          rewrite SW, RQ, AD, SR. discriminate. }
      destruct (recv_ret st) eqn:RR.
      2:{ exists LRecvRet. split; [reflexivity|]. unfold step, step_recv_ret, do_is_done, rl_is_done.
          rewrite Dd, RL, RR. discriminate. }
      exfalso. unfold final, all_done, sender_quiet, sw_is_done, rq_is_done, fl_is_done, dl_is_done, do_is_done, rl_is_done in NF.
      rewrite SW, RQ, AD, Fd, Ld, Dd, RL, Wd, SR, RR in NF. discriminate.
  Qed.

  (* ---------- before that ---------- *)
  Lemma main_phase_can : g_got_fin_s st = false -> canf p st.
  Proof.
    intro Gs.
    destruct (i_1 _ _ J) as (A1 & A2 & A3 & A4 & A5 & A6 & A7 & A8 & A9 & A10 & A11).
    destruct (i_3 _ _ J) as (B1 & B2 & B3 & B4 & B5 & B6 & B7 & B8).
    destruct (i_2 _ _ J) as (_ & _ & C3 & _ & C5 & C6 & C7 & _ & C9).
    destruct LI as (N1 & N2 & N3 & N4 & N7 & N8 & N9).
    pose proof (i_6 _ _ J) as J6.
    assert (Gr: g_got_fin_r st = false).
    { destruct (g_got_fin_r st) eqn:X; auto. rewrite (A4 (A8 eq_refl)) in Gs. discriminate. }
    destruct (rl_pc st) eqn:RL; try (apply recvloop_busy_can; rewrite RL; exact Logic.I).
    2:{ exfalso. cbn in A9. congruence. }
    2:{ exfalso. cbn in A9. destruct A9 as [X|X]; [rewrite (k_re st K) in X; discriminate | congruence]. }
    (* RL_Recv *)
    destruct (buf_sr st) eqn:BS.
    2:{ can_by LRecvLoop. }
    destruct (sr_closed st) eqn:SC.
    { can_by LRecvLoop. }
    assert (Rm: room_sr p st = true) by (apply room_sr_wait; auto).
    destruct (sw_pc st) eqn:SW; try (apply walker_can; [rewrite SW; discriminate | exact Rm]).
    destruct (workers_split Rm) as [Cn|AllID]; [exact Cn|].
    destruct (rq_pc st) eqn:RQ; try (apply rq_can; [rewrite RQ; exact Logic.I | exact Rm]).
    3:{ exfalso. cbn in A3. destruct A3 as [X|[X _]]; [rewrite (k_se st K) in X; discriminate | congruence]. }
    - (* RQ_Recv *)
      destruct (buf_rs st) eqn:BR.
      2:{ can_by LReq. }
      assert (Rr: room_rs p st = true) by (apply room_rs_wait; auto).
      (* worker 0 is idle (a finished worker means the pipeline is closed) *)
      destruct worker0 as (w0 & W0).
      assert (w0 = WK_Idle).
      { pose proof (forallb_nth _ _ _ _ _ AllID W0) as X. destruct w0; try discriminate X; auto.
        exfalso. destruct J8 as (T1 & T2 & _). rewrite RQ in T1. destruct (T2 _ W0) as [Y|Y]; [congruence|].
        rewrite (k_sc st K) in Y. destruct (send_ret st) eqn:SR; [|discriminate Y].
        destruct A1 as (_ & Q & _); [congruence|]. congruence. }
      subst w0.
      destruct (pipe st) eqn:PI.
      2:{ can_by (LWorker 0). }
      (* the receiver *)
      destruct (fl_pc st) eqn:FL; try (can_by LFill; fail); try (apply fill_push_can; exact FL).
      + (* FL_Sel *)
        destruct (walk_n st) eqn:WN; [|can_by LFill].
        assert (Wc: walk_closed st = true).
        { destruct (J6 SW) as [X|Ge]; [rewrite (k_se st K) in X; discriminate|].
          destruct (N1 Ge) as [X|[X|X]]; [cbv in X; discriminate X | | congruence].
          destruct (N2 X) as [Y|[Y|Y]]; [discriminate | exact Y | rewrite (k_re st K) in Y; discriminate]. }
        can_by LFill.
      + (* FL_Done *)
        cbn in N9.
        destruct (dl_pc st) eqn:DL; try (can_by LDiff; fail).
        (* both done: the goroutine that waits for the diff and the writers *)
        destruct (find_or_all _ (fun w => negb (wr_done w)) (wrs st)) as [(j & w & E1 & E2)|AllD].
        { (* a writer that is not finished *)
          destruct w as [id pc]. unfold wr_done in E2. cbn in E2.
          destruct pc; try discriminate E2; try (can_by (LWriter j); fail).
          - destruct (r_mu st) eqn:M; [eapply mutex_r_can; eauto | can_by (LWriter j)].
          - pose proof (k_rb st K) as Rb. can_by (LWriter j).
          - (* WR_Wait *)
            destruct (memb id (completed st)) eqn:Cm; [can_by (LWriter j)|].
            exfalso. pose proof (w_Q p id st (WQ id)) as Q.
            pose proof (sumf_ge_nth _ (wsel cW id) _ _ _ E1) as Y.
            assert (V: wsel cW id {| wr_id := id; wr_pc := WR_Wait |} = 1) by (unfold wsel; cbn; rewrite Nat.eqb_refl; reflexivity).
            rewrite V in Y. unfold wsum, down in Q. rewrite BR, BS, PI, RQ, RL in Q.
            rewrite (idle_done_held0 id _ AllID), (notmemb_cnt0 _ _ Cm) in Q. unfold cntQ, cntE, cnt in Q. cbn in Q.
            clear - Q Y. lia. }
        assert (AD: forallb wr_done (wrs st) = true).
        { rewrite forallb_forall in *. intros x Hx. apply AllD in Hx. destruct (wr_done x); auto. }
        pose proof (k_rb st K) as Rb. pose proof (k_de st K) as De. pose proof (k_ee st K) as Ee.
        destruct (do_pc st) eqn:DO; try (can_by LDiffOuter; fail);
          try (destruct (r_mu st) eqn:M; [eapply mutex_r_can; eauto | can_by LDiffOuter]).
        exfalso. destruct (N3 eq_refl) as [X|[X|X]]; [|rewrite (k_re st K) in X; discriminate | congruence].
        destruct (N4 X) as [Y|Y]; [cbv in Y; discriminate Y | congruence].
    - (* RQ_Push *)
      destruct (room_pipe p st) eqn:Rp.
      { exists LReq. split; [reflexivity|]. unfold_goal_steps. rw_goal. discriminate. }
      destruct worker0 as (w0 & W0).
      pose proof (forallb_nth _ _ _ _ _ AllID W0) as X. destruct w0; try discriminate X.
      + (* idle: then the pipeline is not empty *)
        destruct (pipe st) eqn:PI.
        * exfalso. unfold room_pipe, idle_workers in Rp. rewrite PI in Rp. cbn in Rp. apply Nat.ltb_ge in Rp.
          pose proof (idle_pos _ _ W0) as IP. clear - Rp IP. lia.
        * can_by (LWorker 0).
      + exfalso. destruct J8 as (T1 & T2 & _). rewrite RQ in T1. destruct (T2 _ W0) as [Y|Y]; [congruence|].
        rewrite (k_sc st K) in Y. destruct (send_ret st) eqn:SR; [|discriminate Y].
        destruct A1 as (_ & Q & _); [congruence|]. congruence.
  Qed.
End Progress.

(* Liveness half of fault_free_completes, state form: a reachable state of a fault-free run (no
   error flag, token equations) that is not final has an enabled fault-free step. *)
Lemma ff_progress_state : forall p st, wf_params p -> p_W p >= 1 -> reachable p st -> scal st ->
  (forall id, wq p id st) -> final st = false -> canf p st.
Proof.
  intros p st WF HW R K WQ NF. destruct (g_got_fin_s st) eqn:G.
  - eapply fin_phase_can; eauto.
  - eapply main_phase_can; eauto.
Qed.

(* ... and over executions: for every W >= 1 and all capacities >= 0 (sendpipeline, walkChan, diff
   channel, both stream directions), every fault-free execution that has not ended with both
   calls returned and all goroutines gone can be extended by a fault-free step. *)
Lemma fault_free_progress_proof : forall p ls st, wf_params p -> p_W p >= 1 -> fault_free ls ->
  run p (init p) ls = Some st -> final st = false ->
  exists l, fault_free_label l = true /\ step p st l <> None.
Proof.
  intros p ls st WF HW F H NF.
  destruct (ff_run_from p ls (init p) st WF (reach_init p) (scal_init p) (wq_init p) F H) as [K W].
  apply ff_progress_state; auto. eapply run_reachable; [apply reach_init | exact H].
Qed.
