(* Fault-free runs never fail (C08 outcome_deterministic in full; safety half of C04 fault_free_completes):
   building blocks — fault-free labels, per-id sums over the writers, the scalar "no error" predicate and the
   per-id token / request accounting equations. *)
From Coq Require Import List Arith Bool PeanoNat Lia ZifyBool.
From FS Require Import Model.Lts Model.LtsExplore Proofs.LtsInv Proofs.LtsSafe Proofs.LtsTerm Proofs.LtsC08 Proofs.LtsTok Proofs.LtsContent Proofs.LtsContent2 Proofs.LtsContent3.
Import ListNotations.

Definition fault_free_label (l : label) : bool :=
  match l with
  | LSWalkErr | LWorkerOpenErr _ | LWorkerReadErr _ | LDiffCbErr | LWriterCbErr _
  | LEnvCancelS | LEnvCancelR | LEnvBreakS | LEnvBreakR | LEnvTearDown => false
  | _ => true
  end.

(* rl_i + STATs in flight never exceeds what the walker has sent *)
Definition inv_rs (st : state) : Prop := rl_i st + count_stat (buf_sr st) <= sw_i st.
Lemma inv_rs_step : forall p st l st', inv_rs st -> step p st l = Some st' -> inv_rs st'.
Proof.
  intros p st l st' I H. unfold inv_rs in *.
  destruct l; unfold_steps H; step_split H; inv_some; subst;
  repeat match goal with w : writer |- _ => destruct w; cbn in * end; subst; cbn;
  repeat match goal with E : buf_sr _ = _ |- _ => rewrite E in * end;
  rewrite ?count_stat_app, ?count_stat_cons in *; cbn in *; try lia; try (destruct k; cbn; lia).
Qed.

(* ---------- per-id sums over the writers, by program counter class ---------- *)
Definition wsel (c : wrpc -> bool) (id : nat) (w : writer) : nat := b2n (Nat.eqb id (wr_id w) && c (wr_pc w)).
Definition cAll (pc : wrpc) : bool := true.
Definition cS (pc : wrpc) : bool := match pc with WR_Start => true | _ => false end.
Definition cL (pc : wrpc) : bool := match pc with WR_Lock | WR_Send => true | _ => false end.
Definition cW (pc : wrpc) : bool := match pc with WR_Wait => true | _ => false end.
Definition cN (pc : wrpc) : bool := match pc with WR_Notify => true | _ => false end.
Definition cD (pc : wrpc) : bool := match pc with WR_Done => true | _ => false end.
Definition wsum (c : wrpc -> bool) (id : nat) (st : state) : nat := sumf (wsel c id) (wrs st).

Lemma wsum_split : forall id l,
  sumf (wsel cAll id) l = sumf (wsel cS id) l + sumf (wsel cL id) l + sumf (wsel cW id) l
                          + sumf (wsel cN id) l + sumf (wsel cD id) l.
Proof.
  induction l; [reflexivity|]. unfold sumf in *; cbn [fold_right]. rewrite IHl.
  unfold wsel. destruct a as [i pc]; cbn. destruct (Nat.eqb id i); destruct pc; cbn; lia.
Qed.

Definition is_preq (id : nat) (pk : packet) : bool := match pk with PReq x => Nat.eqb id x | _ => false end.
Definition cntQ (id : nat) (l : list packet) : nat := length (filter (is_preq id) l).
Lemma cntQ_cons : forall id x l, cntQ id (x :: l) = b2n (is_preq id x) + cntQ id l.
Proof. intros. unfold cntQ. cbn. destruct (is_preq id x); reflexivity. Qed.
Lemma cntQ_app : forall id l x, cntQ id (l ++ [x]) = cntQ id l + b2n (is_preq id x).
Proof. intros. unfold cntQ. rewrite filter_app, app_length. cbn. destruct (is_preq id x); reflexivity. Qed.
Arguments cntQ : simpl never.

Definition down (id : nat) (st : state) : nat :=
  rq_h id (rq_pc st) + cnt id (pipe st) + sumf (held id) (wks st)
  + cntE id (buf_sr st) + rl_h id (rl_pc st) + cnt id (completed st).

(* ---------- the scalar part: no error flag, no cancellation before the returns ---------- *)
Definition is_perr (pk : packet) : bool := match pk with PErr => true | _ => false end.
Record scal (st : state) : Prop := {
  k_se : s_err st = false; k_re : r_err st = false; k_de : d_err st = false; k_ee : eg_err st = false;
  k_sb : s_broken st = false; k_rb : r_broken st = false;
  k_dw : dw_cancel st = false; k_eg : eg_cancel st = false; k_cc : close_ch st = false;
  k_sc : s_cancel st = negb (is_none (send_ret st));
  k_rc : r_cancel st = negb (is_none (recv_ret st));
  k_dc : d_cancel st = true -> do_pc st <> DO_WaitDiff;
  k_p1 : existsb is_perr (buf_sr st) = false;
  k_p2 : existsb is_perr (buf_rs st) = false;
  k_sw : match sw_pc st with SW_Lock KErr | SW_Send KErr => False | _ => True end;
  k_rq : match rq_pc st with RQ_Close false | RQ_Ret false => False | _ => True end;
  k_fl : match fl_pc st with FL_Close false | FL_Ret false => False | _ => True end;
  k_do : match do_pc st with DO_LockErr | DO_SendErr => False | _ => True end
}.

(* ---------- per-id equations (token conservation, request accounting) ---------- *)
Record wq (p : params) (id : nat) (st : state) : Prop := {
  w_u : wsum cAll id st <= 1;
  w_b : dl_bound st <= id -> wsum cAll id st = 0;
  w_S : tok id st = b2n (is_file p id && (id <? sw_bound st));
  w_Q : cntQ id (buf_rs st) + down id st = wsum cW id st + wsum cN id st + wsum cD id st;
  w_R : cnt id (rfiles st) + (wsum cL id st + wsum cW id st + wsum cN id st + wsum cD id st)
        = b2n (is_file p id && (id <? rl_i st));
  w_P : cnt id (pipes st) = wsum cL id st + wsum cW id st + wsum cN id st;
  w_C : wsum cN id st + wsum cD id st >= 1 -> cnt id (completed st) >= 1;
  (* once the receiver has sent FIN nothing of this id is on its way any more *)
  w_F : g_fin_rs st = true ->
        cntQ id (buf_rs st) + rq_h id (rq_pc st) + cnt id (pipe st) + sumf (held id) (wks st)
        + cntE id (buf_sr st) + rl_h id (rl_pc st) = 0
}.

Lemma alldone_wsum : forall id l, forallb wr_done l = true ->
  sumf (wsel cS id) l = 0 /\ sumf (wsel cL id) l = 0 /\ sumf (wsel cW id) l = 0 /\ sumf (wsel cN id) l = 0.
Proof.
  induction l; intro H; [repeat split; reflexivity|].
  change (forallb wr_done (a :: l)) with (wr_done a && forallb wr_done l) in H.
  apply andb_prop in H. destruct H as [H1 H2]. destruct (IHl H2) as (A & B & C & D).
  unfold sumf in *; cbn [fold_right]. rewrite A, B, C, D.
  destruct a as [i pc]. unfold wr_done in H1. cbn in H1. destruct pc; try discriminate H1.
  unfold wsel; cbn. rewrite !andb_false_r. repeat split; reflexivity.
Qed.
