(* C11 (part) — the stream produced by the sender-side hard-link reset always passes
   the receiver's hard-link validator. *)
From Coq Require Import List NArith Bool Lia.
From FS Require Import Sx Model.Path Model.Stat Model.Hardlinks Proofs.Lex.
Import ListNotations.
Open Scope bool_scope.

Lemma mem_bytes_in p l : mem_bytes p l = true <-> In p l.
Proof.
  induction l as [|x l IH]; simpl; [split; [discriminate|tauto]|].
  rewrite orb_true_iff, IH, bytes_eqb_eq. split; intros [H|H]; auto.
Qed.

Lemma lookup_b_in k m v : lookup_b k m = Some v -> In (k, v) m.
Proof.
  induction m as [|[k' v'] m IH]; simpl; [discriminate|].
  destruct (bytes_eqb k k') eqn:E.
  - intros H. inversion H; subst. apply bytes_eqb_eq in E. subst. left; reflexivity.
  - intros H. right. auto.
Qed.

Definition orig_link_member (before : list stat) (k : list N) : Prop :=
  exists b, In b before /\ st_path b = k /\ hl_plain b = true /\ has_link b = true.

Record Inv (before : list stat) (m : list (list N * list N)) (seen : list (list N)) : Prop := {
  inv_val : forall k v, In (k, v) m -> In v seen \/ (k = v /\ orig_link_member before k);
  inv_path : forall k v, In (k, v) m -> exists b, In b before /\ st_path b = v
}.

Lemma existsb_path_false before p :
  existsb (fun b => bytes_eqb (st_path b) p) before = false ->
  forall b, In b before -> st_path b <> p.
Proof.
  intros H b Hb E. assert (existsb (fun b => bytes_eqb (st_path b) p) before = true).
  { apply existsb_exists. exists b. split; auto. apply bytes_eqb_eq; auto. }
  congruence.
Qed.

Lemma set_linkname_path s l : st_path (set_linkname s l) = st_path s. Proof. reflexivity. Qed.
Lemma set_linkname_mode s l : st_mode (set_linkname s l) = st_mode s. Proof. reflexivity. Qed.
Lemma set_linkname_link s l : st_linkname (set_linkname s l) = l. Proof. reflexivity. Qed.
Lemma hl_plain_set s l : hl_plain (set_linkname s l) = hl_plain s. Proof. reflexivity. Qed.

Lemma orig_mono before s k : orig_link_member before k -> orig_link_member (before ++ [s]) k.
Proof. intros (b & Hb & H). exists b. split; [apply in_or_app; left; auto|auto]. Qed.

Lemma inv_weaken before m seen s seen' :
  Inv before m seen -> (forall x, In x seen -> In x seen') -> Inv (before ++ [s]) m seen'.
Proof.
  intros HI Hsub. constructor.
  - intros k v Hin. destruct (inv_val _ _ _ HI k v Hin) as [H|[H1 H2]]; auto. right. split; auto. apply orig_mono; auto.
  - intros k v Hin. destruct (inv_path _ _ _ HI k v Hin) as (b & Hb & E). exists b. split; [apply in_or_app; left|]; auto.
Qed.

Lemma inv_add before m seen s k v :
  Inv (before ++ [s]) m seen -> v = st_path s ->
  (In v seen \/ (k = v /\ hl_plain s = true /\ has_link s = true)) ->
  Inv (before ++ [s]) ((k, v) :: m) seen.
Proof.
  intros HI Hv Hc. constructor.
  - intros k0 v0 [E|Hin]; [|apply (inv_val _ _ _ HI k0 v0); auto].
    inversion E; subst k0 v0. destruct Hc as [H|(H1 & H2 & H3)]; auto.
    right. split; auto. exists s. split; [apply in_or_app; right; left; reflexivity|]. subst. auto.
  - intros k0 v0 [E|Hin]; [|apply (inv_path _ _ _ HI k0 v0); auto].
    inversion E; subst k0 v0. exists s. split; [apply in_or_app; right; left; reflexivity|auto].
Qed.

(* one step: the reset output is accepted by the validator and the invariant is kept *)
Lemma reset_step_ok before m seen s :
  Inv before m seen ->
  existsb (fun b => bytes_eqb (st_path b) (st_path s)) before = false ->
  (hl_plain s = true -> has_link s = true ->
     forall b, In b before -> st_path b = st_linkname s -> hl_plain b = true /\ has_link b = false) ->
  exists seen', hl_step seen (snd (reset_step m s)) = Some seen' /\
                Inv (before ++ [s]) (fst (reset_step m s)) seen'.
Proof.
  intros HI Hfresh Hlk. pose proof (existsb_path_false _ _ Hfresh) as Hnew.
  unfold reset_step. destruct (hl_plain s) eqn:Hp; cbn [negb].
  { destruct (has_link s) eqn:Hl.
    - specialize (Hlk eq_refl eq_refl).
      destruct (lookup_b (st_linkname s) m) as [v|] eqn:Elk.
      + pose proof (lookup_b_in _ _ _ Elk) as Hin.
        destruct (inv_path _ _ _ HI _ _ Hin) as (b & Hb & Eb).
        destruct (bytes_eqb v (st_path s)) eqn:Ev.
        { apply bytes_eqb_eq in Ev. exfalso. apply (Hnew b Hb). congruence. }
        assert (Hvseen : In v seen).
        { destruct (inv_val _ _ _ HI _ _ Hin) as [H|[H1 (b' & Hb' & Eb' & Hp' & Hl')]]; auto.
          exfalso. destruct (Hlk b' Hb' Eb') as [_ Hx]. congruence. }
        cbn [fst snd]. unfold hl_step. rewrite hl_plain_set, Hp. cbn [negb].
        destruct (has_link (set_linkname s v)) eqn:Hl2.
        * rewrite set_linkname_link. apply mem_bytes_in in Hvseen. rewrite Hvseen.
          exists seen. split; auto.
          apply inv_add; [eapply inv_weaken; eauto|reflexivity|right; auto].
        * exists (st_path (set_linkname s v) :: seen). split; auto. rewrite set_linkname_path.
          apply inv_add; [eapply inv_weaken; eauto; intros; right; auto|reflexivity|left; left; reflexivity].
      + cbn [fst snd]. unfold hl_step. rewrite hl_plain_set, Hp. cbn [negb].
        unfold has_link. rewrite set_linkname_link. cbn [bytes_eqb negb]. rewrite set_linkname_path.
        exists (st_path s :: seen). split; auto.
        apply inv_add; [|reflexivity|left; left; reflexivity].
        apply inv_add; [|reflexivity|left; left; reflexivity].
        eapply inv_weaken; eauto. intros; right; auto.
    - cbn [fst snd]. unfold hl_step. rewrite Hp, Hl. cbn [negb].
      exists (st_path s :: seen). split; auto.
      apply inv_add; [|reflexivity|left; left; reflexivity].
      eapply inv_weaken; eauto. intros; right; auto. }
  cbn [fst snd]. unfold hl_step. rewrite Hp. cbn [negb].
  exists seen. split; auto. eapply inv_weaken; eauto.
Qed.

Lemma reset_valid_gen l : forall before m seen i,
  Inv before m seen -> wf_links_from before l = true ->
  hl_run seen (reset_run m l) i = None.
Proof.
  induction l as [|s r IH]; intros before m seen i HI Hwf; [reflexivity|].
  cbn [wf_links_from] in Hwf. apply andb_true_iff in Hwf. destruct Hwf as [Hwf Hrest].
  apply andb_true_iff in Hwf. destruct Hwf as [Hfresh Hlink].
  apply andb_true_iff in Hfresh. destruct Hfresh as [Hfresh _].
  apply negb_true_iff in Hfresh.
  destruct (reset_step_ok before m seen s HI Hfresh) as (seen' & Hstep & HI').
  { intros Hp Hl b Hb Eb. rewrite Hp, Hl in Hlink. cbn [andb] in Hlink.
    apply andb_true_iff in Hlink. destruct Hlink as [Hlink _].
    apply andb_true_iff in Hlink. destruct Hlink as [_ Hbefore].
    rewrite forallb_forall in Hbefore. specialize (Hbefore b Hb).
    rewrite Eb, bytes_eqb_refl in Hbefore. cbn [negb orb] in Hbefore.
    apply andb_true_iff in Hbefore. destruct Hbefore as [H1 H2]. apply negb_true_iff in H2. auto. }
  cbn [reset_run]. destruct (reset_step m s) as [m' s'] eqn:Er. cbn [fst snd] in *.
  cbn [hl_run]. rewrite Hstep. eapply IH; eauto.
Qed.

Theorem reset_links_valid_proof l : wf_links l = true -> hardlink_check (hardlink_reset l) = None.
Proof.
  intros H. unfold hardlink_check, hardlink_reset. apply (reset_valid_gen l []); auto.
  constructor; intros k v [].
Qed.

(* ================= the reset computes the declarative description ================= *)
Lemma first_rep_app a b k :
  first_rep (a ++ b) k = match first_rep a k with Some x => Some x | None => first_rep b k end.
Proof.
  induction a as [|s a IH]; simpl; [reflexivity|].
  destruct (hl_plain s && bytes_eqb (orig_rep s) k); auto.
Qed.

Lemma first_rep_in l k v : first_rep l k = Some v ->
  exists b, In b l /\ st_path b = v /\ hl_plain b = true /\ orig_rep b = k.
Proof.
  induction l as [|s l IH]; simpl; [discriminate|].
  destruct (hl_plain s && bytes_eqb (orig_rep s) k) eqn:E.
  - intros H. inversion H; subst. apply andb_true_iff in E. destruct E as [E1 E2]. apply bytes_eqb_eq in E2.
    exists s. auto.
  - intros H. destruct (IH H) as (b & Hb & Hr). exists b. split; [right|]; auto.
Qed.

Lemma first_rep_none l k : (forall b, In b l -> hl_plain b = true -> orig_rep b <> k) -> first_rep l k = None.
Proof.
  induction l as [|s l IH]; intros H; simpl; [reflexivity|].
  destruct (hl_plain s) eqn:Hp; cbn [andb].
  - assert (E : bytes_eqb (orig_rep s) k = false) by (apply bytes_eqb_neq; apply H; [left|]; auto).
    rewrite E. apply IH. intros b Hb. apply H. right; auto.
  - apply IH. intros b Hb. apply H. right; auto.
Qed.

Lemma orig_rep_link s : has_link s = true -> orig_rep s = st_linkname s.
Proof. unfold has_link, orig_rep. destruct (st_linkname s); [discriminate|reflexivity]. Qed.

Lemma orig_rep_nolink s : has_link s = false -> orig_rep s = st_path s.
Proof. unfold has_link, orig_rep. destruct (st_linkname s); [reflexivity|discriminate]. Qed.

Lemma set_linkname_same s : has_link s = false -> set_linkname s [] = s.
Proof. unfold has_link. destruct s; cbn. destruct st_linkname; [reflexivity|discriminate]. Qed.

Lemma lookup_b_cons_ne k k' v m : k <> k' -> lookup_b k ((k', v) :: m) = lookup_b k m.
Proof. intros H. simpl. apply bytes_eqb_neq in H. rewrite H. reflexivity. Qed.

Lemma lookup_b_cons_eq k v m : lookup_b k ((k, v) :: m) = Some v.
Proof. simpl. rewrite bytes_eqb_refl. reflexivity. Qed.

Definition not_link_member_path (before : list stat) (k : list N) : Prop :=
  forall b, In b before -> hl_plain b = true -> has_link b = true -> st_path b <> k.

Definition Inv2 (before : list stat) (m : list (list N * list N)) : Prop :=
  forall k, not_link_member_path before k -> lookup_b k m = first_rep before k.

(* links of processed members never name a path still to come *)
Definition Inv3 (before rest : list stat) : Prop :=
  forall b x, In b before -> hl_plain b = true -> has_link b = true -> In x rest -> st_path x <> st_linkname b.

Lemma reset_eq_spec_gen l : forall before m,
  Inv2 before m -> Inv3 before l -> wf_links_from before l = true ->
  reset_run m l = map (reset_spec_entry (before ++ l)) l.
Proof.
  induction l as [|s r IH]; intros before m H2 H3 Hwf; [reflexivity|].
  cbn [wf_links_from] in Hwf. apply andb_true_iff in Hwf. destruct Hwf as [Hwf Hrest].
  apply andb_true_iff in Hwf. destruct Hwf as [Hfresh Hlink].
  apply andb_true_iff in Hfresh. destruct Hfresh as [Hfresh Hne].
  apply negb_true_iff in Hfresh. pose proof (existsb_path_false _ _ Hfresh) as Hnew.
  cbn [reset_run map].
  assert (Hwhole : before ++ s :: r = (before ++ [s]) ++ r) by (rewrite <- app_assoc; reflexivity).
  unfold reset_step, reset_spec_entry at 1.
  destruct (hl_plain s) eqn:Hp; cbn [negb].
  2:{ f_equal. rewrite Hwhole. apply IH; auto.
      - intros k Hk. rewrite first_rep_app. cbn [first_rep]. rewrite Hp. cbn [andb].
        rewrite <- H2; [destruct (lookup_b k m); reflexivity|].
        intros b Hb. apply Hk. apply in_or_app; left; auto.
      - intros b x Hb Hpb Hlb Hx. apply in_app_or in Hb. destruct Hb as [Hb|[<-|[]]]; [|congruence].
        apply (H3 b x); auto. right; auto. }
  destruct (has_link s) eqn:Hl.
  - (* link member *)
    cbn [andb] in Hlink. apply andb_true_iff in Hlink. destruct Hlink as [Hlink Hlater].
    apply andb_true_iff in Hlink. destruct Hlink as [Hself Hbefore].
    apply negb_true_iff in Hself. apply bytes_eqb_neq in Hself.
    rewrite forallb_forall in Hbefore.
    assert (HL : not_link_member_path before (st_linkname s)).
    { intros b Hb Hpb Hlb E. specialize (Hbefore b Hb). rewrite E, bytes_eqb_refl in Hbefore.
      cbn [negb orb] in Hbefore. rewrite Hpb, Hlb in Hbefore. discriminate. }
    rewrite (H2 _ HL). rewrite (orig_rep_link s Hl).
    rewrite first_rep_app. cbn [first_rep]. rewrite Hp, (orig_rep_link s Hl), bytes_eqb_refl. cbn [andb].
    assert (Hlater' : forall x, In x r -> st_path x <> st_linkname s).
    { intros x Hx E. apply negb_true_iff in Hlater.
      assert (existsb (fun a => bytes_eqb (st_path a) (st_linkname s)) r = true).
      { apply existsb_exists. exists x. split; auto. apply bytes_eqb_eq; auto. }
      congruence. }
    assert (H3' : Inv3 (before ++ [s]) r).
    { intros b x Hb Hpb Hlb Hx. apply in_app_or in Hb. destruct Hb as [Hb|[<-|[]]].
      - apply (H3 b x); auto. right; auto.
      - apply Hlater'; auto. }
    destruct (first_rep before (st_linkname s)) as [v|] eqn:ER.
    + destruct (first_rep_in _ _ _ ER) as (b & Hb & Eb & _).
      assert (Hv : bytes_eqb v (st_path s) = false) by (apply bytes_eqb_neq; intro E; apply (Hnew b Hb); congruence).
      rewrite Hv. f_equal. rewrite Hwhole. apply IH; auto.
      intros k Hk. assert (Hkp : k <> st_path s).
      { intro E. apply (Hk s); auto. apply in_or_app; right; left; reflexivity. }
      rewrite lookup_b_cons_ne by auto.
      rewrite first_rep_app. cbn [first_rep]. rewrite Hp, (orig_rep_link s Hl). cbn [andb].
      rewrite H2 by (intros b' Hb'; apply Hk; apply in_or_app; left; auto).
      destruct (first_rep before k) eqn:E1; [reflexivity|].
      destruct (bytes_eqb (st_linkname s) k) eqn:E2; [|reflexivity].
      apply bytes_eqb_eq in E2. subst k. congruence.
    + rewrite bytes_eqb_refl. f_equal. rewrite Hwhole. apply IH; auto.
      intros k Hk. assert (Hkp : k <> st_path s).
      { intro E. apply (Hk s); auto. apply in_or_app; right; left; reflexivity. }
      rewrite lookup_b_cons_ne by auto.
      rewrite first_rep_app. cbn [first_rep]. rewrite Hp, (orig_rep_link s Hl). cbn [andb].
      destruct (bytes_eqb (st_linkname s) k) eqn:E2.
      * apply bytes_eqb_eq in E2. subst k. rewrite lookup_b_cons_eq, ER. reflexivity.
      * apply bytes_eqb_neq in E2. rewrite lookup_b_cons_ne by auto.
        rewrite H2 by (intros b' Hb'; apply Hk; apply in_or_app; left; auto).
        destruct (first_rep before k); reflexivity.
  - (* plain entry that is not a link *)
    rewrite (orig_rep_nolink s Hl).
    assert (HR : first_rep before (st_path s) = None).
    { apply first_rep_none. intros b Hb Hpb E.
      destruct (has_link b) eqn:Hlb.
      - rewrite (orig_rep_link b Hlb) in E. apply (H3 b s Hb Hpb Hlb); [left; reflexivity|auto].
      - rewrite (orig_rep_nolink b Hlb) in E. apply (Hnew b Hb). auto. }
    rewrite first_rep_app, HR. cbn [first_rep]. rewrite Hp, (orig_rep_nolink s Hl), bytes_eqb_refl. cbn [andb].
    rewrite bytes_eqb_refl, (set_linkname_same s Hl). f_equal. rewrite Hwhole. apply IH; auto.
    + intros k Hk. rewrite first_rep_app. cbn [first_rep]. rewrite Hp, (orig_rep_nolink s Hl). cbn [andb].
      destruct (bytes_eqb (st_path s) k) eqn:E2.
      * apply bytes_eqb_eq in E2. subst k. rewrite lookup_b_cons_eq, HR. reflexivity.
      * apply bytes_eqb_neq in E2. rewrite lookup_b_cons_ne by auto.
        rewrite H2 by (intros b' Hb'; apply Hk; apply in_or_app; left; auto).
        destruct (first_rep before k); reflexivity.
    + intros b x Hb Hpb Hlb Hx. apply in_app_or in Hb. destruct Hb as [Hb|[<-|[]]]; [|congruence].
      apply (H3 b x); auto. right; auto.
Qed.

Theorem reset_eq_spec_proof l : wf_links l = true -> hardlink_reset l = reset_spec l.
Proof.
  intros H. unfold hardlink_reset, reset_spec. apply (reset_eq_spec_gen l [] []); auto.
  - intros k _. reflexivity.
  - intros b x [].
Qed.
