(* C03 — executable checks of the hypotheses of the containment theorems (well-formedness of the
   part of a file system inside D, unused temporary names, clean packets), with soundness proofs:
   used for the non-vacuity examples and by the glue to see that generated cases lie in the
   theorems' domain. *)
From Coq Require Import List Arith NArith Bool Lia ZifyN ZifyNat ZifyBool.
From FS Require Import Sx Model.Path Model.Stat Model.Validator Model.Fs Model.DiskWriterFs.
From FS Require Import Proofs.Lex Proofs.PathP Proofs.FsP Proofs.FsReachP Proofs.RecvP.
Import ListNotations.
Open Scope N_scope.
Open Scope bool_scope.

Fixpoint ins (fuel : nat) (f : fs) (i : N) : list N :=
  i :: match fuel with
       | O => []
       | S k => flat_map (fun e : bytes * N => ins k f (snd e)) (ents f i)
       end.

Fixpoint memN (x : N) (l : list N) : bool := match l with [] => false | y :: r => N.eqb x y || memN x r end.
Lemma memN_In x l : memN x l = true <-> In x l.
Proof.
  induction l as [|y r IH]; simpl; [split; [discriminate|tauto]|].
  rewrite orb_true_iff, IH, N.eqb_eq. split; intros [H|H]; auto.
Qed.

Definition closed_b (f : fs) (L : list N) : bool :=
  forallb (fun j => forallb (fun e : bytes * N => memN (snd e) L) (ents f j)) L.

Lemma closed_reach f D L : In D L -> closed_b f L = true -> forall j, reach D f j -> In j L.
Proof.
  intros HD Hc j R. induction R as [|j n i Rj IH Hin]; auto.
  unfold closed_b in Hc. rewrite forallb_forall in Hc. pose proof (Hc j IH) as H.
  rewrite forallb_forall in H. apply memN_In. apply (H (n, i) Hin).
Qed.

Definition okname_b (n : bytes) : bool :=
  negb (is_nil n) && negb (bytes_eqb n s_dot) && negb (bytes_eqb n s_dotdot) && negb (existsb (N.eqb sep) n).

Lemma okname_b_ok n : okname_b n = true -> okname n.
Proof.
  unfold okname_b. intros H.
  apply andb_true_iff in H. destruct H as [H Hsep].
  apply andb_true_iff in H. destruct H as [H Hdd].
  apply andb_true_iff in H. destruct H as [Hnil Hd].
  split; [split; [|split]|].
  - intro; subst. discriminate.
  - intro; subst. rewrite bytes_eqb_refl in Hd. discriminate.
  - intro; subst. rewrite bytes_eqb_refl in Hdd. discriminate.
  - intro Hin. apply negb_true_iff in Hsep. assert (existsb (N.eqb sep) n = true); [|congruence].
    apply existsb_exists. exists sep. split; [exact Hin|apply N.eqb_refl].
Qed.

Fixpoint nodup_b (l : list bytes) : bool :=
  match l with [] => true | a :: r => negb (mem_bytes a r) && nodup_b r end.

Lemma mem_bytes_In_iff p l : mem_bytes p l = true <-> In p l.
Proof.
  induction l as [|q l IH]; simpl; [split; [discriminate|tauto]|].
  rewrite orb_true_iff, IH, bytes_eqb_eq. split; intros [H|H]; auto.
Qed.

Lemma nodup_b_ok l : nodup_b l = true -> NoDup l.
Proof.
  induction l as [|a r IH]; simpl; intros H; constructor.
  - apply andb_true_iff in H. destruct H as [H _]. apply negb_true_iff in H. intro Hin.
    apply mem_bytes_In_iff in Hin. congruence.
  - apply IH. apply andb_true_iff in H. tauto.
Qed.

Definition triples (f : fs) (L : list N) : list (N * bytes * N) :=
  flat_map (fun j => map (fun e : bytes * N => (j, fst e, snd e)) (ents f j)) L.

Definition single_b (f : fs) (L : list N) : bool :=
  let ts := triples f L in
  forallb (fun t1 : N * bytes * N =>
    forallb (fun t2 : N * bytes * N =>
      match t1, t2 with
      | (j1, n1, i1), (j2, n2, i2) =>
        negb (N.eqb i1 i2) || negb (is_dir f i1) || (N.eqb j1 j2 && bytes_eqb n1 n2)
      end) ts) ts.

Definition wf_b (fuel : nat) (f : fs) (D : N) : bool :=
  let L := ins fuel f D in
  closed_b f L
  && forallb (fun kv : N * inode => N.ltb (fst kv) (f_next f)) (f_inodes f)
  && is_dir f D
  && forallb (fun j => nodup_b (map fst (ents f j)) && forallb okname_b (map fst (ents f j))
                       && forallb (fun e : bytes * N => N.ltb (snd e) (f_next f) && negb (N.eqb (snd e) D)) (ents f j)) L
  && single_b f L.

Lemma ins_head fuel f i : In i (ins fuel f i).
Proof. destruct fuel; left; reflexivity. Qed.

Lemma alookup_none_keys {A} (l : list (N * A)) n i :
  forallb (fun kv : N * A => N.ltb (fst kv) n) l = true -> n <= i -> alookup i l = None.
Proof.
  induction l as [|[k v] l IH]; simpl; intros H Hi; [reflexivity|].
  apply andb_true_iff in H. destruct H as [H1 H2]. apply N.ltb_lt in H1.
  assert (E : N.eqb i k = false) by (apply N.eqb_neq; lia). rewrite E. auto.
Qed.

Theorem wf_b_ok fuel f D : wf_b fuel f D = true -> wf D f.
Proof.
  unfold wf_b. set (L := ins fuel f D). intros H.
  apply andb_true_iff in H. destruct H as [H Hsg].
  apply andb_true_iff in H. destruct H as [H Hloc].
  apply andb_true_iff in H. destruct H as [H Hdir].
  apply andb_true_iff in H. destruct H as [Hcl Hkeys].
  assert (HL : forall j, reach D f j -> In j L) by (apply closed_reach; [apply ins_head|exact Hcl]).
  rewrite forallb_forall in Hloc.
  assert (Hj : forall j, reach D f j ->
            nodup_b (map fst (ents f j)) = true /\ forallb okname_b (map fst (ents f j)) = true
            /\ forallb (fun e : bytes * N => N.ltb (snd e) (f_next f) && negb (N.eqb (snd e) D)) (ents f j) = true).
  { intros j R. pose proof (Hloc j (HL j R)) as X.
    apply andb_true_iff in X. destruct X as [X X3]. apply andb_true_iff in X. destruct X as [X1 X2]. auto. }
  constructor.
  - intros i Hi. unfold get. apply (alookup_none_keys _ (f_next f)); auto.
  - exact Hdir.
  - intros j R. destruct (Hj j R) as (A & B & _). split; [apply nodup_b_ok; exact A|].
    apply Forall_forall. intros n Hn. rewrite forallb_forall in B. apply okname_b_ok. apply B. exact Hn.
  - intros j n i R Hin. destruct (Hj j R) as (_ & _ & C). rewrite forallb_forall in C.
    pose proof (C (n, i) Hin) as X. apply andb_true_iff in X. destruct X as [X _]. apply N.ltb_lt in X. exact X.
  - intros j n R Hin. destruct (Hj j R) as (_ & _ & C). rewrite forallb_forall in C.
    pose proof (C (n, D) Hin) as X. apply andb_true_iff in X. destruct X as [_ X]. simpl in X. rewrite N.eqb_refl in X. discriminate.
  - intros j1 j2 n1 n2 i R1 R2 I1 I2 Hd.
    unfold single_b in Hsg. rewrite forallb_forall in Hsg.
    assert (T1 : In (j1, n1, i) (triples f L)).
    { unfold triples. apply in_flat_map. exists j1. split; [apply HL; auto|].
      apply in_map_iff. exists (n1, i). split; auto. }
    assert (T2 : In (j2, n2, i) (triples f L)).
    { unfold triples. apply in_flat_map. exists j2. split; [apply HL; auto|].
      apply in_map_iff. exists (n2, i). split; auto. }
    pose proof (Hsg _ T1) as X. rewrite forallb_forall in X. pose proof (X _ T2) as Y. simpl in Y.
    rewrite N.eqb_refl, Hd in Y. simpl in Y. apply andb_true_iff in Y. destruct Y as [Y1 Y2].
    apply N.eqb_eq in Y1. apply bytes_eqb_eq in Y2. auto.
Qed.

(* ---- temporary names ---- *)
Definition tmp_unused_b (fuel : nat) (f : fs) (D : N) (tmps : list bytes) : bool :=
  let L := ins fuel f D in
  closed_b f L
  && forallb (fun j => forallb (fun t => match blookup t (ents f j) with None => true | Some _ => false end)
                               (default_tmp :: tmps)) L.

Lemma tmp_unused_b_ok fuel f D tmps : tmp_unused_b fuel f D tmps = true -> tmp_unused D f tmps.
Proof.
  unfold tmp_unused_b. intros H. apply andb_true_iff in H. destruct H as [Hc H].
  intros j t R Ht. rewrite forallb_forall in H.
  pose proof (H j (closed_reach f D _ (ins_head fuel f D) Hc j R)) as X. rewrite forallb_forall in X.
  assert (Hin : In t (default_tmp :: tmps)) by (destruct Ht as [->|Ht]; [left; reflexivity|right; exact Ht]).
  pose proof (X t Hin) as Y. destruct (blookup t (ents f j)); [discriminate|reflexivity].
Qed.

Definition tmps_ok_b (tmps : list bytes) : bool := forallb okname_b (default_tmp :: tmps).
Lemma tmps_ok_b_ok tmps : tmps_ok_b tmps = true -> forall t, tmpname tmps t -> okname t.
Proof.
  unfold tmps_ok_b. intros H t Ht. rewrite forallb_forall in H. apply okname_b_ok. apply H.
  destruct Ht as [->|Ht]; [left; reflexivity|right; exact Ht].
Qed.

Definition clean_packet_b (tmps : list bytes) (fl : rfilter) (pk : packet) : bool :=
  match pk with
  | PStat (Some s) =>
    forallb (fun t => negb (mem_bytes t (comps (st_path s)))) (default_tmp :: tmps)
    && (negb (DwP.hardlink_branch s) || f_rej fl (st_path s) || negb (f_rej fl (st_linkname s)))
  | _ => true
  end.

Lemma clean_packets_b_ok tmps fl pks : forallb (clean_packet_b tmps fl) pks = true -> Forall (clean_packet tmps fl) pks.
Proof.
  intros H. apply Forall_forall. intros pk Hin. rewrite forallb_forall in H. pose proof (H pk Hin) as X.
  destruct pk as [[s|]| | | |]; simpl; auto.
  unfold clean_packet_b in X. apply andb_true_iff in X. destruct X as [X Y]. rewrite forallb_forall in X. split.
  - intros t Ht Hc.
    assert (Hin' : In t (default_tmp :: tmps)) by (destruct Ht as [->|Ht]; [left; reflexivity|right; exact Ht]).
    pose proof (X t Hin') as Z. apply negb_true_iff in Z. apply mem_bytes_In_iff in Hc. congruence.
  - intros Hhb Hrj. rewrite Hhb, Hrj in Y. simpl in Y. apply negb_true_iff in Y. exact Y.
Qed.
