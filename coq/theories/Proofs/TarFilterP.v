(* Proofs about the tar export model (Model/TarHdr.v), part 4: composition with the hard-link
   reset (Model/Hardlinks.v, C11) on FILTERED listings.  Whatever sub-sequence of a canonical
   walk the filters leave — in particular when the first member of a hard-link group is
   excluded — the archive WriteTar writes is self-contained: every hard-link member names an
   earlier regular member, and extraction gives back the reset listing.
   Uses C11's theorems (Proofs/HardlinksP.v): the reset output passes the hard-link validator
   and equals its declarative description. *)
From Coq Require Import List NArith ZArith Bool.
From FS Require Import Sx Model.Path Model.Stat Model.Tree Model.Hardlinks Model.TarHdr Proofs.Lex.
From FS Require Proofs.HardlinksP.
From FS Require Import Proofs.TarP Proofs.TarExtractP Proofs.TarSpecP.
Import ListNotations.
Open Scope N_scope.

(* ------------------------------------------------------------------ *)
(* the reset listing, entry by entry *)
Lemma combine_map_fst_snd : forall (f : stat -> stat) (l : list entry),
  combine (map f (map fst l)) (map snd l) = map (fun e => (f (fst e), snd e)) l.
Proof. intros f l. induction l as [| [a b] r IH]; [reflexivity |]. cbn. rewrite IH. reflexivity. Qed.

Definition rse (l : list entry) (e : entry) : entry := (reset_spec_entry (map fst l) (fst e), snd e).

Lemma reset_entries_spec : forall l, wf_links (map fst l) = true -> reset_entries l = map (rse l) l.
Proof.
  intros l H. unfold reset_entries. rewrite (HardlinksP.reset_eq_spec_proof _ H). unfold reset_spec.
  apply combine_map_fst_snd.
Qed.

Lemma map_fst_reset_entries : forall l, wf_links (map fst l) = true ->
  map fst (reset_entries l) = hardlink_reset (map fst l).
Proof.
  intros l H. rewrite (reset_entries_spec l H), (HardlinksP.reset_eq_spec_proof _ H). unfold reset_spec.
  rewrite !map_map. reflexivity.
Qed.

(* the reset only touches link names *)
Lemma rse_stat_cases : forall w s,
  reset_spec_entry w s = s \/ exists k, reset_spec_entry w s = set_linkname s k.
Proof.
  intros w s. unfold reset_spec_entry.
  destruct (negb (hl_plain s)); [left; reflexivity |].
  destruct (first_rep w (orig_rep s)) as [r |]; [| left; reflexivity].
  destruct (bytes_eqb r (st_path s)); right; eexists; reflexivity.
Qed.
Lemma rse_path : forall w s, st_path (reset_spec_entry w s) = st_path s.
Proof. intros w s. destruct (rse_stat_cases w s) as [E | [k E]]; rewrite E; reflexivity. Qed.
Lemma rse_mode : forall w s, st_mode (reset_spec_entry w s) = st_mode s.
Proof. intros w s. destruct (rse_stat_cases w s) as [E | [k E]]; rewrite E; reflexivity. Qed.
Lemma rse_size : forall w s, st_size (reset_spec_entry w s) = st_size s.
Proof. intros w s. destruct (rse_stat_cases w s) as [E | [k E]]; rewrite E; reflexivity. Qed.

(* ------------------------------------------------------------------ *)
(* paths of a well-formed listing are distinct *)
Lemma wf_links_fresh : forall l before, wf_links_from before l = true ->
  forall b, In b l -> forall a, In a before -> st_path a <> st_path b.
Proof.
  induction l as [| s r IH]; intros before H b Hb a Ha; [destruct Hb |].
  cbn [wf_links_from] in H. apply andb_true_iff in H. destruct H as [H Hrest].
  apply andb_true_iff in H. destruct H as [H _]. apply andb_true_iff in H. destruct H as [Hfresh _].
  apply negb_true_iff in Hfresh.
  destruct Hb as [Hb | Hb].
  - subst b. apply (HardlinksP.existsb_path_false _ _ Hfresh). exact Ha.
  - apply (IH _ Hrest b Hb a). apply in_or_app. left. exact Ha.
Qed.

Lemma wf_links_inj : forall l before, wf_links_from before l = true ->
  forall a b, In a l -> In b l -> st_path a = st_path b -> a = b.
Proof.
  induction l as [| s r IH]; intros before H a b Ha Hb E; [destruct Ha |].
  pose proof H as H0.
  cbn [wf_links_from] in H. apply andb_true_iff in H. destruct H as [_ Hrest].
  destruct Ha as [Ha | Ha], Hb as [Hb | Hb].
  - congruence.
  - subst a. exfalso. apply (wf_links_fresh _ _ Hrest b Hb s); [apply in_or_app; right; left; reflexivity | exact E].
  - subst b. exfalso. apply (wf_links_fresh _ _ Hrest a Ha s); [apply in_or_app; right; left; reflexivity | symmetry; exact E].
  - apply (IH _ Hrest a b Ha Hb E).
Qed.

(* ------------------------------------------------------------------ *)
(* where a link of the reset listing points: at the first kept member of its group, which
   itself carries no link name after the reset *)
Lemma first_rep_some : forall w s, In s w -> hl_plain s = true -> first_rep w (orig_rep s) <> None.
Proof.
  induction w as [| x r IH]; intros s Hin Hp; [destruct Hin |].
  cbn [first_rep]. destruct (hl_plain x && bytes_eqb (orig_rep x) (orig_rep s)) eqn:E; [discriminate |].
  destruct Hin as [Hin | Hin].
  - subst x. rewrite Hp, bytes_eqb_refl in E. discriminate.
  - apply IH; assumption.
Qed.

Lemma reset_link_target : forall w s,
  In s w -> hl_plain s = true -> is_nil (st_linkname (reset_spec_entry w s)) = false ->
  exists b, In b w /\ hl_plain b = true /\ orig_rep b = orig_rep s
            /\ st_linkname (reset_spec_entry w s) = st_path b
            /\ st_linkname (reset_spec_entry w b) = [].
Proof.
  intros w s Hin Hp Hl. unfold reset_spec_entry in Hl |- *. rewrite Hp in Hl |- *. cbn [negb] in Hl |- *.
  destruct (first_rep w (orig_rep s)) as [r |] eqn:F.
  - destruct (bytes_eqb r (st_path s)); [discriminate |].
    destruct (HardlinksP.first_rep_in _ _ _ F) as [b [Hb [Hpath [Hpb Ho]]]].
    exists b. repeat split; try assumption.
    + cbn. symmetry. exact Hpath.
    + rewrite Hpb. cbn [negb]. rewrite Ho, F. rewrite <- Hpath, bytes_eqb_refl. reflexivity.
  - exfalso. apply (first_rep_some w s Hin Hp). exact F.
Qed.

(* ------------------------------------------------------------------ *)
(* the hard-link validator, one step *)
Lemma hl_step_seen : forall seen s seen', hl_step seen s = Some seen' ->
  forall p, In p seen' -> In p seen \/ p = st_path s.
Proof.
  intros seen s seen' H p Hp. unfold hl_step in H.
  destruct (negb (hl_plain s)); [inversion H; subst; left; exact Hp |].
  destruct (has_link s).
  - destruct (mem_bytes (st_linkname s) seen); [| discriminate]. inversion H; subst. left. exact Hp.
  - inversion H; subst. destruct Hp as [Hp | Hp]; [right; symmetry; exact Hp | left; exact Hp].
Qed.

Lemma hl_step_link : forall seen s seen',
  hl_plain s = true -> is_nil (st_linkname s) = false -> hl_step seen s = Some seen' ->
  In (st_linkname s) seen.
Proof.
  intros seen s seen' Hp Hl H. unfold hl_step in H. rewrite Hp, has_link_nil, Hl in H. cbn [negb] in H.
  destruct (mem_bytes (st_linkname s) seen) eqn:M; [| discriminate].
  apply HardlinksP.mem_bytes_in. exact M.
Qed.

(* a hard-link member of a listing: regular with a link name *)
Definition is_link_member (e : entry) : Prop :=
  mode_is_regular (st_mode (fst e)) = true /\ is_nil (st_linkname (fst e)) = false.

(* a TypeLink member comes from a hard-link member of the listing *)
Lemma link_member_of_wf : forall e,
  link_ok (st_mode (fst e)) (st_linkname (fst e)) = true ->
  is_nil (st_linkname (fst e)) = false -> mode_is_symlink (st_mode (fst e)) = false ->
  is_link_member e.
Proof.
  intros e Hlk Hnil Hsym. unfold link_ok in Hlk. rewrite Hnil, Hsym in Hlk. cbn [orb] in Hlk.
  split; assumption.
Qed.

(* ------------------------------------------------------------------ *)
(* a listing that passes the validator and whose link targets are regular non-link
   entries yields an archive whose hard-link members name earlier regular members *)
Lemma existsb_seen_mono : forall p x (seen : list bytes),
  existsb (bytes_eqb p) seen = true -> existsb (bytes_eqb p) (x :: seen) = true.
Proof. intros p x seen H. cbn [existsb]. rewrite H. apply orb_true_r. Qed.

Lemma resolve_of_check : forall (W : list entry) r seenH seenT i,
  (forall e, In e r -> In e W) -> links_wf r ->
  (forall e t, In e W -> In t W -> is_link_member e -> st_path (fst t) = st_linkname (fst e) ->
               carries_size (fst t) = true) ->
  (forall p, In p seenH -> (exists e, In e W /\ is_link_member e /\ st_linkname (fst e) = p) ->
             existsb (bytes_eqb p) seenT = true) ->
  hl_run seenH (map fst r) i = None ->
  links_resolve_from seenT (map archived_member (tar_of_listing r)) = true.
Proof.
  intros W. induction r as [| e r IH]; intros seenH seenT i Hin Hwf HA Hseen Hrun; [reflexivity |].
  assert (Hwf' : links_wf r) by (intros x Hx; apply Hwf; right; exact Hx).
  assert (Hin' : forall x, In x r -> In x W) by (intros x Hx; apply Hin; right; exact Hx).
  pose proof (Hwf e (or_introl eq_refl)) as Hlk.
  pose proof (Hin e (or_introl eq_refl)) as HeW.
  cbn [map hl_run] in Hrun.
  destruct (hl_step seenH (fst e)) as [seenH' |] eqn:Hs; [| discriminate].
  cbn [tar_of_listing map links_resolve_from].
  apply andb_true_iff. split.
  - replace (h_typeflag (fst (archived_member (member_of_entry e))))
      with (hdr_typeflag (st_mode (fst e)) (st_linkname (fst e))) by reflexivity.
    replace (h_linkname (fst (archived_member (member_of_entry e)))) with (st_linkname (fst e)) by reflexivity.
    rewrite typeflag_link_iff.
    destruct (is_nil (st_linkname (fst e))) eqn:Hnil; [reflexivity |].
    destruct (mode_is_symlink (st_mode (fst e))) eqn:Hsym; [reflexivity |]. cbn [negb andb].
    pose proof (link_member_of_wf e Hlk Hnil Hsym) as Hlm. destruct Hlm as [Hreg _].
    apply Hseen.
    + apply (hl_step_link _ _ _ (regular_plain _ Hreg) Hnil Hs).
    + exists e. repeat split; assumption.
  - apply (IH seenH' _ (S i)); try assumption.
    intros p Hp HK. destruct (hl_step_seen _ _ _ Hs p Hp) as [Hold | Hnew].
    + pose proof (Hseen p Hold HK) as X.
      destruct (N.eqb (h_typeflag (fst (archived_member (member_of_entry e)))) TypeReg); [| exact X].
      apply existsb_seen_mono. exact X.
    + destruct HK as [e0 [He0 [Hlm0 Hl0]]].
      assert (C : carries_size (fst e) = true) by (apply (HA e0 e He0 HeW Hlm0); congruence).
      destruct (carries_size_member e C) as [Htf Hnm]. rewrite Htf, Hnm, Hnew.
      cbn [N.eqb existsb]. rewrite N.eqb_refl. cbn [existsb]. rewrite bytes_eqb_refl. reflexivity.
Qed.

(* ... and, when the targets also agree in size and bytes, a listing whose links are closed *)
Lemma find_entry_found : forall p l t, In t l -> st_path (fst t) = p -> find_entry p l <> None.
Proof.
  intros p l t Hin Hp. unfold find_entry. intro F.
  pose proof (find_none _ _ F t Hin) as X. cbn beta in X. rewrite Hp, bytes_eqb_refl in X. discriminate.
Qed.

Lemma closed_of_check : forall (W : list entry) r done seenH i,
  (forall e, In e r -> In e W) -> (forall e, In e done -> In e W) -> links_wf r ->
  (forall e t, In e W -> In t W -> is_link_member e -> st_path (fst t) = st_linkname (fst e) ->
               carries_size (fst t) = true /\ st_size (fst t) = st_size (fst e) /\ snd t = snd e) ->
  (forall e, In e r -> mode_is_regular (st_mode (fst e)) = false -> snd e = []) ->
  (forall p, In p seenH -> exists t, In t done /\ st_path (fst t) = p) ->
  hl_run seenH (map fst r) i = None ->
  links_closed_from done r = true.
Proof.
  intros W. induction r as [| e r IH]; intros done seenH i Hin Hdone Hwf HA HN Hseen Hrun; [reflexivity |].
  assert (Hwf' : links_wf r) by (intros x Hx; apply Hwf; right; exact Hx).
  assert (Hin' : forall x, In x r -> In x W) by (intros x Hx; apply Hin; right; exact Hx).
  pose proof (Hwf e (or_introl eq_refl)) as Hlk.
  pose proof (Hin e (or_introl eq_refl)) as HeW.
  cbn [map hl_run] in Hrun.
  destruct (hl_step seenH (fst e)) as [seenH' |] eqn:Hs; [| discriminate].
  cbn [links_closed_from]. apply andb_true_iff. split.
  - unfold link_target_ok. destruct (carries_size (fst e)) eqn:C; [reflexivity |].
    destruct (mode_is_regular (st_mode (fst e))) eqn:Hreg.
    + unfold carries_size in C. rewrite Hreg, andb_true_r in C.
      assert (Hlm : is_link_member e) by (split; assumption).
      pose proof (hl_step_link _ _ _ (regular_plain _ Hreg) C Hs) as Hmem.
      destruct (Hseen _ Hmem) as [t [Ht Hp]].
      destruct (find_entry (st_linkname (fst e)) done) as [t0 |] eqn:F;
        [| exfalso; apply (find_entry_found _ _ _ Ht Hp); exact F].
      destruct (find_entry_some _ _ _ F) as [Ht0 Hp0].
      destruct (HA e t0 HeW (Hdone _ Ht0) Hlm Hp0) as [C0 [Hsz Hc]].
      rewrite C0, Hsz, Hc, N.eqb_refl, bytes_eqb_refl. reflexivity.
    + rewrite (HN e (or_introl eq_refl) Hreg). reflexivity.
  - apply (IH (done ++ [e]) seenH' (S i)); try assumption.
    + intros x Hx. apply in_app_or in Hx. destruct Hx as [Hx | [Hx | []]]; [apply Hdone; exact Hx | subst x; exact HeW].
    + intros x Hx. apply HN. right. exact Hx.
    + intros p Hp. destruct (hl_step_seen _ _ _ Hs p Hp) as [Hold | Hnew].
      * destruct (Hseen p Hold) as [t [Ht Hpt]]. exists t. split; [apply in_or_app; left; exact Ht | exact Hpt].
      * exists e. split; [apply in_or_app; right; left; reflexivity | symmetry; exact Hnew].
Qed.

(* ------------------------------------------------------------------ *)
(* link groups of the source view: entries that are the same file (same inode) have the same
   type, size and bytes *)
Lemma forallb2_in : forall (f : entry -> entry -> bool) (l : list entry),
  forallb (fun a => forallb (f a) l) l = true -> forall a b, In a l -> In b l -> f a b = true.
Proof.
  intros f l H a b Ha Hb. rewrite forallb_forall in H. specialize (H a Ha).
  rewrite forallb_forall in H. apply H. exact Hb.
Qed.

Lemma same_group_intro : forall a b,
  hl_plain a = true -> hl_plain b = true -> orig_rep a = orig_rep b -> same_group a b = true.
Proof. intros a b Ha Hb E. unfold same_group. rewrite Ha, Hb, E, bytes_eqb_refl. reflexivity. Qed.

(* the link targets of the reset listing *)
Lemma reset_targets : forall l, wf_links (map fst l) = true ->
  forall e' t', In e' (reset_entries l) -> In t' (reset_entries l) ->
    is_link_member e' -> st_path (fst t') = st_linkname (fst e') ->
    exists e t, In e l /\ In t l /\ e' = rse l e /\ t' = rse l t
                /\ same_group (fst e) (fst t) = true /\ st_linkname (fst t') = [].
Proof.
  intros l Hwf e' t' He' Ht' [Hreg Hnil] Hp.
  rewrite (reset_entries_spec l Hwf) in He', Ht'.
  apply in_map_iff in He'. destruct He' as [e [Ee He]]. apply in_map_iff in Ht'. destruct Ht' as [t [Et Ht]].
  subst e' t'. unfold rse in Hreg, Hnil, Hp. cbn [fst] in Hreg, Hnil, Hp.
  rewrite rse_mode in Hreg. rewrite rse_path in Hp.
  pose proof (regular_plain _ Hreg) as Hpl.
  assert (Hes : In (fst e) (map fst l)) by (apply in_map; exact He).
  assert (Hts : In (fst t) (map fst l)) by (apply in_map; exact Ht).
  destruct (reset_link_target _ _ Hes Hpl Hnil) as [b [Hb [Hpb [Ho [Hlb Hbl]]]]].
  assert (Etb : fst t = b).
  { apply (wf_links_inj _ [] Hwf _ _ Hts Hb). rewrite Hp, Hlb. reflexivity. }
  exists e, t. repeat split; try assumption.
  - apply same_group_intro; [exact Hpl | rewrite Etb; exact Hpb | rewrite Etb; symmetry; exact Ho].
  - unfold rse. cbn [fst]. rewrite Etb. exact Hbl.
Qed.

Lemma reset_links_wf : forall l, wf_listing_b (reset_entries l) = true -> links_wf (reset_entries l).
Proof. intros l H. apply wf_links_wf. exact H. Qed.

(* ------------------------------------------------------------------ *)
(* the composition theorems *)
Lemma filtered_links_resolve_proof : forall l,
  wf_links (map fst l) = true -> group_types_agree l = true ->
  wf_listing_b (reset_entries l) = true ->
  links_resolve (map archived_member (tar_members_listing l)) = true.
Proof.
  intros l Hwf Hty Hwl. unfold links_resolve, tar_members_listing.
  apply (resolve_of_check (reset_entries l) (reset_entries l) [] [] 0%nat).
  - intros e He. exact He.
  - apply reset_links_wf. exact Hwl.
  - intros e' t' He' Ht' Hlm Hp.
    destruct (reset_targets l Hwf e' t' He' Ht' Hlm Hp) as [e [t [He [Ht [Ee [Et [Hg Hl]]]]]]].
    pose proof (forallb2_in _ _ Hty e t He Ht) as X. cbn beta in X. rewrite Hg in X. cbn [negb orb] in X.
    apply eqb_prop in X. destruct Hlm as [Hreg _].
    unfold carries_size. rewrite Hl. cbn [is_nil andb].
    subst e' t'. unfold rse in Hreg |- *. cbn [fst] in Hreg |- *. rewrite rse_mode in Hreg |- *.
    rewrite <- X. exact Hreg.
  - intros p [].
  - rewrite (map_fst_reset_entries l Hwf). apply (HardlinksP.reset_links_valid_proof _ Hwf).
Qed.

Lemma filtered_links_closed_proof : forall l,
  wf_links (map fst l) = true -> group_types_agree l = true -> group_contents_agree l = true ->
  no_content_unless_regular l = true ->
  wf_listing_b (reset_entries l) = true ->
  links_closed (reset_entries l) = true.
Proof.
  intros l Hwf Hty Hct Hnc Hwl. unfold links_closed.
  apply (closed_of_check (reset_entries l) (reset_entries l) [] [] 0%nat).
  - intros e He. exact He.
  - intros e [].
  - apply reset_links_wf. exact Hwl.
  - intros e' t' He' Ht' Hlm Hp.
    destruct (reset_targets l Hwf e' t' He' Ht' Hlm Hp) as [e [t [He [Ht [Ee [Et [Hg Hl]]]]]]].
    pose proof (forallb2_in _ _ Hty e t He Ht) as X. cbn beta in X. rewrite Hg in X. cbn [negb orb] in X.
    apply eqb_prop in X.
    pose proof (forallb2_in _ _ Hct e t He Ht) as Y. cbn beta in Y. rewrite Hg in Y. cbn [negb orb] in Y.
    apply andb_true_iff in Y. destruct Y as [Ys Yc]. apply N.eqb_eq in Ys. apply bytes_eqb_eq in Yc.
    destruct Hlm as [Hreg _].
    unfold carries_size. rewrite Hl. cbn [is_nil andb].
    subst e' t'. unfold rse in Hreg |- *. cbn [fst snd] in Hreg |- *. rewrite !rse_mode in *. rewrite !rse_size.
    repeat split; [rewrite <- X; exact Hreg | symmetry; exact Ys | symmetry; exact Yc].
  - intros e' He' Hreg. rewrite (reset_entries_spec l Hwf) in He'.
    apply in_map_iff in He'. destruct He' as [e [Ee He]]. subst e'.
    unfold rse in Hreg |- *. cbn [fst snd] in Hreg |- *. rewrite rse_mode in Hreg.
    unfold no_content_unless_regular in Hnc. rewrite forallb_forall in Hnc. specialize (Hnc e He).
    rewrite Hreg in Hnc. cbn [orb] in Hnc. destruct (snd e); [reflexivity | discriminate].
  - intros p [].
  - rewrite (map_fst_reset_entries l Hwf). apply (HardlinksP.reset_links_valid_proof _ Hwf).
Qed.

Lemma extract_filtered_roundtrip_proof : forall l,
  wf_links (map fst l) = true -> group_types_agree l = true -> group_contents_agree l = true ->
  no_content_unless_regular l = true ->
  wf_listing_b (reset_entries l) = true ->
  extract (map archived_member (tar_members_listing l)) = map extracted (reset_entries l).
Proof.
  intros l Hwf Hty Hct Hnc Hwl. apply extract_listing_roundtrip_proof; [exact Hwl |].
  apply filtered_links_closed_proof; assumption.
Qed.
