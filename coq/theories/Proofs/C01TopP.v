(* C01 — the statements of Properties/C01.v, assembled from the proofs of ConvergeP / MergeP /
   OracleP / WalkWfP (hypotheses packaged as [wf_entries]). *)
From Coq Require Import List NArith Bool Sorting.Sorted.
From FS Require Import Sx Model.Path Model.Stat Model.Tree Model.Walk Model.Diff Model.AbsDest Model.Converge Model.ConvergeA
  Proofs.Lex Proofs.DiffP Proofs.ReceiveP Proofs.OracleP Proofs.ConvergeP Proofs.MergeP Proofs.WalkWfP.
Import ListNotations.
Open Scope N_scope.

Lemma diff_apply_converges_top : forall (H : bytes -> bytes) (hdr : stat -> bytes) d A B,
  wf_entries A -> wf_entries B -> AbsDest.identity_faithful d A B ->
  let r := receive_abs H hdr Fresh d A B in
  ds_err r = false /\ approx A B (view_of (ds_map r)).
Proof.
  intros H hdr d A B [HwA HlA] [HwB HlB] Hf.
  exact (diff_apply_converges_proof H hdr d A B HwA HwB HlA HlB Hf).
Qed.

Lemma merge_is_overlay_top : forall (H : bytes -> bytes) (hdr : stat -> bytes) d A B,
  wf_listing (map fst A) -> wf_entries B ->
  let r := receive_abs H hdr Merge d A B in
  ds_err r = false /\ approx_merge A B (view_of (ds_map r)) /\
  (forall p, notin (map fst B) p -> ~ covered (map fst B) p ->
             alookup p (ds_map r) = alookup p (dest_of A)) /\
  (forall s c, In (s, c) B -> exists e, alookup (st_path s) (ds_map r) = Some e /\ de_stat e = s /\
                                        (AbsDest.is_reg s = true -> de_bytes e = c)).
Proof.
  intros H hdr d A B HwA [HwB HlB].
  exact (merge_is_overlay_proof H hdr d A B HwA HwB HlB).
Qed.

Lemma converges_from_any_prior_top : forall (H : bytes -> bytes) (hdr : stat -> bytes) d A B,
  wf_entries A -> wf_entries B ->
  (forall sa ba sb bb, In (sa, ba) A -> In (sb, bb) B -> st_path sa = st_path sb -> AbsDest.is_reg sb = true ->
     ba = bb \/ st_size sa <> st_size sb \/ st_mtime sa <> st_mtime sb \/ st_mode sa <> st_mode sb) ->
  let r := receive_abs H hdr Fresh d A B in
  ds_err r = false /\ approx A B (view_of (ds_map r)).
Proof.
  intros H hdr d A B [HwA HlA] [HwB HlB] Hs.
  exact (diff_apply_converges_proof H hdr d A B HwA HwB HlA HlB (faithful_from_stamps d A B Hs)).
Qed.

Lemma oracle_sound_top : forall merge prior src (dest : list raw),
  converged merge prior src dest = true ->
  if merge then approx_merge prior src (map obs_of_raw dest) else approx prior src (map obs_of_raw dest).
Proof.
  intros [|] prior src dest Hc.
  - exact (proj1 (oracle_merge_iff_proof prior src (map obs_of_raw dest)) Hc).
  - exact (proj1 (oracle_iff_proof prior src (map obs_of_raw dest)) Hc).
Qed.

Lemma oracle_iff_top : forall prior src dest,
  (converged_o false prior src dest = true <-> approx prior src dest) /\
  (converged_o true prior src dest = true <-> approx_merge prior src dest).
Proof. intros prior src dest. exact (conj (oracle_iff_proof prior src dest) (oracle_merge_iff_proof prior src dest)). Qed.

Lemma converges_on_walked_trees_top : forall (H : bytes -> bytes) (hdr : stat -> bytes) d contA tA contB tB,
  wf_tree tA -> ino_consistent tA -> inode_coherent tA ->
  wf_tree tB -> ino_consistent tB -> inode_coherent tB ->
  let A := walk_entries contA tA in
  let B := walk_entries contB tB in
  AbsDest.identity_faithful d A B ->
  let r := receive_abs H hdr Fresh d A B in
  ds_err r = false /\ approx A B (view_of (ds_map r)).
Proof.
  intros H hdr d contA tA contB tB WA IA CA WB IB CB A B Hf.
  destruct (walk_views_are_wf_proof contA tA WA IA CA) as [[HwA HlA] _].
  destruct (walk_views_are_wf_proof contB tB WB IB CB) as [[HwB HlB] _].
  exact (diff_apply_converges_proof H hdr d A B HwA HwB HlA HlB Hf).
Qed.
