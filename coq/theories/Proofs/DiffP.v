(* Proofs about Model/Diff.v: the merge loop of doubleWalkDiff never runs out of fuel and,
   on well-formed listings, performs exactly the run described by the inductive relation
   [run] (the [rmdir] string of the Go code is replaced there by its meaning: "this path
   lies below a removed root").  Everything else (exactness of the change list, ordering,
   requests, convergence of the abstract destination) is derived from [run]. *)
From Coq Require Import List NArith Lia Bool Sorting.Sorted.
From FS Require Import Sx Model.Path Model.Stat Model.Diff Proofs.Lex Proofs.PathP.
Import ListNotations.
Open Scope N_scope.
Open Scope bool_scope.

(* ---------------------------------------------------------------- prefixes / "above" *)
Lemma has_prefix_iff pre s : has_prefix pre s = true <-> exists r, s = pre ++ r.
Proof.
  split; [apply has_prefix_app|]. intros [r ->]. induction pre as [|a pre IH]; simpl; auto.
  rewrite N.eqb_refl. exact IH.
Qed.

Lemma above_iff q p : above q p = true <-> exists r, p = q ++ sep :: r.
Proof.
  unfold above, rm_of. rewrite has_prefix_iff. split; intros [r ->]; exists r; rewrite <- app_assoc; reflexivity.
Qed.

Lemma above_trans q p y : above q p = true -> above p y = true -> above q y = true.
Proof.
  rewrite !above_iff. intros [r ->] [r' ->]. exists (r ++ sep :: r'). rewrite <- app_assoc. reflexivity.
Qed.

Lemma is_empty_rm_of p : is_empty (rm_of p) = false.
Proof. unfold rm_of. destruct p; reflexivity. Qed.

Lemma under_rm_rm_of q p : under_rm (rm_of q) p = above q p.
Proof. unfold under_rm. rewrite is_empty_rm_of. reflexivity. Qed.

Lemma under_rm_nil p : under_rm [] p = false.
Proof. reflexivity. Qed.

Lemma comps_app_sep_gen q r : comps (q ++ sep :: r) = comps q ++ comps r.
Proof.
  induction q as [|a q IH].
  - simpl. reflexivity.
  - rewrite <- app_comm_cons. destruct (N.eqb a sep) eqn:E.
    + simpl. rewrite E. rewrite IH. reflexivity.
    + rewrite !comps_unfold_nosep by auto. rewrite IH.
      destruct (comps q) eqn:Ec; [exfalso; eapply comps_nonempty; eauto|]. reflexivity.
Qed.

Lemma above_lt q p : above q p = true -> compare_path q p = Lt.
Proof.
  rewrite above_iff. intros [r ->]. rewrite compare_path_lex, comps_app_sep_gen.
  apply lex_prefix_lt. apply comps_nonempty.
Qed.

Lemma lcmp_prefix_between (T : Type) (cmp : T -> T -> comparison)
  (cmp_eq : forall a b, cmp a b = Eq <-> a = b)
  (cmp_opp : forall a b, cmp b a = CompOpp (cmp a b)) d r x :
  lcmp T cmp d x = Lt -> lcmp T cmp x (d ++ r) = Lt -> exists r', x = d ++ r' /\ r' <> [].
Proof.
  revert x; induction d as [|a d IH]; intros x H1 H2.
  - destruct x as [|l y]; simpl in *; try discriminate. exists (l :: y). split; [reflexivity|discriminate].
  - destruct x as [|c x]; simpl in *; try discriminate.
    rewrite (cmp_opp a c) in H2. destruct (cmp a c) eqn:E; simpl in *; try discriminate.
    apply cmp_eq in E. subst c. destruct (IH x H1 H2) as (r' & -> & Hr). exists r'. auto.
Qed.

Lemma joinc_app a b : a <> [] -> b <> [] -> joinc (a ++ b) = joinc a ++ sep :: joinc b.
Proof.
  induction a as [|c a IH]; intros Ha Hb; [congruence|].
  destruct a as [|c2 a].
  - simpl app. rewrite joinc_cons by auto. reflexivity.
  - change ((c :: c2 :: a) ++ b) with (c :: ((c2 :: a) ++ b)).
    rewrite (joinc_cons c ((c2 :: a) ++ b)) by (simpl; discriminate).
    rewrite IH by (auto; discriminate).
    rewrite (joinc_cons c (c2 :: a)) by discriminate. rewrite <- app_assoc. reflexivity.
Qed.

(* the paths below q are contiguous in path order, right after q *)
Lemma above_between q x p :
  compare_path q x = Lt -> compare_path x p = Lt -> above q p = true -> above q x = true.
Proof.
  intros H1 H2 H3. apply above_iff in H3. destruct H3 as [r ->].
  rewrite compare_path_lex in H1, H2. rewrite comps_app_sep_gen in H2.
  destruct (lcmp_prefix_between _ cmpb cmpb_eq cmpb_opp _ _ _ H1 H2) as (r' & E & Hr).
  apply above_iff. exists (joinc r').
  rewrite <- (joinc_comps x), E. rewrite joinc_app by (auto; apply comps_nonempty).
  rewrite joinc_comps. reflexivity.
Qed.

Lemma compare_path_lt_neq p q : compare_path p q = Lt -> p <> q.
Proof. intros H E. subst. rewrite compare_path_refl in H. discriminate. Qed.

Lemma compare_path_asym p q : compare_path p q = Lt -> compare_path q p = Lt -> False.
Proof. intros H1 H2. rewrite compare_path_opp, H1 in H2. discriminate. Qed.

(* ---------------------------------------------------------------- listings *)

Lemma plt_trans a b c : plt a b -> plt b c -> plt a c.
Proof. apply compare_path_trans. Qed.

Lemma sorted_inv a L : sorted (a :: L) -> sorted L /\ forall b, In b L -> plt a b.
Proof. intros H. inversion H; subst. split; auto. apply Forall_forall; auto. Qed.

Lemma sorted_app_inv L1 L2 : sorted (L1 ++ L2) ->
  sorted L1 /\ sorted L2 /\ forall a b, In a L1 -> In b L2 -> plt a b.
Proof.
  induction L1 as [|x L1 IH]; simpl; intros H.
  - split; [constructor|]. split; auto. intros a b [].
  - apply sorted_inv in H. destruct H as [H1 H2]. destruct (IH H1) as (I1 & I2 & I3).
    split; [|split; auto].
    + constructor; auto. apply Forall_forall. intros b Hb. apply H2. apply in_or_app. auto.
    + intros a b [->|Ha] Hb; [apply H2; apply in_or_app; auto|auto].
Qed.

Lemma sorted_unique L s t : sorted L -> In s L -> In t L -> st_path s = st_path t -> s = t.
Proof.
  induction L as [|x L IH]; intros HS Hs Ht E; [destruct Hs|].
  apply sorted_inv in HS. destruct HS as [HS Hx].
  destruct Hs as [->|Hs], Ht as [->|Ht]; auto.
  - exfalso. specialize (Hx _ Ht). unfold plt in Hx. rewrite E, compare_path_refl in Hx. discriminate.
  - exfalso. specialize (Hx _ Hs). unfold plt in Hx. rewrite E, compare_path_refl in Hx. discriminate.
Qed.

Lemma lookup_some p L s : lookup p L = Some s -> In s L /\ st_path s = p.
Proof.
  unfold lookup. intros H. apply find_some in H. destruct H as [H1 H2]. split; auto.
  apply bytes_eqb_eq; auto.
Qed.

Lemma lookup_none p L : lookup p L = None -> forall s, In s L -> st_path s <> p.
Proof.
  unfold lookup. intros H s Hs E. pose proof (find_none _ _ H _ Hs) as H1. simpl in H1.
  rewrite E, bytes_eqb_refl in H1. discriminate.
Qed.

Lemma lookup_in_sorted L s : sorted L -> In s L -> lookup (st_path s) L = Some s.
Proof.
  intros HS Hs. destruct (lookup (st_path s) L) as [t|] eqn:E.
  - apply lookup_some in E. destruct E as [Ht E]. f_equal. eapply sorted_unique; eauto.
  - exfalso. eapply lookup_none; eauto.
Qed.

Lemma lookup_none_iff p L : lookup p L = None <-> (forall s, In s L -> st_path s <> p).
Proof.
  split; [apply lookup_none|]. intros H. destruct (lookup p L) as [t|] eqn:E; auto.
  apply lookup_some in E. destruct E as [Ht E]. exfalso. eapply H; eauto.
Qed.

(* ---- reflection of the executable well-formedness test ---- *)
Lemma path_ltb_iff p q : path_ltb p q = true <-> compare_path p q = Lt.
Proof. unfold path_ltb. destruct (compare_path p q); split; intros; congruence. Qed.

Lemma sorted_b_iff L : sorted_b L = true <-> sorted L.
Proof.
  induction L as [|a L IH]; [split; [constructor|reflexivity]|].
  destruct L as [|b L].
  - split; [intros _; constructor; constructor|reflexivity].
  - change (sorted_b (a :: b :: L)) with (path_ltb (st_path a) (st_path b) && sorted_b (b :: L)).
    rewrite andb_true_iff, path_ltb_iff, IH. split.
    + intros [H1 H2]. constructor; auto. constructor; auto.
      apply sorted_inv in H2. destruct H2 as [_ H2]. apply Forall_forall. intros c Hc.
      eapply plt_trans; [exact H1|auto].
    + intros H. apply sorted_inv in H. destruct H as [H1 H2]. split; auto. apply H2. left; auto.
Qed.

Lemma sep_prefixes_iff p q : In q (sep_prefixes p) <-> exists r, p = q ++ sep :: r.
Proof.
  revert q; induction p as [|x p IH]; intros q; simpl.
  - split; [intros []|]. intros [r E]. destruct q; discriminate.
  - rewrite in_app_iff, in_map_iff. split.
    + intros [H|(q' & <- & H)].
      * destruct (N.eqb x sep) eqn:E; [|destruct H]. destruct H as [<-|[]].
        apply N.eqb_eq in E. subst. exists p. reflexivity.
      * apply IH in H. destruct H as [r ->]. exists r. reflexivity.
    + intros [r E]. destruct q as [|y q].
      * simpl in E. inversion E; subst. left. rewrite N.eqb_refl. left; auto.
      * simpl in E. inversion E; subst. right. exists q. split; auto. apply IH. eauto.
Qed.

Lemma closed_b_iff L : sorted L -> closed_b L = true <-> closed L.
Proof.
  intros HS. unfold closed_b, closed. rewrite forallb_forall. split.
  - intros H s Hs q r E. specialize (H s Hs). rewrite forallb_forall in H.
    assert (Hq : In q (sep_prefixes (st_path s))) by (apply sep_prefixes_iff; eauto).
    specialize (H q Hq). destruct (lookup q L) as [t|] eqn:El; [|discriminate].
    apply lookup_some in El. destruct El. eauto.
  - intros H s Hs. apply forallb_forall. intros q Hq. apply sep_prefixes_iff in Hq. destruct Hq as [r E].
    destruct (H s Hs q r E) as (t & Ht & <- & Hd). rewrite lookup_in_sorted by auto. exact Hd.
Qed.

Lemma listing_ok_b_iff L : listing_ok_b L = true <-> wf_listing L.
Proof.
  unfold listing_ok_b, wf_listing. rewrite andb_true_iff, sorted_b_iff. split.
  - intros [H1 H2]. split; auto. apply closed_b_iff; auto.
  - intros [H1 H2]. split; auto. apply closed_b_iff; auto.
Qed.

(* ---------------------------------------------------------------- identity *)
Lemma compare_stat_refl a : compare_stat a a = true.
Proof. unfold compare_stat. rewrite !N.eqb_refl, bytes_eqb_refl. reflexivity. Qed.

Lemma same_file_refl a : same_file DMetadata a a = true.
Proof. unfold same_file. rewrite !N.eqb_refl, compare_stat_refl. destruct (st_is_dir a); reflexivity. Qed.

Lemma compare_stat_mode a b : compare_stat a b = true -> st_mode a = st_mode b.
Proof. unfold compare_stat. rewrite !andb_true_iff. intros [[[[[H _] _] _] _] _]. apply N.eqb_eq; auto. Qed.

Lemma same_file_mode d a b : same_file d a b = true -> st_mode a = st_mode b.
Proof.
  destruct d; simpl; [|discriminate]. intros H. apply compare_stat_mode.
  destruct (st_is_dir a); simpl in H; auto.
  destruct (N.eqb (st_size a) (st_size b)); simpl in H; [|discriminate].
  destruct (N.eqb (st_mtime a) (st_mtime b)); simpl in H; [|discriminate]. auto.
Qed.

Lemma same_file_is_dir d a b : same_file d a b = true -> st_is_dir a = st_is_dir b.
Proof. intros H. unfold st_is_dir. rewrite (same_file_mode _ _ _ H). reflexivity. Qed.

(* ---------------------------------------------------------------- fuel *)
Section Loop.
Variable flt : stat -> stat.
Variable d : differ.

Lemma emit_some o r : r <> None -> emit o r <> None.
Proof. destruct r; simpl; congruence. Qed.

Lemma diff_loop_fuel : forall fuel rm A B, (length A + length B < fuel)%nat ->
  diff_loop flt d fuel rm A B <> None.
Proof.
  induction fuel as [|f IH]; intros rm A B H; [lia|].
  destruct A as [|a A'], B as [|b B']; simpl.
  - discriminate.
  - apply emit_some, IH. simpl in *. lia.
  - destruct (step_del rm a) as [o r]. apply emit_some, IH. simpl in *. lia.
  - destruct (compare_path (st_path a) (st_path b)).
    + destruct (step_mod flt d a b) as [o r]. apply emit_some, IH. simpl in *. lia.
    + destruct (step_del rm a) as [o r]. apply emit_some, IH. simpl in *. lia.
    + apply emit_some, IH. simpl in *. lia.
Qed.

Lemma diff_fuel_enough A B : diff_opt flt d A B <> None.
Proof. apply diff_loop_fuel. unfold diff_fuel. lia. Qed.

Lemma diff_opt_diff A B : diff_opt flt d A B = Some (diff flt d A B).
Proof.
  unfold diff. destruct (diff_opt flt d A B) eqn:E; auto. exfalso. eapply diff_fuel_enough; eauto.
Qed.

(* ---------------------------------------------------------------- specification *)
Variables A B : list stat.

Notation removed_root := (Diff.removed_root flt A B).
Notation hidden_by := (Diff.hidden_by flt A B).
Notation hidden := (Diff.hidden flt A B).
Notation spec_change := (Diff.spec_change flt d A B).

(* the run of the loop, with the rmdir state replaced by its meaning *)
Inductive run : list stat -> list stat -> list change -> Prop :=
| run_nil : run [] [] []
| run_del_hidden a A' B' out :
    In a A -> notin B (st_path a) -> hidden (st_path a) -> (forall b, In b B' -> plt a b) ->
    run A' B' out -> run (a :: A') B' out
| run_del a A' B' out :
    In a A -> notin B (st_path a) -> ~ hidden (st_path a) -> (forall b, In b B' -> plt a b) ->
    run A' B' out -> run (a :: A') B' ((KDelete, st_path a, None) :: out)
| run_add b A' B' out :
    In b B -> notin A (st_path b) -> (forall a, In a A' -> plt b a) ->
    run A' B' out -> run A' (b :: B') ((KAdd, st_path b, Some b) :: out)
| run_same a b A' B' out :
    In a A -> In b B -> st_path a = st_path b -> same_file d a (flt b) = true ->
    run A' B' out -> run (a :: A') (b :: B') out
| run_mod a b A' B' out :
    In a A -> In b B -> st_path a = st_path b -> same_file d a (flt b) = false ->
    run A' B' out -> run (a :: A') (b :: B') ((KModify, st_path b, Some b) :: out).

Hypothesis HsA : sorted A.
Hypothesis HsB : sorted B.
Hypothesis HcB : closed B.
Hypothesis Hflt : forall s, st_is_dir (flt s) = st_is_dir s.

(* loop invariant *)
Definition inv (rm : bytes) (A0 A' B0 B' : list stat) : Prop :=
  A = A0 ++ A' /\ B = B0 ++ B' /\
  (forall x y, In x (A0 ++ B0) -> In y (A' ++ B') -> plt x y) /\
  (forall y, In y A' -> (under_rm rm (st_path y) = true <-> hidden_by A0 (st_path y))).

(* a removed root cannot have anything of B below it *)
Lemma removed_root_no_B q b r :
  removed_root q -> In b B -> st_path b = st_path q ++ sep :: r -> False.
Proof.
  intros (Hq & Hd & Hr) Hb E. destruct (HcB b Hb _ _ E) as (t & Ht & Et & Hdt).
  destruct Hr as [Hn|(b' & Hb' & Eb' & Hdb')].
  - eapply Hn; eauto.
  - assert (b' = t) by (eapply sorted_unique; eauto; congruence). subst b'.
    rewrite Hflt in Hdb'. congruence.
Qed.

Lemma hidden_by_mono A0 A1 p : (forall a, In a A0 -> In a A1) -> hidden_by A0 p -> hidden_by A1 p.
Proof. intros H (a & Ha & Hr & Hab). exists a. auto. Qed.

Lemma plt_irrefl a : ~ plt a a.
Proof. unfold plt. rewrite compare_path_refl. discriminate. Qed.

Lemma plt_asym a b : plt a b -> plt b a -> False.
Proof. apply compare_path_asym. Qed.

Lemma plt_path_neq a b : plt a b -> st_path a <> st_path b.
Proof. apply compare_path_lt_neq. Qed.

(* facts available at the head of A' *)
Lemma inv_head_A rm A0 a A' B0 B' :
  inv rm A0 (a :: A') B0 B' ->
  In a A /\ (forall y, In y A' -> plt a y) /\
  (hidden (st_path a) <-> hidden_by A0 (st_path a)).
Proof.
  intros (EA & EB & Hord & Hrm).
  assert (HS := HsA). rewrite EA in HS. apply sorted_app_inv in HS. destruct HS as (S0 & S1 & S01).
  apply sorted_inv in S1. destruct S1 as [S1 Ha].
  split; [rewrite EA; apply in_or_app; right; left; auto|]. split; auto.
  split.
  - intros (q & Hq & Hr & Hab). exists q. split; auto.
    rewrite EA in Hq. apply in_app_or in Hq. destruct Hq as [Hq|[<-|Hq]]; auto.
    + apply above_lt in Hab. exfalso. eapply plt_irrefl; eauto.
    + apply above_lt in Hab. exfalso. eapply plt_asym; [apply Ha; eauto|exact Hab].
  - apply hidden_by_mono. intros x Hx. rewrite EA. apply in_or_app; auto.
Qed.

(* nothing of A' is hidden by a processed root unless the head is *)
Lemma not_hidden_after rm A0 x A' B0 B' y :
  inv rm A0 A' B0 B' -> In y A' -> plt x y ->
  (forall q, In q A0 -> plt q x) ->
  (forall q, removed_root q -> above (st_path q) (st_path x) = true -> False) ->
  ~ hidden_by A0 (st_path y).
Proof.
  intros Hinv Hy Hxy Hq0 Hno (q & Hq & Hr & Hab).
  apply (Hno q Hr). eapply above_between; [apply Hq0; auto|exact Hxy|exact Hab].
Qed.

Lemma diff_loop_run : forall fuel rm A0 A' B0 B',
  (length A' + length B' < fuel)%nat -> inv rm A0 A' B0 B' ->
  exists out, diff_loop flt d fuel rm A' B' = Some out /\ run A' B' out.
Proof.
  induction fuel as [|f IH]; intros rm A0 A' B0 B' Hf Hinv; [lia|].
  (* generic consequences *)
  assert (Hdel : forall a A'' , A' = a :: A'' -> (forall b, In b B' -> plt a b) ->
            exists out, (let '(o, r) := step_del rm a in emit o (diff_loop flt d f r A'' B')) = Some out
                        /\ run (a :: A'') B' out).
  { intros a A'' -> HaB. pose proof Hinv as (EA & EB & Hord & Hrm).
    destruct (inv_head_A _ _ _ _ _ _ Hinv) as (HaA & HaA'' & Hhid).
    assert (HnB : notin B (st_path a)).
    { intros s Hs E. rewrite EB in Hs. apply in_app_or in Hs. destruct Hs as [Hs|Hs].
      - assert (plt s a) by (apply Hord; [apply in_or_app; auto|apply in_or_app; left; left; auto]).
        eapply plt_path_neq; eauto.
      - specialize (HaB _ Hs). eapply plt_path_neq; eauto. }
    assert (Hord' : forall x y, In x ((A0 ++ [a]) ++ B0) -> In y (A'' ++ B') -> plt x y).
    { intros x y Hx Hy. rewrite <- app_assoc in Hx. apply in_app_or in Hx.
      assert (Hy' : In y ((a :: A'') ++ B')) by (simpl; right; auto).
      destruct Hx as [Hx|Hx]; [apply Hord; auto; apply in_or_app; auto|].
      destruct Hx as [<-|Hx]; [|apply Hord; auto; apply in_or_app; auto].
      apply in_app_or in Hy. destruct Hy; auto. }
    assert (EA' : A = (A0 ++ [a]) ++ A'') by (rewrite <- app_assoc; exact EA).
    unfold step_del. destruct (under_rm rm (st_path a)) eqn:Eu.
    - (* suppressed *)
      assert (Hh0 : hidden_by A0 (st_path a)) by (apply Hrm; [left; auto|exact Eu]).
      assert (Hinv' : inv rm (A0 ++ [a]) A'' B0 B').
      { split; [exact EA'|]. split; [exact EB|]. split; [exact Hord'|].
        intros y Hy. split.
        - intros Hu. eapply hidden_by_mono; [|apply Hrm; [right; exact Hy|exact Hu]].
          intros; apply in_or_app; auto.
        - intros (q & Hq & Hr & Hab). apply Hrm; [right; auto|].
          apply in_app_or in Hq. destruct Hq as [Hq|[<-|[]]]; [exists q; auto|].
          destruct Hh0 as (q0 & Hq0 & Hr0 & Hab0). exists q0. split; auto. split; auto.
          eapply above_trans; eauto. }
      assert (Hlt : (length A'' + length B' < f)%nat) by (simpl in Hf; lia).
      destruct (IH rm _ _ _ _ Hlt Hinv') as (out & E & R).
      exists out. rewrite E. split; [reflexivity|].
      apply run_del_hidden; auto. apply Hhid; auto.
    - (* reported *)
      assert (Hnh0 : ~ hidden_by A0 (st_path a)).
      { intros H. apply Hrm in H; [|left; auto]. congruence. }
      assert (Hnh : ~ hidden (st_path a)) by (intro H; apply Hnh0, Hhid; auto).
      set (rm' := if st_is_dir a then rm_of (st_path a) else []).
      assert (Hinv' : inv rm' (A0 ++ [a]) A'' B0 B').
      { split; [exact EA'|]. split; [exact EB|]. split; [exact Hord'|].
        intros y Hy.
        assert (Hny : ~ hidden_by A0 (st_path y)).
        { intros (q & Hq & Hr & Hab). apply Hnh0. exists q. split; auto. split; auto.
          eapply above_between; [|apply HaA''; exact Hy|exact Hab].
          apply Hord; [apply in_or_app; auto|left; auto]. }
        unfold rm'. split.
        - intros Hu. destruct (st_is_dir a) eqn:Ed; [|rewrite under_rm_nil in Hu; discriminate].
          rewrite under_rm_rm_of in Hu. exists a. split; [apply in_or_app; right; left; auto|].
          split; auto. split; auto.
        - intros (q & Hq & Hr & Hab). apply in_app_or in Hq.
          destruct Hq as [Hq|[<-|[]]]; [exfalso; apply Hny; exists q; auto|].
          destruct Hr as (_ & Hd & _). rewrite Hd. rewrite under_rm_rm_of. exact Hab. }
      assert (Hlt : (length A'' + length B' < f)%nat) by (simpl in Hf; lia).
      destruct (IH rm' _ _ _ _ Hlt Hinv') as (out & E & R).
      exists ((KDelete, st_path a, None) :: out). fold rm'. rewrite E. split; [reflexivity|].
      apply run_del; auto. }
  assert (Hadd : forall b B'', B' = b :: B'' -> (forall a, In a A' -> plt b a) ->
            exists out, (let '(o, r) := step_add b in emit o (diff_loop flt d f r A' B'')) = Some out
                        /\ run A' (b :: B'') out).
  { intros b B'' -> HbA. pose proof Hinv as (EA & EB & Hord & Hrm).
    assert (HS := HsB). rewrite EB in HS. apply sorted_app_inv in HS. destruct HS as (S0 & S1 & S01).
    apply sorted_inv in S1. destruct S1 as [S1 HbB''].
    assert (HbB : In b B) by (rewrite EB; apply in_or_app; right; left; auto).
    assert (HnA : notin A (st_path b)).
    { intros s Hs E. rewrite EA in Hs. apply in_app_or in Hs. destruct Hs as [Hs|Hs].
      - assert (plt s b) by (apply Hord; [apply in_or_app; auto|apply in_or_app; right; left; auto]).
        eapply plt_path_neq; eauto.
      - specialize (HbA _ Hs). eapply plt_path_neq; eauto. }
    assert (Hinv' : inv [] A0 A' (B0 ++ [b]) B'').
    { split; [exact EA|]. split; [rewrite <- app_assoc; exact EB|]. split.
      - intros x y Hx Hy. rewrite app_assoc in Hx. apply in_app_or in Hx.
        assert (Hy' : In y (A' ++ b :: B'')).
        { apply in_app_or in Hy. apply in_or_app. destruct Hy; auto. right; right; auto. }
        destruct Hx as [Hx|[<-|[]]]; [apply Hord; auto|].
        apply in_app_or in Hy. destruct Hy; auto.
      - intros y Hy. rewrite under_rm_nil. split; [discriminate|]. intros (q & Hq & Hr & Hab). exfalso.
        assert (Hqb : above (st_path q) (st_path b) = true).
        { eapply above_between; [|apply HbA; exact Hy|exact Hab].
          apply Hord; [apply in_or_app; auto|apply in_or_app; right; left; auto]. }
        apply above_iff in Hqb. destruct Hqb as [r Er]. eapply removed_root_no_B; eauto. }
    assert (Hlt : (length A' + length B'' < f)%nat) by (simpl in Hf; lia).
    destruct (IH [] _ _ _ _ Hlt Hinv') as (out & E & R).
    exists ((KAdd, st_path b, Some b) :: out). unfold step_add. rewrite E. split; [reflexivity|].
    apply run_add; auto. }
  destruct A' as [|a A''], B' as [|b B'']; cbn [diff_loop].
  - exists []. split; auto. constructor.
  - apply (Hadd b B'' eq_refl). intros a [].
  - apply (Hdel a A'' eq_refl). intros b [].
  - destruct (compare_path (st_path a) (st_path b)) eqn:Ec.
    + (* modify *)
      clear Hdel Hadd. apply compare_path_eq in Ec.
      pose proof Hinv as (EA & EB & Hord & Hrm).
      destruct (inv_head_A _ _ _ _ _ _ Hinv) as (HaA & HaA'' & Hhid).
      assert (HS := HsB). rewrite EB in HS. apply sorted_app_inv in HS. destruct HS as (S0 & S1 & S01).
      apply sorted_inv in S1. destruct S1 as [S1 HbB''].
      assert (HbB : In b B) by (rewrite EB; apply in_or_app; right; left; auto).
      set (rm' := if st_is_dir a && negb (st_is_dir (flt b)) then rm_of (st_path a) else []).
      assert (Hinv' : inv rm' (A0 ++ [a]) A'' (B0 ++ [b]) B'').
      { split; [rewrite <- app_assoc; exact EA|]. split; [rewrite <- app_assoc; exact EB|]. split.
        - intros x y Hx Hy.
          assert (Hy' : In y ((a :: A'') ++ b :: B'')).
          { apply in_app_or in Hy. apply in_or_app. destruct Hy; [left; right; auto|right; right; auto]. }
          assert (Hay : plt a y).
          { apply in_app_or in Hy. destruct Hy as [Hy|Hy]; auto.
            unfold plt. rewrite Ec. apply HbB''; auto. }
          apply in_app_or in Hx. destruct Hx as [Hx|Hx]; apply in_app_or in Hx; destruct Hx as [Hx|[<-|[]]]; auto.
          + apply Hord; auto. apply in_or_app; auto.
          + apply Hord; auto. apply in_or_app; auto.
          + unfold plt. rewrite <- Ec. exact Hay.
        - intros y Hy.
          assert (Hny : ~ hidden_by A0 (st_path y)).
          { intros (q & Hq & Hr & Hab).
            assert (Hqb : above (st_path q) (st_path a) = true).
            { eapply above_between; [|apply HaA''; exact Hy|exact Hab].
              apply Hord; [apply in_or_app; auto|left; auto]. }
            apply above_iff in Hqb. destruct Hqb as [r Er]. rewrite Ec in Er.
            eapply removed_root_no_B; eauto. }
          unfold rm'. split.
          + intros Hu. destruct (st_is_dir a && negb (st_is_dir (flt b))) eqn:Ed;
              [|rewrite under_rm_nil in Hu; discriminate].
            apply andb_true_iff in Ed. destruct Ed as [Ed1 Ed2]. apply negb_true_iff in Ed2.
            rewrite under_rm_rm_of in Hu. exists a. split; [apply in_or_app; right; left; auto|].
            split; auto. split; auto. split; auto. right. exists b. auto.
          + intros (q & Hq & Hr & Hab). apply in_app_or in Hq.
            destruct Hq as [Hq|[<-|[]]]; [exfalso; apply Hny; exists q; auto|].
            destruct Hr as (_ & Hd & [Hn|(b' & Hb' & Eb' & Hdb')]); [exfalso; eapply Hn; eauto|].
            assert (b' = b) by (apply (sorted_unique B); auto; congruence). subst b'.
            rewrite Hd, Hdb'. simpl. rewrite under_rm_rm_of. exact Hab. }
      assert (Hlt : (length A'' + length B'' < f)%nat) by (simpl in Hf; lia).
      destruct (IH rm' _ _ _ _ Hlt Hinv') as (out & E & R).
      unfold step_mod. fold rm'. rewrite E.
      destruct (same_file d a (flt b)) eqn:Es.
      * exists out. split; [reflexivity|]. apply run_same; auto.
      * exists ((KModify, st_path b, Some b) :: out). split; [reflexivity|]. apply run_mod; auto.
    + (* delete *)
      apply (Hdel a A'' eq_refl). intros y [<-|Hy]; [exact Ec|].
      pose proof Hinv as (EA & EB & Hord & Hrm).
      assert (HS := HsB). rewrite EB in HS. apply sorted_app_inv in HS. destruct HS as (S0 & S1 & S01).
      apply sorted_inv in S1. destruct S1 as [S1 HbB'']. eapply plt_trans; [exact Ec|auto].
    + (* add *)
      apply (Hadd b B'' eq_refl).
      assert (Hba : plt b a) by (unfold plt; rewrite compare_path_opp, Ec; reflexivity).
      intros y [<-|Hy]; [exact Hba|].
      destruct (inv_head_A _ _ _ _ _ _ Hinv) as (HaA & HaA'' & Hhid). eapply plt_trans; [exact Hba|auto].
Qed.

Theorem diff_run : run A B (diff flt d A B).
Proof.
  assert (Hinv : inv [] [] A [] B).
  { split; auto. split; auto. split; [intros x y []|].
    intros y Hy. rewrite under_rm_nil. split; [discriminate|]. intros (q & [] & _). }
  destruct (diff_loop_run (diff_fuel A B) [] [] A [] B ltac:(unfold diff_fuel; lia) Hinv) as (out & E & R).
  unfold diff, diff_opt. rewrite E. exact R.
Qed.

End Loop.


(* ---------------------------------------------------------------- consequences of [run] *)
Section Exact.
Variable flt : stat -> stat.
Variable d : differ.
Variables A B : list stat.
Hypothesis HsA : sorted A.
Hypothesis HsB : sorted B.

Notation run := (run flt d A B).
Notation spec_change := (spec_change flt d A B).
Notation hidden := (hidden flt A B).

Lemma spec_change_path_in c : spec_change c -> In (ch_path c) (paths A) \/ In (ch_path c) (paths B).
Proof.
  destruct c as [[k p] [b|]]; destruct k; simpl; try tauto.
  - intros (Hb & <- & _). right. apply (in_map st_path); auto.
  - intros (Hb & <- & _). right. apply (in_map st_path); auto.
  - intros ((a & Ha & <-) & _). left. apply (in_map st_path); auto.
Qed.

Lemma run_exact A' B' out : run A' B' out ->
  forall c, In c out <-> spec_change c /\ (In (ch_path c) (paths A') \/ In (ch_path c) (paths B')).
Proof.
  induction 1 as [|a A' B' out Ha HnB Hh HaB R IH|a A' B' out Ha HnB Hh HaB R IH
                 |b A' B' out Hb HnA HbA R IH|a b A' B' out Ha Hb E Hs R IH|a b A' B' out Ha Hb E Hs R IH];
    intros c.
  - simpl. tauto.
  - (* hidden delete *)
    rewrite IH. split; [intros [H1 [H2|H2]]; split; auto; left; right; auto|].
    intros [H1 H2]. split; auto. destruct H2 as [[H2|H2]|H2]; auto. exfalso.
    destruct c as [[k p] [b|]]; destruct k; unfold ch_path in *; simpl in *; try tauto; subst p.
    + destruct H1 as (_ & _ & Hn). eapply Hn; eauto.
    + destruct H1 as (Hb & Eb & _). eapply HnB; eauto.
    + destruct H1 as (_ & _ & Hn). auto.
  - (* reported delete *)
    simpl In. rewrite IH. split.
    + intros [<-|[H1 [H2|H2]]]; [|split; auto; left; right; auto|split; auto].
      split; [|left; left; auto]. simpl. split; eauto.
    + intros [H1 H2]. destruct H2 as [[H2|H2]|H2]; auto. left.
      destruct c as [[k p] [b|]]; destruct k; unfold ch_path in *; simpl in *; try tauto; subst p.
      * destruct H1 as (_ & _ & Hn). exfalso. eapply Hn; eauto.
      * destruct H1 as (Hb & Eb & _). exfalso. eapply HnB; eauto.
      * reflexivity.
  - (* add *)
    simpl In. rewrite IH. split.
    + intros [<-|[H1 [H2|H2]]]; [|split; auto|split; auto; right; right; auto].
      split; [|right; left; auto]. simpl. auto.
    + intros [H1 H2]. destruct H2 as [H2|[H2|H2]]; auto. left.
      destruct c as [[k p] [b'|]]; destruct k; unfold ch_path in *; simpl in *; try tauto; subst p.
      * destruct H1 as (Hb' & Eb' & _). assert (b' = b) by (apply (sorted_unique B); auto). subst. reflexivity.
      * destruct H1 as (_ & _ & a & Ha & Ea & _). exfalso. eapply HnA; eauto.
      * destruct H1 as (_ & Hn & _). exfalso. eapply Hn; eauto.
  - (* unchanged *)
    rewrite IH. split; [intros [H1 [H2|H2]]; split; auto; [left|right]; right; auto|].
    intros [H1 H2]. split; auto. destruct H2 as [[H2|H2]|[H2|H2]]; auto; exfalso.
    all: destruct c as [[k p] [b'|]]; destruct k; unfold ch_path in *; simpl in *; try tauto; subst p.
    + destruct H1 as (_ & _ & Hn). eapply Hn; eauto.
    + destruct H1 as (Hb' & Eb' & a' & Ha' & Ea' & Hs').
      assert (b' = b) by (apply (sorted_unique B); auto; congruence).
      assert (a' = a) by (apply (sorted_unique A); auto). subst. congruence.
    + destruct H1 as (_ & Hn & _). eapply Hn; eauto.
    + destruct H1 as (_ & _ & Hn). eapply Hn; eauto.
    + destruct H1 as (Hb' & Eb' & a' & Ha' & Ea' & Hs').
      assert (b' = b) by (apply (sorted_unique B); auto).
      assert (a' = a) by (apply (sorted_unique A); auto; congruence). subst. congruence.
    + destruct H1 as (_ & Hn & _). eapply Hn; eauto.
  - (* modify *)
    simpl In. rewrite IH. split.
    + intros [<-|[H1 [H2|H2]]]; [|split; auto; left; right; auto|split; auto; right; right; auto].
      split; [|right; left; auto]. simpl. split; auto. split; auto. exists a. auto.
    + intros [H1 H2].
      assert (Hp : ch_path c = st_path b -> (KModify, st_path b, Some b) = c).
      { destruct c as [[k p] [b'|]]; destruct k; unfold ch_path in *; simpl in *; try tauto; intros ->.
        - destruct H1 as (_ & _ & Hn). exfalso. eapply Hn; eauto.
        - destruct H1 as (Hb' & Eb' & _). assert (b' = b) by (apply (sorted_unique B); auto). subst. reflexivity.
        - destruct H1 as (_ & Hn & _). exfalso. eapply Hn; eauto. }
      destruct H2 as [[H2|H2]|[H2|H2]]; auto; left; apply Hp; congruence.
Qed.

(* everything reported lies beyond a common lower bound of the unread suffixes *)
Lemma run_lower_bound A' B' out : run A' B' out ->
  forall p, (forall a, In a A' -> compare_path p (st_path a) = Lt) ->
            (forall b, In b B' -> compare_path p (st_path b) = Lt) ->
  forall c, In c out -> compare_path p (ch_path c) = Lt.
Proof.
  induction 1; intros p HA HB c Hc; simpl in *.
  - destruct Hc.
  - eapply IHrun; eauto.
  - destruct Hc as [<-|Hc]; [unfold ch_path; simpl; auto|eapply IHrun; eauto].
  - destruct Hc as [<-|Hc]; [unfold ch_path; simpl; auto|eapply IHrun; eauto].
  - eapply IHrun; eauto.
  - destruct Hc as [<-|Hc]; [unfold ch_path; simpl; auto|eapply IHrun; eauto].
Qed.

Definition clt (c1 c2 : change) : Prop := compare_path (ch_path c1) (ch_path c2) = Lt.

Lemma run_sorted A' B' out : run A' B' out -> sorted A' -> sorted B' -> StronglySorted clt out.
Proof.
  induction 1 as [|a A' B' out Ha HnB Hh HaB R IH|a A' B' out Ha HnB Hh HaB R IH
                 |b A' B' out Hb HnA HbA R IH|a b A' B' out Ha Hb E Hs R IH|a b A' B' out Ha Hb E Hs R IH];
    intros SA SB.
  - constructor.
  - apply sorted_inv in SA. destruct SA. auto.
  - apply sorted_inv in SA. destruct SA as [SA HaA]. constructor; auto.
    apply Forall_forall. intros c Hc. unfold clt, ch_path at 1. simpl.
    eapply run_lower_bound; eauto.
  - apply sorted_inv in SB. destruct SB as [SB HbB]. constructor; auto.
    apply Forall_forall. intros c Hc. unfold clt, ch_path at 1. simpl.
    eapply run_lower_bound; eauto.
  - apply sorted_inv in SA, SB. destruct SA, SB. auto.
  - apply sorted_inv in SA, SB. destruct SA as [SA HaA], SB as [SB HbB]. constructor; auto.
    apply Forall_forall. intros c Hc. unfold clt, ch_path at 1. simpl.
    eapply run_lower_bound; eauto. intros a' Ha'. rewrite <- E. apply HaA; auto.
Qed.

Lemma clt_sorted_nodup out : StronglySorted clt out -> NoDup (map ch_path out).
Proof.
  induction 1 as [|c out S IH F]; simpl; constructor; auto.
  intros Hin. apply in_map_iff in Hin. destruct Hin as (c' & E & Hc').
  rewrite Forall_forall in F. specialize (F _ Hc'). unfold clt in F. rewrite E, compare_path_refl in F. discriminate.
Qed.

Hypothesis HcB : closed B.
Hypothesis Hflt : forall s, st_is_dir (flt s) = st_is_dir s.

Theorem diff_changes_exact_proof c : In c (diff flt d A B) <-> spec_change c.
Proof.
  rewrite (run_exact _ _ _ (diff_run flt d A B HsA HsB HcB Hflt)). split; [tauto|].
  intros H. split; auto. apply spec_change_path_in; auto.
Qed.

Theorem diff_sorted_proof : StronglySorted clt (diff flt d A B).
Proof. apply (run_sorted A B); auto. apply diff_run; auto. Qed.

Theorem diff_nodup_proof : NoDup (map ch_path (diff flt d A B)).
Proof. apply clt_sorted_nodup, diff_sorted_proof. Qed.

End Exact.

(* differencing disabled: every common path is reported as modified *)
Theorem diff_none_all_proof flt A B :
  sorted A -> sorted B -> closed B -> (forall s, st_is_dir (flt s) = st_is_dir s) ->
  forall a b, In a A -> In b B -> st_path a = st_path b ->
  In (KModify, st_path b, Some b) (diff flt DNone A B).
Proof.
  intros HsA HsB HcB Hflt a b Ha Hb E. apply diff_changes_exact_proof; auto.
  simpl. split; auto. split; auto. exists a. auto.
Qed.

(* re-sync of an unchanged listing: nothing is reported (no hypothesis on the listing) *)
Lemma diff_loop_all_same flt d : forall fuel rm A B, (length A + length B < fuel)%nat ->
  Forall2 (fun a b => st_path a = st_path b /\ same_file d a (flt b) = true) A B ->
  diff_loop flt d fuel rm A B = Some [].
Proof.
  induction fuel as [|f IH]; intros rm A B Hf H; [lia|].
  destruct H as [|a b A B [E Hs] H]; [reflexivity|].
  cbn [diff_loop]. rewrite E, compare_path_refl. unfold step_mod. rewrite Hs.
  rewrite IH; auto. simpl in Hf. lia.
Qed.

Theorem resync_noop_gen flt d A B :
  Forall2 (fun a b => st_path a = st_path b /\ same_file d a (flt b) = true) A B ->
  diff flt d A B = [].
Proof.
  intros H. unfold diff, diff_opt. rewrite diff_loop_all_same; auto; unfold diff_fuel; lia.
Qed.

Theorem resync_noop_proof B : diff (fun s => s) DMetadata B B = [].
Proof.
  apply resync_noop_gen. induction B; constructor; auto. split; auto. apply same_file_refl.
Qed.


(* ---------------------------------------------------------------- readable forms *)
Lemma spec_change_iff flt d A B k p st :
  spec_change flt d A B (k, p, st) <->
  (k = KAdd /\ exists b, st = Some b /\ In b B /\ st_path b = p /\ notin A p) \/
  (k = KModify /\ exists a b, st = Some b /\ In a A /\ In b B /\ st_path a = p /\ st_path b = p
                               /\ same_file d a (flt b) = false) \/
  (k = KDelete /\ st = None /\ (exists a, In a A /\ st_path a = p) /\ notin B p /\ ~ hidden flt A B p).
Proof.
  destruct k, st as [b|]; simpl; split.
  - intros (H1 & H2 & H3). left. split; auto. exists b. auto.
  - intros [(_ & b' & E & H1 & H2 & H3)|[(E & _)|(E & _)]]; try discriminate. inversion E; subst. auto.
  - intros [].
  - intros [(_ & b' & E & _)|[(E & _)|(E & _)]]; discriminate.
  - intros (H1 & H2 & a & H3 & H4 & H5). right. left. split; auto. exists a, b. repeat split; auto.
  - intros [(E & _)|[(_ & a & b' & E & H1 & H2 & H3 & H4 & H5)|(E & _)]]; try discriminate.
    inversion E; subst. split; auto. split; auto. exists a. auto.
  - intros [].
  - intros [(E & _)|[(_ & a & b' & E & _)|(E & _)]]; discriminate.
  - intros [].
  - intros [(E & _)|[(E & _)|(_ & E & _)]]; discriminate.
  - intros (H1 & H2 & H3). right. right. auto.
  - intros [(E & _)|[(E & _)|(_ & _ & H1 & H2 & H3)]]; try discriminate. auto.
Qed.

(* sameFile compares exactly the identity key *)
Theorem same_file_is_identity a b :
  same_file DMetadata a b = key_eqb (identity_key a) (identity_key b).
Proof.
  unfold same_file, key_eqb, identity_key, compare_stat. cbn [fst snd bytes_eqb].
  destruct (N.eqb (st_mode a) (st_mode b)) eqn:Em.
  - apply N.eqb_eq in Em. unfold st_is_dir. rewrite Em.
    destruct (mode_is_dir (st_mode b)); cbn [negb andb N.eqb];
    destruct (N.eqb (st_uid a) (st_uid b)), (N.eqb (st_gid a) (st_gid b)),
             (N.eqb (st_devmajor a) (st_devmajor b)), (N.eqb (st_devminor a) (st_devminor b)),
             (N.eqb (st_size a) (st_size b)), (N.eqb (st_mtime a) (st_mtime b)),
             (bytes_eqb (st_linkname a) (st_linkname b)); reflexivity.
  - cbn [andb].
    destruct (st_is_dir a); cbn [negb]; auto.
    destruct (N.eqb (st_size a) (st_size b)); cbn [negb]; auto.
    destruct (N.eqb (st_mtime a) (st_mtime b)); cbn [negb]; auto.
Qed.
