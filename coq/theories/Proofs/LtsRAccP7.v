(* Refinement LTS (receiver side) -> receiver acceptor, part 7: the abstraction exists for
   every announced sequence and every needs predicate. *)
From Coq Require Import List NArith Bool Arith PeanoNat Lia.
From FS Require Import Model.Lts.
From FS Require Import Sx Model.Path Model.Stat Model.AccEvents Model.ReceiverAcc Model.LtsRAcc.
Import ListNotations.
Local Open Scope nat_scope.

Lemma rabs_ok_params_of_proof : forall needs stats capSR capRS pay,
  (forall id k, pay id k <> []) -> rabs_ok (lts_rparams_of needs stats capSR capRS) stats needs pay.
Proof.
  intros needs stats cs cr pay Hp. unfold rabs_ok.
  assert (Hnth : forall i st, nth_error stats i = Some st ->
            entry_at (lts_rparams_of needs stats cs cr) i = Some (lts_rentry_of needs st))
    by (intros i st E; unfold entry_at; cbn; rewrite nth_error_map, E; reflexivity).
  repeat split.
  - cbn. apply map_length.
  - intros i st E. unfold is_file. rewrite (Hnth i st E). reflexivity.
  - intros i st E. unfold kind_of. rewrite (Hnth i st E). cbn. destruct (wanted needs st); reflexivity.
  - exact Hp.
Qed.
