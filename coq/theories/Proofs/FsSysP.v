(* C03 — frame lemmas, part 2: one lemma per system call of the receiver.  A call whose path is
   relative to D, made of normal components, whose parent chain meets no symlink, and which
   does not follow the final component (or whose final component is no symlink either) is a
   step (FsReachP.v) that touches at most the one directory entry it names. *)
From Coq Require Import List Arith NArith Bool Lia ZifyN ZifyNat ZifyBool.
From FS Require Import Sx Model.Path Model.Fs Proofs.Lex Proofs.PathP Proofs.FsP Proofs.FsReachP Proofs.FsFrameP.
Import ListNotations.
Open Scope N_scope.
Open Scope bool_scope.

(* [DiskWriterFs.is_err], stated here on the result type of Model/Fs.v (convertible) *)
Definition rerr (r : result) : bool := match r with RErr _ => true | _ => false end.

Definition stat_ino_of (r : result) : option N := match r with RStat i _ => Some i | _ => None end.

(* ---------------- path strings ---------------- *)
Definition relpath (p : bytes) (cs : list bytes) : Prop :=
  p <> [] /\ is_abs p = false /\ ends_with_sep p = false /\ pcs p = cs /\ cs <> [] /\ Forall okname cs.

Lemma okname_forall cs : Forall okname cs <-> Forall normal cs /\ Forall nosep cs.
Proof.
  split.
  - intros H. split; eapply Forall_impl; try exact H; intros a [? ?]; auto.
  - intros [H1 H2]. induction cs as [|c cs IH]; constructor.
    + inversion H1; inversion H2; split; auto.
    + inversion H1; inversion H2; auto.
Qed.

Lemma filter_nonempty_normal cs : Forall normal cs -> filter nonempty cs = cs.
Proof.
  induction cs as [|c cs IH]; intros H; [reflexivity|]. inversion H as [|? ? (Hc & _) Hr]; subst.
  simpl. destruct c; [congruence|]. simpl. rewrite IH; auto.
Qed.

Lemma joinc_last_byte cs : okc cs -> exists pre x, joinc cs = pre ++ [x] /\ x <> sep.
Proof.
  intros (Hne & Hn & Hs).
  destruct cs as [|c0 cs0] using rev_ind; [congruence|]. clear IHcs0.
  apply Forall_app in Hn, Hs. destruct Hn as [_ Hn], Hs as [_ Hs].
  inversion Hn as [|? ? (Hc & _) _]; subst. inversion Hs as [|? ? Hcs _]; subst.
  destruct c0 as [|x bp _] using rev_ind; [congruence|].
  assert (Hx : x <> sep) by (intro; subst; apply Hcs; apply in_or_app; right; left; auto).
  destruct cs0 as [|c d].
  - exists bp, x. split; auto.
  - rewrite joinc_snoc by discriminate. exists (joinc (c :: d) ++ sep :: bp), x.
    rewrite <- app_assoc. split; auto.
Qed.

Lemma relpath_joinc cs : okc cs -> relpath (joinc cs) cs.
Proof.
  intros H. pose proof H as (Hne & Hn & Hs).
  destruct (okc_not_special cs H) as (H1 & _).
  destruct (okc_clean cs H) as (_ & H2).
  destruct (joinc_last_byte cs H) as (pre & x & E & Hx).
  repeat split; auto.
  - unfold ends_with_sep. rewrite E, rev_app_distr. simpl. apply N.eqb_neq. exact Hx.
  - unfold pcs. rewrite comps_joinc by auto. apply filter_nonempty_normal. exact Hn.
  - apply okname_forall. auto.
Qed.

Section Sys.
Variable D : N.
Notation reach := (reach D).
Notation wf := (wf D).
Notation step := (step D).

(* ---------------- resolution ---------------- *)
Lemma resolve_cases c f p cs follow :
  c_cwd c = D -> relpath p cs ->
  (safe f D cs \/ (follow = false /\ safe f D (removelast cs))) ->
  (exists e, resolve c f p follow = inr e) \/
  (exists pre n dd, cs = pre ++ [n] /\ rwalk f D pre = Some dd /\ is_dir f dd = true /\
     resolve c f p follow = inl {| l_dir := dd; l_name := n; l_ino := blookup n (ents f dd) |}).
Proof.
  intros Hc (Hp & Habs & Hsep & Hpcs & Hne & Hok) Hs.
  apply okname_forall in Hok. destruct Hok as [Hn _].
  unfold resolve. destruct p as [|a p']; [congruence|].
  destruct (has_nul (a :: p')); [left; eauto|].
  rewrite Hsep, Habs, Hpcs, Hc, orb_false_r. generalize rfuel. intros fuel.
  destruct (walk_rres fuel f (c_root c) D cs follow 0 Hn Hs) as [E|E]; rewrite E; [|left; eauto].
  destruct (rres f D cs) as [r|e] eqn:Er; [|left; eauto].
  right. destruct (rres_inv f cs D r Hne Er) as (pre & n & E1 & E2 & E3 & E4 & E5).
  exists pre, n, (l_dir r). repeat split; auto.
  destruct r as [d nm io]. simpl in *. subst. reflexivity.
Qed.

(* the entry a path names *)
Definition names (f : fs) (cs : list bytes) (T : N -> bytes -> Prop) : Prop :=
  forall pre n dd, cs = pre ++ [n] -> rwalk f D pre = Some dd -> T dd n.

Lemma okname_last pre n : Forall okname (pre ++ [n]) -> okname n.
Proof. intros H. apply Forall_app in H. destruct H as [_ H]. inversion H; auto. Qed.

Ltac resolve_split c f p cs follow Hc Hrel Hs :=
  let e := fresh "e" in let He := fresh "He" in
  let pre := fresh "pre" in let n := fresh "n" in let dd := fresh "dd" in
  let Ecs := fresh "Ecs" in let Hw := fresh "Hw" in let Hd := fresh "Hd" in let Hr := fresh "Hr" in
  destruct (resolve_cases c f p cs follow Hc Hrel Hs) as [[e He]|(pre & n & dd & Ecs & Hw & Hd & Hr)].

(* ---------------- calls that change nothing ---------------- *)
Lemma sys_lstat_fs c f p : fst (sys_lstat c f p) = f.
Proof.
  unfold sys_lstat. destruct (resolve_ino c f p false); [|reflexivity].
  destruct (get f n); reflexivity.
Qed.

Lemma sys_lstat_stat c f p cs i nd :
  c_cwd c = D -> relpath p cs -> safe f D (removelast cs) ->
  snd (sys_lstat c f p) = RStat i nd ->
  exists pre n dd, cs = pre ++ [n] /\ rwalk f D pre = Some dd /\ is_dir f dd = true
                   /\ blookup n (ents f dd) = Some i /\ get f i = Some nd.
Proof.
  intros Hc Hrel Hs H.
  destruct (resolve_cases c f p cs false Hc Hrel (or_intror (conj eq_refl Hs)))
    as [[e He]|(pre & n & dd & Ecs & Hw & Hd & Hr)];
    unfold sys_lstat, resolve_ino in H; [rewrite He in H; discriminate|].
  rewrite Hr in H. simpl in H.
  destruct (blookup n (ents f dd)) as [j|] eqn:Eb; [|discriminate].
  destruct (get f j) as [nj|] eqn:Eg; [|discriminate].
  simpl in H. inversion H; subst. exists pre, n, dd. auto.
Qed.

(* ---------------- creating calls ---------------- *)
Lemma step_create_at (T : N -> bytes -> Prop) b f pre n dd isdir k mode :
  wf f -> b <= f_next f -> rwalk f D pre = Some dd -> is_dir f dd = true -> okname n ->
  blookup n (ents f dd) = None -> T dd n ->
  leaf {| i_kind := k; i_meta := new_meta f dd isdir mode |} ->
  let r := {| l_dir := dd; l_name := n; l_ino := None |} in
  let f' := fst (create_at f r isdir k mode) in
  step T b f f'
  /\ blookup n (ents f' dd) = Some (f_next f)
  /\ get f' (f_next f) = Some {| i_kind := k; i_meta := new_meta f dd isdir mode |}
  /\ snd (create_at f r isdir k mode) = f_next f.
Proof.
  intros W Hb Hw Hd Hn Hb0 HT Hl r f'.
  assert (Rdd : reach f dd) by (apply (rwalk_reach D f pre D dd); [constructor|auto]).
  set (n0 := {| i_kind := k; i_meta := new_meta f dd isdir mode |}) in *.
  assert (E : create_at f r isdir k mode = (add_ent (fst (alloc f n0)) dd n (f_next f), f_next f)) by reflexivity.
  unfold f'. rewrite E. cbn [fst snd].
  pose proof (step_alloc D T b f n0 W Hb Hl) as A.
  destruct (alloc_facts D f n0 W Hl) as (H1 & H2 & H3 & H4).
  set (f1 := fst (alloc f n0)) in *.
  assert (W1 : wf f1) by (apply (st_wf _ _ _ _ _ A)).
  assert (Hlt : dd < f_next f) by (apply (reach_lt D f dd W Rdd)).
  apply is_dir_dir_of in Hd. destruct Hd as (p & es & Hdir).
  assert (Hdir1 : dir_of f1 dd = Some (p, es)) by (rewrite H1 by lia; auto).
  assert (Hes : ents f dd = es) by (apply (dir_of_ents _ _ _ _ Hdir)).
  rewrite Hes in Hb0.
  unfold add_ent. rewrite Hdir1.
  assert (Hnew : newcomer D b f1 (f_next f)).
  { split; [lia|]. split; [|exact H2]. intro R. apply H4 in R.
    pose proof (reach_lt D f _ W R). lia. }
  assert (S2 : step T b f1 (set_ents f1 dd (es ++ [(n, f_next f)]))).
  { apply (step_set_ents D T b f1 dd p es); auto.
    - pose proof (st_next _ _ _ _ _ A). lia.
    - apply H4. exact Rdd.
    - intros m Hm. rewrite blookup_app. destruct (blookup m es); auto.
      simpl. rewrite bytes_eqb_false; auto. intro; subst. auto.
    - rewrite map_app. simpl. pose proof (wf_names D f W dd Rdd) as [Hnd _]. rewrite Hes in Hnd.
      apply NoDup_snoc; auto. apply blookup_None_notin. exact Hb0.
    - rewrite map_app. apply Forall_app. split.
      + pose proof (wf_names D f W dd Rdd) as [_ Hok]. rewrite Hes in Hok. exact Hok.
      + constructor; auto.
    - intros m x Hin. apply in_app_or in Hin. destruct Hin as [Hin|[Hin|[]]].
      + rewrite <- Hes in Hin. split; [|split].
        * pose proof (wf_target D f W dd m x Rdd Hin). simpl. lia.
        * intro; subst. apply (wf_notD D f W dd m Rdd Hin).
        * left. exists m. rewrite <- Hes. exact Hin.
      + inversion Hin; subst. split; [simpl; lia|]. split; [|right; right; exact Hnew].
        pose proof (reach_lt D f D W (reach_refl D f)). lia.
    - intros m1 m2 x I1 I2 Hdx.
      apply in_app_or in I1. apply in_app_or in I2.
      assert (Hold : forall m, In (m, x) es -> x < f_next f).
      { intros m Hm. rewrite <- Hes in Hm. apply (wf_target D f W dd m x Rdd Hm). }
      destruct I1 as [I1|[I1|[]]], I2 as [I2|[I2|[]]].
      + assert (Hdx' : is_dir f x = true).
        { unfold is_dir in *. rewrite H1 in Hdx; auto. pose proof (Hold m1 I1). lia. }
        rewrite <- Hes in I1, I2. apply (wf_single D f W dd dd m1 m2 x); auto.
      + inversion I2; subst. pose proof (Hold m1 I1). lia.
      + inversion I1; subst. pose proof (Hold m2 I2). lia.
      + inversion I1; inversion I2; subst. reflexivity. }
  split; [apply (step_trans D T b f f1); auto|].
  assert (Hd2 : dir_of (set_ents f1 dd (es ++ [(n, f_next f)])) dd = Some (p, es ++ [(n, f_next f)])).
  { destruct (dir_of_get f1 dd p es Hdir1) as [m Hg]. rewrite (set_ents_get f1 dd p es m _ Hg).
    unfold dir_of. rewrite get_put_same. reflexivity. }
  split; [|split; [|reflexivity]].
  - rewrite (dir_of_ents _ _ _ _ Hd2). rewrite blookup_app, Hb0. simpl. rewrite bytes_eqb_refl. reflexivity.
  - destruct (dir_of_get f1 dd p es Hdir1) as [m Hg]. rewrite (set_ents_get f1 dd p es m _ Hg).
    rewrite get_put_other by lia. unfold f1. rewrite <- (alloc_snd f n0) at 1. apply get_alloc_new.
Qed.


Lemma dentry_reach f pre dd n i : rwalk f D pre = Some dd -> blookup n (ents f dd) = Some i -> reach f dd /\ reach f i.
Proof.
  intros Hw Hb. assert (R : reach f dd) by (apply (rwalk_reach D f pre D dd); [constructor|auto]).
  split; auto. apply (reach_step D f dd n i); auto. apply blookup_In; auto.
Qed.

Lemma dentry_notD f dd n i : wf f -> reach f dd -> blookup n (ents f dd) = Some i -> i <> D.
Proof. intros W R Hb E. subst. apply (wf_notD D f W dd n R). apply blookup_In; auto. Qed.

(* ---------------- removing an entry ---------------- *)
Lemma step_del_ent (T : N -> bytes -> Prop) b f pre n dd :
  wf f -> b <= f_next f -> rwalk f D pre = Some dd -> is_dir f dd = true -> T dd n ->
  step T b f (del_ent f dd n) /\ blookup n (ents (del_ent f dd n) dd) = None.
Proof.
  intros W Hb Hw Hd HT.
  assert (Rdd : reach f dd) by (apply (rwalk_reach D f pre D dd); [constructor|auto]).
  apply is_dir_dir_of in Hd. destruct Hd as (p & es & Hdir).
  assert (Hes : ents f dd = es) by (apply (dir_of_ents _ _ _ _ Hdir)).
  pose proof (wf_names D f W dd Rdd) as [Hnd Hok]. rewrite Hes in Hnd, Hok.
  unfold del_ent. rewrite Hdir. split.
  - apply (step_set_ents D T b f dd p es); auto.
    + intros m Hm. apply blookup_bremove_other. intro; subst; auto.
    + apply bremove_nodup; auto.
    + apply Forall_forall. intros x Hx. apply bremove_fst_In in Hx.
      rewrite Forall_forall in Hok. auto.
    + intros m x Hin. apply bremove_In in Hin. rewrite <- Hes in Hin. split; [|split].
      * apply (wf_target D f W dd m x Rdd Hin).
      * intro; subst. apply (wf_notD D f W dd m Rdd Hin).
      * left. exists m. rewrite <- Hes. exact Hin.
    + intros m1 m2 x I1 I2 Hdx. apply bremove_In in I1, I2. rewrite <- Hes in I1, I2.
      apply (wf_single D f W dd dd m1 m2 x); auto.
  - destruct (dir_of_get f dd p es Hdir) as [m Hg]. rewrite (set_ents_get f dd p es m _ Hg).
    unfold ents, dir_of. rewrite get_put_same. apply blookup_bremove_same. exact Hnd.
Qed.

(* ---------------- a second name for an inode inside that is no directory ---------------- *)
Lemma step_add_link (T : N -> bytes -> Prop) b f pre n dd i :
  wf f -> b <= f_next f -> rwalk f D pre = Some dd -> is_dir f dd = true -> okname n ->
  blookup n (ents f dd) = None -> T dd n -> reach f i -> is_dir f i = false -> i <> D ->
  step T b f (add_ent f dd n i) /\ blookup n (ents (add_ent f dd n i) dd) = Some i.
Proof.
  intros W Hb Hw Hd Hn Hb0 HT Ri Hdi HiD.
  assert (Rdd : reach f dd) by (apply (rwalk_reach D f pre D dd); [constructor|auto]).
  apply is_dir_dir_of in Hd. destruct Hd as (p & es & Hdir).
  assert (Hes : ents f dd = es) by (apply (dir_of_ents _ _ _ _ Hdir)).
  pose proof (wf_names D f W dd Rdd) as [Hnd Hok]. rewrite Hes in Hnd, Hok, Hb0.
  unfold add_ent. rewrite Hdir. split.
  - apply (step_set_ents D T b f dd p es); auto.
    + intros m Hm. rewrite blookup_app. destruct (blookup m es); auto.
      simpl. rewrite bytes_eqb_false; auto. intro; subst; auto.
    + rewrite map_app. simpl. apply NoDup_snoc; auto. apply blookup_None_notin. exact Hb0.
    + rewrite map_app. apply Forall_app. split; auto. constructor; auto.
    + intros m x Hin. apply in_app_or in Hin. destruct Hin as [Hin|[Hin|[]]].
      * rewrite <- Hes in Hin. split; [|split].
        -- apply (wf_target D f W dd m x Rdd Hin).
        -- intro; subst. apply (wf_notD D f W dd m Rdd Hin).
        -- left. exists m. rewrite <- Hes. exact Hin.
      * inversion Hin; subst. split; [apply (reach_lt D f x W Ri)|]. split; auto.
    + intros m1 m2 x I1 I2 Hdx. apply in_app_or in I1. apply in_app_or in I2.
      destruct I1 as [I1|[I1|[]]], I2 as [I2|[I2|[]]].
      * rewrite <- Hes in I1, I2. apply (wf_single D f W dd dd m1 m2 x); auto.
      * inversion I2; subst. congruence.
      * inversion I1; subst. congruence.
      * inversion I1; inversion I2; subst. reflexivity.
  - destruct (dir_of_get f dd p es Hdir) as [m Hg]. rewrite (set_ents_get f dd p es m _ Hg).
    unfold ents, dir_of. rewrite get_put_same. rewrite blookup_app, Hb0. simpl. rewrite bytes_eqb_refl. reflexivity.
Qed.

(* ---------------- metadata / content of the inode an entry names ---------------- *)
Lemma step_set_meta (T : N -> bytes -> Prop) b f pre dd n i nd m' :
  wf f -> b <= f_next f -> rwalk f D pre = Some dd -> blookup n (ents f dd) = Some i -> get f i = Some nd ->
  (b <= i \/ is_dir f i = true) ->
  step T b f (put f i (set_meta nd m')).
Proof.
  intros W Hb Hw Hbl Hg Hbi. destruct (dentry_reach f pre dd n i Hw Hbl) as [Rdd Ri].
  apply (step_put_keep D T b f i nd); auto.
  - apply (reach_lt D f i W Ri).
  - apply (dentry_notD f dd n i W Rdd Hbl).
  - destruct Hbi; auto.
Qed.


(* ---------------- rename inside one directory ---------------- *)
Lemma set_ents_twice f dd p es es1 es2 :
  dir_of f dd = Some (p, es) -> set_ents (set_ents f dd es1) dd es2 = set_ents f dd es2.
Proof.
  intros Hdir. destruct (dir_of_get f dd p es Hdir) as [m Hg].
  rewrite (set_ents_get f dd p es m es1 Hg).
  rewrite (set_ents_get _ dd p es1 (with_mtime m now_mark) es2) by (apply get_put_same).
  rewrite put_put. rewrite (set_ents_get f dd p es m es2 Hg). reflexivity.
Qed.

Definition T2 (dd : N) (n1 n2 : bytes) : N -> bytes -> Prop := fun d m => d = dd /\ (m = n1 \/ m = n2).

Lemma firstn_all_ge {A} (l : list A) k : firstn k l = l -> (length l <= k)%nat.
Proof.
  intros H. destruct (le_lt_dec (length l) k); auto.
  assert (length (firstn k l) = k) by (apply firstn_length_le; lia). rewrite H in H0. lia.
Qed.

(* a step that only touches entries of the directory at [pre] leaves the way to it alone *)
Lemma rwalk_parent_kept b f f' pre dd n1 n2 :
  wf f -> rwalk f D pre = Some dd -> is_dir f dd = true -> step (T2 dd n1 n2) b f f' ->
  rwalk f' D pre = Some dd.
Proof.
  intros W Hw Hd S. rewrite <- Hw. apply (rwalk_step D (T2 dd n1 n2) b f f' W S pre D (reach_refl D f)).
  apply (avoids_by_path D (T2 dd n1 n2) f W pre).
  - intros d m [-> _]. auto.
  - intros k m _ Hk. apply firstn_all_ge in Hk. intro E.
    assert (nth_error pre k = None) by (apply nth_error_None; exact Hk). congruence.
Qed.

Lemma step_move b f pre dd n1 n2 i :
  wf f -> b <= f_next f -> rwalk f D pre = Some dd -> is_dir f dd = true -> okname n2 -> n1 <> n2 ->
  blookup n1 (ents f dd) = Some i ->
  let f1 := del_ent f dd n1 in
  let f2 := match dir_of f1 dd with Some (_, es) => set_ents f1 dd (bset n2 i es) | None => f1 end in
  let f3 := if is_dir f i then set_parent f2 i dd else f2 in
  step (T2 dd n1 n2) b f f3 /\ blookup n2 (ents f3 dd) = Some i /\ blookup n1 (ents f3 dd) = None.
Proof.
  intros W Hb Hw Hd Hn2 Hne Hb1 f1 f2 f3.
  destruct (dentry_reach f pre dd n1 i Hw Hb1) as [Rdd Ri].
  pose proof (dentry_notD f dd n1 i W Rdd Hb1) as HiD.
  pose proof Hd as Hd0.
  apply is_dir_dir_of in Hd. destruct Hd as (p & es & Hdir).
  assert (Hes : ents f dd = es) by (apply (dir_of_ents _ _ _ _ Hdir)).
  pose proof (wf_names D f W dd Rdd) as [Hnd Hok]. rewrite Hes in Hnd, Hok, Hb1.
  assert (Hd1 : dir_of f1 dd = Some (p, bremove n1 es)).
  { unfold f1, del_ent. rewrite Hdir. destruct (dir_of_get f dd p es Hdir) as [m Hg].
    rewrite (set_ents_get f dd p es m _ Hg). unfold dir_of. rewrite get_put_same. reflexivity. }
  assert (E2 : f2 = set_ents f dd (bset n2 i (bremove n1 es))).
  { unfold f2. rewrite Hd1. unfold f1, del_ent. rewrite Hdir. apply (set_ents_twice f dd p es). exact Hdir. }
  assert (S2 : step (T2 dd n1 n2) b f f2).
  { rewrite E2. apply (step_set_ents D (T2 dd n1 n2) b f dd p es); auto.
    - intros m Hm. rewrite blookup_bset_other by (intro; subst; apply Hm; split; auto).
      apply blookup_bremove_other. intro; subst; apply Hm; split; auto.
    - apply bset_nodup. apply bremove_nodup. exact Hnd.
    - apply Forall_forall. intros x Hx. apply bset_fst in Hx. destruct Hx as [->|Hx]; auto.
      apply bremove_fst_In in Hx. rewrite Forall_forall in Hok. auto.
    - intros m x Hin. apply bset_In in Hin. destruct Hin as [Hin|Hin].
      + injection Hin as -> ->. split; [apply (reach_lt D f i W Ri)|]. split; auto.
        left. exists n1. apply blookup_In. exact Hb1.
      + apply bremove_In in Hin. rewrite <- Hes in Hin. split; [|split].
        * apply (wf_target D f W dd m x Rdd Hin).
        * intro; subst. apply (wf_notD D f W dd m Rdd Hin).
        * left. exists m. rewrite <- Hes. exact Hin.
    - intros m1 m2 x I1 I2 Hdx. apply bset_In in I1. apply bset_In in I2.
      assert (Hcross : forall m, In (m, i) (bremove n1 es) -> is_dir f i = true -> False).
      { intros m Hm Hdi. pose proof (bremove_In _ _ _ Hm) as Hm'.
        assert (E : m = n1).
        { rewrite <- Hes in Hm'. pose proof (blookup_In _ _ _ Hb1) as H1. rewrite <- Hes in H1.
          destruct (wf_single D f W dd dd m n1 i Rdd Rdd Hm' H1 Hdi). auto. }
        subst m. apply (bremove_notin n1 es Hnd). change n1 with (fst (n1, i)). apply in_map. exact Hm. }
      destruct I1 as [I1|I1], I2 as [I2|I2].
      + inversion I1; inversion I2; subst. reflexivity.
      + inversion I1; subst. exfalso. apply (Hcross m2); auto.
      + inversion I2; subst. exfalso. apply (Hcross m1); auto.
      + apply bremove_In in I1, I2. rewrite <- Hes in I1, I2.
        apply (wf_single D f W dd dd m1 m2 x); auto. }
  assert (Hb2 : blookup n2 (ents f2 dd) = Some i).
  { rewrite E2. destruct (dir_of_get f dd p es Hdir) as [m Hg]. rewrite (set_ents_get f dd p es m _ Hg).
    unfold ents, dir_of. rewrite get_put_same. apply blookup_bset_same. }
  assert (Hb3 : blookup n1 (ents f2 dd) = None).
  { rewrite E2. destruct (dir_of_get f dd p es Hdir) as [m Hg]. rewrite (set_ents_get f dd p es m _ Hg).
    unfold ents, dir_of. rewrite get_put_same. rewrite blookup_bset_other by auto.
    apply blookup_bremove_same. exact Hnd. }
  unfold f3. destruct (is_dir f i) eqn:Hdi; [|split; auto].
  assert (W2 : wf f2) by (apply (st_wf _ _ _ _ _ S2)).
  assert (Hw2 : rwalk f2 D pre = Some dd) by (apply (rwalk_parent_kept b f f2 pre dd n1 n2); auto).
  destruct (dentry_reach f2 pre dd n2 i Hw2 Hb2) as [Rdd2 Ri2].
  assert (S3 : step (fun _ _ => False) b f2 (set_parent f2 i dd)).
  { apply (step_set_parent D); auto. pose proof (st_next _ _ _ _ _ S2). lia. }
  split.
  - apply (step_trans D _ b f f2); auto. apply (step_weaken D (fun _ _ => False)); [tauto|exact S3].
  - rewrite !(st_dent _ _ _ _ _ S3 dd); auto; apply (reach_lt D f2 dd W2 Rdd2).
Qed.


(* ================= the system calls ================= *)
Lemma removelast_snoc {A} (l : list A) x : removelast (l ++ [x]) = l.
Proof. apply removelast_last. Qed.

Lemma rres_complete f : forall pre j n cur, rwalk f cur pre = Some j -> is_dir f j = true ->
  rres f cur (pre ++ [n]) = inl {| l_dir := j; l_name := n; l_ino := blookup n (ents f j) |}.
Proof.
  induction pre as [|c pre IH]; intros j n cur Hw Hd.
  - simpl in Hw. inversion Hw; subst. simpl. unfold is_dir, ents in *.
    destruct (dir_of f j) as [[p es]|]; [|discriminate]. destruct (blookup n es); reflexivity.
  - simpl in Hw. change ((c :: pre) ++ [n]) with (c :: (pre ++ [n])). cbn [rres].
    destruct (dir_of f cur) as [[p es]|]; [|discriminate].
    destruct (blookup c es) as [i|]; [|discriminate].
    assert (En : is_nil (pre ++ [n]) = false) by (destruct pre; reflexivity). rewrite En. apply IH; auto.
Qed.

Lemma sys_remove_all_unfold c f p : p <> [] ->
  sys_remove_all c f p =
  if ends_with_dot p then (f, RErr EINVAL)
  else match resolve c f p false with
       | inr ENOENT => (f, ROk)
       | inr e => (f, RErr e)
       | inl r => match l_ino r with
                  | None => (f, ROk)
                  | Some _ => if is_nil (l_name r) then (f, RErr EBUSY) else (del_ent f (l_dir r) (l_name r), ROk)
                  end
       end.
Proof. intros H. destruct p; [congruence|reflexivity]. Qed.

Section Call.
Variables (T : N -> bytes -> Prop) (b : N) (c : ctx) (f : fs) (p : bytes) (pre : list bytes) (n : bytes).
Hypothesis W : wf f.
Hypothesis Hb : b <= f_next f.
Hypothesis Hc : c_cwd c = D.
Hypothesis Hrel : relpath p (pre ++ [n]).
Hypothesis Hsafe : safe f D pre.
Hypothesis HT : forall dd, rwalk f D pre = Some dd -> is_dir f dd = true -> T dd n.

Ltac clear_others := try clear HT; try clear Hb; try clear W.
Ltac clear_safe := try clear Hsafe.

Lemma call_okname : okname n.
Proof using Hrel.
  clear_others. destruct Hrel as (_ & _ & _ & _ & _ & H). apply (okname_last pre n H). Qed.

(* how the final component resolves without following *)
Lemma resolve_nofollow :
  (exists e, resolve c f p false = inr e) \/
  (exists dd, rwalk f D pre = Some dd /\ is_dir f dd = true /\
     resolve c f p false = inl {| l_dir := dd; l_name := n; l_ino := blookup n (ents f dd) |}).
Proof using Hc Hrel Hsafe.
  clear_others.
  destruct (resolve_cases c f p (pre ++ [n]) false Hc Hrel) as [H|(pre' & n' & dd & E & Hw & Hd & Hr)].
  - right. split; auto. rewrite removelast_snoc. exact Hsafe.
  - left. exact H.
  - apply app_inj_tail in E. destruct E as [-> ->]. right. exists dd. auto.
Qed.

Lemma resolve_follow : safe f D (pre ++ [n]) ->
  (exists e, resolve c f p true = inr e) \/
  (exists dd, rwalk f D pre = Some dd /\ is_dir f dd = true /\
     resolve c f p true = inl {| l_dir := dd; l_name := n; l_ino := blookup n (ents f dd) |}).
Proof using Hc Hrel.
  clear_others. clear_safe.
  intros Hfull.
  destruct (resolve_cases c f p (pre ++ [n]) true Hc Hrel (or_introl Hfull)) as [H|(pre' & n' & dd & E & Hw & Hd & Hr)].
  - left. exact H.
  - apply app_inj_tail in E. destruct E as [-> ->]. right. exists dd. auto.
Qed.

Lemma nil_name : is_nil n = false.
Proof using Hrel.
  clear_others. destruct call_okname as [(H & _) _]. destruct n; [congruence|reflexivity]. Qed.

(* ---- lstat ---- *)
Lemma lstat_stat i nd : snd (sys_lstat c f p) = RStat i nd ->
  exists dd, rwalk f D pre = Some dd /\ is_dir f dd = true /\ blookup n (ents f dd) = Some i /\ get f i = Some nd.
Proof using Hc Hrel Hsafe.
  clear_others.
  intros H. destruct (sys_lstat_stat c f p (pre ++ [n]) i nd Hc Hrel) as (pre' & n' & dd & E & Hw & Hd & Hbl & Hg); auto.
  - rewrite removelast_snoc. exact Hsafe.
  - apply app_inj_tail in E. destruct E as [-> ->]. exists dd. auto.
Qed.

(* lstat said ENOENT: whatever the name leads to is no symlink *)
Lemma lstat_enoent_safe : snd (sys_lstat c f p) = RErr ENOENT -> safe f D (pre ++ [n]).
Proof using Hc Hrel Hsafe.
  clear_others.
  intros H. apply safe_app. split; auto. intros j Hj. apply safe_unfold.
  destruct (blookup n (ents f j)) as [i|] eqn:Eb; auto. split; [|exact I].
  destruct (is_link f i) eqn:El; auto. exfalso.
  assert (Hdj : is_dir f j = true).
  { unfold is_dir. unfold ents in Eb. destruct (dir_of f j) as [[q es]|]; auto. discriminate. }
  assert (Hres : resolve c f p false = inl {| l_dir := j; l_name := n; l_ino := Some i |}).
  { destruct Hrel as (Hp & Habs & Hsep & Hpcs & Hne & Hok).
    apply okname_forall in Hok. destruct Hok as [Hn _].
    unfold resolve in *. destruct p as [|a p']; [congruence|].
    unfold sys_lstat, resolve_ino, resolve in H.
    destruct (has_nul (a :: p')); [discriminate|].
    rewrite Hsep, Habs, Hpcs, Hc, orb_false_r in *. revert H. generalize rfuel. intros fuel H.
    destruct (walk_rres fuel f (c_root c) D (pre ++ [n]) false 0 Hn) as [E|E].
    - right. split; auto. rewrite removelast_snoc. exact Hsafe.
    - rewrite E. rewrite (rres_complete f pre j n D Hj Hdj), Eb. reflexivity.
    - rewrite E in H. discriminate. }
  unfold sys_lstat, resolve_ino in H. rewrite Hres in H. simpl in H.
  unfold is_link in El. destruct (get f i) as [[k m]|]; [|discriminate]. discriminate.
Qed.

(* lstat said ENOENT although the entry is there: the inode record is missing *)
Lemma lstat_enoent_dangling : snd (sys_lstat c f p) = RErr ENOENT ->
  forall dd i, rwalk f D pre = Some dd -> blookup n (ents f dd) = Some i -> get f i = None.
Proof using Hc Hrel Hsafe.
  clear_others. intros H j i Hj Eb.
  assert (Hdj : is_dir f j = true).
  { unfold is_dir. unfold ents in Eb. destruct (dir_of f j) as [[q es]|]; auto. discriminate. }
  assert (Hres : resolve c f p false = inl {| l_dir := j; l_name := n; l_ino := Some i |}).
  { destruct Hrel as (Hp & Habs & Hsep & Hpcs & Hne & Hok).
    apply okname_forall in Hok. destruct Hok as [Hn _].
    unfold resolve in *. destruct p as [|a p']; [congruence|].
    unfold sys_lstat, resolve_ino, resolve in H.
    destruct (has_nul (a :: p')); [discriminate|].
    rewrite Hsep, Habs, Hpcs, Hc, orb_false_r in *. revert H. generalize rfuel. intros fuel H.
    destruct (walk_rres fuel f (c_root c) D (pre ++ [n]) false 0 Hn) as [E|E].
    - right. split; auto. rewrite removelast_snoc. exact Hsafe.
    - rewrite E. rewrite (rres_complete f pre j n D Hj Hdj), Eb. reflexivity.
    - rewrite E in H. discriminate. }
  unfold sys_lstat, resolve_ino in H. rewrite Hres in H. simpl in H.
  destruct (get f i) as [nd|]; [discriminate|reflexivity].
Qed.

(* lstat of a path that resolves *)
Lemma lstat_of_resolve dd i : resolve c f p false = inl {| l_dir := dd; l_name := n; l_ino := Some i |} ->
  stat_ino_of (snd (sys_lstat c f p)) = (match get f i with Some _ => Some i | None => None end).
Proof using.
  intros H. unfold sys_lstat, resolve_ino. rewrite H. simpl. destruct (get f i); reflexivity.
Qed.

(* ---- creating calls ---- *)
Definition created (f' : fs) (k : ikind) : Prop :=
  exists dd m, rwalk f D pre = Some dd /\ is_dir f dd = true /\ blookup n (ents f dd) = None
            /\ blookup n (ents f' dd) = Some (f_next f) /\ get f' (f_next f) = Some {| i_kind := k; i_meta := m |}.

Lemma create_common isdir k mode : leaf {| i_kind := k; i_meta := new_meta f D isdir mode |} ->
  forall dd, rwalk f D pre = Some dd -> is_dir f dd = true -> blookup n (ents f dd) = None ->
  let f' := fst (create_at f {| l_dir := dd; l_name := n; l_ino := None |} isdir k mode) in
  step T b f f' /\ created f' k /\ snd (create_at f {| l_dir := dd; l_name := n; l_ino := None |} isdir k mode) = f_next f.
Proof.
  intros Hl dd Hw Hd Hbl f'.
  destruct (step_create_at T b f pre n dd isdir k mode W Hb Hw Hd call_okname Hbl (HT dd Hw Hd)) as (S & B1 & B2 & B3).
  - unfold leaf in *. simpl in *. exact Hl.
  - split; auto. split; auto. exists dd, (new_meta f dd isdir mode). auto.
Qed.

Lemma sys_mkdir_step mode :
  let f' := fst (sys_mkdir c f p mode) in
  step T b f f' /\ (rerr (snd (sys_mkdir c f p mode)) = false -> exists d0, created f' (KDir d0 [])).
Proof.
  unfold sys_mkdir. destruct resolve_nofollow as [[e He]|(dd & Hw & Hd & Hr)].
  - rewrite He. simpl. split; [apply step_refl; auto|discriminate].
  - rewrite Hr. cbn [l_ino l_dir]. destruct (blookup n (ents f dd)) eqn:Eb.
    + simpl. split; [apply step_refl; auto|discriminate].
    + destruct (create_common true (KDir dd []) (N.land mode mkdir_mask) eq_refl dd Hw Hd Eb) as (S & C & _).
      cbn [fst snd]. split; eauto.
Qed.

Lemma sys_mknod_step typ mode rdev :
  let f' := fst (sys_mknod c f p typ mode rdev) in
  step T b f f' /\ (rerr (snd (sys_mknod c f p typ mode rdev)) = false -> exists t r, created f' (KSpecial t r)).
Proof.
  unfold sys_mknod. destruct resolve_nofollow as [[e He]|(dd & Hw & Hd & Hr)].
  - rewrite He. simpl. split; [apply step_refl; auto|discriminate].
  - rewrite Hr. cbn [l_ino l_dir]. destruct (blookup n (ents f dd)) eqn:Eb.
    + simpl. split; [apply step_refl; auto|discriminate].
    + match goal with |- context [create_at f ?r false (KSpecial ?t ?rd) ?m] =>
        destruct (create_common false (KSpecial t rd) m I dd Hw Hd Eb) as (S & C & _) end.
      cbn [fst snd]. split; eauto.
Qed.

Lemma sys_symlink_step target :
  let f' := fst (sys_symlink c f target p) in
  step T b f f' /\ (rerr (snd (sys_symlink c f target p)) = false -> created f' (KLink target)).
Proof.
  unfold sys_symlink. destruct target as [|t0 tr]; [simpl; split; [apply step_refl; auto|discriminate]|].
  destruct (has_nul (t0 :: tr)); [simpl; split; [apply step_refl; auto|discriminate]|].
  destruct resolve_nofollow as [[e He]|(dd & Hw & Hd & Hr)].
  - rewrite He. simpl. split; [apply step_refl; auto|discriminate].
  - rewrite Hr. cbn [l_ino l_dir]. destruct (blookup n (ents f dd)) eqn:Eb.
    + simpl. split; [apply step_refl; auto|discriminate].
    + destruct (create_common false (KLink (t0 :: tr)) 511 I dd Hw Hd Eb) as (S & C & _).
      cbn [fst snd]. split; eauto.
Qed.

(* open(O_WRONLY|O_CREAT) follows the final component: the whole path must be safe *)
Lemma sys_open_creat_step mode : safe f D (pre ++ [n]) ->
  let f' := fst (sys_open_wronly c f p true mode) in
  step T b f f' /\
  (rerr (snd (sys_open_wronly c f p true mode)) = false ->
   exists i, snd (sys_open_wronly c f p true mode) = RFd i /\
     ((f' = f /\ exists dd nd, rwalk f D pre = Some dd /\ blookup n (ents f dd) = Some i /\ get f i = Some nd /\ ktag (i_kind nd) = 1)
      \/ (i = f_next f /\ created f' (KFile [])))).
Proof.
  intros Hfull. unfold sys_open_wronly. destruct (resolve_follow Hfull) as [[e He]|(dd & Hw & Hd & Hr)].
  - rewrite He. simpl. split; [apply step_refl; auto|discriminate].
  - rewrite Hr. cbn [l_ino l_dir]. destruct (blookup n (ents f dd)) as [i|] eqn:Eb.
    + destruct (get f i) as [[k m]|] eqn:Eg; [destruct k|]; simpl; (split; [apply step_refl; auto|]); try discriminate.
      intros _. exists i. split; auto. left. split; auto. exists dd, {| i_kind := KFile data; i_meta := m |}. auto.
    + destruct (create_common false (KFile []) (N.land mode perm_mask) I dd Hw Hd Eb) as (S & C & E).
      destruct (create_at f {| l_dir := dd; l_name := n; l_ino := None |} false (KFile []) (N.land mode perm_mask)) as [f1 i1] eqn:Ec.
      cbn [fst snd] in *. split; auto. intros _. exists i1. split; auto.
Qed.

(* ---- metadata calls ---- *)
(* the inode the name leads to was made by the running operation, or is a directory *)
Definition target_ok : Prop :=
  forall dd i, rwalk f D pre = Some dd -> blookup n (ents f dd) = Some i -> b <= i \/ is_dir f i = true.

Lemma resolve_ino_nofollow_cases :
  (exists e, resolve_ino c f p false = inr e) \/
  (exists dd i, rwalk f D pre = Some dd /\ is_dir f dd = true /\ blookup n (ents f dd) = Some i
                /\ resolve_ino c f p false = inl i).
Proof using Hc Hrel Hsafe.
  clear_others.
  unfold resolve_ino. destruct resolve_nofollow as [[e He]|(dd & Hw & Hd & Hr)].
  - rewrite He. left. eauto.
  - rewrite Hr. cbn [l_ino]. destruct (blookup n (ents f dd)) as [i|] eqn:Eb; [right|left]; eauto.
    exists dd, i. auto.
Qed.

Lemma resolve_ino_follow_cases : safe f D (pre ++ [n]) ->
  (exists e, resolve_ino c f p true = inr e) \/
  (exists dd i, rwalk f D pre = Some dd /\ is_dir f dd = true /\ blookup n (ents f dd) = Some i
                /\ resolve_ino c f p true = inl i).
Proof using Hc Hrel.
  clear_others. clear_safe.
  intros Hfull. unfold resolve_ino. destruct (resolve_follow Hfull) as [[e He]|(dd & Hw & Hd & Hr)].
  - rewrite He. left. eauto.
  - rewrite Hr. cbn [l_ino]. destruct (blookup n (ents f dd)) as [i|] eqn:Eb; [right|left]; eauto.
    exists dd, i. auto.
Qed.

Lemma sys_lchown_step u g : target_ok -> step T b f (fst (sys_lchown c f p u g)).
Proof using W Hb Hc Hrel Hsafe.
  try clear HT.
  intros Ht. unfold sys_lchown.
  destruct resolve_ino_nofollow_cases as [[e He]|(dd & i & Hw & Hd & Hbl & Hr)]; rewrite ?He, ?Hr; [apply step_refl; auto|].
  destruct (get f i) as [nd|] eqn:Eg; [|apply step_refl; auto].
  cbn [fst]. apply (step_set_meta T b f pre dd n i nd); auto. apply (Ht dd i); auto.
Qed.

Lemma sys_utimens_step t : target_ok -> step T b f (fst (sys_utimens c f p t)).
Proof using W Hb Hc Hrel Hsafe.
  try clear HT.
  intros Ht. unfold sys_utimens.
  destruct resolve_ino_nofollow_cases as [[e He]|(dd & i & Hw & Hd & Hbl & Hr)]; rewrite ?He, ?Hr; [apply step_refl; auto|].
  destruct (get f i) as [nd|] eqn:Eg; [|apply step_refl; auto].
  cbn [fst]. apply (step_set_meta T b f pre dd n i nd); auto. apply (Ht dd i); auto.
Qed.

Lemma sys_lsetxattr_step key value : target_ok -> step T b f (fst (sys_lsetxattr c f p key value)).
Proof using W Hb Hc Hrel Hsafe.
  try clear HT.
  intros Ht. unfold sys_lsetxattr.
  destruct resolve_ino_nofollow_cases as [[e He]|(dd & i & Hw & Hd & Hbl & Hr)]; rewrite ?He, ?Hr; [apply step_refl; auto|].
  destruct (get f i) as [nd|] eqn:Eg; [|apply step_refl; auto].
  destruct (negb (has_prefix pfx_user key) && negb (has_prefix pfx_trusted key)); [apply step_refl; auto|].
  match goal with |- context [if ?c then _ else _] => destruct c end; [apply step_refl; auto|].
  cbn [fst]. apply (step_set_meta T b f pre dd n i nd); auto. apply (Ht dd i); auto.
Qed.

(* chmod follows the final component *)
Lemma sys_chmod_step mode : safe f D (pre ++ [n]) -> target_ok -> step T b f (fst (sys_chmod c f p mode)).
Proof using W Hb Hc Hrel Hsafe.
  try clear HT.
  intros Hfull Ht. unfold sys_chmod.
  destruct (resolve_ino_follow_cases Hfull) as [[e He]|(dd & i & Hw & Hd & Hbl & Hr)]; rewrite ?He, ?Hr; [apply step_refl; auto|].
  destruct (get f i) as [nd|] eqn:Eg; [|apply step_refl; auto].
  cbn [fst]. apply (step_set_meta T b f pre dd n i nd); auto. apply (Ht dd i); auto.
Qed.

(* ---- removing calls ---- *)
Lemma sys_remove_all_step :
  let f' := fst (sys_remove_all c f p) in
  step T b f f' /\ (f' = f \/ forall dd, rwalk f D pre = Some dd -> blookup n (ents f' dd) = None).
Proof.
  rewrite sys_remove_all_unfold by (destruct Hrel; auto).
  destruct (ends_with_dot p); [split; [apply step_refl; auto|left; reflexivity]|].
  destruct resolve_nofollow as [[e He]|(dd & Hw & Hd & Hr)].
  - rewrite He. destruct e; (split; [apply step_refl; auto|left; reflexivity]).
  - rewrite Hr. cbn [l_ino l_dir l_name]. destruct (blookup n (ents f dd)); [|split; [apply step_refl; auto|left; reflexivity]].
    rewrite nil_name. cbn [fst].
    destruct (step_del_ent T b f pre n dd W Hb Hw Hd (HT dd Hw Hd)) as [S B]. split; auto.
    right. intros dd' Hw'. rewrite Hw in Hw'. inversion Hw'; subst. exact B.
Qed.

Lemma sys_unlink_step :
  let f' := fst (sys_unlink c f p) in
  step T b f f' /\ (rerr (snd (sys_unlink c f p)) = false -> forall dd, rwalk f D pre = Some dd -> blookup n (ents f' dd) = None).
Proof.
  unfold sys_unlink. destruct resolve_nofollow as [[e He]|(dd & Hw & Hd & Hr)].
  - rewrite He. simpl. split; [apply step_refl; auto|discriminate].
  - rewrite Hr. cbn [l_ino l_dir l_name]. destruct (blookup n (ents f dd)) as [i|]; [|simpl; split; [apply step_refl; auto|discriminate]].
    destruct (is_dir f i); [simpl; split; [apply step_refl; auto|discriminate]|].
    cbn [fst snd]. destruct (step_del_ent T b f pre n dd W Hb Hw Hd (HT dd Hw Hd)) as [S B]. split; auto.
    intros _ dd' Hw'. rewrite Hw in Hw'. inversion Hw'; subst. exact B.
Qed.

(* rmdir(2): an empty directory loses its entry *)
Lemma sys_rmdir_step :
  let f' := fst (sys_rmdir c f p) in
  step T b f f' /\ (rerr (snd (sys_rmdir c f p)) = false -> forall dd, rwalk f D pre = Some dd -> blookup n (ents f' dd) = None).
Proof.
  unfold sys_rmdir. destruct resolve_nofollow as [[e He]|(dd & Hw & Hd & Hr)].
  - rewrite He. simpl. split; [apply step_refl; auto|discriminate].
  - rewrite Hr. cbn [l_ino l_dir l_name]. destruct (blookup n (ents f dd)) as [i|]; [|simpl; split; [apply step_refl; auto|discriminate]].
    destruct (dir_of f i) as [[pp es]|]; [|simpl; split; [apply step_refl; auto|discriminate]].
    destruct (is_nil n); [simpl; split; [apply step_refl; auto|discriminate]|].
    destruct (is_nil es); [|simpl; split; [apply step_refl; auto|discriminate]].
    cbn [fst snd]. destruct (step_del_ent T b f pre n dd W Hb Hw Hd (HT dd Hw Hd)) as [S B]. split; auto.
    intros _ dd' Hw'. rewrite Hw in Hw'. inversion Hw'; subst. exact B.
Qed.

(* ---- open without O_CREAT: nothing changes; the descriptor is the file the name leads to ---- *)
Lemma sys_open_nocreat_fs mode : fst (sys_open_wronly c f p false mode) = f.
Proof.
  unfold sys_open_wronly. destruct (resolve c f p true) as [r|e]; [|reflexivity].
  destruct (l_ino r) as [i|]; [|reflexivity].
  destruct (get f i) as [[k m]|]; [destruct k|]; reflexivity.
Qed.

Lemma sys_open_nocreat_fd mode i : safe f D (pre ++ [n]) -> snd (sys_open_wronly c f p false mode) = RFd i ->
  exists dd, rwalk f D pre = Some dd /\ blookup n (ents f dd) = Some i.
Proof using Hc Hrel.
  clear_others. clear_safe.
  intros Hfull. unfold sys_open_wronly. destruct (resolve_follow Hfull) as [[e He]|(dd & Hw & Hd & Hr)].
  - rewrite He. discriminate.
  - rewrite Hr. cbn [l_ino]. destruct (blookup n (ents f dd)) as [j|] eqn:Eb; [|discriminate].
    destruct (get f j) as [[k m]|]; [destruct k|]; simpl; try discriminate.
    intros H. inversion H; subst. exists dd. auto.
Qed.

End Call.

(* pwrite through a descriptor of a file the running operation made *)
Lemma fd_pwrite_step (T : N -> bytes -> Prop) b f i off data :
  wf f -> b <= f_next f -> i < f_next f -> i <> D -> b <= i -> step T b f (fst (fd_pwrite f i off data)).
Proof.
  intros W Hb Hr HD Hbi. unfold fd_pwrite.
  destruct (get f i) as [[k m]|] eqn:Eg; [|apply step_refl; auto].
  destruct k; try (apply step_refl; auto).
  destruct data as [|d0 dr]; [apply step_refl; auto|].
  cbn [fst]. apply (step_put_keep D T b f i {| i_kind := KFile data0; i_meta := m |}); auto.
  intros p es H. discriminate.
Qed.

(* O_TRUNC on a file the running operation made *)
Lemma fd_truncate_step (T : N -> bytes -> Prop) b f i :
  wf f -> b <= f_next f -> i < f_next f -> i <> D -> b <= i -> step T b f (fd_truncate f i).
Proof.
  intros W Hb Hr HD Hbi. unfold fd_truncate.
  destruct (get f i) as [[k m]|] eqn:Eg; [|apply step_refl; auto].
  destruct k; try (apply step_refl; auto).
  apply (step_put_keep D T b f i {| i_kind := KFile data; i_meta := m |}); auto.
  intros p es H. discriminate.
Qed.

(* ---- link: the new name gets the inode the old path leads to (never through a final symlink) ---- *)
Lemma sys_link_step (T : N -> bytes -> Prop) b c f oldp newp pre1 n1 pre n :
  wf f -> b <= f_next f -> c_cwd c = D ->
  relpath oldp (pre1 ++ [n1]) -> relpath newp (pre ++ [n]) -> safe f D pre1 -> safe f D pre ->
  (forall dd, rwalk f D pre = Some dd -> is_dir f dd = true -> T dd n) ->
  let f' := fst (sys_link c f oldp newp) in
  step T b f f' /\
  (rerr (snd (sys_link c f oldp newp)) = false ->
   exists dd dd1 i, rwalk f D pre = Some dd /\ is_dir f dd = true /\ rwalk f D pre1 = Some dd1 /\ blookup n1 (ents f dd1) = Some i
                    /\ blookup n (ents f dd) = None /\ blookup n (ents f' dd) = Some i).
Proof.
  intros W Hb Hc Ho Hn S1 S2 HT. unfold sys_link.
  destruct (resolve_ino_nofollow_cases c f oldp pre1 n1 Hc Ho S1) as [[e He]|(dd1 & i & Hw1 & Hd1 & Hbl1 & Hr1)];
    rewrite ?He, ?Hr1; [simpl; split; [apply step_refl; auto|discriminate]|].
  destruct (resolve_nofollow c f newp pre n Hc Hn S2) as [[e He]|(dd & Hw & Hd & Hr)];
    rewrite ?He, ?Hr; [simpl; split; [apply step_refl; auto|discriminate]|].
  cbn [l_ino l_dir l_name]. destruct (blookup n (ents f dd)) eqn:Eb; [simpl; split; [apply step_refl; auto|discriminate]|].
  destruct (is_dir f i) eqn:Hdi; [simpl; split; [apply step_refl; auto|discriminate]|].
  destruct (dentry_reach f pre1 dd1 n1 i Hw1 Hbl1) as [Rd1 Ri].
  destruct (step_add_link T b f pre n dd i W Hb Hw Hd (call_okname newp pre n Hn) Eb (HT dd Hw Hd) Ri Hdi
              (dentry_notD f dd1 n1 i W Rd1 Hbl1)) as [S B].
  cbn [fst snd]. split; auto. intros _. exists dd, dd1, i. repeat split; auto.
Qed.

(* ---- rename inside one directory ---- *)
Lemma sys_rename_step b c f oldp newp pre n1 n2 :
  wf f -> b <= f_next f -> c_cwd c = D ->
  relpath oldp (pre ++ [n1]) -> relpath newp (pre ++ [n2]) -> safe f D pre -> n1 <> n2 ->
  let f' := fst (sys_rename c f oldp newp) in
  forall dd, rwalk f D pre = Some dd ->
  step (T2 dd n1 n2) b f f' /\
  (rerr (snd (sys_rename c f oldp newp)) = false ->
   exists i, blookup n1 (ents f dd) = Some i /\ blookup n2 (ents f' dd) = Some i
             /\ (blookup n2 (ents f dd) <> Some i -> blookup n1 (ents f' dd) = None)
             /\ resolve c f oldp false = inl {| l_dir := dd; l_name := n1; l_ino := Some i |}).
Proof.
  intros W Hb Hc Ho Hn S Hne f' dd Hw. unfold f', sys_rename.
  destruct (resolve_nofollow c f oldp pre n1 Hc Ho S) as [[e He]|(dd1 & Hw1 & Hd1 & Hr1)];
    rewrite ?He, ?Hr1; [simpl; split; [apply step_refl; auto|discriminate]|].
  destruct (resolve_nofollow c f newp pre n2 Hc Hn S) as [[e He]|(dd2 & Hw2 & Hd2 & Hr2)];
    rewrite ?He, ?Hr2; [simpl; split; [apply step_refl; auto|discriminate]|].
  rewrite Hw in Hw1, Hw2. inversion Hw1; inversion Hw2; subst dd1 dd2.
  cbn [l_ino l_dir l_name].
  rewrite (nil_name oldp pre n1 Ho), (nil_name newp pre n2 Hn). cbn [orb].
  destruct (blookup n1 (ents f dd)) as [i|] eqn:Eb1; [|simpl; split; [apply step_refl; auto|discriminate]].
  assert (Hres : resolve c f oldp false = inl {| l_dir := dd; l_name := n1; l_ino := Some i |}) by exact Hr1.
  destruct (is_dir f i && is_ancestor rfuel f i dd); [simpl; split; [apply step_refl; auto|discriminate]|].
  pose proof (step_move b f pre dd n1 n2 i W Hb Hw Hd1 (call_okname newp pre n2 Hn) Hne Eb1) as M.
  cbv zeta in M. destruct M as (M1 & M2 & M3).
  destruct (blookup n2 (ents f dd)) as [j|] eqn:Eb2.
  - destruct (is_dir f j && is_ancestor rfuel f j dd); [simpl; split; [apply step_refl; auto|discriminate]|].
    destruct (N.eqb i j) eqn:Eij.
    + apply N.eqb_eq in Eij. subst j. simpl. split; [apply step_refl; auto|]. intros _. exists i.
      split; auto. split; auto. split; auto. intros H. congruence.
    + destruct (dir_of f j) as [[pj esj]|].
      * destruct (negb (is_dir f i)); [simpl; split; [apply step_refl; auto|discriminate]|].
        destruct (is_nil esj); [|simpl; split; [apply step_refl; auto|discriminate]].
        cbn [fst snd]. split; auto. intros _. exists i. repeat split; auto.
      * destruct (is_dir f i); [simpl; split; [apply step_refl; auto|discriminate]|].
        cbn [fst snd]. split; auto. intros _. exists i. repeat split; auto.
  - cbn [fst snd]. split; auto. intros _. exists i. repeat split; auto.
Qed.

End Sys.
