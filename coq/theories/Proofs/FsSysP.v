(* C03 — frame lemmas, part 2: one lemma per system call of the receiver.  A call whose path is
   relative to D, made of normal components, whose parent chain meets no symlink, and which
   does not follow the final component (or whose final component is no symlink either) is a
   step (FsReachP.v) that touches at most the one directory entry it names. *)
From Coq Require Import List Arith NArith Bool Lia ZifyN ZifyNat ZifyBool.
From FS Require Import Sx Model.Path Model.Fs Proofs.Lex Proofs.PathP Proofs.FsP Proofs.FsReachP Proofs.FsFrameP.
Import ListNotations.
Open Scope N_scope.
Open Scope bool_scope.

(* ---------------- path strings ---------------- *)
Definition relpath (p : bytes) (cs : list bytes) : Prop :=
  p <> [] /\ is_abs p = false /\ ends_with_sep p = false /\ pcs p = cs /\ cs <> [] /\ Forall okname cs.

Lemma okname_forall cs : Forall okname cs <-> Forall normal cs /\ Forall nosep cs.
Proof.
  split.
  - intros H. split; eapply Forall_impl; try exact H; intros a [? ?]; auto.
  - intros [H1 H2]. induction cs as [|c cs IH]; constructor.
    + inversion H1; inversion H2; split; auto.
    + inversion H1; inversion H2; auto.
Qed.

Lemma filter_nonempty_normal cs : Forall normal cs -> filter nonempty cs = cs.
Proof.
  induction cs as [|c cs IH]; intros H; [reflexivity|]. inversion H as [|? ? (Hc & _) Hr]; subst.
  simpl. destruct c; [congruence|]. simpl. rewrite IH; auto.
Qed.

Lemma joinc_last_byte cs : okc cs -> exists pre x, joinc cs = pre ++ [x] /\ x <> sep.
Proof.
  intros (Hne & Hn & Hs).
  destruct cs as [|c0 cs0] using rev_ind; [congruence|]. clear IHcs0.
  apply Forall_app in Hn, Hs. destruct Hn as [_ Hn], Hs as [_ Hs].
  inversion Hn as [|? ? (Hc & _) _]; subst. inversion Hs as [|? ? Hcs _]; subst.
  destruct c0 as [|x bp _] using rev_ind; [congruence|].
  assert (Hx : x <> sep) by (intro; subst; apply Hcs; apply in_or_app; right; left; auto).
  destruct cs0 as [|c d].
  - exists bp, x. split; auto.
  - rewrite joinc_snoc by discriminate. exists (joinc (c :: d) ++ sep :: bp), x.
    rewrite <- app_assoc. split; auto.
Qed.

Lemma relpath_joinc cs : okc cs -> relpath (joinc cs) cs.
Proof.
  intros H. pose proof H as (Hne & Hn & Hs).
  destruct (okc_not_special cs H) as (H1 & _).
  destruct (okc_clean cs H) as (_ & H2).
  destruct (joinc_last_byte cs H) as (pre & x & E & Hx).
  repeat split; auto.
  - unfold ends_with_sep. rewrite E, rev_app_distr. simpl. apply N.eqb_neq. exact Hx.
  - unfold pcs. rewrite comps_joinc by auto. apply filter_nonempty_normal. exact Hn.
  - apply okname_forall. auto.
Qed.

Section Sys.
Variable D : N.
Notation reach := (reach D).
Notation wf := (wf D).
Notation step := (step D).

(* ---------------- resolution ---------------- *)
Lemma resolve_cases c f p cs follow :
  c_cwd c = D -> relpath p cs ->
  (safe f D cs \/ (follow = false /\ safe f D (removelast cs))) ->
  (exists e, resolve c f p follow = inr e) \/
  (exists pre n dd, cs = pre ++ [n] /\ rwalk f D pre = Some dd /\ is_dir f dd = true /\
     resolve c f p follow = inl {| l_dir := dd; l_name := n; l_ino := blookup n (ents f dd) |}).
Proof.
  intros Hc (Hp & Habs & Hsep & Hpcs & Hne & Hok) Hs.
  apply okname_forall in Hok. destruct Hok as [Hn _].
  unfold resolve. destruct p as [|a p']; [congruence|].
  destruct (has_nul (a :: p')); [left; eauto|].
  rewrite Hsep, Habs, Hpcs, Hc, orb_false_r. generalize rfuel. intros fuel.
  destruct (walk_rres fuel f (c_root c) D cs follow 0 Hn Hs) as [E|E]; rewrite E; [|left; eauto].
  destruct (rres f D cs) as [r|e] eqn:Er; [|left; eauto].
  right. destruct (rres_inv f cs D r Hne Er) as (pre & n & E1 & E2 & E3 & E4 & E5).
  exists pre, n, (l_dir r). repeat split; auto.
  destruct r as [d nm io]. simpl in *. subst. reflexivity.
Qed.

(* the entry a path names *)
Definition names (f : fs) (cs : list bytes) (T : N -> bytes -> Prop) : Prop :=
  forall pre n dd, cs = pre ++ [n] -> rwalk f D pre = Some dd -> T dd n.

Lemma okname_last pre n : Forall okname (pre ++ [n]) -> okname n.
Proof. intros H. apply Forall_app in H. destruct H as [_ H]. inversion H; auto. Qed.

Ltac resolve_split c f p cs follow Hc Hrel Hs :=
  let e := fresh "e" in let He := fresh "He" in
  let pre := fresh "pre" in let n := fresh "n" in let dd := fresh "dd" in
  let Ecs := fresh "Ecs" in let Hw := fresh "Hw" in let Hd := fresh "Hd" in let Hr := fresh "Hr" in
  destruct (resolve_cases c f p cs follow Hc Hrel Hs) as [[e He]|(pre & n & dd & Ecs & Hw & Hd & Hr)].

(* ---------------- calls that change nothing ---------------- *)
Lemma sys_lstat_fs c f p : fst (sys_lstat c f p) = f.
Proof.
  unfold sys_lstat. destruct (resolve_ino c f p false); [|reflexivity].
  destruct (get f n); reflexivity.
Qed.

Lemma sys_lstat_stat c f p cs i nd :
  c_cwd c = D -> relpath p cs -> safe f D (removelast cs) ->
  snd (sys_lstat c f p) = RStat i nd ->
  exists pre n dd, cs = pre ++ [n] /\ rwalk f D pre = Some dd /\ is_dir f dd = true
                   /\ blookup n (ents f dd) = Some i /\ get f i = Some nd.
Proof.
  intros Hc Hrel Hs H.
  destruct (resolve_cases c f p cs false Hc Hrel (or_intror (conj eq_refl Hs)))
    as [[e He]|(pre & n & dd & Ecs & Hw & Hd & Hr)];
    unfold sys_lstat, resolve_ino in H; [rewrite He in H; discriminate|].
  rewrite Hr in H. simpl in H.
  destruct (blookup n (ents f dd)) as [j|] eqn:Eb; [|discriminate].
  destruct (get f j) as [nj|] eqn:Eg; [|discriminate].
  simpl in H. inversion H; subst. exists pre, n, dd. auto.
Qed.

(* ---------------- creating calls ---------------- *)
Lemma step_create_at (T : N -> bytes -> Prop) b f pre n dd isdir k mode :
  wf f -> b <= f_next f -> rwalk f D pre = Some dd -> is_dir f dd = true -> okname n ->
  blookup n (ents f dd) = None -> T dd n ->
  leaf {| i_kind := k; i_meta := new_meta f dd isdir mode |} ->
  let r := {| l_dir := dd; l_name := n; l_ino := None |} in
  let f' := fst (create_at f r isdir k mode) in
  step T b f f'
  /\ blookup n (ents f' dd) = Some (f_next f)
  /\ get f' (f_next f) = Some {| i_kind := k; i_meta := new_meta f dd isdir mode |}
  /\ snd (create_at f r isdir k mode) = f_next f.
Proof.
  intros W Hb Hw Hd Hn Hb0 HT Hl r f'.
  assert (Rdd : reach f dd) by (apply (rwalk_reach D f pre D dd); [constructor|auto]).
  set (n0 := {| i_kind := k; i_meta := new_meta f dd isdir mode |}) in *.
  assert (E : create_at f r isdir k mode = (add_ent (fst (alloc f n0)) dd n (f_next f), f_next f)) by reflexivity.
  unfold f'. rewrite E. cbn [fst snd].
  pose proof (step_alloc D T b f n0 W Hb Hl) as A.
  destruct (alloc_facts D f n0 W Hl) as (H1 & H2 & H3 & H4).
  set (f1 := fst (alloc f n0)) in *.
  assert (W1 : wf f1) by (apply (st_wf _ _ _ _ _ A)).
  assert (Hlt : dd < f_next f) by (apply (reach_lt D f dd W Rdd)).
  apply is_dir_dir_of in Hd. destruct Hd as (p & es & Hdir).
  assert (Hdir1 : dir_of f1 dd = Some (p, es)) by (rewrite H1 by lia; auto).
  assert (Hes : ents f dd = es) by (apply (dir_of_ents _ _ _ _ Hdir)).
  rewrite Hes in Hb0.
  unfold add_ent. rewrite Hdir1.
  assert (Hnew : newcomer D b f1 (f_next f)).
  { split; [lia|]. split; [|exact H2]. intro R. apply H4 in R.
    pose proof (reach_lt D f _ W R). lia. }
  assert (S2 : step T b f1 (set_ents f1 dd (es ++ [(n, f_next f)]))).
  { apply (step_set_ents D T b f1 dd p es); auto.
    - pose proof (st_next _ _ _ _ _ A). lia.
    - apply H4. exact Rdd.
    - intros m Hm. rewrite blookup_app. destruct (blookup m es); auto.
      simpl. rewrite bytes_eqb_false; auto. intro; subst. auto.
    - rewrite map_app. simpl. pose proof (wf_names D f W dd Rdd) as [Hnd _]. rewrite Hes in Hnd.
      apply NoDup_snoc; auto. apply blookup_None_notin. exact Hb0.
    - rewrite map_app. apply Forall_app. split.
      + pose proof (wf_names D f W dd Rdd) as [_ Hok]. rewrite Hes in Hok. exact Hok.
      + constructor; auto.
    - intros m x Hin. apply in_app_or in Hin. destruct Hin as [Hin|[Hin|[]]].
      + rewrite <- Hes in Hin. split; [|split].
        * pose proof (wf_target D f W dd m x Rdd Hin). simpl. lia.
        * intro; subst. apply (wf_notD D f W dd m Rdd Hin).
        * left. exists m. rewrite <- Hes. exact Hin.
      + inversion Hin; subst. split; [simpl; lia|]. split; [|right; right; exact Hnew].
        pose proof (reach_lt D f D W (reach_refl D f)). lia.
    - intros m1 m2 x I1 I2 Hdx.
      apply in_app_or in I1. apply in_app_or in I2.
      assert (Hold : forall m, In (m, x) es -> x < f_next f).
      { intros m Hm. rewrite <- Hes in Hm. apply (wf_target D f W dd m x Rdd Hm). }
      destruct I1 as [I1|[I1|[]]], I2 as [I2|[I2|[]]].
      + assert (Hdx' : is_dir f x = true).
        { unfold is_dir in *. rewrite H1 in Hdx; auto. pose proof (Hold m1 I1). lia. }
        rewrite <- Hes in I1, I2. apply (wf_single D f W dd dd m1 m2 x); auto.
      + inversion I2; subst. pose proof (Hold m1 I1). lia.
      + inversion I1; subst. pose proof (Hold m2 I2). lia.
      + inversion I1; inversion I2; subst. reflexivity. }
  split; [apply (step_trans D T b f f1); auto|].
  assert (Hd2 : dir_of (set_ents f1 dd (es ++ [(n, f_next f)])) dd = Some (p, es ++ [(n, f_next f)])).
  { destruct (dir_of_get f1 dd p es Hdir1) as [m Hg]. rewrite (set_ents_get f1 dd p es m _ Hg).
    unfold dir_of. rewrite get_put_same. reflexivity. }
  split; [|split; [|reflexivity]].
  - rewrite (dir_of_ents _ _ _ _ Hd2). rewrite blookup_app, Hb0. simpl. rewrite bytes_eqb_refl. reflexivity.
  - destruct (dir_of_get f1 dd p es Hdir1) as [m Hg]. rewrite (set_ents_get f1 dd p es m _ Hg).
    rewrite get_put_other by lia. unfold f1. rewrite <- (alloc_snd f n0) at 1. apply get_alloc_new.
Qed.

End Sys.
