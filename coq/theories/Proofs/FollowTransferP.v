(* transfer_resolves_same (C18, consequence clause) as a composition with C10:
   the walk of NewFilterFS(view, FollowPaths = reqs), i.e. C10's [filter_walk] with the
   FollowLinks result as include patterns, reports every symlink that the independent
   resolver traverses for every request, and the entry it reaches.

   Proved for pattern-free inputs ("plain": no pattern character, no leading '!', no
   leading / trailing white space in any component of a request or link target): for those
   patternmatcher.New reads every element of the result as the literal path it is.
   Route: result_closed (closure) -> every needed entry is at or below a result element
   -> the incremental matcher (include-only, literal patterns) selects it
   -> C10: prune_unobservable + filter_walk_is_incr_reference + reference_nomap_is_flat. *)
From Coq Require Import List NArith Bool Lia Arith.
From FS Require Import Sx Model.Path Model.Stat Model.Tree Model.FollowLinks Model.Pattern Model.FilterWalk Model.FollowTransfer
     Proofs.Lex Proofs.PathP Proofs.ValidatorP Proofs.PatternP Proofs.IncrNaiveP
     Proofs.FilterP Proofs.PruneP Proofs.RefP Proofs.FlatRefP
     Proofs.FollowLinksP Proofs.FollowLinksClosedP Proofs.FollowLinksWildP.
Import ListNotations.
Open Scope N_scope.
Open Scope bool_scope.

(* ------------------------------------------------------------------ entries of the tree are walked *)
Lemma st_path_set_path s p : st_path (set_path s p) = p.
Proof. destruct s; reflexivity. Qed.

Lemma child_path_joinc dir c r :
  c <> [] -> r <> [] -> child_path (child_path dir c) (joinc r) = child_path dir (joinc (c :: r)).
Proof.
  intros Hc Hr. rewrite (joinc_cons c r Hr). destruct dir as [|d dir].
  - cbn [child_path]. destruct c; [congruence|reflexivity].
  - cbn [child_path app]. rewrite <- app_assoc. reflexivity.
Qed.

Lemma walk_forest_In dir k kids e : In k kids -> In e (walk_node dir k) -> In e (walk_forest dir kids).
Proof.
  induction kids as [|a kids IH]; intros Hk He; [destruct Hk|]. cbn [walk_forest]. apply in_or_app.
  destruct Hk as [->|Hk]; [left; exact He|right; apply IH; auto].
Qed.

Lemma lookup_walked : forall x kids dir n,
  forallb FollowLinks.wf_node kids = true -> lookup kids x = Some n ->
  exists e, In e (walk_forest dir kids) /\ st_path (fst e) = child_path dir (joinc x).
Proof.
  induction x as [|c r IH]; intros kids dir n Hw H; [discriminate|].
  cbn [lookup] in H. destruct (find_kid c kids) as [k|] eqn:Ek; [|discriminate].
  pose proof (wf_find_kid _ _ _ Hw Ek) as Hk. destruct (find_kid_In _ _ _ Ek) as [Hin Hname].
  destruct k as [name st ct kk]. cbn [node_name] in Hname. subst name.
  rewrite wf_node_eq in Hk. cbn [node_name node_kids] in Hk. rewrite !andb_true_iff in Hk.
  destruct Hk as [[[[Hnok _] _] _] Hkk].
  assert (Hc : c <> []).
  { unfold FollowLinks.name_ok in Hnok. rewrite !andb_true_iff in Hnok. destruct Hnok as [[[H1 _] _] _].
    destruct c; [discriminate|discriminate]. }
  destruct r as [|c2 r].
  - exists (set_path st (child_path dir c), ct). split; [|cbn [fst]; rewrite st_path_set_path; reflexivity].
    apply (walk_forest_In dir _ kids _ Hin). rewrite walk_node_eq. left; reflexivity.
  - cbn [node_kids] in H. destruct (IH kk (child_path dir c) n Hkk H) as (e & He & Hp).
    exists e. split.
    + apply (walk_forest_In dir _ kids _ Hin). rewrite walk_node_eq. right. exact He.
    + rewrite Hp. apply child_path_joinc; [exact Hc|discriminate].
Qed.

(* ------------------------------------------------------------------ what the resolver touches exists *)
Section Valid.
Variable gmatch : bytes -> bytes -> bool.
Variable view : list node.

Definition valid (x : list bytes) : Prop := exists n, lookup view x = Some n.

Lemma lookup_prefix : forall a kids c n, lookup kids (a ++ [c]) = Some n -> a = [] \/ exists m, lookup kids a = Some m.
Proof.
  induction a as [|x a IH]; intros kids c n H; [left; reflexivity|right].
  cbn [app lookup] in H. destruct (find_kid x kids) as [k|] eqn:Ek; [|discriminate].
  destruct (a ++ [c]) eqn:E; [destruct a; discriminate|]. rewrite <- E in H.
  destruct (IH _ _ _ H) as [->|(m & Hm)].
  - exists k. cbn [lookup]. rewrite Ek. reflexivity.
  - exists m. cbn [lookup]. rewrite Ek. destruct a; [discriminate|exact Hm].
Qed.

Lemma valid_removelast here : here = [] \/ valid here -> removelast here = [] \/ valid (removelast here).
Proof.
  intros [->|(n & Hn)]; [left; reflexivity|].
  destruct here as [|c a _] using rev_ind; [left; reflexivity|]. rewrite removelast_last.
  destruct (lookup_prefix a view c n Hn) as [->|Hm]; [left; reflexivity|right; exact Hm].
Qed.

Lemma find_kid_some kids n : In n kids -> exists n', find_kid (node_name n) kids = Some n'.
Proof.
  induction kids as [|k r IH]; intros H; [destruct H|]. cbn [find_kid].
  destruct (bytes_eqb (node_name k) (node_name n)) eqn:E; [eauto|].
  destruct H as [->|H]; [rewrite bytes_eqb_refl in E; discriminate|apply IH; exact H].
Qed.

Lemma valid_child here kids n : dir_at view here = Some kids -> In n kids -> valid (here ++ [node_name n]).
Proof.
  intros Hd Hn. destruct (find_kid_some kids n Hn) as [n' Hn']. exists n'.
  rewrite (lookup_dir_at view here _ kids Hd). exact Hn'.
Qed.

Definition good_out (o : cres) : Prop :=
  Forall valid (traversed o) /\ forall q, final o = Reached q -> q = [] \/ valid q.

Lemma cresolve_valid : forall f todo here trav o,
  here = [] \/ valid here -> Forall valid trav ->
  In o (cresolve gmatch view f here todo trav) -> good_out o.
Proof.
  induction f as [f IHf] using lt_wf_ind. induction todo as [|[c g] rest IH]; intros here trav o Hh Ht Ho.
  - rewrite cresolve_eq2 in Ho. destruct Ho as [<-|[]]. unfold good_out. split; [exact Ht|]. cbn [final mkc]. intros q [= <-]. exact Hh.
  - rewrite cresolve_eq2 in Ho.
    assert (Hfail : good_out (mkc trav Failed)) by (unfold good_out; split; [exact Ht|intros q; discriminate]).
    destruct (dir_at view here) as [kids|] eqn:Ed; [|destruct Ho as [<-|[]]; exact Hfail].
    assert (Henter : forall n, In n kids -> In o (enter gmatch view f here rest trav n) -> good_out o).
    { intros n Hn Hon. pose proof (valid_child here kids n Ed Hn) as Hv. unfold enter in Hon. cbv zeta in Hon.
      assert (Hfail2 : good_out (mkc ((here ++ [node_name n]) :: trav) Failed)).
      { unfold good_out. split; [constructor; auto|intros q; discriminate]. }
      destruct (node_is_symlink n); [|apply (IH _ _ _ (or_intror Hv) Ht Hon)].
      destruct f as [|f']; [destruct Hon as [<-|[]]; exact Hfail2|].
      destruct (FollowLinks.is_nil (node_link n)); [destruct Hon as [<-|[]]; exact Hfail2|].
      refine (IHf f' (Nat.lt_succ_diag_r f') _ _ _ _ _ _ Hon); [|constructor; auto].
      destruct (is_abs (node_link n)); [left; reflexivity|exact Hh]. }
    destruct (is_triv c); [apply (IH _ _ _ Hh Ht Ho)|].
    destruct (is_dotdot c); [apply (IH _ _ _ (valid_removelast here Hh) Ht Ho)|].
    destruct (g && contains_wildcards c).
    + apply in_flat_map in Ho. destruct Ho as (n & Hn & Hon). destruct (gmatch c (node_name n)); [|destruct Hon].
      apply (Henter n Hn Hon).
    + destruct (find_kid c kids) as [n|] eqn:Ek; [|destruct Ho as [<-|[]]; exact Hfail].
      destruct (find_kid_In _ _ _ Ek) as [Hn _]. apply (Henter n Hn Ho).
Qed.

End Valid.

(* ------------------------------------------------------------------ the incremental matcher on include-only lists *)
Section IncOnly.
Variable pmatch : bytes -> bytes -> bool.

Definition inc_only (pats : list pat) : Prop := Forall (fun P => p_excl P = false) pats.
Notation anyb l := (existsb (fun b : bool => b) l).

Lemma incr_go_inc_only pats : inc_only pats -> forall parent hi file m,
  fst (incr_go pmatch pats parent hi file m) = m || anyb (snd (incr_go pmatch pats parent hi file m)).
Proof.
  induction 1 as [|P ps HP Hps IH]; intros parent hi file m.
  - cbn [incr_go fst snd existsb]. rewrite orb_false_r. reflexivity.
  - rewrite incr_go_cons. cbv zeta. cbn [fst snd existsb]. rewrite IH, HP. cbn [negb].
    destruct (incr_m pmatch P (hi && hd false parent) hi file m); destruct m; cbn [orb]; reflexivity.
Qed.

Lemma incr_go_true pats : inc_only pats -> forall parent hi file,
  fst (incr_go pmatch pats parent hi file true) = true.
Proof. intros H parent hi file. rewrite incr_go_inc_only by exact H. reflexivity. Qed.

Lemma incr_go_match pats : inc_only pats -> forall parent hi file m,
  (exists P, In P pats /\ pmatch (p_str P) file = true) ->
  fst (incr_go pmatch pats parent hi file m) = true.
Proof.
  induction 1 as [|P0 ps HP Hps IH]; intros parent hi file m (P & HPin & Hm); [destruct HPin|].
  rewrite incr_go_cons. cbv zeta. cbn [fst]. destruct HPin as [->|HPin]; [|apply IH; eauto].
  rewrite HP. cbn [negb]. unfold incr_m. rewrite HP, Hm.
  destruct (hi && hd false parent); [apply incr_go_true; exact Hps|].
  destruct m; cbn [eqb negb orb]; apply incr_go_true; exact Hps.
Qed.

Lemma incr_go_pm pats : forall parent file m, length parent = length pats -> anyb parent = true ->
  anyb (snd (incr_go pmatch pats parent true file m)) = true.
Proof.
  induction pats as [|P ps IH]; intros parent file m Hl Ha.
  - destruct parent; [discriminate|discriminate].
  - destruct parent as [|b bs]; [discriminate|]. rewrite incr_go_cons. cbv zeta. cbn [snd existsb hd tl andb].
    cbn [existsb] in Ha. destruct b.
    + unfold incr_m. reflexivity.
    + cbn [orb] in Ha. rewrite (IH bs); [apply orb_true_r| |exact Ha]. cbn [length] in Hl. lia.
Qed.

Lemma incr_chain_length pats d b : length (snd (incr_chain pmatch pats (d ++ [b]))) = length pats.
Proof. rewrite incr_chain_snoc. unfold incr_eval. apply incr_go_length. Qed.

(* a pattern of an include-only list matches a prefix of the chain: selected from there on *)
Lemma incr_chain_hit pats pre : inc_only pats -> pre <> [] ->
  (exists P, In P pats /\ pmatch (p_str P) (joinc pre) = true) ->
  forall z, fst (incr_chain pmatch pats (pre ++ z)) = true /\ anyb (snd (incr_chain pmatch pats (pre ++ z))) = true.
Proof.
  intros Hinc Hne Hhit z. induction z as [|b z IH] using rev_ind.
  - rewrite app_nil_r. destruct pre as [|b d _] using rev_ind; [congruence|].
    rewrite incr_chain_snoc. unfold incr_eval.
    assert (Hf : fst (incr_go pmatch pats (snd (incr_chain pmatch pats d)) (negb (is_nil (snd (incr_chain pmatch pats d))))
                        (joinc (d ++ [b])) false) = true) by (apply incr_go_match; auto).
    split; [exact Hf|]. rewrite incr_go_inc_only in Hf by exact Hinc. exact Hf.
  - destruct IH as [_ IH2]. rewrite app_assoc. rewrite incr_chain_snoc. unfold incr_eval.
    set (parent := snd (incr_chain pmatch pats (pre ++ z))) in *.
    assert (Hlen : length parent = length pats).
    { unfold parent. destruct (pre ++ z) as [|x l] eqn:E using rev_ind; [destruct pre; discriminate|].
      apply incr_chain_length. }
    assert (Hhi : negb (is_nil parent) = true) by (destruct parent; [discriminate|reflexivity]).
    rewrite Hhi.
    assert (Ha : anyb (snd (incr_go pmatch pats parent true (joinc ((pre ++ z) ++ [b])) false)) = true)
      by (apply incr_go_pm; auto).
    split; [|exact Ha]. rewrite incr_go_inc_only by exact Hinc. rewrite Ha. reflexivity.
Qed.

End IncOnly.

(* ------------------------------------------------------------------ plain paths are literal patterns *)
Lemma last_app_ne {A} (x b : list A) d : b <> [] -> last (x ++ b) d = last b d.
Proof.
  intros Hb. induction x as [|a x IH]; [reflexivity|]. cbn [app].
  assert (Hne : x ++ b <> []) by (destruct x; cbn [app]; [exact Hb|discriminate]).
  destruct (x ++ b) eqn:E; [congruence|]. rewrite <- IH. reflexivity.
Qed.

Lemma rev_last_cons (s : bytes) : s <> [] -> rev s = last s 0 :: rev (removelast s).
Proof.
  intros H. destruct s as [|x s _] using rev_ind; [congruence|].
  rewrite rev_app_distr, removelast_last, last_last. reflexivity.
Qed.

Lemma trim_space_id a r : is_space a = false -> is_space (last (a :: r) 0) = false -> trim_space (a :: r) = a :: r.
Proof.
  intros Ha Hl. unfold trim_space. cbn [trim_left]. rewrite Ha.
  rewrite (rev_last_cons (a :: r)) by discriminate. cbn [trim_left]. rewrite Hl.
  rewrite <- (rev_last_cons (a :: r)) by discriminate. apply rev_involutive.
Qed.

Definition plainc (c : bytes) : Prop := plain_comp c = true /\ normal c /\ nosep c.

Lemma plain_comp_inv c : plain_comp c = true -> c <> [] ->
  contains_pattern_chars c = false /\ is_space (last c 0) = false /\
  exists a r, c = a :: r /\ N.eqb a bang = false /\ is_space a = false.
Proof.
  unfold plain_comp. intros H Hne. rewrite !andb_true_iff in H. destruct H as [[H1 H2] H3].
  apply negb_true_iff in H1, H3. split; [exact H1|]. split; [exact H3|].
  destruct c as [|a r]; [congruence|]. exists a, r. apply andb_true_iff in H2. destruct H2 as [H2 H4].
  apply negb_true_iff in H2, H4. auto.
Qed.

Lemma sep_not_pattern_char : is_pattern_char sep = false.
Proof. reflexivity. Qed.

Lemma cpc_joinc cs : Forall (fun c => contains_pattern_chars c = false) cs -> contains_pattern_chars (joinc cs) = false.
Proof.
  induction 1 as [|c cs Hc Hcs IH]; [reflexivity|]. destruct cs as [|c2 cs]; [cbn [joinc]; exact Hc|].
  rewrite joinc_cons by discriminate. unfold contains_pattern_chars in *. rewrite existsb_app. rewrite Hc.
  cbn [existsb orb]. rewrite sep_not_pattern_char. exact IH.
Qed.

Lemma last_joinc cs b : last (joinc (cs ++ [b])) 0 = last b 0 \/ b = [].
Proof.
  destruct b as [|x b]; [right; reflexivity|left]. destruct cs as [|c cs].
  - reflexivity.
  - rewrite joinc_snoc by discriminate.
    change (joinc (c :: cs) ++ sep :: x :: b) with (joinc (c :: cs) ++ [sep] ++ (x :: b)).
    rewrite app_assoc. apply last_app_ne. discriminate.
Qed.

Lemma plain_key_facts cs : cs <> [] -> Forall plainc cs ->
  okc cs /\ contains_pattern_chars (joinc cs) = false /\
  trim_space (joinc cs) = joinc cs /\ exists a r, joinc cs = a :: r /\ N.eqb a bang = false.
Proof.
  intros Hne H.
  assert (Hok : okc cs).
  { split; [exact Hne|]. split; eapply Forall_impl; try exact H; intros c (_ & Hn & Hs); auto. }
  split; [exact Hok|]. split.
  { apply cpc_joinc. eapply Forall_impl; [|exact H]. intros c (Hp & (Hc & _) & _).
    apply (plain_comp_inv c Hp Hc). }
  (* first byte *)
  assert (Hfirst : exists a r, joinc cs = a :: r /\ N.eqb a bang = false /\ is_space a = false).
  { destruct cs as [|c cs]; [congruence|]. inversion H as [|? ? (Hp & (Hc & _) & _) _]; subst.
    destruct (plain_comp_inv c Hp Hc) as (_ & _ & a & r & -> & Hb & Hs).
    destruct cs as [|c2 cs]; [exists a, r; auto|]. rewrite joinc_cons by discriminate.
    exists a, (r ++ sep :: joinc (c2 :: cs)). auto. }
  destruct Hfirst as (a & r & Ej & Hb & Hs). split; [|exists a, r; auto].
  rewrite Ej. apply trim_space_id; [exact Hs|]. rewrite <- Ej.
  destruct cs as [|b d _] using rev_ind; [congruence|].
  apply Forall_app in H. destruct H as [_ Hb']. inversion Hb' as [|? ? (Hp & (Hc & _) & _) _]; subst.
  destruct (last_joinc d b) as [-> | ->]; [|congruence]. apply (plain_comp_inv b Hp Hc).
Qed.

Lemma no_pattern_chars_lit e : contains_pattern_chars e = false -> pat_kind e = Lit e.
Proof.
  intros H.
  assert (Hstar : forall pre suf, In star suf -> e <> pre ++ suf).
  { intros pre suf Hs E. unfold contains_pattern_chars in H.
    assert (Hx : existsb is_pattern_char e = true).
    { apply existsb_exists. exists star. split; [rewrite E; apply in_or_app; right; exact Hs|reflexivity]. }
    congruence. }
  assert (H2 : strip_suffix s_sep_starstar e = None).
  { apply strip_suffix_none. intros pre. apply Hstar. right; left; reflexivity. }
  assert (H1 : strip_suffix s_sep_star e = None).
  { apply strip_suffix_none. intros pre. apply Hstar. right; left; reflexivity. }
  assert (Hw : without_trailing_glob e = e).
  { unfold without_trailing_glob. rewrite (trim_suffix_none e _ H2), bytes_eqb_refl. cbn [negb].
    apply trim_suffix_none. exact H1. }
  unfold pat_kind. rewrite Hw, H, H2, H1. reflexivity.
Qed.

Definition lit_pat (e : bytes) : pat := {| p_excl := false; p_str := e |}.

Lemma normalize1_plain cs : cs <> [] -> Forall plainc cs -> normalize1 (joinc cs) = NPat (lit_pat (joinc cs)).
Proof.
  intros Hne H. destruct (plain_key_facts cs Hne H) as (Hok & _ & Ht & a & r & Ej & Hb).
  unfold normalize1. rewrite Ht. destruct (okc_clean cs Hok) as [Hc _]. rewrite Ej in *. rewrite Hc, Hb. reflexivity.
Qed.

Lemma normalize_plain keys :
  Forall (fun e => exists cs, cs <> [] /\ Forall plainc cs /\ e = joinc cs) keys ->
  normalize keys = Some (map lit_pat keys).
Proof.
  induction 1 as [|e keys (cs & Hne & Hp & ->) _ IH]; [reflexivity|].
  cbn [normalize map]. rewrite (normalize1_plain cs Hne Hp), IH. reflexivity.
Qed.

(* ------------------------------------------------------------------ well-formedness: C18's implies C10's *)
Lemma has_sep_no_sep s : no_sep s = negb (has_sep s).
Proof.
  unfold no_sep. f_equal. induction s as [|a s IH]; [reflexivity|]. cbn [existsb has_sep].
  rewrite IH, (N.eqb_sym sep a). reflexivity.
Qed.

Lemma mem_existsb x l : mem x l = existsb (bytes_eqb x) l.
Proof. induction l as [|y l IH]; [reflexivity|]. cbn [mem existsb]. rewrite IH. reflexivity. Qed.

Lemma names_distinct_distinct l : names_distinct l = distinct l.
Proof. induction l as [|a l IH]; [reflexivity|]. cbn [names_distinct distinct]. rewrite IH, mem_existsb. reflexivity. Qed.

Lemma is_nil_same {A} (l : list A) : FollowLinks.is_nil l = Pattern.is_nil l.
Proof. destruct l; reflexivity. Qed.

Lemma fl_wf_node_tree : forall n, FollowLinks.wf_node n = true ->
  FilterWalk.wf_node n = true /\ wf_tree_node n = true.
Proof.
  induction n as [name st ct kids IHk] using node_ind2. intros H.
  rewrite wf_node_eq in H. cbn [node_name node_kids] in H. unfold node_is_dir, node_is_symlink in H.
  cbn [node_stat] in H. rewrite !andb_true_iff in H. destruct H as [[[[Hn Hd] _] Hdist] Hk].
  unfold FollowLinks.name_ok in Hn. rewrite !andb_true_iff in Hn. destruct Hn as [[[Hn1 _] _] Hn4].
  assert (Hkk : forallb FilterWalk.wf_node kids = true /\ forallb wf_tree_node kids = true).
  { rewrite !forallb_forall. rewrite forallb_forall in Hk. rewrite Forall_forall in IHk.
    split; intros k Hin; apply (IHk k Hin (Hk k Hin)). }
  destruct Hkk as [Hk1 Hk2].
  cbn [FilterWalk.wf_node wf_tree_node]. rewrite <- !(is_nil_same name), has_sep_no_sep, Hn1, Hn4, Hk1, Hk2.
  unfold st_is_dir. rewrite <- (is_nil_same kids), Hd, <- names_distinct_distinct, Hdist. split; reflexivity.
Qed.

Lemma fl_wf_view_tree view : FollowLinks.wf_view view = true ->
  FilterWalk.wf_view view = true /\ wf_tree view = true.
Proof.
  unfold FollowLinks.wf_view, FilterWalk.wf_view, wf_tree. intros H. apply andb_true_iff in H.
  destruct H as [Hd Hw]. rewrite <- names_distinct_distinct, Hd. rewrite forallb_forall in Hw.
  split; [|cbn [andb]]; apply forallb_forall; intros n Hn; apply (fl_wf_node_tree n (Hw n Hn)).
Qed.

(* entries of a well-formed tree have clean paths *)
Lemma lookup_okc : forall x kids n, forallb FollowLinks.wf_node kids = true -> lookup kids x = Some n -> okc x.
Proof.
  induction x as [|c r IH]; intros kids n Hw H; [discriminate|].
  cbn [lookup] in H. destruct (find_kid c kids) as [k|] eqn:Ek; [|discriminate].
  pose proof (wf_find_kid _ _ _ Hw Ek) as Hk. destruct (find_kid_In _ _ _ Ek) as [_ Hname].
  rewrite wf_node_eq, Hname in Hk. rewrite !andb_true_iff in Hk. destruct Hk as [[[[Hnok _] _] _] Hkk].
  unfold FollowLinks.name_ok in Hnok. rewrite !andb_true_iff in Hnok. destruct Hnok as [[[H1 H2] H3] H4].
  apply negb_true_iff in H2, H3, H4.
  assert (Hc : normal c /\ nosep c).
  { split; [repeat split|].
    - destruct c; [discriminate|discriminate].
    - apply bytes_eqb_neq. exact H2.
    - apply bytes_eqb_neq. exact H3.
    - apply no_sep_nosep. rewrite has_sep_no_sep, H4. reflexivity. }
  destruct Hc as [Hcn Hcs]. destruct r as [|c2 r].
  - split; [discriminate|]. split; constructor; auto.
  - destruct (IH (node_kids k) n Hkk H) as (_ & Hn & Hs). split; [discriminate|]. split; constructor; auto.
Qed.

(* a literal pattern list covers by prefix *)
Lemma contains_wildcards_plain s : contains_pattern_chars s = false -> contains_wildcards s = false.
Proof.
  unfold contains_pattern_chars. induction s as [|ch r IH]; intros H; [reflexivity|].
  cbn [existsb] in H. apply orb_false_iff in H. destruct H as [Hc Hr]. cbn [contains_wildcards].
  unfold is_pattern_char in Hc. rewrite !orb_false_iff in Hc. destruct Hc as [[[[[H42 H91] H93] H63] H94] H92].
  rewrite H92, H42, H63, H91. cbn [orb]. apply IH. exact Hr.
Qed.

Lemma pat_prefix_lit_inv gmatch e : (forall c, In c e -> contains_wildcards c = false) ->
  forall y, pat_prefix gmatch e y = true -> exists z, y = e ++ z.
Proof.
  induction e as [|c e IH]; intros Hl y H; [exists y; reflexivity|].
  destruct y as [|d y]; [discriminate|]. cbn [pat_prefix] in H. rewrite (Hl c (or_introl eq_refl)) in H.
  apply andb_true_iff in H. destruct H as [H1 H2]. apply bytes_eqb_eq in H1. subst d.
  destruct (IH (fun c0 Hc0 => Hl c0 (or_intror Hc0)) y H2) as [z ->]. exists z. reflexivity.
Qed.

(* dedupePaths is idempotent *)
Lemma dedupe_from_idem : forall l kept out, dedupe_from kept l = Some out -> dedupe_from kept out = Some out.
Proof.
  induction l as [|s r IH]; intros kept out H; cbn [dedupe_from] in H; [inversion H; reflexivity|].
  destruct (bytes_eqb s s_dot) eqn:Ed; [discriminate|].
  destruct (existsb (fun o => inside o s) kept) eqn:Ei; [apply (IH _ _ H)|].
  destruct (dedupe_from (s :: kept) r) as [out'|] eqn:E; [|discriminate]. inversion H; subst.
  cbn [dedupe_from]. rewrite Ed, Ei, (IH _ _ E). reflexivity.
Qed.

(* ... so the second dedupePaths of the pinned NewFilterFS is the identity on what FollowLinks returns *)
Lemma follow_targets_dedupe_fixpoint_proof gmatch view fuel reqs l :
  follow_links_opt gmatch view fuel reqs = Ok (Some l) -> dedupe_paths l = Some l.
Proof.
  unfold follow_links_opt. destruct (follow_state gmatch view fuel reqs) as [F|]; [|discriminate].
  intros H. assert (Hf : finish F = Some l) by congruence. clear H. unfold finish, dedupe_paths in Hf. unfold dedupe_paths.
  apply (dedupe_from_idem _ _ _ Hf).
Qed.

Lemma side_normalized keys pats : normalize keys = Some pats ->
  side keys = Some (match keys with [] => None | _ => Some pats end).
Proof. intros H. destruct keys; [reflexivity|]. unfold side. rewrite H. reflexivity. Qed.

(* ------------------------------------------------------------------ the composition *)
Section Transfer.
Variable pmatch : bytes -> bytes -> bool.
Variable gmatch : bytes -> bytes -> bool.
Variable view : list node.
Variable reqs : list bytes.
Hypothesis Hsem : prefix_semantics pmatch.
Hypothesis Hwf : FollowLinks.wf_view view = true.
Hypothesis Hplain : plain_inputs view reqs = true.

Lemma pool_plain c : In c (comp_pool view reqs) -> plain_comp c = true.
Proof. unfold plain_inputs in Hplain. rewrite forallb_forall in Hplain. auto. Qed.

Lemma pool_elit c : In c (comp_pool view reqs) -> elit gmatch view c.
Proof.
  intros H. unfold elit, quasi_literal. pose proof (pool_plain c H) as Hp. unfold plain_comp in Hp.
  rewrite !andb_true_iff in Hp. destruct Hp as [[Hp _] _]. apply negb_true_iff in Hp.
  rewrite (contains_wildcards_plain c Hp). reflexivity.
Qed.

Lemma PCN_plainc cs : PCN view reqs cs -> Forall plainc cs.
Proof.
  intros H. eapply Forall_impl; [|exact H]. intros c [Hc Hn]. split; [apply pool_plain; exact Hc|].
  split; [exact Hn|eapply pool_nosep; eauto].
Qed.

(* the walk, once the include list is the literal reading of plain keys *)
Lemma walk_contains (keys : list bytes) (c : cfg) :
  Forall (fun e => exists cs, cs <> [] /\ PCN view reqs cs /\ e = joinc cs) keys ->
  c = {| c_inc := match keys with [] => None | _ => Some (map lit_pat keys) end; c_exc := None; c_prune := true |} ->
  forall x, valid view x ->
    (keys = [] \/ exists cs z, In (joinc cs) keys /\ cs <> [] /\ PCN view reqs cs /\ x = cs ++ z) ->
    In (joinc x) (map st_path (filter_walk pmatch id_map c view)).
Proof.
  intros Hkeys -> x (n & Hn) Hcov.
  destruct (fl_wf_view_tree view Hwf) as [Hwfw Hwft].
  pose proof (wf_view_forallb view Hwf) as Hwf'.
  set (c := {| c_inc := match keys with [] => None | _ => Some (map lit_pat keys) end; c_exc := None; c_prune := true |}).
  assert (Hlit : forall e, In e keys -> pat_kind e = Lit e).
  { intros e He. rewrite Forall_forall in Hkeys. destruct (Hkeys e He) as (cs & Hne & Hp & ->).
    apply no_pattern_chars_lit. apply (plain_key_facts cs Hne (PCN_plainc cs Hp)). }
  assert (Hsafe : cfg_star_safe c = true).
  { unfold cfg_star_safe, c. cbn [c_inc c_exc]. rewrite andb_true_r. destruct keys as [|k0 ks]; [reflexivity|].
    unfold star_safe. apply forallb_forall. intros P HP. apply in_map_iff in HP. destruct HP as (e & <- & He).
    cbn [lit_pat p_excl p_str]. rewrite (Hlit e He). reflexivity. }
  rewrite (prune_unobservable_proof pmatch id_map Hsem c Hsafe view Hwfw).
  rewrite (filter_walk_reference_proof pmatch id_map c view Hwfw).
  rewrite (reference_nomap_flat_proof (keep_incr pmatch c) view Hwft).
  destruct (lookup_walked x view [] n Hwf' Hn) as (e & He & Hp). cbn [child_path] in Hp.
  unfold flat_reference. rewrite map_map. apply in_map_iff. exists e. split; [exact Hp|].
  apply filter_In. split; [exact He|]. unfold selected_or_above. rewrite Hp. apply orb_true_iff. left.
  (* the incremental verdict *)
  pose proof (lookup_okc x view n Hwf' Hn) as Hokx.
  unfold keep_incr, c. cbn [c_inc c_exc]. rewrite andb_true_r.
  destruct Hcov as [->|(cs & z & Hin & Hne & Hpcn & ->)]; [reflexivity|].
  destruct keys as [|k0 ks] eqn:Ek; [destruct Hin|]. rewrite <- Ek in *.
  rewrite (pcomps_joinc (cs ++ z) (or_intror Hokx)). unfold incr_path.
  apply (incr_chain_hit pmatch (map lit_pat keys) cs).
  - unfold inc_only. apply Forall_forall. intros P HP. apply in_map_iff in HP. destruct HP as (e0 & <- & _). reflexivity.
  - exact Hne.
  - exists (lit_pat (joinc cs)). split; [apply in_map; exact Hin|]. cbn [lit_pat p_str].
    destruct Hsem as (Hl & _). rewrite (Hl _ _ (Hlit _ Hin)). apply bytes_eqb_refl.
Qed.

Theorem transfer_resolves_same_partial_proof : forall (fuel : nat) (follow : option (list bytes)),
  follow_links_opt gmatch view fuel reqs = Ok follow ->
  no_revisit gmatch view fuel reqs = true ->
  lexical_safe view reqs = true ->
  exists c, follow_cfg follow = Some c /\
    forall r o x, In r reqs -> In o (chroot_resolve_all gmatch view r) -> needed o x ->
      In (joinc x) (map st_path (filter_walk pmatch id_map c view)).
Proof.
  intros fuel follow Hres Hnr Hls.
  pose proof (wf_view_forallb view Hwf) as Hwf'.
  (* closure *)
  assert (Hclosed : closed_b gmatch view (match follow with None => true | _ => false end)
                             (match follow with Some l => l | None => [] end) reqs = true).
  { apply (result_closed_general gmatch view reqs fuel); auto.
    - destruct follow; exact Hres.
    - intros r Hr. apply abl_all. apply norm_clamp_forall. apply Forall_forall. intros c Hc.
      apply pool_elit. unfold comp_pool. apply in_or_app. left. apply in_flat_map. eauto.
    - intros l Hl. apply Forall_forall. intros c Hc. apply pool_elit. unfold comp_pool.
      apply in_or_app. right. apply in_flat_map. eauto. }
  (* what is needed exists in the tree *)
  assert (Hvalid : forall r o x, In o (chroot_resolve_all gmatch view r) -> needed o x -> valid view x).
  { intros r o x Ho Hx. rewrite chroot_resolve_all_eqW in Ho.
    destruct (cresolve_valid gmatch view 40 _ [] [] o (or_introl eq_refl) (Forall_nil _) Ho) as [V1 V2].
    destruct Hx as [Hx|[Hx Hne]]; [rewrite Forall_forall in V1; auto|].
    destruct (V2 x Hx) as [->|Hv]; [congruence|exact Hv]. }
  unfold follow_links_opt in Hres. destruct (follow_state gmatch view fuel reqs) as [F|] eqn:EF; [|discriminate].
  inversion Hres as [Hfin]. clear Hres. subst follow.
  destruct (final_state_shape gmatch view reqs fuel F EF) as (_ & HK).
  destruct (finish F) as [res|] eqn:Efin; cbv beta iota in Hclosed.
  - (* a list of keys *)
    assert (Hkeys : Forall (fun e => exists cs, cs <> [] /\ PCN view reqs cs /\ e = joinc cs) res).
    { apply Forall_forall. intros e He. pose proof (finish_subset F res Efin e He) as HeR.
      destruct (HK e HeR) as [->|(cs & Hne & Hp & ->)]; [|eauto].
      exfalso. assert (Hn : finish F = None) by (apply finish_none_iff; exact HeR). congruence. }
    assert (Hnorm : normalize res = Some (map lit_pat res)).
    { apply normalize_plain. eapply Forall_impl; [|exact Hkeys]. intros e (cs & Hne & Hp & ->).
      exists cs. split; [exact Hne|]. split; [apply PCN_plainc; exact Hp|reflexivity]. }
    eexists. split.
    { unfold follow_cfg, follow_includes, mk_cfg.
      rewrite (side_normalized res _ Hnorm). cbn [side]. reflexivity. }
    intros r o x Hr Ho Hx.
    apply (walk_contains res); [exact Hkeys|destruct res; reflexivity|apply (Hvalid r o x Ho Hx)|].
    right.
    unfold closed_b in Hclosed. rewrite forallb_forall in Hclosed. specialize (Hclosed r Hr).
    rewrite forallb_forall in Hclosed. specialize (Hclosed o Ho). unfold closed_for in Hclosed.
    apply andb_true_iff in Hclosed. destruct Hclosed as [C1 C2].
    assert (Hcov : covered gmatch res x = true).
    { destruct Hx as [Hx|[Hx Hne]]; [rewrite forallb_forall in C1; auto|].
      rewrite Hx in C2. destruct x; [congruence|exact C2]. }
    unfold covered in Hcov. apply existsb_exists in Hcov. destruct Hcov as (e & He & Hpp).
    rewrite Forall_forall in Hkeys. destruct (Hkeys e He) as (cs & Hne & Hp & ->).
    rewrite (comps_joinc cs Hne (PCN_nosep view reqs cs Hp)) in Hpp.
    destruct (pat_prefix_lit_inv gmatch cs) with (2 := Hpp) as [z ->].
    { intros c Hc. unfold PCN in Hp. rewrite Forall_forall in Hp. destruct (Hp c Hc) as [Hcp _].
      pose proof (pool_plain c Hcp) as Hpl. unfold plain_comp in Hpl. rewrite !andb_true_iff in Hpl.
      destruct Hpl as [[Hpl _] _]. apply negb_true_iff in Hpl. apply contains_wildcards_plain. exact Hpl. }
    exists cs, z. auto.
  - (* nil: no filter *)
    eexists. split; [reflexivity|]. intros r o x Hr Ho Hx.
    apply (walk_contains []); [constructor|reflexivity|apply (Hvalid r o x Ho Hx)|left; reflexivity].
Qed.

End Transfer.
