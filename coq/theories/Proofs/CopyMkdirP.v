(* C13 / C15 — argument resolution (continuity fs.RootPath restricted to symlink-free paths)
   and MkdirAll against their specifications [spec_resolve] and [make_dirs]. *)
From Coq Require Import List NArith Bool Lia ZifyN ZifyNat ZifyBool.
From FS Require Import Sx Model.Path Model.SymMode Model.Copier Model.CopySpec Proofs.Lex
  Proofs.CopierP Proofs.CopyOpsP Proofs.CopyDentP Proofs.CopyLinkP.
Import ListNotations.
Open Scope N_scope.
Open Scope bool_scope.

Definition xerr_of (e : err) : xerr := match e with EScope => XScope | _ => XOther 4 end.

Section Mk.
  Variable o : copts.
  Variable ms : option (list bitcmd).
  Variable multi : N -> bool.
  Variable sdof : N -> dent.
  Variable S : Prop.
  Notation Lk := (Lk o ms multi sdof S).
  Notation Inv := (Inv o).
  Notation touch := (touch o).

  Lemma dm_is_lnk d e : dm o d e -> is_lnk d = is_lnk (x_d e).
  Proof. intro H. apply is_lnk_ftype, (dm_ftype _ _ _ H). Qed.

  (* ---- fs.RootPath ---- *)
  Definition map_res (a : list (list N) + err) : list (list N) + xerr :=
    match a with inl q => inl q | inr e => inr (xerr_of e) end.

  Definition rp_step (fs : fsys) (acc : list (list N) + err) (c : list N) : list (list N) + err :=
    match acc with
    | inr e => inr e
    | inl stk =>
      let stk' := lex_step stk c in
      match stk' with
      | [] => inl stk'
      | _ =>
        match lstat fs (parent stk') with
        | Some pd =>
          if is_dir pd then
            match lstat fs stk' with
            | Some d => if is_lnk d then inr EScope else inl stk'
            | None => inl stk'
            end
          else inr (if is_lnk pd then EScope else EOther)
        | None => inl stk'
        end
      end
    end.
  Lemma root_path_fold fs p : root_path fs p = fold_left (rp_step fs) (comps p) (inl []).
  Proof. reflexivity. Qed.

  Definition sr_step (V : xview) (acc : list (list N) + xerr) (c : list N) : list (list N) + xerr :=
    match acc with
    | inr e => inr e
    | inl stk =>
      let stk' := lex_step stk c in
      match stk' with
      | [] => inl stk'
      | _ => match V (parent stk') with
             | Some pe => if is_dir (x_d pe) then
                            (if (match V stk' with Some e => is_lnk (x_d e) | None => false end) then inr XScope else inl stk')
                          else inr (if is_lnk (x_d pe) then XScope else XOther 4)
             | None => inl stk'
             end
      end
    end.
  Lemma spec_resolve_fold V p : spec_resolve V p = fold_left (sr_step V) (comps p) (inl []).
  Proof. reflexivity. Qed.

  Lemma step_spec fs X acc c : Inv fs X -> sr_step X (map_res acc) c = map_res (rp_step fs acc c).
  Proof.
    intro I. destruct acc as [stk|e]; auto. cbn [map_res sr_step rp_step]. cbv zeta.
    destruct (lex_step stk c) as [|x stk'] eqn:E; auto.
    pose proof (inv_lstat _ _ _ (parent (x :: stk')) I) as H1.
    pose proof (inv_lstat _ _ _ (x :: stk') I) as H2.
    destruct (lstat fs (parent (x :: stk'))) as [pd|], (X (parent (x :: stk'))) as [pe|]; try contradiction; auto.
    rewrite <- (dm_is_dir _ _ _ H1), <- (dm_is_lnk _ _ H1).
    destruct (is_dir pd).
    - destruct (lstat fs (x :: stk')) as [d|], (X (x :: stk')) as [e|]; try contradiction; auto.
      rewrite <- (dm_is_lnk _ _ H2). destruct (is_lnk d); auto.
    - destruct (is_lnk pd); auto.
  Qed.

  Lemma root_path_spec fs X p : Inv fs X -> spec_resolve X p = map_res (root_path fs p).
  Proof.
    intro I. rewrite root_path_fold, spec_resolve_fold.
    change (@inl (list (list N)) xerr []) with (map_res (inl [])).
    generalize (@inl (list (list N)) err []) as acc. induction (comps p) as [|c l IH]; intro acc; auto.
    cbn [fold_left]. rewrite <- IH. f_equal. apply step_spec; auto.
  Qed.

  Definition notlnk (fs : fsys) (q : list (list N)) : Prop :=
    match lstat fs q with Some d => is_lnk d = false | None => True end.
  Definition pref_ok (fs : fsys) (stk : list (list N)) : Prop := forall r1 r2, stk = r1 ++ r2 -> notlnk fs r1.

  Lemma pref_ok_removelast fs stk : pref_ok fs stk -> pref_ok fs (removelast stk).
  Proof.
    intros H r1 r2 E. destruct stk as [|x s _] using rev_ind.
    - simpl in E. symmetry in E. apply app_eq_nil in E as [-> _]. apply (H [] []). auto.
    - rewrite removelast_last in E. apply (H r1 (r2 ++ [x])). rewrite E, app_assoc. auto.
  Qed.
  Lemma pref_ok_snoc fs stk c : pref_ok fs stk -> notlnk fs (stk ++ [c]) -> pref_ok fs (stk ++ [c]).
  Proof.
    intros H Hn r1 r2 E. destruct r2 as [|y r2 _] using rev_ind.
    - rewrite app_nil_r in E. subst r1. auto.
    - rewrite app_assoc in E. apply app_inj_tail in E as [E _]. eapply H; eauto.
  Qed.

  Lemma rp_step_ok fs X acc c : Inv fs X ->
    (forall stk, acc = inl stk -> pref_ok fs stk) ->
    forall stk', rp_step fs acc c = inl stk' -> pref_ok fs stk'.
  Proof.
    intros I Hacc stk'. destruct acc as [stk|e]; [|discriminate]. cbn [rp_step]. cbv zeta.
    specialize (Hacc stk eq_refl).
    assert (Hc : lex_step stk c = stk \/ lex_step stk c = removelast stk \/ lex_step stk c = stk ++ [c]).
    { unfold lex_step. destruct (_ || _); auto. destruct (bytes_eqb c s_dotdot); auto. }
    destruct Hc as [Hc|[Hc|Hc]]; rewrite Hc.
    - assert (forall x : list (list N) + err, x = inl stk' -> (x = inl stk \/ exists e, x = inr e) -> pref_ok fs stk') as G.
      { intros x -> [E|(e & E)]; inversion E; subst; auto. }
      destruct stk; [intro E; inversion E; subst; auto|].
      destruct (lstat fs (parent (l :: stk))) as [pd|]; [|intro E; inversion E; subst; auto].
      destruct (is_dir pd); [|discriminate].
      destruct (lstat fs (l :: stk)) as [d|]; [destruct (is_lnk d); [discriminate|]|]; intro E; inversion E; subst; auto.
    - pose proof (pref_ok_removelast _ _ Hacc) as Hr.
      destruct (removelast stk); [intro E; inversion E; subst; auto|].
      destruct (lstat fs (parent (l :: l0))) as [pd|]; [|intro E; inversion E; subst; auto].
      destruct (is_dir pd); [|discriminate].
      destruct (lstat fs (l :: l0)) as [d|]; [destruct (is_lnk d); [discriminate|]|]; intro E; inversion E; subst; auto.
    - assert (Hp : parent (stk ++ [c]) = stk) by apply parent_snoc.
      destruct (stk ++ [c]) as [|x s] eqn:Es; [exfalso; eapply snoc_ne_nil; eauto|].
      rewrite Hp. rewrite <- Es in *. clear Es.
      destruct (lstat fs stk) as [pd|] eqn:Ep.
      + destruct (is_dir pd); [|discriminate].
        destruct (lstat fs (stk ++ [c])) as [d|] eqn:El.
        * destruct (is_lnk d) eqn:Ed; [discriminate|]. intro E; inversion E; subst.
          apply pref_ok_snoc; auto. unfold notlnk. rewrite El. auto.
        * intro E; inversion E; subst. apply pref_ok_snoc; auto. unfold notlnk. rewrite El. auto.
      + intro E; inversion E; subst. apply pref_ok_snoc; auto. unfold notlnk, lstat.
        unfold lstat in Ep. destruct (names fs stk) eqn:En; [discriminate|].
        rewrite (none_below _ _ _ _ [c] I En). auto.
  Qed.

  Lemma root_path_not_lnk fs X p q : Inv fs X -> x_isdir (X []) = true ->
    root_path fs p = inl q -> notlnk fs q.
  Proof.
    intros I Hroot. rewrite root_path_fold.
    assert (J0 : forall stk, (@inl (list (list N)) err []) = inl stk -> pref_ok fs stk).
    { intros stk E. inversion E; subst. intros r1 r2 H. symmetry in H. apply app_eq_nil in H as [-> _].
      destruct (inv_x_isdir _ _ _ _ I Hroot) as (j & Hj & Hd). unfold notlnk, lstat. rewrite Hj.
      unfold is_lnk. unfold is_dir in Hd. apply N.eqb_eq in Hd. rewrite Hd. reflexivity. }
    revert J0. generalize (@inl (list (list N)) err []) as acc.
    induction (comps p) as [|c l IH]; intros acc Hacc; cbn [fold_left].
    - intros ->. apply (Hacc q eq_refl q []). rewrite app_nil_r. auto.
    - apply IH. intros stk. eapply rp_step_ok; eauto.
  Qed.

  Lemma root_path_err fs p e : root_path fs p = inr e -> e = EScope \/ e = EOther.
  Proof.
    rewrite root_path_fold.
    assert (J0 : forall e, (@inl (list (list N)) err []) = inr e -> e = EScope \/ e = EOther) by discriminate.
    revert J0. generalize (@inl (list (list N)) err []) as acc.
    induction (comps p) as [|c l IH]; intros acc Hacc; cbn [fold_left]; [apply Hacc|].
    apply IH. intros e1. destruct acc as [stk|e2]; [|apply Hacc]. cbn [rp_step]. cbv zeta.
    destruct (lex_step stk c); [discriminate|].
    destruct (lstat fs (parent (l0 :: l1))) as [pd|]; [|discriminate].
    destruct (is_dir pd).
    - destruct (lstat fs (l0 :: l1)) as [d|]; [|discriminate]. destruct (is_lnk d); [|discriminate].
      intro H; inversion H; auto.
    - destruct (is_lnk pd); intro H; inversion H; auto.
  Qed.
  (* ---- MkdirAll ---- *)
  Lemma mkdir_all_snoc p c st :
    mkdir_all o (p ++ [c]) st =
    match lstat (c_fs st) (p ++ [c]) with
    | Some d => if is_dir d then (st, None, []) else (st, Some (if is_lnk d then EScope else EOther), [])
    | None =>
      match mkdir_all o p st with
      | (st1, Some e, _) => (st1, Some e, [])
      | (st1, None, created) =>
        let perm := match o_mode o with Some m => m | None => 493 end in
        match k_mkdir (o_umask o) (p ++ [c]) (N.land perm 511) (c_fs st1) with
        | None => (st1, Some EOther, [])
        | Some fs1 =>
          let fs2 := match o_chown o with
                     | Some (u, g) => match upd_path (p ++ [c]) (set_owner u g) fs1 with Some f => f | None => fs1 end
                     | None => fs1 end in
          let fs3 := match o_utime o with
                     | Some t => match upd_path (p ++ [c]) (set_mtime t) fs2 with Some f => f | None => fs2 end
                     | None => fs2 end in
          (with_fs st1 fs3, None, created ++ [p ++ [c]])
        end
      end
    end.
  Proof.
    unfold mkdir_all. rewrite rev_app_distr. simpl rev at 1. simpl app. cbn [mkdir_all_rev].
    simpl rev. rewrite rev_involutive. reflexivity.
  Qed.

  Lemma mkdir_all_nil st : mkdir_all o [] st =
    match lstat (c_fs st) [] with
    | Some d => if is_dir d then (st, None, []) else (st, Some (if is_lnk d then EScope else EOther), [])
    | None => (st, Some EOther, [])
    end.
  Proof. reflexivity. Qed.

  Lemma made_dir_isdir p par : is_dir (x_d (made_dir o p par)) = true.
  Proof.
    unfold made_dir. destruct (match o_chown o with Some ug => ug | None => _ end) as [u g].
    cbn [x_d]. unfold is_dir, ftype. cbn [d_mode]. apply N.eqb_eq. apply ftype_mk; [reflexivity|].
    assert (E : N.land (andnot (N.land (match o_mode o with Some m => m | None => 493 end) 511) (o_umask o)) S_IFMT = 0).
    { unfold andnot. rewrite land_ldiff_comm, <- N.land_assoc. change (N.land 511 S_IFMT) with 0.
      rewrite N.land_0_r. apply N.ldiff_0_l. }
    destruct (has_sgid par); auto. rewrite land_lor_distr, E. reflexivity.
  Qed.

  Lemma make_dirs_nil pre V : make_dirs o pre [] V =
    match V pre with
    | None => inr (XOther 4)
    | Some e => if negb (is_dir (x_d e)) then inr (if is_lnk (x_d e) then XScope else XOther 4) else inl V
    end.
  Proof. reflexivity. Qed.
  Lemma make_dirs_cons pre c r V : make_dirs o pre (c :: r) V =
    match V pre with
    | None => inr (XOther 4)
    | Some e =>
      if negb (is_dir (x_d e)) then inr (if is_lnk (x_d e) then XScope else XOther 4) else
      match V (pre ++ [c]) with
      | Some _ => make_dirs o (pre ++ [c]) r V
      | None => make_dirs o (pre ++ [c]) r (xupd (pre ++ [c]) (Some (made_dir o (pre ++ [c]) (x_d e))) (touch pre V))
      end
    end.
  Proof. reflexivity. Qed.

  Lemma make_dirs_app r1 : forall pre r2 V,
    make_dirs o pre (r1 ++ r2) V =
    match make_dirs o pre r1 V with inr e => inr e | inl V1 => make_dirs o (pre ++ r1) r2 V1 end.
  Proof.
    induction r1 as [|c r1 IH]; intros pre r2 V.
    - rewrite app_nil_r, make_dirs_nil. simpl app. destruct (V pre) as [e|] eqn:E.
      + destruct (negb (is_dir (x_d e))) eqn:Ed; auto.
        destruct r2; [rewrite make_dirs_nil|rewrite make_dirs_cons]; rewrite E, Ed; auto.
      + destruct r2; [rewrite make_dirs_nil|rewrite make_dirs_cons]; rewrite E; auto.
    - simpl app. rewrite !make_dirs_cons. destruct (V pre) as [e|]; auto.
      destruct (negb (is_dir (x_d e))); auto.
      destruct (V (pre ++ [c])); rewrite IH, <- app_assoc; auto.
  Qed.

  Lemma make_dirs_final_dir r : forall pre V V1, make_dirs o pre r V = inl V1 -> x_isdir (V1 (pre ++ r)) = true.
  Proof.
    induction r as [|c r IH]; intros pre V V1.
    - rewrite make_dirs_nil, app_nil_r. destruct (V pre) as [e|] eqn:E; [|discriminate].
      destruct (is_dir (x_d e)) eqn:Ed; [|discriminate]. intro H. inversion H; subst. unfold x_isdir. rewrite E. auto.
    - rewrite make_dirs_cons. destruct (V pre) as [e|]; [|discriminate].
      destruct (negb (is_dir (x_d e))); [discriminate|].
      rewrite (app_snoc_assoc pre c r). destruct (V (pre ++ [c])); apply IH.
  Qed.

  Lemma make_dirs_frame r : forall pre V V1, make_dirs o pre r V = inl V1 ->
    forall q, (length q > length pre + length r)%nat -> V1 q = V q.
  Proof.
    induction r as [|c r IH]; intros pre V V1.
    - rewrite make_dirs_nil. destruct (V pre) as [e|]; [|discriminate].
      destruct (negb (is_dir (x_d e))); [discriminate|]. intro H; inversion H; auto.
    - rewrite make_dirs_cons. destruct (V pre) as [e|]; [|discriminate].
      destruct (negb (is_dir (x_d e))); [discriminate|].
      destruct (V (pre ++ [c])) eqn:En; intros H q Hq.
      + apply (IH _ _ _ H). rewrite app_length. simpl in *. lia.
      + rewrite (IH _ _ _ H) by (rewrite app_length; simpl in *; lia).
        rewrite xupd_other, touch_other; auto.
        * intro; subst. lia.
        * intro; subst. rewrite app_length in Hq. simpl in Hq. lia.
  Qed.

  Lemma all_prefix_dirs fs X pre r2 : forall r1, Inv fs X -> r2 <> [] ->
    X (pre ++ r1 ++ r2) <> None -> x_isdir (X (pre ++ r1)) = true.
  Proof.
    induction r2 as [|c r2 IH] using rev_ind; intros r1 I Hne Hx; [congruence|].
    destruct (X (pre ++ r1 ++ r2 ++ [c])) as [e|] eqn:E; [|congruence].
    destruct (inv_x_some _ _ _ _ _ I E) as (i & Hi & _).
    replace (pre ++ r1 ++ r2 ++ [c]) with ((pre ++ r1 ++ r2) ++ [c]) in Hi by (rewrite <- !app_assoc; auto).
    destruct (i_par _ _ _ I _ _ _ Hi) as (j & Hj & Hd).
    destruct (i_some _ _ _ I _ _ Hj) as (e' & E1 & E2 & _).
    destruct r2 as [|y r2'].
    - rewrite app_nil_r in E1. unfold x_isdir. rewrite E1, <- (dm_is_dir _ _ _ E2). auto.
    - apply IH; auto; [discriminate|]. rewrite E1. discriminate.
  Qed.

  Lemma make_dirs_existing fs X r : forall pre, Inv fs X ->
    (forall r1 r2, r = r1 ++ r2 -> x_isdir (X (pre ++ r1)) = true) ->
    make_dirs o pre r X = inl X.
  Proof.
    induction r as [|c r IH]; intros pre I H.
    - rewrite make_dirs_nil. specialize (H [] [] eq_refl). rewrite app_nil_r in H.
      unfold x_isdir in H. destruct (X pre) as [e|]; [|discriminate]. rewrite H. auto.
    - rewrite make_dirs_cons. pose proof (H [] (c :: r) eq_refl) as H0. rewrite app_nil_r in H0.
      unfold x_isdir in H0. destruct (X pre) as [e|]; [|discriminate]. rewrite H0. cbn [negb].
      pose proof (H [c] r eq_refl) as H1. unfold x_isdir in H1.
      destruct (X (pre ++ [c])) as [e1|]; [|discriminate].
      apply IH; auto. intros r1 r2 E. rewrite <- app_assoc. simpl. apply (H (c :: r1) r2). simpl. congruence.
  Qed.

  Definition same_rest (a b : cstate) : Prop :=
    c_imap a = c_imap b /\ c_notifs a = c_notifs b /\ c_split a = c_split b.
  Lemma same_rest_refl a : same_rest a a. Proof. repeat split. Qed.
  Lemma same_rest_trans a b c : same_rest a b -> same_rest b c -> same_rest a c.
  Proof. unfold same_rest. intuition congruence. Qed.
  Lemma same_rest_with_fs a fs : same_rest (with_fs a fs) a. Proof. repeat split. Qed.

  (* what MkdirAll reports as created, and what it leaves of the old view *)
  Definition mk_new (cr : list (list (list N))) (X' : xview) : Prop :=
    forall q, In q cr -> exists e, X' q = Some e /\ x_mk e = true /\ x_key e = KNew q /\ mkfacts o (x_d e).
  Definition mk_old (cr : list (list (list N))) (X X' : xview) : Prop :=
    forall q e, X' q = Some e -> In q cr \/
      exists e0, X q = Some e0 /\ x_d e0 = x_d e /\ x_key e0 = x_key e /\ x_mk e0 = x_mk e.

  Lemma made_dir_facts p par :
    x_mk (made_dir o p par) = true /\ x_key (made_dir o p par) = KNew p /\ mkfacts o (x_d (made_dir o p par)).
  Proof.
    unfold made_dir, mkfacts. destruct (o_chown o) as [[u g]|];
    cbn [x_mk x_key x_d d_mtime d_uid d_gid]; (split; [auto|split; [auto|split]]).
    - intros t ->. auto.
    - intros u' g' H. inversion H; auto.
    - intros t ->. auto.
    - discriminate.
  Qed.

  Lemma dm_made_dir fs1 T par pd i :
    d_mode pd = d_mode par -> d_gid pd = d_gid par ->
    let perm := match o_mode o with Some m => m | None => 493 end in
    let d0 := new_dent (o_umask o) pd S_IFDIR (N.land (N.land perm 511) 1023) 0 [] [] in
    inodes fs1 i = d0 -> names fs1 T = Some i ->
    let fs2 := match o_chown o with
               | Some (u, g) => match upd_path T (set_owner u g) fs1 with Some f => f | None => fs1 end
               | None => fs1 end in
    let fs3 := match o_utime o with
               | Some t => match upd_path T (set_mtime t) fs2 with Some f => f | None => fs2 end
               | None => fs2 end in
    exists f, fs_eqv fs3 (upd_inode i f fs1) /\ ftype (f d0) = ftype d0 /\ dm o (f d0) (made_dir o T par).
  Proof.
    intros Hm Hg perm d0 Hi Hn fs2 fs3.
    set (f1 := fun d => match o_chown o with Some (u, g) => set_owner u g d | None => d end).
    set (f2 := fun d => match o_utime o with Some t => set_mtime t d | None => d end).
    exists (fun d => f2 (f1 d)). split; [|split].
    - unfold fs3, fs2, f1, f2. destruct (o_chown o) as [[u g]|], (o_utime o) as [t|];
        try rewrite (upd_path_some fs1 T i (set_owner u g) Hn);
        repeat (rewrite (upd_path_some _ _ i) by (simpl; auto));
        (split; simpl; auto; try (intro j; destruct (N.eqb j i); auto)).
    - unfold f1, f2. destruct (o_chown o) as [[u g]|], (o_utime o) as [t|]; reflexivity.
    - assert (Hs : has_sgid pd = has_sgid par) by (unfold has_sgid; rewrite Hm; auto).
      assert (Ep : N.land (N.land (N.land perm 511) 1023) allBits = N.land perm 511).
      { rewrite <- !N.land_assoc. reflexivity. }
      unfold dm, made_dir, f1, f2, d0, new_dent, eff_known, utset. rewrite Ep, Hs, Hg. fold perm.
      change (N.eqb S_IFDIR S_IFDIR) with true. cbn [andb].
      destruct (o_chown o) as [[u g]|], (o_utime o) as [t|];
        cbn [x_d x_known x_mk set_owner set_mtime d_mode d_uid d_gid d_mtime d_rdev d_target d_xattrs d_content andb negb];
        repeat split; auto; discriminate.
  Qed.

  Lemma mkdir_all_spec p : forall st X, Inv (c_fs st) X -> Lk (c_fs st) X (c_imap st) -> x_isdir (X []) = true ->
    match make_dirs o [] p X with
    | inl X' => exists st' cr, mkdir_all o p st = (st', None, cr) /\ Inv (c_fs st') X' /\ same_rest st' st /\
                               mk_new cr X' /\ mk_old cr X X' /\ Lk (c_fs st') X' (c_imap st')
    | inr xe => exists st' e, mkdir_all o p st = (st', Some e, []) /\ xerr_of e = xe /\ (e = EScope \/ e = EOther) /\
                              same_rest st' st /\ exists X', Inv (c_fs st') X' /\ Lk (c_fs st') X' (c_imap st')
    end.
  Proof.
    induction p as [|c p IH] using rev_ind; intros st X I L Hroot.
    - rewrite make_dirs_nil, mkdir_all_nil. pose proof (inv_lstat _ _ _ [] I) as HL.
      unfold x_isdir in Hroot. destruct (X []) as [e|]; [|discriminate].
      destruct (lstat (c_fs st) []) as [d|]; [|contradiction].
      rewrite (dm_is_dir _ _ _ HL), Hroot. cbn [negb].
      exists st, []. split; [auto|split; [auto|split; [apply same_rest_refl|split; [|split; auto]]]].
      + intros q [].
      + intros q e0 H. right. exists e0. auto.
    - rewrite mkdir_all_snoc, make_dirs_app. simpl app.
      pose proof (inv_lstat _ _ _ (p ++ [c]) I) as HL.
      destruct (lstat (c_fs st) (p ++ [c])) as [d|] eqn:ELs.
      + (* exists already *)
        destruct (X (p ++ [c])) as [e|] eqn:EX; [|contradiction].
        assert (Hpre : forall r1 r2, p = r1 ++ r2 -> x_isdir (X ([] ++ r1)) = true).
        { intros r1 r2 ->. apply (all_prefix_dirs _ _ [] (r2 ++ [c]) r1 I).
          - destruct r2; discriminate.
          - simpl. rewrite app_assoc, EX. discriminate. }
        rewrite (make_dirs_existing _ _ _ _ I Hpre), make_dirs_cons.
        pose proof (Hpre p [] (eq_sym (app_nil_r p))) as Hp. simpl in Hp. unfold x_isdir in Hp.
        destruct (X p) as [ep|]; [|discriminate]. rewrite Hp. cbn [negb]. simpl app. rewrite EX, make_dirs_nil, EX.
        rewrite (dm_is_dir _ _ _ HL), (dm_is_lnk _ _ HL).
        destruct (is_dir (x_d e)); cbn [negb].
        * exists st, []. split; [auto|split; [auto|split; [apply same_rest_refl|split; [|split; auto]]]].
          -- intros q [].
          -- intros q e0 H. right. exists e0. auto.
        * exists st, (if is_lnk (x_d e) then EScope else EOther).
          split; auto. split; [destruct (is_lnk (x_d e)); auto|]. split; [destruct (is_lnk (x_d e)); auto|].
          split; [apply same_rest_refl|eauto].
      + (* create after the parent *)
        destruct (X (p ++ [c])) as [e|] eqn:EX; [contradiction|].
        specialize (IH st X I L Hroot).
        destruct (make_dirs o [] p X) as [X1|xe] eqn:EM.
        * destruct IH as (st1 & cr & E1 & I1 & R1 & N1 & O1 & L1). rewrite E1. simpl app.
          pose proof (make_dirs_final_dir p [] X X1 EM) as Hfd. simpl in Hfd.
          assert (HT1 : X1 (p ++ [c]) = None).
          { rewrite (make_dirs_frame _ _ _ _ EM); auto. rewrite app_length. simpl. lia. }
          rewrite make_dirs_cons. unfold x_isdir in Hfd. destruct (X1 p) as [ep|] eqn:Ep; [|discriminate].
          rewrite Hfd. cbn [negb]. rewrite HT1, make_dirs_nil, xupd_same, made_dir_isdir. cbn [negb].
          set (T := p ++ [c]) in *.
          assert (Hfd' : x_isdir (X1 p) = true) by (unfold x_isdir; rewrite Ep; auto).
          cbv zeta. unfold k_mkdir.
          destruct (inv_k_new o _ _ p c (o_umask o) S_IFDIR
                      (N.land (N.land (match o_mode o with Some m => m | None => 493 end) 511) 1023) 0 [] [] I1 HT1 Hfd')
            as (fs1 & j & E2 & Hj & Hjd & Hn2 & Hi2 & Hu2 & Hf2 & I2).
          fold T in E2, Hn2, Hu2, Hf2, I2. rewrite E2.
          destruct (i_some _ _ _ I1 _ _ Hj) as (ep' & Ep' & Hmp & _). rewrite Ep in Ep'. inversion Ep'; subst ep'.
          destruct Hmp as (Hm1 & _ & Hm3 & _).
          destruct (dm_made_dir fs1 T (x_d ep) (inodes (c_fs st1) j) (next (c_fs st1)) Hm1 Hm3 Hi2 Hn2)
            as (f & Q1 & Q2 & Q3).
          eexists. exists (cr ++ [T]). split; [reflexivity|]. cbn [with_fs c_fs].
          set (md := made_dir o T (x_d ep)) in *.
          destruct (made_dir_facts T (x_d ep)) as (F1 & F2 & F3). fold md in F1, F2, F3.
          set (d0 := new_dent (o_umask o) (inodes (c_fs st1) j) S_IFDIR
                       (N.land (N.land (match o_mode o with Some m => m | None => 493 end) 511) 1023) 0 [] []) in *.
          specialize (I2 (xex d0 (KNew T) false) (dm_xex _ _ _ _) (or_introl eq_refl)).
          assert (EVx : forall q, xupd T (Some md) (touch p X1) q = xupd T (Some md) (xupd T (Some (xex d0 (KNew T) false)) (touch p X1)) q).
          { intro q. unfold xupd. destruct (path_eqb q T); auto. }
          split; [|split; [|split; [|split]]].
          5:{ cbn [with_fs c_imap].
              eapply Lk_names_ext; [intro q; rewrite (fe_names _ _ Q1); reflexivity|].
              eapply Lk_ext; [exact EVx|].
              eapply (Lk_upd o ms multi sdof S fs1 _ _ _ T (xex d0 (KNew T) false) md).
              - eapply (Lk_new o ms multi sdof S (c_fs st1)); eauto.
              - reflexivity.
              - apply xupd_same.
              - discriminate.
              - rewrite F2. discriminate. }
          -- eapply Inv_fs_ext; [apply fs_eqv_sym; exact Q1|].
             eapply Inv_ext; [exact EVx|eapply (inv_upd1 o fs1 _ T _ f (xex d0 (KNew T) false) md I2 Hn2 Hu2)].
             ++ apply xupd_same.
             ++ rewrite Hi2. auto.
             ++ rewrite Hi2. auto.
             ++ auto.
          -- eapply same_rest_trans; [apply same_rest_with_fs|auto].
          -- intros q Hq. apply in_app_or in Hq. destruct Hq as [Hq|[<-|[]]].
             ++ destruct (N1 q Hq) as (e1 & A1 & A2 & A3 & A4).
                assert (q <> T) by (intro; subst; congruence). rewrite xupd_other by auto.
                destruct (path_dec q p) as [->|Hqp].
                ** rewrite touch_same, A1. simpl. exists (touched o e1).
                   rewrite touched_mk, touched_key, touched_d. auto.
                ** rewrite touch_other by auto. eauto.
             ++ rewrite xupd_same. exists md. auto.
          -- intros q e1 Hq. destruct (path_dec q T) as [->|HqT]; [left; apply in_or_app; right; left; auto|].
             rewrite xupd_other in Hq by auto.
             assert (exists e2, X1 q = Some e2 /\ x_d e2 = x_d e1 /\ x_key e2 = x_key e1 /\ x_mk e2 = x_mk e1) as (e2 & B1 & B2 & B3 & B4).
             { destruct (path_dec q p) as [->|Hqp].
               - rewrite touch_same, Ep in Hq. simpl in Hq. inversion Hq; subst. exists ep.
                 rewrite touched_mk, touched_key, touched_d. auto.
               - rewrite touch_other in Hq by auto. eauto. }
             destruct (O1 q e2 B1) as [Hin|(e0 & C1 & C2 & C3 & C4)].
             ++ left. apply in_or_app. auto.
             ++ right. exists e0. repeat split; congruence.
        * destruct IH as (st1 & e & E1 & Hx & He & R1 & HX). rewrite E1. exists st1, e. auto.
  Qed.
End Mk.
