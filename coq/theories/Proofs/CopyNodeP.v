(* C13 / C15 — copier.copy / copyDirectory against the overlay rules: a successful run of
   [copy_node] on a state that matches an expected view X leaves a state that matches the
   overlay of the source node over X (Model/CopySpec.v [overlay_at]), with the notifications
   of [node_notifs].  Sources without multiply-linked files ([multi] all-false). *)
From Coq Require Import List NArith Bool Lia ZifyN ZifyNat ZifyBool.
From FS Require Import Sx Model.Path Model.SymMode Model.Copier Model.CopySpec Proofs.Lex
  Proofs.CopierP Proofs.CopyOpsP Proofs.CopyDentP Proofs.CopyLinkP.
Import ListNotations.
Open Scope N_scope.
Open Scope bool_scope.

Lemma path_tri (T q : list (list N)) : q = T \/ (exists a r, q = T ++ a :: r) \/ strip_prefix T q = None.
Proof.
  destruct (path_cases T q) as [(r & ->)|H]; auto.
  destruct r; [left; apply app_nil_r|right; left; eauto].
Qed.
Lemma strip_self (T : list (list N)) : strip_prefix T T = Some [].
Proof. apply strip_prefix_some. rewrite app_nil_r; auto. Qed.
Lemma unrel_ne T q : strip_prefix T q = None -> q <> T.
Proof. intros H E. subst. rewrite strip_self in H. discriminate. Qed.
Lemma below_ne (T : list (list N)) a r : T ++ a :: r <> T.
Proof. apply snoc_ne_self. Qed.
Lemma below_ne_parent (P : list (list N)) a b r : (P ++ [a]) ++ b :: r <> P.
Proof. rewrite <- app_assoc. apply snoc_ne_self. Qed.
Lemma snoc_ne_parent (P : list (list N)) a : P ++ [a] <> P.
Proof. apply snoc_ne_self. Qed.
Lemma parent_unrel (P : list (list N)) a : strip_prefix (P ++ [a]) P = None.
Proof. apply strip_snoc_self. Qed.

Section Node.
  Variable o : copts.
  Variable ms : option (list bitcmd).
  Variable multi : N -> bool.
  Variable selected : list (list N) -> bool.
  Hypothesis Hsel : forall p, selected p = true.
  Variable sdof : N -> dent.
  Variable S : Prop.              (* exact-partition mode, see CopyLinkP.v *)
  Notation Inv := (Inv o).
  Notation Lk := (Lk o ms multi sdof S).
  Notation touch := (touch o).
  Notation copied := (copied o ms multi).
  Notation new_entry := (new_entry o ms multi).

  (* ---- the model, unfolded one level ---- *)
  Definition kids_loop (sc target : list (list N)) : list snode -> cstate -> R :=
    fix kids_loop (l : list snode) (s : cstate) {struct l} : R :=
    match l with
    | [] => ok s
    | k :: r => s' <~ copy_node o ms multi selected k (sc ++ [sname k]) (target ++ [sname k]) true s ;; kids_loop r s'
    end.
  Lemma kids_loop_cons sc target k r s : kids_loop sc target (k :: r) s =
    (s' <~ copy_node o ms multi selected k (sc ++ [sname k]) (target ++ [sname k]) true s ;; kids_loop sc target r s').
  Proof. reflexivity. Qed.

  Lemma copy_node_eq nm ino sd kids sc target ow st :
    copy_node o ms multi selected (SNode nm ino sd kids) sc target ow st =
      let tfi := lstat (c_fs st) target in
      let include := match sc with [] => true | _ => selected sc end in
      st1 <~ (if include then remove_target_if_needed o target sd tfi st else ok st) ;;
      if is_dir sd then
        match (if include then copy_dir_only o target sd ow st1 else (st1, None, false)) with
        | (st2, Some e, _) => (st2, Some e)
        | (st2, None, created) =>
          let st3 := if include && (created || ow) then notify target true st2 else st2 in
          st4 <~ kids_loop sc target kids st3 ;;
          let cfi := if ow then include else created in
          let restore := if ow then false else negb created in
          if cfi then (s5 <~ copy_file_info o ms sd target st4 ;; copy_xattrs sd target s5)
          else if restore && (match tfi with Some _ => true | None => false end)
               then copy_file_timestamp o sd target st4
          else ok st4
        end
      else if negb include then ok st1
      else
        st2 <~ ensure_empty_file_target target
                 (match tfi with Some _ => forget target st1 | None => st1 end) ;;
        st3 <~ (if is_reg sd then copy_regular o multi ino sd target st2
                else if is_lnk sd then sys (k_symlink target (d_target sd) (c_fs st2)) st2
                else copy_device o sd target st2) ;;
        st4 <~ copy_file_info o ms sd target st3 ;;
        st5 <~ copy_xattrs sd target st4 ;;
        ok (notify target false st5).
  Proof. reflexivity. Qed.

  Lemma include_true sc : match sc with [] => true | _ => selected sc end = true.
  Proof. destruct sc; auto. Qed.

  (* ---- the specification, with the "named by the call" flag as a parameter ---- *)
  Definition ov (n : snode) (T : list (list N)) (tp : bool) (X : xview) : xview := fun p =>
    match strip_prefix T p with
    | None => X p
    | Some r =>
      match s_lookup n r with
      | Some s => Some (copied s (X p) (tp && match r with [] => true | _ => false end) p)
      | None => if shadowed n r then None else X p
      end
    end.
  Lemma overlay_at_ov n L V p : overlay_at o ms multi n L V p = ov n L true V p.
  Proof. reflexivity. Qed.

  Definition ovk (l : list snode) (T : list (list N)) (X : xview) : xview := fun p =>
    match strip_prefix T p with
    | Some (a :: r) => match find_kid a l with Some k => ov k (T ++ [a]) false X p | None => X p end
    | _ => X p
    end.

  Definition res (n : snode) (T : list (list N)) (tp : bool) (X : xview) : xview :=
    if is_dir (sdent n) && x_isdir (X T) then ov n T tp X else touch (parent T) (ov n T tp X).

  Lemma ov_at_T n T tp X : ov n T tp X T = Some (copied n (X T) tp T).
  Proof. unfold ov. rewrite strip_self. simpl. rewrite andb_true_r. auto. Qed.
  Lemma ov_unrel n T tp X q : strip_prefix T q = None -> ov n T tp X q = X q.
  Proof. unfold ov. intros ->. auto. Qed.
  Lemma ov_ext n T tp X X' q : X q = X' q -> ov n T tp X q = ov n T tp X' q.
  Proof. unfold ov. intros ->. auto. Qed.
  Lemma ov_below_dir nm ino sd kids T tp X a r : is_dir sd = true ->
    ov (SNode nm ino sd kids) T tp X (T ++ a :: r) =
    match find_kid a kids with Some k => ov k (T ++ [a]) false X (T ++ a :: r) | None => X (T ++ a :: r) end.
  Proof.
    intro Hd. unfold ov at 1. rewrite strip_prefix_app. cbn [s_lookup skids shadowed sdent]. rewrite Hd. cbn [negb].
    destruct (find_kid a kids) as [k|] eqn:E; auto.
    unfold ov. rewrite strip_snoc_below, bytes_eqb_refl, andb_false_r. cbn [andb]. auto.
  Qed.
  Lemma ov_below_file nm ino sd T tp X a r : is_dir sd = false ->
    ov (SNode nm ino sd []) T tp X (T ++ a :: r) = None.
  Proof.
    intro Hd. unfold ov. rewrite strip_prefix_app. cbn [s_lookup skids find_kid shadowed sdent]. rewrite Hd. auto.
  Qed.

  Lemma touch_ext P Y Y' q : Y P = Y' P -> Y q = Y' q -> touch P Y q = touch P Y' q.
  Proof.
    intros H1 H2. destruct (path_dec q P) as [->|H].
    - rewrite !touch_same, H1. auto.
    - rewrite !touch_other; auto.
  Qed.
  Lemma xrm_unrel T Y q : strip_prefix T q = None -> xrm T Y q = Y q.
  Proof. intro H. unfold xrm. rewrite is_prefix_strip, H. auto. Qed.
  Lemma xrm_self T Y : xrm T Y T = None.
  Proof. unfold xrm. rewrite is_prefix_strip, strip_self. auto. Qed.
  Lemma xrm_below T Y r : xrm T Y (T ++ r) = None.
  Proof. unfold xrm. rewrite is_prefix_app. auto. Qed.

  (* ---- conflicts ---- *)
  Definition nc (X : xview) (T : list (list N)) (n : snode) : Prop :=
    o_replace o = false -> first_conflict X T n = None.

  Lemma first_conflict_ext V V' : forall n p, (forall r, V (p ++ r) = V' (p ++ r)) ->
    first_conflict V p n = first_conflict V' p n.
  Proof.
    induction n as [nm ino sd kids IH] using snode_ind2. intros p H. cbn [first_conflict].
    assert (E0 : V p = V' p) by (specialize (H []); rewrite app_nil_r in H; auto).
    rewrite E0. destruct (V' p) as [e|]; auto.
    destruct (is_dir sd && negb (is_dir (x_d e))); auto. destruct (negb (is_dir sd) && is_dir (x_d e)); auto.
    destruct (is_dir sd); auto.
    induction kids as [|k r IHr]; auto. inversion IH as [|? ? Hk Hr]; subst.
    rewrite (Hk (p ++ [sname k])); [|intro r0; rewrite <- !app_assoc; apply H].
    destruct (first_conflict V' (p ++ [sname k]) k); auto.
  Qed.

  Lemma first_conflict_dir V p nm ino sd kids e :
    first_conflict V p (SNode nm ino sd kids) = None -> V p = Some e -> is_dir sd = true ->
    is_dir (x_d e) = true /\ forall k, In k kids -> first_conflict V (p ++ [sname k]) k = None.
  Proof.
    cbn [first_conflict]. intros H He Hd. rewrite He, Hd in H. cbn [andb negb] in H.
    destruct (is_dir (x_d e)); [|discriminate]. split; auto. cbn [negb] in H.
    induction kids as [|k r IH]; intros k' Hin; [destruct Hin|].
    destruct (first_conflict V (p ++ [sname k]) k) eqn:E; [discriminate|].
    destruct Hin as [<-|Hin]; auto.
  Qed.

  Lemma first_conflict_file V p nm ino sd kids e :
    first_conflict V p (SNode nm ino sd kids) = None -> V p = Some e -> is_dir sd = false ->
    is_dir (x_d e) = false.
  Proof.
    cbn [first_conflict]. intros H He Hd. rewrite He, Hd in H. cbn [andb negb] in H.
    destruct (is_dir (x_d e)); [discriminate|auto].
  Qed.

  Lemma node_notifs_nontop V V' : forall n p, node_notifs V false p n = node_notifs V' false p n.
  Proof.
    induction n as [nm ino sd kids IH] using snode_ind2. intros p. cbn [node_notifs andb].
    destruct (is_dir sd); auto. f_equal.
    induction kids as [|k r IHr]; auto. inversion IH; subst. f_equal; auto.
  Qed.

  Fixpoint kids_notifs (V : xview) (T : list (list N)) (l : list snode) : list (list (list N) * bool) :=
    match l with [] => [] | k :: r => node_notifs V false (T ++ [sname k]) k ++ kids_notifs V T r end.
  Lemma node_notifs_dir V tp T nm ino sd kids : is_dir sd = true ->
    node_notifs V tp T (SNode nm ino sd kids) =
    (if tp && x_isdir (V T) then [] else [(T, true)]) ++ kids_notifs V T kids.
  Proof.
    intro Hd. cbn [node_notifs]. rewrite Hd. f_equal. induction kids; simpl; auto. f_equal; auto.
  Qed.
  Lemma kids_notifs_ext V V' T l : kids_notifs V T l = kids_notifs V' T l.
  Proof. induction l; simpl; auto. f_equal; auto. apply node_notifs_nontop. Qed.

  (* ---- the statement for one node ---- *)
  Definition tok (X : xview) (T : list (list N)) (sd : dent) : Prop :=
    (T = [] /\ is_dir sd = true /\ x_isdir (X []) = true) \/
    (exists P a, T = P ++ [a] /\ x_isdir (X P) = true).

  Definition node_ok (n : snode) : Prop :=
    forall sc T ow st X, Inv (c_fs st) X -> Lk (c_fs st) X (c_imap st) -> (S -> PC T (c_imap st)) ->
      tok X T (sdent n) -> nc X T n ->
    exists st', copy_node o ms multi selected n sc T ow st = (st', None) /\
                Inv (c_fs st') (res n T (negb ow) X) /\
                Lk (c_fs st') (res n T (negb ow) X) (c_imap st') /\
                IM (c_imap st) (c_imap st') T /\
                c_notifs st' = rev (node_notifs X (negb ow) T n) ++ c_notifs st.

  (* every multiply-linked regular file of the tree carries the dentry [sdof] gives for its inode *)
  Fixpoint cons_s (n : snode) {struct n} : Prop :=
    match n with
    | SNode _ ino d kids =>
      (is_reg d = true -> multi ino = true -> d = sdof ino) /\
      (fix all (l : list snode) : Prop := match l with [] => True | k :: r => cons_s k /\ all r end) kids
    end.
  Lemma cons_s_unfold nm ino d kids :
    cons_s (SNode nm ino d kids) <-> (is_reg d = true -> multi ino = true -> d = sdof ino) /\ Forall cons_s kids.
  Proof.
    simpl. assert (E : forall l, (fix all (l : list snode) : Prop := match l with [] => True | k :: r => cons_s k /\ all r end) l <-> Forall cons_s l).
    { induction l as [|k r IH]; split; intro H; auto.
      - destruct H. constructor; auto. apply IH; auto.
      - inversion H; subst. split; auto. apply IH; auto. }
    rewrite E. tauto.
  Qed.

  Lemma IM_refl im T : IM im im T.
  Proof. intros s l i H. auto. Qed.

  (* ---- removeTargetIfNeeded ---- *)
  Lemma forget_fs T st : c_fs (forget T st) = c_fs st. Proof. reflexivity. Qed.
  Lemma forget_imap T st : c_imap (forget T st) = imap_forget T (c_imap st). Proof. reflexivity. Qed.
  Lemma forget_notifs T st : c_notifs (forget T st) = c_notifs st. Proof. reflexivity. Qed.

  Lemma step_remove sd P a st X :
    Inv (c_fs st) X -> Lk (c_fs st) X (c_imap st) -> (S -> PC (P ++ [a]) (c_imap st)) -> x_isdir (X P) = true ->
    let T := P ++ [a] in
    let removed := o_replace o && match X T with Some e => negb (is_dir sd && is_dir (x_d e)) | None => false end in
    exists st1, remove_target_if_needed o T sd (lstat (c_fs st) T) st = (st1, None) /\
                Inv (c_fs st1) (if removed then touch P (xrm T X) else X) /\
                Lk (c_fs st1) (if removed then touch P (xrm T X) else X) (c_imap st1) /\
                IM (c_imap st) (c_imap st1) T /\ (S -> PC T (c_imap st1)) /\ c_notifs st1 = c_notifs st.
  Proof.
    intros I L Hpc HP T removed. unfold remove_target_if_needed, removed.
    pose proof (inv_lstat _ _ _ T I) as HL.
    assert (Same : exists st1, (st, @None err) = (st1, None) /\ Inv (c_fs st1) X /\ Lk (c_fs st1) X (c_imap st1) /\
                     IM (c_imap st) (c_imap st1) T /\ (S -> PC T (c_imap st1)) /\ c_notifs st1 = c_notifs st).
    { exists st. split; [auto|]. split; [auto|]. split; [auto|]. split; [intros s0 l i H; auto|auto]. }
    destruct (o_replace o); cbn [negb andb]; auto.
    destruct (lstat (c_fs st) T) as [td|], (X T) as [e|] eqn:EX; try contradiction; auto.
    rewrite (dm_is_dir _ _ _ HL). destruct (is_dir sd && is_dir (x_d e)); cbn [negb]; auto.
    eexists. split; [reflexivity|]. cbn [with_fs c_fs c_imap c_notifs]. rewrite forget_fs, forget_imap, forget_notifs.
    pose proof (lk_nodup _ _ _ _ _ _ _ _ L) as Hnd.
    split; [eapply inv_k_remove_all; eauto|]. split; [|split; [apply IM_forget; auto|split; [intros _; apply PC_forget; auto|auto]]].
    apply (Lk_removed o ms multi sdof S (c_fs st)); auto.
    - apply Lk_forget; auto.
    - apply PC_forget; auto.
    - intro q. apply k_remove_all_names. destruct (inv_x_some _ _ _ _ _ I EX) as (i & Hi & _). fold T. congruence.
  Qed.
  Lemma bind_assoc (m : R) (f g : cstate -> R) : bind (bind m f) g = bind m (fun x => bind (f x) g).
  Proof. destruct m as [s [e|]]; reflexivity. Qed.

  Lemma bind_ok s (k : cstate -> R) : bind (ok s) k = k s.
  Proof. reflexivity. Qed.

  Lemma new_dent_lnk_mode pd rdev tg ct : d_mode (new_dent 0 pd S_IFLNK 511 rdev tg ct) = N.lor S_IFLNK 511.
  Proof. reflexivity. Qed.

  Lemma xupd_xupd T v v' Y q : xupd T v (xupd T v' Y) q = xupd T v Y q.
  Proof. unfold xupd. destruct (path_eqb q T); auto. Qed.

  Lemma type_facts sd :
    (is_reg sd = true -> is_lnk sd = false /\ is_dev sd = false /\ copy_type sd = S_IFREG) /\
    (is_lnk sd = true -> is_reg sd = false /\ is_dev sd = false /\ copy_type sd = S_IFLNK) /\
    (is_dir sd = true -> is_reg sd = false /\ is_lnk sd = false /\ is_dev sd = false /\ is_sock sd = false /\ copy_type sd = S_IFDIR).
  Proof.
    unfold is_reg, is_lnk, is_dir, is_dev, is_sock, copy_type, is_sock.
    split; [|split]; intro H; apply N.eqb_eq in H; rewrite H; repeat split; reflexivity.
  Qed.

  Lemma type_facts_reg sd : is_reg sd = true -> is_lnk sd = false /\ is_dev sd = false /\ copy_type sd = S_IFREG.
  Proof. apply type_facts. Qed.

  Lemma new_entry_key s T :
    x_key (new_entry s T) = if is_reg (sdent s) && multi (sino s) then KSrc (sino s) else KNew T.
  Proof. reflexivity. Qed.

  (* creation of a non-directory (fresh inode) + metadata phase + notification *)
  Lemma file_tail s P a um typ m12 rdev tg ct st2 X2 :
    wf_dent (sdent s) -> N.land typ S_IFMT = typ -> typ = copy_type (sdent s) ->
    (is_lnk (sdent s) = true -> um = 0 /\ typ = S_IFLNK /\ m12 = 511) ->
    rdev = (if is_dev (sdent s) then d_rdev (sdent s) else 0) -> tg = d_target (sdent s) ->
    ct = (if is_reg (sdent s) then d_content (sdent s) else []) ->
    Inv (c_fs st2) X2 -> X2 (P ++ [a]) = None -> x_isdir (X2 P) = true ->
    exists fs5,
      (st3 <~ sys (k_new um (P ++ [a]) typ m12 rdev tg ct (c_fs st2)) st2 ;;
       st4 <~ copy_file_info o ms (sdent s) (P ++ [a]) st3 ;;
       st5 <~ copy_xattrs (sdent s) (P ++ [a]) st4 ;;
       ok (notify (P ++ [a]) false st5)) = (notify (P ++ [a]) false (with_fs st2 fs5), None) /\
      Inv fs5 (xupd (P ++ [a]) (Some (new_entry s (P ++ [a]))) (touch P X2)) /\
      (forall q, q <> P ++ [a] -> names fs5 q = names (c_fs st2) q) /\
      names fs5 (P ++ [a]) = Some (next (c_fs st2)).
  Proof.
    intros Hwf Hty Hct Hl Hr Htg Hc I HT HP. set (T := P ++ [a]) in *. set (sd := sdent s) in *.
    destruct (inv_k_new o _ _ P a um typ m12 rdev tg ct I HT HP)
      as (fs3 & j & E3 & Hj & Hjd & Hn3 & Hi3 & Hu3 & Hf3 & I3).
    fold T in E3, Hn3, Hu3, Hf3, I3. rewrite E3. cbn [sys]. rewrite bind_ok.
    set (newd := new_dent um (inodes (c_fs st2) j) typ m12 rdev tg ct) in *.
    assert (Hkey : x_key (new_entry s T) = KNew T \/ exists s0, x_key (new_entry s T) = KSrc s0).
    { rewrite new_entry_key. destruct (is_reg (sdent s) && multi (sino s)); eauto. }
    specialize (I3 (xex newd (x_key (new_entry s T)) false) (dm_xex _ _ _ _) Hkey).
    destruct (meta_phase o ms sd T (with_fs st2 fs3) _ Hn3) as (fs5 & E5 & V5).
    rewrite <- (bind_assoc (copy_file_info o ms sd T (with_fs st2 fs3)) (fun x => copy_xattrs sd T x)
                  (fun x => ok (notify T false x))).
    rewrite E5. cbn [bind ok with_fs c_fs c_imap c_notifs c_split].
    exists fs5. split; [reflexivity|]. cbn [with_fs c_fs] in V5. split; [|split].
    - eapply Inv_fs_ext; [apply fs_eqv_sym; exact V5|].
      eapply Inv_ext; [intro q; symmetry; apply xupd_xupd|].
      eapply (inv_upd1 o fs3 _ T _ (finfo o ms sd) (xex newd (x_key (new_entry s T)) false) (new_entry s T) I3 Hn3 Hu3).
      + apply xupd_same.
      + apply ftype_finfo.
      + rewrite Hi3. apply dm_finfo_fresh; fold sd; auto.
        * unfold newd. rewrite ftype_new_dent; auto.
        * intro El. destruct (Hl El) as (-> & -> & ->). reflexivity.
      + reflexivity.
    - intros q Hq. rewrite (fe_names _ _ V5). simpl names. auto.
    - rewrite (fe_names _ _ V5). simpl names. auto.
  Qed.

  Lemma dm_shape d e e' : x_d e' = x_d e -> x_known e' = x_known e -> x_mk e' = x_mk e -> dm o d e -> dm o d e'.
  Proof. unfold dm, eff_known. intros -> -> ->. auto. Qed.

  (* a further member of a link group: link(2) to the recorded first copy + metadata phase *)
  Lemma file_tail_link s P a st2 X2 l id :
    wf_dent (sdent s) -> is_reg (sdent s) = true -> multi (sino s) = true -> sdent s = sdof (sino s) ->
    Inv (c_fs st2) X2 -> Lk (c_fs st2) X2 (c_imap st2) -> X2 (P ++ [a]) = None -> x_isdir (X2 P) = true ->
    imap_find (sino s) (c_imap st2) = Some (l, id) ->
    exists fs5,
      (st3 <~ sys (k_link l (P ++ [a]) (c_fs st2)) st2 ;;
       st4 <~ copy_file_info o ms (sdent s) (P ++ [a]) st3 ;;
       st5 <~ copy_xattrs (sdent s) (P ++ [a]) st4 ;;
       ok (notify (P ++ [a]) false st5)) = (notify (P ++ [a]) false (with_fs st2 fs5), None) /\
      Inv fs5 (xupd (P ++ [a]) (Some (new_entry s (P ++ [a]))) (touch P X2)) /\
      Lk fs5 (xupd (P ++ [a]) (Some (new_entry s (P ++ [a]))) (touch P X2)) (c_imap st2).
  Proof.
    intros Hwf Hreg Hmul Hsd I L HT HP Hrec. set (T := P ++ [a]) in *. set (sd := sdent s) in *.
    destruct (lk_rec _ _ _ _ _ _ _ _ L _ _ _ Hrec) as (Hl & _ & _).
    destruct (lk_mem _ _ _ _ _ _ _ _ L _ _ _ _ Hrec Hl) as (el & El1 & El2 & El3 & El4 & El5).
    destruct (i_some _ _ _ I _ _ Hl) as (el' & El1' & Hdm & _). rewrite El1 in El1'. inversion El1'; subst el'.
    assert (Hnd : is_dir (inodes (c_fs st2) id) = false).
    { rewrite (dm_is_dir _ _ _ Hdm), El3. apply ne_d_nondir. rewrite <- Hsd. auto. }
    set (eT := new_entry s T).
    assert (KT : x_key eT = KSrc (sino s)) by (unfold eT; rewrite new_entry_key; fold sd; rewrite Hreg, Hmul; auto).
    assert (DT : x_d eT = ne_d o ms (sdof (sino s))) by (unfold eT; rewrite new_entry_d, <- Hsd; auto).
    assert (HdmT : dm o (inodes (c_fs st2) id) eT).
    { apply (dm_shape _ el); auto; try (rewrite El4; reflexivity); try (rewrite El5; reflexivity). congruence. }
    destruct (inv_k_link o _ _ P a l id eT I HT HP Hl Hnd HdmT) as (fs3 & E3 & Hn3 & I3); eauto.
    { intros p e0 Hp He0. destruct (lk_mem _ _ _ _ _ _ _ _ L _ _ _ _ Hrec Hp) as (e1 & A1 & A2 & _).
      rewrite He0 in A1. inversion A1; subst. eauto. }
    fold T in E3, Hn3, I3. rewrite E3. cbn [sys]. rewrite bind_ok.
    assert (HnT0 : names (c_fs st2) T = None) by (eapply inv_x_none; eauto).
    assert (L3 : Lk fs3 (xupd T (Some eT) (touch P X2)) (c_imap st2)).
    { eapply (Lk_link o ms multi sdof S (c_fs st2)); eauto. }
    assert (HnT3 : names fs3 T = Some id) by (rewrite Hn3, path_eqb_refl; auto).
    destruct (meta_phase o ms sd T (with_fs st2 fs3) _ HnT3) as (fs5 & E5 & V5).
    rewrite <- (bind_assoc (copy_file_info o ms sd T (with_fs st2 fs3)) (fun x => copy_xattrs sd T x)
                  (fun x => ok (notify T false x))).
    rewrite E5. cbn [bind ok with_fs c_fs c_imap c_notifs c_split].
    exists fs5. split; [reflexivity|]. cbn [with_fs c_fs] in V5. split.
    - eapply Inv_fs_ext; [apply fs_eqv_sym; exact V5|].
      eapply (inv_upd o fs3 _ _ id (finfo o ms sd) I3).
      + apply ftype_finfo.
      + intros p e Hp He. exists e. split; auto. split; auto.
        assert (Hrec3 : names fs3 l = Some id).
        { destruct (lk_rec _ _ _ _ _ _ _ _ L3 _ _ _ Hrec); auto. }
        destruct (lk_mem _ _ _ _ _ _ _ _ L3 _ _ _ _ Hrec Hp) as (e1 & A1 & A2 & A3 & A4 & A5).
        rewrite He in A1. inversion A1; subst e1.
        destruct (i_some _ _ _ I3 _ _ Hp) as (e2 & B1 & B2 & _). rewrite He in B1. inversion B1; subst e2.
        assert (Hxe : x_d e = ne_d o ms sd) by (rewrite A3, <- Hsd; auto).
        destruct B2 as (C1 & C2 & C3 & _ & C5 & C6 & C7 & C8). rewrite Hxe in C1, C2, C3, C5, C6, C7, C8.
        destruct Hwf as (_ & _ & _ & Hx).
        destruct (type_facts_reg sd Hreg) as (Hlnk & _).
        apply (finfo_fix o ms sd); auto.
      + auto.
    - eapply Lk_names_ext; [|exact L3]. intro q. rewrite (fe_names _ _ V5). reflexivity.
  Qed.

  Lemma IM_trans im1 im2 im3 T : IM im1 im2 T -> IM im2 im3 T -> IM im1 im3 T.
  Proof. intros H1 H2 s l i H. destruct (H2 _ _ _ H) as [H3|H3]; auto. Qed.

  Lemma copy_file_ok nm ino sd :
    wf_dent sd -> is_dir sd = false -> (is_reg sd = true -> multi ino = true -> sd = sdof ino) ->
    node_ok (SNode nm ino sd []).
  Proof.
    intros Hwf Hd Hcons sc T0 ow st X I L0 Hpc Htok Hnc. cbn [sdent] in Htok.
    destruct Htok as [(_ & Hd' & _)|(P & a & -> & HP)]; [congruence|].
    rewrite copy_node_eq. cbv zeta. rewrite include_true, Hd. cbn [negb].
    destruct (step_remove sd P a st X I L0 Hpc HP) as (st1 & E1 & I1 & L1 & M1 & Hpc1 & N1). rewrite E1. cbn [bind].
    set (n := SNode nm ino sd []) in *. set (T := P ++ [a]) in *.
    set (removed := o_replace o && match X T with Some e => negb (is_dir sd && is_dir (x_d e)) | None => false end) in *.
    set (X1 := if removed then touch P (xrm T X) else X) in *.
    assert (HPT : T <> P) by apply snoc_ne_parent.
    assert (F1 : x_isdir (X1 P) = true).
    { unfold X1. destruct removed; auto. rewrite touch_isdir, xrm_unrel; auto. apply parent_unrel. }
    assert (F2 : X1 T = None \/ exists e, X1 T = Some e /\ is_dir (x_d e) = false).
    { unfold X1, removed. destruct (o_replace o) eqn:Er; cbn [andb].
      - destruct (X T) as [e|] eqn:EX; auto. rewrite Hd. cbn [andb negb]. left.
        rewrite touch_other by auto. apply xrm_self.
      - destruct (X T) as [e|] eqn:EX; auto. right. exists e. split; auto.
        eapply first_conflict_file; eauto. }
    assert (F3 : forall b r, X1 (T ++ b :: r) = None).
    { intros b r. unfold X1. destruct removed eqn:Erm.
      - rewrite touch_other by apply below_ne_parent. apply xrm_below.
      - destruct F2 as [F2|(e & F2 & Fd)]; unfold X1 in F2; cbv iota in F2.
        + eapply x_none_below; eauto.
        + eapply x_none_below_nondir; eauto. }
    assert (F4 : forall q, strip_prefix T q = None -> touch P X1 q = touch P X q).
    { intros q Hq. unfold X1. destruct removed; auto. rewrite touch_idem.
      apply touch_ext; apply xrm_unrel; auto. apply parent_unrel. }
    assert (F5 : forall e, X1 T = Some e -> lstat (c_fs st) T <> None).
    { intros e. unfold X1. destruct removed.
      - rewrite touch_other by auto. rewrite xrm_self. discriminate.
      - intro HX. pose proof (inv_lstat _ _ _ T I) as HL. rewrite HX in HL. destruct (lstat (c_fs st) T); [discriminate|contradiction]. }
    clearbody X1. clear removed.
    (* forgetLinkSources + ensureEmptyFileTarget *)
    set (st1' := match lstat (c_fs st) T with Some _ => forget T st1 | None => st1 end).
    pose proof (lk_nodup _ _ _ _ _ _ _ _ L1) as Hnd1.
    assert (I1' : Inv (c_fs st1') X1) by (unfold st1'; destruct (lstat (c_fs st) T); auto).
    assert (L1' : Lk (c_fs st1') X1 (c_imap st1')).
    { unfold st1'. destruct (lstat (c_fs st) T); auto. rewrite forget_fs, forget_imap. apply Lk_forget; auto. }
    assert (M1' : IM (c_imap st) (c_imap st1') T).
    { unfold st1'. destruct (lstat (c_fs st) T); auto. rewrite forget_imap. eapply IM_trans; [exact M1|apply IM_forget; auto]. }
    assert (N1' : c_notifs st1' = c_notifs st) by (unfold st1'; destruct (lstat (c_fs st) T); auto).
    assert (P1' : forall e, X1 T = Some e -> PC T (c_imap st1')).
    { intros e He. unfold st1'. destruct (lstat (c_fs st) T) eqn:E; [|exfalso; eapply F5; eauto].
      rewrite forget_imap. apply PC_forget; auto. }
    clearbody st1'.
    set (X2 := match X1 T with Some _ => touch P (xrm T X1) | None => X1 end).
    assert (E2 : exists st2, ensure_empty_file_target T st1' = (st2, None) /\ Inv (c_fs st2) X2 /\
                             Lk (c_fs st2) X2 (c_imap st2) /\ IM (c_imap st) (c_imap st2) T /\ c_notifs st2 = c_notifs st).
    { unfold ensure_empty_file_target. pose proof (inv_lstat _ _ _ T I1') as HL. unfold X2.
      destruct F2 as [F2|(e & F2 & Fd)]; rewrite F2 in *.
      - destruct (lstat (c_fs st1') T); [contradiction|]. exists st1'. split; auto.
      - destruct (lstat (c_fs st1') T) as [td|]; [|contradiction]. rewrite (dm_is_dir _ _ _ HL), Fd.
        destruct (inv_k_unlink o _ _ P a e I1' F2 Fd F1) as (fs2 & U1 & U2 & U3). fold T in U1, U2, U3.
        rewrite U1. exists (with_fs st1' fs2). cbn [sys with_fs c_fs c_imap c_notifs]. split; auto. split; auto. split; auto.
        apply (Lk_removed o ms multi sdof S (c_fs st1')); eauto. }
    destruct E2 as (st2 & E2 & I2 & L2 & M2 & N2). rewrite E2. cbn [bind].
    assert (G1 : x_isdir (X2 P) = true).
    { unfold X2. destruct (X1 T); auto. rewrite touch_isdir, xrm_unrel; auto. apply parent_unrel. }
    assert (G2 : X2 T = None).
    { unfold X2. destruct (X1 T) eqn:E; auto. rewrite touch_other by auto. apply xrm_self. }
    assert (G3 : forall b r, X2 (T ++ b :: r) = None).
    { intros b r. unfold X2. destruct (X1 T); auto. rewrite touch_other by apply below_ne_parent. apply xrm_below. }
    assert (G4 : forall q, strip_prefix T q = None -> touch P X2 q = touch P X q).
    { intros q Hq. rewrite <- F4 by auto. unfold X2. destruct (X1 T); auto. rewrite touch_idem.
      apply touch_ext; apply xrm_unrel; auto. apply parent_unrel. }
    clearbody X2.
    (* creation *)
    destruct (type_facts sd) as (TR & TL & _).
    set (X5 := xupd T (Some (new_entry n T)) (touch P X2)).
    assert (E3 : exists st5,
      (st3 <~ (if is_reg sd then copy_regular o multi ino sd T st2
               else if is_lnk sd then sys (k_symlink T (d_target sd) (c_fs st2)) st2
               else copy_device o sd T st2) ;;
       st4 <~ copy_file_info o ms sd T st3 ;; st5 <~ copy_xattrs sd T st4 ;; ok (notify T false st5))
      = (notify T false st5, None) /\
      Inv (c_fs st5) X5 /\ Lk (c_fs st5) X5 (c_imap st5) /\ IM (c_imap st2) (c_imap st5) T /\
      c_notifs st5 = c_notifs st2).
    { pose proof Hwf as Hwf'. destruct Hwf' as (Hz & Hl & Ht & Hx).
      assert (HnT2 : names (c_fs st2) T = None) by (eapply inv_x_none; eauto).
      (* a fresh inode with a per-path key *)
      assert (Fresh : (is_reg sd && multi ino) = false ->
                forall fs5,
                  Inv fs5 X5 -> (forall q, q <> T -> names fs5 q = names (c_fs st2) q) -> names fs5 T = Some (next (c_fs st2)) ->
                  Inv (c_fs (with_fs st2 fs5)) X5 /\ Lk (c_fs (with_fs st2 fs5)) X5 (c_imap (with_fs st2 fs5)) /\
                  IM (c_imap st2) (c_imap (with_fs st2 fs5)) T /\
                  c_notifs (with_fs st2 fs5) = c_notifs st2).
      { intros Hk fs5 Q2 Q3 Q4. cbn [with_fs c_fs c_imap c_notifs].
        split; auto. split; [|split; [apply IM_refl|auto]].
        apply (Lk_new o ms multi sdof S (c_fs st2)); auto. rewrite new_entry_key. cbn [sdent sino n]. rewrite Hk. auto. }
      destruct (is_reg sd) eqn:Ereg; [|destruct (is_lnk sd) eqn:Elnk].
      - destruct (TR eq_refl) as (A1 & A2 & A3). unfold copy_regular.
        destruct (multi ino) eqn:Emul.
        + destruct (imap_find ino (c_imap st2)) as [[l id]|] eqn:Eim.
          * (* link to the recorded copy *)
            destruct (file_tail_link n P a st2 X2 l id) as (fs5 & Q1 & Q2 & Q3); cbn [sdent sino n]; auto.
            fold T in Q1, Q2, Q3. cbn [sdent n] in Q1. rewrite Q1. eexists. split; [reflexivity|].
            cbn [with_fs c_fs c_imap c_notifs]. split; auto. split; auto. split; [apply IM_refl|auto].
          * (* the first copy: recorded *)
            unfold k_create.
            set (st2' := {| c_fs := c_fs st2; c_imap := (ino, (T, next (c_fs st2))) :: c_imap st2; c_notifs := c_notifs st2; c_split := c_split st2 |}).
            destruct (file_tail n P a (o_umask o) S_IFREG 438 0 [] (d_content sd) st2' X2) as (fs5 & Q1 & Q2 & Q3 & Q4);
              cbn [sdent n st2' c_fs]; auto; try (repeat split; auto; fail).
            -- intro; congruence.
            -- rewrite A2; auto.
            -- rewrite Ht; auto.
            -- rewrite Ereg; auto.
            -- fold T in Q1, Q2, Q3, Q4. cbn [sdent n] in Q1. change (c_fs st2') with (c_fs st2) in Q1, Q3, Q4. rewrite Q1. eexists. split; [reflexivity|].
               cbn [with_fs c_fs c_imap c_notifs st2']. split; auto. split; [|split; auto].
               ++ apply (Lk_record o ms multi sdof S (c_fs st2)); auto.
                  ** rewrite <- (Hcons eq_refl eq_refl). auto.
                  ** rewrite new_entry_key. cbn [sdent sino n]. rewrite Ereg, Emul. auto.
                  ** rewrite new_entry_d. cbn [sdent n]. rewrite <- (Hcons eq_refl eq_refl). auto.
               ++ intros s l i. cbn [imap_find]. destruct (N.eqb s ino).
                  ** intro H; inversion H; subst. right. apply is_prefix_true. exists []. rewrite app_nil_r. auto.
                  ** auto.
        + unfold k_create.
          destruct (file_tail n P a (o_umask o) S_IFREG 438 0 [] (d_content sd) st2 X2) as (fs5 & Q1 & Q2 & Q3 & Q4);
            cbn [sdent n]; auto; try (repeat split; auto; fail).
          * intro; congruence.
          * rewrite A2; auto.
          * rewrite Ht; auto.
          * rewrite Ereg; auto.
          * fold T in Q1, Q2, Q3, Q4. cbn [sdent n] in Q1. rewrite Q1. eexists. split; [reflexivity|].
            eapply (Fresh (andb_false_r _)); eauto.
      - destruct (TL eq_refl) as (A1 & A2 & A3).
        unfold k_symlink.
        destruct (file_tail n P a 0 S_IFLNK 511 0 (d_target sd) [] st2 X2) as (fs5 & Q1 & Q2 & Q3 & Q4);
          cbn [sdent n]; auto; try (repeat split; auto; fail).
        + rewrite A2; auto.
        + rewrite Ereg; auto.
        + fold T in Q1, Q2, Q3, Q4. cbn [sdent n] in Q1. rewrite Q1. eexists. split; [reflexivity|].
          eapply (Fresh eq_refl); eauto.
      - unfold copy_device, k_mknod.
        set (mode := if is_sock sd then andnot (d_mode sd) S_IFSOCK else d_mode sd).
        assert (Hty : (if N.eqb (N.land mode S_IFMT) 0 then S_IFREG else N.land mode S_IFMT) = copy_type sd).
        { unfold mode, copy_type. destruct (is_sock sd) eqn:Es.
          - unfold andnot. rewrite land_ldiff_comm. fold (ftype sd). apply N.eqb_eq in Es. rewrite Es. reflexivity.
          - fold (ftype sd). apply N.eqb_neq in Hz. rewrite Hz. auto. }
        destruct (file_tail n P a (o_umask o) (if N.eqb (N.land mode S_IFMT) 0 then S_IFREG else N.land mode S_IFMT)
                    (N.land mode allBits) (if is_dev sd then d_rdev sd else 0) [] [] st2 X2) as (fs5 & Q1 & Q2 & Q3 & Q4);
          cbn [sdent n]; auto; try (repeat split; auto; fail).
        + destruct (N.eqb (N.land mode S_IFMT) 0); [reflexivity|apply land_idem2].
        + intro; congruence.
        + rewrite Ht; auto.
        + rewrite Ereg; auto.
        + fold T in Q1, Q2, Q3, Q4. cbn [sdent n] in Q1. rewrite Q1. eexists. split; [reflexivity|].
          eapply (Fresh eq_refl); eauto. }
    destruct E3 as (st5 & E3 & I5 & L5 & M5 & N5). rewrite E3.
    assert (EX : forall q, X5 q = res n T (negb ow) X q).
    { intro q. unfold X5, res. cbn [sdent n]. rewrite Hd. cbn [andb]. fold T.
      assert (Hpar : parent T = P) by apply parent_snoc. rewrite Hpar.
      destruct (path_tri T q) as [->|[(b & r & ->)|Hq]].
      + rewrite xupd_same, touch_other, ov_at_T by auto. unfold CopySpec.copied. cbn [sdent n]. rewrite Hd.
        destruct (X T); auto.
      + rewrite xupd_other by apply below_ne. rewrite !touch_other by apply below_ne_parent.
        unfold n. rewrite ov_below_file by auto. apply G3.
      + rewrite xupd_other by (apply unrel_ne; auto). rewrite G4 by auto. symmetry.
        apply touch_ext; [apply ov_unrel, parent_unrel|apply ov_unrel; auto]. }
    eexists. split; [reflexivity|]. cbn [notify c_fs c_imap c_notifs].
    split; [eapply Inv_ext; [|exact I5]; intro q; symmetry; apply EX|].
    split; [eapply Lk_ext; [|exact L5]; intro q; symmetry; apply EX|].
    split; [eapply IM_trans; eauto|].
    unfold n. cbn [node_notifs]. rewrite Hd, N5, N2. reflexivity.
  Qed.

  Lemma bind_ret s (k : cstate -> R) : bind (s, None) k = k s.
  Proof. reflexivity. Qed.

  (* ---- the children of a directory ---- *)
  Notation touched := (touched o).

  Lemma res_T_isdir k T a tp Xc : x_isdir (res k (T ++ [a]) tp Xc T) = x_isdir (Xc T).
  Proof.
    unfold res. rewrite parent_snoc. destruct (_ && _); [|rewrite touch_isdir]; rewrite ov_unrel by apply parent_unrel; auto.
  Qed.
  Lemma res_kid_other k T a tp Xc q : q <> T -> strip_prefix (T ++ [a]) q = None ->
    res k (T ++ [a]) tp Xc q = Xc q.
  Proof.
    intros H1 H2. unfold res. rewrite parent_snoc. destruct (_ && _); [|rewrite touch_other by auto]; apply ov_unrel; auto.
  Qed.
  Lemma res_kid_below k T a tp Xc r :
    res k (T ++ [a]) tp Xc ((T ++ [a]) ++ r) = ov k (T ++ [a]) tp Xc ((T ++ [a]) ++ r).
  Proof.
    unfold res. rewrite parent_snoc. destruct (_ && _); auto. apply touch_other.
    rewrite <- app_assoc. apply snoc_ne_self.
  Qed.
  Lemma res_kid_T k T a tp Xc : option_map touched (res k (T ++ [a]) tp Xc T) = option_map touched (Xc T).
  Proof.
    unfold res. rewrite parent_snoc. destruct (_ && _).
    - rewrite ov_unrel by apply parent_unrel. auto.
    - rewrite touch_same, ov_unrel by apply parent_unrel. destruct (Xc T); simpl; auto. rewrite touched_idem. auto.
  Qed.

  Lemma ovk_nil T X q : ovk [] T X q = X q.
  Proof. unfold ovk. destruct (strip_prefix T q) as [[|b r]|]; auto. Qed.

  Lemma prefix_snoc_up T a l : is_prefix (T ++ [a]) l = true -> is_prefix T l = true.
  Proof. intro H. apply is_prefix_true in H as (r & ->). rewrite <- app_assoc. apply is_prefix_app. Qed.
  Lemma prefix_disjoint T a b l : is_prefix (T ++ [a]) l = true -> a <> b -> is_prefix (T ++ [b]) l = false.
  Proof.
    intros H Hab. apply is_prefix_true in H as (r & ->). rewrite <- app_assoc. simpl.
    rewrite is_prefix_strip, strip_snoc_below. apply bytes_eqb_neq in Hab.
    assert (bytes_eqb b a = false) as ->; auto. apply bytes_eqb_neq. apply bytes_eqb_neq in Hab. congruence.
  Qed.
  Lemma PC_kid T a im : PC T im -> PC (T ++ [a]) im.
  Proof.
    intros H s l i Hr. destruct (is_prefix (T ++ [a]) l) eqn:E; auto.
    apply prefix_snoc_up in E. rewrite (H _ _ _ Hr) in E. discriminate.
  Qed.
  Lemma IM_sub im im1 im2 T a : IM im im1 (T ++ [a]) -> IM im1 im2 T -> IM im im2 T.
  Proof.
    intros H1 H2 s l i Hr. destruct (H2 _ _ _ Hr) as [Hr1|Hu]; auto.
    destruct (H1 _ _ _ Hr1) as [Hr0|Hu]; auto. right. eapply prefix_snoc_up; eauto.
  Qed.

  Lemma kids_ok l : Forall node_ok l -> forall sc T st Xc,
    NoDup (map sname l) -> Inv (c_fs st) Xc -> Lk (c_fs st) Xc (c_imap st) ->
    (S -> forall k, In k l -> PC (T ++ [sname k]) (c_imap st)) -> x_isdir (Xc T) = true ->
    (forall k, In k l -> nc Xc (T ++ [sname k]) k) ->
    exists st', kids_loop sc T l st = (st', None) /\ Inv (c_fs st') (touch T (ovk l T Xc)) /\
      Lk (c_fs st') (touch T (ovk l T Xc)) (c_imap st') /\ IM (c_imap st) (c_imap st') T /\
      c_notifs st' = rev (kids_notifs Xc T l) ++ c_notifs st.
  Proof.
    induction 1 as [|k r Hk Hr IH]; intros sc T st Xc Hnd I L Hpc HT Hnc.
    - exists st. simpl. split; auto.
      assert (E : forall q, touch T (ovk [] T Xc) q = touch T Xc q) by (intro q; apply touch_ext; apply ovk_nil).
      split; [eapply Inv_ext; [exact E|apply inv_touch_weak; eauto]|].
      split; [eapply Lk_ext; [exact E|apply Lk_touch; auto]|]. split; [apply IM_refl|auto].
    - simpl in Hnd. inversion Hnd as [|? ? Hni Hnd']; subst.
      rewrite kids_loop_cons.
      destruct (Hk (sc ++ [sname k]) (T ++ [sname k]) true st Xc I L) as (st1 & E1 & I1 & L1 & M1 & N1).
      { intro HS. apply Hpc; auto. left; auto. }
      { right. exists T, (sname k). auto. }
      { apply Hnc. left; auto. }
      rewrite E1, bind_ret. cbn [negb] in I1, L1, N1.
      set (Xc' := res k (T ++ [sname k]) false Xc) in *.
      assert (Hoth : forall b r0, bytes_eqb (sname k) b = false -> Xc' (T ++ b :: r0) = Xc (T ++ b :: r0)).
      { intros b r0 Hb. apply res_kid_other; [apply below_ne|]. rewrite strip_snoc_below, Hb. auto. }
      destruct (IH sc T st1 Xc') as (st2 & E2 & I2 & L2 & M2 & N2); auto.
      { intros HS k2 Hin s l i Hrec. destruct (M1 _ _ _ Hrec) as [Hold|Hu].
        - eapply Hpc; eauto. right; auto.
        - eapply prefix_disjoint; eauto. intro E. apply Hni. rewrite E. apply in_map. auto. }
      { unfold Xc'. rewrite res_T_isdir. auto. }
      { intros k2 Hin Hr0. rewrite (first_conflict_ext Xc' Xc).
        - apply Hnc; auto. right; auto.
        - intro r0. rewrite <- app_assoc. simpl. apply Hoth. apply bytes_eqb_neq. intro E. apply Hni.
          rewrite E. apply in_map. auto. }
      assert (EV : forall q, touch T (ovk (k :: r) T Xc) q = touch T (ovk r T Xc') q).
      { intro q.
        destruct (path_dec q T) as [->|Hq].
        * rewrite !touch_same. unfold ovk. rewrite strip_self. symmetry. apply res_kid_T.
        * rewrite !touch_other by auto. destruct (path_tri T q) as [->|[(b & r0 & ->)|Hu]]; [congruence| |].
          -- unfold ovk. rewrite strip_prefix_app. cbn [find_kid].
             destruct (bytes_eqb (sname k) b) eqn:Eb.
             ++ apply bytes_eqb_eq in Eb. subst b. rewrite (find_kid_none _ _ Hni).
                rewrite (app_snoc_assoc T (sname k) r0). symmetry. apply res_kid_below.
             ++ rewrite (Hoth _ _ Eb). destruct (find_kid b r); auto. apply ov_ext. symmetry. apply Hoth; auto.
          -- unfold ovk. rewrite Hu. symmetry. apply res_kid_other; auto. apply strip_snoc_unrel; auto. }
      exists st2. split; auto.
      split; [eapply Inv_ext; [exact EV|exact I2]|].
      split; [eapply Lk_ext; [exact EV|exact L2]|].
      split; [eapply IM_sub; eauto|].
      rewrite N2, N1. simpl kids_notifs. rewrite rev_app_distr, <- app_assoc.
      rewrite (kids_notifs_ext Xc' Xc). auto.
  Qed.

  (* ---- directories ---- *)
  Lemma res_dir_at nm ino sd kids T tp X q :
    (x_isdir (X T) = true \/ exists P a, T = P ++ [a]) -> is_dir sd = true ->
    (q = T \/ exists b r, q = T ++ b :: r) ->
    res (SNode nm ino sd kids) T tp X q = ov (SNode nm ino sd kids) T tp X q.
  Proof.
    intros HT Hd Hq. unfold res. cbn [sdent]. rewrite Hd. cbn [andb].
    destruct (x_isdir (X T)) eqn:E; auto. destruct HT as [HT|(P & a & ->)]; [discriminate|].
    rewrite parent_snoc. apply touch_other. destruct Hq as [->|(b & r & ->)].
    - apply snoc_ne_parent.
    - apply below_ne_parent.
  Qed.

  Lemma dir_tail nm ino sd kids sc T ow X st2 X2 e2 (created : bool) (tfi : option dent) :
    let n := SNode nm ino sd kids in
    Forall node_ok kids -> NoDup (map sname kids) -> wf_dent sd -> is_dir sd = true ->
    (x_isdir (X T) = true \/ exists P a, T = P ++ [a]) ->
    Inv (c_fs st2) X2 -> Lk (c_fs st2) X2 (c_imap st2) -> (S -> PC T (c_imap st2)) ->
    X2 T = Some e2 -> is_dir (x_d e2) = true ->
    (forall b r, X2 (T ++ b :: r) = X (T ++ b :: r)) ->
    (forall q, strip_prefix T q = None -> X2 q = res n T (negb ow) X q) ->
    (forall k, In k kids -> nc X (T ++ [sname k]) k) ->
    created = negb (x_isdir (X T)) ->
    (created = true ->
       ftype (x_d e2) = S_IFDIR /\ d_rdev (x_d e2) = 0 /\ d_target (x_d e2) = [] /\ d_xattrs (x_d e2) = [] /\
       d_content (x_d e2) = [] /\ x_key e2 = KNew T) ->
    (created = false ->
       tfi <> None /\
       exists e, X T = Some e /\ x_key e2 = x_key e /\ x_mk e2 = x_mk e /\
                 x_d e2 = (if ow then set_perm (perm12 sd) (x_d e) else x_d e)) ->
    exists st',
      (st4 <~ kids_loop sc T kids (if true && (created || ow) then notify T true st2 else st2) ;;
       (if (if ow then true else created) then (s5 <~ copy_file_info o ms sd T st4 ;; copy_xattrs sd T s5)
        else if (if ow then false else negb created) && (match tfi with Some _ => true | None => false end)
             then copy_file_timestamp o sd T st4
        else ok st4)) = (st', None) /\
      Inv (c_fs st') (res n T (negb ow) X) /\
      Lk (c_fs st') (res n T (negb ow) X) (c_imap st') /\ IM (c_imap st2) (c_imap st') T /\
      c_notifs st' = rev (node_notifs X (negb ow) T n) ++ c_notifs st2.
  Proof.
    intros n IH Hnd Hwf Hd HTok I2 L2 Hpc H2 Hd2 Hb Hu Hnc Hcr Hnew Hold.
    set (st3 := if true && (created || ow) then notify T true st2 else st2).
    assert (I3 : Inv (c_fs st3) X2) by (unfold st3; destruct (true && (created || ow)); auto).
    assert (L3 : Lk (c_fs st3) X2 (c_imap st3)) by (unfold st3; destruct (true && (created || ow)); auto).
    assert (M3 : c_imap st3 = c_imap st2) by (unfold st3; destruct (true && (created || ow)); auto).
    destruct (kids_ok kids IH sc T st3 X2 Hnd I3 L3) as (st4 & E4 & I4 & L4 & M4 & N4).
    { intros HS k Hin. rewrite M3. apply PC_kid; auto. }
    { rewrite H2. auto. }
    { intros k Hin Hr. rewrite (first_conflict_ext X2 X); [apply Hnc; auto|].
      intro r. rewrite <- app_assoc. apply Hb. }
    rewrite E4, bind_ret. rewrite M3 in M4.
    (* the directory's inode *)
    assert (H4 : touch T (ovk kids T X2) T = Some (touched e2)).
    { rewrite touch_same. unfold ovk. rewrite strip_self, H2. auto. }
    destruct (inv_x_some _ _ _ _ _ I4 H4) as (i & Hi & Hm & Hk).
    assert (Hdi : is_dir (inodes (c_fs st4) i) = true).
    { rewrite (dm_is_dir _ _ _ Hm), touched_d. auto. }
    pose proof (dir_unique _ _ _ _ _ I4 Hi Hdi) as Hu4.
    assert (Hns : forall s, x_key (touched e2) <> KSrc s).
    { intros s Hs. pose proof (lk_src_not_dir _ _ _ _ _ _ _ _ _ _ _ L4 H4 Hs) as Hx. rewrite touched_d in Hx. congruence. }
    set (e5 := copied n (X T) (negb ow) T).
    assert (EV : forall q, res n T (negb ow) X q = xupd T (Some e5) (touch T (ovk kids T X2)) q).
    { intro q. destruct (path_tri T q) as [->|[(b & r & ->)|Hq]].
      + rewrite xupd_same. unfold n. rewrite res_dir_at, ov_at_T; auto.
      + rewrite xupd_other, touch_other by apply below_ne. unfold n. rewrite res_dir_at, ov_below_dir; eauto.
        unfold ovk. rewrite strip_prefix_app, Hb. destruct (find_kid b kids); auto. apply ov_ext. symmetry. apply Hb.
      + rewrite xupd_other, touch_other by (apply unrel_ne; auto). unfold ovk. rewrite Hq. symmetry. apply Hu. auto. }
    assert (Fin : forall (f : dent -> dent),
              ftype (f (inodes (c_fs st4) i)) = ftype (inodes (c_fs st4) i) ->
              dm o (f (inodes (c_fs st4) i)) e5 -> x_key e5 = x_key e2 ->
              Inv (upd_inode i f (c_fs st4)) (res n T (negb ow) X) /\
              Lk (upd_inode i f (c_fs st4)) (res n T (negb ow) X) (c_imap st4)).
    { intros f Hft Hdm Hkey. split.
      - eapply Inv_ext; [exact EV|eapply (inv_upd1 o _ _ T i f (touched e2) e5 I4 Hi Hu4 H4 Hft Hdm)].
        rewrite touched_key. auto.
      - eapply Lk_ext; [exact EV|].
        eapply (Lk_upd o ms multi sdof S (c_fs st4) _ _ _ T (touched e2) e5 L4); auto.
        intros s Hs. apply (Hns s). rewrite touched_key. congruence. }
    assert (Hnot : c_notifs st4 = rev (node_notifs X (negb ow) T n) ++ c_notifs st2).
    { rewrite N4. unfold n. rewrite node_notifs_dir by auto. rewrite rev_app_distr, <- app_assoc.
      rewrite (kids_notifs_ext X2 X). f_equal. unfold st3. rewrite Hcr.
      destruct ow, (x_isdir (X T)); reflexivity. }
    destruct created eqn:Ecr.
    - (* created by this call *)
      destruct (Hnew eq_refl) as (A1 & A2 & A3 & A4 & A5 & A6).
      assert (Em : x_isdir (X T) = false) by (destruct (x_isdir (X T)); auto; discriminate).
      assert (E5 : e5 = new_entry n T).
      { unfold e5, CopySpec.copied. destruct (X T) as [e|]; auto. unfold x_isdir in Em. cbn [sdent n]. rewrite Em, andb_false_r. auto. }
      assert ((if ow then true else true) = true) as -> by (destruct ow; auto).
      destruct (meta_phase o ms sd T st4 i Hi) as (fs5 & Q1 & Q2). rewrite Q1.
      eexists. split; [reflexivity|]. cbn [with_fs c_fs c_imap c_notifs].
      destruct (type_facts sd) as (_ & _ & TD). destruct (TD Hd) as (C1 & C2 & C3 & C4 & C5).
      destruct (Fin (finfo o ms sd)) as (F1 & F2).
      { apply ftype_finfo. }
      { destruct Hm as (B1 & _ & _ & _ & B5 & B6 & B7 & B8). rewrite touched_d in *.
        rewrite E5. apply (dm_finfo_fresh o ms multi n T); cbn [sdent n]; auto.
        + rewrite C5, <- A1. apply ftype_mode; auto.
        + intro; congruence.
        + rewrite C3. congruence.
        + destruct Hwf as (_ & _ & Ht & _). rewrite Ht by auto. congruence.
        + congruence.
        + rewrite C1. congruence. }
      { rewrite E5, new_entry_key. cbn [sdent n]. rewrite C1. auto. }
      split; [eapply Inv_fs_ext; [apply fs_eqv_sym; exact Q2|exact F1]|].
      split; [eapply Lk_names_ext; [|exact F2]; intro q; rewrite (fe_names _ _ Q2); reflexivity|]. tauto.
    - (* merged into an existing directory *)
      destruct (Hold eq_refl) as (Htfi & e & HXT & K1 & K2 & K3).
      assert (Em : is_dir (x_d e) = true).
      { assert (x_isdir (X T) = true) as Hx by (destruct (x_isdir (X T)); auto; discriminate).
        unfold x_isdir in Hx. rewrite HXT in Hx. auto. }
      destruct (type_facts sd) as (_ & _ & TD). destruct (TD Hd) as (C1 & C2 & C3 & C4 & C5).
      pose proof Hm as Hm0.
      destruct Hm as (B1 & B2 & B3 & B4 & B5 & B6 & B7 & B8). rewrite touched_d in B1, B2, B3, B4, B5, B6, B7, B8.
      destruct ow; cbn [negb andb] in *.
      + destruct (meta_phase o ms sd T st4 i Hi) as (fs5 & Q1 & Q2). rewrite Q1.
        eexists. split; [reflexivity|]. cbn [with_fs c_fs c_imap c_notifs].
        destruct (Fin (finfo o ms sd)) as (F1 & F2).
        { apply ftype_finfo. }
        { unfold e5, CopySpec.copied. rewrite HXT. cbn [sdent n]. rewrite Hd, Em. cbn [andb].
          apply dm_finfo_merge; auto; rewrite K3 in *.
          -- rewrite (ftype_mode _ _ B1). apply ftype_set_perm.
          -- rewrite B5. reflexivity.
          -- rewrite B6. reflexivity.
          -- rewrite B7. reflexivity.
          -- rewrite B8. reflexivity. }
        { unfold e5, CopySpec.copied. rewrite HXT. cbn [sdent n]. rewrite Hd, Em. cbn [andb x_key]. auto. }
        split; [eapply Inv_fs_ext; [apply fs_eqv_sym; exact Q2|exact F1]|].
        split; [eapply Lk_names_ext; [|exact F2]; intro q; rewrite (fe_names _ _ Q2); reflexivity|]. tauto.
      + destruct tfi; [|congruence]. rewrite (time_phase o sd T st4 i Hi).
        eexists. split; [reflexivity|]. cbn [with_fs c_fs c_imap c_notifs].
        destruct (Fin (set_mtime (info_time o sd))) as (F1 & F2).
        { apply ftype_set_mtime. }
        { unfold e5, CopySpec.copied. rewrite HXT. cbn [sdent n]. rewrite Hd, Em. cbn [andb].
          rewrite <- K3.
          pose proof (dm_set_mtime o _ (touched e2) (info_time o sd) (x_key e) (x_mk e) Hm0) as Q.
          rewrite touched_d in Q. exact Q. }
        { unfold e5, CopySpec.copied. rewrite HXT. cbn [sdent n]. rewrite Hd, Em. cbn [andb x_key]. auto. }
        split; [exact F1|]. split; [exact F2|]. tauto.
  Qed.

  Lemma copy_dir_ok nm ino sd kids :
    wf_dent sd -> is_dir sd = true -> NoDup (map sname kids) -> Forall node_ok kids ->
    node_ok (SNode nm ino sd kids).
  Proof.
    intros Hwf Hd Hnd IH sc T ow st X I L0 Hpc Htok Hnc. cbn [sdent] in Htok.
    rewrite copy_node_eq. cbv zeta. rewrite include_true, Hd.
    set (n := SNode nm ino sd kids) in *.
    pose proof (inv_lstat _ _ _ T I) as HL.
    destruct (x_isdir (X T)) eqn:Em.
    - (* merge *)
      unfold x_isdir in Em. destruct (X T) as [e|] eqn:HXT; [|discriminate].
      destruct (lstat (c_fs st) T) as [td|] eqn:ELs; [|contradiction].
      assert (Htd : is_dir td = true) by (rewrite (dm_is_dir _ _ _ HL); auto).
      assert (E1 : remove_target_if_needed o T sd (Some td) st = (st, None)).
      { unfold remove_target_if_needed. destruct (o_replace o); cbn [negb]; auto. rewrite Hd, Htd. auto. }
      rewrite E1, bind_ret.
      destruct (inv_x_some _ _ _ _ _ I HXT) as (i & Hi & Hm & Hk).
      assert (Hdi : is_dir (inodes (c_fs st) i) = true) by (rewrite (dm_is_dir _ _ _ Hm); auto).
      assert (Hkids : forall k, In k kids -> nc X (T ++ [sname k]) k).
      { intros k Hin Hr. destruct (first_conflict_dir X T nm ino sd kids e (Hnc Hr) HXT Hd) as (_ & Hc). auto. }
      assert (HTok : x_isdir (X T) = true \/ exists P a, T = P ++ [a]).
      { left. unfold x_isdir. rewrite HXT. auto. }
      assert (Hns : forall s, x_key e <> KSrc s).
      { intros s Hs. pose proof (lk_src_not_dir _ _ _ _ _ _ _ _ _ _ _ L0 HXT Hs). congruence. }
      unfold copy_dir_only. rewrite ELs, Htd. cbn [negb].
      destruct ow.
      + rewrite (upd_path_some _ _ _ _ Hi).
        set (e2 := {| x_d := set_perm (perm12 sd) (x_d e); x_known := x_known e; x_key := x_key e; x_mk := x_mk e |}).
        assert (I2 : Inv (upd_inode i (set_perm (perm12 sd)) (c_fs st)) (xupd T (Some e2) X)).
        { eapply inv_upd1; eauto.
          - eapply dir_unique; eauto.
          - apply ftype_set_perm.
          - apply dm_set_perm; auto. }
        assert (L2 : Lk (upd_inode i (set_perm (perm12 sd)) (c_fs st)) (xupd T (Some e2) X) (c_imap st)).
        { eapply (Lk_upd o ms multi sdof S (c_fs st) _ _ _ T e e2 L0); auto. }
        destruct (dir_tail nm ino sd kids sc T true X (with_fs st (upd_inode i (set_perm (perm12 sd)) (c_fs st)))
                    (xupd T (Some e2) X) e2 false (Some td)) as (st' & Q1 & Q2 & Q3 & Q4 & Q5); auto.
        * apply xupd_same.
        * cbn [e2 x_d]. rewrite <- (is_dir_ftype _ _ (eq_sym (ftype_set_perm (perm12 sd) (x_d e)))). auto.
        * intros b r. apply xupd_other, below_ne.
        * intros q Hq. rewrite xupd_other by (apply unrel_ne; auto). unfold res. cbn [sdent]. rewrite Hd.
          unfold x_isdir. rewrite HXT, Em. cbn [andb]. symmetry. apply ov_unrel; auto.
        * unfold x_isdir. rewrite HXT, Em. auto.
        * discriminate.
        * intros _. split; [discriminate|]. exists e. auto.
        * exists st'. split; auto.
      + destruct (dir_tail nm ino sd kids sc T false X st X e false (Some td)) as (st' & Q1 & Q2 & Q3 & Q4 & Q5); auto.
        * intros q Hq. unfold res. cbn [sdent]. rewrite Hd.
          unfold x_isdir. rewrite HXT, Em. cbn [andb]. symmetry. apply ov_unrel; auto.
        * unfold x_isdir. rewrite HXT, Em. auto.
        * discriminate.
        * intros _. split; [discriminate|]. exists e. auto.
        * exists st'. split; auto.
    - (* the directory is created by this call *)
      destruct Htok as [(-> & _ & H0)|(P & a & -> & HP)]; [congruence|].
      set (T := P ++ [a]) in *.
      destruct (step_remove sd P a st X I L0 Hpc HP) as (st1 & E1 & I1 & L1 & M1 & Hpc1 & N1). fold T in E1, I1, L1, M1, Hpc1. rewrite E1, bind_ret.
      set (fs1 := c_fs st1) in *.
      set (removed := o_replace o && match X T with Some e => negb (is_dir sd && is_dir (x_d e)) | None => false end) in *.
      set (X1 := if removed then touch P (xrm T X) else X) in *.
      assert (HPT : T <> P) by apply snoc_ne_parent.
      assert (F1 : x_isdir (X1 P) = true).
      { unfold X1. destruct removed; auto. rewrite touch_isdir, xrm_unrel; auto. apply parent_unrel. }
      assert (F2 : X1 T = None).
      { unfold X1, removed. destruct (X T) as [e|] eqn:EX.
        - unfold x_isdir in Em. rewrite Hd, Em. cbn [andb negb].
          destruct (o_replace o) eqn:Er; cbn [andb].
          + rewrite touch_other by auto. apply xrm_self.
          + exfalso. specialize (Hnc Er). cbn [first_conflict n] in Hnc. fold T in Hnc. rewrite EX, Hd, Em in Hnc. discriminate.
        - rewrite andb_false_r. auto. }
      assert (F3 : forall b r, X (T ++ b :: r) = None).
      { intros b r. destruct (X T) as [e|] eqn:EX.
        - eapply x_none_below_nondir; eauto.
        - eapply x_none_below; eauto. }
      assert (F3' : forall b r, X1 (T ++ b :: r) = None).
      { intros b r. unfold X1. destruct removed; auto. rewrite touch_other by apply below_ne_parent. apply xrm_below. }
      assert (F4 : forall q, strip_prefix T q = None -> touch P X1 q = touch P X q).
      { intros q Hq. unfold X1. destruct removed; auto. rewrite touch_idem.
        apply touch_ext; apply xrm_unrel; auto. apply parent_unrel. }
      clearbody X1. clear removed.
      pose proof (inv_lstat _ _ _ T I1) as HL1. rewrite F2 in HL1.
      unfold copy_dir_only. fold fs1. destruct (lstat fs1 T) eqn:ELs; [contradiction|].
      unfold k_mkdir.
      destruct (inv_k_new o _ _ P a (o_umask o) S_IFDIR (N.land (perm12 sd) 1023) 0 [] [] I1 F2 F1)
        as (fs2 & j & E2 & Hj & Hjd & Hn2 & Hi2 & Hu2 & Hf2 & I2).
      fold T in E2, Hn2, Hu2, Hf2, I2. rewrite E2.
      set (newd := new_dent (o_umask o) (inodes fs1 j) S_IFDIR (N.land (perm12 sd) 1023) 0 [] []) in *.
      specialize (I2 (xex newd (KNew T) false) (dm_xex _ _ _ _) (or_introl eq_refl)).
      assert (L2 : Lk fs2 (xupd T (Some (xex newd (KNew T) false)) (touch P X1)) (c_imap st1)).
      { eapply (Lk_new o ms multi sdof S fs1); eauto. }
      destruct (dir_tail nm ino sd kids sc T ow X (with_fs st1 fs2)
                  (xupd T (Some (xex newd (KNew T) false)) (touch P X1)) (xex newd (KNew T) false) true
                  (lstat (c_fs st) T)) as (st' & Q1 & Q2 & Q3 & Q4 & Q5); auto.
      + right. exists P, a. auto.
      + apply xupd_same.
      + cbn [xex x_d]. apply N.eqb_eq. unfold newd. apply ftype_new_dent. reflexivity.
      + intros b r. rewrite xupd_other by apply below_ne. rewrite touch_other by apply below_ne_parent.
        rewrite F3, F3'. auto.
      + intros q Hq. rewrite xupd_other by (apply unrel_ne; auto). rewrite F4 by auto.
        unfold res. cbn [sdent]. rewrite Hd, Em. cbn [andb]. fold T.
        assert (Hpar : parent T = P) by apply parent_snoc. rewrite Hpar. symmetry.
        apply touch_ext; [apply ov_unrel, parent_unrel|apply ov_unrel; auto].
      + intros k Hin Hr. specialize (Hnc Hr). cbn [first_conflict n] in Hnc. fold T in Hnc.
        rewrite (first_conflict_ext X (fun _ => None)).
        * destruct k; reflexivity.
        * intro r. rewrite <- app_assoc. apply F3.
      + rewrite Em. auto.
      + intros _. cbn [xex x_d x_key]. unfold newd. rewrite ftype_new_dent by reflexivity. repeat split; auto.
      + discriminate.
      + exists st'. split; auto. split; auto. split; auto. split; [eapply IM_trans; eauto|]. rewrite Q5. cbn [with_fs c_notifs]. rewrite N1. reflexivity.
  Qed.

  Theorem copy_node_ok : forall n, wf_s n -> cons_s n -> node_ok n.
  Proof.
    induction n as [nm ino sd kids IH] using snode_ind2. intros Hwf Hcs.
    apply wf_s_unfold in Hwf. destruct Hwf as (Hwd & Hk & Hnd & Hall).
    apply cons_s_unfold in Hcs. destruct Hcs as (Hc1 & Hc2).
    destruct (is_dir sd) eqn:Hd.
    - apply copy_dir_ok; auto. rewrite Forall_forall in *. auto.
    - rewrite (Hk eq_refl). apply copy_file_ok; auto.
  Qed.
End Node.
