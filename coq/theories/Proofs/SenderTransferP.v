(* C11 — composition with the receiver (Proofs/ReceiveP.receive_fresh_proof): what the sender
   announces and delivers for a filtered source satisfies the receiver theorem's hypotheses, so
   the transfer does not fail and the destination shows exactly the filtered view with the
   source's bytes. *)
From Coq Require Import List NArith Bool Lia Sorting.Sorted.
From FS Require Model.Walk Proofs.WalkP.
From FS Require Import Sx Model.Path Model.Stat Model.Tree Model.Pattern Model.FilterWalk
  Model.Hardlinks Model.Validator Model.Diff Model.AbsDest Model.SenderView
  Proofs.Lex Proofs.PathP Proofs.PatternP Proofs.FilterP Proofs.ValidatorP Proofs.DiffP
  Proofs.AbsDestP Proofs.ReceiveP Proofs.HardlinksP Proofs.RefValidP Proofs.SenderViewP.
Import ListNotations.
Open Scope bool_scope.

Definition keq2 (s' s : stat) : Prop :=
  keq s' s /\ special_bits (st_mode s') = special_bits (st_mode s).

Lemma is_reg_keq2 s' s : keq2 s' s -> is_reg s' = is_reg s.
Proof.
  intros [(_ & H1 & H2 & _) H3]. unfold is_reg, st_is_dir, is_special.
  change (has_bits (st_mode s') ModeDevice || has_bits (st_mode s') ModeNamedPipe) with (special_bits (st_mode s')).
  change (has_bits (st_mode s) ModeDevice || has_bits (st_mode s) ModeNamedPipe) with (special_bits (st_mode s)).
  rewrite H1, H2, H3. reflexivity.
Qed.

Lemma is_reg_mode s t : st_mode s = st_mode t -> is_reg s = is_reg t.
Proof. intros E. unfold is_reg, st_is_dir, is_special. rewrite E. reflexivity. Qed.

(* AbsDest.is_node IS Hardlinks.hl_plain: neither directory nor symbolic link *)
Lemma is_node_plain s : is_node s = hl_plain s.
Proof. reflexivity. Qed.

Lemma is_reg_plain s : is_reg s = true -> hl_plain s = true.
Proof.
  unfold is_reg, hl_plain, st_is_dir. rewrite !andb_true_iff. intros [[H1 _] H2]. auto.
Qed.

Lemma orig_rep_keq s' s : keq s' s -> orig_rep s' = orig_rep s.
Proof. intros (E1 & _ & _ & E2). unfold orig_rep. rewrite E1, E2. reflexivity. Qed.

Lemma efind_map (g : stat -> bytes) l p :
  efind p (map (fun s => (s, g s)) l) =
  option_map (fun s => (s, g s)) (find (fun s => bytes_eqb (st_path s) p) l).
Proof.
  unfold efind. induction l as [|s l IH]; [reflexivity|]. cbn [map find fst].
  destruct (bytes_eqb (st_path s) p); [reflexivity|exact IH].
Qed.

Lemma first_rep_some l s : In s l -> hl_plain s = true -> exists r, first_rep l (orig_rep s) = Some r.
Proof.
  induction l as [|x l IH]; intros Hin Hp; [destruct Hin|]. cbn [first_rep].
  destruct (hl_plain x && bytes_eqb (orig_rep x) (orig_rep s)) eqn:E; [eauto|].
  destruct Hin as [->|Hin]; [|auto].
  rewrite Hp, bytes_eqb_refl in E. discriminate.
Qed.

Lemma first_rep_before pre s post k r :
  hl_plain s = true -> orig_rep s = k -> first_rep (pre ++ s :: post) k = Some r ->
  r = st_path s \/ exists t, In t pre /\ st_path t = r /\ hl_plain t = true /\ orig_rep t = k.
Proof.
  intros Hp Hk H. rewrite first_rep_app in H. destruct (first_rep pre k) as [x|] eqn:E.
  - inversion H; subst x. right. destruct (first_rep_in _ _ _ E) as (b & Hb & X). exists b. auto.
  - cbn [first_rep] in H. rewrite Hp, Hk, bytes_eqb_refl in H. inversion H. left. reflexivity.
Qed.

Section Transfer.
Variable pmatch : bytes -> bytes -> bool.
Variable mapfn : bytes -> stat -> mres * stat.
Variable c : cfg.
Hypothesis Hshape : map_keeps_shape mapfn.
Hypothesis Hdirs : map_never_drops_dirs mapfn.
Hypothesis Hspecial : map_keeps_special mapfn.
Variable view : list node.
Hypothesis Hwf : wf_source view = true.
Hypothesis Hlinks : source_links_ok view = true.
Hypothesis Hcoh : groups_coherent view.
Hypothesis Hnls : all_paths (nls_path pmatch c) view = true.

Notation l := (filter_walk pmatch mapfn c view).
Notation f := (reset_spec_entry (filter_walk pmatch mapfn c view)).
Notation sv := (sender_view pmatch mapfn c view).
Notation sent := (sent_content pmatch c view).

Lemma sv_eq : sv = map f l.
Proof. apply sv_spec; auto. Qed.

Lemma walk_nodup : NoDup (map (fun e : Tree.entry => st_path (fst e)) (walk_root view)).
Proof. exact (proj2 (WalkP.view_walk_sorted_proof view (wf_source_walkp view Hwf))). Qed.

Lemma content_at_in ss bs : In (ss, bs) (walk_root view) -> content_at view (st_path ss) = bs.
Proof.
  intros Hin. unfold content_at.
  destruct (find (fun e : Tree.entry => bytes_eqb (st_path (fst e)) (st_path ss)) (walk_root view)) as [e|] eqn:E.
  - apply find_some in E. destruct E as [He Ee]. apply bytes_eqb_eq in Ee.
    assert (X : e = (ss, bs)).
    { apply (NoDup_map_inj_in (fun x : Tree.entry => st_path (fst x)) (walk_root view) walk_nodup); auto. }
    rewrite X. reflexivity.
  - exfalso. pose proof (find_none _ _ E (ss, bs) Hin) as X. cbn [fst] in X. rewrite bytes_eqb_refl in X. discriminate.
Qed.

Lemma fw_entry s : In s l -> exists ss bs, In (ss, bs) (walk_root view) /\ keq2 s ss.
Proof.
  intros Hin.
  assert (HK : forall p s0, keq2 (snd (mapfn p s0)) s0) by (intros p s0; split; [apply Hshape|apply Hspecial]).
  destruct (rsub_in _ _ _ (fw_rsub_gen pmatch mapfn c keq2 HK view Hwf) s Hin) as ([ss bs] & He & Hk).
  exists ss, bs. auto.
Qed.

Lemma sent_eq s : In s l -> st_is_dir s = false -> sent (st_path s) = content_at view (st_path s).
Proof.
  intros Hin Hnd. unfold sent_content.
  rewrite (reported_file_opens pmatch mapfn c Hshape view Hwf Hnls s Hin Hnd). reflexivity.
Qed.

Lemma f_shape s : st_path (f s) = st_path s /\ st_mode (f s) = st_mode s.
Proof. apply reset_spec_entry_shape. Qed.

Lemma is_reg_f s : is_reg (f s) = is_reg s.
Proof. apply is_reg_mode. apply f_shape. Qed.

Lemma is_node_f s : is_node (f s) = is_node s.
Proof. apply is_node_mode_eq. apply f_shape. Qed.

Lemma fw_sorted : sorted l.
Proof. exact (proj1 (proj1 (fw_wf_listing pmatch mapfn c Hshape Hdirs view Hwf))). Qed.

Lemma sender_links_ok : links_ok (sender_entries pmatch mapfn c view).
Proof.
  intros sb bb Hin Hhl. unfold sender_entries in Hin. rewrite sv_eq in Hin.
  apply in_map_iff in Hin. destruct Hin as (sb' & E & Hsb'). inversion E; subst sb' bb. clear E.
  apply in_map_iff in Hsb'. destruct Hsb' as (s & <- & Hs).
  unfold is_hardlink in Hhl. apply andb_true_iff in Hhl. destruct Hhl as [Hreg Hln].
  rewrite is_node_f in Hreg. pose proof Hreg as Hp. rewrite is_node_plain in Hp.
  destruct (first_rep_some l s Hs Hp) as (r & Hr).
  assert (Efs : f s = if bytes_eqb r (st_path s) then set_linkname s [] else set_linkname s r).
  { unfold reset_spec_entry. rewrite Hp. cbn [negb]. rewrite Hr. reflexivity. }
  destruct (bytes_eqb r (st_path s)) eqn:Ers.
  { rewrite Efs in Hln. cbn in Hln. discriminate. }
  apply bytes_eqb_neq in Ers.
  destruct (in_split _ _ Hs) as (pre & post & El).
  assert (Hr' := Hr). rewrite El in Hr'.
  destruct (first_rep_before pre s post _ r Hp eq_refl Hr') as [X|(t & Ht & Ept & Hpt & Eot)]; [congruence|].
  assert (Htl : In t l) by (rewrite El; apply in_or_app; auto).
  (* the representative is emitted with empty link name *)
  assert (Eft : f t = set_linkname t []).
  { unfold reset_spec_entry. rewrite Hpt. cbn [negb]. rewrite Eot, Hr, <- Ept, bytes_eqb_refl. reflexivity. }
  (* same inode in the source: same bytes, same type *)
  destruct (fw_entry s Hs) as (ss & bs & Hss & Hks). destruct (fw_entry t Htl) as (ts & bt & Hts & Hkt).
  assert (Hcoh' : bs = bt /\ st_mode ss = st_mode ts).
  { apply (Hcoh ss bs ts bt Hss Hts).
    - rewrite <- (keq_plain _ _ (proj1 Hks)). exact Hp.
    - rewrite <- (keq_plain _ _ (proj1 Hkt)). exact Hpt.
    - rewrite <- (orig_rep_keq _ _ (proj1 Hks)), <- (orig_rep_keq _ _ (proj1 Hkt)). symmetry. exact Eot. }
  destruct Hcoh' as [Eb Em].
  assert (Hregt : is_reg t = is_reg s).
  { rewrite (is_reg_keq2 _ _ Hkt), <- (is_reg_mode _ _ Em), <- (is_reg_keq2 _ _ Hks). reflexivity. }
  assert (Hnt : is_node t = true) by (rewrite is_node_plain; exact Hpt).
  exists (f t), (sent (st_path (f t))). repeat split.
  - unfold sender_entries. rewrite sv_eq. apply in_map_iff. exists (f t). split; auto. apply in_map; auto.
  - rewrite (proj1 (f_shape t)), Efs. cbn [set_linkname st_linkname]. exact Ept.
  - rewrite (proj1 (f_shape t)), (proj1 (f_shape s)).
    pose proof fw_sorted as HS. unfold sorted in HS. rewrite El in HS.
    destruct (SS_app_inv _ _ _ _ HS) as [Hbefore _]. rewrite Forall_forall in Hbefore. apply (Hbefore t Ht).
  - rewrite is_node_f. exact Hnt.
  - rewrite !is_reg_f, Hregt. auto.
  - rewrite (proj1 (f_shape t)), (proj1 (f_shape s)).
    rewrite (sent_eq t Htl) by (apply is_node_not_dir; auto).
    rewrite (sent_eq s Hs) by (apply is_node_not_dir; auto).
    rewrite (proj1 (proj1 Hks)), (proj1 (proj1 Hkt)).
    rewrite (content_at_in _ _ Hss), (content_at_in _ _ Hts). symmetry. exact Eb.
Qed.

Lemma fst_sender_entries : map fst (sender_entries pmatch mapfn c view) = sv.
Proof. unfold sender_entries. rewrite map_map. cbn [fst]. apply map_id. Qed.

(* for a regular entry of the stream the bytes delivered are the source's bytes *)
Lemma sent_regular s : In s sv -> is_reg s = true -> sent (st_path s) = content_at view (st_path s).
Proof.
  intros Hin Hreg. rewrite sv_eq in Hin. apply in_map_iff in Hin. destruct Hin as (s0 & <- & Hs0).
  rewrite is_reg_f in Hreg. rewrite (proj1 (f_shape s0)). apply sent_eq; auto. apply is_reg_not_dir; auto.
Qed.

Theorem filtered_transfer_converges_proof (H : bytes -> bytes) (hdr : stat -> bytes) (d : differ) (A : list AbsDest.entry) :
  wf_listing (map fst A) ->
  identity_faithful d A (filtered_entries pmatch mapfn c view) ->
  (* the receiver gives a hard link the metadata of the inode it joins (AbsDest.link_stat), not
     the stat as sent: the members of a link group must be announced with one metadata *)
  links_meta (sender_entries pmatch mapfn c view) ->
  let r := receive_abs H hdr Fresh d A (sender_entries pmatch mapfn c view) in
  ds_err r = false /\
  forall p, view_equiv (alookup p (ds_map r)) (efind p (filtered_entries pmatch mapfn c view)).
Proof.
  intros HwA Hfaith Hmeta. cbv zeta.
  assert (HwB : wf_listing (map fst (sender_entries pmatch mapfn c view))).
  { rewrite fst_sender_entries. exact (proj1 (sv_wf_listing pmatch mapfn c Hshape Hdirs view Hwf Hlinks)). }
  assert (Hfaith' : identity_faithful d A (sender_entries pmatch mapfn c view)).
  { intros sa ba sb bb Ha Hb Ep Hsame Hreg. unfold sender_entries in Hb.
    apply in_map_iff in Hb. destruct Hb as (s & E & Hs). inversion E; subst s bb. clear E.
    rewrite (sent_regular sb Hs Hreg).
    apply (Hfaith sa ba sb (content_at view (st_path sb)) Ha); auto.
    unfold filtered_entries. apply in_map_iff. exists sb. auto. }
  destruct (receive_fresh_proof H hdr d A _ HwA HwB sender_links_ok Hfaith' Hmeta) as (He & _ & Hv & _).
  split; [exact He|]. intros p. specialize (Hv p).
  unfold sender_entries in Hv. unfold filtered_entries.
  rewrite (efind_map (fun s => sent (st_path s))) in Hv. rewrite (efind_map (fun s => content_at view (st_path s))).
  destruct (find (fun s => bytes_eqb (st_path s) p) sv) as [s|] eqn:Ef; cbn [option_map] in *; [|exact Hv].
  apply find_some in Ef. destruct Ef as [Hs _].
  destruct (alookup p _) as [x|]; [|exact Hv]. cbn [view_equiv] in *.
  destruct Hv as [H1 H2]. split; auto. intros Hreg. rewrite <- (sent_regular s Hs Hreg). auto.
Qed.

End Transfer.
