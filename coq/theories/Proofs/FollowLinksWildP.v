(* Closure of the FollowLinks result w.r.t. the independent resolver WITH wildcards
   (result_closed, result_closed_selfmatch).

   FollowLinksClosedP.v proves closure for pattern-free inputs through a single-outcome
   resolver [cres1].  Here the same argument is carried out directly on [cresolve]
   (a LIST of outcomes, one per wildcard expansion) with a pointwise refinement
   between outcome lists.  New cases: a request whose last component is a pattern
   (the wildcard branch of readSymlink), and link-target components that contain
   pattern characters but match exactly the entries named like themselves. *)
From Coq Require Import List NArith Bool Lia Arith.
From FS Require Import Sx Model.Path Model.Stat Model.Tree Model.FollowLinks Proofs.Lex Proofs.PathP
     Proofs.FollowLinksP Proofs.FollowLinksClosedP.
Import ListNotations.
Open Scope N_scope.
Open Scope bool_scope.

Notation item := (bytes * bool)%type (only parsing).

(* ------------------------------------------------------------------ tree facts *)
Lemma node_names_eq n : node_names n = node_name n :: forest_names (node_kids n).
Proof. destruct n as [a s c kids]. reflexivity. Qed.

Lemma forest_names_incl k kids : In k kids -> incl (node_names k) (forest_names kids).
Proof.
  induction kids as [|a kids IH]; intros H x Hx; [destruct H|]. simpl. apply in_or_app.
  destruct H as [->|H]; [left; auto|right; apply IH; auto].
Qed.

Lemma dir_at_names kids h ks n :
  dir_at kids h = Some ks -> In n ks -> In (node_name n) (forest_names kids).
Proof.
  revert kids; induction h as [|c h IH]; intros kids H Hn; simpl in H.
  - inversion H; subst. apply (forest_names_incl n ks Hn). rewrite node_names_eq. left; reflexivity.
  - destruct (find_kid c kids) as [k|] eqn:E; [|discriminate]. destruct (node_is_dir k); [|discriminate].
    apply find_kid_In in E. destruct E as [Hk _]. apply (forest_names_incl k kids Hk).
    rewrite node_names_eq. right. apply IH; auto.
Qed.

Lemma find_kid_none c kids : ~ In c (map node_name kids) -> find_kid c kids = None.
Proof.
  induction kids as [|k r IH]; intros H; [reflexivity|]. simpl.
  destruct (bytes_eqb (node_name k) c) eqn:E.
  - exfalso. apply H. left. apply bytes_eqb_eq. exact E.
  - apply IH. intros Hc. apply H. right. exact Hc.
Qed.

Lemma find_kid_distinct kids n :
  names_distinct (map node_name kids) = true -> In n kids -> find_kid (node_name n) kids = Some n.
Proof.
  induction kids as [|k r IH]; intros Hd Hn; [destruct Hn|]. simpl in Hd. apply andb_true_iff in Hd.
  destruct Hd as [Hk Hr]. apply negb_true_iff in Hk. simpl. destruct Hn as [->|Hn].
  - rewrite bytes_eqb_refl. reflexivity.
  - destruct (bytes_eqb (node_name k) (node_name n)) eqn:E; [|apply IH; auto].
    exfalso. apply bytes_eqb_eq in E. apply mem_false in Hk. apply Hk. rewrite E. apply in_map. exact Hn.
Qed.

Lemma dir_at_distinct kids h ks :
  forallb wf_node kids = true -> names_distinct (map node_name kids) = true ->
  dir_at kids h = Some ks -> names_distinct (map node_name ks) = true.
Proof.
  revert kids; induction h as [|c h IH]; intros kids Hw Hd H; simpl in H; [inversion H; subst; auto|].
  destruct (find_kid c kids) as [n|] eqn:E; [|discriminate]. destruct (node_is_dir n); [|discriminate].
  pose proof (wf_find_kid _ _ _ Hw E) as Hn. rewrite wf_node_eq in Hn. rewrite !andb_true_iff in Hn.
  destruct Hn as [[_ Hnd] Hk]. apply (IH (node_kids n)); auto.
Qed.

Lemma dir_at_read_dir view cur kids : dir_at view cur = Some kids -> read_dir view cur = Some kids.
Proof.
  destruct cur as [|d cur0] using rev_ind; intros H; [exact H|].
  rewrite dir_at_app in H. destruct (dir_at view cur0) as [k0|] eqn:E0; [|discriminate].
  simpl in H. destruct (find_kid d k0) as [nd|] eqn:Ek; [|discriminate].
  destruct (node_is_dir nd) eqn:Edir; [|discriminate]. inversion H; subst.
  unfold read_dir. rewrite (lookup_dir_at view cur0 d k0 E0), Ek, Edir.
  destruct (cur0 ++ [d]) eqn:E; [destruct cur0; discriminate|reflexivity].
Qed.

(* ------------------------------------------------------------------ the resolver, unfolded once *)
Section PhysL.
Variable gmatch : bytes -> bytes -> bool.
Variable view : list node.

Definition enter (f : nat) (here : list bytes) (rest : list item) (trav : list (list bytes)) (n : node)
  : list cres :=
  let p := here ++ [node_name n] in
  if node_is_symlink n then
    match f with
    | O => [mkc (p :: trav) Failed]
    | S f' =>
      let l := node_link n in
      if is_nil l then [mkc (p :: trav) Failed]
      else cresolve gmatch view f' (if is_abs l then [] else here) (lit (comps l) ++ rest) (p :: trav)
    end
  else cresolve gmatch view f p rest trav.

Lemma cresolve_eq2 f here todo trav :
  cresolve gmatch view f here todo trav =
  match todo with
  | [] => [mkc trav (Reached here)]
  | (c, g) :: rest =>
    match dir_at view here with
    | None => [mkc trav Failed]
    | Some kids =>
      if is_triv c then cresolve gmatch view f here rest trav
      else if is_dotdot c then cresolve gmatch view f (removelast here) rest trav
      else if g && contains_wildcards c then
        flat_map (fun n => if gmatch c (node_name n) then enter f here rest trav n else []) kids
      else match find_kid c kids with
           | None => [mkc trav Failed]
           | Some n => enter f here rest trav n
           end
    end
  end.
Proof. destruct f; destruct todo as [|[c g] rest]; reflexivity. Qed.

Lemma cresolve_nodir f here todo trav : dir_at view here = None ->
  cresolve gmatch view f here todo trav =
  [mkc trav (match todo with [] => Reached here | _ => Failed end)].
Proof. intros H. rewrite cresolve_eq2. destruct todo as [|[c g] rest]; [reflexivity|]. rewrite H. reflexivity. Qed.

Lemma cresolve_trav : forall f todo here trav o,
  In o (cresolve gmatch view f here todo trav) -> incl trav (traversed o).
Proof.
  induction f as [f IHf] using lt_wf_ind. induction todo as [|[c g] rest IH]; intros here trav o Ho.
  - rewrite cresolve_eq2 in Ho. destruct Ho as [<-|[]]. apply incl_refl.
  - rewrite cresolve_eq2 in Ho.
    destruct (dir_at view here) as [kids|]; [|destruct Ho as [<-|[]]; apply incl_refl].
    assert (Henter : forall n, In o (enter f here rest trav n) -> incl trav (traversed o)).
    { intros n Hn. unfold enter in Hn. destruct (node_is_symlink n); [|apply (IH _ _ _ Hn)].
      destruct f as [|f']; [destruct Hn as [<-|[]]; apply incl_tl, incl_refl|].
      destruct (is_nil (node_link n)); [destruct Hn as [<-|[]]; apply incl_tl, incl_refl|].
      eapply incl_tran; [|apply (IHf f' (Nat.lt_succ_diag_r f') _ _ _ _ Hn)]. apply incl_tl, incl_refl. }
    destruct (is_triv c); [apply (IH _ _ _ Ho)|]. destruct (is_dotdot c); [apply (IH _ _ _ Ho)|].
    destruct (g && contains_wildcards c).
    + apply in_flat_map in Ho. destruct Ho as (n & _ & Hn). destruct (gmatch c (node_name n)); [|destruct Hn].
      apply (Henter n Hn).
    + destruct (find_kid c kids) as [n|]; [apply (Henter n Ho)|destruct Ho as [<-|[]]; apply incl_refl].
Qed.

(* ---- pointwise refinement of outcome lists ---- *)
Definition lrefines (A B : list cres) : Prop := forall a, In a A -> exists b, In b B /\ refines a b.

Lemma lrefines_refl A : lrefines A A.
Proof. intros a Ha. exists a. split; [exact Ha|apply refines_refl]. Qed.
Lemma lrefines_trans A B C : lrefines A B -> lrefines B C -> lrefines A C.
Proof.
  intros H1 H2 a Ha. destruct (H1 a Ha) as (b & Hb & Rab). destruct (H2 b Hb) as (c & Hc & Rbc).
  exists c. split; [exact Hc|eapply refines_trans; eauto].
Qed.

(* ---- dropping "" and "." items ---- *)
Inductive droptI : list item -> list item -> Prop :=
| droptI_nil : droptI [] []
| droptI_keep x a b : droptI a b -> droptI (x :: a) (x :: b)
| droptI_drop x a b : is_triv (fst x) = true -> droptI a b -> droptI (x :: a) b.

Lemma droptI_refl a : droptI a a.
Proof. induction a; constructor; auto. Qed.
Lemma droptI_app_l x a b : droptI a b -> droptI (x ++ a) (x ++ b).
Proof. induction x; simpl; [auto|constructor; auto]. Qed.
Lemma droptI_app_r a b x : droptI a b -> droptI (a ++ x) (b ++ x).
Proof. induction 1; simpl; [apply droptI_refl|constructor; auto|apply droptI_drop; auto]. Qed.
Lemma droptI_filter a : droptI a (filter (fun it : item => negb (is_triv (fst it))) a).
Proof.
  induction a as [|x a IH]; simpl; [constructor|].
  destruct (is_triv (fst x)) eqn:E; simpl; [apply droptI_drop; auto|constructor; auto].
Qed.

Lemma cresolve_dropt : forall f a b, droptI a b -> forall here trav,
  lrefines (cresolve gmatch view f here a trav) (cresolve gmatch view f here b trav).
Proof.
  induction f as [f IHf] using lt_wf_ind. induction 1 as [|[c g] a b Hab IH|[c g] a b Hc Hab IH]; intros here trav.
  - apply lrefines_refl.
  - rewrite (cresolve_eq2 f here ((c, g) :: a)), (cresolve_eq2 f here ((c, g) :: b)).
    destruct (dir_at view here) as [kids|]; [|apply lrefines_refl].
    assert (Henter : forall n, lrefines (enter f here a trav n) (enter f here b trav n)).
    { intros n. unfold enter. destruct (node_is_symlink n); [|apply IH].
      destruct f as [|f']; [apply lrefines_refl|]. destruct (is_nil (node_link n)); [apply lrefines_refl|].
      apply IHf; [lia|]. apply droptI_app_l. exact Hab. }
    destruct (is_triv c); [apply IH|]. destruct (is_dotdot c); [apply IH|].
    destruct (g && contains_wildcards c).
    + intros o Ho. apply in_flat_map in Ho. destruct Ho as (n & Hn & Hon).
      destruct (gmatch c (node_name n)) eqn:Eg; [|destruct Hon].
      destruct (Henter n o Hon) as (o' & Ho' & R). exists o'. split; [|exact R].
      apply in_flat_map. exists n. split; [exact Hn|]. rewrite Eg. exact Ho'.
    + destruct (find_kid c kids) as [n|]; [apply Henter|apply lrefines_refl].
  - cbn [fst] in Hc. rewrite (cresolve_eq2 f here ((c, g) :: a)).
    destruct (dir_at view here) as [kids|] eqn:Ed.
    + rewrite Hc. apply IH.
    + rewrite (cresolve_nodir f here b trav Ed). intros o [<-|[]].
      eexists. split; [left; reflexivity|]. split; [apply incl_refl|left; reflexivity].
Qed.

End PhysL.

(* ------------------------------------------------------------------ lexical = physical where it matters *)
Section LexicalL.
Variable gmatch : bytes -> bytes -> bool.
Variable view : list node.
Hypothesis Hwf : forallb wf_node view = true.

Lemma map_fst_lit cs : map fst (lit cs) = cs.
Proof. unfold lit. rewrite map_map. cbn [fst]. apply map_id. Qed.

(* walking again from the root through real directories *)
Lemma cresolve_rewalk : forall b h X f trav ks,
  dir_at view (h ++ b) = Some ks -> Forall normal b ->
  cresolve gmatch view f h (lit b ++ X) trav = cresolve gmatch view f (h ++ b) X trav.
Proof.
  induction b as [|c b IH]; intros h X f trav ks Hd Hn; [rewrite app_nil_r; reflexivity|].
  inversion Hn as [|? ? Hc Hb]; subst. apply normal_iff in Hc. destruct Hc as [Ht Hdd].
  cbn [lit map app]. rewrite cresolve_eq2. rewrite dir_at_app in Hd.
  destruct (dir_at view h) as [kids0|] eqn:Eh; [|discriminate]. simpl in Hd.
  destruct (find_kid c kids0) as [n|] eqn:Ek; [|discriminate].
  destruct (node_is_dir n) eqn:Edir; [|discriminate].
  rewrite Ht, Hdd. cbn [andb]. unfold enter.
  assert (Hns : node_is_symlink n = false).
  { apply wf_dir_not_symlink; auto.
    apply (wf_find_kid c kids0 n); [apply (wf_dir_at view h kids0 Hwf Eh)|exact Ek]. }
  rewrite Hns. destruct (find_kid_In _ _ _ Ek) as [_ Hname]. rewrite Hname.
  replace (h ++ c :: b) with ((h ++ [c]) ++ b) by (rewrite <- app_assoc; reflexivity).
  apply (IH (h ++ [c]) X f trav ks); auto.
  rewrite <- app_assoc. cbn [app]. rewrite dir_at_app, Eh. simpl. rewrite Ek, Edir. exact Hd.
Qed.

(* the cleaned todo list, flags kept *)
Fixpoint normI (base : list bytes) (cs : list item) : list item :=
  match cs with
  | [] => lit base
  | x :: cs' =>
    if is_dotdot (fst x) then normI (removelast base) cs'
    else if is_triv (fst x) then normI base cs'
    else lit base ++ filter (fun it : item => negb (is_triv (fst it))) cs
  end.

Lemma normI_fst : forall cs base, Forall normal base -> leading_dotdot_only (map fst cs) = true ->
  map fst (normI base cs) = norm_clamp (base ++ map fst cs).
Proof.
  induction cs as [|[c g] cs IH]; intros base Hn Hl.
  - cbn [normI map]. rewrite app_nil_r, map_fst_lit. symmetry. apply norm_clamp_normal_id. exact Hn.
  - cbn [map fst leading_dotdot_only] in Hl. cbn [normI fst map].
    destruct (is_dotdot c) eqn:Edd; [|destruct (is_triv c) eqn:Et]; cbn [orb] in Hl.
    + rewrite IH by (auto; apply forall_removelast; auto).
      rewrite !norm_clamp_app_base by (auto; apply forall_removelast; auto).
      cbn [fold_left]. rewrite cstep_dotdot by auto. reflexivity.
    + rewrite IH by auto. rewrite !norm_clamp_app_base by auto. cbn [fold_left].
      rewrite cstep_triv by auto. reflexivity.
    + assert (Hnd : no_dotdot (c :: map fst cs) = true) by (cbn [no_dotdot]; rewrite Edd; exact Hl).
      rewrite norm_clamp_app_base by auto. rewrite fold_cstep_nodotdot by auto.
      rewrite rev_app_distr, !rev_involutive. rewrite map_app, map_fst_lit. f_equal.
      change (c :: map fst cs) with (map fst ((c, g) :: cs)).
      generalize ((c, g) :: cs). intros l. induction l as [|[c1 g1] l IHl]; [reflexivity|].
      cbn [map fst filter]. destruct (is_triv c1); cbn [negb map fst]; rewrite IHl; reflexivity.
Qed.

Lemma cresolve_lexical : forall cs base f rest trav ks,
  dir_at view base = Some ks -> Forall normal base -> leading_dotdot_only (map fst cs) = true ->
  lrefines (cresolve gmatch view f base (cs ++ rest) trav)
           (cresolve gmatch view f [] (normI base cs ++ rest) trav).
Proof.
  induction cs as [|[c g] cs IH]; intros base f rest trav ks Hd Hn Hl.
  - cbn [normI]. rewrite (cresolve_rewalk base [] rest f trav ks) by auto. apply lrefines_refl.
  - cbn [map fst leading_dotdot_only] in Hl. cbn [normI fst].
    destruct (is_dotdot c) eqn:Edd; [|destruct (is_triv c) eqn:Et]; cbn [orb] in Hl.
    + assert (Et : is_triv c = false).
      { unfold is_dotdot in Edd. apply bytes_eqb_eq in Edd. subst c. reflexivity. }
      cbn [app]. rewrite (cresolve_eq2 gmatch view f base ((c, g) :: cs ++ rest)), Hd, Et, Edd.
      destruct (dir_at_removelast view base ks Hd) as [ks' Hd'].
      apply (IH (removelast base) f rest trav ks'); auto. apply forall_removelast; auto.
    + cbn [app]. rewrite (cresolve_eq2 gmatch view f base ((c, g) :: cs ++ rest)), Hd, Et.
      apply (IH base f rest trav ks); auto.
    + rewrite <- app_assoc. rewrite (cresolve_rewalk base [] _ f trav ks) by auto. cbn [app].
      apply cresolve_dropt. apply (droptI_app_r ((c, g) :: cs) _ rest). apply droptI_filter.
Qed.

End LexicalL.

(* ------------------------------------------------------------------ patterns *)
Section Pat.
Variable gmatch : bytes -> bytes -> bool.

(* a component covers an entry named like itself *)
Definition selfc (c : bytes) : bool := if contains_wildcards c then gmatch c c else true.

Lemma pat_prefix_app_same a b z :
  pat_prefix gmatch a a = true -> pat_prefix gmatch (a ++ b) (a ++ z) = pat_prefix gmatch b z.
Proof.
  induction a as [|x a IH]; intros H; [reflexivity|]. cbn [app pat_prefix] in *.
  apply andb_true_iff in H. destruct H as [H1 H2]. rewrite H1. cbn [andb]. apply IH. exact H2.
Qed.

Lemma pat_prefix_snoc a c :
  pat_prefix gmatch a a = true -> selfc c = true -> pat_prefix gmatch (a ++ [c]) (a ++ [c]) = true.
Proof.
  intros Ha Hc. rewrite pat_prefix_app_same by exact Ha. cbn [pat_prefix]. unfold selfc in Hc.
  destruct (contains_wildcards c); [rewrite Hc; reflexivity|rewrite bytes_eqb_refl; reflexivity].
Qed.

Lemma pat_prefix_prefix a w : forall y, pat_prefix gmatch (a ++ w) y = true -> pat_prefix gmatch a y = true.
Proof.
  induction a as [|x a IH]; intros y H; [reflexivity|]. cbn [app pat_prefix] in *.
  destruct y as [|c y]; [discriminate|]. apply andb_true_iff in H. destruct H as [H1 H2].
  rewrite H1. cbn [andb]. apply IH. exact H2.
Qed.

Lemma flat_map_self {A} (m : bytes -> bool) (G : bytes -> list A) c kids :
  (forall k, In k kids -> m (node_name k) = bytes_eqb (node_name k) c) ->
  names_distinct (map node_name kids) = true ->
  flat_map (fun k => if m (node_name k) then G (node_name k) else []) kids =
  match find_kid c kids with Some _ => G c | None => [] end.
Proof.
  induction kids as [|k r IH]; intros Hm Hd; [reflexivity|]. cbn [flat_map find_kid].
  rewrite (Hm k (or_introl eq_refl)). cbn [map names_distinct] in Hd. apply andb_true_iff in Hd.
  destruct Hd as [Hk Hr]. apply negb_true_iff in Hk.
  destruct (bytes_eqb (node_name k) c) eqn:E.
  - apply bytes_eqb_eq in E. rewrite E in *. rewrite IH by (auto; intros; apply Hm; right; auto).
    rewrite find_kid_none; [apply app_nil_r|]. apply mem_false. exact Hk.
  - apply IH; auto. intros; apply Hm; right; auto.
Qed.

End Pat.

(* ------------------------------------------------------------------ the main lemma, with patterns *)
Section MainW.
Variable gmatch : bytes -> bytes -> bool.
Variable view : list node.
Variable reqs : list bytes.
Variable F : fstate.
Hypothesis Hwf : forallb wf_node view = true.
Hypothesis Hwf0 : names_distinct (map node_name view) = true.
Hypothesis HW : forall q, In q (g_calls F) -> Walked gmatch view F q.
Hypothesis HE : forall e, In e (g_expanded F) -> ExpOk gmatch view F e.
Hypothesis HR : g_revisit F = [].
Hypothesis HC : forall q, In q (g_calls F) -> PCN view reqs q.
Hypothesis Hlex : forall l, In l (forest_links view) -> leading_dotdot_only (comps l) = true.

(* [elit c]: reading c as a pattern or literally is the same in this tree *)
Definition elit (c : bytes) : Prop := quasi_literal gmatch view c = true.
Hypothesis Hlinks : forall l, In l (forest_links view) -> Forall elit (comps l).

Lemma elit_self c : elit c -> In c (forest_names view) -> selfc gmatch c = true.
Proof.
  unfold elit, quasi_literal, selfc. intros H Hn. destruct (contains_wildcards c); [|reflexivity].
  cbn [negb orb] in H. unfold selfmatch_only in H. rewrite forallb_forall in H. specialize (H c Hn).
  rewrite bytes_eqb_refl in H. apply eqb_prop in H. exact H.
Qed.

Lemma elit_match c nm :
  elit c -> contains_wildcards c = true -> In nm (forest_names view) -> gmatch c nm = true -> nm = c.
Proof.
  unfold elit, quasi_literal. intros H Hw Hn Hm. rewrite Hw in H. cbn [negb orb] in H.
  unfold selfmatch_only in H. rewrite forallb_forall in H. specialize (H nm Hn). rewrite Hm in H.
  apply eqb_prop in H. apply bytes_eqb_eq. symmetry. exact H.
Qed.

Lemma read_symlink_elit cur c kids :
  dir_at view cur = Some kids -> names_distinct (map node_name kids) = true -> elit c ->
  read_symlink gmatch view cur c = read_symlink1 view cur c.
Proof.
  intros Hd Hdist He. unfold read_symlink. destruct (contains_wildcards c) eqn:Ew; [|reflexivity].
  rewrite (dir_at_read_dir view cur kids Hd).
  rewrite (flat_map_self (gmatch c) (read_symlink1 view cur) c kids); [|
    |exact Hdist].
  - destruct (find_kid c kids) eqn:Ek; [reflexivity|]. unfold read_symlink1, stat_node.
    rewrite (lookup_dir_at view cur c kids Hd), Ek. reflexivity.
  - intros k Hk. pose proof (dir_at_names view cur kids k Hd Hk) as Hn.
    unfold elit, quasi_literal in He. rewrite Ew in He. cbn [negb orb] in He.
    unfold selfmatch_only in He. rewrite forallb_forall in He. specialize (He _ Hn).
    apply eqb_prop in He. exact He.
Qed.

(* [y] is covered by a resolved key read as a pattern list *)
Definition covW (y : list bytes) : Prop :=
  exists e, e <> [] /\ PCN view reqs e /\ mem (key e) (resolved F) = true /\ pat_prefix gmatch e y = true.

Definition postW (trav : list (list bytes)) (r : cres) : Prop :=
  (forall x, In x (traversed r) -> In x trav \/ covW x) /\
  match final r with
  | Reached [] => mem s_dot (resolved F) = true
  | Reached y => covW y
  | Failed => True
  end.

Lemma postW_refines trav a b : refines a b -> postW trav b -> postW trav a.
Proof.
  intros [R1 R2] [P1 P2]. split; [intros x Hx; apply P1; apply R1; exact Hx|].
  destruct R2 as [R2|R2]; rewrite R2; [exact I|exact P2].
Qed.

Lemma postW_weaken x trav r : covW x -> postW (x :: trav) r -> postW trav r.
Proof.
  intros Hx [P1 P2]. split; [|exact P2]. intros y Hy. destruct (P1 y Hy) as [[<-|H]|H]; auto.
Qed.

Lemma postW_failed trav : postW trav (mkc trav Failed).
Proof. split; [intros x Hx; left; exact Hx|exact I]. Qed.

Lemma postW_reached trav y : y <> [] -> covW y -> postW trav (mkc trav (Reached y)).
Proof.
  intros Hne Hc. split; [intros x Hx; left; exact Hx|]. cbn [final mkc].
  destruct y; [congruence|exact Hc].
Qed.

(* all components but the last behave literally *)
Fixpoint abl (q : list bytes) : Prop :=
  match q with
  | [] => True
  | c :: r => match r with [] => True | _ => elit c /\ abl r end
  end.

Lemma abl_tail c r : abl (c :: r) -> abl r.
Proof. destruct r; [intros; exact I|intros [_ H]; exact H]. Qed.
Lemma abl_head c r : r <> [] -> abl (c :: r) -> elit c.
Proof. destruct r; [congruence|intros _ [H _]; exact H]. Qed.
Lemma abl_all q : Forall elit q -> abl q.
Proof.
  induction 1 as [|c r Hc Hr IH]; [exact I|]. cbn [abl]. destruct r; [exact I|split; auto].
Qed.
Lemma abl_app a b : Forall elit a -> abl b -> abl (a ++ b).
Proof.
  induction a as [|c a IH]; intros Ha Hb; [exact Hb|]. inversion Ha as [|? ? Hc Ha']; subst.
  cbn [app abl]. specialize (IH Ha' Hb). destruct (a ++ b); [exact I|]. split; [exact Hc|exact IH].
Qed.

(* items flagged "literal" behave literally *)
Definition fa (todo : list item) : Prop := Forall (fun it : item => snd it = false -> elit (fst it)) todo.

Lemma fa_lit b : Forall elit b -> fa (lit b).
Proof.
  intros H. unfold fa, lit. apply Forall_forall. intros x Hx. apply in_map_iff in Hx.
  destruct Hx as (c & <- & Hc). intros _. cbn [fst]. rewrite Forall_forall in H. auto.
Qed.
Lemma fa_flag cs : fa (map (fun c : bytes => (c, true)) cs).
Proof.
  unfold fa. apply Forall_forall. intros x Hx. apply in_map_iff in Hx. destruct Hx as (c & <- & _).
  cbn [snd]. discriminate.
Qed.
Lemma fa_filter p l : fa l -> fa (filter p l).
Proof.
  unfold fa. rewrite !Forall_forall. intros H x Hx. apply filter_In in Hx. apply H. tauto.
Qed.
Lemma fa_normI : forall cs base, Forall elit base -> fa cs -> fa (normI base cs).
Proof.
  induction cs as [|x cs IH]; intros base Hb Hc; [apply fa_lit; exact Hb|].
  cbn [normI]. inversion Hc as [|? ? Hx Hc']; subst.
  destruct (is_dotdot (fst x)); [apply IH; auto; apply forall_removelast; exact Hb|].
  destruct (is_triv (fst x)); [apply IH; auto|].
  apply Forall_app. split; [apply fa_lit; exact Hb|apply fa_filter; exact Hc].
Qed.

Definition IHF (f : nat) : Prop :=
  forall f', (f' < f)%nat -> forall todo trav,
    In (map fst todo) (g_calls F) -> abl (map fst todo) -> fa todo ->
    forall o, In o (cresolve gmatch view f' [] todo trav) -> postW trav o.

(* following the link [n] found in the real directory [cur] *)
Lemma follow_case f : IHF f ->
  forall cur kids n rest trav,
    dir_at view cur = Some kids -> PCN view reqs cur -> Forall elit cur ->
    lookup view (cur ++ [node_name n]) = Some n -> node_is_symlink n = true ->
    covW (cur ++ [node_name n]) ->
    In (link_target cur (node_link n) ++ map fst rest) (g_calls F) ->
    abl (map fst rest) -> fa rest ->
    forall o, In o (enter gmatch view f cur rest trav n) -> postW trav o.
Proof.
  intros IHf cur kids n rest trav Ed Hcur Hel Hlk Es Hcov Hcall Habl Hfa o Ho.
  unfold enter in Ho. rewrite Es in Ho.
  assert (Hfail : postW trav (mkc ((cur ++ [node_name n]) :: trav) Failed)).
  { split; [|exact I]. intros x [<-|Hx]; [right; exact Hcov|left; exact Hx]. }
  destruct f as [|f']; [destruct Ho as [<-|[]]; exact Hfail|].
  destruct (is_nil (node_link n)); [destruct Ho as [<-|[]]; exact Hfail|].
  assert (Hlin : In (node_link n) (forest_links view)) by (eapply lookup_link; eauto).
  unfold link_target in Hcall.
  set (l := node_link n) in *. set (base := if is_abs l then [] else cur) in *.
  apply (postW_weaken (cur ++ [node_name n])); [exact Hcov|].
  assert (Hbase : exists ks, dir_at view base = Some ks /\ Forall normal base /\ Forall elit base).
  { unfold base. destruct (is_abs l); [exists view; repeat split; constructor|].
    exists kids. split; [exact Ed|]. split; [apply (PCN_normal view reqs); exact Hcur|exact Hel]. }
  destruct Hbase as (ks & Hbd & Hbn & Hbe).
  assert (Hl2 : leading_dotdot_only (map fst (lit (comps l))) = true) by (rewrite map_fst_lit; apply Hlex; exact Hlin).
  destruct (cresolve_lexical gmatch view Hwf (lit (comps l)) base f' rest _ ks Hbd Hbn Hl2 o Ho) as (o' & Ho' & R).
  apply (postW_refines _ _ _ R).
  assert (Hfst : map fst (normI base (lit (comps l)) ++ rest) = norm_clamp (base ++ comps l) ++ map fst rest).
  { rewrite map_app, normI_fst by auto. rewrite map_fst_lit. reflexivity. }
  refine (IHf f' (Nat.lt_succ_diag_r f') _ _ _ _ _ o' Ho').
  - rewrite Hfst. exact Hcall.
  - rewrite Hfst. apply abl_app; [|exact Habl]. apply norm_clamp_forall. apply Forall_app. split; [exact Hbe|apply Hlinks; exact Hlin].
  - apply Forall_app. split; [|exact Hfa]. apply fa_normI; [exact Hbe|]. apply fa_lit. apply Hlinks. exact Hlin.
Qed.

Lemma innerW : forall f, IHF f ->
  forall (rest : list item) cur trav, PCN view reqs cur -> PCN view reqs (map fst rest) -> rest <> [] ->
    Forall elit cur -> pat_prefix gmatch cur cur = true -> abl (map fst rest) -> fa rest ->
    walk_ok gmatch view F cur (map fst rest) ->
    forall o, In o (cresolve gmatch view f cur rest trav) -> postW trav o.
Proof.
  intros f IHf. induction rest as [|[c g] rest IH]; intros cur trav Hcur Hrest Hne Hel Hsc Habl Hfa Hwalk o Ho; [congruence|].
  cbn [map fst] in Hrest, Habl, Hwalk.
  inversion Hrest as [|? ? [Hcp Hcn] Hrest']; subst.
  inversion Hfa as [|? ? Hfa1 Hfa']; subst. cbn [fst snd] in Hfa1.
  rewrite cresolve_eq2 in Ho.
  destruct (dir_at view cur) as [kids|] eqn:Ed; [|destruct Ho as [<-|[]]; apply postW_failed].
  apply normal_iff in Hcn. destruct Hcn as [Et Edd]. rewrite Et, Edd in Ho.
  pose proof (dir_at_distinct view cur kids Hwf Hwf0 Ed) as Hdist.
  assert (Hkid : o = mkc trav Failed \/
            exists n, In n kids /\ In o (enter gmatch view f cur rest trav n) /\
              ((g && contains_wildcards c = false /\ node_name n = c) \/
               (g && contains_wildcards c = true /\ gmatch c (node_name n) = true))).
  { destruct (g && contains_wildcards c) eqn:Eg.
    - apply in_flat_map in Ho. destruct Ho as (n & Hn & Hon).
      destruct (gmatch c (node_name n)) eqn:Egm; [|destruct Hon].
      right. exists n. split; [exact Hn|]. split; [exact Hon|]. right. split; [reflexivity|exact Egm].
    - destruct (find_kid c kids) as [n|] eqn:Ek; [|left; destruct Ho as [<-|[]]; reflexivity].
      destruct (find_kid_In _ _ _ Ek) as [Hin Hname]. right. exists n. split; [exact Hin|].
      split; [exact Ho|]. left. split; [reflexivity|exact Hname]. }
  destruct Hkid as [->|(n & Hin & Hon & Hcase)]; [apply postW_failed|].
  pose proof (find_kid_distinct kids n Hdist Hin) as Hfk.
  assert (Hlk : lookup view (cur ++ [node_name n]) = Some n) by (rewrite (lookup_dir_at view cur _ kids Ed); exact Hfk).
  pose proof (dir_at_names view cur kids n Ed Hin) as Hnm.
  assert (Hcur' : PCN view reqs (cur ++ [c])).
  { apply PCN_app; auto. constructor; [|constructor]. split; auto. apply normal_iff; auto. }
  assert (Hne' : cur ++ [c] <> []) by (destruct cur; discriminate).
  destruct (quasi_literal gmatch view c) eqn:Eq.
  - (* c behaves literally *)
    assert (Hname : node_name n = c).
    { destruct Hcase as [[_ H]|[Hg Hm]]; [exact H|]. apply andb_true_iff in Hg. destruct Hg as [_ Hw].
      apply (elit_match c (node_name n) Eq Hw Hnm Hm). }
    assert (Hrs : read_symlink gmatch view cur c =
                  if node_is_symlink n then [link_target cur (node_link n)] else []).
    { rewrite (read_symlink_elit cur c kids Ed Hdist Eq). unfold read_symlink1, stat_node.
      rewrite <- Hname at 1. rewrite Hlk. reflexivity. }
    assert (Hsc' : pat_prefix gmatch (cur ++ [c]) (cur ++ [c]) = true).
    { apply pat_prefix_snoc; [exact Hsc|]. apply elit_self; [exact Eq|]. rewrite <- Hname. exact Hnm. }
    cbn [walk_ok] in Hwalk. rewrite Hrs in Hwalk.
    destruct (node_is_symlink n) eqn:Es.
    + cbn [is_nil negb] in Hwalk. destruct Hwalk as [Hm [Hexp|Hrev]]; [|rewrite HR in Hrev; destruct Hrev].
      assert (Hcov : covW (cur ++ [c])).
      { exists (cur ++ [c]). repeat split; auto. }
      apply (follow_case f IHf cur kids n rest trav Ed Hcur Hel Hlk Es); auto.
      * rewrite Hname. exact Hcov.
      * pose proof (HE _ Hexp) as Hok. cbn [ExpOk] in Hok. rewrite Hrs in Hok.
        specialize (Hok _ (or_introl eq_refl)).
        rewrite norm_clamp_normal_id in Hok; [exact Hok|].
        apply Forall_app. split; [apply norm_clamp_normal|apply (PCN_normal view reqs); exact Hrest'].
      * apply (abl_tail c). exact Habl.
    + cbn [is_nil negb] in Hwalk. unfold enter in Hon. rewrite Es, Hname in Hon.
      destruct rest as [|x rest2].
      * cbn [map is_nil] in Hwalk. rewrite cresolve_eq2 in Hon. destruct Hon as [<-|[]].
        apply postW_reached; [exact Hne'|]. exists (cur ++ [c]). repeat split; auto.
      * cbn [map is_nil] in Hwalk. apply (IH (cur ++ [c]) trav); auto.
        -- discriminate.
        -- apply Forall_app. split; [exact Hel|]. constructor; [exact Eq|constructor].
        -- apply (abl_tail c). exact Habl.
  - (* c is a real pattern: the last component of a request *)
    assert (Hw : contains_wildcards c = true).
    { unfold quasi_literal in Eq. destruct (contains_wildcards c); [reflexivity|discriminate]. }
    assert (Hrest0 : rest = []).
    { destruct rest as [|x r]; [reflexivity|]. exfalso.
      assert (He : elit c) by (apply (abl_head c (map fst (x :: r))); [discriminate|exact Habl]).
      unfold elit in He. congruence. }
    subst rest.
    assert (Hg : g = true).
    { destruct g; [reflexivity|]. unfold elit in Hfa1. rewrite Hfa1 in Eq by reflexivity. discriminate. }
    subst g.
    destruct Hcase as [[Hc _]|[_ Hm]]; [rewrite Hw in Hc; discriminate|].
    cbn [map walk_ok is_nil] in Hwalk.
    assert (Hkey : mem (key (cur ++ [c])) (resolved F) = true).
    { destruct (negb (is_nil (read_symlink gmatch view cur c))); [destruct Hwalk as [H _]; exact H|exact Hwalk]. }
    assert (Hcov : covW (cur ++ [node_name n])).
    { exists (cur ++ [c]). split; [exact Hne'|]. split; [exact Hcur'|]. split; [exact Hkey|].
      rewrite pat_prefix_app_same by exact Hsc. cbn [pat_prefix]. rewrite Hw, Hm. reflexivity. }
    destruct (node_is_symlink n) eqn:Es.
    + assert (Hin_t : In (link_target cur (node_link n)) (read_symlink gmatch view cur c)).
      { unfold read_symlink. rewrite Hw, (dir_at_read_dir view cur kids Ed). apply in_flat_map.
        exists n. split; [exact Hin|]. rewrite Hm. unfold read_symlink1, stat_node. rewrite Hlk, Es.
        left; reflexivity. }
      destruct (read_symlink gmatch view cur c) as [|t0 ts] eqn:Ers; [destruct Hin_t|].
      cbn [is_nil negb] in Hwalk. destruct Hwalk as [_ [Hexp|Hrev]]; [|rewrite HR in Hrev; destruct Hrev].
      pose proof (HE _ Hexp) as Hok. cbn [ExpOk] in Hok. rewrite Ers in Hok. specialize (Hok _ Hin_t).
      apply (follow_case f IHf cur kids n [] trav Ed Hcur Hel Hlk Es Hcov); [|exact I|constructor|exact Hon].
      cbn [map]. rewrite norm_clamp_normal_id in Hok; [exact Hok|].
      rewrite app_nil_r. unfold link_target. apply norm_clamp_normal.
    + unfold enter in Hon. rewrite Es in Hon. rewrite cresolve_eq2 in Hon. destruct Hon as [<-|[]].
      apply postW_reached; [destruct cur; discriminate|exact Hcov].
Qed.

Lemma mainW : forall f todo trav,
  In (map fst todo) (g_calls F) -> abl (map fst todo) -> fa todo ->
  forall o, In o (cresolve gmatch view f [] todo trav) -> postW trav o.
Proof.
  induction f as [f IHf] using lt_wf_ind. intros todo trav Hq Habl Hfa o Ho.
  destruct todo as [|x r].
  - rewrite cresolve_eq2 in Ho. destruct Ho as [<-|[]]. split; [intros x Hx; left; exact Hx|]. exact (HW [] Hq).
  - refine (innerW f IHf (x :: r) [] trav _ (HC _ Hq) _ _ eq_refl Habl Hfa (HW _ Hq) o Ho).
    + constructor.
    + discriminate.
    + constructor.
Qed.

End MainW.

(* ------------------------------------------------------------------ from resolved keys to the result list *)
Section FinalW.
Variable gmatch : bytes -> bytes -> bool.
Variable view : list node.
Variable reqs : list bytes.

Lemma covW_covered F res y :
  (forall k, In k (resolved F) -> goodkey view reqs k) ->
  finish F = Some res -> covW gmatch view reqs F y -> covered gmatch res y = true.
Proof.
  intros Hgood Hfin (e & Hne & Hpcn & Hm & Hpp).
  assert (Hkey : key e = joinc e) by (destruct e; [congruence|reflexivity]).
  apply mem_In in Hm. destruct (finish_covers F res Hfin _ Hm) as (e' & He & Hc).
  unfold covered. apply existsb_exists. exists e'. split; [exact He|].
  destruct Hc as [->|Hin].
  - rewrite Hkey, (comps_joinc e Hne (PCN_nosep view reqs _ Hpcn)). exact Hpp.
  - pose proof (finish_subset F res Hfin e' He) as HeR.
    destruct (Hgood e' HeR) as [->|(ecs & Hene & Hepcn & ->)].
    + exfalso. assert (Hn : finish F = None) by (apply finish_none_iff; exact HeR). congruence.
    + rewrite Hkey in Hin.
      destruct (inside_joinc ecs e Hene (PCN_nosep view reqs _ Hepcn) (PCN_nosep view reqs _ Hpcn) Hin) as [w ->].
      rewrite (comps_joinc ecs Hene (PCN_nosep view reqs _ Hepcn)).
      apply (pat_prefix_prefix gmatch ecs w y Hpp).
Qed.

(* closure of one request, for ANY bound on the number of links followed by the independent resolver *)
Lemma closed_for_request_w : forall (follows fuel : nat) (res : list bytes) (F : fstate) (r : bytes),
  wf_view view = true ->
  follow_state gmatch view fuel reqs = Ok F ->
  finish F = Some res ->
  g_revisit F = [] ->
  lexical_safe view reqs = true ->
  (forall r, In r reqs -> abl gmatch view (norm_clamp (comps r))) ->
  (forall l, In l (forest_links view) -> Forall (elit gmatch view) (comps l)) ->
  In r reqs ->
  forall o, In o (cresolve gmatch view follows [] (map (fun c => (c, true)) (comps r)) []) ->
  closed_for gmatch false res o = true.
Proof.
  intros follows fuel res F r Hwf EF Hfin HR Hls Hreqs Hlinks Hr o Ho.
  destruct (final_state_facts gmatch view fuel reqs F EF) as (Hreq & HW & HE).
  destruct (final_state_shape gmatch view reqs fuel F EF) as (HC & HK).
  unfold wf_view in Hwf. apply andb_true_iff in Hwf. destruct Hwf as [Hwf0 Hwf'].
  unfold lexical_safe in Hls. apply andb_true_iff in Hls. destruct Hls as [Hls1 Hls2].
  rewrite forallb_forall in Hls1, Hls2.
  set (todo0 := map (fun c : bytes => (c, true)) (comps r)) in *.
  assert (Hfst : map fst todo0 = comps r) by (unfold todo0; rewrite map_map; cbn [fst]; apply map_id).
  assert (Hl : leading_dotdot_only (map fst todo0) = true) by (rewrite Hfst; apply Hls1; exact Hr).
  pose proof (cresolve_lexical gmatch view Hwf' todo0 [] follows [] [] view eq_refl (Forall_nil _) Hl) as Href.
  rewrite !app_nil_r in Href.
  destruct (Href o Ho) as (o' & Ho' & R).
  assert (Hn0 : map fst (normI [] todo0) = norm_clamp (comps r)).
  { rewrite normI_fst by (auto; constructor). cbn [app]. rewrite Hfst. reflexivity. }
  assert (Hpost : postW gmatch view reqs F [] o').
  { refine (mainW gmatch view reqs F Hwf' Hwf0 HW HE HR HC Hls2 Hlinks follows (normI [] todo0) [] _ _ _ o' Ho').
    - rewrite Hn0. apply Hreq. exact Hr.
    - rewrite Hn0. apply Hreqs. exact Hr.
    - apply fa_normI; [constructor|]. apply fa_flag. }
  apply (postW_refines gmatch view reqs F [] _ _ R) in Hpost. destruct Hpost as [P1 P2].
  unfold closed_for. apply andb_true_iff. split.
  - apply forallb_forall. intros x Hx. destruct (P1 x Hx) as [[]|Hc].
    eapply covW_covered; eauto.
  - destruct (final o) as [[|y0 ys]|]; [|eapply covW_covered; eauto|reflexivity].
    exfalso. apply mem_In in P2. assert (Hn : finish F = None) by (apply finish_none_iff; exact P2). congruence.
Qed.

Lemma chroot_resolve_all_eqW p :
  chroot_resolve_all gmatch view p = cresolve gmatch view 40 [] (map (fun c => (c, true)) (comps p)) [].
Proof. reflexivity. Qed.

(* the general form: all but the last component of every (cleaned) request, and every
   component of every link target, behave literally in this tree *)
Theorem result_closed_general : forall (fuel : nat) (isnil : bool) (res : list bytes),
  wf_view view = true ->
  follow_links_opt gmatch view fuel reqs = Ok (if isnil then None else Some res) ->
  no_revisit gmatch view fuel reqs = true ->
  lexical_safe view reqs = true ->
  (forall r, In r reqs -> abl gmatch view (norm_clamp (comps r))) ->
  (forall l, In l (forest_links view) -> Forall (elit gmatch view) (comps l)) ->
  closed_b gmatch view isnil res reqs = true.
Proof.
  intros fuel isnil res Hwf Hres Hnr Hls Hreqs Hlinks.
  unfold closed_b. apply forallb_forall. intros r Hr. apply forallb_forall. intros o Ho.
  destruct isnil; [reflexivity|].
  unfold follow_links_opt in Hres. unfold no_revisit in Hnr.
  destruct (follow_state gmatch view fuel reqs) as [F|] eqn:EF; [|discriminate].
  inversion Hres as [Hfin]. clear Hres.
  assert (HR : g_revisit F = []) by (destruct (g_revisit F); [reflexivity|discriminate]).
  rewrite chroot_resolve_all_eqW in Ho.
  exact (closed_for_request_w 40 fuel res F r Hwf EF Hfin HR Hls Hreqs Hlinks Hr o Ho).
Qed.

Lemma wild_last_only_abl q : wild_last_only_c q = true -> abl gmatch view q.
Proof.
  induction q as [|c q IH]; intros H; [exact I|]. cbn [abl]. destruct q as [|c2 q]; [exact I|].
  cbn [wild_last_only_c] in H. apply andb_true_iff in H. destruct H as [Hc Hq].
  split; [|apply IH; exact Hq]. unfold elit, quasi_literal. rewrite Hc. reflexivity.
Qed.

Lemma wild_last_only_reqs :
  wild_last_only reqs = true -> forall r, In r reqs -> abl gmatch view (norm_clamp (comps r)).
Proof.
  unfold wild_last_only. intros H r Hr. rewrite forallb_forall in H. apply wild_last_only_abl. apply H. exact Hr.
Qed.

Lemma links_literal_elit :
  links_literal view = true -> forall l, In l (forest_links view) -> Forall (elit gmatch view) (comps l).
Proof.
  unfold links_literal, literal_path. intros H l Hl. rewrite forallb_forall in H. specialize (H l Hl).
  rewrite forallb_forall in H. apply Forall_forall. intros c Hc. unfold elit, quasi_literal.
  rewrite (H c Hc). reflexivity.
Qed.

Lemma links_selfmatch_elit :
  links_selfmatch gmatch view = true -> forall l, In l (forest_links view) -> Forall (elit gmatch view) (comps l).
Proof.
  unfold links_selfmatch. intros H l Hl. rewrite forallb_forall in H. specialize (H l Hl).
  rewrite forallb_forall in H. apply Forall_forall. intros c Hc. exact (H c Hc).
Qed.

(* the full closure statement of C18 *)
Theorem result_closed_proof : forall (fuel : nat) (isnil : bool) (res : list bytes),
  wf_view view = true ->
  follow_links_opt gmatch view fuel reqs = Ok (if isnil then None else Some res) ->
  no_revisit gmatch view fuel reqs = true ->
  lexical_safe view reqs = true ->
  wild_last_only reqs = true ->
  links_literal view = true ->
  closed_b gmatch view isnil res reqs = true.
Proof.
  intros fuel isnil res Hwf Hres Hnr Hls Hwl Hll.
  apply (result_closed_general fuel isnil res Hwf Hres Hnr Hls (wild_last_only_reqs Hwl) (links_literal_elit Hll)).
Qed.

(* ... and with link targets whose pattern-like components match only their own text *)
Theorem result_closed_selfmatch_proof : forall (fuel : nat) (isnil : bool) (res : list bytes),
  wf_view view = true ->
  follow_links_opt gmatch view fuel reqs = Ok (if isnil then None else Some res) ->
  no_revisit gmatch view fuel reqs = true ->
  lexical_safe view reqs = true ->
  wild_last_only reqs = true ->
  links_selfmatch gmatch view = true ->
  closed_b gmatch view isnil res reqs = true.
Proof.
  intros fuel isnil res Hwf Hres Hnr Hls Hwl Hll.
  apply (result_closed_general fuel isnil res Hwf Hres Hnr Hls (wild_last_only_reqs Hwl) (links_selfmatch_elit Hll)).
Qed.

End FinalW.
