(* C14 — which operations of the copier model log no read (s_reads unchanged). *)
From Coq Require Import List NArith Bool.
From FS Require Import Sx Model.Path Model.Fs Model.RootPath Model.CopyFs.
Import ListNotations.
Open Scope N_scope.

Definition NR {A} (m : M A) : Prop := forall s s' r, m s = (s', r) -> s_reads s' = s_reads s.

Lemma NR_ret {A} (a : A) : NR (ret a).
Proof. intros s s' r H. inversion H; reflexivity. Qed.
Lemma NR_fail {A} e : NR (@fail A e).
Proof. intros s s' r H. inversion H; reflexivity. Qed.
Lemma NR_bind {A B} (m : M A) (k : A -> M B) : NR m -> (forall a, NR (k a)) -> NR (bind m k).
Proof.
  intros Hm Hk s s' r H. unfold bind in H. destruct (m s) as [s1 [a|e]] eqn:E.
  - rewrite (Hk a s1 s' r H). eapply Hm; eauto.
  - inversion H; subst. eapply Hm; eauto.
Qed.
Lemma NR_sys op : NR (sys op).
Proof. intros s s' r H. unfold sys in H. destruct (op (s_fs s)). inversion H; reflexivity. Qed.
Lemma NR_get_fs : NR get_fs. Proof. intros s s' r H. inversion H; reflexivity. Qed.
Lemma NR_get_links : NR get_links. Proof. intros s s' r H. inversion H; reflexivity. Qed.
Lemma NR_add_link i p : NR (add_link i p). Proof. intros s s' r H. inversion H; reflexivity. Qed.
Lemma NR_forget_links p : NR (forget_links p). Proof. intros s s' r H. inversion H; reflexivity. Qed.
Lemma NR_get_parents : NR get_parents. Proof. intros s s' r H. inversion H; reflexivity. Qed.
Lemma NR_set_parents l : NR (set_parents l). Proof. intros s s' r H. inversion H; reflexivity. Qed.
Lemma NR_expect_ok r : NR (expect_ok r).
Proof. destruct r; first [apply NR_ret|apply NR_fail]. Qed.

Ltac nr :=
  repeat first
    [ progress intros
    | apply NR_ret | apply NR_fail | apply NR_sys | apply NR_get_fs | apply NR_get_links | apply NR_add_link
    | apply NR_forget_links | apply NR_get_parents | apply NR_set_parents | apply NR_expect_ok
    | assumption
    | apply NR_bind
    | match goal with
      | |- NR (match ?x with _ => _ end) => destruct x
      | |- NR (if ?x then _ else _) => destruct x
      | |- NR (let (_, _) := ?x in _) => destruct x
      end ].

Lemma NR_lstat_opt c p : NR (lstat_opt c p). Proof. unfold lstat_opt. nr. Qed.
Lemma NR_lstat_opt_nd c p : NR (lstat_opt_nd c p). Proof. unfold lstat_opt_nd. nr. Qed.
Lemma NR_stat_opt c p : NR (stat_opt c p). Proof. unfold stat_opt. nr. Qed.
Lemma NR_chown_fixed c o p : NR (chown_fixed c o p). Proof. unfold chown_fixed. nr. Qed.
Lemma NR_utimes_opt c p tm : NR (utimes_opt c p tm). Proof. unfold utimes_opt. nr. Qed.
Lemma NR_mkdir_slow recur c o p : (forall q, NR (recur q)) -> NR (mkdir_slow recur c o p).
Proof. intros H. unfold mkdir_slow. nr; try apply H; try apply NR_chown_fixed; try apply NR_utimes_opt; nr. Qed.
Lemma NR_mkdir_all fuel c o : forall p, NR (mkdir_all fuel c o p).
Proof.
  induction fuel as [|k IH]; intros p; cbn [mkdir_all]; [apply NR_fail|].
  apply NR_bind; [apply NR_sys|]. intros r. destruct r; try (apply NR_mkdir_slow; exact IH).
  destruct (kind_is_dir n); nr.
Qed.
Lemma NR_fix_created c root tm : forall dirs, NR (fix_created c root tm dirs).
Proof.
  induction dirs as [|d r IH]; cbn [fix_created]; [apply NR_ret|].
  destruct tm as [t|]; [|apply NR_ret]. intros s s' res H.
  destruct (still_below c (s_fs s) root d); [|eapply IH; eauto].
  destruct (sys (fun f => sys_utimens c f d t) s) as [s1 [rr|e]] eqn:E.
  - pose proof (NR_sys _ _ _ _ E) as E1. destruct rr; try (inversion H; subst; exact E1).
    rewrite <- E1. eapply IH; eauto.
  - inversion H; subst. eapply NR_sys; eauto.
Qed.
Lemma NR_run_fixes c root tm : forall bs, NR (run_fixes c root tm bs).
Proof. induction bs as [|b r IH]; cbn [run_fixes]; [apply NR_ret|]. apply NR_bind; [apply NR_fix_created|intros; exact IH]. Qed.
Lemma NR_copy_file_timestamp c o fi name : NR (copy_file_timestamp c o fi name).
Proof. unfold copy_file_timestamp. nr. Qed.
Lemma NR_copy_file_info c o fi name : NR (copy_file_info c o fi name).
Proof. unfold copy_file_info. nr. Qed.
Lemma NR_set_xattrs c dst : forall xs, NR (set_xattrs c dst xs).
Proof. induction xs as [|[k v] r IH]; cbn [set_xattrs]; nr. Qed.
Lemma NR_remove_target c o t fi tfi : NR (remove_target_if_needed c o t fi tfi).
Proof. unfold remove_target_if_needed. nr. Qed.
Lemma NR_os_remove c p : NR (os_remove c p). Proof. unfold os_remove. nr. Qed.
Lemma NR_ensure_empty c dst : NR (ensure_empty_file_target c dst).
Proof. unfold ensure_empty_file_target. apply NR_bind; [apply NR_lstat_opt|]. nr. Qed.
Lemma NR_copy_directory_only c dst fi ow : NR (copy_directory_only c dst fi ow).
Proof. unfold copy_directory_only. apply NR_bind; [apply NR_lstat_opt|]. nr. Qed.
Lemma NR_copy_device c t fi : NR (copy_device c t fi). Proof. unfold copy_device. nr. Qed.
Lemma NR_prep_rest c o t fi tfi : NR (prep_rest c o t fi tfi).
Proof.
  unfold prep_rest. apply NR_bind; [apply NR_remove_target|]. intros _.
  destruct (kind_is_dir fi); [apply NR_ret|]. apply NR_bind; [destruct tfi; nr|]. intros _. apply NR_ensure_empty.
Qed.
Lemma NR_push_parent sp dp cp : NR (push_parent sp dp cp). Proof. unfold push_parent. nr. Qed.
Lemma NR_pop_parent : NR pop_parent. Proof. unfold pop_parent. nr. Qed.
