(* The selection side of the copier (Model/CopierSel.v): a successful copy materialises exactly
   the entries of the declarative reference over the incremental verdict, in walk order, each
   written as [result] says; parents created on demand carry the source directory's metadata. *)
From Coq Require Import List NArith Lia Bool.
From FS Require Import Sx Model.Path Model.Stat Model.Tree Model.Pattern Model.FilterWalk Model.CopierSel
  Proofs.Lex Proofs.PathP Proofs.ValidatorP Proofs.PatternP Proofs.FilterP Proofs.IncrNaiveP Proofs.RefP
  Proofs.FlatRefP.
Import ListNotations.
Open Scope bool_scope.

(* ---------- finite maps ---------- *)
Lemma fput_at p e fs q : fput p e fs q = if bytes_eqb q p then Some e else fs q.
Proof. reflexivity. Qed.

Lemma fupd_at p f fs q : fupd p f fs q = if bytes_eqb q p then option_map f (fs p) else fs q.
Proof.
  unfold fupd. destruct (fs p) eqn:E; cbn [option_map].
  - reflexivity.
  - destruct (bytes_eqb q p) eqn:Eq; auto. apply bytes_eqb_eq in Eq. subst. exact E.
Qed.

Lemma copy_meta_at src p fs q :
  copy_meta src p fs q =
  if bytes_eqb q p then option_map (fun e => xattr_entry src (info_entry src e)) (fs p) else fs q.
Proof.
  unfold copy_meta. rewrite fupd_at. destruct (bytes_eqb q p) eqn:Eq.
  - rewrite fupd_at, bytes_eqb_refl. destruct (fs p); reflexivity.
  - rewrite fupd_at, Eq. reflexivity.
Qed.

Lemma step_other q o it : q <> l_path it -> step q o it = o.
Proof. intros H. unfold step. apply bytes_eqb_neq in H. rewrite H. reflexivity. Qed.

Lemma sfold_notin q items : forall o, ~ In q (map l_path items) -> fold_left (step q) items o = o.
Proof.
  induction items as [|it r IH]; intros o H; [reflexivity|]. cbn [fold_left].
  rewrite step_other by (intro E; apply H; left; symmetry; exact E). apply IH. intro X. apply H. right. exact X.
Qed.

(* ---------- the stack ---------- *)
Definition pend_items (S : list pdir) : list litem :=
  map (fun d => {| l_st := pd_st d; l_ct := pd_ct d; l_sel := false |}) (filter (fun d => negb (pd_copied d)) S).
Definition mark (S : list pdir) : list pdir := map set_copied S.
Definition stack_dirs (S : list pdir) : Prop := Forall (fun d => st_is_dir (pd_st d) = true) S.

Lemma set_copied_id d : pd_copied d = true -> set_copied d = d.
Proof. destruct d; cbn. intros ->. reflexivity. Qed.

Lemma mark_idem S : mark (mark S) = mark S.
Proof. unfold mark. rewrite map_map. apply map_ext. intros d. reflexivity. Qed.

Lemma pend_mark S : pend_items (mark S) = [].
Proof. unfold pend_items, mark. induction S as [|d r IH]; [reflexivity|]. cbn [map filter set_copied pd_copied negb]. exact IH. Qed.

Lemma stack_dirs_mark S : stack_dirs S -> stack_dirs (mark S).
Proof. unfold stack_dirs, mark. intros H. apply Forall_map. eapply Forall_impl; [|exact H]. intros d Hd. exact Hd. Qed.

Lemma mark_app S T : mark (S ++ T) = mark S ++ mark T.
Proof. apply map_app. Qed.

Lemma pend_app S T : pend_items (S ++ T) = pend_items S ++ pend_items T.
Proof. unfold pend_items. rewrite filter_app, map_app. reflexivity. Qed.

(* creating one pending parent = one [step] with its (unselected) item *)
Lemma deferred_step dirp src ct fs fs1 created :
  st_is_dir src = true ->
  copy_dir_only dirp (st_path src) src fs = (fs1, None, created) ->
  forall q, (if created then copy_meta src (st_path src) fs1 else fs1) q =
            step q (fs q) {| l_st := src; l_ct := ct; l_sel := false |}.
Proof.
  intros Hd H q. unfold copy_dir_only in H. unfold step, l_path, result. cbn [l_st l_sel orb]. rewrite Hd.
  destruct (fs (st_path src)) as [e|] eqn:E.
  - destruct (e_dir e); [|discriminate]. inversion H; subst. rewrite fput_at.
    destruct (bytes_eqb q (st_path src)) eqn:Eq; [|reflexivity].
    apply bytes_eqb_eq in Eq. subst q. rewrite E. reflexivity.
  - destruct (parent_ok dirp fs); [|discriminate]. inversion H; subst.
    rewrite copy_meta_at. rewrite !fput_at, bytes_eqb_refl.
    destruct (bytes_eqb q (st_path src)) eqn:Eq; [|reflexivity].
    apply bytes_eqb_eq in Eq. subst q. rewrite E. reflexivity.
Qed.

Lemma create_parents_ok S : forall fs fs' S' em,
  stack_dirs S -> create_parents S fs = (fs', S', em, None) ->
  S' = mark S /\ em = pend_items S /\ forall q, fs' q = fold_left (step q) em (fs q).
Proof.
  induction S as [|d r IH]; intros fs fs' S' em Hd H.
  - cbn in H. inversion H; subst. repeat split; reflexivity.
  - inversion Hd as [|? ? Hdd Hdr]; subst. cbn [create_parents] in H.
    unfold pend_items, mark. cbn [map filter]. fold (mark r).
    destruct (pd_copied d) eqn:Ec.
    + destruct (create_parents r fs) as [[[f1 r1] e1] er] eqn:E1. inversion H; subst.
      destruct (IH _ _ _ _ Hdr E1) as (-> & -> & Hq). cbn [negb]. rewrite set_copied_id by exact Ec. auto.
    + destruct (copy_dir_only (pd_dir d) (st_path (pd_st d)) (pd_st d) fs) as [[f1 [e|]] cr] eqn:E0; [discriminate|].
      destruct (create_parents r (if cr then copy_meta (pd_st d) (st_path (pd_st d)) f1 else f1)) as [[[f3 r3] e3] er] eqn:E1.
      inversion H; subst. destruct (IH _ _ _ _ Hdr E1) as (-> & -> & Hq). cbn [negb map].
      repeat split; auto. intros q. rewrite Hq. cbn [fold_left]. f_equal.
      apply (deferred_step _ _ (pd_ct d) _ _ _ Hdd E0).
Qed.

Lemma create_parents_noop S fs : pend_items S = [] -> create_parents S fs = (fs, S, [], None).
Proof.
  induction S as [|d r IH]; intros H; [reflexivity|]. cbn [create_parents].
  unfold pend_items in H. cbn [filter] in H. destruct (pd_copied d); cbn [negb] in H; [|discriminate].
  rewrite IH by exact H. reflexivity.
Qed.

Section RefItems.
Variable V : bytes -> bool.

(* ---------- the reference, tree-recursive ---------- *)
Fixpoint ref_items (dir : bytes) (n : node) {struct n} : list litem :=
  match n with
  | Node name st ct kids =>
    let p := child_path dir name in
    if V p || existsb (has_sel V p) kids
    then {| l_st := set_path st p; l_ct := ct; l_sel := V p |} :: flat_map (ref_items p) kids
    else []
  end.

Lemma ref_items_nil dir n : has_sel V dir n = false -> ref_items dir n = [].
Proof. destruct n as [name st ct kids]. cbn [has_sel ref_items]. cbv zeta. intros ->. reflexivity. Qed.

Lemma flat_nil dir l : existsb (has_sel V dir) l = false -> flat_map (ref_items dir) l = [].
Proof.
  induction l as [|k r IH]; [reflexivity|]. cbn [existsb flat_map]. intros H.
  apply orb_false_iff in H. destruct H as [H1 H2]. rewrite ref_items_nil by exact H1. apply IH. exact H2.
Qed.

Lemma walk_forest_in dir l k e : In k l -> In e (walk_node dir k) -> In e (walk_forest dir l).
Proof.
  induction l as [|k' r IH]; intros Hk He; [destruct Hk|]. cbn [walk_forest]. apply in_or_app.
  destruct Hk as [->|Hk]; [left; exact He|right; apply IH; auto].
Qed.

Lemma ref_items_in_walk : forall n dir it, In it (ref_items dir n) -> In (l_st it, l_ct it) (walk_node dir n).
Proof.
  induction n as [name st ct kids IHk] using node_ind2. intros dir it Hin.
  rewrite walk_node_eq. cbn [ref_items] in Hin. cbv zeta in Hin.
  destruct (V (child_path dir name) || existsb (has_sel V (child_path dir name)) kids); [|destruct Hin].
  destruct Hin as [<-|Hin]; [left; reflexivity|]. right.
  apply in_flat_map in Hin. destruct Hin as (k & Hk & Hi).
  rewrite Forall_forall in IHk. eapply walk_forest_in; eauto.
Qed.

Lemma below_ne p kids it : p <> [] -> forallb wf_tree_node kids = true ->
  In it (flat_map (ref_items p) kids) -> l_path it <> p.
Proof.
  intros Hp Hwf Hin. apply in_flat_map in Hin. destruct Hin as (k & Hk & Hi).
  apply ref_items_in_walk in Hi.
  assert (Hwk : wf_tree_node k = true) by (rewrite forallb_forall in Hwf; auto).
  assert (X : has_prefix (p ++ [sep]) (l_path it) = true).
  { destruct (walk_paths k Hwk p _ Hi) as [E|E]; cbn [fst] in E; unfold l_path.
    - rewrite E, (child_path_cons p _ Hp).
      replace (p ++ sep :: node_name k) with ((p ++ [sep]) ++ node_name k) by (rewrite <- app_assoc; reflexivity).
      apply has_prefix_app_r.
    - eapply has_prefix_trans; [|exact E]. rewrite (child_path_cons p _ Hp).
      replace ((p ++ sep :: node_name k) ++ [sep]) with ((p ++ [sep]) ++ node_name k ++ [sep]) by (rewrite <- !app_assoc; reflexivity).
      apply has_prefix_app_r. }
  intros E. rewrite E in X. rewrite (has_prefix_longer p sep []) in X. discriminate.
Qed.


(* ---- the tree-recursive reference is the flat one: filter of the full walk ---- *)
Definition ents (l : list litem) : list Tree.entry := map (fun it => (l_st it, l_ct it)) l.

Lemma ents_app a b : ents (a ++ b) = ents a ++ ents b.
Proof. apply map_app. Qed.

Lemma ents_flat_nil dir l : existsb (has_sel V dir) l = false -> flat_map (fun k => ents (ref_items dir k)) l = [].
Proof.
  induction l as [|k r IH]; [reflexivity|]. cbn [existsb flat_map]. intros H.
  apply orb_false_iff in H. destruct H as [H1 H2]. rewrite ref_items_nil by exact H1. apply IH. exact H2.
Qed.

Lemma ents_flat_map dir l : ents (flat_map (ref_items dir) l) = flat_map (fun k => ents (ref_items dir k)) l.
Proof. induction l as [|k r IH]; [reflexivity|]. cbn [flat_map]. rewrite ents_app, IH. reflexivity. Qed.

Definition iflat_ok (n : node) : Prop :=
  wf_tree_node n = true -> forall dir before after all,
  all = before ++ walk_node dir n ++ after ->
  outside (child_path dir (node_name n)) (before ++ after) ->
  filter (soa V all) (walk_node dir n) = ents (ref_items dir n).

Lemma iflat_forest l : Forall iflat_ok l -> forallb wf_tree_node l = true -> distinct (map node_name l) = true ->
  forall dir before after all,
  all = before ++ walk_forest dir l ++ after ->
  (forall k, In k l -> outside (child_path dir (node_name k)) (before ++ after)) ->
  filter (soa V all) (walk_forest dir l) = flat_map (fun k => ents (ref_items dir k)) l.
Proof.
  induction l as [|k r IH]; intros HF Hwf Hdist dir before after all Hall Hout; [reflexivity|].
  pose proof (Forall_inv HF) as Hk. pose proof (Forall_inv_tail HF) as Hr.
  cbn [forallb] in Hwf. apply andb_true_iff in Hwf. destruct Hwf as [Hwk Hwr].
  cbn [map distinct] in Hdist. apply andb_true_iff in Hdist. destruct Hdist as [Hnk Hdr].
  assert (Hneq : forall k', In k' r -> node_name k' <> node_name k).
  { intros k' Hin E. apply negb_true_iff in Hnk.
    assert (X : existsb (bytes_eqb (node_name k)) (map node_name r) = true).
    { apply existsb_exists. exists (node_name k'). split; [apply in_map; auto|]. rewrite E. apply bytes_eqb_refl. }
    congruence. }
  assert (Hnsk : nosep (node_name k)).
  { destruct k as [name st ct kids]. apply wf_tree_node_inv in Hwk. cbn [node_name]. tauto. }
  assert (Hns_r : forall k', In k' r -> nosep (node_name k') /\ wf_tree_node k' = true).
  { intros k' Hin. rewrite forallb_forall in Hwr. specialize (Hwr k' Hin). split; auto.
    destruct k' as [name st ct kids]. apply wf_tree_node_inv in Hwr. cbn [node_name]. tauto. }
  cbn [walk_forest flat_map]. rewrite filter_app. f_equal.
  - apply (Hk Hwk dir before (walk_forest dir r ++ after) all).
    + rewrite Hall. cbn [walk_forest]. rewrite <- !app_assoc. reflexivity.
    + intros e Hin. apply in_app_or in Hin. destruct Hin as [Hin|Hin].
      * apply (Hout k (or_introl eq_refl)). apply in_or_app. left; auto.
      * apply in_app_or in Hin. destruct Hin as [Hin|Hin].
        -- clear -Hin Hneq Hns_r Hnsk. induction r as [|k' r IHr]; [destruct Hin|].
           cbn [walk_forest] in Hin. apply in_app_or in Hin. destruct Hin as [Hin|Hin].
           ++ destruct (Hns_r k' (or_introl eq_refl)) as [_ Hw']. eapply sibling_not_below; eauto. apply Hneq. left; auto.
           ++ apply IHr; auto. { intros; apply Hneq; right; auto. } { intros; apply Hns_r; right; auto. }
        -- apply (Hout k (or_introl eq_refl)). apply in_or_app. right; auto.
  - apply (IH Hr Hwr Hdr dir (before ++ walk_node dir k) after).
    + cbn [walk_forest] in Hall. rewrite Hall. rewrite <- !app_assoc. reflexivity.
    + intros k' Hin e He. apply in_app_or in He. destruct He as [He|He].
      * apply in_app_or in He. destruct He as [He|He].
        -- apply (Hout k' (or_intror Hin)). apply in_or_app. left; auto.
        -- destruct (Hns_r k' Hin) as [Hn' _]. eapply sibling_not_below; eauto.
           intro E. apply (Hneq k' Hin). auto.
      * apply (Hout k' (or_intror Hin)). apply in_or_app. right; auto.
Qed.

Lemma iflat_node : forall n, iflat_ok n.
Proof.
  induction n as [name st ct kids IHk] using node_ind2. intros Hwf dir before after all Hall Hout.
  pose proof Hwf as Hwf0. apply wf_tree_node_inv in Hwf. destruct Hwf as (Hne & Hns & Hdk & Hdist & Hkids).
  cbn [node_name] in Hout. set (p := child_path dir name) in *.
  assert (Hp : p <> []) by (apply child_path_nonempty; auto).
  cbn [ref_items]. cbv zeta. fold p.
  rewrite walk_node_eq in *. fold p in Hall |- *. cbn [filter].
  assert (Hinside : forall e, In e (walk_forest p kids) -> has_prefix (p ++ [sep]) (epath e) = true).
  { intros e Hin. pose proof (walk_paths (Node name st ct kids) Hwf0 dir e) as X. cbn [node_name] in X. fold p in X.
    rewrite walk_node_eq in X. fold p in X. destruct (X (or_intror Hin)) as [E|E]; auto.
    exfalso. clear -Hin E Hkids Hp. induction kids as [|k r IHr]; [destruct Hin|].
    cbn [walk_forest] in Hin. cbn [forallb] in Hkids. apply andb_true_iff in Hkids. destruct Hkids as [Hwk Hwr].
    apply in_app_or in Hin. destruct Hin as [Hin|Hin]; [|apply IHr; auto].
    assert (Hlong : forall q, q = child_path p (node_name k) \/ has_prefix (child_path p (node_name k) ++ [sep]) q = true -> q <> p).
    { intros q [->|Hq] Eq.
      - rewrite (child_path_cons p _ Hp) in Eq. apply (f_equal (@length N)) in Eq. rewrite app_length in Eq. simpl in Eq. lia.
      - subst q. rewrite (child_path_cons p _ Hp) in Hq. rewrite <- app_assoc in Hq. cbn [app] in Hq.
        rewrite has_prefix_longer in Hq. discriminate. }
    apply (Hlong (epath e)); auto. apply walk_paths; auto. }
  assert (Hsoa : soa V all (set_path st p, ct) = (V p || existsb (has_sel V p) kids)).
  { unfold soa, selected_or_above. cbn [fst st_path set_path]. f_equal.
    unfold Tree.entry in *. rewrite Hall. rewrite !existsb_app. cbn [existsb].
    change (epath (set_path st p, ct)) with p.
    rewrite (has_prefix_longer p sep []).
    cbn [andb orb].
    rewrite (existsb_outside V p before) by (intros e Hin; apply Hout; apply in_or_app; left; auto).
    rewrite (existsb_outside V p after) by (intros e Hin; apply Hout; apply in_or_app; right; auto).
    rewrite orb_false_r. cbn [orb].
    rewrite (existsb_inside V p (walk_forest p kids) Hinside).
    clear. induction kids as [|k r IH]; [reflexivity|]. cbn [walk_forest existsb]. rewrite existsb_app.
    f_equal; [apply existsb_walk|exact IH]. }
  assert (Hkids_flat : filter (soa V all) (walk_forest p kids) = flat_map (fun k => ents (ref_items p k)) kids).
  { apply (iflat_forest kids IHk Hkids Hdist p (before ++ [(set_path st p, ct)]) after all).
    - rewrite Hall. rewrite <- !app_assoc. reflexivity.
    - intros k Hin. apply outside_deeper; auto. intros e He.
      apply in_app_or in He. destruct He as [He|He]; [apply in_app_or in He; destruct He as [He|He]|].
      + apply Hout. apply in_or_app. left; auto.
      + destruct He as [<-|[]]. change (epath (set_path st p, ct)) with p.
        apply (has_prefix_longer p sep []).
      + apply Hout. apply in_or_app. right; auto. }
  rewrite Hsoa. destruct (V p || existsb (has_sel V p) kids) eqn:Ehs.
  - unfold ents. cbn [map l_st l_ct]. f_equal. fold (ents (flat_map (ref_items p) kids)). rewrite ents_flat_map. exact Hkids_flat.
  - rewrite Hkids_flat. apply orb_false_iff in Ehs. destruct Ehs as [_ Ek]. apply ents_flat_nil. exact Ek.
Qed.

Lemma ref_items_sel : forall n dir it, In it (ref_items dir n) -> l_sel it = V (l_path it).
Proof.
  induction n as [name st ct kids IHk] using node_ind2. intros dir it Hin.
  cbn [ref_items] in Hin. cbv zeta in Hin.
  destruct (V (child_path dir name) || existsb (has_sel V (child_path dir name)) kids); [|destruct Hin].
  destruct Hin as [<-|Hin]; [reflexivity|].
  apply in_flat_map in Hin. destruct Hin as (k & Hk & Hi). rewrite Forall_forall in IHk. eapply IHk; eauto.
Qed.

Lemma items_of_ents (l : list litem) : (forall it, In it l -> l_sel it = V (l_path it)) ->
  l = map (fun e : Tree.entry => {| l_st := fst e; l_ct := snd e; l_sel := V (st_path (fst e)) |}) (ents l).
Proof.
  induction l as [|it r IH]; intros H; [reflexivity|]. cbn [ents map fst snd]. f_equal.
  - destruct it as [s ct b]. cbn. f_equal. apply (H _ (or_introl eq_refl)).
  - apply IH. intros it' Hi. apply H. right; auto.
Qed.

Theorem ref_items_flat view : wf_tree view = true ->
  flat_map (ref_items []) view = flat_items V view.
Proof.
  unfold wf_tree. intros H. apply andb_true_iff in H. destruct H as [Hd Hw].
  assert (E : ents (flat_map (ref_items []) view) = filter (selected_or_above V (walk_root view)) (walk_root view)).
  { rewrite ents_flat_map. symmetry. unfold walk_root.
    apply (iflat_forest view) with (before := []) (after := []); auto.
    - apply Forall_forall. intros n _. apply iflat_node.
    - rewrite app_nil_r. reflexivity.
    - intros k _ e []. }
  unfold flat_items. rewrite <- E. apply items_of_ents.
  intros it Hin. apply in_flat_map in Hin. destruct Hin as (k & _ & Hi). eapply ref_items_sel; eauto.
Qed.
End RefItems.

Section Main.
Variable pmatch : bytes -> bytes -> bool.
Variable c : cfg.
Notation V := (keep_incr pmatch c).
Notation cnode := (copy_node pmatch c).
Notation cforest := (copy_forest pmatch c).

(* ---------- unfolding ---------- *)
Lemma copy_node_eq dir name st0 ct kids pinc pexc S fs :
  cnode dir (Node name st0 ct kids) pinc pexc S fs =
    let p := child_path dir name in
    let st := set_path st0 p in
    let ri := sel_inc pmatch c p pinc in
    let re := sel_exc pmatch c p pexc in
    let include := fst ri && negb (fst re) in
    let it := {| l_st := st; l_ct := ct; l_sel := true |} in
    match (if include then create_parents S fs else (fs, S, [], None)) with
    | (fs1, S1, em1, Some e) => (fs1, S1, em1, Some e)
    | (fs1, S1, em1, None) =>
      if st_is_dir st0 then
        match (if include then copy_dir_only dir p st fs1 else (fs1, None, false)) with
        | (fs2, Some e, _) => (fs2, S1, em1, Some e)
        | (fs2, None, _) =>
          let d := {| pd_st := st; pd_ct := ct; pd_dir := dir; pd_copied := include |} in
          let self := if include then [it] else [] in
          let '(fs3, S3, em3, e3) := cforest p kids (snd ri) (snd re) (S1 ++ [d]) fs2 in
          match e3 with
          | Some e => (fs3, removelast S3, em1 ++ self ++ em3, Some e)
          | None => ((if include then copy_meta st p fs3 else fs3), removelast S3, em1 ++ self ++ em3, None)
          end
        end
      else if negb include then (fs1, S1, em1, None)
      else
        match (match fs1 p with
               | Some e => if e_dir e then None else Some (fdel p fs1)
               | None => Some fs1
               end) with
        | None => (fs1, S1, em1, Some ENondirOverDir)
        | Some fs2 =>
          if parent_ok dir fs2 then (fput p (st, ct) fs2, S1, em1 ++ [it], None)
          else (fs2, S1, em1, Some ENoParent)
        end
    end.
Proof.
  cbn [copy_node]. cbv zeta.
  destruct (if fst (sel_inc pmatch c (child_path dir name) pinc) && negb (fst (sel_exc pmatch c (child_path dir name) pexc))
            then create_parents S fs else (fs, S, [], None)) as [[[fs1 S1] em1] [e|]]; auto.
  destruct (st_is_dir st0); auto.
  destruct (if fst (sel_inc pmatch c (child_path dir name) pinc) && negb (fst (sel_exc pmatch c (child_path dir name) pexc))
            then copy_dir_only dir (child_path dir name) (set_path st0 (child_path dir name)) fs1 else (fs1, None, false))
    as [[fs2 [e|]] cr]; auto.
  match goal with |- context [?f kids (S1 ++ _) fs2] =>
    assert (E : forall l S0 f0, f l S0 f0 = cforest (child_path dir name) l
                (snd (sel_inc pmatch c (child_path dir name) pinc)) (snd (sel_exc pmatch c (child_path dir name) pexc)) S0 f0) end.
  { induction l as [|k r IH]; intros S0 f0; [reflexivity|]. cbn [copy_forest].
    destruct (cnode (child_path dir name) k _ _ S0 f0) as [[[f' S'] em] [e|]]; auto. rewrite IH. reflexivity. }
  rewrite E. reflexivity.
Qed.

(* ---------- the verdict the copier computes = keep_incr ---------- *)
Definition info_ok (dir : bytes) (pinc pexc : list bool) : Prop :=
  (forall pats, c_inc c = Some pats -> pinc = snd (incr_chain pmatch pats (pcomps dir))) /\
  (forall pats, c_exc c = Some pats -> pexc = snd (incr_chain pmatch pats (pcomps dir))).

Lemma info_ok_root : info_ok [] [] [].
Proof. split; intros; reflexivity. Qed.

Section Child.
Variables (dir : bytes) (pinc pexc : list bool) (name : bytes).
Hypothesis Hinfo : info_ok dir pinc pexc.
Hypothesis Hne : name <> [].
Hypothesis Hns : nosep name.
Let p := child_path dir name.

Lemma sel_inc_chain pats : c_inc c = Some pats -> sel_inc pmatch c p pinc = incr_chain pmatch pats (pcomps p).
Proof.
  intros Hc. unfold sel_inc. rewrite Hc. unfold p. rewrite pcomps_child by auto.
  rewrite incr_chain_snoc. rewrite <- pcomps_child by auto. rewrite joinc_pcomps.
  destruct Hinfo as [H _]. rewrite (H pats Hc). reflexivity.
Qed.

Lemma sel_exc_chain pats : c_exc c = Some pats -> sel_exc pmatch c p pexc = incr_chain pmatch pats (pcomps p).
Proof.
  intros Hc. unfold sel_exc. rewrite Hc. unfold p. rewrite pcomps_child by auto.
  rewrite incr_chain_snoc. rewrite <- pcomps_child by auto. rewrite joinc_pcomps.
  destruct Hinfo as [_ H]. rewrite (H pats Hc). reflexivity.
Qed.

Lemma include_V : fst (sel_inc pmatch c p pinc) && negb (fst (sel_exc pmatch c p pexc)) = V p.
Proof.
  unfold keep_incr. f_equal; [|f_equal].
  - destruct (c_inc c) as [pats|] eqn:Hc.
    + rewrite (sel_inc_chain pats Hc). reflexivity.
    + unfold sel_inc. rewrite Hc. reflexivity.
  - destruct (c_exc c) as [pats|] eqn:Hc.
    + rewrite (sel_exc_chain pats Hc). reflexivity.
    + unfold sel_exc. rewrite Hc. reflexivity.
Qed.

Lemma info_ok_child : info_ok p (snd (sel_inc pmatch c p pinc)) (snd (sel_exc pmatch c p pexc)).
Proof.
  split; intros pats Hc.
  - rewrite (sel_inc_chain pats Hc). reflexivity.
  - rewrite (sel_exc_chain pats Hc). reflexivity.
Qed.
End Child.

Lemma copy_dir_only_at dirp p st fs fs2 cr : st_path st = p ->
  copy_dir_only dirp p st fs = (fs2, None, cr) ->
  forall q, fs2 q = if bytes_eqb q p then Some (dir_only st (fs p)) else fs q.
Proof.
  intros Hp H q. unfold copy_dir_only in H. unfold dir_only. rewrite Hp.
  destruct (fs p) as [e|] eqn:E.
  - destruct (e_dir e); [|discriminate]. inversion H; subst. reflexivity.
  - destruct (parent_ok dirp fs); [|discriminate]. inversion H; subst. reflexivity.
Qed.

(* ---------- simulation ---------- *)
Definition node_ok (n : node) : Prop :=
  wf_tree_node n = true ->
  forall dir pinc pexc S fs fs' S' em,
    info_ok dir pinc pexc -> stack_dirs S ->
    cnode dir n pinc pexc S fs = (fs', S', em, None) ->
    (if has_sel V dir n then S' = mark S /\ em = pend_items S ++ ref_items V dir n
     else S' = S /\ em = [] /\ fs' = fs)
    /\ forall q, fs' q = fold_left (step q) em (fs q).

Lemma forest_ok l : Forall node_ok l -> forallb wf_tree_node l = true ->
  forall dir pinc pexc S fs fs' S' em,
    info_ok dir pinc pexc -> stack_dirs S ->
    cforest dir l pinc pexc S fs = (fs', S', em, None) ->
    (if existsb (has_sel V dir) l then S' = mark S /\ em = pend_items S ++ flat_map (ref_items V dir) l
     else S' = S /\ em = [] /\ fs' = fs)
    /\ forall q, fs' q = fold_left (step q) em (fs q).
Proof.
  induction l as [|k r IH]; intros HF Hwf dir pinc pexc S fs fs' S' em Hinfo HS H.
  - cbn in H. inversion H; subst. cbn. auto.
  - inversion HF as [|? ? Hk Hr]; subst. cbn [forallb] in Hwf. apply andb_true_iff in Hwf. destruct Hwf as [Hwk Hwr].
    cbn [copy_forest] in H.
    destruct (cnode dir k pinc pexc S fs) as [[[f1 S1] e1] [x|]] eqn:E1; [discriminate|].
    destruct (cforest dir r pinc pexc S1 f1) as [[[f2 S2] e2] x2] eqn:E2. inversion H; subst; clear H.
    destruct (Hk Hwk _ _ _ _ _ _ _ _ Hinfo HS E1) as [A1 Q1].
    cbn [existsb flat_map].
    destruct (has_sel V dir k) eqn:Hs.
    + destruct A1 as [-> ->]. cbn [orb].
      destruct (IH Hr Hwr _ _ _ _ _ _ _ _ Hinfo (stack_dirs_mark _ HS) E2) as [A2 Q2].
      split.
      * destruct (existsb (has_sel V dir) r) eqn:Hs2.
        -- destruct A2 as [-> ->]. rewrite mark_idem, pend_mark. cbn [app]. rewrite app_assoc. auto.
        -- destruct A2 as (-> & -> & ->). rewrite (flat_nil V _ _ Hs2). rewrite !app_nil_r. auto.
      * intros q. rewrite Q2, Q1, <- fold_left_app. reflexivity.
    + destruct A1 as (-> & -> & ->). cbn [orb app]. rewrite (ref_items_nil V _ _ Hs). cbn [app].
      apply (IH Hr Hwr _ _ _ _ _ _ _ _ Hinfo HS E2).
Qed.

Lemma st_is_dir_set_path st p : st_is_dir (set_path st p) = st_is_dir st.
Proof. reflexivity. Qed.

Lemma node_ok_all : forall n, node_ok n.
Proof.
  induction n as [name st0 ct kids IHk] using node_ind2.
  intros Hwf dir pinc pexc S fs fs' S' em Hinfo HS H.
  apply wf_tree_node_inv in Hwf. destruct Hwf as (Hne & Hns & Hdk & _ & Hkids).
  rewrite copy_node_eq in H. cbv zeta in H.
  rewrite (include_V dir pinc pexc name Hinfo Hne Hns) in H.
  pose proof (info_ok_child dir pinc pexc name Hinfo Hne Hns) as Hic.
  cbn [has_sel ref_items]. cbv zeta.
  set (p := child_path dir name) in *.
  assert (Hp : p <> []) by (apply child_path_nonempty; auto).
  destruct (V p) eqn:EV; cbn [orb].
  - (* selected *)
    destruct (create_parents S fs) as [[[fs1 S1] em1] [e|]] eqn:E1; [discriminate|].
    destruct (create_parents_ok _ _ _ _ _ HS E1) as (-> & -> & Hq1).
    destruct (st_is_dir st0) eqn:Ed.
    + destruct (copy_dir_only dir p (set_path st0 p) fs1) as [[fs2 [e|]] cr] eqn:E2; [discriminate|].
      set (d := {| pd_st := set_path st0 p; pd_ct := ct; pd_dir := dir; pd_copied := true |}) in *.
      destruct (cforest p kids _ _ (mark S ++ [d]) fs2) as [[[fs3 S3] em3] [e3|]] eqn:E3; [discriminate|].
      inversion H; subst fs' S' em; clear H.
      assert (HT : stack_dirs (mark S ++ [d])).
      { apply Forall_app. split; [apply stack_dirs_mark; auto|]. constructor; [exact Ed|constructor]. }
      destruct (forest_ok kids IHk Hkids _ _ _ _ _ _ _ _ Hic HT E3) as [A3 Q3].
      assert (Hem3 : em3 = flat_map (ref_items V p) kids /\ S3 = mark S ++ [d]).
      { rewrite pend_app, pend_mark, mark_app, mark_idem in A3. cbn in A3.
        destruct (existsb (has_sel V p) kids) eqn:Hs.
        - destruct A3 as [-> ->]. auto.
        - destruct A3 as (-> & -> & _). rewrite (flat_nil V _ _ Hs). auto. }
      destruct Hem3 as [-> ->]. rewrite removelast_last.
      split; [split; [reflexivity|]; cbn [app]; reflexivity|].
      intros q. rewrite fold_left_app. cbn [fold_left app]. rewrite <- Hq1.
      pose proof (copy_dir_only_at dir p (set_path st0 p) fs1 fs2 cr eq_refl E2) as Q2.
      rewrite copy_meta_at. unfold step at 2. unfold l_path. cbn [l_st st_path set_path].
      destruct (bytes_eqb q p) eqn:Eq.
      * apply bytes_eqb_eq in Eq. subst q.
        rewrite Q3, Q2, bytes_eqb_refl.
        rewrite !sfold_notin by (intro X; apply in_map_iff in X; destruct X as (it & Eit & Hit);
                                 exact (below_ne V p kids it Hp Hkids Hit Eit)).
        cbn [option_map]. unfold result. cbn [l_st l_sel orb]. rewrite st_is_dir_set_path, Ed. reflexivity.
      * rewrite Q3, Q2, Eq. reflexivity.
    + cbn [negb] in H.
      assert (Hk0 : kids = []) by (destruct Hdk as [X|X]; [congruence|exact X]). subst kids. cbn [flat_map].
      destruct (fs1 p) as [e|] eqn:Ep.
      * destruct (e_dir e) eqn:Ee; [discriminate|].
        destruct (parent_ok dir (fdel p fs1)); [|discriminate]. inversion H; subst; clear H.
        split; [auto|]. intros q. rewrite fold_left_app. cbn [fold_left]. rewrite <- Hq1.
        unfold step, l_path, result. cbn [l_st l_ct st_path set_path]. rewrite st_is_dir_set_path, Ed.
        rewrite fput_at. unfold fdel. destruct (bytes_eqb q p); reflexivity.
      * destruct (parent_ok dir fs1); [|discriminate]. inversion H; subst; clear H.
        split; [auto|]. intros q. rewrite fold_left_app. cbn [fold_left]. rewrite <- Hq1.
        unfold step, l_path, result. cbn [l_st l_ct st_path set_path]. rewrite st_is_dir_set_path, Ed.
        rewrite fput_at. destruct (bytes_eqb q p); reflexivity.
  - (* not selected *)
    destruct (st_is_dir st0) eqn:Ed.
    + set (d := {| pd_st := set_path st0 p; pd_ct := ct; pd_dir := dir; pd_copied := false |}) in *.
      destruct (cforest p kids _ _ (S ++ [d]) fs) as [[[fs3 S3] em3] [e3|]] eqn:E3; [discriminate|].
      inversion H; subst fs' S' em; clear H.
      assert (HT : stack_dirs (S ++ [d])).
      { apply Forall_app. split; [auto|]. constructor; [exact Ed|constructor]. }
      destruct (forest_ok kids IHk Hkids _ _ _ _ _ _ _ _ Hic HT E3) as [A3 Q3].
      cbn [app]. destruct (existsb (has_sel V p) kids) eqn:Hs.
      * destruct A3 as [-> ->]. rewrite mark_app. cbn [mark map]. rewrite removelast_last.
        split; [|exact Q3]. split; [reflexivity|]. rewrite pend_app. unfold pend_items at 2. cbn. rewrite <- app_assoc. reflexivity.
      * destruct A3 as (-> & -> & ->). rewrite removelast_last. auto.
    + cbn [negb] in H. inversion H; subst; clear H.
      assert (Hk0 : kids = []) by (destruct Hdk as [X|X]; [congruence|exact X]). subst kids. cbn. auto.
Qed.

(* ---------- the top level ---------- *)
Lemma wf_tree_parts view : wf_tree view = true ->
  forallb wf_tree_node view = true /\ Forall node_ok view.
Proof.
  unfold wf_tree. intros H. apply andb_true_iff in H. destruct H as [_ Hw]. split; auto.
  apply Forall_forall. intros n _. apply node_ok_all.
Qed.

Theorem copy_dir_top_spec rootst view fs0 fs' log :
  wf_tree view = true ->
  copy_dir_top pmatch c rootst view fs0 = (fs', log, None) ->
  log = flat_items V view /\ forall q, q <> [] -> fs' q = spec_ent log fs0 q.
Proof.
  intros Hwf H. destruct (wf_tree_parts view Hwf) as [Hw HF].
  unfold copy_dir_top in H.
  assert (G : forall fs1 fs2 S' em, cforest [] view [] [] [] fs1 = (fs2, S', em, None) ->
              em = flat_items V view /\ forall q, fs2 q = fold_left (step q) em (fs1 q)).
  { intros fs1 fs2 S' em E.
    destruct (forest_ok view HF Hw _ _ _ _ _ _ _ _ info_ok_root (Forall_nil _) E) as [A Q]. split; [|exact Q].
    rewrite <- (ref_items_flat V view Hwf). destruct (existsb (has_sel V []) view) eqn:Hs.
    - destruct A as [_ ->]. reflexivity.
    - destruct A as (_ & -> & _). rewrite (flat_nil V _ _ Hs). reflexivity. }
  destruct (fs0 []) as [e|] eqn:E0.
  - destruct (e_dir e); [|discriminate].
    destruct (cforest [] view [] [] [] fs0) as [[[fs2 S2] em] [x|]] eqn:E; [discriminate|].
    inversion H; subst. destruct (G _ _ _ _ E) as [-> Q]. split; auto. intros q _. apply Q.
  - destruct (cforest [] view [] [] [] (fput [] (blank_dir []) fs0)) as [[[fs2 S2] em] [x|]] eqn:E; [discriminate|].
    inversion H; subst. destruct (G _ _ _ _ E) as [-> Q]. split; auto.
    intros q Hq. rewrite copy_meta_at. apply bytes_eqb_neq in Hq. rewrite Hq. rewrite Q, fput_at, Hq. reflexivity.
Qed.
End Main.

(* ---------- consequences of the pointwise specification ---------- *)
Lemma sfold_some q items : forall o,
  fold_left (step q) items o <> None <-> (o <> None \/ In q (map l_path items)).
Proof.
  induction items as [|it r IH]; intros o; cbn [fold_left map In].
  - tauto.
  - rewrite IH. unfold step. destruct (bytes_eqb q (l_path it)) eqn:E.
    + apply bytes_eqb_eq in E. subst q. split; [auto|]. intros _. left. discriminate.
    + apply bytes_eqb_neq in E. split.
      * intros [H|H]; auto.
      * intros [H|[H|H]]; auto; congruence.
Qed.

Lemma sfold_unique items : NoDup (map l_path items) -> forall it o, In it items ->
  fold_left (step (l_path it)) items o = Some (result it o).
Proof.
  induction items as [|x r IH]; intros Hnd it o Hin; [destruct Hin|].
  cbn [map] in Hnd. inversion Hnd as [|? ? Hx Hr]; subst. cbn [fold_left].
  destruct Hin as [->|Hin].
  - unfold step at 2. rewrite bytes_eqb_refl. apply sfold_notin. exact Hx.
  - rewrite step_other; [apply IH; auto|]. intros E. apply Hx. rewrite <- E. apply in_map. exact Hin.
Qed.

(* ---------- paths of a walk are pairwise different ---------- *)
Lemma child_path_inj dir a b : child_path dir a = child_path dir b -> a = b.
Proof.
  unfold child_path. destruct dir; auto. intros H. apply app_inv_head in H. inversion H; auto.
Qed.

Lemma walk_forest_in_inv dir l e : In e (walk_forest dir l) -> exists k, In k l /\ In e (walk_node dir k).
Proof.
  induction l as [|k r IH]; intros H; [destruct H|]. cbn [walk_forest] in H. apply in_app_or in H.
  destruct H as [H|H]; [exists k; split; [left|]; auto|]. destruct (IH H) as (k' & Hk & He). exists k'. split; [right|]; auto.
Qed.

Lemma under_or_eq_ne_sibling dir k1 k2 e1 e2 :
  wf_tree_node k1 = true -> wf_tree_node k2 = true -> node_name k1 <> node_name k2 ->
  In e1 (walk_node dir k1) -> In e2 (walk_node dir k2) -> st_path (fst e1) <> st_path (fst e2).
Proof.
  intros Hw1 Hw2 Hne H1 H2 E.
  assert (Hn1 : nosep (node_name k1)) by (destruct k1; apply wf_tree_node_inv in Hw1; cbn [node_name]; tauto).
  assert (Hn2 : nosep (node_name k2)) by (destruct k2; apply wf_tree_node_inv in Hw2; cbn [node_name]; tauto).
  destruct (walk_paths k1 Hw1 dir e1 H1) as [P1|P1].
  - destruct (walk_paths k2 Hw2 dir e2 H2) as [P2|P2].
    + apply Hne. apply (child_path_inj dir). congruence.
    + pose proof (sibling_not_below dir (node_name k2) k1 Hn2 Hw1 Hne e1 H1) as X.
      rewrite E in X. congruence.
  - pose proof (sibling_not_below dir (node_name k1) k2 Hn1 Hw2 (fun x => Hne (eq_sym x)) e2 H2) as X.
    rewrite <- E in X. congruence.
Qed.

Lemma distinct_names_ne k r : distinct (map node_name (k :: r)) = true ->
  (forall k', In k' r -> node_name k <> node_name k') /\ distinct (map node_name r) = true.
Proof.
  cbn [map distinct]. intros H. apply andb_true_iff in H. destruct H as [Hn Hd]. split; auto.
  intros k' Hin E. apply negb_true_iff in Hn.
  assert (X : existsb (bytes_eqb (node_name k)) (map node_name r) = true).
  { apply existsb_exists. exists (node_name k'). split; [apply in_map; auto|]. rewrite E. apply bytes_eqb_refl. }
  congruence.
Qed.

Lemma NoDup_app_intro {A} (a b : list A) :
  NoDup a -> NoDup b -> (forall x, In x a -> In x b -> False) -> NoDup (a ++ b).
Proof.
  induction a as [|x a IH]; intros Ha Hb H; [exact Hb|]. inversion Ha as [|? ? Hx Ha']; subst.
  cbn [app]. constructor.
  - intros Hin. apply in_app_or in Hin. destruct Hin as [Hin|Hin]; [auto|]. apply (H x); [left|]; auto.
  - apply IH; auto. intros y Hy1 Hy2. apply (H y); [right|]; auto.
Qed.

Lemma walk_forest_nodup dir l :
  Forall (fun k => forall d, NoDup (map (fun e : Tree.entry => st_path (fst e)) (walk_node d k))) l ->
  forallb wf_tree_node l = true -> distinct (map node_name l) = true ->
  NoDup (map (fun e : Tree.entry => st_path (fst e)) (walk_forest dir l)).
Proof.
  induction l as [|k r IH]; intros HF Hwf Hd; [constructor|].
  inversion HF as [|? ? Hk Hr]; subst. cbn [forallb] in Hwf. apply andb_true_iff in Hwf. destruct Hwf as [Hwk Hwr].
  destruct (distinct_names_ne k r Hd) as [Hne Hdr].
  cbn [walk_forest]. rewrite map_app. apply NoDup_app_intro; [apply Hk|apply IH; auto|].
  intros q H1 H2. apply in_map_iff in H1. destruct H1 as (e1 & <- & H1). apply in_map_iff in H2. destruct H2 as (e2 & E & H2).
  apply walk_forest_in_inv in H2. destruct H2 as (k' & Hk' & H2).
  rewrite forallb_forall in Hwr.
  exact (under_or_eq_ne_sibling dir k k' e1 e2 Hwk (Hwr _ Hk') (Hne _ Hk') H1 H2 (eq_sym E)).
Qed.

Lemma walk_node_nodup : forall n, wf_tree_node n = true -> forall dir,
  NoDup (map (fun e : Tree.entry => st_path (fst e)) (walk_node dir n)).
Proof.
  induction n as [name st ct kids IHk] using node_ind2. intros Hwf dir.
  pose proof Hwf as Hwf0. apply wf_tree_node_inv in Hwf. destruct Hwf as (Hne & Hns & _ & Hdist & Hkids).
  rewrite walk_node_eq. cbn [map fst st_path set_path]. set (p := child_path dir name).
  assert (Hp : p <> []) by (apply child_path_nonempty; auto).
  constructor.
  - intros Hin. apply in_map_iff in Hin. destruct Hin as (e & E & Hin).
    apply walk_forest_in_inv in Hin. destruct Hin as (k & Hk & He).
    assert (Hwk : wf_tree_node k = true) by (rewrite forallb_forall in Hkids; auto).
    assert (X : has_prefix (p ++ [sep]) (st_path (fst e)) = true).
    { destruct (walk_paths k Hwk p e He) as [P|P].
      - rewrite P, (child_path_cons p _ Hp).
        replace (p ++ sep :: node_name k) with ((p ++ [sep]) ++ node_name k) by (rewrite <- app_assoc; reflexivity).
        apply has_prefix_app_r.
      - eapply has_prefix_trans; [|exact P]. rewrite (child_path_cons p _ Hp).
        replace ((p ++ sep :: node_name k) ++ [sep]) with ((p ++ [sep]) ++ node_name k ++ [sep]) by (rewrite <- !app_assoc; reflexivity).
        apply has_prefix_app_r. }
    rewrite E in X. rewrite (has_prefix_longer p sep []) in X. discriminate.
  - apply walk_forest_nodup; auto.
    rewrite Forall_forall in *. intros k Hk d. apply IHk; auto. rewrite forallb_forall in Hkids; auto.
Qed.

Theorem walk_root_nodup view : wf_tree view = true ->
  NoDup (map (fun e : Tree.entry => st_path (fst e)) (walk_root view)).
Proof.
  unfold wf_tree. intros H. apply andb_true_iff in H. destruct H as [Hd Hw]. unfold walk_root.
  apply walk_forest_nodup; auto. apply Forall_forall. intros k Hk d. apply walk_node_nodup.
  rewrite forallb_forall in Hw; auto.
Qed.

Lemma walk_root_nonempty view e : wf_tree view = true -> In e (walk_root view) -> st_path (fst e) <> [].
Proof.
  unfold wf_tree. intros H Hin. apply andb_true_iff in H. destruct H as [_ Hw].
  apply walk_forest_in_inv in Hin. destruct Hin as (k & Hk & He).
  assert (Hwk : wf_tree_node k = true) by (rewrite forallb_forall in Hw; auto).
  assert (Hnk : child_path [] (node_name k) <> []).
  { destruct k as [name st ct kids]. apply wf_tree_node_inv in Hwk. cbn [node_name child_path]. tauto. }
  destruct (walk_paths k Hwk [] e He) as [P|P].
  - rewrite P. exact Hnk.
  - intros E. rewrite E in P. destruct (child_path [] (node_name k)); [congruence|discriminate].
Qed.

Lemma NoDup_map_filter {A B} (f : A -> B) (g : A -> bool) l : NoDup (map f l) -> NoDup (map f (filter g l)).
Proof.
  induction l as [|a l IH]; intros H; [constructor|]. cbn [map] in H. inversion H as [|? ? Ha Hl]; subst.
  cbn [filter]. destruct (g a); [|apply IH; auto]. cbn [map]. constructor; [|apply IH; auto].
  intros Hin. apply Ha. apply in_map_iff in Hin. destruct Hin as (x & E & Hx). apply filter_In in Hx.
  apply in_map_iff. exists x. tauto.
Qed.

Lemma flat_items_paths V view :
  map l_path (flat_items V view) =
  map (fun e : Tree.entry => st_path (fst e)) (filter (selected_or_above V (walk_root view)) (walk_root view)).
Proof. unfold flat_items. rewrite map_map. reflexivity. Qed.

Lemma flat_items_nodup V view : wf_tree view = true -> NoDup (map l_path (flat_items V view)).
Proof. intros H. rewrite flat_items_paths. apply NoDup_map_filter. apply walk_root_nodup. exact H. Qed.

Lemma flat_items_stats V view : map l_st (flat_items V view) = flat_reference V view.
Proof. unfold flat_items, flat_reference. rewrite map_map. reflexivity. Qed.

Lemma flat_items_in V view it : In it (flat_items V view) ->
  In (l_st it, l_ct it) (walk_root view) /\ selected_or_above V (walk_root view) (l_st it, l_ct it) = true
  /\ l_sel it = V (l_path it).
Proof.
  unfold flat_items. intros H. apply in_map_iff in H. destruct H as (e & <- & He). apply filter_In in He.
  destruct e as [s ct]. cbn. tauto.
Qed.

Lemma NoDup_map_inj {A B} (f : A -> B) l a b : NoDup (map f l) -> In a l -> In b l -> f a = f b -> a = b.
Proof.
  induction l as [|x l IH]; intros H Ha Hb E; [destruct Ha|]. cbn [map] in H. inversion H as [|? ? Hx Hl]; subst.
  destruct Ha as [->|Ha], Hb as [->|Hb]; auto.
  - exfalso. apply Hx. rewrite E. apply in_map. exact Hb.
  - exfalso. apply Hx. rewrite <- E. apply in_map. exact Ha.
Qed.
