(* C03 — the walk of the old destination (Model/DiskWriterFs.v: old_listing): mode bits tell
   directories apart, the listing is strictly ascending in path order, closed under parents, and
   every entry is a real path of the initial file system. *)
From Coq Require Import List Arith NArith Bool Lia ZifyN ZifyNat ZifyBool Sorting.Sorted.
From FS Require Import Sx Model.Path Model.Stat Model.Validator Model.Fs Model.DiskWriterFs.
From FS Require Import Proofs.Lex Proofs.PathP Proofs.ValidatorP Proofs.FsP Proofs.FsReachP Proofs.FsSysP Proofs.FsTreeP.
Import ListNotations.
Open Scope N_scope.
Open Scope bool_scope.

(* ---------------- the type bit of a directory ---------------- *)
Lemma testbit31 m : N.testbit m 31 = negb (N.eqb ((m / 2147483648) mod 2) 0).
Proof.
  pose proof (N.testbit_spec' m 31) as H. change (2 ^ 31) with 2147483648 in H.
  destruct (N.testbit m 31); simpl in H; rewrite <- H; reflexivity.
Qed.

Lemma land_pow31 m : N.land m 2147483648 = if N.testbit m 31 then 2147483648 else 0.
Proof.
  apply N.bits_inj. intros k. rewrite N.land_spec. change 2147483648 with (2 ^ 31). rewrite N.pow2_bits_eqb.
  destruct (N.eqb 31 k) eqn:E.
  - apply N.eqb_eq in E. subst k. rewrite andb_true_r. destruct (N.testbit m 31) eqn:T.
    + rewrite N.pow2_bits_true. reflexivity.
    + rewrite N.bits_0. reflexivity.
  - rewrite andb_false_r. destruct (N.testbit m 31).
    + rewrite N.pow2_bits_false; auto. apply N.eqb_neq in E. exact E.
    + rewrite N.bits_0. reflexivity.
Qed.

Lemma mode_is_dir_small m : m < 2147483648 -> mode_is_dir m = false.
Proof.
  intros H. unfold mode_is_dir, has_bits, ModeDir. rewrite land_pow31, testbit31.
  assert (E : m / 2147483648 = 0) by (apply N.div_small; exact H). rewrite E. reflexivity.
Qed.

Lemma mode_is_dir_big m : m < 2147483648 -> mode_is_dir (m + 2147483648) = true.
Proof.
  intros H. unfold mode_is_dir, has_bits, ModeDir. rewrite land_pow31, testbit31.
  assert (E : (m + 2147483648) / 2147483648 = 1).
  { symmetry. apply (N.div_unique (m + 2147483648) 2147483648 1 m); lia. }
  rewrite E. reflexivity.
Qed.

Lemma land511 p : N.land p 511 < 512.
Proof. change 511 with (N.ones 9). rewrite N.land_ones. apply N.mod_lt. discriminate. Qed.

Lemma go_mode_dir k perm : mode_is_dir (go_mode k perm) = match k with KDir _ _ => true | _ => false end.
Proof.
  unfold go_mode. pose proof (land511 perm) as Hp.
  unfold ModeSetuid, ModeSetgid, ModeSticky, ModeDir, ModeSymlink, ModeNamedPipe, ModeDevice, ModeCharDevice.
  destruct (has_bits perm S_ISUID), (has_bits perm S_ISGID), (has_bits perm S_ISVTX);
    destruct k as [p0 es|d|t|t r]; try (apply mode_is_dir_small; lia); try (apply mode_is_dir_big; lia);
    try (destruct (N.eqb t S_IFIFO); [apply mode_is_dir_small; lia|];
         destruct (N.eqb t S_IFCHR); [apply mode_is_dir_small; lia|];
         destruct (N.eqb t S_IFBLK); apply mode_is_dir_small; lia).
Qed.

(* ---------------- the symlink type bit ---------------- *)
Lemma testbit27 m : N.testbit m 27 = negb (N.eqb ((m / 134217728) mod 2) 0).
Proof.
  pose proof (N.testbit_spec' m 27) as H. change (2 ^ 27) with 134217728 in H.
  destruct (N.testbit m 27); simpl in H; rewrite <- H; reflexivity.
Qed.

Lemma land_pow27 m : N.land m 134217728 = if N.testbit m 27 then 134217728 else 0.
Proof.
  apply N.bits_inj. intros k. rewrite N.land_spec. change 134217728 with (2 ^ 27). rewrite N.pow2_bits_eqb.
  destruct (N.eqb 27 k) eqn:E.
  - apply N.eqb_eq in E. subst k. rewrite andb_true_r. destruct (N.testbit m 27) eqn:T.
    + rewrite N.pow2_bits_true. reflexivity.
    + rewrite N.bits_0. reflexivity.
  - rewrite andb_false_r. destruct (N.testbit m 27).
    + rewrite N.pow2_bits_false; auto. apply N.eqb_neq in E. exact E.
    + rewrite N.bits_0. reflexivity.
Qed.

Lemma go_mode_link t perm : mode_is_symlink (go_mode (KLink t) perm) = true.
Proof.
  unfold go_mode, mode_is_symlink, has_bits. pose proof (land511 perm) as Hp.
  unfold ModeSetuid, ModeSetgid, ModeSticky, ModeSymlink. rewrite land_pow27, testbit27.
  set (x := N.land perm 511 + (if negb (N.land perm S_ISUID =? 0) then 8388608 else 0)
            + (if negb (N.land perm S_ISGID =? 0) then 4194304 else 0)
            + (if negb (N.land perm S_ISVTX =? 0) then 1048576 else 0)).
  assert (Hx : x < 134217728).
  { unfold x. destruct (negb (N.land perm S_ISUID =? 0)), (negb (N.land perm S_ISGID =? 0)), (negb (N.land perm S_ISVTX =? 0)); lia. }
  assert (E : (x + 134217728) / 134217728 = 1).
  { symmetry. apply (N.div_unique (x + 134217728) 134217728 1 x); lia. }
  rewrite E. reflexivity.
Qed.

(* ---------------- strongly sorted lists ---------------- *)
Lemma SS_app' {A} (R : A -> A -> Prop) l1 l2 :
  StronglySorted R l1 -> StronglySorted R l2 -> (forall a b, In a l1 -> In b l2 -> R a b) ->
  StronglySorted R (l1 ++ l2).
Proof.
  induction l1 as [|x l1 IH]; intros H1 H2 H; simpl; auto.
  inversion H1; subst. constructor.
  - apply IH; auto. intros; apply H; simpl; auto.
  - apply Forall_app. split; auto. apply Forall_forall. intros b Hb. apply H; simpl; auto.
Qed.

Lemma SS_map' {A B} (R : A -> A -> Prop) (R' : B -> B -> Prop) (f : A -> B) l :
  (forall a b, In a l -> In b l -> R a b -> R' (f a) (f b)) ->
  StronglySorted R l -> StronglySorted R' (map f l).
Proof.
  induction l as [|x l IH]; intros H HS; simpl; [constructor|].
  inversion HS; subst. constructor.
  - apply IH; auto. intros; apply H; simpl; auto.
  - apply Forall_forall. intros y Hy. apply in_map_iff in Hy. destruct Hy as (a & <- & Ha).
    apply H; simpl; auto. rewrite Forall_forall in H3. auto.
Qed.

Lemma SS_flat_map {A B} (R : A -> A -> Prop) (R' : B -> B -> Prop) (g : A -> list B) l :
  StronglySorted R l ->
  (forall a, In a l -> StronglySorted R' (g a)) ->
  (forall a b x y, In a l -> In b l -> R a b -> In x (g a) -> In y (g b) -> R' x y) ->
  StronglySorted R' (flat_map g l).
Proof.
  induction l as [|a l IH]; intros HS H1 H2; simpl; [constructor|].
  inversion HS; subst. apply SS_app'.
  - apply H1. left. reflexivity.
  - apply IH; auto.
    + intros; apply H1; right; auto.
    + intros a0 b x y Ha Hb; apply H2; right; auto.
  - intros x y Hx Hy. apply in_flat_map in Hy. destruct Hy as (b & Hb & Hy).
    rewrite Forall_forall in H4. apply (H2 a b x y); auto; [left; reflexivity|right; auto].
Qed.

Lemma map_flat_map' {A B C} (g : B -> C) (f : A -> list B) l :
  map g (flat_map f l) = flat_map (fun x => map g (f x)) l.
Proof. induction l as [|a l IH]; simpl; [reflexivity|]. rewrite map_app, IH. reflexivity. Qed.

Lemma flat_map_ext_in' {A B} (f g : A -> list B) l :
  (forall a, In a l -> f a = g a) -> flat_map f l = flat_map g l.
Proof.
  induction l as [|a l IH]; intros H; simpl; [reflexivity|].
  rewrite (H a (or_introl eq_refl)), IH; auto. intros; apply H; right; auto.
Qed.

(* ---------------- a directory's entries in the order of the walk ---------------- *)
Definition name_lt {A} (a b : bytes * A) : Prop := cmpb (fst a) (fst b) = Lt.

Lemma insert_sorted_ss {A} k (v : A) l :
  StronglySorted name_lt l -> ~ In k (map fst l) -> StronglySorted name_lt (insert_sorted k v l).
Proof.
  induction l as [|[k' v'] l IH]; intros HS Hni; simpl.
  - constructor; constructor.
  - inversion HS as [|? ? HS' Hall]; subst. rewrite <- cmpb_is_cmp_bytes.
    destruct (cmpb k k') eqn:E.
    + apply cmpb_eq in E. subst. exfalso. apply Hni. left. reflexivity.
    + constructor; auto. constructor.
      * exact E.
      * rewrite Forall_forall in *. intros x Hx. unfold name_lt in *. simpl.
        apply (cmpb_trans _ k'); [exact E|apply (Hall x Hx)].
    + constructor.
      * apply IH; auto. intro H. apply Hni. right. exact H.
      * rewrite Forall_forall in *. intros x Hx. apply insert_sorted_In in Hx. destruct Hx as [->|Hx].
        -- unfold name_lt. simpl. rewrite cmpb_opp, E. reflexivity.
        -- apply Hall. exact Hx.
Qed.

Lemma sort_ents_fst {A} (l : list (bytes * A)) x : In x (map fst (sort_ents l)) -> In x (map fst l).
Proof.
  intros H. apply in_map_iff in H. destruct H as (y & <- & Hy). apply sort_ents_In in Hy. apply in_map. exact Hy.
Qed.

Lemma sort_ents_ss {A} (l : list (bytes * A)) : NoDup (map fst l) -> StronglySorted name_lt (sort_ents l).
Proof.
  unfold sort_ents. induction l as [|[k v] l IH]; simpl; intros H; [constructor|].
  inversion H; subst. apply insert_sorted_ss; auto.
  intro Hin. apply H2. apply (sort_ents_fst l k). exact Hin.
Qed.

(* ---------------- the walk on component lists ---------------- *)
Definition centry := (list bytes * N * inode)%type.
Definition cpre (name : bytes) (x : centry) : centry := (name :: fst (fst x), snd (fst x), snd x).

Fixpoint walkc (fuel : nat) (f : fs) (j : N) : list centry :=
  match fuel with
  | O => []
  | S k =>
    match dir_of f j with
    | None => []
    | Some (_, es) =>
      flat_map (fun e : bytes * N =>
                  match get f (snd e) with
                  | Some n => ([fst e], snd e, n) :: map (cpre (fst e)) (walkc k f (snd e))
                  | None => []
                  end) (sort_ents es)
    end
  end.

Definition cpath (rel : list bytes) (x : centry) : bytes * N * inode := (joinc (rel ++ fst (fst x)), snd (fst x), snd x).

Section Walk.
Variable D : N.
Notation reach := (reach D).
Notation wf := (wf D).

Lemma tree_below_walkc f : wf f -> forall fuel j relcs, reach f j -> relcs = [] \/ okc relcs ->
  tree_below fuel f j (joinc relcs) = map (cpath relcs) (walkc fuel f j).
Proof.
  intros W. induction fuel as [|fuel IH]; intros j relcs Rj Hrel; [reflexivity|].
  simpl. destruct (dir_of f j) as [[pp es]|] eqn:Ed; [|reflexivity].
  assert (Hes : ents f j = es) by (apply (dir_of_ents _ _ _ _ Ed)).
  rewrite map_flat_map'.
  apply flat_map_ext_in'. intros [name k] Hk. cbn [fst snd].
  apply sort_ents_In in Hk.
  assert (Hok : okname name).
  { pose proof (wf_names D f W j Rj) as [_ H]. rewrite Hes in H. rewrite Forall_forall in H.
    apply H. change name with (fst (name, k)). apply in_map. exact Hk. }
  assert (Rk : reach f k) by (apply (reach_step D f j name k); auto; rewrite Hes; auto).
  destruct (get f k) as [nk|]; [|reflexivity].
  rewrite (child_path_joinc relcs name Hrel). simpl. f_equal.
  rewrite (IH k (relcs ++ [name]) Rk) by (right; apply okc_app; auto; discriminate).
  rewrite map_map. apply map_ext. intros [[cs i] n]. unfold cpath, cpre. simpl. rewrite <- app_assoc. reflexivity.
Qed.


Lemma lex_cons_same' n a b : lex (n :: a) (n :: b) = lex a b.
Proof. simpl. rewrite cmpb_refl. reflexivity. Qed.

Definition clt (x y : centry) : Prop := lex (fst (fst x)) (fst (fst y)) = Lt.

Lemma walkc_spec f : wf f -> forall fuel j, reach f j -> forall cs i n, In (cs, i, n) (walkc fuel f j) ->
  cs <> [] /\ Forall okname cs /\ rwalk f j cs = Some i /\ get f i = Some n.
Proof.
  intros W. induction fuel as [|fuel IH]; intros j Rj cs i n Hin; [destruct Hin|].
  simpl in Hin. destruct (dir_of f j) as [[pp es]|] eqn:Ed; [|destruct Hin].
  assert (Hes : ents f j = es) by (apply (dir_of_ents _ _ _ _ Ed)).
  apply in_flat_map in Hin. destruct Hin as ([name k] & Hk & Hin). cbn [fst snd] in Hin.
  apply sort_ents_In in Hk.
  assert (Hbl : blookup name (ents f j) = Some k).
  { rewrite Hes. apply In_blookup_nodup; auto. rewrite <- Hes. apply (wf_names D f W j Rj). }
  assert (Hok : okname name).
  { pose proof (wf_names D f W j Rj) as [_ H]. rewrite Hes in H. rewrite Forall_forall in H.
    apply H. change name with (fst (name, k)). apply in_map. exact Hk. }
  assert (Rk : reach f k) by (apply (reach_step D f j name k); auto; rewrite Hes; auto).
  destruct (get f k) as [nk|] eqn:Eg; [|destruct Hin].
  destruct Hin as [Hin|Hin].
  - inversion Hin; subst. repeat split; auto; try discriminate. rewrite rwalk_unfold, Hbl. reflexivity.
  - apply in_map_iff in Hin. destruct Hin as ([[cs' i'] n'] & E & Hin). unfold cpre in E. simpl in E. inversion E; subst.
    destruct (IH k Rk cs' i n Hin) as (H1 & H2 & H3 & H4).
    repeat split; auto; try discriminate. rewrite rwalk_unfold, Hbl. exact H3.
Qed.

Lemma walkc_sorted f : wf f -> forall fuel j, reach f j -> StronglySorted clt (walkc fuel f j).
Proof.
  intros W. induction fuel as [|fuel IH]; intros j Rj; [constructor|].
  simpl. destruct (dir_of f j) as [[pp es]|] eqn:Ed; [|constructor].
  assert (Hes : ents f j = es) by (apply (dir_of_ents _ _ _ _ Ed)).
  assert (Hnd : NoDup (map fst es)) by (rewrite <- Hes; apply (wf_names D f W j Rj)).
  apply (SS_flat_map name_lt clt).
  - apply sort_ents_ss. exact Hnd.
  - intros [name k] Hk. cbn [fst snd]. apply sort_ents_In in Hk.
    assert (Rk : reach f k) by (apply (reach_step D f j name k); auto; rewrite Hes; auto).
    destruct (get f k) as [nk|]; [|constructor]. constructor.
    + apply (SS_map' clt clt); [|apply IH; exact Rk].
      intros a b _ _ H. unfold clt, cpre in *. cbn [fst snd]. rewrite lex_cons_same'. exact H.
    + apply Forall_forall. intros x Hx. apply in_map_iff in Hx. destruct Hx as ([[cs' i'] n'] & <- & Hx).
      unfold clt, cpre. simpl. rewrite cmpb_refl. destruct cs'; [|reflexivity].
      exfalso. destruct (walkc_spec f W fuel k Rk [] i' n' Hx) as (H & _). congruence.
  - intros [n1 k1] [n2 k2] x y _ _ Hlt Hx Hy. cbn [fst snd] in *. unfold name_lt in Hlt. simpl in Hlt.
    assert (Hhead : forall (nm : bytes) (k : N) (z : centry),
              In z (match get f k with
                    | Some n => ([nm], k, n) :: map (cpre nm) (walkc fuel f k)
                    | None => [] end) -> exists r, fst (fst z) = nm :: r).
    { intros nm k z Hz. destruct (get f k); [|destruct Hz]. destruct Hz as [<-|Hz]; [exists []; reflexivity|].
      apply in_map_iff in Hz. destruct Hz as (w & <- & _). exists (fst (fst w)). reflexivity. }
    destruct (Hhead n1 k1 x Hx) as [r1 E1]. destruct (Hhead n2 k2 y Hy) as [r2 E2].
    unfold clt. rewrite E1, E2. simpl. rewrite Hlt. reflexivity.
Qed.

Lemma walkc_closed f : wf f -> forall fuel j, reach f j -> forall cs i n a b,
  In (cs, i, n) (walkc fuel f j) -> cs = a ++ b -> a <> [] -> b <> [] ->
  exists i' n', In (a, i', n') (walkc fuel f j).
Proof.
  intros W. induction fuel as [|fuel IH]; intros j Rj cs i n a b Hin E Ha Hb; [destruct Hin|].
  simpl in Hin |- *. destruct (dir_of f j) as [[pp es]|] eqn:Ed; [|destruct Hin].
  assert (Hes : ents f j = es) by (apply (dir_of_ents _ _ _ _ Ed)).
  apply in_flat_map in Hin. destruct Hin as ([name k] & Hk & Hin). cbn [fst snd] in Hin.
  pose proof (sort_ents_In _ _ Hk) as Hk'.
  assert (Rk : reach f k) by (apply (reach_step D f j name k); auto; rewrite Hes; auto).
  destruct (get f k) as [nk|] eqn:Eg; [|destruct Hin].
  destruct Hin as [Hin|Hin].
  - inversion Hin; subst. destruct a as [|a0 a']; [congruence|]. destruct a'; destruct b; simpl in H0; try congruence; discriminate.
  - apply in_map_iff in Hin. destruct Hin as ([[cs' i'] n'] & E' & Hin). unfold cpre in E'. simpl in E'. inversion E'; subst.
    destruct a as [|a0 a']; [congruence|]. simpl in H0. inversion H0; subst a0.
    destruct a' as [|a1 a''].
    + exists k, nk. apply in_flat_map. exists (name, k). split; auto. cbn [fst snd]. rewrite Eg. left. reflexivity.
    + destruct (IH k Rk cs' i n (a1 :: a'') b Hin H2 ltac:(discriminate) Hb) as (i2 & n2 & H).
      exists i2, n2. apply in_flat_map. exists (name, k). split; auto. cbn [fst snd]. rewrite Eg. right.
      apply in_map_iff. exists (a1 :: a'', i2, n2). split; auto.
Qed.

End Walk.

(* ---------------- the listing handed to the diff ---------------- *)
Definition is_kdir (n : inode) : bool := match i_kind n with KDir _ _ => true | _ => false end.

Lemma listing_of_shape : forall l seen,
  Forall2 (fun (s : stat) (e : bytes * N * inode) => st_path s = fst (fst e) /\ st_is_dir s = is_kdir (snd e)
                                                      /\ st_mode s = go_mode (i_kind (snd e)) (m_mode (i_meta (snd e))))
          (listing_of l seen) l.
Proof.
  induction l as [|[[p i] n] l IH]; intros seen; simpl; [constructor|].
  assert (M : forall hl, st_path (mkstat p n hl) = p /\ st_is_dir (mkstat p n hl) = is_kdir n
                         /\ st_mode (mkstat p n hl) = go_mode (i_kind n) (m_mode (i_meta n))).
  { intros hl. split; [reflexivity|]. split; [|reflexivity]. unfold st_is_dir, mkstat, is_kdir. simpl. apply go_mode_dir. }
  destruct (i_kind n) eqn:Ek; try (destruct (seen_path i seen)); constructor; auto; cbn [fst snd]; rewrite ?Ek; apply M.
Qed.

Definition plt (a b : stat) : Prop := compare_path (st_path a) (st_path b) = Lt.

Section Old.
Variable D : N.
Notation reach := (reach D).
Notation wf := (wf D).

Lemma rwalk_names f : forall cs j i, reach f j -> rwalk f j cs = Some i ->
  forall c, In c cs -> exists d, reach f d /\ blookup c (ents f d) <> None.
Proof.
  induction cs as [|c0 r IH]; intros j i Rj Hw c Hc; [destruct Hc|].
  rewrite rwalk_unfold in Hw. destruct (blookup c0 (ents f j)) as [k|] eqn:Eb; [|discriminate].
  destruct Hc as [<-|Hc].
  - exists j. split; auto. congruence.
  - apply (IH k i); auto. apply (reach_step D f j c0 k); auto. apply blookup_In. exact Eb.
Qed.

(* what the receive loop needs to know about the old listing *)
Record old_facts (f : fs) (L : list stat) : Prop := {
  of_sorted : StronglySorted plt L;
  of_entry : forall s, In s L ->
      ok_path (st_path s) = true
      /\ exists i, rwalk f D (comps (st_path s)) = Some i /\ st_is_dir s = is_dir f i /\ get f i <> None
                    /\ (is_link f i = true -> mode_is_symlink (st_mode s) = true);
  of_names : forall s c, In s L -> In c (comps (st_path s)) -> exists d, reach f d /\ blookup c (ents f d) <> None;
  of_closed : forall s a b, In s L -> comps (st_path s) = a ++ b -> a <> [] -> b <> [] ->
      exists s', In s' L /\ comps (st_path s') = a
}.

Lemma Forall2_In_l {A B} (R : A -> B -> Prop) l1 l2 a : Forall2 R l1 l2 -> In a l1 -> exists b, In b l2 /\ R a b.
Proof.
  induction 1; intros Hin; [destruct Hin|]. destruct Hin as [<-|Hin]; [exists y; split; [left|]; auto|].
  destruct (IHForall2 Hin) as (b & Hb & Hr). exists b. split; [right|]; auto.
Qed.

Lemma Forall2_In_r {A B} (R : A -> B -> Prop) l1 l2 b : Forall2 R l1 l2 -> In b l2 -> exists a, In a l1 /\ R a b.
Proof.
  induction 1; intros Hin; [destruct Hin|]. destruct Hin as [<-|Hin]; [exists x; split; [left|]; auto|].
  destruct (IHForall2 Hin) as (a & Ha & Hr). exists a. split; [right|]; auto.
Qed.

Lemma Forall2_SS {A B} (R : A -> B -> Prop) (RA : A -> A -> Prop) (RB : B -> B -> Prop) l1 l2 :
  Forall2 R l1 l2 ->
  (forall a a' b b', In b l2 -> In b' l2 -> R a b -> R a' b' -> RB b b' -> RA a a') ->
  StronglySorted RB l2 -> StronglySorted RA l1.
Proof.
  induction 1; intros Hr HS; [constructor|]. inversion HS; subst. constructor.
  - apply IHForall2; auto. intros a a' b b' Hb Hb'. apply Hr; right; auto.
  - apply Forall_forall. intros a Ha. destruct (Forall2_In_l R l l' a H0 Ha) as (b & Hb & Hab).
    rewrite Forall_forall in H4. apply (Hr x a y b); auto; [left; reflexivity|right; exact Hb].
Qed.

Lemma Forall2_map_r {A B C} (R : A -> C -> Prop) (g : B -> C) l1 l2 :
  Forall2 R l1 (map g l2) -> Forall2 (fun a b => R a (g b)) l1 l2.
Proof.
  revert l1. induction l2 as [|b l2 IH]; intros l1 H; simpl in H; inversion H; subst; constructor; auto.
Qed.

Theorem old_listing_facts f : wf f -> old_facts f (old_listing f D).
Proof.
  intros W. unfold old_listing.
  pose proof (tree_below_walkc D f W 64 D [] (reach_refl D f) (or_introl eq_refl)) as E.
  change (joinc []) with (@nil N) in E.
  rewrite E. set (LC := walkc 64 f D).
  pose proof (Forall2_map_r _ _ _ _ (listing_of_shape (map (cpath []) LC) [])) as F2.
  set (L := listing_of (map (cpath []) LC) []) in *.
  assert (Hspec : forall x, In x LC -> fst (fst x) <> [] /\ Forall okname (fst (fst x))
                             /\ rwalk f D (fst (fst x)) = Some (snd (fst x)) /\ get f (snd (fst x)) = Some (snd x)).
  { intros [[cs i] n] Hx. apply (walkc_spec D f W 64 D (reach_refl D f) cs i n Hx). }
  assert (Hokc : forall x, In x LC -> okc (fst (fst x))).
  { intros x Hx. destruct (Hspec x Hx) as (A & B & _). apply okname_forall in B. destruct B. repeat split; auto. }
  assert (Hcomps : forall x, In x LC -> comps (joinc (fst (fst x))) = fst (fst x)).
  { intros x Hx. destruct (Hokc x Hx) as (A & _ & C). apply comps_joinc; auto. }
  assert (Hs : forall s, In s L -> exists x, In x LC /\ st_path s = joinc (fst (fst x)) /\ st_is_dir s = is_kdir (snd x)
                                              /\ st_mode s = go_mode (i_kind (snd x)) (m_mode (i_meta (snd x)))).
  { intros s Hin. destruct (Forall2_In_l _ _ _ s F2 Hin) as (x & Hx & H1 & H2 & H3). exists x. split; auto. }
  assert (Hx : forall x, In x LC -> exists s, In s L /\ st_path s = joinc (fst (fst x))).
  { intros x Hin. destruct (Forall2_In_r _ _ _ x F2 Hin) as (s & Hs' & H1 & H2). exists s. split; auto. }
  constructor.
  - apply (Forall2_SS _ plt clt L LC F2); [|apply (walkc_sorted D f W 64 D (reach_refl D f))].
    intros a a' b b' Hb Hb' (Ea & _ & _) (Ea' & _ & _) Hlt. unfold plt. cbn [cpath fst snd app] in Ea, Ea'.
    rewrite Ea, Ea', compare_path_lex, (Hcomps b Hb), (Hcomps b' Hb'). exact Hlt.
  - intros s Hin. destruct (Hs s Hin) as (x & Hxin & Ep & Ed & Em). destruct (Hspec x Hxin) as (A & B & C & G).
    split; [rewrite Ep; apply okc_ok_path; apply (Hokc x Hxin)|].
    exists (snd (fst x)). rewrite Ep, (Hcomps x Hxin). split; [exact C|]. split; [|split].
    + rewrite Ed. unfold is_kdir, is_dir, dir_of. rewrite G. destruct (snd x) as [k m]. destruct k; reflexivity.
    + rewrite G. discriminate.
    + intros Hl. rewrite Em. unfold is_link in Hl. rewrite G in Hl. destruct (snd x) as [k m]. cbn [i_kind i_meta] in Hl |- *.
      destruct k; try discriminate. apply go_mode_link.
  - intros s c Hin Hc. destruct (Hs s Hin) as (x & Hxin & Ep & _ & _). destruct (Hspec x Hxin) as (_ & _ & C & _).
    rewrite Ep, (Hcomps x Hxin) in Hc. apply (rwalk_names f (fst (fst x)) D (snd (fst x)) (reach_refl D f) C c Hc).
  - intros s a b Hin Ec Ha Hb. destruct (Hs s Hin) as (x & Hxin & Ep & _ & _).
    rewrite Ep, (Hcomps x Hxin) in Ec. destruct x as [[cs i] n]. simpl in Ec.
    destruct (walkc_closed D f W 64 D (reach_refl D f) cs i n a b Hxin Ec Ha Hb) as (i' & n' & Hin').
    destruct (Hx _ Hin') as (s' & Hs' & Ep'). exists s'. split; auto. rewrite Ep'. apply (Hcomps _ Hin').
Qed.

End Old.

(* ---------------- "below" on strings and on components ---------------- *)
Lemma comps_app_sep_gen a b : comps (a ++ sep :: b) = comps a ++ comps b.
Proof.
  induction a as [|x a IH]; simpl.
  - reflexivity.
  - destruct (N.eqb x sep) eqn:E.
    + rewrite IH. reflexivity.
    + rewrite IH. destruct (comps a) as [|c cs] eqn:Ec; [exfalso; apply (comps_nonempty a Ec)|]. reflexivity.
Qed.

Lemma suppressed_prefix X q : suppressed (X ++ [sep]) q = true ->
  exists y, y <> [] /\ comps q = comps X ++ y.
Proof.
  unfold suppressed. intros H. apply andb_true_iff in H. destruct H as [_ H].
  apply has_prefix_app in H. destruct H as [r ->]. rewrite <- app_assoc. simpl.
  rewrite comps_app_sep_gen. exists (comps r). split; auto. apply comps_nonempty.
Qed.

Lemma has_prefix_self a b : has_prefix a (a ++ b) = true.
Proof. induction a as [|x a IH]; simpl; [reflexivity|]. rewrite N.eqb_refl. exact IH. Qed.

Lemma joinc_app a b : a <> [] -> b <> [] -> joinc (a ++ b) = joinc a ++ sep :: joinc b.
Proof.
  intros Ha Hb. induction a as [|c a IH]; [congruence|].
  destruct a as [|c2 a].
  - simpl. destruct b; [congruence|reflexivity].
  - change ((c :: c2 :: a) ++ b) with (c :: ((c2 :: a) ++ b)).
    rewrite (joinc_cons c ((c2 :: a) ++ b)) by (simpl; discriminate).
    rewrite IH by discriminate. rewrite (joinc_cons c (c2 :: a)) by discriminate.
    rewrite <- app_assoc. reflexivity.
Qed.

Lemma prefix_suppressed X q y : ok_path X = true -> ok_path q = true -> y <> [] -> comps q = comps X ++ y ->
  suppressed (X ++ [sep]) q = true.
Proof.
  intros HX Hq Hy E. unfold suppressed. apply andb_true_iff. split.
  - destruct X; reflexivity.
  - rewrite <- (joinc_comps q), E. rewrite joinc_app; [|apply comps_nonempty|exact Hy].
    rewrite joinc_comps. change (X ++ sep :: joinc y) with (X ++ [sep] ++ joinc y). rewrite app_assoc. apply has_prefix_self.
Qed.

(* between a path and one of its descendants there are only descendants *)
Lemma lex_between_prefix : forall X p y, lex X p = Lt -> lex p (X ++ y) = Lt -> is_prefix X p.
Proof.
  induction X as [|x X IH]; intros p y H1 H2; [exists p; reflexivity|].
  destruct p as [|c p]; [simpl in H1; discriminate|].
  simpl in H1, H2. destruct (cmpb x c) eqn:E.
  - apply cmpb_eq in E. subst c. rewrite cmpb_refl in H2.
    destruct (IH p y H1 H2) as [z ->]. exists z. reflexivity.
  - rewrite cmpb_opp, E in H2. simpl in H2. discriminate.
  - discriminate.
Qed.
