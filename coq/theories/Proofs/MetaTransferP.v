(* C19 — compositions: the listing file at byte level (with C20), convergence of the
   destination to the projection (with C01), the REQ ids (with C02).  The theorems of the other
   properties are used through their property files (Properties/C01.v, C02.v, C20.v). *)
From Coq Require Import List NArith Bool Lia ZifyN ZifyNat ZifyBool Permutation Sorting.Sorted.
From FS Require Import Sx Model.Path Model.Stat Model.Validator Model.Hardlinks Model.Diff Model.AbsDest
  Model.Varint Model.Codec Model.MetaBuffer Model.Listing Model.Converge Model.ConvergeA
  Model.MetaOnly Model.MetaTransfer
  Proofs.Lex Proofs.PathP Proofs.ValidatorP Proofs.VarintP Proofs.DiffP Proofs.ConvergeP Proofs.MetaOnlyP Proofs.MetaAcceptP.
From FS Require Proofs.RefValidP Proofs.ListingP.
From FS Require Properties.C01 Properties.C02 Properties.C20.
Import ListNotations.
Open Scope bool_scope.

(* ================================================================== 1. the listing file *)

(* this property's transcription of buffer.go and C20's are the same function *)
Lemma alloc_write_same b r : MetaOnly.alloc_write b r = MetaBuffer.alloc_write b r.
Proof.
  unfold MetaOnly.alloc_write, MetaBuffer.alloc_write, MetaOnly.chunk_size, MetaBuffer.chunk_size.
  rewrite <- (len_length r). destruct b as [|[c cap] b']; [reflexivity|].
  rewrite <- (len_length c). reflexivity.
Qed.

Lemma alloc_all_same recs : forall b, fold_left MetaOnly.alloc_write recs b = fold_left MetaBuffer.alloc_write recs b.
Proof.
  induction recs as [|r recs IH]; intros b; [reflexivity|]. cbn [fold_left].
  rewrite alloc_write_same. apply IH.
Qed.

Lemma buf_bytes_same b : buf_bytes b = write_to b.
Proof. unfold buf_bytes, write_to. rewrite map_rev. reflexivity. Qed.

Lemma buffers_agree_proof recs :
  fold_left MetaOnly.alloc_write recs [] = alloc_all recs /\ listing_file_of recs = write_to (alloc_all recs).
Proof.
  unfold listing_file_of, alloc_all. rewrite alloc_all_same. split; [reflexivity|apply buf_bytes_same].
Qed.

Lemma forall_listable stats :
  (forall s, In s stats -> is_listing s = false -> listable s) -> Forall listable (recv_stream stats).
Proof.
  intros H. apply Forall_forall. intros s Hs. unfold recv_stream in Hs. apply filter_In in Hs.
  destruct Hs as [Hs Hn]. apply negb_true_iff in Hn. auto.
Qed.

(* every map iteration order, through the chunked buffer *)
Theorem listing_roundtrip_any_order_proof sel stats recs :
  (forall s, In s stats -> is_listing s = false -> listable s) ->
  Forall2 lrecord_of (r_listing (meta_recv sel stats)) recs ->
  decode_listing (listing_file_of recs) = Some (recv_stream stats).
Proof.
  intros Hl Hr. unfold listing_file_of. rewrite buffer_is_concat_proof.
  rewrite (listing_exact_proof sel stats) in Hr.
  apply Properties.C20.listing_roundtrip_any_order; [apply forall_listable; exact Hl|exact Hr].
Qed.

Theorem listing_roundtrip_proof sel stats :
  (forall s, In s stats -> is_listing s = false -> listable s) ->
  decode_listing (listing_file sel stats) = Some (recv_stream stats).
Proof.
  intros Hl. apply (listing_roundtrip_any_order_proof sel stats); [exact Hl|].
  unfold listing_records, listing_record. rewrite <- map_map. apply ListingP.lrecord_of_canonical.
Qed.

(* ================================================================== 2. the projection *)

Lemma map_fst_filter {X Y} (f : X -> bool) (l : list (X * Y)) :
  map fst (filter (fun e => f (fst e)) l) = filter f (map fst l).
Proof.
  induction l as [|e l IH]; [reflexivity|]. cbn [filter map]. destruct (f (fst e)); cbn [map]; rewrite IH; reflexivity.
Qed.

Lemma filter_filter {X} (f g : X -> bool) (l : list X) :
  filter g (filter f l) = filter (fun x => f x && g x) l.
Proof.
  induction l as [|x l IH]; [reflexivity|]. cbn [filter]. destruct (f x); cbn [filter andb]; rewrite IH; reflexivity.
Qed.

Lemma sorted_filter (f : stat -> bool) L : sorted L -> sorted (filter f L).
Proof.
  unfold sorted. induction L as [|a L IH]; intros HS; [constructor|].
  apply StronglySorted_inv in HS. destruct HS as [HS Ha]. cbn [filter].
  destruct (f a); [|auto]. constructor; [auto|].
  apply Forall_forall. intros x Hx. apply filter_In in Hx. rewrite Forall_forall in Ha. apply Ha. tauto.
Qed.

Lemma is_reg_plain s : AbsDest.is_reg s = true -> hl_plain s = true.
Proof.
  unfold AbsDest.is_reg, hl_plain, st_is_dir. intros H. apply andb_true_iff in H. destruct H as [H Hs].
  apply andb_true_iff in H. destruct H as [Hd _]. rewrite Hd, Hs. reflexivity.
Qed.

Lemma is_hardlink_facts s : is_hardlink s = true -> hl_plain s = true /\ has_link s = true.
Proof.
  unfold is_hardlink, has_link. intros H. apply andb_true_iff in H. destruct H as [Hr He].
  split; [exact Hr|]. destruct (st_linkname s); [discriminate|reflexivity].  (* is_node IS hl_plain *)
Qed.

Section Proj.
Variable sel : stat -> bool.

Lemma proj_stats B : map fst (meta_proj sel B) = filter (fwd_pred sel (map fst B)) (map fst B).
Proof. unfold meta_proj. apply (map_fst_filter (fwd_pred sel (map fst B))). Qed.

Lemma fwd_filter L : filter (fwd_pred sel L) L = filter (needed sel (recv_stream L)) (recv_stream L).
Proof. unfold recv_stream at 2. rewrite filter_filter. reflexivity. Qed.

(* the stats of the projection are what the receive loop forwards *)
Theorem proj_is_forwarded_proof B :
  valid_stream (recv_stream (map fst B)) ->
  map fst (meta_proj sel B) = r_forwarded (meta_recv sel (map fst B)).
Proof.
  intros Hv. rewrite proj_stats, fwd_filter. symmetry. apply forwarded_exact_proof. exact Hv.
Qed.

Lemma in_proj B s c : In (s, c) (meta_proj sel B) <-> In (s, c) B /\ fwd_pred sel (map fst B) s = true.
Proof. unfold meta_proj. rewrite filter_In. reflexivity. Qed.

Lemma in_recv_stream L s : In s (recv_stream L) <-> In s L /\ is_listing s = false.
Proof. unfold recv_stream. rewrite filter_In, negb_true_iff. reflexivity. Qed.

Lemma no_dep_under L : listing_dependents L = false -> forall t, In t L -> under listing_name (st_path t) = false.
Proof.
  intros H t Ht. unfold listing_dependents in H.
  destruct (under listing_name (st_path t)) eqn:E; [|reflexivity].
  assert (X : existsb (fun t => under listing_name (st_path t) || (hl_plain t && bytes_eqb (st_linkname t) listing_name)) L = true).
  { apply existsb_exists. exists t. rewrite E. auto. }
  rewrite X in H. discriminate.
Qed.

Lemma no_dep_link L : listing_dependents L = false ->
  forall t, In t L -> hl_plain t = true -> st_linkname t <> listing_name.
Proof.
  intros H t Ht Hp E. unfold listing_dependents in H.
  assert (X : existsb (fun t => under listing_name (st_path t) || (hl_plain t && bytes_eqb (st_linkname t) listing_name)) L = true).
  { apply existsb_exists. exists t. split; [exact Ht|]. rewrite Hp, E, bytes_eqb_refl. apply orb_true_r. }
  rewrite X in H. discriminate.
Qed.

Lemma under_app q r : under q (q ++ sep :: r) = true.
Proof.
  unfold under. replace (q ++ sep :: r) with ((q ++ [sep]) ++ r) by (rewrite <- app_assoc; reflexivity).
  apply has_prefix_self.
Qed.

Lemma under_trans q r t : under (q ++ sep :: r) t = true -> under q t = true.
Proof.
  unfold under. intros H. apply has_prefix_app in H. destruct H as [y Hy]. subst t.
  replace ((q ++ sep :: r) ++ [sep]) with ((q ++ [sep]) ++ r ++ [sep]) by (repeat rewrite <- app_assoc; reflexivity).
  rewrite <- app_assoc. apply has_prefix_self.
Qed.

Lemma proj_closed L : closed L -> listing_dependents L = false -> closed (filter (fwd_pred sel L) L).
Proof.
  intros HC Hnd s Hs q r E. apply filter_In in Hs. destruct Hs as [Hs Hp].
  destruct (HC s Hs q r E) as (t & Ht & Et & Hd). exists t. split; [|auto].
  apply filter_In. split; [exact Ht|]. unfold fwd_pred in *. apply andb_true_iff in Hp. destruct Hp as [Hl Hn].
  apply negb_true_iff in Hl.
  assert (Hlt : is_listing t = false).
  { destruct (is_listing t) eqn:El; [|reflexivity]. unfold is_listing in El. apply bytes_eqb_eq in El.
    pose proof (no_dep_under L Hnd s Hs) as X. rewrite E, <- Et, El, under_app in X. discriminate. }
  rewrite Hlt. cbn [negb andb]. unfold needed in Hn. apply orb_true_iff in Hn. destruct Hn as [Hsel|Hn].
  - apply (nd_anc sel _ t s); auto. { apply in_recv_stream. auto. } rewrite Et, E. apply under_app.
  - apply andb_true_iff in Hn. destruct Hn as [_ Hn]. apply existsb_exists in Hn. destruct Hn as (x & Hx & Hn).
    apply andb_true_iff in Hn. destruct Hn as [Hsx Hu]. apply (nd_anc sel _ t x); auto.
    rewrite Et. rewrite E in Hu. apply (under_trans q r). exact Hu.
Qed.

Lemma proj_links_canon B :
  links_canon B -> listing_dependents (map fst B) = false -> link_closed sel (recv_stream (map fst B)) = true ->
  links_canon (meta_proj sel B).
Proof.
  intros HL Hnd Hlc sb bb Hin Hh. apply in_proj in Hin. destruct Hin as [Hin Hp].
  destruct (HL sb bb Hin Hh) as (st & bt & Ht & Ep & Hlt & Hr & Hln & Hm & Eb).
  exists st, bt. split; [|tauto]. apply in_proj. split; [exact Ht|].
  destruct (is_hardlink_facts sb Hh) as [Hpl Hhl].
  assert (Hsb : In sb (map fst B)) by (apply (in_map fst) in Hin; exact Hin).
  assert (Hst : In st (map fst B)) by (apply (in_map fst) in Ht; exact Ht).
  unfold fwd_pred in *. apply andb_true_iff in Hp. destruct Hp as [Hl Hn]. apply negb_true_iff in Hl.
  assert (Hlt' : is_listing st = false).
  { destruct (is_listing st) eqn:El; [|reflexivity]. unfold is_listing in El. apply bytes_eqb_eq in El.
    exfalso. apply (no_dep_link _ Hnd sb Hsb Hpl). rewrite <- Ep. exact El. }
  rewrite Hlt'. cbn [negb andb]. rewrite (needed_plain sel _ sb Hpl) in Hn.
  unfold link_closed in Hlc. rewrite forallb_forall in Hlc.
  assert (Hsb' : In sb (recv_stream (map fst B))) by (apply in_recv_stream; auto).
  specialize (Hlc sb Hsb'). rewrite Hn, Hpl, Hhl in Hlc. cbn [andb negb orb] in Hlc.
  rewrite forallb_forall in Hlc.
  assert (Hst' : In st (recv_stream (map fst B))) by (apply in_recv_stream; auto).
  specialize (Hlc st Hst'). rewrite Ep, bytes_eqb_refl in Hlc. cbn [negb orb] in Hlc.
  unfold needed. rewrite Hlc. reflexivity.
Qed.

Theorem proj_wf_entries B :
  wf_entries B -> listing_dependents (map fst B) = false -> recv_accepts sel (map fst B) = true ->
  wf_entries (meta_proj sel B).
Proof.
  intros [[HS HC] HL] Hnd Hacc. pose proof (accepts_link_closed_proof sel _ Hacc) as Hlc. split; [split|].
  - rewrite proj_stats. apply sorted_filter. exact HS.
  - rewrite proj_stats. apply proj_closed; auto.
  - apply proj_links_canon; auto.
Qed.

(* convergence of the destination to the projection; nothing is left under the listing name
   (a stale listing file, symlink or directory of the prior destination is removed) *)
Theorem meta_transfer_converges_proof (H : bytes -> bytes) (hdr : stat -> bytes) d A B :
  wf_entries A -> wf_entries B ->
  listing_dependents (map fst B) = false -> recv_accepts sel (map fst B) = true ->
  AbsDest.identity_faithful d A (meta_proj sel B) ->
  let r := receive_abs H hdr Fresh d A (meta_proj sel B) in
  ds_err r = false /\ approx A (meta_proj sel B) (view_of (ds_map r)) /\
  find_obs listing_name (view_of (ds_map r)) = None.
Proof.
  intros HA HB Hnd Hlc Hf. cbv zeta.
  destruct (Properties.C01.diff_apply_converges H hdr d A (meta_proj sel B) HA (proj_wf_entries B HB Hnd Hlc) Hf) as [He Hap].
  split; [exact He|]. split; [exact Hap|].
  destruct (find_obs listing_name _) as [o|] eqn:Ef; [|reflexivity]. exfalso.
  destruct Hap as [Hsp _]. destruct (proj1 (Hsp listing_name) (ex_intro _ o Ef)) as ([s c] & Hin & Ep).
  apply in_proj in Hin. destruct Hin as [_ Hp]. unfold fwd_pred, is_listing in Hp. cbn [fst] in Ep.
  rewrite Ep, bytes_eqb_refl in Hp. discriminate.
Qed.

(* a well-formed source listing with clean relative paths and nothing below the listing name
   is accepted by the receiver's order validator after the skip *)
Lemma receiver_accepts_wf_proof L :
  wf_listing L -> (forall s, In s L -> ok_path (st_path s) = true) -> listing_dependents L = false ->
  valid_stream (recv_stream L).
Proof.
  intros Hw Hok Hnd. apply recv_valid_of_valid_proof; [|apply no_dep_under; exact Hnd].
  exact (RefValidP.listing_passes_validator L Hw Hok).
Qed.

(* the bytes that arrive under a registered id are the bytes of that entry of the projection *)
Theorem registered_content_proof B p id :
  In (p, id) (r_files (meta_recv sel (map fst B))) ->
  exists s c, nth_error B id = Some (s, c) /\ st_path s = p /\ In (s, c) (meta_proj sel B).
Proof.
  intros Hin. destruct (ids_only_selected_proof sel _ p id Hin) as (s & Hn & Ep & Hs & _ & Hne).
  rewrite nth_error_map in Hn. destruct (nth_error B id) as [[s' c]|] eqn:En; [|discriminate].
  cbn in Hn. inversion Hn; subst s'. exists s, c. repeat split; auto.
  apply in_proj. split; [eapply nth_error_In; eauto|]. unfold fwd_pred, needed, is_listing.
  apply bytes_eqb_neq in Hne. rewrite Hne, Hs. reflexivity.
Qed.

End Proj.

(* ================================================================== 3. the REQ ids *)

Lemma files_get_in files p : forall id, files_get files p = Some id -> In (p, id) files.
Proof.
  induction files as [|[q x] r IH]; intros id Hg; [discriminate|]. cbn [files_get] in Hg.
  destruct (files_get r p) as [y|] eqn:E.
  - inversion Hg; subst y. right. apply IH. reflexivity.
  - destruct (bytes_eqb q p) eqn:Eq; [|discriminate]. inversion Hg; subst x.
    apply bytes_eqb_eq in Eq. subst q. left. reflexivity.
Qed.

Lemma files_get_unique files p id :
  In (p, id) files -> (forall id', In (p, id') files -> id' = id) -> files_get files p = Some id.
Proof.
  induction files as [|[q x] r IH]; intros Hin Hu; [destruct Hin|]. cbn [files_get].
  destruct (files_get r p) as [y|] eqn:E.
  - f_equal. apply Hu. right. apply files_get_in. exact E.
  - destruct (bytes_eqb q p) eqn:Eq.
    + apply bytes_eqb_eq in Eq. subst q. f_equal. apply Hu. left. reflexivity.
    + destruct Hin as [Hin|Hin].
      * inversion Hin; subst. rewrite bytes_eqb_refl in Eq. discriminate.
      * assert (X : @None nat = Some id).
        { apply IH; [exact Hin|]. intros id' H'. apply Hu. right. exact H'. }
        discriminate.
Qed.

Lemma sorted_nth_unique L : sorted L -> forall i j s t,
  nth_error L i = Some s -> nth_error L j = Some t -> st_path s = st_path t -> i = j.
Proof.
  induction L as [|a L IH]; intros HS i j s t Hi Hj E; [destruct i; discriminate|].
  apply sorted_inv in HS. destruct HS as [HS Ha].
  destruct i as [|i], j as [|j]; cbn [nth_error] in *.
  - reflexivity.
  - exfalso. inversion Hi; subst a. apply nth_error_In in Hj. specialize (Ha t Hj). unfold plt in Ha.
    rewrite E, compare_path_refl in Ha. discriminate.
  - exfalso. inversion Hj; subst a. apply nth_error_In in Hi. specialize (Ha s Hi). unfold plt in Ha.
    rewrite E, compare_path_refl in Ha. discriminate.
  - f_equal. eapply IH; eauto.
Qed.

Lemma map_get_positions (f : bytes -> option nat) (h : stat -> bool) L : forall i0,
  (forall j s, nth_error L j = Some s -> h s = true -> f (st_path s) = Some (i0 + j)) ->
  map f (map st_path (filter h L)) = map Some (positions_from i0 h L).
Proof.
  induction L as [|a L IH]; intros i0 Hf; [reflexivity|]. cbn [filter positions_from].
  assert (IH' : map f (map st_path (filter h L)) = map Some (positions_from (S i0) h L)).
  { apply IH. intros j s Hj Hh. rewrite (Hf (S j) s Hj Hh). f_equal. lia. }
  destruct (h a) eqn:Eh; cbn [map app]; [|exact IH'].
  rewrite IH', (Hf 0 a eq_refl Eh). do 2 f_equal. lia.
Qed.

Lemma filter_ext' {X} (f g : X -> bool) l : (forall x, In x l -> f x = g x) -> filter f l = filter g l.
Proof.
  induction l as [|x l IH]; intros H; [reflexivity|]. cbn [filter].
  rewrite (H x (or_introl eq_refl)), IH; [reflexivity|]. intros y Hy. apply H. right. exact Hy.
Qed.

Section Reqs.
Variable sel : stat -> bool.

(* the id the writer's request for an announced wanted entry carries is its position *)
Lemma files_get_position L : sorted L -> forall j s,
  nth_error L j = Some s -> is_listing s = false -> sel s = true -> mode_is_regular (st_mode s) = true ->
  files_get (r_files (meta_recv sel L)) (st_path s) = Some j.
Proof.
  intros HS j s Hj Hl Hs Hm. apply files_get_unique.
  - apply ids_complete_proof; auto. unfold is_listing in Hl. apply bytes_eqb_neq. exact Hl.
  - intros id' Hin. destruct (ids_aligned_proof sel L _ _ Hin) as (s' & Hn' & Ep).
    apply (sorted_nth_unique L HS id' j s' s); auto.
Qed.

Theorem meta_req_ids_proof (H : bytes -> bytes) (hdr : stat -> bytes) d A B :
  wf_entries A -> wf_entries B ->
  listing_dependents (map fst B) = false -> recv_accepts sel (map fst B) = true ->
  AbsDest.identity_faithful d A (meta_proj sel B) ->
  (forall s, In s (map fst B) -> wants_content s = true -> mode_is_regular (st_mode s) = true) ->
  req_ids (r_files (meta_recv sel (map fst B))) (ds_reqs (receive_abs H hdr Fresh d A (meta_proj sel B)))
  = map Some (positions_from 0 (wanted sel d (map fst A)) (map fst B)).
Proof.
  intros HA HB Hnd Hlc Hf Hreg.
  destruct (proj_wf_entries sel B HB Hnd Hlc) as [HwP HlP].
  rewrite (Properties.C02.reqs_exact H hdr d A (meta_proj sel B) (proj1 HA) HwP (links_canon_ok _ HlP) Hf).
  rewrite proj_stats, filter_filter.
  rewrite (filter_ext' _ (wanted sel d (map fst A))).
  - unfold req_ids. apply map_get_positions. intros j s Hj Hw. cbn [plus].
    unfold wanted in Hw. apply andb_true_iff in Hw. destruct Hw as [Hw _].
    apply andb_true_iff in Hw. destruct Hw as [Hw Hwc]. apply andb_true_iff in Hw. destruct Hw as [Hl Hs].
    apply negb_true_iff in Hl. apply files_get_position; auto.
    + exact (proj1 (proj1 HB)).
    + apply Hreg; auto. eapply nth_error_In; eauto.
  - intros x Hx. unfold fwd_pred, wanted. destruct (wants_content x) eqn:Ew.
    + assert (Hp : hl_plain x = true).
      { apply is_reg_plain. unfold wants_content in Ew. apply andb_true_iff in Ew. tauto. }
      rewrite (needed_plain sel _ x Hp). destruct (is_listing x), (sel x); reflexivity.
    + cbn [andb]. repeat rewrite andb_false_r. reflexivity.
Qed.

End Reqs.
