(* C03 — frame lemmas, part 1: the primitive mutations of the inode table (metadata / content
   update, allocation, rewriting one directory's entry list) are steps in the sense of
   FsReachP.v. *)
From Coq Require Import List Arith NArith Bool Lia ZifyN ZifyNat ZifyBool.
From FS Require Import Sx Model.Path Model.Fs Proofs.Lex Proofs.PathP Proofs.FsP Proofs.FsReachP.
Import ListNotations.
Open Scope N_scope.
Open Scope bool_scope.

Section Frame.
Variable D : N.
Notation reach := (reach D).
Notation wf := (wf D).
Notation step := (step D).

(* ---------------- directory structure untouched ---------------- *)
Lemma ents_same f f' : (forall j, dir_of f' j = dir_of f j) -> forall j, ents f' j = ents f j.
Proof. intros H j. unfold ents. rewrite H. reflexivity. Qed.

Lemma reach_same_ents f f' : (forall j, ents f' j = ents f j) -> forall i, reach f' i -> reach f i.
Proof.
  intros H i R. induction R as [|j n i Hj IH Hin]; [constructor|].
  apply (reach_step D f j n i); auto. rewrite <- H. exact Hin.
Qed.

Lemma is_dir_same f f' : (forall j, dir_of f' j = dir_of f j) -> forall j, is_dir f' j = is_dir f j.
Proof. intros H j. unfold is_dir. rewrite H. reflexivity. Qed.

Lemma wf_same_dirs f f' :
  (forall j, dir_of f' j = dir_of f j) -> f_next f' = f_next f ->
  (forall i, f_next f <= i -> get f' i = None) -> wf f -> wf f'.
Proof.
  intros Hd Hn Hg W.
  assert (He := ents_same f f' Hd).
  assert (Hr : forall i, reach f' i -> reach f i) by (apply reach_same_ents; auto).
  constructor.
  - intros i Hi. apply Hg. lia.
  - rewrite (is_dir_same f f' Hd). apply W.
  - intros j Hj. rewrite He. apply (wf_names D f W j (Hr j Hj)).
  - intros j n i Hj Hin. rewrite Hn. rewrite He in Hin. apply (wf_target D f W j n i (Hr j Hj) Hin).
  - intros j n Hj. rewrite He. apply (wf_notD D f W j n (Hr j Hj)).
  - intros j1 j2 n1 n2 i H1 H2 I1 I2 Hdi. rewrite He in I1, I2. rewrite (is_dir_same f f' Hd) in Hdi.
    apply (wf_single D f W j1 j2 n1 n2 i); auto.
Qed.

Lemma dir_of_put_keep f i n n' :
  get f i = Some n -> ktag (i_kind n') = ktag (i_kind n) ->
  (forall p es, i_kind n = KDir p es -> i_kind n' = KDir p es) ->
  forall j, dir_of (put f i n') j = dir_of f j.
Proof.
  intros Hg Ht Hk j. unfold dir_of. destruct (N.eq_dec j i) as [->|Hne].
  - rewrite get_put_same, Hg. destruct n as [k m], n' as [k' m']. simpl in *.
    destruct k.
    + rewrite (Hk _ _ eq_refl). reflexivity.
    + destruct k'; try discriminate; reflexivity.
    + destruct k'; try discriminate; reflexivity.
    + destruct k'; try discriminate; reflexivity.
  - rewrite get_put_other by auto. reflexivity.
Qed.

(* metadata / content of one inode, not D itself: an inode the running operation made
   (reachable or not — a descriptor outlives the name), or a directory inside *)
Lemma step_put_keep T b f i n n' :
  wf f -> b <= f_next f -> i < f_next f -> i <> D -> get f i = Some n ->
  (b <= i \/ (reach f i /\ is_dir f i = true)) ->
  ktag (i_kind n') = ktag (i_kind n) ->
  (forall p es, i_kind n = KDir p es -> i_kind n' = KDir p es) ->
  step T b f (put f i n').
Proof.
  intros W Hb Hlt HD Hg Hbi Ht Hk.
  assert (Hd := dir_of_put_keep f i n n' Hg Ht Hk).
  assert (He := ents_same f _ Hd).
  constructor; auto.
  - simpl. lia.
  - intros j Hj Hjb. apply get_put_other. intro; subst. destruct Hbi as [|[? _]]; [lia|auto].
  - intros j Hj Hdj. apply get_put_other. intro; subst. destruct Hbi as [|[_ ?]]; [lia|congruence].
  - intros j Hj. left. apply (reach_same_ents f _ He). exact Hj.
  - intros j _. destruct (N.eq_dec j i) as [->|Hne].
    + rewrite get_put_same, Hg. simpl. rewrite Ht. reflexivity.
    + rewrite get_put_other by auto. reflexivity.
  - intros j m _ _. rewrite He. reflexivity.
  - intros j m Hj _. rewrite He, (ents_beyond D f j W Hj). reflexivity.
  - destruct (dir_kept_refl D f W) as (p & es & es' & m & m' & G1 & G2 & G3).
    exists p, es, es', m, m'. repeat split; auto; try apply G3.
    rewrite get_put_other by auto. exact G2.
  - apply (wf_same_dirs f); auto.
    intros j Hj. rewrite get_put_other by lia. apply (wf_alloc D f W j Hj).
Qed.

(* ---------------- allocation ---------------- *)
Definition leaf (n : inode) : Prop := match i_kind n with KDir _ es => es = [] | _ => True end.

Lemma alloc_facts f n : wf f -> leaf n ->
  let f1 := fst (alloc f n) in
  (forall j, j <> f_next f -> dir_of f1 j = dir_of f j)
  /\ ents f1 (f_next f) = []
  /\ (forall j, ents f1 j = ents f j)
  /\ (forall i, reach f1 i <-> reach f i).
Proof.
  intros W Hl f1.
  assert (H1 : forall j, j <> f_next f -> dir_of f1 j = dir_of f j).
  { intros j Hj. unfold dir_of, f1. rewrite get_alloc_other by auto. reflexivity. }
  assert (H2 : ents f1 (f_next f) = []).
  { unfold ents, dir_of, f1. rewrite <- (alloc_snd f n) at 1. rewrite get_alloc_new.
    destruct n as [k m]. unfold leaf in Hl. simpl in *. destruct k; auto. }
  assert (H0 : ents f (f_next f) = []).
  { unfold ents, dir_of. rewrite (wf_alloc D f W (f_next f)) by lia. reflexivity. }
  assert (H3 : forall j, ents f1 j = ents f j).
  { intros j. destruct (N.eq_dec j (f_next f)) as [->|Hne]; [congruence|].
    unfold ents. rewrite H1 by auto. reflexivity. }
  repeat split; auto.
  - apply reach_same_ents; auto.
  - apply reach_same_ents; auto.
Qed.

Lemma step_alloc T b f n : wf f -> b <= f_next f -> leaf n -> step T b f (fst (alloc f n)).
Proof.
  intros W Hb Hl. destruct (alloc_facts f n W Hl) as (H1 & H2 & H3 & H4).
  set (f1 := fst (alloc f n)) in *.
  assert (Hn : f_next f1 = f_next f + 1) by reflexivity.
  assert (Hdir : forall j, j < f_next f -> is_dir f1 j = is_dir f j).
  { intros j Hj. unfold is_dir. rewrite H1 by lia. reflexivity. }
  constructor; auto.
  - lia.
  - intros i Hi Hl'. unfold f1. apply get_alloc_other. lia.
  - intros i Hi _. unfold f1. apply get_alloc_other. lia.
  - intros i Hi. left. apply H4. exact Hi.
  - intros i Hi. unfold f1. rewrite get_alloc_other by lia. reflexivity.
  - intros j m _ _. rewrite H3. reflexivity.
  - intros j m Hj _. rewrite H3, (ents_beyond D f j W Hj). reflexivity.
  - destruct (dir_kept_refl D f W) as (p & es & es' & m & m' & G1 & G2 & G3).
    exists p, es, es', m, m'. repeat split; auto; try apply G3.
    unfold f1. rewrite get_alloc_other; auto.
    pose proof (reach_lt D f D W (reach_refl D f)). lia.
  - constructor.
    + intros i Hi. unfold f1. rewrite get_alloc_other by lia. apply (wf_alloc D f W). lia.
    + rewrite Hdir; [apply W|]. apply (reach_lt D f D W). constructor.
    + intros j Hj. rewrite H3. apply (wf_names D f W). apply H4. exact Hj.
    + intros j m i Hj Hin. rewrite H3 in Hin. apply H4 in Hj.
      pose proof (wf_target D f W j m i Hj Hin). lia.
    + intros j m Hj. rewrite H3. apply (wf_notD D f W). apply H4. exact Hj.
    + intros j1 j2 n1 n2 i R1 R2 I1 I2 Hd. rewrite H3 in I1, I2. apply H4 in R1, R2.
      rewrite Hdir in Hd by (apply (wf_target D f W j1 n1 i R1 I1)).
      apply (wf_single D f W j1 j2 n1 n2 i); auto.
Qed.

(* ---------------- rewriting the entry list of one directory ---------------- *)
Lemma set_ents_get f dd p es m es' :
  get f dd = Some {| i_kind := KDir p es; i_meta := m |} ->
  set_ents f dd es' = put f dd {| i_kind := KDir p es'; i_meta := with_mtime m now_mark |}.
Proof. intros H. unfold set_ents. rewrite H. reflexivity. Qed.

Lemma dir_of_get f dd p es : dir_of f dd = Some (p, es) -> exists m, get f dd = Some {| i_kind := KDir p es; i_meta := m |}.
Proof.
  unfold dir_of. destruct (get f dd) as [[k m]|]; [|discriminate]. destruct k; try discriminate.
  intros H. inversion H; subst. eauto.
Qed.

(* newcomers: inodes the running operation allocated and that nothing refers to yet *)
Definition newcomer (b : N) (f : fs) (x : N) : Prop := b <= x /\ ~ reach f x /\ ents f x = [].

Lemma step_set_ents (T : N -> bytes -> Prop) b f dd p es es' :
  wf f -> b <= f_next f -> reach f dd -> dir_of f dd = Some (p, es) ->
  (forall n, ~ T dd n -> blookup n es' = blookup n es) ->
  NoDup (map fst es') -> Forall okname (map fst es') ->
  (forall n x, In (n, x) es' -> x < f_next f /\ x <> D /\
     ((exists n0, In (n0, x) es) \/ (reach f x /\ is_dir f x = false) \/ newcomer b f x)) ->
  (forall n1 n2 x, In (n1, x) es' -> In (n2, x) es' -> is_dir f x = true -> n1 = n2) ->
  step T b f (set_ents f dd es').
Proof.
  intros W Hb Hdd Hdir HT Hnd Hok Htg Hsg.
  destruct (dir_of_get f dd p es Hdir) as [m Hg].
  rewrite (set_ents_get f dd p es m es' Hg).
  remember (put f dd {| i_kind := KDir p es'; i_meta := with_mtime m now_mark |}) as f' eqn:Ef'.
  assert (Hlt : dd < f_next f) by (apply (reach_lt D f dd W Hdd)).
  assert (Ho : forall j, j <> dd -> dir_of f' j = dir_of f j).
  { intros j Hj. unfold dir_of; rewrite Ef'. rewrite get_put_other by auto. reflexivity. }
  assert (Hs : dir_of f' dd = Some (p, es')).
  { unfold dir_of; rewrite Ef'. rewrite get_put_same. reflexivity. }
  assert (Heo : forall j, j <> dd -> ents f' j = ents f j).
  { intros j Hj. unfold ents. rewrite Ho by auto. reflexivity. }
  assert (Hes : ents f' dd = es') by (apply (dir_of_ents _ _ _ _ Hs)).
  assert (Hes0 : ents f dd = es) by (apply (dir_of_ents _ _ _ _ Hdir)).
  assert (Htag : forall i, itag (get f' i) = itag (get f i)).
  { intros i. rewrite Ef'. destruct (N.eq_dec i dd) as [->|Hne].
    - rewrite get_put_same, Hg. reflexivity.
    - rewrite get_put_other by auto. reflexivity. }
  assert (Hisd : forall i, is_dir f' i = is_dir f i).
  { intros i. unfold is_dir. destruct (N.eq_dec i dd) as [->|Hne].
    - rewrite Hs, Hdir. reflexivity.
    - rewrite Ho by auto. reflexivity. }
  (* who is inside afterwards *)
  assert (Hent : forall y, reach f' y -> reach f y \/ newcomer b f y).
  { intros y R. induction R as [|j n y Hj IH Hin]; [left; constructor|].
    destruct IH as [IH|(Hbj & Hnj & Hej)].
    - destruct (N.eq_dec j dd) as [->|Hne].
      + rewrite Hes in Hin. destruct (Htg n y Hin) as (_ & _ & [(n0 & H0)|[(H0 & _)|H0]]); auto.
        left. apply (reach_step D f dd n0 y); auto. rewrite Hes0. exact H0.
      + rewrite Heo in Hin by auto. left. apply (reach_step D f j n y); auto.
    - exfalso. assert (Hne : j <> dd) by (intro; subst; auto).
      rewrite Heo in Hin by auto. rewrite Hej in Hin. exact Hin. }
  assert (Hent' : forall j n y, reach f' j -> In (n, y) (ents f' j) -> reach f j).
  { intros j n y Hj Hin. destruct (Hent j Hj) as [H|(_ & Hn & He)]; auto.
    exfalso. assert (Hne : j <> dd) by (intro; subst; auto).
    rewrite Heo in Hin by auto. rewrite He in Hin. exact Hin. }
  constructor; auto.
  - rewrite Ef'. simpl. lia.
  - intros i Hi _. rewrite Ef'. apply get_put_other. intro; subst; auto.
  - intros i _ Hdi. rewrite Ef'. apply get_put_other. intro; subst.
    unfold is_dir in Hdi. rewrite Hdir in Hdi. discriminate.
  - intros i Hi. destruct (Hent i Hi) as [H|(H & _)]; auto.
  - intros j n Hj HTn. destruct (N.eq_dec j dd) as [->|Hne].
    + rewrite Hes, Hes0. apply HT. exact HTn.
    + rewrite Heo by auto. reflexivity.
  - intros j n Hj _. rewrite Heo by lia. rewrite (ents_beyond D f j W Hj). reflexivity.
  - destruct (dir_kept_refl D f W) as (p0 & es0 & es0' & m0 & m0' & G1 & G2 & G3).
    destruct (N.eq_dec dd D) as [->|Hne].
    + exists p, es, es', m, (with_mtime m now_mark).
      split; auto. split; [rewrite Ef', get_put_same; reflexivity|]. repeat split.
    + exists p0, es0, es0', m0, m0'. repeat split; auto; try apply G3.
      rewrite Ef', get_put_other by auto. exact G2.
  - constructor.
    + intros i Hi. rewrite Ef' in Hi |- *. rewrite get_put_other by (simpl in Hi; lia). apply (wf_alloc D f W). exact Hi.
    + rewrite Hisd. apply W.
    + intros j Hj. destruct (N.eq_dec j dd) as [->|Hne].
      * rewrite Hes. auto.
      * rewrite Heo by auto. destruct (Hent j Hj) as [H|(_ & _ & He)].
        -- apply (wf_names D f W j H).
        -- rewrite He. simpl. split; constructor.
    + intros j n i Hj Hin. rewrite Ef'. simpl. pose proof (Hent' j n i Hj Hin) as Rj.
      destruct (N.eq_dec j dd) as [->|Hne].
      * rewrite Hes in Hin. apply (Htg n i Hin).
      * rewrite Heo in Hin by auto. apply (wf_target D f W j n i Rj Hin).
    + intros j n Hj Hin. pose proof (Hent' j n D Hj Hin) as Rj.
      destruct (N.eq_dec j dd) as [->|Hne].
      * rewrite Hes in Hin. destruct (Htg n D Hin) as (_ & H & _). congruence.
      * rewrite Heo in Hin by auto. apply (wf_notD D f W j n Rj Hin).
    + intros j1 j2 n1 n2 i R1 R2 I1 I2 Hdi. rewrite Hisd in Hdi.
      pose proof (Hent' j1 n1 i R1 I1) as Q1. pose proof (Hent' j2 n2 i R2 I2) as Q2.
      assert (Hcross : forall ja na nb, ja <> dd -> reach f ja -> In (na, i) (ents f ja) -> In (nb, i) es' -> False).
      { intros ja na nb Hja Rja Ia Ib.
        destruct (Htg nb i Ib) as (_ & _ & [(n0 & H0)|[(_ & H0)|(_ & H0 & _)]]).
        - rewrite <- Hes0 in H0. destruct (wf_single D f W ja dd na n0 i Rja Hdd Ia H0 Hdi). auto.
        - congruence.
        - apply H0. apply (reach_step D f ja na i); auto. }
      destruct (N.eq_dec j1 dd) as [E1|N1], (N.eq_dec j2 dd) as [E2|N2]; subst.
      * rewrite Hes in I1, I2. split; auto. apply (Hsg n1 n2 i); auto.
      * rewrite Hes in I1. rewrite Heo in I2 by auto. exfalso. apply (Hcross j2 n2 n1); auto.
      * rewrite Hes in I2. rewrite Heo in I1 by auto. exfalso. apply (Hcross j1 n1 n2); auto.
      * rewrite Heo in I1, I2 by auto. apply (wf_single D f W j1 j2 n1 n2 i); auto.
Qed.

(* the parent pointer of a directory inside (not D) *)
Lemma step_set_parent T b f i newpar :
  wf f -> b <= f_next f -> reach f i -> i <> D -> step T b f (set_parent f i newpar).
Proof.
  intros W Hb Hr HD. unfold set_parent.
  destruct (get f i) as [[k m]|] eqn:Hg; [|apply step_refl; auto].
  destruct k; try (apply step_refl; auto).
  set (f' := put f i {| i_kind := KDir newpar ents; i_meta := m |}).
  assert (He : forall j, FsP.ents f' j = FsP.ents f j).
  { intros j. unfold FsP.ents, dir_of, f'. destruct (N.eq_dec j i) as [->|Hne].
    - rewrite get_put_same, Hg. reflexivity.
    - rewrite get_put_other by auto. reflexivity. }
  assert (Hisd : forall j, is_dir f' j = is_dir f j).
  { intros j. unfold is_dir, dir_of, f'. destruct (N.eq_dec j i) as [->|Hne].
    - rewrite get_put_same, Hg. reflexivity.
    - rewrite get_put_other by auto. reflexivity. }
  assert (Hr' : forall j, reach f' j -> reach f j) by (apply reach_same_ents; auto).
  assert (Hlt : i < f_next f) by (apply (reach_lt D f i W Hr)).
  constructor; auto.
  - simpl. lia.
  - intros j Hj _. apply get_put_other. intro; subst; auto.
  - intros j _ Hdj. apply get_put_other. intro; subst.
    unfold is_dir, dir_of in Hdj. rewrite Hg in Hdj. discriminate.
  - intros j _. unfold f'. destruct (N.eq_dec j i) as [->|Hne].
    + rewrite get_put_same, Hg. reflexivity.
    + rewrite get_put_other by auto. reflexivity.
  - intros j n _ _. rewrite He. reflexivity.
  - intros j n Hj _. rewrite He, (ents_beyond D f j W Hj). reflexivity.
  - destruct (dir_kept_refl D f W) as (p & es & es' & m0 & m0' & G1 & G2 & G3).
    exists p, es, es', m0, m0'. repeat split; auto; try apply G3.
    unfold f'. rewrite get_put_other by auto. exact G2.
  - constructor.
    + intros j Hj. unfold f'. rewrite get_put_other by (simpl in Hj; lia). apply (wf_alloc D f W). exact Hj.
    + rewrite Hisd. apply W.
    + intros j Hj. rewrite He. apply (wf_names D f W j (Hr' j Hj)).
    + intros j n x Hj Hin. rewrite He in Hin. apply (wf_target D f W j n x (Hr' j Hj) Hin).
    + intros j n Hj. rewrite He. apply (wf_notD D f W j n (Hr' j Hj)).
    + intros j1 j2 n1 n2 x R1 R2 I1 I2 Hd. rewrite He in I1, I2. rewrite Hisd in Hd.
      apply (wf_single D f W j1 j2 n1 n2 x); auto.
Qed.

End Frame.
