(* Refinement LTS (receiver side) -> receiver acceptor, part 1: facts about reachable
   fault-free states drawn from the invariants of C04/C08 (Proofs/Lts*.v, imported only). *)
From Coq Require Import List NArith Bool Arith PeanoNat Lia ZifyBool.
From FS Require Import Model.Lts Proofs.LtsInv Proofs.LtsSafe Proofs.LtsTerm Proofs.LtsC08 Proofs.LtsTok
     Proofs.LtsContent Proofs.LtsContent2 Proofs.LtsContent3 Proofs.LtsClean1 Proofs.LtsClean3.
Import ListNotations.
Local Open Scope nat_scope.

(* writers by program counter, finer than LtsClean1.cL: the REQ event is placed at the lock step *)
Definition cLk (pc : wrpc) : bool := match pc with WR_Lock => true | _ => false end.
Definition cSd (pc : wrpc) : bool := match pc with WR_Send => true | _ => false end.

Lemma wsum_cL_split : forall id l, sumf (wsel cL id) l = sumf (wsel cLk id) l + sumf (wsel cSd id) l.
Proof.
  induction l; [reflexivity|]. unfold sumf in *; cbn [fold_right]. rewrite IHl.
  unfold wsel. destruct a as [i pc]; cbn. destruct (Nat.eqb id i); destruct pc; cbn; lia.
Qed.

Lemma has_writer_wsum : forall l i, has_writer l i -> 1 <= sumf (wsel cAll i) l.
Proof.
  intros l i (j & w & E & Hid). pose proof (sumf_ge_nth _ (wsel cAll i) _ _ _ E) as H.
  unfold wsel in H at 1. rewrite Hid, Nat.eqb_refl in H. cbn in H. exact H.
Qed.

(* ---------- at most one end marker is ever in flight or received ---------- *)
Definition cntEnd (l : list packet) : nat := length (filter is_end l).
Lemma cntEnd_cons : forall x l, cntEnd (x :: l) = b2n (is_end x) + cntEnd l.
Proof. intros. unfold cntEnd. cbn. destruct (is_end x); reflexivity. Qed.
Lemma cntEnd_app : forall l x, cntEnd (l ++ [x]) = cntEnd l + b2n (is_end x).
Proof. intros. unfold cntEnd. rewrite filter_app, app_length. cbn. destruct (is_end x); reflexivity. Qed.
Arguments cntEnd : simpl never.

Definition inv_end (st : state) : Prop :=
  cntEnd (buf_sr st) + b2n (g_got_end_r st) <= b2n (g_end_sr st).

Lemma inv_end_step : forall p st l st', inv2 p st -> inv_end st -> step p st l = Some st' -> inv_end st'.
Proof.
  intros p st l st' (_ & _ & I3 & _) I H. unfold inv_end in *.
  destruct l; unfold_steps H; step_split H; inv_some; subst;
  repeat match goal with w : writer |- _ => destruct w; cbn in * end; subst; cbn;
  repeat match goal with E : buf_sr _ = _ |- _ => rewrite E in * end;
  rewrite ?cntEnd_app, ?cntEnd_cons in *; cbn [is_end b2n] in *;
  try (destruct (g_end_sr st) eqn:G; [destruct (I3 eq_refl) as [_ X]; congruence|]);
  try lia; try (destruct (g_got_end_r st), (g_end_sr st); cbn in *; lia).
Qed.

Lemma inv_end_reachable : forall p st, reachable p st -> inv_end st.
Proof.
  induction 1.
  - unfold inv_end, cntEnd. cbn. lia.
  - eapply inv_end_step; eauto. apply (inv_reachable _ _ H).
Qed.

(* ---------- what a clean (reachable, no error flag, accounting equations) state guarantees ---------- *)
Section Facts.
  Variable p : params.
  Hypothesis WF : wf_params p.
  Variable st : state.
  Hypothesis R : reachable p st.
  Hypothesis K : scal st.
  Hypothesis W : forall id, wq p id st.

  Lemma data_needed : forall id, 1 <= Wc id st + Fc id st -> kind_of p id = ENeed.
  Proof.
    intros id H. destruct (kind_of p id) eqn:E; try reflexivity;
      (assert (N : kind_of p id <> ENeed) by congruence; destruct (ninv_reachable p id st N R); lia).
  Qed.

  (* a DATA packet at the head of the stream belongs to a request that has been sent and whose
     terminator has not been received *)
  Lemma data_open : forall id r, buf_sr st = PData id :: r ->
    1 <= wsum cW id st /\ latec id st = 0.
  Proof.
    intros id r B.
    assert (F : 1 <= Fc id st) by (unfold Fc; rewrite B, cntD_cons; cbn; rewrite Nat.eqb_refl; cbn; lia).
    assert (E : kind_of p id = ENeed) by (apply data_needed; lia).
    pose proof (WF id E) as Hf.
    destruct (cinv_reachable p id st R) as [Cza _ _ _ Cne _].
    destruct (W id) as [_ _ WS WQ _ _ WC _].
    assert (Z : ~ (early id st >= 1 \/ sw_bound st <= id)) by (intro X; apply Cza in X; lia).
    assert (L0 : latec id st = 0) by (destruct (latec id st) eqn:L; [reflexivity|]; destruct Cne as [X _]; lia).
    split; [|exact L0].
    assert (Hb : (id <? sw_bound st) = true) by (apply Nat.ltb_lt; lia).
    rewrite Hf, Hb in WS. cbn in WS.
    unfold tok in WS. unfold early in Z. unfold down in WQ. unfold latec in L0.
    destruct (Nat.le_gt_cases 1 (wsum cN id st + wsum cD id st)) as [X|X]; [apply WC in X; lia|].
    lia.
  Qed.

  Lemma dataend_open : forall id r, buf_sr st = PDataEnd id :: r ->
    1 <= wsum cW id st /\ latec id st = 0.
  Proof.
    intros id r B.
    assert (F : 1 <= cntE id (buf_sr st)) by (rewrite B, cntE_cons; cbn; rewrite Nat.eqb_refl; cbn; lia).
    destruct (tokinv_reachable p st R) as [_ T1]. specialize (T1 id).
    destruct (W id) as [_ _ _ WQ _ _ WC _].
    unfold tok in T1. unfold down in WQ. unfold latec.
    destruct (Nat.le_gt_cases 1 (wsum cN id st + wsum cD id st)) as [X|X]; [apply WC in X; lia|].
    lia.
  Qed.

  Lemma stat_before_end : forall r, buf_sr st = PStat :: r -> g_got_end_r st = false.
  Proof.
    intros r B. destruct (inv_reachable _ _ R) as [_ _ (_ & _ & _ & _ & I5 & _) _ _ _ _].
    destruct (g_got_end_r st); [|reflexivity]. destruct (I5 eq_refl) as (_ & X & _).
    rewrite B, count_stat_cons in X. cbn in X. lia.
  Qed.

  Lemma end_once : forall r, buf_sr st = PEnd :: r -> g_got_end_r st = false.
  Proof.
    intros r B. pose proof (inv_end_reachable p st R) as I. unfold inv_end in I.
    rewrite B, cntEnd_cons in I. cbn in I. destruct (g_got_end_r st), (g_end_sr st); cbn in I; try reflexivity; lia.
  Qed.

  Lemma writer_needed : forall j w, nth_error (wrs st) j = Some w -> kind_of p (wr_id w) = ENeed.
  Proof. intros j w E. destruct (inv7_reachable _ _ R) as [I _ _]. eapply I; eauto. Qed.

  (* receiver.run is about to send FIN: the end marker has been received, no request is open,
     and every needed file has been requested *)
  Lemma fin_ready : do_pc st = DO_LockFin ->
    g_got_end_r st = true /\
    (forall i, wsum cLk i st + wsum cSd i st + wsum cW i st = 0) /\
    (forall i, kind_of p i = ENeed -> cnt i (rfiles st) = 0).
  Proof.
    intros D. destruct (inv_reachable _ _ R) as [_ _ I2 I3 _ I5 _].
    destruct I2 as (_ & _ & _ & _ & _ & I26 & I27 & _).
    destruct I3 as (I31 & I32 & I33 & _ & I35 & _ & I37 & I38).
    rewrite D in I31, I32, I33. destruct I31 as [Fl Dl]. destruct I33 as [_ Wd].
    rewrite Fl in I35. destruct (I35 I32) as [Wc0 Wn0].
    assert (G : g_got_end_r st = true) by auto.
    split; [exact G|].
    assert (A : forall i, sumf (wsel cS i) (wrs st) = 0 /\ sumf (wsel cL i) (wrs st) = 0 /\
                          sumf (wsel cW i) (wrs st) = 0 /\ sumf (wsel cN i) (wrs st) = 0)
      by (intro i; apply alldone_wsum; exact Wd).
    split.
    - intros i. destruct (A i) as (_ & AL & AW & _). unfold wsum. rewrite wsum_cL_split in AL. lia.
    - intros i E. destruct (W i) as [_ _ _ _ WR _ _ _].
      destruct (Nat.ltb_spec i (rl_i st)) as [Hlt|Hge].
      + destruct (I37 Dl I32) as [_ C0].
        assert (Hr : rl_holds st = 0).
        { unfold rl_holds. destruct (rl_pc st); try reflexivity; rewrite G in I26; discriminate. }
        assert (Hi : rl_i st = dl_i st).
        { rewrite I38; [| apply (k_re st K) | exact I32 | rewrite Fl; exact Logic.I].
          unfold fl_holds. rewrite Fl. lia. }
        assert (Hw : has_writer (wrs st) i).
        { destruct (I5 I32 i) as [X|X]; [lia|exact E|congruence|exact X]. }
        apply has_writer_wsum in Hw. rewrite wsum_split in Hw. destruct (A i) as (AS & AL & AW & AN).
        unfold wsum in WR. destruct (is_file p i); cbn in WR; lia.
      + rewrite andb_false_r in WR. cbn in WR. lia.
  Qed.
End Facts.
