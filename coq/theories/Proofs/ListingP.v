(* Byte-level round trip of the metadata listing (Model/Listing.v): what receive.go records,
   pushed through the chunked buffer and written out, is parsed back record by record. *)
From Coq Require Import List NArith ZArith Bool Lia ZifyN ZifyNat ZifyBool Permutation.
From FS Require Import Sx Model.Stat Model.Varint Model.Codec Model.MetaBuffer Model.Listing
  Proofs.VarintP Proofs.CodecP Proofs.FramingP.
Import ListNotations.
Open Scope N_scope.

Ltac Zify.zify_post_hook ::= Z.div_mod_to_equations.

Lemma le32_roundtrip n : n < two32 -> le32_dec (le32 n) = n.
Proof. unfold two32, le32, le32_dec. intros H. lia. Qed.
Lemma le32_length n : length (le32 n) = 4%nat.
Proof. reflexivity. Qed.

Lemma decode_listing_records stats : forall recs fuel,
  Forall listable stats -> Forall2 lrecord_of stats recs ->
  (length (concat recs) <= fuel)%nat ->
  decode_listing_f fuel (concat recs) = Some stats.
Proof.
  induction stats as [|s stats IH]; intros recs fuel Hl Hr Hfuel.
  - inversion Hr; subst. destruct fuel; reflexivity.
  - inversion Hr as [|? rec ? recs' (xs & HP & Hrec) Hr']; subst.
    inversion Hl as [|? ? (Hwf & Hsz) Hl']; subst.
    set (body := encode_stat_ord xs s) in *.
    assert (Hlen : len body = size_stat s) by (apply size_stat_any_order; exact HP).
    cbn [concat] in *. unfold lframe in *. rewrite <- app_assoc in *.
    rewrite !app_length, le32_length in Hfuel.
    destruct fuel as [|fuel]; [lia|].
    remember (body ++ concat recs') as tl eqn:Etl.
    assert (Hcons : le32 (len body) ++ tl =
                    len body mod 256 :: (len body / 256) mod 256 :: (len body / 65536) mod 256 ::
                    (len body / 16777216) mod 256 :: tl) by reflexivity.
    rewrite Hcons. cbn [decode_listing_f].
    change [len body mod 256; (len body / 256) mod 256; (len body / 65536) mod 256; (len body / 16777216) mod 256]
      with (le32 (len body)).
    rewrite le32_roundtrip by (rewrite Hlen; exact Hsz).
    subst tl. rewrite take_n_app.
    pose proof (stat_roundtrip_any_order s xs Hwf HP) as Hrt. fold body in Hrt.
    unfold decode_stat. rewrite Hrt. cbn [option_map fst].
    rewrite (IH recs' fuel Hl' Hr'); [reflexivity|lia].
Qed.

Theorem listing_roundtrip_any_order_proof stats recs :
  Forall listable stats -> Forall2 lrecord_of stats recs ->
  decode_listing (concat recs) = Some stats.
Proof. intros Hl Hr. unfold decode_listing. apply decode_listing_records; auto. Qed.

Lemma lrecord_of_canonical stats : Forall2 lrecord_of stats (map lframe (map encode_stat stats)).
Proof.
  induction stats as [|s stats IH]; cbn [map]; constructor; [|exact IH].
  exists (st_xattrs s). split; [apply Permutation_refl|reflexivity].
Qed.

Theorem listing_roundtrip_proof stats :
  Forall listable stats ->
  decode_listing (concat (map lframe (map encode_stat stats))) = Some stats.
Proof. intros Hl. apply listing_roundtrip_any_order_proof; [exact Hl|apply lrecord_of_canonical]. Qed.

(* through the chunked buffer of buffer.go *)
Theorem listing_file_roundtrip_proof stats recs :
  Forall listable stats -> Forall2 lrecord_of stats recs ->
  decode_listing (write_to (alloc_all recs)) = Some stats.
Proof. intros Hl Hr. rewrite buffer_is_concat. apply listing_roundtrip_any_order_proof; assumption. Qed.
