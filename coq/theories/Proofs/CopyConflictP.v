(* C13 / C15 — (1) the bookkeeping invariant [G] for directories made above the target
   (they are re-stamped by fixCreatedParentDirs at the end of the call), preserved by the
   overlay; (2) a directory / non-directory clash: copier.copy reports it and leaves the
   obstacle as it was. *)
From Coq Require Import List NArith Bool Lia ZifyN ZifyNat ZifyBool.
From FS Require Import Sx Model.Path Model.SymMode Model.Copier Model.CopySpec Proofs.Lex
  Proofs.CopierP Proofs.CopyOpsP Proofs.CopyDentP Proofs.CopyLinkP Proofs.CopyNodeP.
Import ListNotations.
Open Scope N_scope.
Open Scope bool_scope.

Definition err_cls (e : err) : N :=
  match e with EDirOverNondir => 1 | ENondirOverDir => 2 | ENoMatch => 3 | EOther => 4 | EScope => 99 end.

Ltac spl := repeat match goal with |- _ /\ _ => split end.

Section Conf.
  Variable o : copts.
  Variable ms : option (list bitcmd).
  Variable multi : N -> bool.
  Variable selected : list (list N) -> bool.
  Hypothesis Hsel : forall p, selected p = true.
  Variable sdof : N -> dent.
  Variable S : Prop.
  Notation Inv := (Inv o).
  Notation Lk := (Lk o ms multi sdof S).
  Notation touch := (touch o).
  Notation ov := (ov o ms multi).
  Notation ovk := (ovk o ms multi).
  Notation res := (res o ms multi).
  Notation nc := (nc o).
  Notation tok := tok.
  Notation node_ok := (node_ok o ms multi selected sdof S).
  Notation kids_loop := (kids_loop o ms multi selected).

  (* ---- G ---- *)
  Definition Gp (cr : list (list (list N))) (q : list (list N)) (v : option xdent) : Prop :=
    match v with
    | None => True
    | Some e => (x_mk e = true -> In q cr) /\
                (In q cr -> (x_key e = KNew q \/ exists s, x_key e = KSrc s) /\ mkfacts o (x_d e))
    end.
  Definition G (X : xview) (cr : list (list (list N))) : Prop := forall q, Gp cr q (X q).

  Lemma Gp_touched cr q v : Gp cr q v -> Gp cr q (option_map (touched o) v).
  Proof. destruct v as [e|]; simpl; auto. rewrite touched_mk, touched_key, touched_d. auto. Qed.

  Lemma G_touch X cr P : G X cr -> G (touch P X) cr.
  Proof.
    intros H q. destruct (path_dec q P) as [->|Hn].
    - rewrite touch_same. apply Gp_touched, H.
    - rewrite touch_other; auto.
  Qed.
  Lemma G_xupd X cr T v : G X cr -> Gp cr T v -> G (xupd T v X) cr.
  Proof.
    intros H Hv q. destruct (path_dec q T) as [->|Hn]; [rewrite xupd_same|rewrite xupd_other]; auto.
  Qed.
  Lemma G_ext X X' cr : (forall q, X' q = X q) -> G X cr -> G X' cr.
  Proof. intros E H q. rewrite E. auto. Qed.

  Lemma info_time_ut sd t : o_utime o = Some t -> info_time o sd = t.
  Proof. unfold info_time. intros ->. auto. Qed.
  Lemma info_owner_ch sd u g : o_chown o = Some (u, g) -> info_owner o sd = (u, g).
  Proof. unfold info_owner. intros ->. auto. Qed.

  Lemma Gp_copied cr q s old b : Gp cr q old -> Gp cr q (Some (copied o ms multi s old b q)).
  Proof.
    intro H. unfold copied.
    assert (Hnew : Gp cr q (Some (new_entry o ms multi s q))).
    { unfold new_entry, Gp, mkfacts. cbn [x_mk x_key x_d d_mtime d_uid d_gid].
      split; [discriminate|]. intros _. split; [destruct (is_reg (sdent s) && multi (sino s)); eauto|]. split; [apply info_time_ut|].
      intros u g Hc. rewrite (info_owner_ch _ _ _ Hc). auto. }
    destruct old as [e|]; auto.
    destruct (is_dir (sdent s) && is_dir (x_d e)); auto. simpl in H. destruct H as [H1 H2].
    destruct b; unfold Gp; cbn [x_mk x_key x_d]; split; auto;
      intro Hin; destruct (H2 Hin) as [K1 [K2 K3]]; split; auto; unfold mkfacts;
      cbn [d_mtime d_uid d_gid set_mtime set_xattrs set_perm set_owner]; split; auto; try apply info_time_ut.
    intros u g Hc. rewrite (info_owner_ch _ _ _ Hc). auto.
  Qed.

  Lemma G_ov n T tp X cr : G X cr -> G (ov n T tp X) cr.
  Proof.
    intros H q. unfold CopyNodeP.ov. destruct (strip_prefix T q) as [r|]; [|apply H].
    destruct (s_lookup n r).
    - apply Gp_copied, H.
    - destruct (shadowed n r); [exact Logic.I|apply H].
  Qed.
  Lemma G_res n T tp X cr : G X cr -> G (res n T tp X) cr.
  Proof. intro H. unfold CopyNodeP.res. destruct (_ && _); [|apply G_touch]; apply G_ov; auto. Qed.
  Lemma G_ovk l T X cr : G X cr -> G (ovk l T X) cr.
  Proof.
    intros H q. unfold CopyNodeP.ovk. destruct (strip_prefix T q) as [[|a r]|]; try apply H.
    destruct (find_kid a l); [apply G_ov; auto|apply H].
  Qed.

  (* ---- where a conflict is ---- *)
  Fixpoint kids_conflict (V : xview) (T : list (list N)) (l : list snode) : option xerr :=
    match l with
    | [] => None
    | k :: r => match first_conflict V (T ++ [sname k]) k with Some c => Some c | None => kids_conflict V T r end
    end.
  Lemma first_conflict_unfold V p nm ino sd kids :
    first_conflict V p (SNode nm ino sd kids) =
    match V p with
    | None => None
    | Some e =>
      if is_dir sd && negb (is_dir (x_d e)) then Some (XConflict 1 p (Some e))
      else if negb (is_dir sd) && is_dir (x_d e) then Some (XConflict 2 p (Some e))
      else if is_dir sd then kids_conflict V p kids else None
    end.
  Proof.
    cbn [first_conflict]. destruct (V p); auto. destruct (_ && _); auto. destruct (_ && _); auto.
    destruct (is_dir sd); auto. induction kids; simpl; auto. rewrite IHkids. auto.
  Qed.
  Lemma kids_conflict_ext V V' T l : (forall b r, In b (map sname l) -> V (T ++ b :: r) = V' (T ++ b :: r)) ->
    kids_conflict V T l = kids_conflict V' T l.
  Proof.
    induction l as [|k l IH]; intro H; simpl; auto.
    rewrite (first_conflict_ext V V'), IH; auto.
    - intros b r Hb. apply H. right; auto.
    - intro r. rewrite <- app_assoc. apply H. left; auto.
  Qed.

  (* ---- the statement ---- *)
  Definition node_conf (n : snode) : Prop :=
    forall sc T ow st X cls p bef,
      Inv (c_fs st) X -> Lk (c_fs st) X (c_imap st) -> (S -> PC T (c_imap st)) ->
      tok X T (sdent n) -> o_replace o = false ->
      first_conflict X T n = Some (XConflict cls p bef) ->
      exists st' e X', copy_node o ms multi selected n sc T ow st = (st', Some e) /\ err_cls e = cls /\
        Inv (c_fs st') X' /\ Lk (c_fs st') X' (c_imap st') /\ X' p = bef /\ bef <> None /\
        (forall cr, G X cr -> G X' cr).

  Lemma bind_err s e (k : cstate -> R) : bind (s, Some e) k = (s, Some e).
  Proof. reflexivity. Qed.

  Lemma kids_conf l : Forall node_ok l -> Forall node_conf l -> forall sc T st Xc cls p bef,
    NoDup (map sname l) -> Inv (c_fs st) Xc -> Lk (c_fs st) Xc (c_imap st) ->
    (S -> forall k, In k l -> PC (T ++ [sname k]) (c_imap st)) ->
    x_isdir (Xc T) = true -> o_replace o = false ->
    kids_conflict Xc T l = Some (XConflict cls p bef) ->
    exists st' e X', kids_loop sc T l st = (st', Some e) /\ err_cls e = cls /\
      Inv (c_fs st') X' /\ Lk (c_fs st') X' (c_imap st') /\ X' p = bef /\ bef <> None /\
      (forall cr, G Xc cr -> G X' cr).
  Proof.
    intros Hok Hcf. induction l as [|k r IH]; intros sc T st Xc cls p bef Hnd I L Hpc HT Hr Hc; [discriminate|].
    inversion Hok as [|? ? Hk Hok']; inversion Hcf as [|? ? Hck Hcf']; subst.
    simpl in Hnd. inversion Hnd as [|? ? Hni Hnd']; subst.
    rewrite kids_loop_cons. simpl in Hc.
    assert (Htok : tok Xc (T ++ [sname k]) (sdent k)) by (right; exists T, (sname k); auto).
    assert (Hpck : S -> PC (T ++ [sname k]) (c_imap st)) by (intro HS; apply Hpc; auto; left; auto).
    destruct (first_conflict Xc (T ++ [sname k]) k) as [c|] eqn:Ec.
    - inversion Hc; subst c.
      destruct (Hck (sc ++ [sname k]) (T ++ [sname k]) true st Xc cls p bef I L Hpck Htok Hr Ec)
        as (st' & e & X' & E1 & E2 & E3 & E4 & E5 & E6 & E7).
      rewrite E1, bind_err. exists st', e, X'. spl; auto.
    - destruct (Hk (sc ++ [sname k]) (T ++ [sname k]) true st Xc I L Hpck Htok) as (st1 & E1 & I1 & L1 & M1 & N1).
      { intros _. auto. }
      rewrite E1, bind_ret. cbn [negb] in I1, L1.
      set (Xc' := res k (T ++ [sname k]) false Xc) in *.
      assert (Hoth : forall b r0, bytes_eqb (sname k) b = false -> Xc' (T ++ b :: r0) = Xc (T ++ b :: r0)).
      { intros b r0 Hb. apply res_kid_other; [apply below_ne|]. rewrite strip_snoc_below, Hb. auto. }
      destruct (IH Hok' Hcf' sc T st1 Xc' cls p bef) as (st' & e & X' & F1 & F2 & F3 & F4 & F5 & F6 & F7); auto.
      { intros HS k2 Hin s l i Hrec. destruct (M1 _ _ _ Hrec) as [Hold|Hu].
        - eapply Hpc; eauto. right; auto.
        - eapply prefix_disjoint; eauto. intro E. apply Hni. rewrite E. apply in_map. auto. }
      { unfold Xc'. rewrite res_T_isdir. auto. }
      { rewrite <- Hc. apply kids_conflict_ext. intros b r0 Hb. apply Hoth.
        apply bytes_eqb_neq. intro E. apply Hni. rewrite E. auto. }
      exists st', e, X'. spl; auto; try congruence.
      intros cr Hg. apply F7. apply G_res. auto.
  Qed.

  Lemma kids_conflict_under V T l cls p bef : Forall (fun k => forall T cls p bef,
      first_conflict V T k = Some (XConflict cls p bef) -> exists r, p = T ++ r) l ->
    kids_conflict V T l = Some (XConflict cls p bef) -> exists b r, p = T ++ b :: r.
  Proof.
    induction 1 as [|k r Hk Hr IH]; simpl; [discriminate|].
    destruct (first_conflict V (T ++ [sname k]) k) eqn:E; auto.
    intro H; inversion H; subst. destruct (Hk _ _ _ _ E) as (r0 & ->). exists (sname k), r0.
    rewrite <- app_assoc. auto.
  Qed.

  Lemma copy_node_conflict : forall n, wf_s n -> cons_s multi sdof n -> node_conf n.
  Proof.
    induction n as [nm ino sd kids IH] using snode_ind2. intros Hwf Hcs.
    apply wf_s_unfold in Hwf. destruct Hwf as (Hwd & Hk & Hnd & Hall).
    apply cons_s_unfold in Hcs. destruct Hcs as (Hc1 & Hc2).
    assert (Hoks : Forall node_ok kids).
    { rewrite Forall_forall in *. intros k Hin. apply copy_node_ok; auto. }
    assert (Hcfs : Forall node_conf kids) by (rewrite Forall_forall in *; auto).
    intros sc T ow st X cls p bef I L0 Hpc Htok Hr Hc. cbn [sdent] in Htok.
    rewrite first_conflict_unfold in Hc.
    destruct (X T) as [e|] eqn:HXT; [|discriminate].
    pose proof (inv_lstat _ _ _ T I) as HL. rewrite HXT in HL.
    destruct (lstat (c_fs st) T) as [td|] eqn:ELs; [|contradiction].
    rewrite copy_node_eq. cbv zeta. rewrite ELs, (include_true selected Hsel).
    assert (E1 : remove_target_if_needed o T sd (Some td) st = (st, None)).
    { unfold remove_target_if_needed. rewrite Hr. auto. }
    rewrite E1, bind_ret.
    destruct (is_dir sd) eqn:Hd; cbn [andb negb] in Hc.
    - destruct (is_dir (x_d e)) eqn:Hde; cbn [negb] in Hc.
      + (* below *)
        unfold copy_dir_only. rewrite ELs, (dm_is_dir _ _ _ HL), Hde. cbn [negb].
        destruct (inv_x_some _ _ _ _ _ I HXT) as (i & Hi & Hm & Hkey).
        assert (Hdi : is_dir (inodes (c_fs st) i) = true) by (rewrite (dm_is_dir _ _ _ Hm); auto).
        assert (Hns : forall s, x_key e <> KSrc s).
        { intros s Hs. pose proof (lk_src_not_dir _ _ _ _ _ _ _ _ _ _ _ L0 HXT Hs). congruence. }
        assert (S2 : exists fs2 e2, (if ow then match upd_path T (set_perm (perm12 sd)) (c_fs st) with
                                               | Some fs' => (with_fs st fs', None, false)
                                               | None => (st, Some EOther, false) end
                                     else (st, None, false)) = (with_fs st fs2, None, false) /\
                     Inv fs2 (xupd T (Some e2) X) /\ Lk fs2 (xupd T (Some e2) X) (c_imap st) /\
                     is_dir (x_d e2) = true /\ (forall cr, G X cr -> G (xupd T (Some e2) X) cr)).
        { destruct ow.
          - rewrite (upd_path_some _ _ _ _ Hi).
            set (e2 := {| x_d := set_perm (perm12 sd) (x_d e); x_known := x_known e; x_key := x_key e; x_mk := x_mk e |}).
            exists (upd_inode i (set_perm (perm12 sd)) (c_fs st)), e2. split; auto. split; [|split; [|split]].
            + eapply inv_upd1; eauto.
              * eapply dir_unique; eauto.
              * apply ftype_set_perm.
              * apply dm_set_perm; auto.
            + eapply (Lk_upd o ms multi sdof S (c_fs st) _ _ _ T e e2 L0); auto.
            + cbn [e2 x_d]. rewrite <- (is_dir_ftype _ _ (eq_sym (ftype_set_perm (perm12 sd) (x_d e)))). auto.
            + intros cr Hg. apply G_xupd; auto. specialize (Hg T). rewrite HXT in Hg. exact Hg.
          - assert (EX : forall q, xupd T (Some e) X q = X q).
            { intro q. destruct (path_dec q T) as [->|Hn]; [rewrite xupd_same|rewrite xupd_other]; auto. }
            exists (c_fs st), e. split; [destruct st; auto|]. split; [|split; [|split; auto]].
            + eapply Inv_ext; [exact EX|exact I].
            + eapply Lk_ext; [exact EX|exact L0].
            + intros cr Hg. eapply G_ext; [exact EX|exact Hg]. }
        destruct S2 as (fs2 & e2 & S2 & I2 & L2 & Hd2 & G2). rewrite S2.
        set (st3 := if true && (false || ow) then notify T true (with_fs st fs2) else with_fs st fs2).
        assert (I3 : Inv (c_fs st3) (xupd T (Some e2) X)) by (unfold st3; destruct (true && (false || ow)); auto).
        assert (L3 : Lk (c_fs st3) (xupd T (Some e2) X) (c_imap st3)) by (unfold st3; destruct (true && (false || ow)); auto).
        assert (M3 : c_imap st3 = c_imap st) by (unfold st3; destruct (true && (false || ow)); auto).
        destruct (kids_conf kids Hoks Hcfs sc T st3 (xupd T (Some e2) X) cls p bef Hnd I3 L3)
          as (st' & e' & X' & F1 & F2 & F3 & F4 & F5 & F6 & F7); auto.
        { intros HS k Hin. rewrite M3. apply PC_kid. auto. }
        { rewrite xupd_same. auto. }
        { rewrite <- Hc. apply kids_conflict_ext. intros b r _. apply xupd_other, below_ne. }
        rewrite F1, bind_err. exists st', e', X'. spl; auto.
      + inversion Hc; subst.
        unfold copy_dir_only. rewrite ELs, (dm_is_dir _ _ _ HL), Hde. cbn [negb].
        exists st, EDirOverNondir, X. spl; auto. discriminate.
    - destruct (is_dir (x_d e)) eqn:Hde; [|discriminate]. inversion Hc; subst.
      unfold ensure_empty_file_target. rewrite forget_fs, ELs, (dm_is_dir _ _ _ HL), Hde.
      exists (forget p st), ENondirOverDir, X. spl; auto; try discriminate.
      rewrite forget_fs, forget_imap. apply Lk_forget; auto.
  Qed.
End Conf.
