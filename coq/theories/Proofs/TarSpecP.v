(* Proofs about the tar export model (Model/TarHdr.v), part 3: the model's archive satisfies
   the member-by-member specification that the correspondence run evaluates (its oracle). *)
From Coq Require Import List NArith ZArith Bool Lia ZifyN ZifyNat ZifyBool.
From FS Require Import Sx Model.Path Model.Stat Model.Tree Model.Hardlinks Model.TarHdr Proofs.Lex Proofs.TarP.
Import ListNotations.
Open Scope N_scope.

(* ------------------------------------------------------------------ *)
(* the model's archive satisfies the member-by-member specification (the run's oracle) *)
Lemma eqb_512_both : forall a b, N.eqb (512 * a) (512 * b) = N.eqb a b.
Proof. intros a b. destruct (N.eqb_spec a b), (N.eqb_spec (512 * a) (512 * b)); try reflexivity; lia. Qed.

Definition ek_hi (h : N) : ekind :=
  let t := N.land h TypeHi in
  if N.eqb t 0 then KReg
  else if N.eqb t (ModeDir / 512) then KDir
  else if N.eqb t (ModeSymlink / 512) then KSym
  else if N.eqb t ((ModeDevice + ModeCharDevice) / 512) then KChar
  else if N.eqb t (ModeDevice / 512) then KBlock
  else if N.eqb t (ModeNamedPipe / 512) then KFifo
  else KOther.

Lemma eqb_512_const : forall x C, C mod 512 = 0 -> N.eqb (512 * x) C = N.eqb x (C / 512).
Proof.
  intros x C H. pose proof (N.div_mod C 512 ltac:(discriminate)) as D. rewrite H, N.add_0_r in D.
  rewrite D at 1. apply eqb_512_both.
Qed.

Lemma ekind_hi : forall m, ekind_of m = ek_hi (m / 512).
Proof.
  intro m. unfold ekind_of, ek_hi. cbv zeta.
  change ModeType with (512 * TypeHi). rewrite land_high.
  rewrite eqb_512.
  rewrite (eqb_512_const _ ModeDir eq_refl), (eqb_512_const _ ModeSymlink eq_refl),
          (eqb_512_const _ (ModeDevice + ModeCharDevice) eq_refl), (eqb_512_const _ ModeDevice eq_refl),
          (eqb_512_const _ ModeNamedPipe eq_refl).
  reflexivity.
Qed.

Definition is_kdir (k : ekind) : bool := match k with KDir => true | _ => false end.
Definition is_kreg (k : ekind) : bool := match k with KReg => true | _ => false end.

Definition spec_facts (h : N) (ln : bytes) : bool :=
  optN_eqb (spec_typeflag (ek_hi h) (negb (is_nil ln))) (tf_hi h ln)
  && Bool.eqb (is_kdir (ek_hi h)) (has_bits h (ModeDir / 512))
  && Bool.eqb (is_kreg (ek_hi h)) (reg_hi h)
  && (tm_hi h <? 8)
  && Bool.eqb (N.testbit (tm_hi h) 2) (N.testbit h 14)
  && Bool.eqb (N.testbit (tm_hi h) 1) (N.testbit h 13)
  && Bool.eqb (N.testbit (tm_hi h) 0) (N.testbit h 11).

Lemma wf_high_parts_spec_facts :
  forallb (fun h => spec_facts h [] && (negb (link_ok_w_hi h [0]) || spec_facts h [0])) wf_high_parts = true.
Proof. vm_compute. reflexivity. Qed.

(* on the wide write domain: a link name on anything but a directory *)
Lemma spec_facts_of_wf : forall m ln,
  mode_okb m = true -> link_ok_w m ln = true -> spec_facts (m / 512) ln = true.
Proof.
  intros m ln Hm Hl. unfold mode_okb in Hm.
  apply existsb_exists in Hm. destruct Hm as [x [Hin Hx]].
  apply N.eqb_eq in Hx. rewrite Hx. rewrite link_ok_w_hi_eq, Hx in Hl.
  pose proof wf_high_parts_spec_facts as F. rewrite forallb_forall in F. specialize (F x Hin).
  apply andb_true_iff in F. destruct F as [F1 F2].
  destruct ln as [| c r]; [exact F1 |].
  change (spec_facts x (c :: r)) with (spec_facts x [0]).
  change (link_ok_w_hi x (c :: r)) with (link_ok_w_hi x [0]) in Hl. rewrite Hl in F2. exact F2.
Qed.

Lemma testbit_hi : forall m k, N.testbit m (9 + k) = N.testbit (m / 512) k.
Proof.
  intros m k. change 512 with (2 ^ 9). rewrite <- N.shiftr_div_pow2, N.shiftr_spec'.
  f_equal. lia.
Qed.

Lemma xattrs_eqb_refl : forall x, xattrs_eqb x x = true.
Proof.
  induction x as [| [k v] r IH]; [reflexivity |].
  cbn [xattrs_eqb]. rewrite !bytes_eqb_refl, IH. reflexivity.
Qed.

(* signed values *)
Lemma sint_of_sint : forall z, (- Z.of_N two63 <= z < Z.of_N two63)%Z -> sint (of_sint z) = z.
Proof.
  intros z Hz. unfold sint, of_sint.
  change (Z.of_N two64) with 18446744073709551616%Z in *.
  change (Z.of_N two63) with 9223372036854775808%Z in *.
  destruct (Z.ltb_spec z 0) as [Hneg | Hpos].
  - assert (E : (z mod 18446744073709551616 = z + 18446744073709551616)%Z).
    { symmetry. apply (Z.mod_unique _ _ (-1)); lia. }
    rewrite E. destruct (N.ltb_spec (Z.to_N (z + 18446744073709551616)) two63) as [A | A]; unfold two63 in A; lia.
  - rewrite Z.mod_small by lia.
    destruct (N.ltb_spec (Z.to_N z) two63) as [A | A]; unfold two63 in A; lia.
Qed.

Lemma mtime_clause : forall t,
  (-9223372036500000000 <= sint t < 9223372036500000000)%Z ->
  (Z.eqb (sint (round_ns t) mod ns_per_s) 0 && Z.ltb (Z.abs (sint (round_ns t) - sint t)) ns_per_s)%Z = true.
Proof.
  intros t Hr. unfold round_ns, round_sec, ns_per_s.
  set (z := sint t) in *.
  assert (Hq : (- 9223372036 <= (z + 500000000) / 1000000000 < 9223372037)%Z).
  { split.
    - apply Z.div_le_lower_bound; lia.
    - apply Z.div_lt_upper_bound; lia. }
  rewrite sint_of_sint by (change (Z.of_N two63) with 9223372036854775808%Z; lia).
  rewrite Z.mod_mul by lia.
  pose proof (Z.div_mod (z + 500000000) 1000000000 ltac:(lia)) as D.
  pose proof (Z.mod_pos_bound (z + 500000000) 1000000000 ltac:(lia)) as B.
  apply andb_true_iff. split; [reflexivity |]. apply Z.ltb_lt. lia.
Qed.

(* the mode clauses, in a clean context (lia must not see the hypotheses of the main proof) *)
Lemma lt_4096 : forall p h, p < 512 -> h < 8 -> p + 512 * h < 4096.
Proof. intros. lia. Qed.

Lemma tar_mode_lt : forall m, tm_hi (m / 512) < 8 -> (tar_mode m <? 4096) = true.
Proof.
  intros m H. rewrite tar_mode_split. apply N.ltb_lt. apply lt_4096; [apply mod512_lt | exact H].
Qed.

Lemma tar_mode_mod : forall m, N.eqb (tar_mode m mod 512) (m mod 512) = true.
Proof. intro m. rewrite tar_mode_split, split_mod by apply mod512_lt. apply N.eqb_refl. Qed.

Lemma tar_mode_bit : forall m k j,
  N.testbit (tm_hi (m / 512)) k = N.testbit (m / 512) j ->
  Bool.eqb (N.testbit (tar_mode m) (9 + k)) (N.testbit m (9 + j)) = true.
Proof.
  intros m k j H. rewrite !testbit_hi, tar_mode_split, split_div by apply mod512_lt.
  rewrite H. apply eqb_reflx.
Qed.

Lemma nonpos_size_nil : forall sz (c : bytes),
  sz < two63 -> sz = blen c -> (sint sz <= 0)%Z -> c = [].
Proof.
  intros sz c Hlt Heq Hn. rewrite (sint_small _ Hlt) in Hn.
  apply blen_0. rewrite <- Heq. apply N2Z.inj. apply Z.le_antisymm; [exact Hn | apply N2Z.is_nonneg].
Qed.

Lemma model_meets_spec_entry_w : forall e,
  wf_entry_wb e = true -> mtime_in_range e = true ->
  member_matches e (archived_member (member_of_entry e)) = true.
Proof.
  intros e Hwf Hmt.
  destruct (wf_entry_w_parts e Hwf) as [[Hm [Hlk Hp]] [Hsz _]].
  pose proof (spec_facts_of_wf _ _ Hm Hlk) as F. unfold spec_facts in F.
  repeat (apply andb_true_iff in F; let X := fresh "F" in destruct F as [F X]).
  rename F into Ftf, F0 into Fb9, F1 into Fb10, F2 into Fb11, F3 into Flt, F4 into Freg, F5 into Fdir.
  apply eqb_prop in Fb9, Fb10, Fb11, Freg, Fdir. apply N.ltb_lt in Flt.
  pose proof (payload_size_entry_w e Hwf) as Hps.
  unfold member_matches, archived_member, member_of_entry in *. cbn [fst snd] in *.
  cbn [archived hdr_of_stat h_name h_typeflag h_mode h_uid h_gid h_size h_mtime h_linkname h_devmajor h_devminor h_xattrs].
  unfold hdr_of_stat at 1 in Hps. cbn [h_size] in Hps.
  set (s := fst e) in *. set (m := st_mode s) in *.
  rewrite <- (ekind_hi m) in *. rewrite <- (hdr_typeflag_hi m) in Ftf.
  rewrite <- mode_is_dir_hi in Fdir. rewrite <- mode_is_regular_hi in Freg.
  (* name *)
  assert (E1 : bytes_eqb (tar_name m (st_path s)) (match ekind_of m with KDir => st_path s ++ [sep] | _ => st_path s end) = true).
  { unfold tar_name. rewrite Hp, <- Fdir. cbn [negb]. rewrite andb_true_r.
    destruct (ekind_of m); cbn [is_kdir]; apply bytes_eqb_refl. }
  rewrite E1, Ftf.
  (* mode *)
  rewrite (tar_mode_lt m Flt), (tar_mode_mod m).
  change 11 with (9 + 2). change 23 with (9 + 14). rewrite (tar_mode_bit m 2 14 Fb11).
  change 10 with (9 + 1). change 22 with (9 + 13). rewrite (tar_mode_bit m 1 13 Fb10).
  change (N.testbit (tar_mode m) 9) with (N.testbit (tar_mode m) (9 + 0)). change 20 with (9 + 11).
  rewrite (tar_mode_bit m 0 11 Fb9).
  rewrite !N.eqb_refl.
  (* mtime *)
  unfold mtime_in_range in Hmt. fold s in Hmt. apply andb_true_iff in Hmt. destruct Hmt as [Ha Hb].
  apply Z.leb_le in Ha. apply Z.ltb_lt in Hb.
  rewrite (mtime_clause (st_mtime s) (conj Ha Hb)).
  rewrite bytes_eqb_refl, xattrs_eqb_refl.
  (* payload *)
  rewrite Hps, N.eqb_refl.
  rewrite has_payload_spec. fold s. unfold carries_size. fold m.
  assert (E7 : (match ekind_of m with KReg => negb (negb (is_nil (st_linkname s))) | _ => false end)
               = is_nil (st_linkname s) && mode_is_regular m).
  { rewrite <- Freg. destruct (ekind_of m); cbn [is_kreg]; rewrite ?negb_involutive, ?andb_true_r, ?andb_false_r; reflexivity. }
  rewrite E7.
  destruct (is_nil (st_linkname s) && mode_is_regular m) eqn:C; cbn [andb].
  - destruct (Z.ltb_spec 0 (sint (st_size s))) as [Hpos | Hnpos]; [rewrite bytes_eqb_refl; reflexivity |].
    destruct (Hsz C) as [Hlt63 Heq].
    rewrite (nonpos_size_nil _ _ Hlt63 Heq Hnpos). reflexivity.
  - reflexivity.
Qed.

Lemma model_meets_spec_entry : forall e,
  wf_entry_b e = true -> mtime_in_range e = true ->
  member_matches e (archived_member (member_of_entry e)) = true.
Proof. intros e H. apply model_meets_spec_entry_w. apply wf_entry_narrow_wide. exact H. Qed.

Lemma members_match_model_w : forall l,
  wf_listing_wb l = true -> forallb mtime_in_range l = true ->
  members_match l (map archived_member (tar_of_listing l)) = true.
Proof.
  induction l as [| e r IH]; intros Hwf Hmt; [reflexivity |].
  cbn [wf_listing_wb forallb] in Hwf, Hmt.
  apply andb_true_iff in Hwf. destruct Hwf as [He Hr].
  apply andb_true_iff in Hmt. destruct Hmt as [Hme Hmr].
  cbn [tar_of_listing map members_match].
  rewrite (model_meets_spec_entry_w e He Hme). apply IH; assumption.
Qed.
Lemma members_match_model : forall l,
  wf_listing_b l = true -> forallb mtime_in_range l = true ->
  members_match l (map archived_member (tar_of_listing l)) = true.
Proof. intros l H. apply members_match_model_w. apply wf_listing_narrow_wide. exact H. Qed.

(* the member-by-member specification on the wide write domain, for any listing *)
Lemma model_meets_member_spec_wide_proof : forall l,
  wf_listing_wb (reset_entries l) = true -> forallb mtime_in_range (reset_entries l) = true ->
  members_match (reset_entries l) (map archived_member (tar_members_listing l)) = true.
Proof. intros l H T. unfold tar_members_listing. apply members_match_model_w; assumption. Qed.

(* every hard-link member names an earlier regular member *)
Lemma carries_size_member : forall t, carries_size (fst t) = true ->
  h_typeflag (fst (archived_member (member_of_entry t))) = TypeReg
  /\ h_name (fst (archived_member (member_of_entry t))) = st_path (fst t).
Proof.
  intros t C. unfold carries_size in C. apply andb_true_iff in C. destruct C as [Hnil Hreg].
  unfold archived_member, member_of_entry. cbn [fst archived hdr_of_stat h_typeflag h_name].
  split.
  - unfold hdr_typeflag, fih_typeflag. rewrite Hnil, Hreg. reflexivity.
  - unfold tar_name, mode_is_dir, has_bits.
    unfold mode_is_regular in Hreg. apply N.eqb_eq in Hreg.
    rewrite (land_submask _ ModeType ModeDir eq_refl Hreg). reflexivity.
Qed.

Lemma links_resolve_closed_gen : forall l done seen,
  links_wf l ->
  (forall t, In t done -> carries_size (fst t) = true -> existsb (bytes_eqb (st_path (fst t))) seen = true) ->
  links_closed_from done l = true ->
  links_resolve_from seen (map archived_member (tar_of_listing l)) = true.
Proof.
  induction l as [| e r IH]; intros done seen Hwf Hseen Hcl; [reflexivity |].
  cbn [links_closed_from] in Hcl. apply andb_true_iff in Hcl. destruct Hcl as [Ht Hcl].
  assert (Hwf' : links_wf r) by (intros x Hx; apply Hwf; right; exact Hx).
  pose proof (Hwf e (or_introl eq_refl)) as Hlk.
  cbn [tar_of_listing map links_resolve_from].
  apply andb_true_iff. split.
  - (* this member *)
    replace (h_typeflag (fst (archived_member (member_of_entry e))))
      with (hdr_typeflag (st_mode (fst e)) (st_linkname (fst e))) by reflexivity.
    replace (h_linkname (fst (archived_member (member_of_entry e)))) with (st_linkname (fst e)) by reflexivity.
    rewrite typeflag_link_iff.
    destruct (is_nil (st_linkname (fst e))) eqn:Hnil; [reflexivity |].
    destruct (mode_is_symlink (st_mode (fst e))) eqn:Hsym; [reflexivity |]. cbn [negb andb].
    unfold link_ok in Hlk. rewrite Hnil, Hsym in Hlk. cbn [orb] in Hlk.
    unfold link_target_ok, carries_size in Ht. rewrite Hnil, Hlk in Ht. cbn [andb] in Ht.
    destruct (find_entry (st_linkname (fst e)) done) as [t |] eqn:Hf; [| discriminate].
    apply andb_true_iff in Ht. destruct Ht as [Ht _]. apply andb_true_iff in Ht. destruct Ht as [Ct _].
    destruct (find_entry_some _ _ _ Hf) as [Hin Hp].
    rewrite <- Hp. apply Hseen; assumption.
  - (* the rest *)
    apply (IH (done ++ [e])); try assumption.
    intros t Hin C. apply in_app_or in Hin. destruct Hin as [Hin | [Heq | []]].
    + pose proof (Hseen t Hin C) as X.
      destruct (N.eqb (h_typeflag (fst (archived_member (member_of_entry e)))) TypeReg); [| exact X].
      cbn [existsb]. rewrite X. apply orb_true_r.
    + subst t. destruct (carries_size_member e C) as [Htf Hnm]. rewrite Htf, Hnm.
      cbn [N.eqb existsb]. rewrite N.eqb_refl. cbn [existsb]. rewrite bytes_eqb_refl. reflexivity.
Qed.

(* for ANY listing handed to WriteTar (a filtered walk): the expectation is the listing after
   the hard-link reset, exactly what the run's oracle (Glue/C17G.spec_archive) evaluates *)
Lemma model_meets_member_spec_proof : forall l,
  wf_listing_b (reset_entries l) = true -> forallb mtime_in_range (reset_entries l) = true ->
  members_match (reset_entries l) (map archived_member (tar_members_listing l)) = true
  /\ (links_closed (reset_entries l) = true ->
      links_resolve (map archived_member (tar_members_listing l)) = true).
Proof.
  intros l H T. unfold tar_members_listing. split.
  - apply members_match_model; assumption.
  - intro C. unfold links_resolve. apply (links_resolve_closed_gen (reset_entries l) [] []).
    + apply wf_links_wf. exact H.
    + intros t [].
    + exact C.
Qed.

(* a whole view whose links are closed: the expectation is the view's own walk *)
Lemma model_meets_member_spec_view_proof : forall v,
  wf_listing_b (walk_root v) = true -> links_closed (walk_root v) = true ->
  forallb mtime_in_range (walk_root v) = true ->
  members_match (walk_root v) (archive v) = true /\ links_resolve (archive v) = true.
Proof.
  intros v H C T.
  pose proof (reset_entries_closed _ (wf_links_wf _ H) C) as R.
  assert (H' : wf_listing_b (reset_entries (walk_root v)) = true) by (rewrite R; exact H).
  assert (T' : forallb mtime_in_range (reset_entries (walk_root v)) = true) by (rewrite R; exact T).
  destruct (model_meets_member_spec_proof (walk_root v) H' T') as [A B].
  unfold archive, tar_members. rewrite R in A, B. split; [exact A | apply B; exact C].
Qed.
