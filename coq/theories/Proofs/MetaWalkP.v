(* C19 o C09 — the metadata-only acceptance theorem instantiated with the walk model: for the
   listing fs.Walk produces for ANY well-formed tree (Model/Walk.v; hypotheses as in C01's
   converges_on_walked_trees) all side conditions of wf_source_accepts_iff hold by themselves:
   the listing is well formed with canonical links (C01 walk_views_are_wf) and every path is a
   clean relative path (ok_path).  What remains is what the statement is about: the selector
   (link-closed) and the one reserved name (no entry depends on .fsutil-metadata). *)
From Coq Require Import List NArith Bool.
From FS Require Import Sx Model.Path Model.Stat Model.Tree Model.Walk Model.Validator Model.Hardlinks Model.Diff
  Model.AbsDest Model.ConvergeA Model.MetaOnly
  Proofs.Lex Proofs.PathP Proofs.ValidatorP Proofs.WalkP Proofs.WalkWfP Proofs.MetaLinksP.
From FS Require Proofs.RefValidP.
Import ListNotations.
Open Scope bool_scope.

Lemma wf_name_normal n : wf_name n -> normal n.
Proof. intros (H1 & _ & H2 & H3). repeat split; assumption. Qed.

Section MetaWalk.
Variable cont : lrec -> bytes.
Variable t : tree.
Hypothesis Hwf : wf_tree t.
Hypothesis Hic : ino_consistent t.
Hypothesis Hco : inode_coherent t.

Theorem walk_ok_paths_proof : forall s, In s (walk t) -> ok_path (st_path s) = true.
Proof.
  intros s Hin. destruct (walk_node t Hwf s Hin) as (cs & r & Hne & Hat & ->).
  apply okc_ok_path. split; [exact Hne|]. split.
  - eapply Forall_impl; [|eapply tree_at_names; eauto]. apply wf_name_normal.
  - eapply tree_at_nosep; eauto.
Qed.

Theorem walked_source_accepts_iff_proof sel :
  listing_dependents (walk t) = false ->
  (recv_accepts sel (walk t) = true <-> link_closed sel (recv_stream (walk t)) = true).
Proof.
  intros Hnd. destruct (walk_views_are_wf_proof cont t Hwf Hic Hco) as [Hwe Efst].
  rewrite <- Efst. apply wf_source_accepts_iff_proof; [exact Hwe| |rewrite Efst; exact Hnd].
  intros s Hs. rewrite Efst in Hs. apply walk_ok_paths_proof. exact Hs.
Qed.

Theorem walked_hardlink_check_proof : hardlink_check (walk t) = None.
Proof.
  destruct (walk_views_are_wf_proof cont t Hwf Hic Hco) as [[[Hs _] Hc] Efst].
  rewrite <- Efst. apply canon_hardlink_check_proof; assumption.
Qed.
(* the receiver's two stream validators accept the unfiltered walk of every well-formed tree:
   C09 (order, parents first, clean paths, canonical links) is exactly what C12's order validator
   and C11's hard-link validator demand *)
Theorem walk_passes_validators_proof : valid_stream (walk t) /\ hardlink_check (walk t) = None.
Proof.
  split; [|exact walked_hardlink_check_proof].
  destruct (walk_views_are_wf_proof cont t Hwf Hic Hco) as [[Hw _] Efst]. rewrite Efst in Hw.
  exact (RefValidP.listing_passes_validator (walk t) Hw walk_ok_paths_proof).
Qed.
End MetaWalk.

(* ---- non-vacuity: a tree with a hard-link group (a/x, b) meets every hypothesis; the
        selection of everything is accepted, the selection of the link alone is not ---- *)
Open Scope N_scope.
Definition mw_rec (mode ino nlink : N) : lrec :=
  {| l_mode := mode; l_uid := 0; l_gid := 0; l_size := 8; l_mtime := 1; l_rdev := 0;
     l_ino := ino; l_nlink := nlink; l_target := []; l_xattrs := []; l_dev := 38 |}.
Definition mw_tree : tree :=
  T (mw_rec 16877 1 3)
    [ ([97], T (mw_rec 16877 2 2) [ ([120], T (mw_rec 33188 5 2) []) ]);
      ([98], T (mw_rec 33188 5 2) []) ].

Lemma mw_tree_hyps : wf_tree mw_tree /\ ino_consistent mw_tree /\ inode_coherent mw_tree.
Proof.
  split; [apply wf_tree_b_sound; vm_compute; reflexivity|]. split.
  - intros cs1 r1 cs2 r2 H1 _ _ Hd1 _ _. apply rpr_tree_at in H1. vm_compute in H1.
    repeat (destruct H1 as [H1|H1]; [inversion H1; subst; try reflexivity; vm_compute in Hd1; discriminate|]).
    contradiction.
  - intros cs1 r1 cs2 r2 H1 H2 Hd1 Hd2 _. apply rpr_tree_at in H1. apply rpr_tree_at in H2.
    vm_compute in H1. vm_compute in H2.
    repeat (destruct H1 as [H1|H1]; [inversion H1; subst; try (vm_compute in Hd1; discriminate)|]); try contradiction;
    repeat (destruct H2 as [H2|H2]; [inversion H2; subst; try reflexivity; try (vm_compute in Hd2; discriminate)|]); try contradiction.
Qed.

Lemma mw_tree_example :
  map (fun s => (st_path s, st_linkname s)) (walk mw_tree) = [([97], []); ([97; 47; 120], []); ([98], [97; 47; 120])]
  /\ listing_dependents (walk mw_tree) = false
  /\ link_closed (fun _ => true) (recv_stream (walk mw_tree)) = true
  /\ recv_accepts (fun _ => true) (walk mw_tree) = true
  /\ (let only_b := fun s : stat => bytes_eqb (st_path s) [98] in
      link_closed only_b (recv_stream (walk mw_tree)) = false /\ recv_accepts only_b (walk mw_tree) = false).
Proof. vm_compute. repeat split; reflexivity. Qed.

(* ---- the transfer theorem on walked trees: prior destination and source are walks of arbitrary
        well-formed trees, the selector is link-closed on the source walk, nothing depends on the
        reserved name - no hypothesis about what the validators do is left ---- *)
From FS Require Import Model.Converge Model.MetaTransfer Proofs.MetaTransferP.
Theorem meta_converges_on_walked_trees_proof sel (H : bytes -> bytes) (hdr : stat -> bytes) d contA tA contB tB :
  wf_tree tA -> ino_consistent tA -> inode_coherent tA ->
  wf_tree tB -> ino_consistent tB -> inode_coherent tB ->
  let A := walk_entries contA tA in
  let B := walk_entries contB tB in
  listing_dependents (walk tB) = false ->
  link_closed sel (recv_stream (walk tB)) = true ->
  AbsDest.identity_faithful d A (meta_proj sel B) ->
  let r := receive_abs H hdr Fresh d A (meta_proj sel B) in
  ds_err r = false /\ approx A (meta_proj sel B) (view_of (ds_map r)) /\
  find_obs listing_name (view_of (ds_map r)) = None.
Proof.
  intros HwA HiA HcA HwB HiB HcB A B Hnd Hlc Hif.
  destruct (walk_views_are_wf_proof contA tA HwA HiA HcA) as [HweA _].
  destruct (walk_views_are_wf_proof contB tB HwB HiB HcB) as [HweB EB].
  apply meta_transfer_converges_proof; auto.
  - unfold B. rewrite EB. exact Hnd.
  - unfold B. rewrite EB. apply (proj2 (walked_source_accepts_iff_proof contB tB HwB HiB HcB sel Hnd)). exact Hlc.
Qed.
