(* C03 — a stream the stream-only specification (Model/RecvSpec.v) calls bad at packet b makes the
   receive loop fail at or before b, and nothing of packet b or later is applied.  No hypothesis
   on the file system: only the receiver's bookkeeping is followed. *)
From Coq Require Import List Arith NArith Bool Lia ZifyN ZifyNat ZifyBool.
From FS Require Import Sx Model.Path Model.Stat Model.Validator Model.Fs Model.DiskWriterFs Model.RecvSpec.
From FS Require Import Proofs.Lex Proofs.PathP Proofs.ValidatorP Proofs.FsP.
Import ListNotations.
Open Scope N_scope.
Open Scope bool_scope.

(* ---------------- the creation switch: what asks for content ---------------- *)
Definition regular_branch (st : stat) : bool :=
  let m := st_mode st in
  negb (mode_is_dir m) && negb (has_bits m ModeDevice || has_bits m ModeNamedPipe)
  && negb (mode_is_symlink m) && is_nil (st_linkname st).

Lemma dw_create_regular c f np st : made_regular (snd (dw_create c f np st)) = true -> regular_branch st = true.
Proof.
  unfold dw_create, regular_branch.
  destruct (mode_is_dir (st_mode st)); [destruct (sys_mkdir c f np (unix_perm (st_mode st))); discriminate|].
  destruct (has_bits (st_mode st) ModeDevice || has_bits (st_mode st) ModeNamedPipe); cbn [andb negb].
  { destruct (is_nil (st_linkname st)); cbn [negb].
    - match goal with |- context [sys_mknod c f np ?a ?b ?d] => destruct (sys_mknod c f np a b d) end. discriminate.
    - destruct (mode_is_symlink (st_mode st)); [destruct (sys_symlink c f (st_linkname st) np); discriminate|].
      destruct (sys_link c f (st_linkname st) np); discriminate. }
  destruct (mode_is_symlink (st_mode st)); [destruct (sys_symlink c f (st_linkname st) np); discriminate|].
  destruct (is_nil (st_linkname st)); cbn [negb].
  - intros _. reflexivity.
  - destruct (sys_link c f (st_linkname st) np); discriminate.
Qed.

Lemma dw_handle_async c f tmp kind p st nd :
  snd (dw_handle c f tmp kind p st) = DwOk true nd -> N.eqb kind 2 = false /\ regular_branch st = true.
Proof.
  unfold dw_handle. destruct (N.eqb kind 2).
  { destruct (sys_remove_all c f p) as [f1 r]. destruct (is_err r); discriminate. }
  intros H. split; auto. revert H.
  destruct (sys_lstat c f p) as [f0 rl]. destruct rl as [|e|oi ond| | |]; try discriminate.
  - destruct e; try discriminate. destruct (negb (N.eqb kind 0)); [discriminate|].
    pose proof (dw_create_regular c f p st) as Hr.
    destruct (dw_create c f p st) as [[f1 ok] mk]. cbn [snd] in Hr. destruct ok; [|discriminate].
    destruct (dw_meta c f1 p st mk) as [f2 ok2]. destruct (negb ok2); [discriminate|].
    intros H. simpl in H. injection H as E1 E2. exact (Hr E1).
  - destruct (mode_is_dir (st_mode st) && match i_kind ond with KDir _ _ => true | _ => false end).
    { destruct (rewrite_meta c f p st) as [f1 ok]. destruct ok; discriminate. }
    pose proof (dw_create_regular c f (tmp_path p tmp) st) as Hr.
    destruct (dw_create c f (tmp_path p tmp) st) as [[f1 ok] mk]. cbn [snd] in Hr. destruct ok; [|discriminate].
    destruct (dw_meta c f1 (tmp_path p tmp) st mk) as [f2 ok2]. destruct (negb ok2); [discriminate|].
    match goal with |- context [if ?x then sys_remove_all c f2 p else (f2, ROk)] =>
      destruct (if x then sys_remove_all c f2 p else (f2, ROk)) as [f3 r3] end.
    destruct (is_err r3); [discriminate|].
    match goal with |- context [if ?x then sys_unlink c f3 ?a else sys_rename c f3 ?a' p] =>
      destruct (if x then sys_unlink c f3 a else sys_rename c f3 a' p) as [f4 r4] end.
    destruct (is_err r4); [discriminate|]. intros H. simpl in H. injection H as E1 E2. exact (Hr E1).
Qed.

Section Reject.
Variables (fl : rfilter) (c : ctx) (dl : bool).
(* what the filter does to the stat copy keeps type bits and link name *)
Hypothesis Hmap_mode : forall s, st_mode (f_map fl s) = st_mode s.
Hypothesis Hmap_link : forall s, st_linkname (f_map fl s) = st_linkname s.

(* ---------------- bookkeeping of one HandleChange call ---------------- *)
Lemma spend_none st : r_budget st = None -> exists st1, spend st = Some st1 /\ r_budget st1 = None
  /\ r_fs st1 = r_fs st /\ r_vstk st1 = r_vstk st /\ r_seen st1 = r_seen st /\ r_next st1 = r_next st
  /\ r_pipes st1 = r_pipes st /\ r_files st1 = r_files st /\ r_out st1 = r_out st /\ r_tmps st1 = r_tmps st
  /\ r_dirtimes st1 = r_dirtimes st /\ r_asyncerr st1 = r_asyncerr st /\ r_dead st1 = r_dead st
  /\ r_closed st1 = r_closed st /\ r_waited st1 = r_waited st /\ r_old st1 = r_old st /\ r_rmdir st1 = r_rmdir st.
Proof. intros H. unfold spend. rewrite H. eexists. split; [reflexivity|]. simpl. repeat split. Qed.

(* what a step of the loop may do to the bookkeeping the validators and the id check read *)
Record bk (st st' : rstate) (newids : list N) : Prop := {
  bk_vstk : r_vstk st' = r_vstk st;
  bk_seen : r_seen st' = r_seen st;
  bk_next : r_next st' = r_next st;
  bk_budget : r_budget st' = None;
  bk_pipes : forall id pp, In (id, pp) (r_pipes st') -> In id (map fst (r_pipes st)) \/ In id newids;
  bk_files : forall q, In q (map fst (r_files st')) -> In q (map fst (r_files st))
}.

Lemma bk_refl st ids : r_budget st = None -> bk st st ids.
Proof.
  intros H. constructor; auto. intros id pp Hin. left. change id with (fst (id, pp)). apply in_map. exact Hin.
Qed.

Lemma bk_trans a b c0 ids : bk a b ids -> bk b c0 ids -> bk a c0 ids.
Proof.
  intros [A1 A2 A3 A4 A5 A6] [B1 B2 B3 B4 B5 B6]. constructor; try congruence.
  - intros id pp Hin. destruct (B5 id pp Hin) as [H|H]; auto.
    apply in_map_iff in H. destruct H as ([id' pp'] & E & H). simpl in E. subst id'. apply (A5 id pp' H).
  - intros q Hq. auto.
Qed.

Lemma aset_fst_In {A} k (v : A) l x : In x (map fst (aset k v l)) -> x = k \/ In x (map fst l).
Proof.
  induction l as [|[k' v'] l IH]; simpl; intros H.
  - destruct H as [H|[]]; auto.
  - destruct (N.eqb k k') eqn:E; simpl in H.
    + apply N.eqb_eq in E. subst. destruct H; auto.
    + destruct H as [H|H]; auto. apply IH in H. tauto.
Qed.

Lemma aset_pair_In {A} k (v : A) l id pp : In (id, pp) (aset k v l) -> id = k \/ In id (map fst l).
Proof.
  intros H. apply aset_fst_In with (v := v). change id with (fst (id, pp)). apply in_map. exact H.
Qed.

Lemma apply_change_bk idx kind p s st :
  r_budget st = None ->
  let st' := apply_change fl c idx kind p s st in
  r_out st' = r_out st /\
  bk st st' (match blookup p (r_files st) with
             | Some id => if negb (N.eqb kind 2) && regular_branch s then [id] else []
             | None => [] end).
Proof.
  intros Hb. cbv zeta. unfold apply_change. destruct (f_rej fl p); [split; [reflexivity|apply bk_refl; auto]|].
  cbv zeta.
  set (s' := if N.eqb kind 2 then s else f_map fl s).
  assert (Hreg : regular_branch s' = regular_branch s).
  { unfold s'. destruct (N.eqb kind 2); [reflexivity|]. unfold regular_branch. rewrite Hmap_mode, Hmap_link. reflexivity. }
  rewrite <- Hreg. clearbody s'. clear Hreg s. rename s' into s.
  destruct (negb (live st)); [split; [reflexivity|apply bk_refl; auto]|].
  destruct (spend_none st Hb) as (st1 & Es & Hb1 & Ef & Ev & Ese & En & Ep & Efi & Eo & Et & _).
  rewrite Es. cbn [r_fs set_tmps].
  destruct (dw_handle c (r_fs st1) (hd default_tmp (r_tmps st1)) kind p s) as [f' res] eqn:Edw.
  destruct res as [|async newdir].
  - split; [simpl; exact Eo|]. constructor; simpl; try congruence.
    intros id pp Hin. left. rewrite <- Ep. change id with (fst (id, pp)). apply in_map. exact Hin.
  - assert (Hasync : async = true -> N.eqb kind 2 = false /\ regular_branch s = true).
    { intros ->. apply (dw_handle_async c (r_fs st1) (hd default_tmp (r_tmps st1)) kind p s newdir). rewrite Edw. reflexivity. }
    set (st4 := if newdir
                then set_tmps (upd (set_tmps st1 (tl (r_tmps st1)) (r_dirtimes st1)) f')
                       (r_tmps (upd (set_tmps st1 (tl (r_tmps st1)) (r_dirtimes st1)) f'))
                       (bset p (st_mtime s) (r_dirtimes (upd (set_tmps st1 (tl (r_tmps st1)) (r_dirtimes st1)) f')))
                else upd (set_tmps st1 (tl (r_tmps st1)) (r_dirtimes st1)) f').
    assert (F : r_vstk st4 = r_vstk st /\ r_seen st4 = r_seen st /\ r_next st4 = r_next st /\ r_budget st4 = None
                /\ r_pipes st4 = r_pipes st /\ r_files st4 = r_files st /\ r_out st4 = r_out st).
    { unfold st4. destruct newdir; simpl; repeat split; congruence. }
    destruct F as (F1 & F2 & F3 & F4 & F5 & F6 & F7).
    assert (Hold : forall id' pp', In (id', pp') (r_pipes st4) -> In id' (map fst (r_pipes st))).
    { intros id' pp' Hin. rewrite F5 in Hin. change id' with (fst (id', pp')). apply in_map. exact Hin. }
    destruct async.
    + destruct (Hasync eq_refl) as [Hk Hr]. rewrite F6.
      destruct (blookup p (r_files st)) as [id|] eqn:Eb.
      * rewrite Hk, Hr. cbn [negb andb]. split; [simpl; exact F7|].
        refine {| bk_vstk := _; bk_seen := _; bk_next := _; bk_budget := _; bk_pipes := _; bk_files := _ |}; simpl; try congruence.
        -- intros id' pp' Hin. apply aset_pair_In in Hin. rewrite F5 in Hin.
           destruct Hin as [->|H]; [right; left; reflexivity|left; exact H].
        -- intros q Hq. apply bremove_fst_In in Hq. exact Hq.
      * split; [simpl; exact F7|].
        refine {| bk_vstk := _; bk_seen := _; bk_next := _; bk_budget := _; bk_pipes := _; bk_files := _ |}; simpl; try congruence.
        intros id' pp' Hin. left. apply (Hold id' pp' Hin).
    + split; [exact F7|].
      refine {| bk_vstk := _; bk_seen := _; bk_next := _; bk_budget := _; bk_pipes := _; bk_files := _ |}; try congruence.
      intros id' pp' Hin. left. apply (Hold id' pp' Hin).
Qed.


(* a delete never registers a file *)
Record same_bk (st st' : rstate) : Prop := {
  sb_out : r_out st' = r_out st;
  sb_vstk : r_vstk st' = r_vstk st;
  sb_seen : r_seen st' = r_seen st;
  sb_next : r_next st' = r_next st;
  sb_budget : r_budget st' = None;
  sb_pipes : r_pipes st' = r_pipes st;
  sb_files : r_files st' = r_files st
}.

Lemma same_bk_trans a b c0 : same_bk a b -> same_bk b c0 -> same_bk a c0.
Proof. intros [] []. constructor; congruence. Qed.

Lemma same_bk_bk st st' ids : same_bk st st' -> bk st st' ids.
Proof.
  intros []. constructor; try congruence.
  intros id pp Hin. left. rewrite sb_pipes0 in Hin. change id with (fst (id, pp)). apply in_map. exact Hin.
Qed.

Lemma apply_change_del idx p s st : r_budget st = None -> same_bk st (apply_change fl c idx 2 p s st).
Proof.
  intros Hb. unfold apply_change. destruct (f_rej fl p); [constructor; auto|].
  cbn [N.eqb Pos.eqb]. cbv zeta. destruct (negb (live st)); [constructor; auto|].
  destruct (spend_none st Hb) as (st1 & Es & Hb1 & Ef & Ev & Ese & En & Ep & Efi & Eo & Et & _).
  rewrite Es. cbn [r_fs set_tmps].
  destruct (dw_handle c (r_fs st1) (hd default_tmp (r_tmps st1)) 2 p s) as [f' res] eqn:Edw.
  destruct res as [|async newdir].
  - constructor; simpl; congruence.
  - assert (Ha : async = false).
    { destruct async; auto. exfalso.
      destruct (dw_handle_async c (r_fs st1) (hd default_tmp (r_tmps st1)) 2 p s newdir) as [H _]; [rewrite Edw; reflexivity|discriminate]. }
    subst async. destruct newdir; constructor; simpl; congruence.
Qed.

Lemma set_diff_same st old rm : r_budget st = None -> same_bk st (set_diff st old rm).
Proof. intros H. constructor; simpl; auto. Qed.

Definition newids (p : bytes) (s : stat) (st : rstate) : list N :=
  match blookup p (r_files st) with
  | Some id => if regular_branch s then [id] else []
  | None => []
  end.

Lemma apply_change_add idx kind p s st : r_budget st = None ->
  let st' := apply_change fl c idx kind p s st in r_out st' = r_out st /\ bk st st' (newids p s st).
Proof.
  intros Hb. destruct (apply_change_bk idx kind p s st Hb) as [A B]. split; auto.
  unfold newids. destruct (blookup p (r_files st)) as [id|]; auto.
  destruct (negb (N.eqb kind 2)); simpl in B; auto.
  destruct (regular_branch s); auto.
  destruct B. constructor; auto. intros id' pp' Hin. destruct (bk_pipes0 id' pp' Hin) as [H|[]]; auto.
Qed.

Lemma bk_of_same st st1 st' ids : same_bk st st1 -> bk st1 st' ids -> bk st st' ids.
Proof.
  intros [] []. constructor; try congruence.
  - intros id pp Hin. rewrite <- sb_pipes0. apply (bk_pipes0 id pp Hin).
  - intros q Hq. rewrite <- sb_files0. apply (bk_files0 q Hq).
Qed.

Lemma diff_feed_bk idx f2 : forall old st, r_budget st = None ->
  let st' := diff_feed fl c idx f2 old st in r_out st' = r_out st /\ bk st st' (newids (st_path f2) f2 st).
Proof.
  induction old as [|f1 rest IH]; intros st Hb; cbn [diff_feed].
  - pose proof (set_diff_same st [] [] Hb) as S0.
    destruct (apply_change_add idx 0 (st_path f2) f2 (set_diff st [] []) (sb_budget _ _ S0)) as [A B].
    split; [rewrite A; apply S0|]. apply (bk_of_same st _ _ _ S0). exact B.
  - destruct (compare_path (st_path f1) (st_path f2)).
    + (* same path *)
      set (rm := if st_is_dir f1 && negb (st_is_dir f2) then st_path f1 ++ [sep] else []).
      pose proof (set_diff_same st rest rm Hb) as S0.
      destruct (same_file f1 (f_map fl f2)).
      * split; [apply S0|apply same_bk_bk; exact S0].
      * destruct (apply_change_add idx 1 (st_path f2) f2 (set_diff st rest rm) (sb_budget _ _ S0)) as [A B].
        split; [rewrite A; apply S0|]. apply (bk_of_same st _ _ _ S0). exact B.
    + (* delete the old entry, go on *)
      destruct (suppressed (r_rmdir st) (st_path f1)).
      * pose proof (set_diff_same st rest (r_rmdir st) Hb) as S0.
        destruct (IH _ (sb_budget _ _ S0)) as [A B]. split; [rewrite A; apply S0|].
        apply (bk_of_same st _ _ _ S0). exact B.
      * pose proof (set_diff_same st rest (rm_prefix_of f1) Hb) as S0.
        pose proof (apply_change_del idx (st_path f1) f1 _ (sb_budget _ _ S0)) as S1.
        pose proof (same_bk_trans _ _ _ S0 S1) as S01.
        destruct (live (apply_change fl c idx 2 (st_path f1) f1 (set_diff st rest (rm_prefix_of f1)))).
        -- destruct (IH _ (sb_budget _ _ S01)) as [A B]. split; [rewrite A; apply S01|].
           unfold newids in *. rewrite (sb_files _ _ S01) in B. apply (bk_of_same st _ _ _ S01). exact B.
        -- split; [apply S01|apply same_bk_bk; exact S01].
    + pose proof (set_diff_same st (f1 :: rest) [] Hb) as S0.
      destruct (apply_change_add idx 0 (st_path f2) f2 (set_diff st (f1 :: rest) []) (sb_budget _ _ S0)) as [A B].
      split; [rewrite A; apply S0|]. apply (bk_of_same st _ _ _ S0). exact B.
Qed.

Lemma diff_flush_bk idx : forall old st, r_budget st = None -> same_bk st (diff_flush fl c idx old st).
Proof.
  induction old as [|f1 rest IH]; intros st Hb; cbn [diff_flush].
  - apply set_diff_same. exact Hb.
  - destruct (suppressed (r_rmdir st) (st_path f1)).
    + pose proof (set_diff_same st rest (r_rmdir st) Hb) as S0.
      apply (same_bk_trans _ _ _ S0). apply IH. apply S0.
    + pose proof (set_diff_same st rest (rm_prefix_of f1) Hb) as S0.
      pose proof (apply_change_del idx (st_path f1) f1 _ (sb_budget _ _ S0)) as S1.
      pose proof (same_bk_trans _ _ _ S0 S1) as S01.
      destruct (live (apply_change fl c idx 2 (st_path f1) f1 (set_diff st rest (rm_prefix_of f1)))); auto.
      apply (same_bk_trans _ _ _ S01). apply IH. apply S01.
Qed.


(* ---------------- content packets and Wait ---------------- *)
Lemma filter_fst_In {A} (g : N * A -> bool) l x : In x (map fst (filter g l)) -> In x (map fst l).
Proof.
  intros H. apply in_map_iff in H. destruct H as (y & E & Hy). apply filter_In in Hy. destruct Hy as [Hy _].
  subst x. apply in_map. exact Hy.
Qed.

Lemma alookup_None_notin {A} k (l : list (N * A)) : alookup k l = None -> ~ In k (map fst l).
Proof.
  induction l as [|[k' v] l IH]; simpl; [tauto|].
  destruct (N.eqb k k') eqn:E; [discriminate|]. apply N.eqb_neq in E. intros H [H1|H1]; [congruence|]. apply IH; auto.
Qed.

Lemma alookup_Some_in {A} k (l : list (N * A)) v : alookup k l = Some v -> In k (map fst l).
Proof.
  induction l as [|[k' v'] l IH]; simpl; [discriminate|].
  destruct (N.eqb k k') eqn:E; intros H.
  - apply N.eqb_eq in E. left. auto.
  - right. auto.
Qed.

(* the fields the validators and the id check read, after a packet that is no STAT *)
Record quiet_bk (idx : nat) (st st' : rstate) : Prop := {
  q_out : r_out st' = r_out st \/ r_out st' = Failed idx \/ r_out st' = Panicked idx;
  q_vstk : r_vstk st' = r_vstk st;
  q_seen : r_seen st' = r_seen st;
  q_next : r_next st' = r_next st;
  q_budget : r_budget st' = None;
  q_pipes : forall id, In id (map fst (r_pipes st')) -> In id (map fst (r_pipes st));
  q_files : r_files st' = r_files st
}.

Lemma quiet_bk_refl idx st : r_budget st = None -> quiet_bk idx st st.
Proof. intros H. constructor; auto. Qed.

Lemma recv_data_bk idx id d st : r_budget st = None -> quiet_bk idx st (recv_data c idx id d st).
Proof.
  intros Hb. unfold recv_data.
  destruct (alookup id (r_pipes st)) as [pp|] eqn:Ea; [|constructor; simpl; auto].
  destruct (pp_closed pp); [constructor; simpl; auto|].
  destruct (spend_none st Hb) as (st1 & Es & Hb1 & Ef & Ev & Ese & En & Ep & Efi & Eo & Et & _).
  rewrite Es.
  assert (Hid : In id (map fst (r_pipes st))) by (apply (alookup_Some_in _ _ _ Ea)).
  assert (Q1 : quiet_bk idx st st1).
  { constructor; auto. intros x Hx. rewrite Ep in Hx. exact Hx. }
  assert (Qa : forall st' v, r_out st' = r_out st1 \/ r_out st' = Failed idx -> r_vstk st' = r_vstk st1 ->
                 r_seen st' = r_seen st1 -> r_next st' = r_next st1 -> r_budget st' = None ->
                 r_files st' = r_files st1 ->
                 (r_pipes st' = r_pipes st1 \/ r_pipes st' = aset id v (r_pipes st1)
                  \/ r_pipes st' = filter (fun kv : N * pipe => negb (N.eqb (fst kv) id)) (r_pipes st1)) ->
                 quiet_bk idx st st').
  { intros st' v H1 H2 H3 H4 H5 H6 H7. assert (H1' : r_out st' = r_out st \/ r_out st' = Failed idx \/ r_out st' = Panicked idx) by (destruct H1 as [H1|H1]; [left; rewrite H1; exact Eo|right; left; exact H1]).
    refine {| q_out := _; q_vstk := _; q_seen := _; q_next := _; q_budget := _; q_pipes := _; q_files := _ |}; try congruence.
    all: try exact H1'.
    intros x Hx. destruct H7 as [H7|[H7|H7]]; rewrite H7 in Hx.
    - rewrite Ep in Hx. exact Hx.
    - apply aset_fst_In in Hx. rewrite Ep in Hx. destruct Hx as [->|Hx]; auto.
    - apply filter_fst_In in Hx. rewrite Ep in Hx. exact Hx. }
  destruct (is_nil d).
  - destruct (r_asyncerr st1).
    + destruct (pp_fd pp); [|exact Q1].
      eapply Qa; simpl; auto.
    + destruct (if has_bits (st_mode (pp_stat pp)) ModeSetuid || has_bits (st_mode (pp_stat pp)) ModeSetgid
                then sys_chmod c (r_fs st1) (pp_path pp) (unix_perm (st_mode (pp_stat pp))) else (r_fs st1, ROk)) as [f1 r1].
      destruct (if is_err r1 then (f1, r1) else sys_utimens c f1 (pp_path pp) (st_mtime (pp_stat pp))) as [f2 r2].
      apply (Qa _ pp); simpl; auto.
  - destruct (match pp_fd pp with Some i => (r_fs st1, RFd i) | None => sys_open_wronly c (r_fs st1) (pp_path pp) false 0 end) as [f1 r].
    destruct r as [| | | | |i].
    1-5: apply (Qa _ pp); simpl; auto.
    destruct (fd_pwrite f1 i (pp_off pp) d) as [f2 r2]. eapply Qa; simpl; auto.
Qed.

Lemma recv_data_unknown idx id d st : alookup id (r_pipes st) = None ->
  r_out (recv_data c idx id d st) = Failed idx /\ r_fs (recv_data c idx id d st) = r_fs st.
Proof. intros H. unfold recv_data. rewrite H. split; reflexivity. Qed.

Lemma maybe_wait_bk idx st : r_budget st = None ->
  let st' := maybe_wait c dl idx st in
  r_out st' = r_out st /\ r_vstk st' = r_vstk st /\ r_seen st' = r_seen st /\ r_next st' = r_next st
  /\ r_budget st' = None /\ r_pipes st' = r_pipes st /\ r_files st' = r_files st.
Proof.
  intros Hb. cbv zeta. unfold maybe_wait.
  destruct ((running st || match r_out st with Drained _ => true | _ => false end) && negb (is_dead st)); [|repeat split; auto].
  destruct (r_closed st && negb (r_waited st)); [|repeat split; auto].
  destruct (r_asyncerr st); [simpl; repeat split; auto|].
  destruct (is_nil (r_pipes st)); [|repeat split; auto].
  destruct (spend_none st Hb) as (st1 & Es & Hb1 & Ef & Ev & Ese & En & Ep & Efi & Eo & Et & _).
  rewrite Es. simpl. repeat split; auto.
Qed.

Lemma maybe_wait_stopped idx st : running st = false -> (forall k, r_out st <> Drained k) -> maybe_wait c dl idx st = st.
Proof.
  intros Hr Hd. unfold maybe_wait. rewrite Hr. destruct (r_out st); try reflexivity. exfalso. apply (Hd k). reflexivity.
Qed.


Lemma vstep_ok_path stk it stk' : vstep stk it = Some stk' -> ok_path (vpath it) = true.
Proof.
  intros H. destruct (ok_path (vpath it)) eqn:E; auto.
  unfold vstep in H. rewrite (vsplit_bad _ E) in H. discriminate.
Qed.

(* ---------------- the receiver's bookkeeping against the specification's ---------------- *)
Lemma memN_In x l : RecvSpec.memN x l = true <-> In x l.
Proof.
  induction l as [|y r IH]; simpl; [split; [discriminate|tauto]|].
  rewrite orb_true_iff, IH, N.eqb_eq. split; intros [H|H]; auto.
Qed.

Lemma mem_bytes_iff p l : mem_bytes p l = true <-> In p l.
Proof.
  induction l as [|q l IH]; simpl; [split; [discriminate|tauto]|].
  rewrite orb_true_iff, IH, bytes_eqb_eq. split; intros [H|H]; auto.
Qed.

Record SInv (st : rstate) (sp : sspec) : Prop := {
  s_budget : r_budget st = None;
  s_R : R (r_vstk st);
  s_vinv : Inv (map ce (r_vstk st)) (map citem_of (ss_acc sp));
  s_seen : forall q, In q (r_seen st) -> In q (ss_paths sp);
  s_next : r_next st = ss_next sp;
  s_pipes : forall id, In id (map fst (r_pipes st)) -> In id (ss_ids sp);
  s_files : forall q, In q (map fst (r_files st)) -> In q (ss_paths sp);
  s_paths : forall q, In q (ss_paths sp) -> In q (map vpath (ss_acc sp))
}.

Definition stopped_at (st : rstate) (idx : nat) : Prop :=
  r_out st = Failed idx \/ r_out st = Panicked idx.

Lemma running_out st : running st = true <-> r_out st = Running.
Proof. unfold running. destruct (r_out st); split; congruence. Qed.

Lemma SInv_quiet idx st st' sp : SInv st sp -> quiet_bk idx st st' -> SInv st' sp.
Proof.
  intros [] []. constructor; try congruence; auto.
  - intros q Hq. rewrite q_seen0 in Hq. auto.
  - rewrite q_files0. auto.
Qed.

(* a packet that is no STAT: the run goes on with the same specification state, or stops here *)
Lemma after_quiet idx st st' sp : running st = true -> SInv st sp -> quiet_bk idx st st' ->
  let st'' := maybe_wait c dl idx st' in
  (running st'' = true /\ SInv st'' sp) \/ stopped_at st'' idx.
Proof.
  intros Hr S Q. cbv zeta. pose proof (SInv_quiet idx st st' sp S Q) as S'.
  destruct (maybe_wait_bk idx st' (s_budget _ _ S')) as (A & B & C0 & E & F & G & H).
  destruct (q_out _ _ _ Q) as [Ho|Ho].
  2:{ right. unfold stopped_at. rewrite A. exact Ho. }
  - left. split.
    + apply running_out. rewrite A, Ho. apply running_out. exact Hr.
    + destruct S'. constructor; try congruence; auto.
      * intros q Hq. rewrite C0 in Hq. auto.
      * intros id Hid. rewrite G in Hid. auto.
      * rewrite H. auto.
Qed.

Lemma spec_ok_of_vstep st sp it v' : SInv st sp -> vstep (r_vstk st) it = Some v' ->
  spec_ok_b (ss_acc sp) it = true /\ R v' /\ Inv (map ce v') (map citem_of (ss_acc sp ++ [it])).
Proof.
  intros S Ev. pose proof (vstep_ok_path _ _ _ Ev) as Hok.
  pose proof (vstep_refines (r_vstk st) it (s_R _ _ S) Hok) as Hr. rewrite Ev in Hr. destruct Hr as [Hcv HR'].
  destruct (cvstep_sound _ _ _ _ (s_vinv _ _ S) (okitem_names it Hok) Hcv) as [Hspec HI'].
  split; [apply (spec_reflect (ss_acc sp) it Hok); exact Hspec|]. split; auto.
  rewrite map_app. exact HI'.
Qed.

Lemma vstep_ok_path' stk it stk' : vstep stk it = Some stk' -> ok_path (vpath it) = true.
Proof.
  intros H. destruct (ok_path (vpath it)) eqn:E; auto.
  unfold vstep in H. rewrite (vsplit_bad _ E) in H. discriminate.
Qed.


Lemma hl_step_sub seen s seen' : hl_step seen s = Some seen' ->
  (forall q, In q seen' -> In q seen \/ q = st_path s)
  /\ (is_hardlink_stat s = true -> In (st_linkname s) seen).
Proof.
  unfold hl_step, is_hardlink_stat.
  destruct (st_is_dir s); cbn [orb negb andb].
  - intros H. inversion H; subst. split; [auto|discriminate].
  - destruct (mode_is_symlink (st_mode s)); cbn [orb negb andb].
    + intros H. inversion H; subst. split; [auto|discriminate].
    + destruct (is_nil (st_linkname s)); cbn [negb].
      * intros H. inversion H; subst. split; [|discriminate]. intros q [E|Hq]; auto.
      * destruct (mem_bytes (st_linkname s) seen) eqn:Em; intros H; inversion H; subst.
        split; [auto|]. intros _. apply mem_bytes_iff. exact Em.
Qed.

Lemma stat_step idx s st sp : running st = true -> SInv st sp ->
  let st' := maybe_wait c dl idx (recv_stat fl c idx s st) in
  if stat_bad sp s then r_out st' = Failed idx /\ r_fs st' = r_fs st
  else (running st' = true /\ SInv st' (sspec_stat sp s)) \/ stopped_at st' idx.
Proof.
  intros Hr S. cbv zeta. unfold recv_stat.
  set (files := if mode_is_regular (st_mode s) then bset (st_path s) (r_next st) (r_files st) else r_files st).
  set (it := item_of s).
  assert (Hstop : forall st1 o, (o = Failed idx \/ o = Panicked idx) -> r_fs st1 = r_fs st ->
            r_out (maybe_wait c dl idx (set_out st1 o)) = o /\ r_fs (maybe_wait c dl idx (set_out st1 o)) = r_fs st).
  { intros st1 o Ho Ef. rewrite maybe_wait_stopped.
    - split; auto.
    - unfold running. simpl. destruct Ho as [->| ->]; reflexivity.
    - simpl. intros k. destruct Ho as [->| ->]; discriminate. }
  destruct (vstep (r_vstk st) it) as [v'|] eqn:Ev.
  2:{ destruct (Hstop (set_valid st (r_vstk st) (r_seen st) files (r_next st + 1)) (Failed idx) (or_introl eq_refl) eq_refl) as [A B].
      destruct (stat_bad sp s); [split; auto|right; left; exact A]. }
  destruct (spec_ok_of_vstep st sp it v' S Ev) as (Hspec & HR' & HI').
  destruct (hl_step (r_seen st) s) as [seen'|] eqn:Eh.
  2:{ destruct (Hstop (set_valid (set_valid st (r_vstk st) (r_seen st) files (r_next st + 1)) v' (r_seen st) files (r_next st + 1))
                  (Failed idx) (or_introl eq_refl) eq_refl) as [A B].
      destruct (stat_bad sp s); [split; auto|right; left; exact A]. }
  destruct (hl_step_sub _ _ _ Eh) as [Hsub Hlk].
  assert (Hnb : stat_bad sp s = false).
  { unfold stat_bad. fold it. rewrite Hspec. cbn [negb orb].
    destruct (is_hardlink_stat s) eqn:Ehl; [|reflexivity]. cbn [andb].
    apply negb_false_iff. apply mem_bytes_iff. apply (s_seen _ _ S). apply Hlk. reflexivity. }
  rewrite Hnb.
  set (st1 := set_valid (set_valid st (r_vstk st) (r_seen st) files (r_next st + 1)) v' seen' files (r_next st + 1)).
  destruct (is_dead st1 && negb (r_closed st1)).
  { right. left. apply (Hstop st1 (Failed idx) (or_introl eq_refl) eq_refl). }
  destruct (r_closed st1).
  { right. right. apply (Hstop st1 (Panicked idx) (or_intror eq_refl) eq_refl). }
  assert (Hb1 : r_budget st1 = None) by (simpl; apply S).
  destruct (diff_feed_bk idx s (r_old st1) st1 Hb1) as [Ho B].
  set (st2 := diff_feed fl c idx s (r_old st1) st1) in *.
  destruct (maybe_wait_bk idx st2 (bk_budget _ _ _ B)) as (A1 & A2 & A3 & A4 & A5 & A6 & A7).
  left. split.
  - apply running_out. rewrite A1, Ho. simpl. apply running_out. exact Hr.
  - assert (Hlt : forall q, In q (map vpath (ss_acc sp)) -> q <> st_path s).
    { intros q Hq E. subst q. unfold spec_ok_b in Hspec.
      apply andb_true_iff in Hspec. destruct Hspec as [Hspec _]. apply andb_true_iff in Hspec. destruct Hspec as [_ Hlt].
      rewrite forallb_forall in Hlt. apply in_map_iff in Hq. destruct Hq as (x & Ex & Hx).
      pose proof (Hlt x Hx) as H. rewrite Ex in H. unfold path_ltb in H. cbn [vpath it item_of] in H.
      rewrite compare_path_refl in H. discriminate. }
    constructor.
    + exact A5.
    + rewrite A2, (bk_vstk _ _ _ B). exact HR'.
    + rewrite A2, (bk_vstk _ _ _ B). exact HI'.
    + intros q Hq. rewrite A3, (bk_seen _ _ _ B) in Hq. simpl in Hq. simpl.
      destruct (Hsub q Hq) as [H|H]; [right; apply (s_seen _ _ S q H)|left; auto].
    + rewrite A4, (bk_next _ _ _ B). simpl. rewrite (s_next _ _ S). reflexivity.
    + intros id Hid. rewrite A6 in Hid. apply in_map_iff in Hid. destruct Hid as ([id' pp] & E & Hin). simpl in E. subst id'.
      assert (Hold : In id (ss_ids sp) -> In id (ss_ids (sspec_stat sp s))).
      { intros H. simpl. destruct (mode_is_regular (st_mode s) && is_nil (st_linkname s)); [right|]; exact H. }
      destruct (bk_pipes _ _ _ B id pp Hin) as [H|H].
      * apply Hold. apply (s_pipes _ _ S). exact H.
      * unfold newids in H. cbn [r_files st1 set_valid] in H. unfold files in H.
        destruct (mode_is_regular (st_mode s)) eqn:Er.
        -- rewrite blookup_bset_same in H. destruct (regular_branch s) eqn:Erb; [|destruct H].
           destruct H as [<-|[]]. simpl. rewrite Er.
           assert (En : is_nil (st_linkname s) = true).
           { unfold regular_branch in Erb. apply andb_true_iff in Erb. tauto. }
           rewrite En. left. symmetry. apply (s_next _ _ S).
        -- destruct (blookup (st_path s) (r_files st)) as [id0|] eqn:Eb; [|destruct H].
           exfalso. apply (Hlt (st_path s)); auto. apply (s_paths _ _ S). apply (s_files _ _ S).
           apply blookup_In in Eb. change (st_path s) with (fst (st_path s, id0)). apply in_map. exact Eb.
    + intros q Hq. rewrite A7 in Hq. apply (bk_files _ _ _ B) in Hq. cbn [r_files st1 set_valid] in Hq. unfold files in Hq.
      simpl. destruct (mode_is_regular (st_mode s)).
      * apply bset_fst in Hq. destruct Hq as [->|Hq]; [left; reflexivity|right; apply (s_files _ _ S q Hq)].
      * right. apply (s_files _ _ S q Hq).
    + intros q Hq. simpl in Hq. simpl. rewrite map_app. apply in_or_app. destruct Hq as [<-|Hq].
      * right. left. reflexivity.
      * left. apply (s_paths _ _ S q Hq).
Qed.


(* ---------------- the theorem ---------------- *)
Lemma spec_bad_ge : forall pks sp i b, spec_bad pks sp i = Some b -> (i <= b)%nat.
Proof.
  induction pks as [|pk r IH]; intros sp i b H; simpl in H; [discriminate|].
  destruct pk as [[s|]|id d| | |]; try discriminate.
  - destruct (stat_bad sp s); [inversion H; lia|]. apply IH in H. lia.
  - apply IH in H. lia.
  - destruct (negb (RecvSpec.memN id (ss_ids sp))); [inversion H; lia|]. apply IH in H. lia.
  - apply IH in H. lia.
Qed.

Lemma recv_loop_stopped : forall pks idx st, running st = false -> recv_loop fl c dl idx pks st = st.
Proof.
  induction pks as [|pk r IH]; intros idx st H; simpl; [reflexivity|].
  unfold recv_packet. rewrite H. simpl. apply IH. exact H.
Qed.

Lemma stopped_not_running st k : stopped_at st k -> running st = false.
Proof. unfold stopped_at, running. intros [-> | ->]; reflexivity. Qed.

Lemma stopped_wait st k idx : stopped_at st k -> maybe_wait c dl idx st = st.
Proof.
  intros H. apply maybe_wait_stopped; [apply (stopped_not_running st k H)|].
  intros k'. destruct H as [-> | ->]; discriminate.
Qed.

Theorem reject_main : forall pks st sp idx b,
  (running st = true /\ SInv st sp) \/ (exists k, (k < idx)%nat /\ stopped_at st k) ->
  spec_bad pks sp idx = Some b ->
  let st' := recv_loop fl c dl idx pks st in
  (exists k, (k <= b)%nat /\ stopped_at st' k)
  /\ r_fs st' = r_fs (recv_loop fl c dl idx (firstn (b - idx) pks) st).
Proof.
  induction pks as [|pk r IH]; intros st sp idx b Hst Hbad; [discriminate|].
  pose proof (spec_bad_ge _ _ _ _ Hbad) as Hge.
  destruct Hst as [[Hr SI]|(k & Hk & Hs)].
  2:{ cbv zeta. rewrite !recv_loop_stopped by (apply (stopped_not_running st k Hs)).
      split; auto. exists k. split; [lia|exact Hs]. }
  cbv zeta. cbn [recv_loop].
  assert (Hpk : recv_packet fl c dl idx pk st =
                maybe_wait c dl idx (match pk with
                                     | PErr => set_out st (Failed idx)
                                     | PFin => set_out st (Drained idx)
                                     | POther => st
                                     | PStat None => if r_closed st then set_out st (Panicked idx)
                                                     else if is_dead st then set_out st (Failed idx)
                                                     else diff_flush fl c idx (r_old st) (set_flags st true (r_waited st))
                                     | PStat (Some s) => recv_stat fl c idx s st
                                     | PData id d => recv_data c idx id d st
                                     end)).
  { unfold recv_packet. rewrite Hr. reflexivity. }
  (* the packet is the offender: nothing applied, the run is over *)
  assert (Hhere : forall st1, r_out st1 = Failed idx -> r_fs st1 = r_fs st -> b = idx ->
            (exists k, (k <= b)%nat /\ stopped_at (recv_loop fl c dl (S idx) r st1) k)
            /\ r_fs (recv_loop fl c dl (S idx) r st1) = r_fs (recv_loop fl c dl idx (firstn (b - idx) (pk :: r)) st)).
  { intros st1 Ho Ef Eb. subst b. rewrite Nat.sub_diag. cbn [firstn recv_loop].
    rewrite recv_loop_stopped by (unfold running; rewrite Ho; reflexivity).
    split; auto. exists idx. split; [lia|left; exact Ho]. }
  (* the packet is fine: go on *)
  assert (Hnext : forall st1 sp1, (running st1 = true /\ SInv st1 sp1) \/ stopped_at st1 idx ->
            spec_bad r sp1 (S idx) = Some b -> st1 = recv_packet fl c dl idx pk st ->
            (exists k, (k <= b)%nat /\ stopped_at (recv_loop fl c dl (S idx) r st1) k)
            /\ r_fs (recv_loop fl c dl (S idx) r st1) = r_fs (recv_loop fl c dl idx (firstn (b - idx) (pk :: r)) st)).
  { intros st1 sp1 H1 Hb1 E1. pose proof (spec_bad_ge _ _ _ _ Hb1) as Hge1.
    assert (Hst1 : (running st1 = true /\ SInv st1 sp1) \/ (exists k, (k < S idx)%nat /\ stopped_at st1 k)).
    { destruct H1 as [H1|H1]; [left; exact H1|right; exists idx; split; [lia|exact H1]]. }
    destruct (IH st1 sp1 (S idx) b Hst1 Hb1) as [A B]. split; [exact A|].
    rewrite B. replace (b - idx)%nat with (S (b - S idx)) by lia. cbn [firstn recv_loop]. rewrite <- E1. reflexivity. }
  simpl in Hbad. destruct pk as [[s|]|id d| | |]; try discriminate.
  - (* STAT *)
    pose proof (stat_step idx s st sp Hr SI) as H. cbv zeta in H. rewrite <- Hpk in H.
    destruct (stat_bad sp s).
    + inversion Hbad; subst b. destruct H as [Ho Ef]. apply Hhere; auto.
    + apply (Hnext _ (sspec_stat sp s)); auto.
  - (* end of the listing *)
    apply (Hnext _ sp); auto. rewrite Hpk. apply (after_quiet idx st _ sp Hr SI).
    destruct (r_closed st); [constructor; simpl; auto; apply SI|].
    destruct (is_dead st); [constructor; simpl; auto; apply SI|].
    assert (Hb0 : r_budget (set_flags st true (r_waited st)) = None) by (simpl; apply SI).
    pose proof (diff_flush_bk idx (r_old st) _ Hb0) as []. simpl in *.
    constructor; auto. intros x Hx. rewrite sb_pipes0 in Hx. exact Hx.
  - (* content *)
    destruct (negb (RecvSpec.memN id (ss_ids sp))) eqn:Em.
    + inversion Hbad; subst b.
      assert (Ea : alookup id (r_pipes st) = None).
      { destruct (alookup id (r_pipes st)) eqn:E; auto. exfalso.
        apply alookup_Some_in in E. apply (s_pipes _ _ SI) in E. apply memN_In in E. rewrite E in Em. discriminate. }
      destruct (recv_data_unknown idx id d st Ea) as [Ho Ef].
      apply Hhere; auto; rewrite Hpk.
      * rewrite (stopped_wait _ idx idx); [exact Ho|left; exact Ho].
      * rewrite (stopped_wait _ idx idx); [exact Ef|left; exact Ho].
    + apply (Hnext _ sp); auto. rewrite Hpk. apply (after_quiet idx st _ sp Hr SI).
      apply recv_data_bk. apply SI.
  - (* a packet the loop ignores *)
    apply (Hnext _ sp); auto. rewrite Hpk. apply (after_quiet idx st _ sp Hr SI). apply quiet_bk_refl. apply SI.
Qed.

End Reject.

Lemma SInv_init f d0 merge tmps : SInv (rstate_init f d0 merge tmps None) sspec_init.
Proof.
  constructor; simpl; auto; try tauto.
  - constructor; [left; reflexivity|constructor].
  - apply inv_init.
Qed.

Theorem bad_stream_rejected_f :
  forall (fl : rfilter),
    (forall s, st_mode (f_map fl s) = st_mode s) -> (forall s, st_linkname (f_map fl s) = st_linkname s) ->
  forall (f : fs) (root D : N) (dl merge : bool) (tmps : list bytes) (pks : list packet) (b : nat),
    spec_bad pks sspec_init 0 = Some b ->
    let st := recv_run_f fl f root D dl merge tmps pks None in
    (exists k, (k <= b)%nat /\ (r_out st = Failed k \/ r_out st = Panicked k))
    /\ recv_succeeds st = false
    /\ r_fs st = r_fs (recv_run_f fl f root D dl merge tmps (firstn b pks) None).
Proof.
  intros fl Hm1 Hm2 f root D dl merge tmps pks b Hb. cbv zeta. unfold recv_run_f.
  destruct (reject_main fl {| c_root := root; c_cwd := D |} dl Hm1 Hm2 pks (rstate_init f D merge tmps None) sspec_init 0 b
              (or_introl (conj eq_refl (SInv_init f D merge tmps))) Hb) as [(k & Hk & Hs) Hf].
  cbv zeta in Hf. rewrite Nat.sub_0_r in Hf.
  split; [exists k; split; auto|]. split; [|exact Hf].
  unfold recv_succeeds. destruct Hs as [-> | ->]; reflexivity.
Qed.

Theorem bad_stream_rejected_proof :
  forall (f : fs) (root D : N) (dl merge : bool) (tmps : list bytes) (pks : list packet) (b : nat),
    spec_bad pks sspec_init 0 = Some b ->
    let st := recv_fs f root D dl merge tmps pks in
    (exists k, (k <= b)%nat /\ (r_out st = Failed k \/ r_out st = Panicked k))
    /\ recv_succeeds st = false
    /\ r_fs st = r_fs (recv_fs f root D dl merge tmps (firstn b pks)).
Proof.
  intros. apply (bad_stream_rejected_f no_filter); auto.
Qed.
