From Coq Require Import List Arith Bool PeanoNat Lia ZifyBool.
From FS Require Import Model.Lts Model.LtsExplore Proofs.LtsInv Proofs.LtsSafe Proofs.LtsTerm Proofs.LtsC08 Proofs.LtsTok Proofs.LtsContent Proofs.LtsContent2 Proofs.LtsContent3.
From FS Require Import Proofs.LtsClean1.
Import ListNotations.

Ltac kill_by_scal S' :=
  try (exfalso; clear - S'; destruct S'; cbn in *;
       first [ discriminate | contradiction | congruence ]).

Ltac wq_facts id :=
  try match goal with E : nth_error (wks ?s) ?j = Some ?w |- _ =>
        let Y := fresh "Y" in pose proof (sumf_ge_nth _ (held id) _ _ _ E) as Y; cbn [held] in Y end;
  try match goal with E : nth_error (wks ?s) ?j = Some ?w |- context [set_nth ?j ?x (wks ?s)] =>
        let X1 := fresh "X" in pose proof (sumf_set_nth _ (held id) (wks s) j w x E) as X1; cbn [held] in X1 end;
  try match goal with E : nth_error (wrs ?s) ?j = Some ?w |- _ =>
        let Y := fresh "Y" in
        pose proof (sumf_ge_nth _ (wsel cS id) _ _ _ E) as Y; pose proof (sumf_ge_nth _ (wsel cL id) _ _ _ E);
        pose proof (sumf_ge_nth _ (wsel cW id) _ _ _ E); pose proof (sumf_ge_nth _ (wsel cN id) _ _ _ E);
        pose proof (sumf_ge_nth _ (wsel cD id) _ _ _ E) end;
  try match goal with E : nth_error (wrs ?s) ?j = Some ?w |- context [set_nth ?j ?x (wrs ?s)] =>
        pose proof (sumf_set_nth _ (wsel cAll id) (wrs s) j w x E);
        pose proof (sumf_set_nth _ (wsel cS id) (wrs s) j w x E);
        pose proof (sumf_set_nth _ (wsel cL id) (wrs s) j w x E);
        pose proof (sumf_set_nth _ (wsel cW id) (wrs s) j w x E);
        pose proof (sumf_set_nth _ (wsel cN id) (wrs s) j w x E);
        pose proof (sumf_set_nth _ (wsel cD id) (wrs s) j w x E) end.

Ltac wq_prep p id :=
  constructor;
  unfold wsum, down, tok, sw_bound, dl_bound, setw, setwr, s_fail, r_fail, d_fail, eg_fail, rl_fail, dl_fail, wr_fail in *; cbn;
  repeat match goal with E : ?f ?s = ?v |- _ => match type of s with state => rewrite E in * end end; cbn in *;
  wq_facts id;
  rewrite ?sumf_snoc in *;
  unfold wsel in *; cbn [wr_id wr_pc cAll cS cL cW cN cD] in *;
  rewrite ?andb_true_r, ?andb_false_r in *;
  rewrite ?cnt_cons, ?cnt_app, ?cntE_cons, ?cntE_app, ?cntQ_cons, ?cntQ_app in *; cbn [is_dend is_preq b2n] in *.

Lemma b2n_eq : forall b, b2n b = Nat.b2n b.
Proof. destruct b; reflexivity. Qed.

Ltac split_isfile p id :=
  repeat match goal with
  | H : is_file p ?y = _ |- _ =>
      lazymatch y with
      | id => fail
      | _ => lazymatch goal with
             | _ : id = y |- _ => fail
             | _ : id <> y |- _ => fail
             | _ => destruct (Nat.eq_dec id y); [subst|]
             end
      end
  end.

Lemma is_file_oob : forall p i, (i <? nentries p) = false -> is_file p i = false.
Proof.
  intros p i H. apply Nat.ltb_ge in H. unfold is_file, entry_at, nentries in *.
  destruct (nth_error (p_entries p) i) eqn:E; auto. apply nth_error_some_lt in E. lia.
Qed.

Ltac oob_facts p :=
  repeat match goal with
  | H : (?i <? nentries p) = false |- _ =>
      lazymatch goal with
      | _ : is_file p i = false |- _ => fail
      | _ => pose proof (is_file_oob p i H)
      end
  end.

Ltac memb_facts :=
  repeat match goal with
  | M : memb ?x ?l = true |- _ =>
      lazymatch goal with
      | _ : 1 <= cnt x l |- _ => fail
      | _ => pose proof (cnt_memb _ _ M)
      end
  end.
Ltac remb_split id :=
  repeat match goal with
  | |- context [cnt id (remb ?x ?l)] =>
      destruct (Nat.eq_dec id x);
      [ subst; rewrite ?cnt_remb_same in * | rewrite ?cnt_remb_other in * by auto ]
  end.

Lemma fin_rs_writers_done : forall st j w,
  inv3 st -> nth_error (wrs st) j = Some w -> wr_done w = false -> g_fin_rs st = false.
Proof.
  intros st j w (_ & _ & _ & I4 & _) E N. destruct (g_fin_rs st) eqn:G; auto.
  destruct (I4 eq_refl) as (_ & _ & _ & W). pose proof (forallb_nth _ _ _ _ _ W E). congruence.
Qed.
Lemma drain_fin_rs : forall st, inv1 st -> rl_pc st = RL_Drain -> g_fin_rs st = true.
Proof.
  intros st (_ & _ & _ & I4 & I5 & _ & _ & I8 & I9 & _) E. rewrite E in I9. auto.
Qed.
Lemma dofin_alldone : forall st, inv3 st ->
  match do_pc st with DO_LockFin | DO_SendFin => True | _ => False end -> forallb wr_done (wrs st) = true.
Proof.
  intros st (_ & _ & I3 & _) D. destruct (do_pc st); try contradiction; apply I3.
Qed.

Ltac inv_facts id :=
  try match goal with E : nth_error (wrs ?s) ?j = Some ?w, I : inv3 ?s |- _ =>
        pose proof (fin_rs_writers_done s j w I E eq_refl) end;
  try match goal with E : rl_pc ?s = RL_Drain, I : inv1 ?s |- _ => pose proof (drain_fin_rs s I E) end;
  try match goal with E : do_pc ?s = DO_SendFin, I : inv3 ?s |- _ =>
        let A := fresh "A" in
        assert (A: forallb wr_done (wrs s) = true) by (apply dofin_alldone; [exact I | rewrite E; exact Logic.I]);
        destruct (alldone_wsum id _ A) as (? & ? & ? & ?) end.

Ltac cnt_split id :=
  repeat match goal with
  | H : 1 <= cnt ?x ?l |- _ =>
      lazymatch x with
      | id => fail
      | _ => lazymatch goal with
             | _ : id = x |- _ => fail
             | _ : id <> x |- _ => fail
             | _ => destruct (Nat.eq_dec id x); [subst|]
             end
      end
  end.

Ltac wq_fin p id :=
  try (intros; lia);
  try (intros; change b2n with Nat.b2n in *; lia);
  try (intros; oob_facts p; split_isfile p id; change b2n with Nat.b2n in *; lia);
  try (intros; split_eqb id; cbn [b2n] in *; lia);
  try (intros; match goal with M : memb ?x (sfiles _) = true |- _ =>
         destruct (Nat.eqb_spec id x);
         [ subst; rewrite ?cnt_remb_same in *; pose proof (cnt_memb _ _ M)
         | rewrite ?cnt_remb_other in * by auto ]; change b2n with Nat.b2n in *; lia end);
  try (intros; memb_facts; remb_split id; oob_facts p; split_isfile p id; change b2n with Nat.b2n in *; lia);
  try (intros; memb_facts; cnt_split id; remb_split id; change b2n with Nat.b2n in *; lia).

Ltac wq_label p id :=
  intros HS HS' I9 I1c I3c [Wu Wb WS WQ WR WP WC WF] H;
  destruct I9 as (I91 & _ & _);
  unfold wsum, down, tok, sw_bound, dl_bound in *;
  unfold_steps H; step_split H; inv_some; subst;
  repeat match goal with w : writer |- _ => destruct w; cbn in * end; subst;
  kill_by_scal HS';
  inv_facts id;
  [> wq_prep p id ..]; wq_fin p id.

Lemma wq_step_sw : forall p id st  st',
  scal st -> scal st' -> inv9a st -> inv1 st -> inv3 st -> wq p id st -> step p st LSWalk = Some st' -> wq p id st'.
Proof. intros p id st  st'. wq_label p id. Qed.
Lemma wq_step_rq : forall p id st  st',
  scal st -> scal st' -> inv9a st -> inv1 st -> inv3 st -> wq p id st -> step p st LReq = Some st' -> wq p id st'.
Proof. intros p id st  st'. wq_label p id. Qed.
Lemma wq_step_rqc : forall p id st  st',
  scal st -> scal st' -> inv9a st -> inv1 st -> inv3 st -> wq p id st -> step p st LReqCtx = Some st' -> wq p id st'.
Proof. intros p id st  st'. wq_label p id. Qed.
Lemma wq_step_rl : forall p id st  st',
  scal st -> scal st' -> inv9a st -> inv1 st -> inv3 st -> wq p id st -> step p st LRecvLoop = Some st' -> wq p id st'.
Proof. intros p id st  st'. wq_label p id. Qed.
Lemma wq_step_df : forall p id st  st',
  scal st -> scal st' -> inv9a st -> inv1 st -> inv3 st -> wq p id st -> step p st LDiff = Some st' -> wq p id st'.
Proof. intros p id st  st'. wq_label p id. Qed.
Lemma wq_step_do : forall p id st  st',
  scal st -> scal st' -> inv9a st -> inv1 st -> inv3 st -> wq p id st -> step p st LDiffOuter = Some st' -> wq p id st'.
Proof. intros p id st  st'. wq_label p id. Qed.
Lemma wq_step_wk : forall p id st j st',
  scal st -> scal st' -> inv9a st -> inv1 st -> inv3 st -> wq p id st -> step p st (LWorker j) = Some st' -> wq p id st'.
Proof. intros p id st j st'. wq_label p id. Qed.
Lemma wq_step_wko : forall p id st j st',
  scal st -> scal st' -> inv9a st -> inv1 st -> inv3 st -> wq p id st -> step p st (LWorkerOpenErr j) = Some st' -> wq p id st'.
Proof. intros p id st j st'. wq_label p id. Qed.
Lemma wq_step_wr : forall p id st j st',
  scal st -> scal st' -> inv9a st -> inv1 st -> inv3 st -> wq p id st -> step p st (LWriter j) = Some st' -> wq p id st'.
Proof. intros p id st j st'. wq_label p id. Qed.

Definition wq_other (l : label) : bool :=
  match l with
  | LSWalk | LReq | LReqCtx | LRecvLoop | LDiff | LDiffOuter | LWorker _ | LWorkerOpenErr _ | LWriter _ => false
  | _ => true
  end.
Lemma wq_step_other : forall p id st l st', wq_other l = true ->
  scal st -> scal st' -> inv9a st -> inv1 st -> inv3 st -> wq p id st -> step p st l = Some st' -> wq p id st'.
Proof. intros p id st l st' O. destruct l; try discriminate O; clear O; wq_label p id. Qed.

Lemma wq_step : forall p id st l st',
  scal st -> scal st' -> inv9a st -> inv1 st -> inv3 st -> wq p id st -> step p st l = Some st' -> wq p id st'.
Proof.
  intros p id st l st' A B C D E F H. destruct (wq_other l) eqn:O.
  - exact (wq_step_other p id st l st' O A B C D E F H).
  - destruct l; try discriminate O.
    + eapply wq_step_sw; [exact A | exact B | exact C | exact D | exact E | exact F | exact H].
    + eapply wq_step_wk; [exact A | exact B | exact C | exact D | exact E | exact F | exact H].
    + eapply wq_step_wko; [exact A | exact B | exact C | exact D | exact E | exact F | exact H].
    + eapply wq_step_rq; [exact A | exact B | exact C | exact D | exact E | exact F | exact H].
    + eapply wq_step_rqc; [exact A | exact B | exact C | exact D | exact E | exact F | exact H].
    + eapply wq_step_rl; [exact A | exact B | exact C | exact D | exact E | exact F | exact H].
    + eapply wq_step_df; [exact A | exact B | exact C | exact D | exact E | exact F | exact H].
    + eapply wq_step_do; [exact A | exact B | exact C | exact D | exact E | exact F | exact H].
    + eapply wq_step_wr; [exact A | exact B | exact C | exact D | exact E | exact F | exact H].
Qed.
