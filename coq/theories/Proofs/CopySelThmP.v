(* C16: the statements of the property, derived from the pointwise specification of the copier's
   selection side (CopySelP.copy_dir_top_spec) and C10's theorems about the filtered walk. *)
From Coq Require Import List NArith Lia Bool.
From FS Require Import Sx Model.Path Model.Stat Model.Tree Model.Pattern Model.FilterWalk Model.CopierSel
  Proofs.Lex Proofs.PathP Proofs.ValidatorP Proofs.PatternP Proofs.FilterP Proofs.PruneP Proofs.IncrNaiveP Proofs.RefP
  Proofs.FlatRefP Proofs.NaiveRefP Proofs.WitnessP Proofs.CopySelP.
Import ListNotations.
Open Scope bool_scope.

(* ---------- mode bits ---------- *)
Lemma perm_chmod src s : perm_of (st_mode (chmod_stat src s)) = perm_of (st_mode src).
Proof.
  unfold chmod_stat, perm_of. cbn [st_mode set_mode]. generalize perm_mask. intros m.
  apply N.bits_inj. intros n. rewrite !N.land_spec, N.lor_spec, N.ldiff_spec, N.land_spec.
  destruct (N.testbit (st_mode s) n), (N.testbit (st_mode src) n), (N.testbit m n); reflexivity.
Qed.

Lemma mask_no_dir_bit : N.testbit perm_mask 31 = false.
Proof. vm_compute. reflexivity. Qed.

Lemma modedir_pow : ModeDir = (2 ^ 31)%N.
Proof. vm_compute. reflexivity. Qed.

Lemma isdir_chmod src s : st_is_dir (chmod_stat src s) = st_is_dir s.
Proof.
  unfold st_is_dir, mode_is_dir, has_bits, chmod_stat, perm_of. cbn [st_mode set_mode]. do 2 f_equal.
  apply N.bits_inj. intros n. rewrite !N.land_spec, N.lor_spec, N.ldiff_spec, N.land_spec.
  rewrite modedir_pow, N.pow2_bits_eqb.
  destruct (N.eqb_spec 31 n) as [<-|Hn]; [|rewrite !andb_false_r; reflexivity].
  rewrite mask_no_dir_bit. destruct (N.testbit (st_mode s) 31), (N.testbit (st_mode src) 31); reflexivity.
Qed.

(* ---------- xattrs: setting the keys of a sorted list one by one on an empty list ---------- *)
Lemma cmp_bytes_trans a b c : cmp_bytes a b = Lt -> cmp_bytes b c = Lt -> cmp_bytes a c = Lt.
Proof. rewrite <- !cmpb_is_cmp_bytes. apply cmpb_trans. Qed.
Lemma cmp_bytes_gt a b : cmp_bytes a b = Lt -> cmp_bytes b a = Gt.
Proof. rewrite <- !cmpb_is_cmp_bytes. intros H. rewrite cmpb_opp, H. reflexivity. Qed.

Lemma xset_append k v acc : (forall kv, In kv acc -> cmp_bytes (fst kv) k = Lt) -> xset k v acc = acc ++ [(k, v)].
Proof.
  induction acc as [|[k' v'] r IH]; intros H; [reflexivity|]. cbn [xset app].
  rewrite (cmp_bytes_gt k' k (H (k', v') (or_introl eq_refl))). f_equal. apply IH. intros kv Hin. apply H. right; auto.
Qed.

Lemma keys_sorted_tail a r : keys_sorted (a :: r) = true -> keys_sorted r = true.
Proof. destruct r as [|b r]; [reflexivity|]. cbn [keys_sorted]. intros H. apply andb_true_iff in H. tauto. Qed.

Lemma keys_sorted_head a r : keys_sorted (a :: r) = true -> forall kv, In kv r -> cmp_bytes (fst a) (fst kv) = Lt.
Proof.
  revert a. induction r as [|b r IH]; intros a H kv Hin; [destruct Hin|].
  cbn [keys_sorted] in H. apply andb_true_iff in H. destruct H as [Hab Hr].
  assert (Hlt : cmp_bytes (fst a) (fst b) = Lt) by (destruct (cmp_bytes (fst a) (fst b)); congruence).
  destruct Hin as [<-|Hin]; [exact Hlt|]. eapply cmp_bytes_trans; [exact Hlt|]. apply IH; auto.
Qed.

Lemma xmerge_sorted l : forall acc, keys_sorted l = true ->
  (forall a kv, In a acc -> In kv l -> cmp_bytes (fst a) (fst kv) = Lt) -> xmerge l acc = acc ++ l.
Proof.
  induction l as [|[k v] r IH]; intros acc Hs H; [symmetry; apply app_nil_r|].
  unfold xmerge. cbn [fold_left fst snd]. fold (xmerge r (xset k v acc)).
  rewrite xset_append by (intros a Ha; apply (H a (k, v) Ha (or_introl eq_refl))).
  rewrite IH.
  - rewrite <- app_assoc. reflexivity.
  - eapply keys_sorted_tail; eauto.
  - intros a kv Ha Hk. apply in_app_or in Ha. destruct Ha as [Ha|[<-|[]]].
    + apply H; [auto|right; auto].
    + apply (keys_sorted_head (k, v) r Hs kv Hk).
Qed.

Lemma xmerge_sorted_nil l : keys_sorted l = true -> xmerge l [] = l.
Proof. intros H. rewrite xmerge_sorted; auto. intros a kv []. Qed.

(* ---------- well-formedness conversions ---------- *)
Lemma wf_tree_node_wf : forall n, wf_tree_node n = true -> wf_node n = true.
Proof.
  induction n as [name st ct kids IHk] using node_ind2. cbn [wf_tree_node wf_node]. intros H.
  repeat (apply andb_true_iff in H; destruct H as [H ?]).
  repeat (apply andb_true_iff; split); auto.
  rewrite forallb_forall in *. rewrite Forall_forall in IHk. auto.
Qed.

Lemma wf_tree_wf_view view : wf_tree view = true -> wf_view view = true.
Proof.
  unfold wf_tree, wf_view. intros H. apply andb_true_iff in H. destruct H as [_ H].
  rewrite forallb_forall in *. intros n Hn. apply wf_tree_node_wf; auto.
Qed.

(* an unselected item of the reference is a directory (it has a selected entry below it) *)
Lemma ref_items_unsel_dir V : forall n, wf_tree_node n = true -> forall dir it,
  In it (ref_items V dir n) -> l_sel it = false -> st_is_dir (l_st it) = true.
Proof.
  induction n as [name st ct kids IHk] using node_ind2. intros Hwf dir it Hin Hs.
  apply wf_tree_node_inv in Hwf. destruct Hwf as (_ & _ & Hdk & _ & Hkids).
  cbn [ref_items] in Hin. cbv zeta in Hin.
  destruct (V (child_path dir name)) eqn:EV; cbn [orb] in Hin.
  - destruct Hin as [<-|Hin]; [cbn in Hs; congruence|].
    apply in_flat_map in Hin. destruct Hin as (k & Hk & Hi). rewrite Forall_forall in IHk. rewrite forallb_forall in Hkids.
    eapply IHk; eauto.
  - destruct (existsb (has_sel V (child_path dir name)) kids) eqn:Ek; [|destruct Hin].
    destruct Hin as [<-|Hin].
    + cbn [l_st]. destruct Hdk as [X|X]; [exact X|]. subst kids. discriminate.
    + apply in_flat_map in Hin. destruct Hin as (k & Hk & Hi). rewrite Forall_forall in IHk. rewrite forallb_forall in Hkids.
      eapply IHk; eauto.
Qed.

Lemma flat_items_unsel_dir V view it : wf_tree view = true ->
  In it (flat_items V view) -> l_sel it = false -> st_is_dir (l_st it) = true.
Proof.
  intros Hwf Hin Hs. rewrite <- (ref_items_flat V view Hwf) in Hin.
  apply in_flat_map in Hin. destruct Hin as (k & Hk & Hi).
  unfold wf_tree in Hwf. apply andb_true_iff in Hwf. destruct Hwf as [_ Hw]. rewrite forallb_forall in Hw.
  eapply ref_items_unsel_dir; eauto.
Qed.

(* ---------- the theorems ---------- *)
Section Thms.
Variable pmatch : bytes -> bytes -> bool.
Variable c : cfg.
Notation V := (keep_incr pmatch c).

Theorem copy_selects_proof rootst view fs0 fs' log :
  wf_tree view = true ->
  copy_sel pmatch c false (SrcDir rootst view) fs0 = (fs', log, None) ->
  log = flat_items V view
  /\ map l_st log = flat_reference V view
  /\ (forall q, q <> [] -> fs' q = spec_ent log fs0 q)
  /\ (forall q, q <> [] -> (fs' q <> None <-> (fs0 q <> None \/ In q (map l_path log)))).
Proof.
  intros Hwf H. cbn [copy_sel] in H. destruct (copy_dir_top_spec pmatch c rootst view fs0 fs' log Hwf H) as [-> Q].
  split; [reflexivity|]. split; [apply flat_items_stats|]. split; [exact Q|].
  intros q Hq. rewrite (Q q Hq). unfold spec_ent. apply sfold_some.
Qed.

Theorem no_extra_dirs_proof rootst view fs0 fs' log :
  wf_tree view = true ->
  copy_sel pmatch c false (SrcDir rootst view) fs0 = (fs', log, None) ->
  forall e, In e (walk_root view) ->
    V (st_path (fst e)) = false ->
    (forall e', In e' (walk_root view) ->
       has_prefix (st_path (fst e) ++ [sep]) (st_path (fst e')) = true -> V (st_path (fst e')) = false) ->
    fs0 (st_path (fst e)) = None -> fs' (st_path (fst e)) = None.
Proof.
  intros Hwf H e He HV Hbelow H0.
  destruct (copy_selects_proof rootst view fs0 fs' log Hwf H) as (-> & _ & Q & _).
  rewrite (Q _ (walk_root_nonempty view e Hwf He)). unfold spec_ent. rewrite sfold_notin; [exact H0|].
  rewrite flat_items_paths. intros Hin. apply in_map_iff in Hin. destruct Hin as (e2 & E & He2).
  apply filter_In in He2. destruct He2 as [He2 Hsoa].
  assert (e2 = e).
  { eapply (NoDup_map_inj (fun x : Tree.entry => st_path (fst x))); eauto. apply walk_root_nodup; auto. }
  subst e2. unfold selected_or_above in Hsoa. rewrite HV in Hsoa. cbn [orb] in Hsoa.
  apply existsb_exists in Hsoa. destruct Hsoa as (e' & He' & X). apply andb_true_iff in X. destruct X as [X1 X2].
  rewrite (Hbelow e' He' X1) in X2. discriminate.
Qed.

Theorem lazy_parent_metadata_proof rootst view fs0 fs' log :
  wf_tree view = true ->
  copy_sel pmatch c false (SrcDir rootst view) fs0 = (fs', log, None) ->
  forall it, In it log -> l_sel it = false ->
    In (l_st it, l_ct it) (walk_root view) /\ st_is_dir (l_st it) = true /\
    match fs0 (l_path it) with
    | None => exists e, fs' (l_path it) = Some e /\ st_is_dir (fst e) = true
              /\ perm_of (st_mode (fst e)) = perm_of (st_mode (l_st it))
              /\ st_uid (fst e) = st_uid (l_st it) /\ st_gid (fst e) = st_gid (l_st it)
              /\ (keys_sorted (st_xattrs (l_st it)) = true -> st_xattrs (fst e) = st_xattrs (l_st it))
    | Some old => fs' (l_path it) = Some (chmod_stat (l_st it) (fst old), snd old)
    end.
Proof.
  intros Hwf H it Hin Hs.
  destruct (copy_selects_proof rootst view fs0 fs' log Hwf H) as (-> & _ & Q & _).
  destruct (flat_items_in V view it Hin) as (Hw & _ & _).
  pose proof (flat_items_unsel_dir V view it Hwf Hin Hs) as Hd.
  split; [exact Hw|]. split; [exact Hd|].
  assert (Hne : l_path it <> []) by (apply (walk_root_nonempty view _ Hwf Hw)).
  rewrite (Q _ Hne). unfold spec_ent. rewrite (sfold_unique _ (flat_items_nodup V view Hwf) it _ Hin).
  unfold result. rewrite Hd, Hs. cbn [orb].
  destruct (fs0 (l_path it)) as [old|]; [reflexivity|].
  eexists. split; [reflexivity|].
  unfold xattr_entry, info_entry, dir_only, blank_dir. cbn [fst snd st_xattrs st_mode st_uid st_gid set_xattrs].
  split; [|split; [|split; [|split]]].
  - change (st_is_dir (chmod_stat (l_st it) (chown_stat (l_st it) (fst (blank_dir (st_path (l_st it)))))) = true).
    rewrite isdir_chmod. reflexivity.
  - apply (perm_chmod (l_st it)).
  - reflexivity.
  - reflexivity.
  - intros Hk. apply xmerge_sorted_nil. exact Hk.
Qed.

(* C10: the un-pruned filtered walk reports the flat reference over the incremental verdict *)
Theorem copy_eq_filter_walk_unpruned_proof rootst view fs0 fs' log :
  wf_tree view = true ->
  copy_sel pmatch c false (SrcDir rootst view) fs0 = (fs', log, None) ->
  map l_st log = filter_walk pmatch id_map (no_prune c) view.
Proof.
  intros Hwf H. destruct (copy_selects_proof rootst view fs0 fs' log Hwf H) as (_ & E & _).
  rewrite E. rewrite filter_walk_reference_proof by (apply wf_tree_wf_view; auto).
  symmetry. apply reference_nomap_flat_proof. exact Hwf.
Qed.

Theorem copy_eq_filter_walk_proof rootst view fs0 fs' log :
  prefix_semantics pmatch -> cfg_star_safe c = true -> wf_tree view = true ->
  copy_sel pmatch c false (SrcDir rootst view) fs0 = (fs', log, None) ->
  map l_st log = filter_walk pmatch id_map c view.
Proof.
  intros Hsem Hsafe Hwf H.
  rewrite (prune_unobservable_proof pmatch id_map Hsem c Hsafe view (wf_tree_wf_view view Hwf)).
  eapply copy_eq_filter_walk_unpruned_proof; eauto.
Qed.

(* two verdicts that agree on every path of the view give the same items *)
Lemma all_paths_in Q : forall n dir, all_paths_node Q dir n = true ->
  forall e, In e (walk_node dir n) -> Q (st_path (fst e)) = true.
Proof.
  induction n as [name st ct kids IHk] using node_ind2. intros dir H e Hin.
  cbn [all_paths_node] in H. apply andb_true_iff in H. destruct H as [HQ Hk].
  rewrite walk_node_eq in Hin. destruct Hin as [<-|Hin]; [exact HQ|].
  apply walk_forest_in_inv in Hin. destruct Hin as (k & Hkin & He).
  rewrite Forall_forall in IHk. rewrite forallb_forall in Hk. eapply IHk; eauto.
Qed.

Lemma existsb_ext_in {A} (f g : A -> bool) l : (forall x, In x l -> f x = g x) -> existsb f l = existsb g l.
Proof.
  induction l as [|x l IH]; intros H; [reflexivity|]. cbn [existsb].
  rewrite (H x (or_introl eq_refl)). f_equal. apply IH. intros y Hy. apply H. right; auto.
Qed.

Lemma flat_items_ext V1 V2 view :
  (forall e, In e (walk_root view) -> V1 (st_path (fst e)) = V2 (st_path (fst e))) ->
  flat_items V1 view = flat_items V2 view.
Proof.
  intros H. unfold flat_items.
  assert (Hf : forall e, In e (walk_root view) ->
            selected_or_above V1 (walk_root view) e = selected_or_above V2 (walk_root view) e).
  { intros e He. unfold selected_or_above. rewrite (H e He). f_equal.
    apply existsb_ext_in. intros x Hx. rewrite (H x Hx). reflexivity. }
  rewrite (filter_ext_in _ _ _ Hf). apply map_ext_in. intros e He. apply filter_In in He. destruct He as [He _].
  rewrite (H e He). reflexivity.
Qed.

Theorem copy_eq_naive_proof rootst view fs0 fs' log :
  wf_tree view = true -> wf_strict view = true -> all_paths (nls_path pmatch c) view = true ->
  copy_sel pmatch c false (SrcDir rootst view) fs0 = (fs', log, None) ->
  log = flat_items (keep_naive pmatch c) view.
Proof.
  intros Hwf Hst Hn H. destruct (copy_selects_proof rootst view fs0 fs' log Hwf H) as (-> & _).
  apply flat_items_ext. intros e He.
  pose proof (all_paths_keep_view pmatch c view Hst Hn) as HQ.
  unfold all_paths in HQ. rewrite forallb_forall in HQ.
  unfold walk_root in He. apply walk_forest_in_inv in He. destruct He as (k & Hk & He).
  apply eqb_prop. apply (all_paths_in _ k [] (HQ k Hk) e He).
Qed.
End Thms.

(* a non-directory as the source: the patterns are never consulted *)
Lemma single_file_proof pmatch c pmatch' c' repl st ct fs :
  copy_sel pmatch c repl (SrcFile st ct) fs = copy_sel pmatch' c' repl (SrcFile st ct) fs.
Proof. reflexivity. Qed.
