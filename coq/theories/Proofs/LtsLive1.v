(* Liveness half of fault_free_completes: small bookkeeping invariants (end marker, FIN in
   both directions, request loop after FIN, fill's close) — all hold in every reachable state. *)
From Coq Require Import List Arith Bool PeanoNat Lia.
From FS Require Import Model.Lts Proofs.LtsInv Proofs.LtsSafe.
Import ListNotations.

Definition linv (st : state) : Prop :=
  (* N1 *) (g_end_sr st = true -> has_end (buf_sr st) = true \/ g_got_end_r st = true \/ g_got_fin_r st = true) /\
  (* N2 *) (g_got_end_r st = true -> rl_pc st = RL_UpdEnd \/ walk_closed st = true \/ r_err st = true) /\
  (* N3 *) (do_pc st = DO_Done -> g_fin_rs st = true \/ r_err st = true \/ r_broken st = true) /\
  (* N4 *) (g_fin_rs st = true -> has_fin (buf_rs st) = true \/ g_got_fin_s st = true) /\
  (* N7 *) (match rq_pc st with RQ_LockFin | RQ_SendFin => g_fin_sr st = false | _ => True end) /\
  (* N8 *) (g_got_fin_s st = true -> match rq_pc st with RQ_Top | RQ_Recv | RQ_Push _ => False | _ => True end) /\
  (* N9 *) (match fl_pc st with FL_Ret _ | FL_Done => c2_closed st = true | _ => True end).

Lemma linv_step : forall p st l st', inv1 st -> linv st -> step p st l = Some st' -> linv st'.
Proof.
  intros p st l st' J1 (N1 & N2 & N3 & N4 & N7 & N8 & N9) H. unfold linv.
  destruct J1 as (_ & _ & _ & J4 & _ & _ & _ & _ & J9 & _).
  destruct l; unfold_steps H; step_split H; inv_some; subst;
  repeat match goal with w : writer |- _ => destruct w; cbn in * end; subst; cbn;
  repeat match goal with E : ?f ?s = ?v |- _ => match type of s with state => rewrite E in * end end; cbn in *;
  unfold has_fin in *; rewrite ?has_end_app, ?has_end_cons, ?existsb_app in *; cbn in *;
  rewrite ?orb_false_r, ?orb_true_r in *.
  all: try (intuition (try discriminate; try congruence; auto); fail).
  all: try (repeat split; intros; auto; try discriminate; try tauto; try (intuition congruence); fail).
  repeat split; auto. destruct (g_fin_sr st) eqn:G; auto. exfalso. apply N8. apply J4. reflexivity.
Qed.

Lemma linv_init : forall p, linv (init p).
Proof. intro p. unfold linv; cbn. repeat split; intros; try discriminate; auto. Qed.

Lemma linv_reachable : forall p st, reachable p st -> linv st.
Proof.
  induction 1. apply linv_init. eapply linv_step; eauto. apply (inv_reachable _ _ H).
Qed.
