(* C04 rerun_converges (partial): a fault-free transfer into whatever an earlier run left
   behind.  Composition of
     - the LTS theorems of C04/C08 (Proofs/LtsLive3, LtsClean5, LtsC08, LtsTok, LtsContent3)
       for the instance [rerun_params] of Model/LtsRerun.v,
     - C02 reqs_exact (Proofs/ReceiveP.v) and C01 converges_from_any_prior (Proofs/C01TopP.v)
       for the same pair of listings. *)
From Coq Require Import List NArith Arith Bool PeanoNat Lia Permutation.
From FS Require Import Sx Model.Path Model.Stat Model.Diff Model.AbsDest Model.Converge Model.ConvergeA
  Proofs.Lex Proofs.ReceiveP Proofs.ConvergeP Proofs.C01TopP.
From FS Require Import Model.Lts Model.LtsExplore Model.LtsRerun
  Proofs.LtsInv Proofs.LtsSafe Proofs.LtsTerm Proofs.LtsC08 Proofs.LtsTok
  Proofs.LtsContent3 Proofs.LtsClean1 Proofs.LtsClean3 Proofs.LtsClean5 Proofs.LtsLive2 Proofs.LtsLive3.
Import ListNotations.
Local Open Scope nat_scope.

Section Rerun.
Variable d : differ.
Variable LA : list stat.
Variable chunks : bytes -> nat.

Definition needs_b (b : stat) : bool := wants_content b && negb (unchanged_b d LA b).

Lemma rerun_kind_need : forall b, rerun_kind d LA b = ENeed <-> needs_b b = true.
Proof.
  intro b. unfold rerun_kind, needs_b.
  destruct (unchanged_b d LA b), (wants_content b); cbn; split; intro K; try reflexivity; discriminate K.
Qed.

(* the ids whose content the LTS instance needs, read as paths, are the request set of the
   destination-level model, in the same order *)
Lemma need_ids_paths : forall (suf pre : list AbsDest.entry),
  map (path_of_id (pre ++ suf)) (need_ids_from (length pre) (map (rerun_entry d LA chunks) suf))
  = map st_path (filter needs_b (map fst suf)).
Proof.
  induction suf as [|e suf IH]; intro pre; [reflexivity|].
  assert (T: map (path_of_id (pre ++ e :: suf)) (need_ids_from (S (length pre)) (map (rerun_entry d LA chunks) suf))
             = map st_path (filter needs_b (map fst suf))).
  { specialize (IH (pre ++ [e])). rewrite <- app_assoc in IH. cbn [app] in IH.
    rewrite app_length in IH. cbn [length] in IH. rewrite Nat.add_1_r in IH. exact IH. }
  assert (Hd: path_of_id (pre ++ e :: suf) (length pre) = st_path (fst e)).
  { unfold path_of_id. rewrite nth_error_app2 by apply Nat.le_refl. rewrite Nat.sub_diag. reflexivity. }
  cbn [map need_ids_from filter]. cbn [rerun_entry e_kind].
  destruct (rerun_kind d LA (fst e)) eqn:K.
  - assert (N: needs_b (fst e) = false).
    { destruct (needs_b (fst e)) eqn:Q; auto. apply rerun_kind_need in Q. congruence. }
    rewrite N. exact T.
  - assert (N: needs_b (fst e) = false).
    { destruct (needs_b (fst e)) eqn:Q; auto. apply rerun_kind_need in Q. congruence. }
    rewrite N. exact T.
  - apply rerun_kind_need in K. rewrite K. cbn [map]. rewrite Hd, T. reflexivity.
Qed.
End Rerun.

Lemma need_ids_rerun : forall W P C C2 capSR capRS d chunks A B,
  map (path_of_id B) (need_ids (rerun_params W P C C2 capSR capRS d chunks A B))
  = reqs_spec d (map fst A) (map fst B).
Proof.
  intros. unfold need_ids, rerun_params, reqs_spec. cbn [p_entries].
  exact (need_ids_paths d (map fst A) chunks B []).
Qed.

Lemma rerun_entry_at : forall W P C C2 capSR capRS d chunks A B i,
  entry_at (rerun_params W P C C2 capSR capRS d chunks A B) i
  = option_map (rerun_entry d (map fst A) chunks) (nth_error B i).
Proof.
  intros. unfold entry_at, rerun_params. cbn [p_entries].
  apply nth_error_map.
Qed.

Lemma rerun_wf_params : forall W P C C2 capSR capRS d chunks A B,
  sender_serves B -> wf_params (rerun_params W P C C2 capSR capRS d chunks A B).
Proof.
  intros W P C C2 capSR capRS d chunks A B HS i. unfold kind_of, is_file.
  rewrite rerun_entry_at. destruct (nth_error B i) as [[sb bb]|] eqn:E; cbn [option_map]; [|discriminate].
  cbn [rerun_entry e_kind e_file fst]. intro K.
  apply rerun_kind_need in K. unfold needs_b in K. apply andb_prop in K. destruct K as [K _].
  exact (HS sb bb (nth_error_In _ _ E) K).
Qed.

Lemma rerun_expected_chunks : forall W P C C2 capSR capRS d chunks A B id sb bb,
  nth_error B id = Some (sb, bb) ->
  expected_chunks (rerun_params W P C C2 capSR capRS d chunks A B) id
  = if wants_content sb && negb (unchanged_b d (map fst A) sb) then chunks bb else 0.
Proof.
  intros W P C C2 capSR capRS d chunks A B id sb bb E.
  unfold expected_chunks, kind_of, chunks_of. rewrite rerun_entry_at. unfold AbsDest.entry in *. rewrite E. cbn [option_map].
  cbn [rerun_entry e_kind e_chunks fst snd].
  destruct (rerun_kind d (map fst A) sb) eqn:K.
  - destruct (wants_content sb && negb (unchanged_b d (map fst A) sb)) eqn:Q; auto.
    apply (rerun_kind_need d (map fst A)) in Q. congruence.
  - destruct (wants_content sb && negb (unchanged_b d (map fst A) sb)) eqn:Q; auto.
    apply (rerun_kind_need d (map fst A)) in Q. congruence.
  - apply rerun_kind_need in K. unfold needs_b in K. rewrite K. reflexivity.
Qed.

(* executable forms of the hypotheses, for the satisfiability example *)
Lemma sender_serves_b_sound : forall B, sender_serves_b B = true -> sender_serves B.
Proof.
  intros B K sb bb I W. unfold sender_serves_b in K. rewrite forallb_forall in K.
  specialize (K _ I). cbn [fst] in K. rewrite W in K. exact K.
Qed.

Lemma leftovers_distinguishable_b_sound : forall A B,
  leftovers_distinguishable_b A B = true -> leftovers_distinguishable A B.
Proof.
  intros A B K sa ba sb bb IA IB EP R. unfold leftovers_distinguishable_b in K.
  rewrite forallb_forall in K. specialize (K _ IA). rewrite forallb_forall in K. specialize (K _ IB).
  cbn [fst snd] in K. rewrite EP, R in K.
  assert (Q: bytes_eqb (st_path sb) (st_path sb) = true) by (apply Lex.bytes_eqb_eq; reflexivity).
  rewrite Q in K. cbn [negb orb] in K.
  destruct (bytes_eqb ba bb) eqn:E1; [left; apply Lex.bytes_eqb_eq; exact E1|].
  right. cbn [orb] in K.
  destruct (N.eqb (st_size sa) (st_size sb)) eqn:E2; [|left; apply N.eqb_neq; exact E2].
  right. cbn [negb orb] in K.
  destruct (N.eqb (st_mtime sa) (st_mtime sb)) eqn:E3; [|left; apply N.eqb_neq; exact E3].
  right. cbn [negb orb] in K. apply N.eqb_neq. destruct (N.eqb (st_mode sa) (st_mode sb)); [discriminate K|reflexivity].
Qed.

Lemma rerun_converges_partial_proof :
  forall (H : bytes -> bytes) (hdr : stat -> bytes) (d : differ) (chunks : bytes -> nat)
         (W P C C2 capSR capRS : nat) (D' B : list AbsDest.entry),
  W >= 1 -> wf_entries D' -> wf_entries B -> sender_serves B -> leftovers_distinguishable D' B ->
  let p := rerun_params W P C C2 capSR capRS d chunks D' B in
  let r := receive_abs H hdr Fresh d D' B in
  (forall ls st, fault_free ls -> run p (init p) ls = Some st ->
     length ls <= nu p (init p) /\
     (final st = false -> exists l, fault_free_label l = true /\ step p st l <> None) /\
     (final st = true ->
        send_ret st = Some true /\ recv_ret st = Some true /\
        Permutation (map (path_of_id B) (reqs st)) (ds_reqs r) /\
        Permutation (map (path_of_id B) (completed st)) (ds_reqs r) /\
        (forall id sb bb, nth_error B id = Some (sb, bb) ->
           count_occ Nat.eq_dec (written st) id
           = if wants_content sb && negb (unchanged_b d (map fst D') sb) then chunks bb else 0))) /\
  ds_err r = false /\ approx D' B (view_of (ds_map r)).
Proof.
  intros H hdr d chunks W P C C2 capSR capRS D' B HW HwA HwB HS HL p r.
  assert (WF: wf_params p) by (apply rerun_wf_params; exact HS).
  assert (RQ: ds_reqs r = map (path_of_id B) (need_ids p)).
  { unfold r, p. rewrite need_ids_rerun.
    destruct HwA as [HwA HlA]. destruct HwB as [HwB HlB].
    exact (reqs_exact_proof H hdr d D' B HwA HwB (links_canon_ok _ HlB) (faithful_from_stamps d D' B HL)). }
  split; [|exact (converges_from_any_prior_top H hdr d D' B HwA HwB HL)].
  intros ls st F Run.
  destruct (fault_free_completes_proof p ls st WF HW F Run) as (Hlen & Hprog & Hfin).
  split; [exact Hlen|]. split; [exact Hprog|].
  intro Fin. destruct (Hfin Fin) as [HSr HRr].
  assert (R: reachable p st) by (eapply run_reachable; [apply reach_init | exact Run]).
  split; [exact HSr|]. split; [exact HRr|].
  split; [|split].
  - rewrite RQ. apply Permutation_map. exact (success_requests_permutation_proof p st R HRr).
  - rewrite RQ. apply Permutation_map. apply NoDup_Permutation.
    + exact (completed_nodup_proof p st R).
    + apply need_ids_from_nodup.
    + intro id. destruct (success_outcome_proof _ _ R HRr id) as [K _].
      rewrite <- K. symmetry. apply memb_true_iff.
  - intros id sb bb E.
    assert (OE: g_open_err st = false).
    { rewrite (open_err_run _ _ _ _ Run (fault_free_not_open ls F)). reflexivity. }
    rewrite (success_written_count_occ_proof p st R HRr OE id).
    exact (rerun_expected_chunks W P C C2 capSR capRS d chunks D' B id sb bb E).
Qed.
