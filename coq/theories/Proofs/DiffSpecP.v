(* The executable specification used as oracle by the glue (Diff.diff_spec_b, evaluated on
   the IMPLEMENTATION's change list) is exactly the predicate of the theorem
   diff_changes_exact + "no path twice":
     diff_spec_b flt d A B out = true  <->  (forall c, In c out <-> spec_change flt d A B c)
                                            /\ NoDup (map ch_path out)
   for sorted listings A and B. *)
From Coq Require Import List NArith Lia Bool Sorting.Sorted.
From FS Require Import Sx Model.Path Model.Stat Model.Diff Proofs.Lex Proofs.PathP Proofs.DiffP.
Import ListNotations.
Open Scope N_scope.
Open Scope bool_scope.

Lemma xattrs_eqb_eq a b : xattrs_eqb a b = true <-> a = b.
Proof.
  revert b; induction a as [|[k v] a IH]; intros [|[k' v'] b]; simpl; split; intros H; try discriminate; auto.
  - rewrite !andb_true_iff in H. destruct H as [[H1 H2] H3].
    apply bytes_eqb_eq in H1, H2. apply IH in H3. congruence.
  - inversion H; subst. rewrite !bytes_eqb_refl. simpl. apply IH. reflexivity.
Qed.

Lemma stat_eqb_eq a b : stat_eqb a b = true <-> a = b.
Proof.
  split.
  - unfold stat_eqb. rewrite !andb_true_iff.
    intros [[[[[[[[[H1 H2] H3] H4] H5] H6] H7] H8] H9] H10].
    apply bytes_eqb_eq in H1, H7. apply N.eqb_eq in H2, H3, H4, H5, H6, H8, H9. apply xattrs_eqb_eq in H10.
    destruct a, b; simpl in *; congruence.
  - intros ->. unfold stat_eqb. rewrite !bytes_eqb_refl, !N.eqb_refl. simpl.
    apply xattrs_eqb_eq. reflexivity.
Qed.

Lemma opt_stat_eqb_eq a b : opt_stat_eqb a b = true <-> a = b.
Proof.
  destruct a, b; simpl; split; intros H; try discriminate; auto.
  - apply stat_eqb_eq in H. congruence.
  - inversion H. apply stat_eqb_eq. reflexivity.
Qed.

Lemma ckind_eqb_eq a b : ckind_eqb a b = true <-> a = b.
Proof. destruct a, b; simpl; split; intros H; try discriminate; auto. Qed.

Lemma lookup_iff L p s : sorted L -> (lookup p L = Some s <-> In s L /\ st_path s = p).
Proof.
  intros HS. split; [apply lookup_some|]. intros [Hin <-]. apply lookup_in_sorted; auto.
Qed.

Fixpoint nodup_paths_b_iff (ps : list bytes) : nodup_paths_b ps = true <-> NoDup ps.
Proof.
  destruct ps as [|p r]; simpl.
  - split; [constructor|reflexivity].
  - rewrite andb_true_iff, negb_true_iff, nodup_paths_b_iff. split.
    + intros [H1 H2]. constructor; auto. intros Hin.
      assert (existsb (bytes_eqb p) r = true) by (apply existsb_exists; exists p; split; auto; apply bytes_eqb_refl).
      congruence.
    + intros H. inversion H; subst. split; auto.
      destruct (existsb (bytes_eqb p) r) eqn:E; auto. apply existsb_exists in E.
      destruct E as (q & Hq & Eq). apply bytes_eqb_eq in Eq. subst. contradiction.
Qed.

Section Refl.
Variable flt : stat -> stat.
Variable d : differ.
Variables A B : list stat.
Hypothesis HsA : sorted A.
Hypothesis HsB : sorted B.

Lemma removed_root_b_iff a : In a A -> (removed_root_b flt B a = true <-> removed_root flt A B a).
Proof.
  intros Ha. unfold removed_root_b, removed_root. rewrite andb_true_iff. split.
  - intros [Hd Hl]. split; auto. split; auto.
    destruct (lookup (st_path a) B) as [b|] eqn:E.
    + right. apply lookup_some in E. destruct E. exists b. apply negb_true_iff in Hl. auto.
    + left. unfold notin; apply lookup_none; auto.
  - intros (_ & Hd & [Hn|(b & Hb & Eb & Hdb)]); split; auto.
    + rewrite (proj2 (lookup_none_iff _ _) Hn). reflexivity.
    + rewrite <- Eb, (lookup_in_sorted B b HsB Hb), Hdb. reflexivity.
Qed.

Lemma hidden_b_iff p : hidden_b flt A B p = true <-> hidden flt A B p.
Proof.
  unfold hidden_b, hidden, hidden_by. rewrite existsb_exists. split.
  - intros (a & Ha & Hc). apply andb_true_iff in Hc. destruct Hc as [H1 H2].
    exists a. split; auto. split; auto. apply removed_root_b_iff; auto.
  - intros (a & Ha & Hr & Hab). exists a. split; auto. apply andb_true_iff. split; auto.
    apply removed_root_b_iff; auto.
Qed.

Lemma spec_change_b_iff c : spec_change_b flt d A B c = true <-> spec_change flt d A B c.
Proof.
  destruct c as [[k p] st]. unfold spec_change_b. cbn [ch_kind ch_path ch_stat fst snd].
  destruct k.
  - (* add *)
    destruct (lookup p A) as [a|] eqn:EA.
    + split; [discriminate|]. apply lookup_some in EA. destruct EA as [Ha Ea].
      destruct st as [b|]; simpl; [|tauto]. intros (_ & _ & Hn). exfalso. eapply Hn; eauto.
    + destruct (lookup p B) as [b|] eqn:EB.
      * rewrite opt_stat_eqb_eq. apply lookup_some in EB. destruct EB as [Hb Eb]. split.
        -- intros ->. simpl. split; auto. split; auto. unfold notin; apply lookup_none; auto.
        -- destruct st as [b'|]; simpl; [|tauto]. intros (Hb' & Eb' & _).
           f_equal. apply (sorted_unique B); auto. congruence.
      * split; [discriminate|]. destruct st as [b'|]; simpl; [|tauto]. intros (Hb' & Eb' & _).
        exfalso. eapply lookup_none; eauto.
  - (* modify *)
    destruct (lookup p A) as [a|] eqn:EA.
    + apply lookup_some in EA. destruct EA as [Ha Ea].
      destruct (lookup p B) as [b|] eqn:EB.
      * apply lookup_some in EB. destruct EB as [Hb Eb].
        rewrite andb_true_iff, opt_stat_eqb_eq, negb_true_iff. split.
        -- intros [-> Hs]. simpl. split; auto. split; auto. exists a. auto.
        -- destruct st as [b'|]; simpl; [|tauto]. intros (Hb' & Eb' & a' & Ha' & Ea' & Hs).
           assert (b' = b) by (apply (sorted_unique B); auto; congruence).
           assert (a' = a) by (apply (sorted_unique A); auto; congruence). subst. auto.
      * split; [discriminate|]. destruct st as [b'|]; simpl; [|tauto]. intros (Hb' & Eb' & _).
        exfalso. eapply lookup_none; eauto.
    + split; [discriminate|]. destruct st as [b'|]; simpl; [|tauto]. intros (_ & _ & a' & Ha' & Ea' & _).
      exfalso. eapply lookup_none; eauto.
  - (* delete *)
    destruct (lookup p A) as [a|] eqn:EA.
    + apply lookup_some in EA. destruct EA as [Ha Ea].
      destruct (lookup p B) as [b|] eqn:EB.
      * split; [discriminate|]. apply lookup_some in EB. destruct EB as [Hb Eb].
        destruct st; simpl; [tauto|]. intros (_ & Hn & _). exfalso. eapply Hn; eauto.
      * rewrite andb_true_iff, opt_stat_eqb_eq, negb_true_iff. split.
        -- intros [-> Hh]. simpl. split; [eauto|]. split; [unfold notin; apply lookup_none; auto|].
           intros Hc. apply hidden_b_iff in Hc. congruence.
        -- destruct st; simpl; [tauto|]. intros (_ & _ & Hh). split; auto.
           destruct (hidden_b flt A B p) eqn:E; auto. apply hidden_b_iff in E. contradiction.
    + split; [discriminate|]. destruct st; simpl; [tauto|]. intros ((a & Ha & Ea) & _).
      exfalso. eapply lookup_none; eauto.
Qed.

Lemma reported_iff out k p :
  reported out k p = true <-> exists c, In c out /\ ch_kind c = k /\ ch_path c = p.
Proof.
  unfold reported. rewrite existsb_exists. split; intros (c & Hc & H); exists c; split; auto.
  - apply andb_true_iff in H. destruct H as [H1 H2]. apply ckind_eqb_eq in H1. apply bytes_eqb_eq in H2. auto.
  - destruct H as [-> ->]. apply andb_true_iff. split; [apply ckind_eqb_eq|apply bytes_eqb_eq]; reflexivity.
Qed.

(* among changes satisfying the specification, kind and path determine the change *)
Lemma spec_change_functional c1 c2 :
  spec_change flt d A B c1 -> spec_change flt d A B c2 ->
  ch_kind c1 = ch_kind c2 -> ch_path c1 = ch_path c2 -> c1 = c2.
Proof.
  destruct c1 as [[k1 p1] s1], c2 as [[k2 p2] s2]. cbn [ch_kind ch_path fst snd]. intros H1 H2 -> ->.
  destruct k2; destruct s1 as [b1|], s2 as [b2|]; simpl in H1, H2; try tauto.
  - destruct H1 as (Hb1 & E1 & _), H2 as (Hb2 & E2 & _).
    assert (b1 = b2) by (apply (sorted_unique B); auto; congruence). subst. reflexivity.
  - destruct H1 as (Hb1 & E1 & _), H2 as (Hb2 & E2 & _).
    assert (b1 = b2) by (apply (sorted_unique B); auto; congruence). subst. reflexivity.
Qed.

Theorem diff_spec_b_iff out :
  diff_spec_b flt d A B out = true <->
  (forall c, In c out <-> spec_change flt d A B c) /\ NoDup (map ch_path out).
Proof.
  unfold diff_spec_b. rewrite !andb_true_iff, nodup_paths_b_iff, forallb_forall.
  split.
  - intros [[Hsound Hcomp] Hnd]. split; auto.
    assert (Hs : forall c, In c out -> spec_change flt d A B c).
    { intros c Hc. apply spec_change_b_iff. auto. }
    intros c. split; auto. intros Hc.
    (* completeness: some change of that kind and path is reported, and it is this one *)
    assert (Hrep : reported out (ch_kind c) (ch_path c) = true).
    { unfold complete_b in Hcomp. apply andb_true_iff in Hcomp. destruct Hcomp as [HB HA].
      rewrite forallb_forall in HB, HA.
      destruct c as [[k p] st]. cbn [ch_kind ch_path fst snd].
      destruct k; destruct st as [b|]; simpl in Hc; try tauto.
      - destruct Hc as (Hb & Eb & Hn). specialize (HB b Hb). rewrite Eb in HB.
        rewrite (proj2 (lookup_none_iff _ _) Hn) in HB. exact HB.
      - destruct Hc as (Hb & Eb & a & Ha & Ea & Hsf). specialize (HB b Hb). rewrite Eb in HB.
        rewrite <- Ea, (lookup_in_sorted A a HsA Ha), Hsf in HB. simpl in HB. rewrite Ea in HB. exact HB.
      - destruct Hc as ((a & Ha & Ea) & Hn & Hh). specialize (HA a Ha). rewrite Ea in HA.
        rewrite (proj2 (lookup_none_iff _ _) Hn) in HA.
        destruct (hidden_b flt A B p) eqn:E; [apply hidden_b_iff in E; contradiction|]. exact HA. }
    apply reported_iff in Hrep. destruct Hrep as (c' & Hc' & Ek & Ep).
    assert (c' = c) by (apply spec_change_functional; auto). subst. exact Hc'.
  - intros [Hex Hnd]. split; auto. split.
    + intros c Hc. apply spec_change_b_iff. apply Hex. exact Hc.
    + unfold complete_b. apply andb_true_iff. split; apply forallb_forall.
      * intros b Hb. destruct (lookup (st_path b) A) as [a|] eqn:EA.
        -- destruct (same_file d a (flt b)) eqn:Es; auto. simpl. apply reported_iff.
           exists (KModify, st_path b, Some b). split; [|auto]. apply Hex. simpl.
           apply lookup_some in EA. destruct EA as [Ha Ea]. split; auto. split; auto. exists a. auto.
        -- apply reported_iff. exists (KAdd, st_path b, Some b). split; [|auto]. apply Hex. simpl.
           split; auto. split; auto. unfold notin; apply lookup_none; auto.
      * intros a Ha. destruct (lookup (st_path a) B) as [b|] eqn:EB; auto.
        destruct (hidden_b flt A B (st_path a)) eqn:Eh; auto. simpl. apply reported_iff.
        exists (KDelete, st_path a, None). split; [|auto]. apply Hex. simpl.
        split; [eauto|]. split; [unfold notin; apply lookup_none; auto|].
        intros Hc. apply hidden_b_iff in Hc. congruence.
Qed.

End Refl.

(* the oracle accepts the model's own output on well-formed input (sanity of the pair
   model / oracle: a disagreement in the run can then only come from the implementation) *)
Corollary diff_spec_b_accepts_diff flt d A B :
  sorted A -> sorted B -> closed B -> (forall s, st_is_dir (flt s) = st_is_dir s) ->
  diff_spec_b flt d A B (diff flt d A B) = true.
Proof.
  intros HsA HsB HcB Hf. apply diff_spec_b_iff; auto. split.
  - intros c. apply diff_changes_exact_proof; auto.
  - apply diff_nodup_proof; auto.
Qed.
