(* C03 — the lstat walk [tree_below] lists real paths: every entry is reached from the start
   directory through directories only, under the path string it is listed with. *)
From Coq Require Import List Arith NArith Bool Lia ZifyN ZifyNat ZifyBool.
From FS Require Import Sx Model.Path Model.Fs Proofs.Lex Proofs.PathP Proofs.FsP Proofs.FsReachP Proofs.FsSysP.
Import ListNotations.
Open Scope N_scope.
Open Scope bool_scope.

Lemma insert_sorted_In {A} k (v : A) l x : In x (insert_sorted k v l) -> x = (k, v) \/ In x l.
Proof.
  induction l as [|[k' v'] l IH]; simpl; intros H.
  - destruct H as [H|[]]; auto.
  - destruct (cmp_bytes k k'); simpl in H.
    + destruct H as [H|H]; auto.
    + destruct H as [H|H]; auto.
    + destruct H as [H|H]; auto. apply IH in H. tauto.
Qed.

Lemma sort_ents_In {A} (l : list (bytes * A)) x : In x (sort_ents l) -> In x l.
Proof.
  unfold sort_ents. induction l as [|[k v] l IH]; simpl; intros H; [exact H|].
  apply insert_sorted_In in H. destruct H as [H|H]; auto.
Qed.

(* a walk through directories only meets no symlink *)
Lemma rwalk_dir_safe f : forall cs j i, rwalk f j cs = Some i -> is_dir f i = true -> safe f j cs.
Proof.
  induction cs as [|c r IH]; intros j i Hw Hd; [exact I|].
  apply safe_unfold. rewrite rwalk_unfold in Hw.
  destruct (blookup c (ents f j)) as [k|] eqn:Eb; [|exact I]. split.
  - destruct r as [|c2 r2].
    + simpl in Hw. inversion Hw; subst. apply is_dir_dir_of in Hd. destruct Hd as (p & es & Hd).
      apply dir_of_tag in Hd. destruct (is_link f i) eqn:E; auto. apply is_link_tag in E. congruence.
    + rewrite rwalk_unfold in Hw. destruct (is_link f k) eqn:E; auto. exfalso.
      apply is_link_tag in E. unfold ents, dir_of in Hw. unfold itag in E.
      destruct (get f k) as [[kk m]|]; [|discriminate]. destruct kk; simpl in E; try discriminate.
  - apply (IH k i); auto.
Qed.

Lemma rwalk_prefix_safe f : forall cs j i, rwalk f j cs = Some i -> safe f j (removelast cs).
Proof.
  intros cs. destruct cs as [|c0 r0] using rev_ind; intros j i Hw; [exact I|].
  rewrite removelast_last. apply rwalk_snoc in Hw. destruct Hw as (d & Hw & _ & Hd).
  apply (rwalk_dir_safe f r0 j d); auto.
Qed.

Section Tree.
Variable D : N.
Notation reach := (reach D).
Notation wf := (wf D).

Lemma child_path_joinc relcs name : relcs = [] \/ okc relcs -> child_path (joinc relcs) name = joinc (relcs ++ [name]).
Proof.
  intros [->|H]; [reflexivity|].
  unfold child_path. destruct (joinc relcs) eqn:E.
  - exfalso. destruct (okc_not_special relcs H) as (H1 & _). congruence.
  - rewrite <- E. rewrite joinc_snoc; auto. destruct H; auto.
Qed.

Lemma okc_app relcs cs : relcs = [] \/ okc relcs -> cs <> [] -> Forall okname cs -> okc (relcs ++ cs).
Proof.
  intros Hr Hne Hok. apply okname_forall in Hok. destruct Hok as [Hn Hs].
  destruct Hr as [->|(H1 & H2 & H3)]; [repeat split; auto|].
  repeat split.
  - destruct relcs; [congruence|discriminate].
  - apply Forall_app; auto.
  - apply Forall_app; auto.
Qed.

(* entries of the walk from directory [j] (reached under the components [relcs]) *)
Lemma tree_below_spec f : wf f -> forall fuel j relcs,
  reach f j -> relcs = [] \/ okc relcs ->
  forall p i n, In (p, i, n) (tree_below fuel f j (joinc relcs)) ->
  exists cs, cs <> [] /\ Forall okname cs /\ p = joinc (relcs ++ cs) /\ rwalk f j cs = Some i /\ get f i = Some n.
Proof.
  intros W. induction fuel as [|fuel IH]; intros j relcs Rj Hrel p i n Hin; [destruct Hin|].
  simpl in Hin. destruct (dir_of f j) as [[pp es]|] eqn:Ed; [|destruct Hin].
  apply in_flat_map in Hin. destruct Hin as ([name k] & Hk & Hin). cbn [fst snd] in Hin.
  apply sort_ents_In in Hk.
  assert (Hes : ents f j = es) by (apply (dir_of_ents _ _ _ _ Ed)).
  assert (Hbl : blookup name (ents f j) = Some k).
  { rewrite Hes. apply In_blookup_nodup; auto. rewrite <- Hes. apply (wf_names D f W j Rj). }
  assert (Hok : okname name).
  { pose proof (wf_names D f W j Rj) as [_ H]. rewrite Hes in H. rewrite Forall_forall in H.
    apply H. change name with (fst (name, k)). apply in_map. exact Hk. }
  assert (Rk : reach f k) by (apply (reach_step D f j name k); auto; rewrite Hes; auto).
  destruct (get f k) as [nk|] eqn:Eg; [|destruct Hin].
  rewrite (child_path_joinc relcs name Hrel) in Hin.
  destruct Hin as [Hin|Hin].
  - inversion Hin; subst. exists [name]. repeat split; auto; try discriminate.
    rewrite rwalk_unfold, Hbl. reflexivity.
  - assert (Hrel' : relcs ++ [name] = [] \/ okc (relcs ++ [name])).
    { right. apply okc_app; auto; try discriminate. }
    destruct (IH k (relcs ++ [name]) Rk Hrel' p i n Hin) as (cs & H1 & H2 & H3 & H4 & H5).
    exists (name :: cs). repeat split; auto; try discriminate.
    + rewrite H3, <- app_assoc. reflexivity.
    + rewrite rwalk_unfold, Hbl. exact H4.
Qed.

End Tree.
