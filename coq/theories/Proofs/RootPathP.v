(* C14 — fs.RootPath returns a path below root none of whose components is a symlink.

   Why: the pass of RootPath that walks no link (the last one) Lstat-s every state it goes
   through; the states form a stack of names (Join cleans lexically: "." keeps, ".." pops,
   a name pushes), every prefix of the final stack was the whole stack at the moment it was
   pushed, and the Lstat of that moment said "not a symlink" or "does not exist". *)
From Coq Require Import List NArith Lia Bool ZifyN ZifyNat ZifyBool.
From FS Require Import Sx Model.Path Model.Fs Model.RootPath Proofs.Lex Proofs.PathP Proofs.RootPathStrP.
Import ListNotations.
Open Scope N_scope.
Open Scope bool_scope.

Definition is_link (f : fs) (i : N) : bool :=
  match get f i with Some {| i_kind := KLink _ |} => true | _ => false end.

(* ---- unfolding equations ---- *)
Lemma plain_lookup_cons f cur x rest fo :
  plain_lookup f cur (x :: rest) fo =
  match dir_of f cur with
  | None => PErr ENOTDIR
  | Some (_, ents) =>
    match blookup x ents with
    | None => if is_nil rest then PFound {| l_dir := cur; l_name := x; l_ino := None |} else PErr ENOENT
    | Some i =>
      if is_link f i then
        (if is_nil rest && fo then PFound {| l_dir := cur; l_name := x; l_ino := Some i |} else PLink)
      else if is_nil rest then PFound {| l_dir := cur; l_name := x; l_ino := Some i |}
           else plain_lookup f i rest fo
    end
  end.
Proof.
  cbn [plain_lookup]. destruct (dir_of f cur) as [[par ents]|]; [|reflexivity].
  destruct (blookup x ents) as [i|]; [|reflexivity].
  unfold is_link. destruct (get f i) as [[[p0 es|d|t|ty rd] m]|]; reflexivity.
Qed.

Lemma plain_lookup_nil f cur fo :
  plain_lookup f cur [] fo =
  match dir_of f cur with
  | None => PErr ENOTDIR
  | Some _ => PFound {| l_dir := cur; l_name := []; l_ino := Some cur |}
  end.
Proof. cbn [plain_lookup]. destruct (dir_of f cur) as [[par ents]|]; reflexivity. Qed.

Lemma link_free_cons f cur x rest :
  link_free f cur (x :: rest) =
  match dir_of f cur with
  | None => true
  | Some (_, ents) =>
    match blookup x ents with
    | None => true
    | Some i => if is_link f i then false else link_free f i rest
    end
  end.
Proof.
  cbn [link_free]. destruct (dir_of f cur) as [[par ents]|]; [|reflexivity].
  destruct (blookup x ents) as [i|]; [|reflexivity].
  unfold is_link. destruct (get f i) as [[[p0 es|d|t|ty rd] m]|]; reflexivity.
Qed.

Lemma nm_not_dots x : nm x -> bytes_eqb x s_dot = false /\ bytes_eqb x s_dotdot = false.
Proof. intros [(H1 & H2 & H3) _]. split; apply bytes_eqb_neq; auto. Qed.

(* ---- Fs.walk on names, as long as no symlink is met ---- *)
Definition agrees (fo fl : bool) (w : lres + errno) (p : plain_res) : Prop :=
  match p with
  | PFound r => (fo = true -> fl = false) -> w = inl r
  | PErr e => w = inr e
  | PLink => True
  end.

Lemma walk_plain fuel : forall f rt cur cs fo fl n, Forall nm cs ->
  walk fuel f rt cur cs fl n = inr ELOOP \/
  agrees fo fl (walk fuel f rt cur cs fl n) (plain_lookup f cur cs fo).
Proof.
  induction fuel as [|fuel IH]; intros f rt cur cs fo fl n Hcs; [left; reflexivity|].
  destruct cs as [|x rest].
  - right. rewrite plain_lookup_nil. cbn [walk].
    destruct (dir_of f cur) as [[par ents]|]; simpl; auto.
  - inversion Hcs as [|? ? Hx Hrest]; subst. destruct (nm_not_dots x Hx) as [E1 E2].
    rewrite plain_lookup_cons. cbn [walk].
    destruct (dir_of f cur) as [[par ents]|]; [|right; reflexivity].
    rewrite E1, E2.
    destruct (blookup x ents) as [i|].
    + unfold is_link. destruct (get f i) as [[[p0 es|d|t|ty rd] m]|];
        try (destruct (is_nil rest); [right; simpl; auto|apply IH; auto]).
      destruct (is_nil rest); simpl.
      * destruct fo; simpl; [|right; exact I]. right. intros H. rewrite (H eq_refl). reflexivity.
      * right. exact I.
    + right. destruct (is_nil rest); simpl; auto.
Qed.

(* with a symlink-free path the lookup does not depend on the process root, the follow
   flag or the symlink budget *)
Lemma walk_link_free_indep fuel : forall f cur cs rt1 rt2 fl1 fl2 n1 n2,
  Forall nm cs -> link_free f cur cs = true ->
  walk fuel f rt1 cur cs fl1 n1 = walk fuel f rt2 cur cs fl2 n2.
Proof.
  induction fuel as [|fuel IH]; intros f cur cs rt1 rt2 fl1 fl2 n1 n2 Hcs Hlf; [reflexivity|].
  destruct cs as [|x rest]; [reflexivity|].
  inversion Hcs as [|? ? Hx Hrest]; subst. destruct (nm_not_dots x Hx) as [E1 E2].
  rewrite link_free_cons in Hlf. cbn [walk].
  destruct (dir_of f cur) as [[par ents]|]; [|reflexivity].
  rewrite E1, E2.
  destruct (blookup x ents) as [i|]; [|reflexivity].
  unfold is_link in Hlf. destruct (get f i) as [[[p0 es|d|t|ty rd] m]|]; try discriminate;
    (destruct (is_nil rest); [reflexivity|apply IH; auto]).
Qed.

(* ---- plain lookups compose ---- *)
Lemma plain_lookup_app f fo b : b <> [] -> forall a cur d,
  plain_dir f cur a = Some d -> plain_lookup f cur (a ++ b) fo = plain_lookup f d b fo.
Proof.
  intros Hb. induction a as [|x a IH]; intros cur d H.
  - unfold plain_dir in H. rewrite plain_lookup_nil in H.
    destruct (dir_of f cur) as [[par ents]|] eqn:Ed; [|discriminate]. cbn [l_ino] in H.
    unfold is_dir in H. rewrite Ed in H. inversion H; subst. reflexivity.
  - unfold plain_dir in H. rewrite plain_lookup_cons in H. simpl app. rewrite plain_lookup_cons.
    destruct (dir_of f cur) as [[par ents]|]; [|discriminate].
    destruct (blookup x ents) as [i|].
    + destruct (is_link f i).
      * rewrite andb_false_r in H. discriminate.
      * destruct a as [|y a].
        -- simpl in H. simpl app. destruct b as [|b0 b]; [congruence|]. simpl is_nil.
           destruct (is_dir f i); inversion H; subst. reflexivity.
        -- simpl is_nil in *. apply IH. unfold plain_dir. exact H.
    + destruct (is_nil a); simpl in H; discriminate.
Qed.

Lemma link_free_prefix f b : forall a d, link_free f d (a ++ b) = true -> link_free f d a = true.
Proof.
  induction a as [|x a IH]; intros d H; [reflexivity|].
  simpl app in H. rewrite link_free_cons in *.
  destruct (dir_of f d) as [[par ents]|]; auto.
  destruct (blookup x ents) as [i|]; auto.
  destruct (is_link f i); auto.
Qed.

Lemma link_free_snoc f x : forall a d, link_free f d a = true ->
  match plain_lookup f d (a ++ [x]) true with
  | PLink => False
  | PFound r => link_free f d (a ++ [x]) =
                match l_ino r with Some i => negb (is_link f i) | None => true end
  | PErr _ => link_free f d (a ++ [x]) = true
  end.
Proof.
  induction a as [|y a IH]; intros d H.
  - simpl app. rewrite plain_lookup_cons, link_free_cons.
    destruct (dir_of f d) as [[par ents]|]; auto.
    destruct (blookup x ents) as [i|]; [|reflexivity].
    cbn [is_nil andb]. destruct (is_link f i) eqn:El; cbn [l_ino]; rewrite ?El; reflexivity.
  - simpl app. rewrite plain_lookup_cons, link_free_cons. rewrite link_free_cons in H.
    destruct (dir_of f d) as [[par ents]|]; auto.
    destruct (blookup y ents) as [i|].
    + destruct (is_link f i); [discriminate|].
      replace (is_nil (a ++ [x])) with false by (destruct a; reflexivity).
      apply IH; auto.
    + replace (is_nil (a ++ [x])) with false by (destruct a; reflexivity). reflexivity.
Qed.

Local Opaque rfuel.

Definition lstat_not_link (r : result) : Prop :=
  r = RErr ENOENT \/ exists i n, r = RStat i n /\ forall t, i_kind n <> KLink t.

(* a path with a NUL byte is refused with EINVAL *)
Lemma lstat_not_link_nonul c f p : lstat_not_link (snd (sys_lstat c f p)) -> has_nul p = false.
Proof.
  intros H. destruct (has_nul p) eqn:E; auto. exfalso.
  unfold sys_lstat, resolve_ino, resolve in H. destruct p as [|a p]; rewrite ?E in H; simpl in H;
    destruct H as [H|(i & n & H & _)]; discriminate.
Qed.

Section Root.
  Variables (c : ctx) (f : fs) (rcs : list bytes) (dr : N).
  Hypothesis Hrcs : Forall nm rcs.
  Hypothesis Hrnul : Forall nonul rcs.
  Hypothesis Hdr : plain_dir f (c_root c) rcs = Some dr.

  Lemma lstat_not_link_free a x : Forall nm a -> nm x -> link_free f dr a = true ->
    lstat_not_link (snd (sys_lstat c f (render (rcs ++ a ++ [x])))) ->
    link_free f dr (a ++ [x]) = true /\ nonul x.
  Proof.
    intros Ha Hx Hlf Hst.
    assert (Hnul : Forall nonul (rcs ++ a ++ [x])).
    { apply has_nul_render. eapply lstat_not_link_nonul; eauto. }
    split; [|apply Forall_app in Hnul; destruct Hnul as [_ Hn]; apply Forall_app in Hn; destruct Hn as [_ Hn];
             inversion Hn; auto].
    pose proof (link_free_snoc f x a dr Hlf) as Hs.
    assert (Hne : a ++ [x] <> []) by (destruct a; discriminate).
    assert (Hall : Forall nm (rcs ++ a ++ [x])).
    { apply Forall_app; split; auto. apply Forall_app; split; auto. }
    pose proof (plain_lookup_app f true (a ++ [x]) Hne rcs (c_root c) dr Hdr) as Happ.
    destruct (plain_lookup f dr (a ++ [x]) true) as [r|e|] eqn:Ep; [|exact Hs|contradiction].
    rewrite Hs. destruct (l_ino r) as [i|] eqn:Ei; [|reflexivity].
    destruct (is_link f i) eqn:El; [|reflexivity]. exfalso.
    (* the real lstat would have seen the link *)
    unfold sys_lstat, resolve_ino in Hst.
    assert (Hne2 : rcs ++ a ++ [x] <> []) by (destruct rcs; [exact Hne|discriminate]).
    rewrite resolve_render in Hst by assumption.
    destruct (walk_plain rfuel f (c_root c) (c_root c) (rcs ++ a ++ [x]) true false 0 Hall) as [W|W].
    - rewrite W in Hst. cbn [snd] in Hst. destruct Hst as [Hst|(i0 & n0 & Hst & _)]; discriminate.
    - rewrite Happ in W. unfold agrees in W. rewrite (W (fun _ => eq_refl)) in Hst. rewrite Ei in Hst.
      unfold is_link in El. destruct (get f i) as [[[p0 es|d|t|ty rd] m]|]; try discriminate.
      cbn [snd] in Hst. destruct Hst as [Hst|(i0 & n0 & Hst & Hk)]; [discriminate|].
      inversion Hst; subst. apply (Hk t). reflexivity.
  Qed.

  Definition good (st : bytes) : Prop :=
    exists stk, st = render (rev stk) /\ Forall nm stk /\ Forall nonul stk /\ link_free f dr (rev stk) = true.

  Lemma join_root_render l : Forall nm l -> join2 [sep] (render l) = render l.
  Proof. intros H. rewrite join2_root, stk_from_render by auto. rewrite app_nil_r, rev_involutive. reflexivity. Qed.

  Lemma join_rcs_render l : Forall nm l -> join2 (render rcs) (render l) = render (rcs ++ l).
  Proof.
    intros H. rewrite join2_render, stk_from_render by auto.
    rewrite rev_app_distr, !rev_involutive. reflexivity.
  Qed.

  (* one walkLink whose argument cleans to the stack [cstep true stk x] *)
  Lemma walk_link_good stk x path nl np b nl' :
    Forall nm stk -> Forall nonul stk -> nosep x -> link_free f dr (rev stk) = true ->
    join2 [sep] path = render (rev (cstep true stk x)) ->
    walk_link c f (render rcs) path nl = inl (np, b, nl') ->
    nl <= nl' /\ (nl' = nl -> b = false /\ good np).
  Proof.
    intros Hstk Hnul Hx Hlf Hp H. unfold walk_link in H.
    destruct (N.ltb rp_max_links nl); [discriminate|].
    rewrite Hp in H. set (stk1 := cstep true stk x) in *.
    assert (Hstk1 : Forall nm stk1) by (apply cstep_nm; auto).
    assert (Hrev1 : Forall nm (rev stk1)) by (apply Forall_rev; auto).
    destruct (bytes_eqb (render (rev stk1)) [sep]) eqn:Esep.
    - inversion H; subst. split; [lia|]. intros _. split; auto.
      apply render_eq_sep in Esep; auto. exists stk1. rewrite Esep.
      assert (stk1 = []) as -> by (destruct stk1; auto; simpl in Esep; destruct (rev stk1); discriminate).
      repeat split; auto.
    - rewrite join_rcs_render in H by auto.
      assert (Hcase : lstat_not_link (snd (sys_lstat c f (render (rcs ++ rev stk1)))) -> good (render (rev stk1))).
      { intros Hst. exists stk1. split; [reflexivity|]. split; [auto|].
        destruct (cstep_cases stk x Hstk Hx) as [E|[E|[Hnx E]]]; fold stk1 in E.
        - rewrite E. auto.
        - rewrite E. destruct stk as [|t r]; [split; [constructor|reflexivity]|]. simpl tl. simpl rev in Hlf.
          inversion Hnul; subst. split; auto. eapply link_free_prefix; eauto.
        - rewrite E in *. simpl rev in *.
          destruct (lstat_not_link_free (rev stk) x) as [G1 G2]; auto using Forall_rev. }
      destruct (snd (sys_lstat c f (render (rcs ++ rev stk1)))) as [|e|i n| | |] eqn:El; try discriminate.
      + destruct e; try discriminate. inversion H; subst. split; [lia|]. intros _. split; auto.
        apply Hcase. left. reflexivity.
      + destruct (i_kind n) as [p0 es|d|t|ty rd] eqn:Ek.
        * inversion H; subst. split; [lia|]. intros _. split; auto. apply Hcase. right.
          exists i, n. split; auto. intros t. rewrite Ek. discriminate.
        * inversion H; subst. split; [lia|]. intros _. split; auto. apply Hcase. right.
          exists i, n. split; auto. intros t. rewrite Ek. discriminate.
        * destruct (snd (sys_readlink c f (render (rcs ++ rev stk1)))); try discriminate.
          inversion H; subst. split; [lia|]. intros E. exfalso. lia.
        * inversion H; subst. split; [lia|]. intros _. split; auto. apply Hcase. right.
          exists i, n. split; auto. intros t. rewrite Ek. discriminate.
  Qed.

  Lemma link_step_good st x nl st' nl' :
    good st -> nosep x ->
    link_step c f (render rcs) st x nl = inl (st', nl') ->
    nl <= nl' /\ (nl' = nl -> good st').
  Proof.
    intros (stk & -> & Hstk & Hnul & Hlf) Hx H. unfold link_step in H.
    destruct (walk_link c f (render rcs) (join2 (render (rev stk)) x) nl) as [[[np b] nl1]|e] eqn:Ew; [|discriminate].
    assert (Hp : join2 [sep] (join2 (render (rev stk)) x) = render (rev (cstep true stk x))).
    { rewrite join2_render by (apply Forall_rev; auto). rewrite rev_involutive, stk_from_single by auto.
      apply join_root_render. apply Forall_rev. apply cstep_nm; auto. }
    destruct (walk_link_good stk x _ nl np b nl1 Hstk Hnul Hx Hlf Hp Ew) as [Hle Hg].
    destruct b.
    - destruct (is_abs np); inversion H; subst; (split; [auto|]); intros E; destruct (Hg E); discriminate.
    - inversion H; subst. split; auto. intros E. apply Hg; auto.
  Qed.

  Lemma walk_links_rest_good cs : Forall nosep cs -> forall st nl st' nl',
    good st -> walk_links_rest c f (render rcs) st nl cs = inl (st', nl') ->
    nl <= nl' /\ (nl' = nl -> good st').
  Proof.
    induction 1 as [|x cs Hx Hcs IH]; intros st nl st' nl' Hg H.
    - simpl in H. inversion H; subst. split; [lia|auto].
    - cbn [walk_links_rest] in H. destruct x as [|x0 x1].
      + apply (IH st); auto.
      + destruct (link_step c f (render rcs) st (x0 :: x1) nl) as [[st1 nl1]|e] eqn:Es; [|discriminate].
        destruct (link_step_good st (x0 :: x1) nl st1 nl1 Hg Hx Es) as [Hle1 Hg1].
        assert (Hmono : nl1 <= nl').
        { clear -H. revert st1 nl1 H. induction cs as [|y cs IHc]; intros st1 nl1 H.
          - simpl in H. inversion H; lia.
          - cbn [walk_links_rest] in H. destruct y; [eauto|].
            destruct (link_step c f (render rcs) st1 (n :: y) nl1) as [[st2 nl2]|e] eqn:E2; [|discriminate].
            apply IHc in H. unfold link_step in E2.
            destruct (walk_link c f (render rcs) (join2 st1 (n :: y)) nl1) as [[[np b] nl3]|e] eqn:Ew; [|discriminate].
            assert (nl1 <= nl3).
            { unfold walk_link in Ew. destruct (N.ltb rp_max_links nl1); [discriminate|].
              destruct (bytes_eqb _ [sep]); [inversion Ew; lia|].
              destruct (snd (sys_lstat _ _ _)) as [|e|i0 n0| | |]; try discriminate.
              - destruct e; try discriminate; inversion Ew; lia.
              - destruct (i_kind n0); try (inversion Ew; lia).
                destruct (snd (sys_readlink _ _ _)); try discriminate. inversion Ew; lia. }
            destruct b; [destruct (is_abs np)|]; inversion E2; subst; lia. }
        split; [lia|]. intros E. assert (nl1 = nl) by lia.
        assert (Hg2 : good st1) by auto.
        destruct (IH st1 nl1 st' nl' Hg2 H) as [_ Hg3]. apply Hg3. lia.
  Qed.

  Lemma walk_links_good path nl st' nl' :
    walk_links c f (render rcs) path nl = inl (st', nl') ->
    nl <= nl' /\ (nl' = nl -> good st').
  Proof.
    unfold walk_links. pose proof (comps_all_nosep path) as Hns.
    destruct (comps path) as [|c1 rest]; [discriminate|]. inversion Hns as [|? ? Hc1 Hrest]; subst.
    destruct (walk_links_first c f (render rcs) c1 nl) as [[st nl1]|e] eqn:E1; [|discriminate].
    intros H.
    assert (H1 : nl <= nl1 /\ (nl1 = nl -> good st)).
    { unfold walk_links_first in E1. destruct c1 as [|c0 c1].
      - inversion E1; subst. split; [lia|]. intros _. exists []. repeat split; auto.
      - destruct (walk_link c f (render rcs) (c0 :: c1) nl) as [[[np b] nl2]|e] eqn:Ew; [|discriminate].
        inversion E1; subst.
        assert (Hp : join2 [sep] (c0 :: c1) = render (rev (cstep true [] (c0 :: c1)))).
        { rewrite join2_root, stk_from_single by auto. reflexivity. }
        destruct (walk_link_good [] (c0 :: c1) _ nl st b nl1 (Forall_nil _) (Forall_nil _) Hc1 eq_refl Hp Ew) as [Hle Hg].
        split; auto. intros E. apply Hg; auto. }
    destruct H1 as [Hle1 Hg1].
    destruct (N.eq_dec nl1 nl) as [E|NE].
    - destruct (walk_links_rest_good rest Hrest st nl1 st' nl' (Hg1 E) H) as [Hle2 Hg2].
      split; [lia|]. intros E2. apply Hg2. lia.
    - (* a link was walked by the first component: nl' > nl *)
      assert (nl1 <= nl').
      { clear -H Hrest. revert st nl1 H. induction rest as [|y cs IHc]; intros st nl1 H.
        - simpl in H. inversion H; lia.
        - cbn [walk_links_rest] in H. inversion Hrest; subst. destruct y; [eauto|].
          destruct (link_step c f (render rcs) st (n :: y) nl1) as [[st2 nl2]|e] eqn:E2; [|discriminate].
          apply IHc in H; auto. unfold link_step in E2.
          destruct (walk_link c f (render rcs) (join2 st (n :: y)) nl1) as [[[np b] nl3]|e] eqn:Ew; [|discriminate].
          assert (nl1 <= nl3).
          { unfold walk_link in Ew. destruct (N.ltb rp_max_links nl1); [discriminate|].
            destruct (bytes_eqb _ [sep]); [inversion Ew; lia|].
            destruct (snd (sys_lstat _ _ _)) as [|e|i0 n0| | |]; try discriminate.
            - destruct e; try discriminate; inversion Ew; lia.
            - destruct (i_kind n0); try (inversion Ew; lia).
              destruct (snd (sys_readlink _ _ _)); try discriminate. inversion Ew; lia. }
          destruct b; [destruct (is_abs np)|]; inversion E2; subst; lia. }
      split; [lia|]. intros E. exfalso. lia.
  Qed.

  Lemma root_path_loop_good fuel : forall path nl out,
    root_path_loop fuel c f (render rcs) path nl = inl out ->
    exists cs, out = render (rcs ++ cs) /\ Forall nm cs /\ Forall nonul cs /\ link_free f dr cs = true.
  Proof.
    induction fuel as [|fuel IH]; intros path nl out H; [discriminate|].
    cbn [root_path_loop] in H.
    destruct (walk_links c f (render rcs) path nl) as [[np nl']|e] eqn:Ew; [|discriminate].
    destruct (N.eqb nl nl') eqn:En.
    - destruct (bytes_eqb np (join2 [sep] np)) eqn:Eb.
      + apply N.eqb_eq in En. destruct (walk_links_good path nl np nl' Ew) as [_ Hg].
        destruct (Hg (eq_sym En)) as (stk & -> & Hstk & Hnul & Hlf).
        assert (Eo : join2 (render rcs) (join2 [sep] (render (rev stk))) = out) by congruence.
        rewrite <- Eo. exists (rev stk). split; [|split; [|split]; auto using Forall_rev].
        rewrite join_root_render by (apply Forall_rev; auto).
        apply join_rcs_render. apply Forall_rev; auto.
      + eapply IH; eauto.
    - eapply IH; eauto.
  Qed.

  Lemma root_path_good path out :
    root_path c f (render rcs) path = inl out ->
    exists cs, out = render (rcs ++ cs) /\ Forall nm cs /\ Forall nonul cs /\ link_free f dr cs = true.
  Proof.
    unfold root_path. destruct path as [|a p].
    - intros H. inversion H; subst. exists []. rewrite app_nil_r. repeat split; auto.
    - apply root_path_loop_good.
  Qed.

  (* copy.rootPath: with followLinks the whole result is symlink-free, without it everything
     but the final name *)
  Lemma split_path_render d b : Forall nm (d ++ [b]) ->
    split_path (render (d ++ [b])) = (match d with [] => [sep] | _ => render d ++ [sep] end, b).
  Proof.
    intros H. unfold split_path, render. cbn [split_last].
    rewrite split_last_joinc by (apply Forall_nm_nosep; auto).
    destruct d as [|x d].
    - rewrite N.eqb_refl. reflexivity.
    - reflexivity.
  Qed.

  Lemma copy_root_path_good p follow out :
    copy_root_path c f (render rcs) p follow = inl out ->
    exists cs, out = render (rcs ++ cs) /\ Forall nm cs /\
               Forall nonul (if follow then cs else removelast cs) /\
               link_free f dr (if follow then cs else removelast cs) = true.
  Proof.
    unfold copy_root_path. rewrite join2_root.
    set (l := rev (stk_from [] p)).
    assert (Hl : Forall nm l) by (apply Forall_rev, stk_from_nm; constructor).
    destruct (bytes_eqb (render l) [sep]) eqn:E.
    - intros H. inversion H; subst. exists []. rewrite app_nil_r. destruct follow; repeat split; auto; constructor.
    - destruct follow.
      + apply root_path_good.
      + assert (Hne : l <> []).
        { intros El. rewrite El in E. discriminate. }
        destruct (exists_last Hne) as (d & b & El). rewrite El in *.
        rewrite split_path_render by auto.
        destruct (root_path c f (render rcs) _) as [pp|e] eqn:Er; [|discriminate].
        intros H. assert (Eo : join2 pp b = out) by congruence. clear H.
        destruct (root_path_good _ _ Er) as (cs & -> & Hcs & Hcnul & Hlf).
        apply Forall_app in Hl. destruct Hl as [Hd Hb]. inversion Hb as [|? ? Hb1 _]; subst.
        exists (cs ++ [b]). split; [|split; [|split]].
        * assert (Hall : Forall nm (rcs ++ cs)) by (apply Forall_app; auto).
          rewrite join2_render by auto. rewrite stk_from_single by (destruct Hb1; auto).
          rewrite cstep_normal by (destruct Hb1; auto). simpl rev. rewrite rev_involutive, <- app_assoc. reflexivity.
        * apply Forall_app; auto.
        * rewrite removelast_last. exact Hcnul.
        * rewrite removelast_last. exact Hlf.
  Qed.
End Root.

(* ---- the statements exported to Properties/C14.v ---- *)
Theorem rootpath_result_link_free_proof c f rcs dr p out :
  forallb name_ok rcs = true ->
  plain_dir f (c_root c) rcs = Some dr ->
  root_path c f (render rcs) p = inl out ->
  exists cs, out = render (rcs ++ cs) /\ forallb name_ok cs = true /\ link_free f dr cs = true.
Proof.
  intros Hr Hd H. apply forallb_name_ok in Hr. destruct Hr as [Hr1 Hr2].
  destruct (root_path_good c f rcs dr Hr1 Hr2 Hd p out H) as (cs & E & Hcs & Hnul & Hlf).
  exists cs. repeat split; auto. apply forallb_name_ok; auto.
Qed.

Theorem copy_rootpath_result_link_free_proof c f rcs dr p follow out :
  forallb name_ok rcs = true ->
  plain_dir f (c_root c) rcs = Some dr ->
  copy_root_path c f (render rcs) p follow = inl out ->
  exists cs, out = render (rcs ++ cs) /\ forallb lex_name_ok cs = true /\
             forallb name_ok (if follow then cs else removelast cs) = true /\
             link_free f dr (if follow then cs else removelast cs) = true.
Proof.
  intros Hr Hd H. apply forallb_name_ok in Hr. destruct Hr as [Hr1 Hr2].
  destruct (copy_root_path_good c f rcs dr Hr1 Hr2 Hd p follow out H) as (cs & E & Hcs & Hnul & Hlf).
  exists cs. repeat split; auto.
  - apply forallb_lex_name_ok; auto.
  - apply forallb_name_ok. split; auto. destruct follow; auto.
    clear -Hcs. induction Hcs as [|x l Hx Hl IH]; [constructor|]. destruct l; [constructor|].
    simpl. constructor; auto.
Qed.

(* a symlink-free path below a directory names the same object for every process root, with or
   without following the final component, whatever the symlink budget left *)
Theorem link_free_resolution_rootless_proof f dr cs :
  forallb lex_name_ok cs = true -> link_free f dr cs = true ->
  forall fuel rt1 rt2 fl1 fl2 n1 n2,
    walk fuel f rt1 dr cs fl1 n1 = walk fuel f rt2 dr cs fl2 n2.
Proof.
  intros H Hlf fuel rt1 rt2 fl1 fl2 n1 n2. apply walk_link_free_indep; auto. apply forallb_lex_name_ok; auto.
Qed.
