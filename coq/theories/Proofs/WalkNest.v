(* SubDirFS: walks with ANY target (selection by the first component, every sub-root when it is empty),
   the hard-link rule for sub-targets, and NESTED composites (a SubDirFS whose sub-root is a SubDirFS):
   the outer walk is the outer Stat followed by the inner listing with the outer name put in front
   (prefix_stat applied a second time), strictly ascending, parents first. *)
From Coq Require Import List NArith Bool Lia Sorting.Permutation Sorting.Sorted.
From FS Require Import Sx Model.Path Model.Stat Model.Tree Model.Walk Proofs.Lex Proofs.PathP Proofs.WalkP Proofs.WalkHL Proofs.WalkSD.
Import ListNotations.
Open Scope N_scope.
Open Scope bool_scope.


(* ---------- (3) any target: selection by the first component, all sub-roots when it is empty ---------- *)
Lemma walk_sds_any l first rest : Forall sd_ok l ->
  walk_sds l first rest = (flat_map (sd_select first rest) l, false).
Proof.
  induction l as [|d l IH]; intros H; [reflexivity|].
  inversion H as [|? ? (Hw & Hd & Hwf) H']; subst. cbn [walk_sds flat_map]. unfold sd_select at 1.
  assert (Hblk : (sd_name d, sd_stat d)
                 :: map (fun st => (join2 (sd_name d) (st_path st), sub_rewrite (sd_name d) st)) (walk_at (sd_tree d) rest)
                 = sd_block_at d rest).
  { unfold sd_block_at. f_equal. apply map_ext_in. intros st Hin.
    destruct (walk_at_shape _ _ _ Hwf Hin) as [Hp Hl].
    destruct (sub_rewrite_prefix_gen _ _ Hw Hp Hl) as [-> ->]. reflexivity. }
  destruct (bytes_eqb first []) eqn:E0; cbn [negb andb orb].
  - rewrite Hd. cbn [negb]. rewrite (IH H'). rewrite Hblk. reflexivity.
  - destruct (bytes_eqb first (sd_name d)) eqn:Ed; cbn [negb].
    + rewrite Hd. cbn [negb]. rewrite (IH H'). rewrite Hblk. reflexivity.
    + rewrite (IH H'). reflexivity.
Qed.

Lemma sd_wf_sorted ds : sd_wf ds ->
  Forall sd_ok (isort_sd ds) /\ NoDup (map sd_name (isort_sd ds)) /\ subdirs_ok [] (isort_sd ds) = true.
Proof.
  intros [Hok Hnd]. pose proof (isort_sd_perm ds) as Hp.
  assert (Hok' : Forall sd_ok (isort_sd ds)).
  { apply Forall_forall. intros d Hd. rewrite Forall_forall in Hok. apply Hok. eapply Permutation_in; eauto. }
  assert (Hnd' : NoDup (map sd_name (isort_sd ds))).
  { eapply Permutation_NoDup; [apply Permutation_sym, Permutation_map; exact Hp|exact Hnd]. }
  repeat split; auto. apply subdirs_ok_true; auto.
  eapply Forall_impl; [|exact Hok']. intros d (H & _). exact H.
Qed.

Theorem subdir_walk_any_proof ds target : sd_wf ds ->
  walk_subdirs ds target =
  Some (flat_map (sd_select (fst (cut_sep target)) (snd (cut_sep target))) (isort_sd ds), false).
Proof.
  intros Hsd. destruct (sd_wf_sorted ds Hsd) as (Hok & _ & Hsok).
  unfold walk_subdirs. rewrite Hsok. destruct (cut_sep target) as [first rest]. cbn [fst snd].
  rewrite walk_sds_any; auto.
Qed.

(* ---------- shape of the callbacks of a composite walk ---------- *)
Definition cb_shape (c : bytes * stat) : Prop :=
  exists cs, cs <> [] /\ Forall wf_name cs /\ fst c = joinc cs /\ st_path (snd c) = joinc cs /\
    (mode_is_symlink (st_mode (snd c)) = false -> st_linkname (snd c) = [] \/ wf_path (st_linkname (snd c))).

Lemma prefix_stat_mode d st : st_mode (prefix_stat d st) = st_mode st.
Proof.
  unfold prefix_stat. destruct (st_linkname st); [reflexivity|].
  destruct (mode_is_symlink (st_mode st)); [destruct (is_abs (n :: l))|]; reflexivity.
Qed.

Lemma prefix_stat_linkname d st : mode_is_symlink (st_mode st) = false ->
  st_linkname (prefix_stat d st) = match st_linkname st with [] => [] | ln => d ++ sep :: ln end.
Proof.
  intros Hm. unfold prefix_stat. destruct (st_linkname st) eqn:E; [cbn [st_linkname set_path]; exact E|].
  rewrite Hm. reflexivity.
Qed.

Lemma block_at_shape d rest c : sd_ok d -> st_linkname (sd_stat d) = [] ->
  In c (sd_block_at d rest) -> cb_shape c.
Proof.
  intros (Hw & Hd & Hwf) Hnl [<-|Hin].
  - exists [sd_name d]. cbn [fst snd]. split; [discriminate|]. split; [constructor; auto|].
    split; [reflexivity|]. split; [reflexivity|]. intros _. left. exact Hnl.
  - apply in_map_iff in Hin. destruct Hin as (st0 & <- & Hin). cbn [fst snd].
    destruct (walk_at_shape _ _ _ Hwf Hin) as [(cs0 & Hne0 & Hwf0 & Hp0) Hl0].
    exists (sd_name d :: cs0). split; [discriminate|]. split; [constructor; auto|].
    rewrite joinc_cons by auto. cbn [fst snd]. rewrite prefix_stat_path, Hp0. repeat split; auto.
    rewrite prefix_stat_mode. intros Hm. rewrite prefix_stat_linkname by auto.
    destruct (Hl0 Hm) as [E|(cs1 & Hne1 & Hwf1 & E)]; rewrite E; [left; reflexivity|].
    destruct (joinc cs1) eqn:Ej; [left; reflexivity|]. right. rewrite <- Ej.
    exists (sd_name d :: cs1). split; [discriminate|]. split; [constructor; auto|].
    rewrite joinc_cons by auto. reflexivity.
Qed.


Lemma select_shape ds first rest c : sd_wf ds -> no_linkname ds ->
  In c (flat_map (sd_select first rest) (isort_sd ds)) -> cb_shape c.
Proof.
  intros Hsd Hnl Hin. destruct (sd_wf_sorted ds Hsd) as (Hok & _ & _).
  apply in_flat_map in Hin. destruct Hin as (d & Hd & Hin).
  rewrite Forall_forall in Hok. unfold no_linkname in Hnl. rewrite Forall_forall in Hnl.
  unfold sd_select in Hin. destruct (bytes_eqb first [] || bytes_eqb first (sd_name d)); [|contradiction].
  eapply block_at_shape; eauto. apply Hnl. eapply Permutation_in; [apply isort_sd_perm|exact Hd].
Qed.

Lemma nest_rewrite_eq o c : wf_name o -> cb_shape c ->
  (join2 o (fst c), sub_rewrite o (snd c)) = nest_rewrite o c.
Proof.
  intros Ho (cs & Hne & Hwf & Hf & Hp & Hl). unfold nest_rewrite.
  assert (Hwp : wf_path (st_path (snd c))) by (exists cs; auto).
  destruct (sub_rewrite_prefix_gen o (snd c) Ho Hwp Hl) as [Hj Hs].
  rewrite Hs. f_equal. rewrite Hf, <- Hp. exact Hj.
Qed.

(* ---------- (1) nested composites ---------- *)

Theorem nested_walk_any_proof ost inner target :
  sd_wf inner -> no_linkname inner -> wf_name (st_path ost) -> st_is_dir ost = true ->
  walk_nested ost inner target = Some (nested_listing ost inner target, false).
Proof.
  intros Hsd Hnl Ho Hd. unfold walk_nested, nested_listing.
  rewrite base_wf_name, bytes_eqb_refl by auto. cbn [negb].
  rewrite (subdir_walk_any_proof inner [] Hsd).
  destruct (cut_sep target) as [first rest]. cbn [fst snd].
  destruct (bytes_eqb first []); cbn [negb andb orb].
  - rewrite Hd. cbn [negb]. rewrite (subdir_walk_any_proof inner rest Hsd). f_equal. f_equal. f_equal.
    apply map_ext_in. intros c Hc. apply nest_rewrite_eq; auto. eapply select_shape; eauto.
  - destruct (bytes_eqb first (st_path ost)); cbn [negb]; [|reflexivity].
    rewrite Hd. cbn [negb]. rewrite (subdir_walk_any_proof inner rest Hsd). f_equal. f_equal. f_equal.
    apply map_ext_in. intros c Hc. apply nest_rewrite_eq; auto. eapply select_shape; eauto.
Qed.

Lemma sd_select_whole d : sd_select [] [] d = sd_block d.
Proof. reflexivity. Qed.

Lemma prefix_sorted o P : nosep o ->
  (forall p, In p P -> exists cs, cs <> [] /\ Forall nosep cs /\ p = joinc cs) ->
  StronglySorted path_lt P -> StronglySorted path_lt (o :: map (fun p => o ++ sep :: p) P).
Proof.
  intros Ho Hsh HS. constructor.
  - eapply SS_map; [|exact HS]. intros a b Ha Hb Hab.
    destruct (Hsh _ Ha) as (ca & Hna & Hsa & ->), (Hsh _ Hb) as (cb & Hnb & Hsb & ->).
    rewrite <- !joinc_cons by auto. unfold path_lt in *.
    rewrite compare_path_joinc in Hab by auto.
    rewrite compare_path_joinc by (auto; discriminate). rewrite lex_cons_same. exact Hab.
  - apply Forall_forall. intros q Hq. apply in_map_iff in Hq. destruct Hq as (p & <- & Hp).
    destruct (Hsh _ Hp) as (cs & Hne & Hs & ->). rewrite <- joinc_cons by auto.
    change o with (joinc [o]) at 1. unfold path_lt.
    rewrite compare_path_joinc by (auto; discriminate). rewrite lex_cons_same.
    destruct cs; [congruence|reflexivity].
Qed.

Theorem nested_walk_spec_proof ost inner :
  sd_wf inner -> no_linkname inner -> wf_name (st_path ost) -> st_is_dir ost = true ->
  let listing := (st_path ost, ost) :: map (nest_rewrite (st_path ost)) (flat_map sd_block (isort_sd inner)) in
  walk_nested ost inner [] = Some (listing, false)
  /\ StronglySorted path_lt (map fst listing).
Proof.
  intros Hsd Hnl Ho Hd. split.
  - rewrite (nested_walk_any_proof ost inner [] Hsd Hnl Ho Hd). reflexivity.
  - destruct (sd_wf_sorted inner Hsd) as (Hok & Hnd & _).
    cbn [map fst]. rewrite map_map. unfold nest_rewrite. cbn [fst].
    rewrite <- (map_map fst (fun p => st_path ost ++ sep :: p)).
    apply prefix_sorted.
    + apply wf_name_nosep; auto.
    + intros p Hp. rewrite map_flat_map in Hp. apply in_flat_map in Hp. destruct Hp as (d & Hd' & Hp).
      rewrite Forall_forall in Hok. destruct (block_shape _ _ (Hok _ Hd') Hp) as (c & -> & Hns).
      exists (sd_name d :: c). split; [discriminate|]. auto.
    + apply blocks_sorted; auto. apply isort_sd_sorted. destruct Hsd; auto.
Qed.

(* ---------- (2) hard links in a SubDirFS walk of a sub-target ---------- *)
Lemma walk_at_mode t target st cs r : wf_tree t -> In st (walk_at t target) ->
  cs <> [] -> tree_at t cs r -> st_path st = joinc cs ->
  st_mode st = N.ldiff (go_mode (l_mode r)) ModeSocket.
Proof.
  intros Hwf Hin Hne Hat Hp. rewrite walk_at_scan in Hin. apply scan_in in Hin.
  destruct Hin as (pre & p & r' & post & E & ->).
  assert (Hi : In (p, r') (walk_at_seq t target)) by (rewrite E; apply in_or_app; right; simpl; auto).
  destruct (walk_at_seq_nodes t target Hwf p r' Hi) as (cs' & Hne' & -> & Hat').
  rewrite mkstat_path in Hp.
  destruct (node_unique t cs' r' cs r Hwf Hne' Hne Hat' Hat Hp) as [_ ->].
  pose proof (mkstat_fields (joinc cs') r (seen_after [] pre)) as F. cbv zeta in F.
  destruct F as (_ & F1 & _). exact F1.
Qed.

Theorem subdir_walk_at_hardlinks_proof ds target : sd_wf ds ->
  forall cbs err, walk_subdirs ds target = Some (cbs, err) ->
  target_comps (snd (cut_sep target)) <> [] ->
  forall d, In d ds -> one_fs (sd_tree d) -> ino_consistent (sd_tree d) ->
  forall st c r,
    In (sd_name d ++ sep :: joinc (target_comps (snd (cut_sep target)) ++ c), st) cbs ->
    tree_at (sd_tree d) (target_comps (snd (cut_sep target)) ++ c) r -> is_dir r = false ->
  st_path st = sd_name d ++ sep :: joinc (target_comps (snd (cut_sep target)) ++ c) /\
  exists c0 r0,
    tree_at (sd_tree d) (target_comps (snd (cut_sep target)) ++ c0) r0 /\ is_dir r0 = false /\
    l_ino r0 = l_ino r /\ l_dev r0 = l_dev r /\
    (forall c1 r1, tree_at (sd_tree d) (target_comps (snd (cut_sep target)) ++ c1) r1 ->
                   is_dir r1 = false -> l_ino r1 = l_ino r ->
                   c1 = c0 \/ path_lt (joinc (target_comps (snd (cut_sep target)) ++ c0))
                                      (joinc (target_comps (snd (cut_sep target)) ++ c1))) /\
    st_linkname st =
      (if is_symlink r then
         (if is_abs (l_target r) then clean (sep :: sd_name d ++ sep :: l_target r) else l_target r)
       else if bytes_eqb (joinc (target_comps (snd (cut_sep target)) ++ c0))
                         (joinc (target_comps (snd (cut_sep target)) ++ c))
            then [] else sd_name d ++ sep :: joinc (target_comps (snd (cut_sep target)) ++ c0)).
Proof.
  intros Hsd cbs err Hw Htc d Hd Hfs Hc st c r Hin Hat Hdir.
  rewrite (subdir_walk_any_proof ds target Hsd) in Hw. inversion Hw; subst cbs err. clear Hw.
  remember (snd (cut_sep target)) as rest eqn:Er. clear Er.
  remember (fst (cut_sep target)) as first eqn:Ef. clear Ef.
  remember (target_comps rest) as tc eqn:Etc.
  pose proof (isort_sd_perm ds) as Hperm.
  destruct Hsd as [Hok Hnd]. rewrite Forall_forall in Hok.
  apply in_flat_map in Hin. destruct Hin as (d' & Hd' & Hin).
  assert (Hd'' : In d' ds) by (eapply Permutation_in; eauto).
  destruct (Hok _ Hd) as ((_ & Hns & _ & _) & _ & Hwf).
  destruct (Hok _ Hd'') as ((_ & Hns' & _ & _) & _ & _).
  unfold sd_select in Hin. destruct (bytes_eqb first [] || bytes_eqb first (sd_name d')); [|contradiction].
  unfold sd_block_at in Hin. destruct Hin as [E|Hin].
  - exfalso. inversion E as [[E1 E2]]. apply Hns'. rewrite E1. apply in_or_app. right. simpl; auto.
  - apply in_map_iff in Hin. destruct Hin as (st0 & E & Hin0). inversion E as [[E1 E2]]. clear E.
    apply app_sep_inj in E1; auto. destruct E1 as [En Ep]. subst st.
    assert (d' = d) by (eapply (NoDup_map_inj sd_name); eauto). subst d'. clear Hd'' Hd' Hns' En.
    split; [rewrite prefix_stat_path, Ep; reflexivity|].
    assert (Hne : tc ++ c <> []) by (apply app_nonnil; auto).
    subst tc.
    destruct (walk_at_hardlinks_proof _ rest Hwf Hfs Hc Htc st0 Hin0 c r Hat Ep Hdir)
      as (c0 & r0 & Hat0 & Hd0 & Hi0 & Hdev0 & Hleast & Hl).
    exists c0, r0. repeat (split; [assumption|]).
    pose proof (walk_at_mode _ rest st0 _ r Hwf Hin0 Hne Hat Ep) as Hm.
    assert (Hsym : mode_is_symlink (st_mode st0) = is_symlink r).
    { rewrite Hm, mode_symlink_nosock. reflexivity. }
    unfold prefix_stat. rewrite Hsym, Hl.
    destruct (is_symlink r).
    + destruct (l_target r) as [|a ln].
      * cbn [is_abs st_linkname set_path]. exact Hl.
      * destruct (is_abs (a :: ln)); cbn [st_linkname set_path set_linkname]; [reflexivity|exact Hl].
    + destruct (bytes_eqb (joinc (target_comps rest ++ c0)) (joinc (target_comps rest ++ c))).
      * cbn [st_linkname set_path]. exact Hl.
      * assert (Hne0 : target_comps rest ++ c0 <> []) by (apply app_nonnil; auto).
        destruct (okc_first_byte _ (wf_names_okc _ Hne0 (tree_at_names _ Hwf _ _ Hat0))) as (a & q & -> & _).
        reflexivity.
Qed.

(* ---------- parents first in the nested whole walk ---------- *)
Lemma nested_paths_eq o (L : list (bytes * stat)) :
  map fst (map (nest_rewrite o) L) = map (fun p => o ++ sep :: p) (map fst L).
Proof. rewrite !map_map. reflexivity. Qed.

Lemma nested_path_in ost inner d c r : sd_wf inner -> wf_name (st_path ost) ->
  In d inner -> tree_at (sd_tree d) c r ->
  In (joinc (st_path ost :: sd_name d :: c))
     (map fst ((st_path ost, ost) :: map (nest_rewrite (st_path ost)) (flat_map sd_block (isort_sd inner)))).
Proof.
  intros Hsd Ho Hd Hat. cbn [map fst]. right. rewrite nested_paths_eq.
  rewrite joinc_cons by discriminate. apply (in_map (fun p => st_path ost ++ sep :: p)).
  rewrite map_flat_map. apply in_flat_map. exists d. split.
  - eapply Permutation_in; [apply Permutation_sym, isort_sd_perm|exact Hd].
  - destruct Hsd as [Hok _]. rewrite Forall_forall in Hok. destruct (Hok _ Hd) as (Hw & _ & Hwf).
    rewrite block_paths by auto. apply in_map_iff. exists (c, r). split; [reflexivity|].
    apply rpr_tree_at, sort_tree_at. exact Hat.
Qed.

Theorem nested_parent_first_proof ost inner :
  sd_wf inner -> no_linkname inner -> wf_name (st_path ost) -> st_is_dir ost = true ->
  let listing := (st_path ost, ost) :: map (nest_rewrite (st_path ost)) (flat_map sd_block (isort_sd inner)) in
  forall d c r, In d inner -> tree_at (sd_tree d) c r ->
  exists pre e post, listing = pre ++ e :: post /\ fst e = joinc (st_path ost :: sd_name d :: c)
                     /\ In (joinc (removelast (st_path ost :: sd_name d :: c))) (map fst pre).
Proof.
  intros Hsd Hnl Ho Hdir listing d c r Hd Hat.
  destruct (nested_walk_spec_proof ost inner Hsd Hnl Ho Hdir) as [_ HS]. fold listing in HS.
  pose proof (nested_path_in ost inner d c r Hsd Ho Hd Hat) as Hchild. fold listing in Hchild.
  destruct Hsd as [Hok Hnd]. pose proof Hok as Hok0. rewrite Forall_forall in Hok.
  destruct (Hok _ Hd) as (Hw & _ & Hwf).
  assert (Hns : Forall nosep (st_path ost :: sd_name d :: c)).
  { constructor; [apply wf_name_nosep; auto|]. constructor; [apply wf_name_nosep; auto|].
    eapply tree_at_nosep; eauto. }
  assert (Hpar : exists par l, st_path ost :: sd_name d :: c = par ++ [l] /\ par <> [] /\ In (joinc par) (map fst listing)).
  { induction c as [|n c' _] using rev_ind.
    - exists [st_path ost], (sd_name d). split; [reflexivity|]. split; [discriminate|]. left. reflexivity.
    - exists (st_path ost :: sd_name d :: c'), n. split; [reflexivity|]. split; [discriminate|].
      destruct (tree_at_prefix _ _ _ _ Hat) as [r' Hat'].
      apply (nested_path_in ost inner d c' r' (conj Hok0 Hnd) Ho Hd Hat'). }
  destruct Hpar as (par & l & Efull & Hpne & Hpin).
  rewrite Efull in *. rewrite removelast_last.
  assert (Hlt : path_lt (joinc par) (joinc (par ++ [l]))).
  { unfold path_lt. apply Forall_app in Hns. destruct Hns as [Hn1 Hn2].
    rewrite compare_path_joinc; auto.
    - apply lex_prefix_lt. discriminate.
    - destruct par; [congruence|discriminate].
    - apply Forall_app. split; auto. }
  destruct (SS_split_lt path_lt _ _ _ path_lt_asym path_lt_irrefl HS Hpin Hchild Hlt) as (pre & post & E & Hin).
  apply map_split_at in E. destruct E as (l1 & x & l2 & E & E1 & E2 & E3).
  exists l1, x, l2. rewrite E1. auto.
Qed.
