(* C14 — the copier's target-side steps (Model/CopyFs.v) keep the containment invariant. *)
From Coq Require Import List NArith Lia Bool ZifyN ZifyNat ZifyBool.
From FS Require Import Sx Model.Path Model.Fs Model.RootPath Model.CopyFs Model.CopyFsSpec
  Proofs.Lex Proofs.PathP Proofs.FsP Proofs.RootPathStrP Proofs.FsCopyFrameP Proofs.FsCopyInvP
  Proofs.FsCopySafeP Proofs.FsCopySysP.
Import ListNotations.
Open Scope N_scope.
Open Scope bool_scope.

(* ---- the state monad ---- *)
Lemma sys_run op s : sys op s =
  ({| s_fs := fst (op (s_fs s)); s_links := s_links s; s_reads := s_reads s |}, inl (snd (op (s_fs s)))).
Proof. unfold sys. destruct (op (s_fs s)); reflexivity. Qed.

Lemma bind_run {A B} (m : M A) (k : A -> M B) s :
  bind m k s = match m s with (s', inl a) => k a s' | (s', inr e) => (s', inr e) end.
Proof. reflexivity. Qed.

Lemma expect_ok_run r s : expect_ok r s = (s, match r with ROk | RFd _ => inl tt | _ => inr E_SYS end).
Proof. destruct r; reflexivity. Qed.


Section Copy.
  Variables (c : ctx) (f0 : fs) (dr : N) (dcs : list bytes).
  Notation Ctx := (Ctx c f0 dr dcs).
  Notation tpath := (tpath dcs).
  Notation SS := (SS f0 dr).
  Notation Tgt := (Tgt c f0 dr dcs).
  Notation names_ss := (names_ss f0 dr).
  Notation meta_post := (meta_post c f0 dr dcs).
  Let b := f_next f0.

  (* a step that stays at or below directory d *)
  Definition stays (d : N) (s s' : cst) : Prop :=
    Ctx (s_fs s') /\ above d (s_fs s) (s_fs s').

  Lemma stays_refl d s : Ctx (s_fs s) -> stays d s s.
  Proof. intros C. split; auto. apply above_refl. Qed.

  Lemma stays_trans d s1 s2 s3 : is_dir (s_fs s1) d = true -> stays d s1 s2 -> stays d s2 s3 -> stays d s1 s3.
  Proof.
    intros Hd (C2 & A2) (C3 & A3). split; auto. eapply above_trans; eauto.
  Qed.

  Lemma stays_meta d s s' : meta_post (s_fs s) (s_fs s') -> stays d s s'.
  Proof. intros (C & A & _). split; auto. Qed.

  Lemma tgt_stays s s' cs d x : Tgt (s_fs s) cs d x -> stays d s s' -> Tgt (s_fs s') cs d x.
  Proof. intros T (C & A). eapply tgt_step; eauto. Qed.

  (* ---- lstat_opt ---- *)
  Lemma lstat_opt_spec s s' r cs d x : Tgt (s_fs s) cs d x -> lstat_opt c (tpath cs x) s = (s', r) ->
    s_fs s' = s_fs s /\ s_links s' = s_links s /\
    match r with
    | inl (Some (i, n)) => blookup x (dents (s_fs s) d) = Some i /\ get (s_fs s) i = Some n
    | inl None => absent (s_fs s) d x
    | inr _ => True
    end.
  Proof.
    intros T H. unfold lstat_opt in H. rewrite bind_run, sys_run in H. cbn [fst snd] in H.
    pose proof (t_lstat c f0 dr dcs (s_fs s) cs d x T) as Hl.
    rewrite sys_lstat_fs in H.
    destruct (snd (sys_lstat c (s_fs s) (tpath cs x))) as [|e|i n| | |]; try (inversion H; subst; simpl; auto).
    destruct e; inversion H; subst; simpl; auto.
  Qed.

  (* running one system call that satisfies a [stays]-style lemma *)
  Lemma sys_stays d s op : Ctx (fst (op (s_fs s))) -> above d (s_fs s) (fst (op (s_fs s))) ->
    stays d s (fst (sys op s)).
  Proof. intros C A. rewrite sys_run. split; auto. Qed.

  Notation outcome := FsCopySysP.outcome.

  Definition mk (s : cst) (f : fs) : cst := {| s_fs := f; s_links := s_links s; s_reads := s_reads s |}.
  Lemma mk_stays d s f : Ctx f -> above d (s_fs s) f -> stays d s (mk s f).
  Proof. intros C A. split; auto. Qed.

  (* ---- os.Remove / ensureEmptyFileTarget / removeTargetIfNeeded ---- *)
  Lemma os_remove_spec s s' r cs d x : Tgt (s_fs s) cs d x -> os_remove c (tpath cs x) s = (s', r) ->
    stays d s s' /\ (r = inl tt -> blookup x (dents (s_fs s') d) = None).
  Proof.
    intros T H. unfold os_remove in H. rewrite bind_run, sys_run in H. cbn [fst snd] in H.
    destruct (sys_unlink c (s_fs s) (tpath cs x)) as [f1 r1] eqn:E1. cbn [fst snd] in H.
    destruct (t_unlink c f0 dr dcs _ cs d x f1 r1 T E1) as (C1 & A1 & [[e ->]|[-> P1]]).
    - fold (mk s f1) in H. pose proof (mk_stays d s f1 C1 A1) as S1.
      rewrite bind_run, sys_run in H. cbn [fst snd] in H.
      destruct (sys_rmdir c (s_fs (mk s f1)) (tpath cs x)) as [f2 r2] eqn:E2. cbn [fst snd] in H.
      assert (T1 : Tgt (s_fs (mk s f1)) cs d x) by (eapply tgt_stays; eauto).
      destruct (t_rmdir c f0 dr dcs _ cs d x f2 r2 T1 E2) as (C2 & A2 & [[e2 ->]|[-> P2]]);
        rewrite expect_ok_run in H; injection H as <- <-.
      + split; [|discriminate]. eapply stays_trans; eauto; [eapply tgt_dir; eauto|]. apply (mk_stays d (mk s f1) f2); auto.
      + split; [|intros _; exact P2]. eapply stays_trans; eauto; [eapply tgt_dir; eauto|]. apply (mk_stays d (mk s f1) f2); auto.
    - injection H as <- <-. split; [apply mk_stays; auto|]. intros _. exact P1.
  Qed.

  Lemma absent_none f d x : blookup x (dents f d) = None -> absent f d x.
  Proof. intros H. unfold absent. rewrite H. exact I. Qed.

  Lemma ensure_empty_spec s s' r cs d x : Tgt (s_fs s) cs d x ->
    ensure_empty_file_target c (tpath cs x) s = (s', r) ->
    stays d s s' /\ (r = inl tt -> absent (s_fs s') d x).
  Proof.
    intros T H. unfold ensure_empty_file_target in H. rewrite bind_run in H.
    destruct (lstat_opt c (tpath cs x) s) as [s1 [o|e]] eqn:E1.
    - destruct (lstat_opt_spec s s1 _ cs d x T E1) as (F1 & L1 & P1).
      assert (S1 : stays d s s1).
      { split; [rewrite F1; apply T|]. rewrite F1; apply above_refl. }
      destruct o as [[i n]|].
      + destruct (kind_is_dir n).
        * injection H as <- <-. split; auto. discriminate.
        * assert (T1 : Tgt (s_fs s1) cs d x) by (rewrite F1; auto).
          destruct (os_remove_spec s1 s' r cs d x T1 H) as (S2 & P2).
          split; [eapply stays_trans; eauto; eapply tgt_dir; eauto|]. intros Hr. apply absent_none. auto.
      + injection H as <- <-. split; auto. intros _. rewrite F1. exact P1.
    - injection H as <- <-. destruct (lstat_opt_spec s s1 _ cs d x T E1) as (F1 & L1 & _).
      split; [|discriminate]. split; [rewrite F1; apply T|]. rewrite F1; apply above_refl.
  Qed.

  Lemma remove_target_spec s s' r cs d x o fi tfi : Tgt (s_fs s) cs d x ->
    remove_target_if_needed c o (tpath cs x) fi tfi s = (s', r) -> stays d s s'.
  Proof.
    intros T H. unfold remove_target_if_needed in H.
    destruct (negb (o_always_replace o)); [injection H as <- <-; apply stays_refl; apply T|].
    destruct tfi as [[ti tn]|]; [|injection H as <- <-; apply stays_refl; apply T].
    destruct (kind_is_dir fi && kind_is_dir tn); [injection H as <- <-; apply stays_refl; apply T|].
    rewrite bind_run in H. unfold forget_links at 1 in H.
    set (s0 := {| s_fs := s_fs s; s_links := _; s_reads := s_reads s |}) in H.
    rewrite bind_run, sys_run in H. cbn [fst snd] in H. change (s_fs s0) with (s_fs s) in H.
    destruct (sys_remove_all c (s_fs s) (tpath cs x)) as [f1 r1] eqn:E1. cbn [fst snd] in H.
    destruct (t_remove_all c f0 dr dcs _ cs d x f1 r1 T E1) as (C1 & A1 & _).
    rewrite expect_ok_run in H. injection H as <- <-. split; auto.
  Qed.

  (* ---- copyDirectoryOnly ---- *)
  Lemma copy_directory_only_spec s s' r cs d x fi ow : Tgt (s_fs s) cs d x ->
    copy_directory_only c (tpath cs x) fi ow s = (s', r) ->
    stays d s s' /\
    (forall created, r = inl created ->
       exists d1, blookup x (dents (s_fs s') d) = Some d1 /\ is_dir (s_fs s') d1 = true).
  Proof.
    intros T H. unfold copy_directory_only in H. rewrite bind_run in H.
    destruct (lstat_opt c (tpath cs x) s) as [s1 [o|e]] eqn:E1.
    2:{ injection H as <- <-. destruct (lstat_opt_spec s s1 _ cs d x T E1) as (F1 & L1 & _).
        split; [|discriminate]. split; [rewrite F1; apply T|]. rewrite F1; apply above_refl. }
    destruct (lstat_opt_spec s s1 _ cs d x T E1) as (F1 & L1 & P1).
    assert (S1 : stays d s s1).
    { split; [rewrite F1; apply T|]. rewrite F1; apply above_refl. }
    assert (T1 : Tgt (s_fs s1) cs d x) by (rewrite F1; auto).
    assert (Hd : is_dir (s_fs s) d = true) by (eapply tgt_dir; eauto).
    destruct o as [[i n]|].
    - destruct P1 as [Pb Pg]. destruct (kind_is_dir n) eqn:Ek; simpl in H.
      + assert (Hi : is_dir (s_fs s1) i = true).
        { rewrite F1. unfold is_dir, dir_of. rewrite Pg. unfold kind_is_dir in Ek. destruct n as [[p es|?|?|? ?] m]; simpl in *; auto; discriminate. }
        destruct ow.
        * rewrite bind_run, sys_run in H. cbn [fst snd] in H.
          destruct (sys_chmod c (s_fs s1) (tpath cs x) (m_mode (i_meta fi))) as [f2 r2] eqn:E2. cbn [fst snd] in H.
          assert (Hss : names_ss (s_fs s1) d x i).
          { split; [rewrite F1; auto|]. eapply (SS_closed f0 dr (s_fs s1) d x i); eauto.
            - eapply tgt_inv; eauto. - eapply tgt_SS; eauto. - rewrite F1; auto. }
          assert (Hnl : FsP.is_link (s_fs s1) i = false).
          { unfold FsP.is_link. rewrite F1, Pg. unfold kind_is_dir in Ek. destruct n as [[p es|?|?|? ?] m]; simpl in *; auto; discriminate. }
          pose proof (t_chmod c f0 dr dcs _ cs d x i _ f2 r2 T1 Hss Hnl E2) as MP.
          fold (mk s1 f2) in H.
          assert (S2 : stays d s1 (mk s1 f2)) by (apply stays_meta; auto).
          rewrite bind_run, expect_ok_run in H.
          destruct MP as (C2 & A2 & D2 & I2 & _).
          destruct r2; injection H as <- <-;
            (split; [eapply stays_trans; eauto; rewrite F1; auto|]); try discriminate;
            intros created _; exists i; simpl; rewrite D2, I2; rewrite F1 in *; auto.
        * injection H as <- <-. split; auto. intros created _. exists i. rewrite F1 in *. auto.
      + injection H as <- <-. split; auto. discriminate.
    - rewrite bind_run, sys_run in H. cbn [fst snd] in H.
      destruct (sys_mkdir c (s_fs s1) (tpath cs x) (m_mode (i_meta fi))) as [f2 r2] eqn:E2. cbn [fst snd] in H.
      destruct (t_mkdir c f0 dr dcs _ cs d x _ f2 r2 T1 E2) as (C2 & A2 & [[e ->]|[-> [Hc Hi]]]);
        fold (mk s1 f2) in H; rewrite bind_run, expect_ok_run in H; injection H as <- <-.
      + split; [|discriminate]. eapply stays_trans; eauto. apply mk_stays; auto.
      + split; [eapply stays_trans; eauto; apply mk_stays; auto|].
        intros created _. exists (f_next (s_fs s1)). simpl. split; auto. apply Hc.
  Qed.
End Copy.
