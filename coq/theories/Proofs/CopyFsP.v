(* C14 — the copier's target-side steps (Model/CopyFs.v) keep the containment invariant. *)
From Coq Require Import List NArith Lia Bool ZifyN ZifyNat ZifyBool.
From FS Require Import Sx Model.Path Model.Fs Model.RootPath Model.CopyFs Model.CopyFsSpec
  Proofs.Lex Proofs.PathP Proofs.FsP Proofs.RootPathStrP Proofs.FsCopyFrameP Proofs.FsCopyInvP
  Proofs.FsCopySafeP Proofs.FsCopyLinksP Proofs.FsCopySysP.
Import ListNotations.
Open Scope N_scope.
Open Scope bool_scope.

(* ---- the state monad ---- *)
Lemma sys_run op s : sys op s =
  ({| s_fs := fst (op (s_fs s)); s_links := s_links s; s_parents := s_parents s; s_reads := s_reads s |}, inl (snd (op (s_fs s)))).
Proof. unfold sys. destruct (op (s_fs s)); reflexivity. Qed.

Lemma bind_run {A B} (m : M A) (k : A -> M B) s :
  bind m k s = match m s with (s', inl a) => k a s' | (s', inr e) => (s', inr e) end.
Proof. reflexivity. Qed.

Lemma expect_ok_run r s : expect_ok r s = (s, match r with ROk | RFd _ => inl tt | _ => inr E_SYS end).
Proof. destruct r; reflexivity. Qed.

Definition mk (s : cst) (f : fs) : cst := {| s_fs := f; s_links := s_links s; s_parents := s_parents s; s_reads := s_reads s |}.

Section Copy.
  Variables (c : ctx) (f0 : fs) (dr : N) (dcs : list bytes).
  Notation Ctx := (Ctx c f0 dr dcs).
  Notation tpath := (tpath dcs).
  Notation SS := (SS f0 dr).
  Notation Tgt := (Tgt c f0 dr dcs).
  Notation names_ss := (names_ss f0 dr).
  Notation meta_post := (meta_post c f0 dr dcs).
  Notation links_ok := (links_ok f0 dr dcs).
  Notation link_ok := (link_ok f0 dr dcs).
  Notation outcome := FsCopySysP.outcome.
  Let b := f_next f0.
  Notation keeps_new := (keeps_new dr (f_next f0)).

  Definition lok (s : cst) : Prop := links_ok (s_fs s) (s_links s).
  (* no recorded path lies at or below p *)
  Definition forgotten (s : cst) (p : bytes) : Prop := forall e, In e (s_links s) -> forget_path p (snd e) = false.

  (* a step that stays at or below directory d *)
  Definition stays (d : N) (s s' : cst) : Prop :=
    Ctx (s_fs s') /\ above d (s_fs s) (s_fs s') /\ (lok s -> lok s') /\ keeps_new (s_fs s) (s_fs s') /\
    s_parents s' = s_parents s.

  Lemma stays_refl d s : Ctx (s_fs s) -> stays d s s.
  Proof. intros C. split; auto. split; [apply above_refl|]. split; [auto|]. split; [apply keeps_new_refl|reflexivity]. Qed.

  Lemma stays_trans d s1 s2 s3 : is_dir (s_fs s1) d = true -> stays d s1 s2 -> stays d s2 s3 -> stays d s1 s3.
  Proof.
    intros Hd (C2 & A2 & L2 & K2 & P2) (C3 & A3 & L3 & K3 & P3). split; auto. split; [eapply above_trans; eauto|].
    split; [auto|]. split; [eapply keeps_new_trans; eauto|congruence].
  Qed.

  Lemma stays_same d s s' : Ctx (s_fs s) -> s_fs s' = s_fs s -> s_links s' = s_links s -> s_parents s' = s_parents s ->
    stays d s s'.
  Proof.
    intros C E1 E2 E3. split; [rewrite E1; auto|]. split; [rewrite E1; apply above_refl|].
    split; [unfold lok; rewrite E1, E2; auto|]. split; [rewrite E1; apply keeps_new_refl|exact E3].
  Qed.

  Lemma stays_grows d s f : Ctx f -> above d (s_fs s) f -> grows (s_fs s) f -> keeps_new (s_fs s) f -> stays d s (mk s f).
  Proof.
    intros C A G K. split; auto. split; auto. split; [|split; auto]. unfold lok. simpl. intros H. eapply links_ok_grows; eauto.
  Qed.

  Lemma stays_meta d s f : meta_post (s_fs s) f -> stays d s (mk s f).
  Proof. intros M. pose proof (k_meta c f0 dr dcs _ _ M) as K. destruct M as (C & A & _ & _ & _ & _ & _ & G). apply stays_grows; auto. Qed.

  Lemma stays_shrinks s f cs d x : Tgt (s_fs s) cs d x -> Ctx f -> above d (s_fs s) f -> shrinks (s_fs s) f d x ->
    keeps_new (s_fs s) f -> forgotten s (tpath cs x) -> stays d s (mk s f).
  Proof.
    intros T C A S K Hf. split; auto. split; auto. split; [|split; auto]. unfold lok. simpl. intros H e He.
    eapply (link_ok_shrinks c f0 dr dcs (s_fs s) f cs d x); eauto; try apply T.
  Qed.

  Lemma tgt_stays s s' cs d x : Tgt (s_fs s) cs d x -> stays d s s' -> Tgt (s_fs s') cs d x.
  Proof. intros T (C & A & _). eapply tgt_step; eauto. Qed.

  Lemma forgotten_mk s f p : forgotten s p -> forgotten (mk s f) p.
  Proof. intros H e He. apply H. exact He. Qed.

  (* ---- lstat_opt ---- *)
  Lemma lstat_opt_spec s s' r cs d x : Tgt (s_fs s) cs d x -> lstat_opt c (tpath cs x) s = (s', r) ->
    s_fs s' = s_fs s /\ s_links s' = s_links s /\
    match r with
    | inl (Some (i, n)) => blookup x (dents (s_fs s) d) = Some i /\ get (s_fs s) i = Some n
    | inl None => absent (s_fs s) d x
    | inr _ => True
    end.
  Proof.
    intros T H. unfold lstat_opt in H. rewrite bind_run, sys_run in H. cbn [fst snd] in H.
    pose proof (t_lstat c f0 dr dcs (s_fs s) cs d x T) as Hl.
    rewrite sys_lstat_fs in H.
    destruct (snd (sys_lstat c (s_fs s) (tpath cs x))) as [|e|i n| | |]; try (inversion H; subst; simpl; auto).
    destruct e; inversion H; subst; simpl; auto.
  Qed.

  Lemma lstat_opt_parents p s s' r : lstat_opt c p s = (s', r) -> s_parents s' = s_parents s.
  Proof.
    unfold lstat_opt. rewrite bind_run, sys_run. cbn [fst snd].
    destruct (snd (sys_lstat c (s_fs s) p)) as [|e|i n| | |]; try (intros H; inversion H; subst; reflexivity).
    destruct e; intros H; inversion H; subst; reflexivity.
  Qed.
  Lemma lstat_opt_nd_parents p s s' r : lstat_opt_nd c p s = (s', r) -> s_parents s' = s_parents s.
  Proof.
    unfold lstat_opt_nd. rewrite bind_run, sys_run. cbn [fst snd].
    destruct (snd (sys_lstat c (s_fs s) p)) as [|e|i n| | |]; try (intros H; inversion H; subst; reflexivity).
    destruct e; intros H; inversion H; subst; reflexivity.
  Qed.

  (* a lookup of a target path cannot report ENOTDIR *)
  Lemma lstat_opt_nd_spec s s' r cs d x : Tgt (s_fs s) cs d x -> lstat_opt_nd c (tpath cs x) s = (s', r) ->
    s_fs s' = s_fs s /\ s_links s' = s_links s /\
    match r with
    | inl (Some (i, n)) => blookup x (dents (s_fs s) d) = Some i /\ get (s_fs s) i = Some n
    | inl None => absent (s_fs s) d x
    | inr _ => True
    end.
  Proof.
    intros T H. unfold lstat_opt_nd in H. rewrite bind_run, sys_run in H. cbn [fst snd] in H.
    pose proof (t_lstat c f0 dr dcs (s_fs s) cs d x T) as Hl.
    rewrite sys_lstat_fs in H.
    assert (Hnd : snd (sys_lstat c (s_fs s) (tpath cs x)) <> RErr ENOTDIR).
    { unfold sys_lstat, resolve_ino. destruct (resolve c (s_fs s) (tpath cs x) false) as [r0|e] eqn:E.
      - destruct (l_ino r0) as [i|]; [destruct (get (s_fs s) i)|]; simpl; discriminate.
      - destruct (resolve_tpath_err c f0 dr dcs (s_fs s) cs d x false e) as [->|[G _]]; try apply T; auto;
          simpl; discriminate. }
    destruct (snd (sys_lstat c (s_fs s) (tpath cs x))) as [|e|i n| | |]; try (inversion H; subst; simpl; auto).
    destruct e; try (inversion H; subst; simpl; auto; fail). congruence.
  Qed.

  (* ---- os.Remove / ensureEmptyFileTarget / removeTargetIfNeeded ---- *)
  Lemma os_remove_spec s s' r cs d x : Tgt (s_fs s) cs d x -> forgotten s (tpath cs x) ->
    os_remove c (tpath cs x) s = (s', r) ->
    stays d s s' /\ s_links s' = s_links s /\ (r = inl tt -> blookup x (dents (s_fs s') d) = None).
  Proof.
    intros T Hf H. unfold os_remove in H. rewrite bind_run, sys_run in H. cbn [fst snd] in H.
    destruct (sys_unlink c (s_fs s) (tpath cs x)) as [f1 r1] eqn:E1. cbn [fst snd] in H.
    pose proof (s_unlink c f0 dr dcs _ cs d x f1 r1 T E1) as Sh1.
    pose proof (k_unlink c f0 dr dcs _ cs d x f1 r1 T E1) as K1.
    destruct (t_unlink c f0 dr dcs _ cs d x f1 r1 T E1) as (C1 & A1 & [[e ->]|[-> P1]]).
    - fold (mk s f1) in H. pose proof (stays_shrinks s f1 cs d x T C1 A1 Sh1 K1 Hf) as S1.
      rewrite bind_run, sys_run in H. cbn [fst snd] in H.
      destruct (sys_rmdir c (s_fs (mk s f1)) (tpath cs x)) as [f2 r2] eqn:E2. cbn [fst snd] in H.
      assert (T1 : Tgt (s_fs (mk s f1)) cs d x) by (eapply tgt_stays; eauto).
      pose proof (s_rmdir c f0 dr dcs _ cs d x f2 r2 T1 E2) as Sh2.
      pose proof (k_rmdir c f0 dr dcs _ cs d x f2 r2 T1 E2) as K2.
      assert (S2 : Ctx f2 -> above d (s_fs (mk s f1)) f2 -> stays d (mk s f1) (mk (mk s f1) f2)).
      { intros C2 A2. apply (stays_shrinks (mk s f1) f2 cs d x T1 C2 A2 Sh2 K2). apply forgotten_mk; auto. }
      destruct (t_rmdir c f0 dr dcs _ cs d x f2 r2 T1 E2) as (C2 & A2 & [[e2 ->]|[-> P2]]);
        rewrite expect_ok_run in H; injection H as <- <-.
      + split; [|split; [reflexivity|discriminate]]. eapply stays_trans; eauto. eapply tgt_dir; eauto.
      + split; [|split; [reflexivity|intros _; exact P2]]. eapply stays_trans; eauto. eapply tgt_dir; eauto.
    - injection H as <- <-. split; [apply (stays_shrinks s f1 cs d x T C1 A1 Sh1 K1 Hf)|].
      split; [reflexivity|]. intros _. exact P1.
  Qed.

  Lemma absent_none f d x : blookup x (dents f d) = None -> absent f d x.
  Proof. intros H. unfold absent. rewrite H. exact I. Qed.

  Lemma absent_not_some f d x i n : absent f d x -> blookup x (dents f d) = Some i -> get f i = Some n -> False.
  Proof. unfold absent. intros H Hb Hg. rewrite Hb in H. congruence. Qed.

  Lemma ensure_empty_spec s s' r cs d x : Tgt (s_fs s) cs d x ->
    forgotten s (tpath cs x) \/ absent (s_fs s) d x ->
    ensure_empty_file_target c (tpath cs x) s = (s', r) ->
    stays d s s' /\ s_links s' = s_links s /\ (r = inl tt -> absent (s_fs s') d x).
  Proof.
    intros T Hpre H. unfold ensure_empty_file_target in H. rewrite bind_run in H.
    destruct (lstat_opt c (tpath cs x) s) as [s1 [o|e]] eqn:E1.
    - destruct (lstat_opt_spec s s1 _ cs d x T E1) as (F1 & L1 & P1).
      pose proof (lstat_opt_parents _ _ _ _ E1) as Q1.
      assert (S1 : stays d s s1) by (apply stays_same; auto; apply T).
      destruct o as [[i n]|].
      + destruct P1 as [Pb Pg]. destruct (kind_is_dir n).
        * injection H as <- <-. split; auto. split; auto. discriminate.
        * assert (T1 : Tgt (s_fs s1) cs d x) by (rewrite F1; auto).
          assert (Hf1 : forgotten s1 (tpath cs x)).
          { destruct Hpre as [Hf|Hab]; [intros e He; apply Hf; rewrite <- L1; auto|].
            exfalso. eapply absent_not_some; eauto. }
          destruct (os_remove_spec s1 s' r cs d x T1 Hf1 H) as (S2 & L2 & P2).
          split; [eapply stays_trans; eauto; eapply tgt_dir; eauto|]. split; [congruence|].
          intros Hr. apply absent_none. auto.
      + injection H as <- <-. split; auto. split; auto. intros _. rewrite F1. exact P1.
    - injection H as <- <-. destruct (lstat_opt_spec s s1 _ cs d x T E1) as (F1 & L1 & _).
      pose proof (lstat_opt_parents _ _ _ _ E1) as Q1.
      split; [apply stays_same; auto; apply T|]. split; auto. discriminate.
  Qed.

  Lemma forget_links_run p s : forget_links p s =
    ({| s_fs := s_fs s; s_links := filter (fun e => negb (forget_path p (snd e))) (s_links s); s_parents := s_parents s; s_reads := s_reads s |}, inl tt).
  Proof. reflexivity. Qed.

  Lemma forget_links_spec p s d : Ctx (s_fs s) ->
    let s' := fst (forget_links p s) in
    stays d s s' /\ forgotten s' p /\ s_fs s' = s_fs s.
  Proof.
    intros C s'. unfold s'. rewrite forget_links_run. cbn [fst]. split; [|split; [|reflexivity]].
    - split; [exact C|]. split; [apply above_refl|]. split; [|split; [apply keeps_new_refl|reflexivity]]. unfold lok. simpl. intros H e He.
      apply filter_In in He. apply H. apply He.
    - intros e He. simpl in He. apply filter_In in He. destruct He as [_ He]. apply negb_true_iff in He. exact He.
  Qed.

  Lemma remove_target_spec s s' r cs d x o fi tfi : Tgt (s_fs s) cs d x ->
    remove_target_if_needed c o (tpath cs x) fi tfi s = (s', r) ->
    stays d s s' /\ (forall p, forgotten s p -> forgotten s' p).
  Proof.
    intros T H. unfold remove_target_if_needed in H.
    destruct (negb (o_always_replace o)); [injection H as <- <-; split; auto; apply stays_refl; apply T|].
    destruct tfi as [[ti tn]|]; [|injection H as <- <-; split; auto; apply stays_refl; apply T].
    destruct (kind_is_dir fi && kind_is_dir tn); [injection H as <- <-; split; auto; apply stays_refl; apply T|].
    rewrite bind_run, forget_links_run in H.
    destruct (forget_links_spec (tpath cs x) s d (tg_ctx _ _ _ _ _ _ _ _ T)) as (S0 & F0 & E0).
    rewrite forget_links_run in S0, F0, E0. cbn [fst] in S0, F0, E0.
    set (s0 := {| s_fs := s_fs s; s_links := _; s_parents := _; s_reads := s_reads s |}) in *.
    rewrite bind_run, sys_run in H. cbn [fst snd] in H. change (s_fs s0) with (s_fs s) in H.
    destruct (sys_remove_all c (s_fs s) (tpath cs x)) as [f1 r1] eqn:E1. cbn [fst snd] in H.
    pose proof (s_remove_all c f0 dr dcs _ cs d x f1 r1 T E1) as Sh1.
    pose proof (k_remove_all c f0 dr dcs _ cs d x f1 r1 T E1) as K1.
    destruct (t_remove_all c f0 dr dcs _ cs d x f1 r1 T E1) as (C1 & A1 & _).
    rewrite expect_ok_run in H. injection H as <- <-.
    assert (T0 : Tgt (s_fs s0) cs d x) by exact T.
    split.
    - eapply stays_trans; [eapply tgt_dir; eauto|exact S0|]. apply (stays_shrinks s0 f1 cs d x T0 C1 A1 Sh1 K1 F0).
    - intros p Hp e He. simpl in He. apply filter_In in He. apply Hp. apply He.
  Qed.

  (* ---- copyDirectoryOnly ---- *)
  Lemma copy_directory_only_spec s s' r cs d x fi ow : Tgt (s_fs s) cs d x ->
    copy_directory_only c (tpath cs x) fi ow s = (s', r) ->
    stays d s s' /\ s_links s' = s_links s /\
    (forall created, r = inl created ->
       exists d1, blookup x (dents (s_fs s') d) = Some d1 /\ is_dir (s_fs s') d1 = true).
  Proof.
    intros T H. unfold copy_directory_only in H. rewrite bind_run in H.
    destruct (lstat_opt c (tpath cs x) s) as [s1 [o|e]] eqn:E1.
    2:{ injection H as <- <-. destruct (lstat_opt_spec s s1 _ cs d x T E1) as (F1 & L1 & _).
        pose proof (lstat_opt_parents _ _ _ _ E1) as Q1.
        split; [apply stays_same; auto; apply T|]. split; auto. discriminate. }
    destruct (lstat_opt_spec s s1 _ cs d x T E1) as (F1 & L1 & P1).
    pose proof (lstat_opt_parents _ _ _ _ E1) as Q1.
    assert (S1 : stays d s s1) by (apply stays_same; auto; apply T).
    assert (T1 : Tgt (s_fs s1) cs d x) by (rewrite F1; auto).
    assert (Hd : is_dir (s_fs s) d = true) by (eapply tgt_dir; eauto).
    destruct o as [[i n]|].
    - destruct P1 as [Pb Pg]. destruct (kind_is_dir n) eqn:Ek; simpl in H.
      + assert (Hi : is_dir (s_fs s1) i = true).
        { rewrite F1. unfold is_dir, dir_of. rewrite Pg. unfold kind_is_dir in Ek. destruct n as [[p es|?|?|? ?] m]; simpl in *; auto; discriminate. }
        destruct ow.
        * rewrite bind_run, sys_run in H. cbn [fst snd] in H.
          destruct (sys_chmod c (s_fs s1) (tpath cs x) (m_mode (i_meta fi))) as [f2 r2] eqn:E2. cbn [fst snd] in H.
          assert (Hss : names_ss (s_fs s1) d x i).
          { split; [rewrite F1; auto|]. eapply (SS_closed f0 dr (s_fs s1) d x i); eauto.
            - eapply tgt_inv; eauto. - eapply tgt_SS; eauto. - rewrite F1; auto. }
          assert (Hnl : FsP.is_link (s_fs s1) i = false).
          { unfold FsP.is_link. rewrite F1, Pg. unfold kind_is_dir in Ek. destruct n as [[p es|?|?|? ?] m]; simpl in *; auto; discriminate. }
          pose proof (t_chmod c f0 dr dcs _ cs d x i _ f2 r2 T1 Hss Hnl E2) as MP.
          fold (mk s1 f2) in H.
          assert (S2 : stays d s1 (mk s1 f2)) by (apply stays_meta; auto).
          rewrite bind_run, expect_ok_run in H.
          destruct MP as (C2 & A2 & D2 & I2 & _).
          destruct r2; injection H as <- <-;
            (split; [eapply stays_trans; eauto; rewrite F1; auto|]); (split; [simpl; auto|]); try discriminate;
            intros created _; exists i; simpl; rewrite D2, I2; rewrite F1 in *; auto.
        * injection H as <- <-. split; auto. split; auto. intros created _. exists i. rewrite F1 in *. auto.
      + injection H as <- <-. split; auto. split; auto. discriminate.
    - rewrite bind_run, sys_run in H. cbn [fst snd] in H.
      destruct (sys_mkdir c (s_fs s1) (tpath cs x) (m_mode (i_meta fi))) as [f2 r2] eqn:E2. cbn [fst snd] in H.
      pose proof (g_mkdir c f0 dr dcs _ cs d x _ f2 r2 T1 E2) as G2.
      pose proof (k_mkdir c f0 dr dcs _ cs d x _ f2 r2 T1 E2) as K2.
      destruct (t_mkdir c f0 dr dcs _ cs d x _ f2 r2 T1 E2) as (C2 & A2 & [[e ->]|[-> [Hc Hi]]]);
        fold (mk s1 f2) in H; rewrite bind_run, expect_ok_run in H; injection H as <- <-.
      + split; [|split; [simpl; auto|discriminate]]. eapply stays_trans; eauto. apply stays_grows; auto.
      + split; [eapply stays_trans; eauto; apply stays_grows; auto|]. split; [simpl; auto|].
        intros created _. exists (f_next (s_fs s1)). simpl. split; auto. apply Hc.
  Qed.

  (* ---- metadata of the target: copyFileTimestamp / copyFileInfo / copyXAttrs ---- *)
  (* the name x stands for the SS inode i throughout *)
  Definition mstep (s s' : cst) : Prop := meta_post (s_fs s) (s_fs s') /\ s_links s' = s_links s /\ s_parents s' = s_parents s.

  Lemma mstep_refl s : Ctx (s_fs s) -> mstep s s.
  Proof. intros C. split; auto. apply meta_post_refl; auto. Qed.
  Lemma mstep_same s s' : Ctx (s_fs s) -> s_fs s' = s_fs s -> s_links s' = s_links s -> s_parents s' = s_parents s -> mstep s s'.
  Proof. intros C E1 E2 E3. split; auto. rewrite E1. apply meta_post_refl; auto. Qed.
  Lemma mstep_trans s1 s2 s3 : mstep s1 s2 -> mstep s2 s3 -> mstep s1 s3.
  Proof. intros (A1 & B1 & P1) (A2 & B2 & P2). split; [eapply meta_post_trans; eauto|split; congruence]. Qed.
  Lemma mstep_mk s f : meta_post (s_fs s) f -> mstep s (mk s f).
  Proof. intros H. split; auto. Qed.

  Lemma mstep_stays d s s' : mstep s s' -> stays d s s'.
  Proof.
    intros (M & E & Ep). pose proof (k_meta c f0 dr dcs _ _ M) as K.
    destruct M as (C & A & _ & _ & _ & _ & _ & G). split; auto. split; auto. split; [|split; auto].
    unfold lok. rewrite E. intros H. eapply links_ok_grows; eauto.
  Qed.

  Lemma mstep_tgt s s' cs d x : Tgt (s_fs s) cs d x -> mstep s s' -> Tgt (s_fs s') cs d x.
  Proof. intros T M. eapply tgt_stays; eauto. eapply mstep_stays; eauto. Qed.

  Lemma mstep_names s s' d x i : names_ss (s_fs s) d x i -> mstep s s' -> names_ss (s_fs s') d x i.
  Proof. intros H (M & _). eapply names_ss_meta; eauto. Qed.

  Lemma mstep_link s s' i : mstep s s' -> FsP.is_link (s_fs s') i = FsP.is_link (s_fs s) i.
  Proof. intros ((_ & _ & _ & _ & L & _) & _). apply L. Qed.

  Lemma copy_file_timestamp_spec s s' r cs d x i o fi : Tgt (s_fs s) cs d x -> names_ss (s_fs s) d x i ->
    copy_file_timestamp c o fi (tpath cs x) s = (s', r) -> mstep s s'.
  Proof.
    intros T Hn H. unfold copy_file_timestamp in H. cbv zeta in H. rewrite bind_run, sys_run in H. cbn [fst snd] in H.
    destruct (sys_utimens c (s_fs s) (tpath cs x) _) as [f1 r1] eqn:E1. cbn [fst snd] in H.
    pose proof (t_utimens c f0 dr dcs _ cs d x i _ f1 r1 T Hn E1) as M1.
    rewrite expect_ok_run in H. injection H as <- <-. apply mstep_mk; auto.
  Qed.

  Lemma copy_file_info_spec s s' r cs d x i o fi : Tgt (s_fs s) cs d x -> names_ss (s_fs s) d x i ->
    (kind_is_link fi = false -> FsP.is_link (s_fs s) i = false) ->
    copy_file_info c o fi (tpath cs x) s = (s', r) -> mstep s s'.
  Proof.
    intros T Hn Hl H. unfold copy_file_info in H.
    destruct (match o_chown o with Some ug => ug | None => (m_uid (i_meta fi), m_gid (i_meta fi)) end) as [u g].
    cbv zeta in H. rewrite bind_run, sys_run in H. cbn [fst snd] in H.
    destruct (sys_lchown c (s_fs s) (tpath cs x) u g) as [f1 r1] eqn:E1. cbn [fst snd] in H.
    pose proof (t_lchown c f0 dr dcs _ cs d x i _ _ f1 r1 T Hn E1) as M1. fold (mk s f1) in H.
    assert (S1 : mstep s (mk s f1)) by (apply mstep_mk; auto).
    rewrite bind_run, expect_ok_run in H.
    destruct (match r1 with ROk | RFd _ => inl tt | _ => inr E_SYS end) as [[]|e1]; [|injection H as <- <-; auto].
    assert (T1 := mstep_tgt _ _ _ _ _ T S1). assert (N1 := mstep_names _ _ _ _ _ Hn S1).
    rewrite bind_run in H.
    destruct (kind_is_link fi) eqn:Ek; cbv iota in H.
    - cbn [ret] in H. eapply mstep_trans; eauto. eapply copy_file_timestamp_spec; eauto.
    - rewrite bind_run, sys_run in H. cbn [fst snd] in H.
      destruct (sys_chmod c (s_fs (mk s f1)) (tpath cs x) _) as [f2 r2] eqn:E2. cbn [fst snd] in H.
      assert (Hl1 : FsP.is_link (s_fs (mk s f1)) i = false) by (rewrite (mstep_link _ _ _ S1); auto).
      pose proof (t_chmod c f0 dr dcs _ cs d x i _ f2 r2 T1 N1 Hl1 E2) as M2. fold (mk (mk s f1) f2) in H.
      assert (S2 : mstep (mk s f1) (mk (mk s f1) f2)) by (apply mstep_mk; auto).
      rewrite expect_ok_run in H.
      destruct (match r2 with ROk | RFd _ => inl tt | _ => inr E_SYS end) as [[]|e2];
        [|injection H as <- <-; eapply mstep_trans; eauto].
      eapply mstep_trans; [exact S1|]. eapply mstep_trans; [exact S2|].
      eapply copy_file_timestamp_spec; [eapply mstep_tgt; eauto|eapply mstep_names; eauto|eauto].
  Qed.

  Lemma set_xattrs_spec xs : forall s s' r cs d x i, Tgt (s_fs s) cs d x -> names_ss (s_fs s) d x i ->
    set_xattrs c (tpath cs x) xs s = (s', r) -> mstep s s'.
  Proof.
    induction xs as [|[k v] xs IH]; intros s s' r cs d x i T Hn H.
    - injection H as <- <-. apply mstep_refl. apply T.
    - cbn [set_xattrs] in H. rewrite bind_run, sys_run in H. cbn [fst snd] in H.
      destruct (sys_lsetxattr c (s_fs s) (tpath cs x) k v) as [f1 r1] eqn:E1. cbn [fst snd] in H.
      pose proof (t_lsetxattr c f0 dr dcs _ cs d x i _ _ f1 r1 T Hn E1) as M1. fold (mk s f1) in H.
      assert (S1 : mstep s (mk s f1)) by (apply mstep_mk; auto).
      rewrite bind_run, expect_ok_run in H.
      destruct (match r1 with ROk | RFd _ => inl tt | _ => inr E_SYS end) as [[]|e1]; [|injection H as <- <-; auto].
      eapply mstep_trans; [exact S1|]. eapply IH; [eapply mstep_tgt; eauto|eapply mstep_names; eauto|eauto].
  Qed.

  Lemma log_read_run i s : log_read i s = ({| s_fs := s_fs s; s_links := s_links s; s_parents := s_parents s; s_reads := i :: s_reads s |}, inl tt).
  Proof. reflexivity. Qed.

  Lemma copy_xattrs_spec s s' r cs d x i src : Tgt (s_fs s) cs d x -> names_ss (s_fs s) d x i ->
    copy_xattrs c (tpath cs x) src s = (s', r) -> mstep s s'.
  Proof.
    intros T Hn H. unfold copy_xattrs in H. rewrite bind_run, sys_run in H. cbn [fst snd] in H.
    rewrite sys_lstat_fs in H.
    destruct (snd (sys_lstat c (s_fs s) src)) as [|e|j n| | |];
      try (unfold fail in H; injection H as <- <-; apply mstep_same; auto; apply T).
    rewrite bind_run, log_read_run in H.
    set (s1 := {| s_fs := s_fs s; s_links := s_links s; s_parents := s_parents s; s_reads := j :: s_reads s |}) in *.
    assert (M1 : mstep s s1) by (apply mstep_same; auto; apply T).
    eapply mstep_trans; [exact M1|]. eapply (set_xattrs_spec _ s1); eauto.
  Qed.

  (* ---- copyFile: os.Create follows, but the name is absent ---- *)
  Definition made (s' : cst) (d : N) (x : bytes) : Prop :=
    exists i, names_ss (s_fs s') d x i /\ b <= i /\ FsP.is_link (s_fs s') i = false.

  Lemma isfile_not_link f i : isfile f i -> FsP.is_link f i = false.
  Proof. intros (data & m & H). unfold FsP.is_link. rewrite H. reflexivity. Qed.

  Lemma copy_file_spec s s' r cs d x src : Tgt (s_fs s) cs d x -> absent (s_fs s) d x ->
    copy_file c src (tpath cs x) s = (s', r) ->
    stays d s s' /\ s_links s' = s_links s /\ grows (s_fs s) (s_fs s') /\
    (r = inl tt -> exists i, names_ss (s_fs s') d x i /\ b <= i /\ isfile (s_fs s') i).
  Proof.
    intros T Hab H. unfold copy_file in H. rewrite bind_run in H. unfold get_fs at 1 in H.
    destruct (resolve_ino c (s_fs s) src true) as [j|e];
      [|unfold fail in H; injection H as <- <-; split; [apply stays_refl; apply T|split; auto; split; [apply grows_refl|discriminate]]].
    destruct (get (s_fs s) j) as [[[p0 es|data|t|ty rd] m]|];
      try (unfold fail in H; injection H as <- <-; split; [apply stays_refl; apply T|split; auto; split; [apply grows_refl|discriminate]]).
    rewrite bind_run, log_read_run in H.
    set (s1 := {| s_fs := s_fs s; s_links := s_links s; s_parents := s_parents s; s_reads := j :: s_reads s |}) in *.
    assert (S1 : stays d s s1) by (apply stays_same; auto; apply T).
    rewrite bind_run, sys_run in H. cbn [fst snd] in H. change (s_fs s1) with (s_fs s) in H.
    destruct (sys_open_wronly c (s_fs s) (tpath cs x) true 438) as [f2 r2] eqn:E2. cbn [fst snd] in H.
    pose proof (g_open_creat c f0 dr dcs _ cs d x _ f2 r2 T Hab E2) as G2.
    pose proof (k_open_creat c f0 dr dcs _ cs d x _ f2 r2 T Hab E2) as K2.
    destruct (t_open_creat c f0 dr dcs _ cs d x _ f2 r2 T Hab E2) as (C2 & A2 & P2).
    fold (mk s1 f2) in H.
    assert (S2 : stays d s1 (mk s1 f2)) by (apply stays_grows; auto).
    assert (Hd : is_dir (s_fs s) d = true) by (eapply tgt_dir; eauto).
    assert (Hbad : stays d s (mk s1 f2) /\ s_links (mk s1 f2) = s_links s /\ grows (s_fs s) f2).
    { split; [eapply stays_trans; [exact Hd|exact S1|exact S2]|split; [reflexivity|exact G2]]. }
    destruct r2 as [|e2|i1 n1|b1|l1|i];
      try (unfold fail in H; injection H as <- <-; destruct Hbad as (B1 & B2 & B3);
           split; [exact B1|split; [exact B2|split; [exact B3|discriminate]]]).
    destruct (P2 i eq_refl) as (Ei & Hc & Hnl & (m2 & Hg2)).
    assert (Hbi : b <= i) by apply Hc.
    rewrite bind_run, sys_run in H. cbn [fst snd] in H.
    pose proof (t_fd_truncate c f0 dr dcs (s_fs (mk s1 f2)) i C2 Hbi) as M3.
    set (s3 := {| s_fs := fd_truncate (s_fs (mk s1 f2)) i; s_links := _; s_parents := _; s_reads := _ |}) in H.
    assert (S3 : mstep (mk s1 f2) s3) by (split; auto).
    rewrite bind_run, sys_run in H. cbn [fst snd] in H.
    destruct (fd_pwrite (s_fs s3) i 0 data) as [f4 r4] eqn:E4. cbn [fst snd] in H.
    assert (C3 : Ctx (s_fs s3)) by apply M3.
    pose proof (t_fd_pwrite c f0 dr dcs (s_fs s3) i 0%nat data f4 r4 C3 Hbi E4) as M4.
    fold (mk s3 f4) in H. assert (S4 : mstep s3 (mk s3 f4)) by (apply mstep_mk; auto).
    rewrite expect_ok_run in H. injection H as <- <-.
    assert (M24 : mstep (mk s1 f2) (mk s3 f4)) by (eapply mstep_trans; eauto).
    split; [eapply stays_trans; [exact Hd|exact S1|]; eapply stays_trans; [exact Hd|exact S2|]; apply mstep_stays; auto|].
    assert (G24 : grows f2 f4) by (destruct M24 as [(_ & _ & _ & _ & _ & _ & _ & G) _]; exact G).
    split; [reflexivity|]. split; [eapply grows_trans; eauto|]. intros _. exists i. split; [|split; auto].
    - eapply (mstep_names (mk s1 f2)); eauto. split; [apply Hc|right; auto].
    - apply G24. exists [], m2. exact Hg2.
  Qed.

  (* ---- getLinkSource + os.Link / copyFile ---- *)
  Definition ok_res {A} (r : A + N) : Prop := exists a, r = inl a.
  (* like [stays], but the link map is only claimed to be sound when the step succeeded *)
  Definition stays_ok {A} (d : N) (s s' : cst) (r : A + N) : Prop :=
    Ctx (s_fs s') /\ above d (s_fs s) (s_fs s') /\ (ok_res r -> lok s -> lok s') /\ keeps_new (s_fs s) (s_fs s').

  Lemma stays_stays_ok {A} d s s' (r : A + N) : stays d s s' -> stays_ok d s s' r.
  Proof. intros (C & A0 & L & K & _). split; auto. Qed.

  Lemma link_ok_tgt f p : Ctx f -> link_ok f p -> exists cs x d i, p = tpath cs x /\ Tgt f cs d x /\
    blookup x (dents f d) = Some i /\ b <= i /\ isfile f i.
  Proof.
    intros C (cs & x & d & i & E & H1 & H2 & H3 & H4 & Hc & Hb & Hi & Hf).
    exists cs, x, d, i. split; auto. split; [constructor; auto|auto].
  Qed.

  Lemma assoc_N_In {A} k (l : list (N * A)) v : assoc_N k l = Some v -> In (k, v) l.
  Proof.
    induction l as [|[k' v'] l IH]; simpl; [discriminate|].
    destruct (N.eqb_spec k k') as [->|]; intros H; [inversion H; auto|auto].
  Qed.

  Lemma copy_regular_spec s s' r cs d x src ino multi : Tgt (s_fs s) cs d x -> absent (s_fs s) d x -> lok s ->
    copy_regular c src (tpath cs x) ino multi s = (s', r) ->
    stays_ok d s s' r /\ s_parents s' = s_parents s /\ (r = inl tt -> made s' d x).
  Proof.
    intros T Hab L H. unfold copy_regular in H.
    assert (Hplain : forall s0 s1 r1, s_fs s0 = s_fs s -> (lok s -> lok s0) -> s_links s0 = s_links s -> s_parents s0 = s_parents s ->
              copy_file c src (tpath cs x) s0 = (s1, r1) -> stays_ok d s s1 r1 /\ s_parents s1 = s_parents s /\ (r1 = inl tt -> made s1 d x)).
    { intros s0 s1 r1 E0 L0 EL EP H1.
      assert (T0 : Tgt (s_fs s0) cs d x) by (rewrite E0; auto).
      assert (Hab0 : absent (s_fs s0) d x) by (rewrite E0; auto).
      destruct (copy_file_spec s0 s1 r1 cs d x src T0 Hab0 H1) as ((C1 & A1 & L1 & K1 & Q1) & EL1 & _ & P1).
      split; [split; auto; split; [rewrite <- E0; auto|split; [auto|rewrite <- E0; auto]]|]. split; [congruence|].
      intros Hr. destruct (P1 Hr) as (i & Hn & Hbi & Hf). exists i. split; auto. split; auto. apply isfile_not_link; auto. }
    destruct multi; [|eapply Hplain; eauto].
    rewrite bind_run in H. unfold get_links at 1 in H.
    destruct (assoc_N ino (s_links s)) as [first|] eqn:Ea.
    - (* os.Link(first, target) *)
      pose proof (L _ (assoc_N_In _ _ _ Ea)) as Lf. simpl in Lf.
      destruct (link_ok_tgt _ _ (tg_ctx _ _ _ _ _ _ _ _ T) Lf) as (cs1 & x1 & d1 & i1 & -> & T1 & Hb1 & Hi1 & Hf1).
      rewrite bind_run, sys_run in H. cbn [fst snd] in H.
      destruct (sys_link c (s_fs s) (tpath cs1 x1) (tpath cs x)) as [f2 r2] eqn:E2. cbn [fst snd] in H.
      pose proof (g_link c f0 dr dcs _ cs d x _ f2 r2 T E2) as G2.
      assert (K2 : keeps_new (s_fs s) f2).
      { eapply (k_link c f0 dr dcs _ cs d x); eauto. intros i Ei.
        rewrite (tgt_ino_nf c f0 dr dcs _ cs1 d1 x1 i T1 Ei) in Hb1. inversion Hb1; subst. exact Hi1. }
      destruct (t_link c f0 dr dcs _ cs d x _ f2 r2 T E2) as (C2 & A2 & P2). fold (mk s f2) in H.
      assert (S2 : stays d s (mk s f2)) by (apply stays_grows; auto).
      rewrite expect_ok_run in H.
      destruct P2 as [[e ->]|[-> (i & Ei & Hbi & _)]]; injection H as <- <-.
      + split; [apply stays_stays_ok; auto|split; [reflexivity|discriminate]].
      + split; [apply stays_stays_ok; auto|]. split; [reflexivity|]. intros _.
        rewrite (tgt_ino_nf c f0 dr dcs _ cs1 d1 x1 i T1 Ei) in Hb1. inversion Hb1; subst i1.
        exists i. split; [split; [exact Hbi|right; auto]|]. split; auto.
        apply isfile_not_link. apply G2. exact Hf1.
    - (* record the target, copy *)
      rewrite bind_run in H. unfold add_link at 1 in H.
      set (s0 := {| s_fs := s_fs s; s_links := (ino, tpath cs x) :: s_links s; s_parents := s_parents s; s_reads := s_reads s |}) in H.
      assert (T0 : Tgt (s_fs s0) cs d x) by exact T.
      destruct (copy_file_spec s0 s' r cs d x src T0 Hab H) as ((C1 & A1 & L1 & K1 & Q1) & EL1 & G1 & P1).
      split; [|split; [exact Q1|]].
      + split; auto. split; auto. split; [|exact K1]. intros [a ->] L0.
        destruct a. destruct (P1 eq_refl) as (i & [Hb Hs] & Hbi & Hf).
        intros e He. rewrite EL1 in He. simpl in He. destruct He as [<-|He].
        * simpl. assert (T' : Tgt (s_fs s') cs d x) by (eapply tgt_step; eauto).
          exists cs, x, d, i. split; [reflexivity|]. do 4 (split; [apply T'|]). split; [apply T'|]. auto.
        * (* the older entries: the file system only grew *)
          eapply link_ok_grows; [exact G1|]. apply L0. exact He.
      + intros Hr. destruct (P1 Hr) as (i & Hn & Hbi & Hf). exists i. split; auto. split; auto. apply isfile_not_link; auto.
  Qed.

  (* ---- copyDevice ---- *)
  Lemma copy_device_spec s s' r cs d x fi : Tgt (s_fs s) cs d x ->
    copy_device c (tpath cs x) fi s = (s', r) ->
    stays d s s' /\ s_links s' = s_links s /\ (r = inl tt -> made s' d x).
  Proof.
    intros T H. unfold copy_device in H.
    destruct (i_kind fi) as [p0 es|dd|t|typ rdev];
      try (unfold fail in H; injection H as <- <-; split; [apply stays_refl; apply T|split; auto; discriminate]).
    destruct (N.eqb typ S_IFSOCK).
    - rewrite bind_run, sys_run in H. cbn [fst snd] in H.
      destruct (sys_mknod_reg c (s_fs s) (tpath cs x) _) as [f1 r1] eqn:E1. cbn [fst snd] in H.
      pose proof (g_mknod_reg c f0 dr dcs _ cs d x _ f1 r1 T E1) as G1.
      pose proof (k_mknod_reg c f0 dr dcs _ cs d x _ f1 r1 T E1) as K1.
      destruct (t_mknod_reg c f0 dr dcs _ cs d x _ f1 r1 T E1) as (C1 & A1 & P1). fold (mk s f1) in H.
      rewrite expect_ok_run in H.
      destruct P1 as [[e ->]|[-> [Hc Hl]]]; injection H as <- <-; (split; [apply stays_grows; auto|split; [reflexivity|]]);
        [discriminate|].
      intros _. exists (f_next (s_fs s)). split; [split; [apply Hc|right; apply Hc]|]. split; [apply Hc|exact Hl].
    - rewrite bind_run, sys_run in H. cbn [fst snd] in H.
      destruct (sys_mknod c (s_fs s) (tpath cs x) typ _ rdev) as [f1 r1] eqn:E1. cbn [fst snd] in H.
      pose proof (g_mknod c f0 dr dcs _ cs d x _ _ _ f1 r1 T E1) as G1.
      pose proof (k_mknod c f0 dr dcs _ cs d x _ _ _ f1 r1 T E1) as K1.
      destruct (t_mknod c f0 dr dcs _ cs d x _ _ _ f1 r1 T E1) as (C1 & A1 & P1). fold (mk s f1) in H.
      rewrite expect_ok_run in H.
      destruct P1 as [[e ->]|[-> [Hc Hl]]]; injection H as <- <-; (split; [apply stays_grows; auto|split; [reflexivity|]]);
        [discriminate|].
      intros _. exists (f_next (s_fs s)). split; [split; [apply Hc|right; apply Hc]|]. split; [apply Hc|exact Hl].
  Qed.

  (* ---- paths of children; names read from a directory ---- *)
  Lemma tpath_join cs x n : Forall nm dcs -> Forall nm cs -> nm x -> nm n -> join2 (tpath cs x) n = tpath (cs ++ [x]) n.
  Proof.
    intros Hd Hcs Hx Hn. unfold FsCopySafeP.tpath.
    assert (Hall : Forall nm (dcs ++ cs ++ [x])) by (repeat (apply Forall_app; split; auto)).
    rewrite join2_render by auto. rewrite stk_from_single by (destruct Hn; auto).
    rewrite cstep_normal by (destruct Hn; auto). simpl rev. rewrite rev_involutive.
    rewrite <- !app_assoc. reflexivity.
  Qed.

  Lemma insert_sorted_forall {A} (P : bytes -> Prop) k (v : A) l :
    P k -> Forall P (map fst l) -> Forall P (map fst (insert_sorted k v l)).
  Proof.
    intros Hk. induction l as [|[k' v'] l IH]; simpl; intros H; [constructor; auto|].
    inversion H; subst. destruct (cmp_bytes k k'); simpl; constructor; auto.
  Qed.

  Lemma sorted_names_forall (P : bytes -> Prop) l : Forall P l -> Forall P (sorted_names l).
  Proof.
    unfold sorted_names, sort_ents. induction 1 as [|a l Ha Hl IH]; simpl; [constructor|].
    apply insert_sorted_forall; auto.
  Qed.

  Lemma readdir_names f p names : Inv f0 dr f -> snd (sys_readdir c f p) = RNames names -> Forall okn names.
  Proof.
    intros I H. unfold sys_readdir in H. destruct (resolve_ino c f p true) as [i|e]; [|discriminate].
    destruct (dir_of f i) as [[pp es]|] eqn:Ed; [|discriminate]. simpl in H. inversion H; subst.
    pose proof (inv_names f0 dr f I i) as Hn. unfold dents in Hn. rewrite Ed in Hn. exact Hn.
  Qed.

  (* ---- composing steps ---- *)
  Lemma stays_ok_pre {A} d s1 s2 s3 (r : A + N) : is_dir (s_fs s1) d = true ->
    stays d s1 s2 -> stays_ok d s2 s3 r -> stays_ok d s1 s3 r.
  Proof.
    intros Hd (C2 & A2 & L2 & K2 & _) (C3 & A3 & L3 & K3). split; auto. split; [eapply above_trans; eauto|].
    split; [auto|eapply keeps_new_trans; eauto].
  Qed.

  Lemma stays_ok_seq {A B} d s1 s2 s3 (a : A) (r : B + N) : is_dir (s_fs s1) d = true ->
    stays_ok d s1 s2 (@inl A N a) -> stays_ok d s2 s3 r -> stays_ok d s1 s3 r.
  Proof.
    intros Hd (C2 & A2 & L2 & K2) (C3 & A3 & L3 & K3). split; auto. split; [eapply above_trans; eauto|].
    split; [|eapply keeps_new_trans; eauto].
    intros Hr L1. apply L3; auto. apply L2; auto. exists a. reflexivity.
  Qed.

  Lemma stays_ok_fail {A B} d s s' (r : A + N) (e : N) : stays_ok d s s' r -> stays_ok d s s' (@inr B N e).
  Proof. intros (C & A0 & _ & K). split; auto. split; auto. split; auto. intros [a Ha]. discriminate. Qed.

  Lemma stays_ok_below {A} d d1 q s s' (r : A + N) : chain (s_fs s) d q d1 -> stays_ok d1 s s' r -> stays_ok d s s' r.
  Proof. intros Hq (C & A0 & L & K). split; auto. split; auto. eapply above_mono; eauto. Qed.
End Copy.
