(* Refinement LTS (sender side) -> sender acceptor, part 2: steps of the receiver's goroutines
   and of the receiver's environment do not touch the sender's part of the state. *)
From Coq Require Import List NArith Bool Arith PeanoNat Lia.
From FS Require Import Model.Lts Proofs.LtsInv.
From FS Require Import Sx Model.Path Model.Stat Model.Tree Model.AccEvents Model.SenderAcc Model.LtsAcc
     Proofs.AccEventsP Proofs.LtsAccP1.
Import ListNotations.
Local Open Scope nat_scope.

Definition sender_label (l : label) : bool :=
  match l with
  | LSWalk | LSWalkErr | LWorker _ | LWorkerOpenErr _ | LWorkerReadErr _ | LReq | LReqCtx | LSendRet
  | LEnvCancelS | LEnvBreakS | LEnvTearDown => true
  | _ => false
  end.

Lemma other_step_same_sender : forall p st l st',
  sender_label l = false -> Lts.step p st l = Some st' -> same_sender st st'.
Proof.
  intros p st l st' Hl H.
  destruct l; try discriminate Hl; unfold_steps H; step_split H; inv_some; subst;
    repeat match goal with w : writer |- _ => destruct w; cbn in * end;
    unfold same_sender, rl_fail, r_fail, dl_fail, d_fail, wr_fail, eg_fail, setwr; cbn;
    repeat split; reflexivity.
Qed.
