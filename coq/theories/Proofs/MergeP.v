(* C01 — merge mode (ReceiveOpt.Merge: the destination walker is empty, every source entry is an
   add): the destination map left by receive_abs is the overlay of the source over the old
   destination — every source entry present with exactly the stat that was sent, every old entry
   that the source neither names nor covers with a non-directory literally in place (stat,
   bytes, inode class), everything else gone. *)
From Coq Require Import List NArith Lia Bool Sorting.Sorted.
From FS Require Import Sx Model.Path Model.Stat Model.Diff Model.AbsDest Model.Converge Model.ConvergeA
  Proofs.Lex Proofs.PathP Proofs.DiffP Proofs.AbsDestP Proofs.ReceiveP Proofs.ApplyInoP Proofs.OracleP
  Proofs.ConvergeP.
Import ListNotations.
Open Scope N_scope.
Open Scope bool_scope.

Definition add_of (b : stat) : change := (KAdd, st_path b, Some b).

Lemma diff_loop_nil flt d : forall B fuel rm, (length B < fuel)%nat ->
  diff_loop flt d fuel rm [] B = Some (map add_of B).
Proof.
  induction B as [|b B IH]; intros fuel rm Hf; destruct fuel as [|f]; try (simpl in Hf; lia).
  - reflexivity.
  - cbn [diff_loop]. unfold step_add. rewrite IH by (simpl in Hf; lia). reflexivity.
Qed.

Lemma diff_nil_l flt d B : diff flt d [] B = map add_of B.
Proof. unfold diff, diff_opt. rewrite diff_loop_nil; [reflexivity|unfold diff_fuel; simpl; lia]. Qed.

Lemma adds_sorted B : sorted B -> StronglySorted clt (map add_of B).
Proof.
  induction 1 as [|b B HS IH HF]; simpl; constructor; auto.
  rewrite Forall_forall in *. intros c Hc. apply in_map_iff in Hc. destruct Hc as (b' & <- & Hb').
  apply (HF _ Hb').
Qed.

Lemma dest_from_keys : forall A i seen, map fst (dest_from A i seen) = map (fun e => st_path (fst e)) A.
Proof. induction A as [|[st bs] A IH]; intros i seen; simpl; [reflexivity|]. rewrite IH. reflexivity. Qed.

Lemma dest_of_nodup_keys A : sorted (map fst A) -> nodup_keys (dest_of A).
Proof. intros HS. unfold nodup_keys, dest_of. rewrite dest_from_keys. apply sorted_nodup_paths; auto. Qed.

Lemma path_under_above anc p : path_under anc p = above anc p.
Proof. reflexivity. Qed.

Section Merge.
Variable H : bytes -> bytes.
Variable hdr : stat -> bytes.
Variable d : differ.
Variables A B : list AbsDest.entry.
Notation LA := (map fst A).
Notation LB := (map fst B).
Notation D0 := (dest_of A).
Notation src := (src_of B).
Hypothesis HwA : wf_listing LA.
Hypothesis HwB : wf_listing LB.
Hypothesis HlB : links_canon B.

Definition covered (done : list stat) (p : bytes) : Prop :=
  exists b, In b done /\ st_is_dir b = false /\ above (st_path b) p = true.

Lemma covered_dec done p : covered done p \/ ~ covered done p.
Proof.
  induction done as [|b done IH].
  - right. intros (b & [] & _).
  - destruct IH as [(b' & Hb' & Hc)|IH]; [left; exists b'; split; [right; auto|auto]|].
    destruct (st_is_dir b) eqn:Ed.
    + right. intros (b' & [<-|Hb'] & Hd & Hab); [congruence|]. apply IH. exists b'. auto.
    + destruct (above (st_path b) p) eqn:Ea.
      * left. exists b. split; [left; auto|auto].
      * right. intros (b' & [<-|Hb'] & Hd & Hab); [congruence|]. apply IH. exists b'. auto.
Qed.

Record minv (done : list stat) (D : dmap) : Prop := {
  mi_a : forall b bb, In (b, bb) B -> In b done ->
         exists e, alookup (st_path b) D = Some e /\ de_stat e = b /\ (AbsDest.is_reg b = true -> de_bytes e = bb);
  mi_b1 : forall p, notin done p -> covered done p -> alookup p D = None;
  mi_b2 : forall p, notin done p -> ~ covered done p -> alookup p D = alookup p D0 }.

Lemma minv_init : minv [] D0.
Proof.
  split.
  - intros b bb _ [].
  - intros p _ (b & [] & _).
  - reflexivity.
Qed.

Lemma not_covered_in_B done rest b : LB = done ++ b :: rest -> ~ covered done (st_path b).
Proof.
  intros E (b' & Hb' & Hd & Hab). destruct HwB as [HsB HcB].
  apply above_iff in Hab. destruct Hab as [r Er].
  assert (Hb : In b LB) by (rewrite E; apply in_or_app; right; left; auto).
  assert (Hb'' : In b' LB) by (rewrite E; apply in_or_app; auto).
  destruct (HcB b Hb _ _ Er) as (t & Ht & Et & Hdt).
  assert (t = b') by (apply (sorted_unique LB); auto). subst. congruence.
Qed.

Lemma merge_step done b rest D n :
  LB = done ++ b :: rest -> minv done D ->
  exists D' n', apply_map src D n (add_of b) = Some (D', n') /\ minv (done ++ [b]) D'.
Proof.
  intros E Hinv. destruct HwA as [HsA HcA]. destruct HwB as [HsB HcB].
  assert (HS := HsB). rewrite E in HS. apply sorted_app_inv in HS. destruct HS as (S0 & S1 & S01).
  assert (F1 : forall x, In x done -> compare_path (st_path x) (st_path b) = Lt).
  { intros x Hx. apply (S01 x b); auto. left; auto. }
  assert (F2 : notin done (st_path b)).
  { intros x Hx Ex. specialize (F1 x Hx). rewrite Ex, compare_path_refl in F1. discriminate. }
  assert (F3 : ~ covered done (st_path b)) by (eapply not_covered_in_B; eauto).
  assert (Hb : In b LB) by (rewrite E; apply in_or_app; right; left; auto).
  assert (Hold : alookup (st_path b) D = alookup (st_path b) D0) by (apply (mi_b2 _ _ Hinv); auto).
  assert (Hdone : forall st, In st LB -> compare_path (st_path st) (st_path b) = Lt -> In st done).
  { intros st Hst Hlt. rewrite E in Hst. apply in_app_or in Hst. destruct Hst as [Hst|[<-|Hst]]; auto; exfalso.
    - rewrite compare_path_refl in Hlt. discriminate.
    - apply sorted_inv in S1. destruct S1 as [_ S1]. specialize (S1 _ Hst). unfold plt in S1.
      eapply compare_path_asym; eauto. }
  (* the link target is already there *)
  assert (Hlink : forall bb, In (b, bb) B -> is_hardlink b = true ->
            exists t, alookup (st_linkname b) D = Some t /\ st_is_dir (de_stat t) = false /\
                      (AbsDest.is_reg b = true -> de_bytes t = bb) /\
                      (* the target was added with the stat as sent, a canonical link entry carries the same metadata *)
                      link_stat (de_stat t) b = b).
  { intros bb Hin Hl. destruct (HlB b bb Hin Hl) as (st & bt & Ht & Ep & Hlt & Hr & _ & Hmeta & Eb).
    assert (Hst : In st done) by (apply Hdone; [apply (in_map fst _ _ Ht)|exact Hlt]).
    destruct (mi_a _ _ Hinv st bt Ht Hst) as (t & Hxt & Es & Hbt).
    exists t. rewrite <- Ep. split; auto. split; [rewrite Es; apply is_node_not_dir; auto|].
    split; [|rewrite Es; apply link_stat_honest; exact Hmeta].
    intros Hrb. rewrite Hbt; auto. rewrite (is_reg_cong st b); auto. apply Hmeta. }
  destruct (B_efind B HsB b Hb) as (bb & Hbb & _).
  destruct (apply_map_add_ok src D n (st_path b) b) as (D' & n' & Ea).
  { intros Hl. destruct (Hlink bb Hbb Hl) as (t & Ht & Htd & _). eauto. }
  exists D', n'. split; [exact Ea|].
  assert (Hk : KAdd <> KDelete) by discriminate.
  assert (Hoth : forall x, x <> st_path b ->
            alookup x D' = if removes D (st_path b) b && at_or_below (st_path b) x then None else alookup x D).
  { intros x Hx. apply (apply_map_others src D n KAdd (st_path b) b D' n' x Hk Ea Hx). }
  assert (Hnotin : forall p, notin (done ++ [b]) p -> notin done p /\ p <> st_path b).
  { intros p Hn. split.
    - intros x Hx. apply Hn. apply in_or_app; auto.
    - intros Ep. apply (Hn b); [apply in_or_app; right; left; auto|auto]. }
  assert (Hab : forall p, p <> st_path b -> at_or_below (st_path b) p = above (st_path b) p).
  { intros p Hp. unfold at_or_below. apply not_eq_sym in Hp. apply bytes_eqb_neq in Hp. rewrite Hp. reflexivity. }
  split.
  - intros b0 bb0 Hin0 Hd0. apply in_app_or in Hd0. destruct Hd0 as [Hd0|[<-|[]]].
    + destruct (mi_a _ _ Hinv b0 bb0 Hin0 Hd0) as (e & He & Es & Hbe). exists e. split; auto.
      rewrite Hoth.
      * destruct (at_or_below (st_path b) (st_path b0)) eqn:Ab; [|rewrite andb_false_r; exact He].
        apply at_or_below_le in Ab. exfalso. apply Ab, F1, Hd0.
      * intros Ep. specialize (F1 _ Hd0). rewrite Ep, compare_path_refl in F1. discriminate.
    + destruct (apply_map_at src _ _ _ _ _ _ _ Hk Ea) as (e & He & Es & Hc). exists e. split; auto. split.
      { destruct (is_hardlink b) eqn:Hhl; [|auto].
        destruct Hc as [(Hdir & _)|[(_ & _ & t & Ht & _ & _ & _ & Est)|(Hl & _)]]; [| |congruence].
        - unfold is_hardlink, is_node in Hhl. rewrite Hdir in Hhl. discriminate.
        - destruct (Hlink bb0 Hin0 eq_refl) as (t' & Ht' & _ & _ & Ehon). rewrite Ht in Ht'. inversion Ht'; subst t'.
          rewrite Est. exact Ehon. }
      intros Hreg. destruct Hc as [(Hdir & _)|[(Hl & _ & t & Ht & _ & _ & Eb & _)|(Hl & _ & _ & Eb & _)]].
      * apply is_reg_not_dir in Hreg. congruence.
      * destruct (Hlink bb0 Hin0 Hl) as (t' & Ht' & _ & Ebt & _). rewrite Ht in Ht'. inversion Ht'; subst.
        rewrite Eb. apply Ebt; auto.
      * rewrite Eb, (not_hardlink_wants _ Hreg Hl). apply (src_at B HsB); auto.
  - (* covered *)
    intros p Hn (b' & Hb' & Hd' & Hab'). destruct (Hnotin p Hn) as [Hn1 Hn2].
    rewrite (Hoth p Hn2), (Hab p Hn2).
    destruct (removes D (st_path b) b && above (st_path b) p) eqn:Erm; auto.
    apply in_app_or in Hb'. destruct Hb' as [Hb'|[<-|[]]].
    + apply (mi_b1 _ _ Hinv); auto. exists b'. auto.
    + (* below the new non-directory b: the old map has nothing there unless it had a directory at b *)
      rewrite Hab' in Erm. rewrite andb_true_r in Erm.
      assert (HD0 : alookup p D0 = None).
      { destruct (alookup p D0) as [v|] eqn:Ev; auto. exfalso.
        apply D0_some in Ev. destruct Ev as [Hv Ep]. apply above_iff in Hab'. destruct Hab' as [r Er].
        destruct (HcA _ (in_map fst _ _ Hv) (st_path b) r) as (t & Ht & Et & Hdt); [simpl; congruence|].
        destruct (D0_in A HsA t Ht) as (bt & i & _ & Hlt). rewrite Et in Hlt.
        unfold removes in Erm. rewrite Hold, Hlt in Erm. simpl in Erm. rewrite Hdt, Hd' in Erm. discriminate. }
      destruct (covered_dec done p) as [Hc|Hc].
      * apply (mi_b1 _ _ Hinv); auto.
      * rewrite (mi_b2 _ _ Hinv p Hn1 Hc). exact HD0.
  - (* not covered *)
    intros p Hn Hnc. destruct (Hnotin p Hn) as [Hn1 Hn2].
    assert (Hnc1 : ~ covered done p).
    { intros (b' & Hb' & Hd' & Hab'). apply Hnc. exists b'. split; [apply in_or_app; auto|auto]. }
    rewrite (Hoth p Hn2), (Hab p Hn2), (mi_b2 _ _ Hinv p Hn1 Hnc1).
    destruct (removes D (st_path b) b && above (st_path b) p) eqn:Erm; auto.
    apply andb_true_iff in Erm. destruct Erm as [Erm Habv].
    assert (Hbd : st_is_dir b = true).
    { destruct (st_is_dir b) eqn:Ed; auto. exfalso. apply Hnc. exists b. split; [apply in_or_app; right; left; auto|auto]. }
    unfold removes in Erm. rewrite Hold in Erm.
    destruct (alookup (st_path b) D0) as [o|] eqn:Eo; [|discriminate].
    rewrite Hbd in Erm. destruct (st_is_dir (de_stat o)) eqn:Eod; [discriminate|].
    apply D0_some in Eo. destruct Eo as [Ho Ep]. symmetry.
    apply (D0_below_nondir A HsA HcA (de_stat o) p); auto.
    + apply (in_map fst _ _ Ho).
    + rewrite Ep. exact Habv.
Qed.

Lemma merge_run : forall rest done D n,
  LB = done ++ rest -> minv done D ->
  exists D' n', apply_all src (map add_of rest) D n = (D', n', map add_of rest, false) /\ minv LB D'.
Proof.
  induction rest as [|b rest IH]; intros done D n E Hinv.
  - exists D, n. split; [reflexivity|]. rewrite E, app_nil_r. exact Hinv.
  - destruct (merge_step done b rest D n E Hinv) as (D1 & n1 & Ea & Hinv1).
    destruct (IH (done ++ [b]) D1 n1) as (D' & n' & Er & Hinv'); [rewrite <- app_assoc; exact E|exact Hinv1|].
    exists D', n'. split; auto. simpl map. cbn [apply_all]. rewrite Ea, Er. reflexivity.
Qed.

Let r := receive_abs H hdr Merge d A B.
Let R := ds_map r.
Let n0 := N.of_nat (length A).

Lemma merge_final :
  exists nR, apply_all src (map add_of LB) D0 n0 = (R, nR, map add_of LB, false) /\ minv LB R /\ ds_err r = false.
Proof.
  destruct (merge_run LB [] D0 n0 eq_refl minv_init) as (D' & n' & Er & Hinv).
  pose proof (receive_abs_unfold H hdr d A B Merge D' n' (map add_of LB) false) as Hu. cbv zeta in Hu.
  rewrite diff_nil_l in Hu. specialize (Hu Er).
  exists n'. unfold R, r. rewrite Hu. simpl. auto.
Qed.

Lemma merge_kept_iff p : notin LB p ->
  (kept_in_merge B p = true <-> ~ covered LB p).
Proof.
  intros Hn. unfold kept_in_merge.
  destruct (find_entry p B) as [e|] eqn:Ef.
  { apply find_entry_some in Ef. destruct Ef as [He Ep]. exfalso. apply (Hn (fst e)); auto. apply (in_map fst _ _ He). }
  rewrite negb_true_iff. split.
  - intros Hex (b & Hb & Hd & Hab). apply in_map_iff in Hb. destruct Hb as ([b' bb] & E1 & Hb). simpl in E1. subst b'.
    assert (Ht : existsb (fun e => negb (st_is_dir (fst e)) && path_under (st_path (fst e)) p) B = true).
    { apply existsb_exists. exists (b, bb). split; auto. simpl. rewrite Hd, path_under_above, Hab. reflexivity. }
    congruence.
  - intros Hnc. match goal with |- ?X = false => destruct X eqn:Ex end; auto. exfalso. apply Hnc.
    apply existsb_exists in Ex. destruct Ex as ([b bb] & Hb & Hc). simpl in Hc.
    apply andb_true_iff in Hc. destruct Hc as [Hd Hab]. apply negb_true_iff in Hd.
    exists b. split; [apply (in_map fst _ _ Hb)|auto].
Qed.

(* every source entry that is neither a directory nor a symbolic link shows the inode class of
   the first name of its link group *)
Lemma merge_rep s c x : In (s, c) B -> is_node s = true -> alookup (st_path s) R = Some x ->
  exists t, alookup (group_rep s) R = Some t /\ de_ino t = de_ino x /\ is_hardlink (de_stat t) = false.
Proof.
  intros Hin Hreg Hx. destruct merge_final as (nR & E & Hinv & _). destruct HwB as [HsB HcB].
  unfold group_rep. destruct (st_linkname s) as [|l0 l] eqn:El.
  - exists x. split; auto. split; auto.
    destruct (mi_a _ _ Hinv s c Hin (in_map fst _ _ Hin)) as (e & He & Es & _). rewrite Hx in He.
    inversion He; subst e. rewrite Es. apply nolink_not_hardlink; auto.
  - rewrite <- El.
    assert (Hh : is_hardlink s = true) by (unfold is_hardlink; rewrite Hreg, El; reflexivity).
    destruct (HlB s c Hin Hh) as (st & bt & Ht & Ep & Hlt & Hrt & Ent & _ & _).
    destruct (mi_a _ _ Hinv st bt Ht (in_map fst _ _ Ht)) as (t & Hxt & Est & _).
    assert (Hc : In (add_of s) (map add_of LB)) by (apply in_map; apply (in_map fst _ _ Hin)).
    assert (Hk : KAdd <> KDelete) by discriminate.
    destruct (changed_final src _ _ _ _ _ _ _ _ _ (adds_sorted _ HsB) E Hc Hk) as (e & He & _ & Hl & _).
    rewrite Hx in He. inversion He; subst e.
    destruct (Hl Hh) as (t' & Ht' & _ & Ei & _); [rewrite <- Ep; exact Hlt|].
    rewrite <- Ep in *. rewrite Hxt in Ht'. inversion Ht'; subst t'.
    exists t. split; auto. split; auto. rewrite Est. apply nolink_not_hardlink; auto.
Qed.

Theorem merge_is_overlay_proof :
  ds_err r = false /\ approx_merge A B (view_of R) /\
  (* the kept entries are literally untouched: stat incl. mtime and xattrs, bytes, inode class *)
  (forall p, notin LB p -> ~ covered LB p -> alookup p R = alookup p D0) /\
  (* the source entries carry exactly the stat that was sent *)
  (forall s c, In (s, c) B -> exists e, alookup (st_path s) R = Some e /\ de_stat e = s /\
                                        (AbsDest.is_reg s = true -> de_bytes e = c)).
Proof.
  destruct merge_final as (nR & E & Hinv & Herr). destruct HwA as [HsA HcA]. destruct HwB as [HsB HcB].
  split; [exact Herr|]. split; [|split].
  - split; [|split; [|split]].
    + (* source entries *)
      intros s c Hin. destruct (mi_a _ _ Hinv s c Hin (in_map fst _ _ Hin)) as (e & He & Es & Hb).
      exists (obs_of_dentry (st_path s) e). rewrite find_obs_view_of, He. split; [reflexivity|].
      unfold entry_ok, obs_of_dentry. cbv zeta. simpl. rewrite Es.
      repeat split; auto. intros Hr. apply Hb. apply conv_reg_abs_reg. unfold Converge.is_reg. rewrite Hr. apply N.eqb_refl.
    + (* whatever else is there is an untouched kept entry *)
      intros dd Hd. apply in_map_iff in Hd. destruct Hd as ([k v] & <- & Hkv). simpl fst. simpl snd.
      assert (Hnk : nodup_keys R).
      { eapply apply_all_nodup_keys; [exact E|]. apply dest_of_nodup_keys; auto. }
      pose proof (nodup_keys_lookup R k v Hnk Hkv) as Hlk. simpl o_path.
      destruct (find_entry k B) as [e|] eqn:Ef.
      { left. apply find_entry_some in Ef. exists e. exact Ef. }
      right. assert (Hn : notin LB k).
      { intros b Hb Eb. apply in_map_iff in Hb. destruct Hb as ([b' bb] & E1 & Hb). simpl in E1. subst b'.
        apply (find_entry_none _ _ Ef (b, bb)); auto. }
      destruct (covered_dec LB k) as [Hc|Hc].
      { rewrite (mi_b1 _ _ Hinv k Hn Hc) in Hlk. discriminate. }
      split; [apply merge_kept_iff; auto|].
      rewrite (mi_b2 _ _ Hinv k Hn Hc) in Hlk. apply D0_some in Hlk. destruct Hlk as [Hv Ep].
      destruct (find_entry_in A _ Hv) as [[ps pc] Hf]. simpl in Hf. rewrite Ep in Hf.
      exists ps, pc. split; auto.
      pose proof (find_entry_some _ _ _ Hf) as [Hps Epp]. simpl in Epp.
      assert (Eps : ps = de_stat v).
      { apply (sorted_unique LA); auto; [apply (in_map fst _ _ Hps)|apply (in_map fst _ _ Hv)|simpl; congruence]. }
      assert (Epc : pc = de_bytes v).
      { subst ps. pose proof (efind_in_sorted A _ HsA Hps) as F1. pose proof (efind_in_sorted A _ HsA Hv) as F2.
        simpl in F1, F2. rewrite F1 in F2. inversion F2. reflexivity. }
      subst. unfold prior_ok, obs_of_dentry. cbv zeta. simpl. repeat split; auto.
    + (* nothing else was removed *)
      intros e He Hk.
      assert (Hn : notin LB (st_path (fst e))).
      { intros b Hb Eb. unfold kept_in_merge in Hk. apply in_map_iff in Hb. destruct Hb as ([b' bb] & E1 & Hb).
        simpl in E1. subst b'. destruct (find_entry_in B _ Hb) as [e' He']. simpl in He'. rewrite Eb in He'.
        rewrite He' in Hk. discriminate. }
      apply merge_kept_iff in Hk; auto.
      destruct (D0_in A HsA (fst e) (in_map fst _ _ He)) as (ba & i & _ & Hl).
      rewrite find_obs_view_of, (mi_b2 _ _ Hinv _ Hn Hk), Hl. simpl. eauto.
    + (* hard-link partition *)
      intros [s1 c1] [s2 c2] d1 d2 H1 H2 R1 R2 F1 F2. simpl fst in *.
      rewrite find_obs_view_of in F1, F2.
      destruct (alookup (st_path s1) R) as [x1|] eqn:X1; [|discriminate].
      destruct (alookup (st_path s2) R) as [x2|] eqn:X2; [|discriminate].
      simpl in F1, F2. inversion F1; inversion F2; subst d1 d2. simpl o_ino.
      apply conv_linkable_node in R1, R2.
      destruct (merge_rep s1 c1 x1 H1 R1 X1) as (t1 & T1 & I1 & L1).
      destruct (merge_rep s2 c2 x2 H2 R2 X2) as (t2 & T2 & I2 & L2).
      assert (Hinj : nonlink_inj R).
      { destruct (apply_all_inv _ _ _ _ _ _ _ _ E (dest_of_ino_lt A) (dest_from_nonlink_inj A 0 [])) as (_ & _ & Hi). exact Hi. }
      rewrite <- I1, <- I2. split.
      * intros Ei. destruct (list_eq_dec N.eq_dec (group_rep s1) (group_rep s2)) as [Eg|Eg]; auto.
        exfalso. apply (Hinj _ _ _ _ Eg T1 T2 L1 L2 Ei).
      * intros Eg. rewrite Eg, T2 in T1. inversion T1; subst. reflexivity.
  - intros p Hn Hc. apply (mi_b2 _ _ Hinv); auto.
  - intros s c Hin. apply (mi_a _ _ Hinv); auto. apply (in_map fst _ _ Hin).
Qed.

End Merge.
