(* Proofs about receive_abs (Model/AbsDest.v), part 2: along the run of the diff the abstract
   destination satisfies the invariant of DESIGN A.5 —
     paths already passed hold the source's entry (same identity, same bytes),
     paths not yet reached hold the old entry unless a removed root above them was passed —
   hence the transfer never fails, converges to the source's view, leaves every unchanged
   entry literally in place (stat, bytes, inode class), and the digests in the
   notifications are those of the bytes finally stored.
   Hard links: a new name shows the metadata of the inode it joins (AbsDest.link_stat), not the
   stat that was sent.  The invariant is therefore proved once, parametrised by two
   propositions [Mh] (=> links_meta B: link entries carry the metadata of their target) and
   [Xh] (=> link_xattrs_kept: a link target that stays in place has the source's xattrs):
   without them a passed hard-link path holds a non-directory with the source's bytes; with
   [Mh] also the source's identity key; with both, every hard-link change is honest
   (the destination shows exactly the stat that was announced). *)
From Coq Require Import List NArith Lia Bool Sorting.Sorted.
From FS Require Import Sx Model.Path Model.Stat Model.Diff Model.AbsDest
  Proofs.Lex Proofs.PathP Proofs.DiffP Proofs.DiffSpecP Proofs.AbsDestP.
Import ListNotations.
Open Scope N_scope.
Open Scope bool_scope.

Lemma links_ok_b_sound B : links_ok_b B = true -> links_ok B.
Proof.
  unfold links_ok_b, links_ok. rewrite forallb_forall. intros H sb bb Hin Hl.
  specialize (H _ Hin). simpl in H. rewrite Hl in H. simpl in H.
  apply existsb_exists in H. destruct H as ([st bt] & Ht & Hc). simpl in Hc.
  rewrite !andb_true_iff in Hc. destruct Hc as [[[[H1 H2] H3] H5] H4].
  apply bytes_eqb_eq in H1, H4. apply path_ltb_iff in H2. exists st, bt.
  repeat split; auto. intros Hr. rewrite Hr in H5. exact H5.
Qed.

Lemma identity_faithful_b_sound d A B : identity_faithful_b d A B = true -> identity_faithful d A B.
Proof.
  unfold identity_faithful_b, identity_faithful. rewrite forallb_forall.
  intros H sa ba sb bb Ha Hb Ep Hs Hr. specialize (H _ Ha). rewrite forallb_forall in H.
  specialize (H _ Hb). simpl in H. rewrite Ep, bytes_eqb_refl, Hs, Hr in H. simpl in H.
  apply bytes_eqb_eq; auto.
Qed.

Lemma lt_le_trans p x y :
  compare_path p x = Lt -> compare_path y x <> Lt -> compare_path p y = Lt.
Proof.
  intros H1 H2. destruct (compare_path_total y x) as [H|[H|H]]; [congruence|subst; auto|].
  eapply compare_path_trans; eauto.
Qed.

Lemma same_file_DMetadata d a b : same_file d a b = true -> same_file DMetadata a b = true.
Proof. destruct d; auto. discriminate. Qed.

Lemma is_reg_not_dir st : is_reg st = true -> st_is_dir st = false.
Proof. unfold is_reg. rewrite !andb_true_iff, !negb_true_iff. tauto. Qed.

Lemma links_meta_b_sound B : links_meta_b B = true -> links_meta B.
Proof.
  unfold links_meta_b, links_meta. rewrite forallb_forall. intros H sb bb st bt Hb Hl Ht Ep.
  specialize (H _ Hb). simpl in H. rewrite Hl in H. simpl in H. rewrite forallb_forall in H.
  specialize (H _ Ht). simpl in H. rewrite Ep, bytes_eqb_refl in H. simpl in H.
  apply ino_meta_eqb_iff; auto.
Qed.

Lemma link_xattrs_kept_b_sound d A B : link_xattrs_kept_b d A B = true -> link_xattrs_kept d A B.
Proof.
  unfold link_xattrs_kept_b, link_xattrs_kept. rewrite forallb_forall.
  intros H sb bb st bt sa ba Hb Hl Ht Ep Ha Epa Hs.
  specialize (H _ Hb). simpl in H. rewrite Hl in H. simpl in H. rewrite forallb_forall in H.
  specialize (H _ Ht). simpl in H. rewrite Ep, bytes_eqb_refl in H. simpl in H. rewrite forallb_forall in H.
  specialize (H _ Ha). simpl in H. rewrite Epa, Ep, bytes_eqb_refl, Hs in H. simpl in H.
  apply DiffSpecP.xattrs_eqb_eq; auto.
Qed.

(* the fields sameFile compares on a non-directory *)
Lemma sf_fields a b : same_file DMetadata a b = true -> st_is_dir a = false ->
  st_mode a = st_mode b /\ st_uid a = st_uid b /\ st_gid a = st_gid b /\
  st_devmajor a = st_devmajor b /\ st_devminor a = st_devminor b /\ st_linkname a = st_linkname b /\
  st_size a = st_size b /\ st_mtime a = st_mtime b.
Proof.
  intros H Hd. simpl in H. rewrite Hd in H. simpl in H.
  destruct (N.eqb_spec (st_size a) (st_size b)); simpl in H; [|discriminate].
  destruct (N.eqb_spec (st_mtime a) (st_mtime b)); simpl in H; [|discriminate].
  unfold compare_stat in H. rewrite !andb_true_iff, !N.eqb_eq, bytes_eqb_eq in H. tauto.
Qed.

Lemma sf_intro a b : st_is_dir a = false ->
  st_mode a = st_mode b -> st_uid a = st_uid b -> st_gid a = st_gid b ->
  st_devmajor a = st_devmajor b -> st_devminor a = st_devminor b -> st_linkname a = st_linkname b ->
  st_size a = st_size b -> st_mtime a = st_mtime b -> same_file DMetadata a b = true.
Proof.
  intros Hd E1 E2 E3 E4 E5 E6 E7 E8. simpl. rewrite Hd. simpl.
  unfold compare_stat. rewrite E1, E2, E3, E4, E5, E6, E7, E8, !N.eqb_refl, bytes_eqb_refl. reflexivity.
Qed.

(* a new name of an inode whose entry shows the identity key of [st] shows the key of every
   honest announcement [b] (same metadata as [st]) *)
Lemma link_stat_same_file t st b :
  same_file DMetadata t st = true -> is_node st = true -> ino_meta_eq st b ->
  same_file DMetadata (link_stat t b) b = true.
Proof.
  intros Hs Hr (M1 & M2 & M3 & M4 & M5 & M6 & M7 & _).
  assert (Hrt : is_node t = true) by (rewrite (is_node_mode_eq t st (same_file_mode _ _ _ Hs)); exact Hr).
  pose proof (is_node_not_dir _ Hrt) as Hdt.
  destruct (sf_fields _ _ Hs Hdt) as (F1 & F2 & F3 & F4 & F5 & _ & F7 & F8).
  unfold link_stat. rewrite Hrt. apply sf_intro; simpl; try congruence.
  exact Hdt.
Qed.

Lemma honest_change_nonlink D k p st : is_hardlink st = false -> honest_change D (k, p, Some st) = true.
Proof. intros Hl. unfold honest_change, honest_change_by. rewrite Hl. destruct k; reflexivity. Qed.

Lemma honest_change_link_intro D k p st t :
  alookup (st_linkname st) D = Some t -> link_stat (de_stat t) st = st -> honest_change D (k, p, Some st) = true.
Proof.
  intros Ht E. unfold honest_change, honest_change_by. rewrite Ht, E.
  assert (X : stat_eqb st st = true) by (apply DiffSpecP.stat_eqb_eq; reflexivity).
  rewrite X. destruct k; destruct (is_hardlink st); reflexivity.
Qed.

Section Conv.
Variable d : differ.
Variables A B : list entry.
Notation LA := (map fst A).
Notation LB := (map fst B).
Notation idf := (fun s : stat => s).
Notation D0 := (dest_of A).
Notation src := (src_of B).

Hypothesis HsA : sorted LA.
Hypothesis HcA : closed LA.
Hypothesis HsB : sorted LB.
Hypothesis HcB : closed LB.
Hypothesis Hlinks : links_ok B.
Hypothesis Hfaith : identity_faithful d A B.
Variable n0 : N.     (* inode classes >= n0 are new *)
(* honesty of the hard-link entries, as far as it is known *)
Variables Mh Xh : Prop.
Hypothesis Hmeta : Mh -> links_meta B.
Hypothesis Hxkept : Xh -> link_xattrs_kept d A B.

Notation removed_root := (removed_root idf LA LB).
Notation run := (run idf d LA LB).

Lemma Hflt : forall s : stat, st_is_dir (idf s) = st_is_dir s.
Proof. reflexivity. Qed.

(* ---- the old destination ---- *)
Lemma D0_some p e : alookup p D0 = Some e -> In (de_stat e, de_bytes e) A /\ st_path (de_stat e) = p.
Proof.
  intros H. pose proof (dview_dest_of A p) as Hv. unfold dview in Hv. rewrite H in Hv. simpl in Hv.
  symmetry in Hv. apply efind_some in Hv. exact Hv.
Qed.

Lemma D0_in a : In a LA ->
  exists ba i, In (a, ba) A /\
    alookup (st_path a) D0 = Some {| de_stat := a; de_bytes := ba; de_ino := i |}.
Proof.
  intros Ha. apply in_map_iff in Ha. destruct Ha as ([a' ba] & E & Hin). simpl in E. subst a'.
  pose proof (dview_dest_of A (st_path a)) as Hv.
  pose proof (efind_in_sorted A (a, ba) HsA Hin) as Hf. simpl in Hf. rewrite Hf in Hv. unfold dview in Hv.
  destruct (alookup (st_path a) D0) as [[s b i]|]; simpl in Hv; [|discriminate].
  inversion Hv; subst. exists ba, i. auto.
Qed.

Lemma D0_notin p : notin LA p -> alookup p D0 = None.
Proof.
  intros Hn. destruct (alookup p D0) as [e|] eqn:E; auto. apply D0_some in E. destruct E as [Hin Ep].
  exfalso. apply (Hn (de_stat e)); auto. apply (in_map fst) in Hin. exact Hin.
Qed.

Lemma D0_below_nondir a p :
  In a LA -> st_is_dir a = false -> above (st_path a) p = true -> alookup p D0 = None.
Proof.
  intros Ha Hd Hab. destruct (alookup p D0) as [e|] eqn:E; auto. apply D0_some in E. destruct E as [Hin Ep].
  apply (in_map fst) in Hin. simpl in Hin. apply above_iff in Hab. destruct Hab as [r Er].
  destruct (HcA _ Hin (st_path a) r) as (t & Ht & Et & Hdt); [congruence|].
  assert (t = a) by (apply (sorted_unique LA); auto). subst. congruence.
Qed.

Lemma B_efind b : In b LB -> exists bb, In (b, bb) B /\ efind (st_path b) B = Some (b, bb).
Proof.
  intros Hb. apply in_map_iff in Hb. destruct Hb as ([b' bb] & E & Hin). simpl in E. subst b'.
  exists bb. split; auto. apply (efind_in_sorted B (b, bb) HsB Hin).
Qed.

Lemma B_notin p : notin LB p -> efind p B = None.
Proof.
  intros Hn. destruct (efind p B) as [e|] eqn:E; auto. apply efind_some in E. destruct E as [Hin Ep].
  exfalso. apply (Hn (fst e)); auto. apply (in_map fst); auto.
Qed.

(* ---- progress of the run ---- *)
Definition done (R : list stat) (p : bytes) : Prop :=
  forall y, In y R -> compare_path p (st_path y) = Lt.
Definition pending (R : list stat) (p : bytes) : Prop :=
  exists y, In y R /\ compare_path p (st_path y) <> Lt.

Lemma done_or_pending R p : done R p \/ pending R p.
Proof.
  induction R as [|y R IH].
  - left. intros y [].
  - destruct IH as [IH|(z & Hz & Hc)]; [|right; exists z; split; [right; auto|auto]].
    destruct (compare_path p (st_path y)) eqn:E.
    + right. exists y. split; [left; auto|congruence].
    + left. intros z [<-|Hz]; auto.
    + right. exists y. split; [left; auto|congruence].
Qed.

Lemma done_not_pending R p : done R p -> pending R p -> False.
Proof. intros H (y & Hy & Hc). apply Hc, H, Hy. Qed.

Definition hidden_done (R : list stat) (p : bytes) : Prop :=
  exists q, removed_root q /\ above (st_path q) p = true /\ done R (st_path q).

Notation unchanged := (AbsDest.unchanged d A B).

Notation fresh_target := (AbsDest.fresh_target d A B).
Notation fresh_entry := (AbsDest.fresh_entry B n0).

(* some hard-link entry of the source names p *)
Definition is_link_target (p : bytes) : Prop :=
  exists l bl, In (l, bl) B /\ is_hardlink l = true /\ st_linkname l = p.

(* what a passed path holds: the source's entry — as far as the honesty of the sender is known *)
Definition veq (o : option dentry) (e : option entry) : Prop :=
  match o, e with
  | None, None => True
  | Some x, Some (sb, bb) =>
      ((is_hardlink sb = false \/ Mh) -> same_file DMetadata (de_stat x) sb = true) /\
      st_is_dir (de_stat x) = st_is_dir sb /\
      (is_reg sb = true -> de_bytes x = bb) /\
      (Mh -> Xh -> is_link_target (st_path sb) -> ino_meta_eq (de_stat x) sb)
  | _, _ => False
  end.

Record dinv (D : dmap) (R : list stat) : Prop := {
  dv_M : forall p, In p (paths LA) \/ In p (paths LB) -> In p (paths R) \/ done R p;
  dv_P1 : forall p, done R p -> veq (alookup p D) (efind p B);
  dv_P2a : forall p, pending R p -> hidden_done R p -> alookup p D = None;
  dv_P2b : forall p, pending R p -> ~ hidden_done R p -> alookup p D = alookup p D0;
  dv_P3 : forall p, done R p -> unchanged p -> alookup p D = alookup p D0;
  dv_P4 : forall p, done R p -> fresh_target p -> fresh_entry p (alookup p D);
  dv_P6 : forall p, done R p -> link_changed d A B p -> joined_entry B D p }.

(* a hard-link entry names an earlier path *)
Lemma link_before b : In b LB -> is_hardlink b = true -> compare_path (st_linkname b) (st_path b) = Lt.
Proof.
  intros Hb Hl. apply in_map_iff in Hb. destruct Hb as ([b' bb] & E & Hin). simpl in E. subst b'.
  destruct (Hlinks _ _ Hin Hl) as (st & bt & _ & Ep & Hlt & _). rewrite <- Ep. exact Hlt.
Qed.

Definition rr_at (x : bytes) : Prop := exists q, removed_root q /\ st_path q = x.

Lemma step_inv D D' R R' x :
  dinv D R ->
  (forall y, In y R' -> In y R) ->
  (forall p, In p (paths R) -> p = x \/ In p (paths R')) ->
  In x (paths R) ->
  (forall y, In y R -> compare_path (st_path y) x <> Lt) ->
  (forall y, In y R' -> compare_path x (st_path y) = Lt) ->
  (forall p, at_or_below x p = false -> alookup p D' = alookup p D) ->
  veq (alookup x D') (efind x B) ->
  (forall p, above x p = true -> alookup p D' = None \/ alookup p D' = alookup p D) ->
  (forall p, above x p = true -> rr_at x -> alookup p D' = None) ->
  (forall p, above x p = true -> ~ rr_at x -> alookup p D' = alookup p D \/ alookup p D0 = None) ->
  (unchanged x -> alookup x D' = alookup x D0) ->
  (fresh_target x -> fresh_entry x (alookup x D')) ->
  (link_changed d A B x -> joined_entry B D' x) ->
  dinv D' R'.
Proof.
  intros [M P1 P2a P2b P3 P4 P6] Hsub Hcov Hx Hmin Hlt E1 E3 E4a E4b E4c E5 E6 E7.
  assert (Hdone_mono : forall p, done R p -> done R' p) by (intros p Hd y Hy; apply Hd, Hsub, Hy).
  assert (Hdone_x : done R' x) by exact Hlt.
  assert (Hpend_le : forall p, pending R p -> compare_path p x <> Lt).
  { intros p (y & Hy & Hc) Hpx. apply Hc. eapply lt_le_trans; eauto. }
  assert (Hpend_mono : forall p, pending R' p -> pending R p /\ compare_path x p = Lt).
  { intros p (y & Hy & Hc). split; [exists y; auto|].
    destruct (compare_path_total x p) as [Hl|[->|Hl]]; auto.
    - exfalso. apply Hc. apply Hlt; auto.
    - exfalso. apply Hc. eapply compare_path_trans; [exact Hl|apply Hlt; auto]. }
  assert (Hlt_frame : forall p, compare_path p x = Lt -> alookup p D' = alookup p D).
  { intros p Hp. apply E1. destruct (at_or_below x p) eqn:Eab; auto. apply at_or_below_le in Eab. congruence. }
  (* a path newly done is x itself or a path listed nowhere *)
  assert (Hnew : forall p, done R' p -> pending R p -> p <> x ->
            compare_path x p = Lt /\ ~ In p (paths LA) /\ ~ In p (paths LB)).
  { intros p Hd' Hp Hne. pose proof (Hpend_le _ Hp) as Hle.
    assert (Hxp : compare_path x p = Lt).
    { destruct (compare_path_total x p) as [Hl|[->|Hl]]; auto; congruence. }
    split; auto.
    assert (Hno : In p (paths LA) \/ In p (paths LB) -> False).
    { intros Hin. destruct (M _ Hin) as [HinR|Hd]; [|eapply done_not_pending; eauto].
      destruct (Hcov _ HinR) as [->|HinR']; [congruence|].
      apply in_map_iff in HinR'. destruct HinR' as (y & <- & Hy). specialize (Hd' _ Hy).
      rewrite compare_path_refl in Hd'. discriminate. }
    tauto. }
  assert (Hnotin_none : forall p, ~ In p (paths LA) -> alookup p D0 = None).
  { intros p Hn. apply D0_notin. intros s Hs Ep. apply Hn. subst p. apply (in_map st_path); auto. }
  assert (HD_none_new : forall p, done R' p -> pending R p -> p <> x -> alookup p D = None).
  { intros p Hd' Hp Hne. destruct (Hnew p Hd' Hp Hne) as (_ & HnA & _).
    assert (Hdec : alookup p D = None \/ alookup p D = alookup p D0).
    { destruct (alookup p D) eqn:E; auto. right.
      (* either hidden (then None) or not: use P2a/P2b through excluded middle on the result *)
      rewrite <- E. apply P2b; auto. intros Hh. rewrite (P2a p Hp Hh) in E. discriminate. }
    destruct Hdec as [H0|H0]; auto. rewrite H0. apply Hnotin_none; auto. }
  (* hidden_done for the new frontier *)
  assert (Hhid : forall p, hidden_done R' p -> hidden_done R p \/ (rr_at x /\ above x p = true)).
  { intros p (q & Hr & Hab & Hd'). destruct (done_or_pending R (st_path q)) as [Hd|Hp].
    - left. exists q. auto.
    - right. assert (Hq : st_path q = x).
      { destruct (bytes_eqb (st_path q) x) eqn:Eq; [apply bytes_eqb_eq; auto|]. apply bytes_eqb_neq in Eq.
        destruct (Hnew _ Hd' Hp Eq) as (_ & HnA & _). exfalso. apply HnA.
        destruct Hr as (HqA & _). apply (in_map st_path); auto. }
      split; [exists q; auto|congruence]. }
  split.
  - (* M *)
    intros p Hin. destruct (M _ Hin) as [HinR|Hd]; [|right; auto].
    destruct (Hcov _ HinR) as [->|HinR']; auto.
  - (* P1 *)
    intros p Hd'. destruct (done_or_pending R p) as [Hd|Hp].
    + rewrite Hlt_frame; [apply P1; auto|]. apply in_map_iff in Hx. destruct Hx as (y & <- & Hy). apply Hd; auto.
    + destruct (bytes_eqb p x) eqn:Epx; [apply bytes_eqb_eq in Epx; subst; exact E3|].
      apply bytes_eqb_neq in Epx. destruct (Hnew _ Hd' Hp Epx) as (Hxp & HnA & HnB).
      assert (HB : efind p B = None).
      { apply B_notin. intros s Hs Ep. apply HnB. subst p. apply (in_map st_path); auto. }
      rewrite HB. pose proof (HD_none_new _ Hd' Hp Epx) as HD.
      assert (HD' : alookup p D' = None).
      { destruct (at_or_below x p) eqn:Eab.
        - apply at_or_below_iff in Eab. destruct Eab as [->|Eab]; [congruence|].
          destruct (E4a _ Eab) as [H0|H0]; auto. congruence.
        - rewrite E1; auto. }
      rewrite HD'. exact I.
  - (* P2a *)
    intros p Hp' Hh'. destruct (Hpend_mono _ Hp') as [Hp Hxp].
    assert (Hne : x <> p) by (apply compare_path_lt_neq; auto).
    destruct (at_or_below x p) eqn:Eab.
    + apply at_or_below_iff in Eab. destruct Eab as [->|Eab]; [congruence|].
      destruct (Hhid _ Hh') as [Hh|[Hrr _]].
      * destruct (E4a _ Eab) as [H0|H0]; auto. rewrite H0. apply P2a; auto.
      * apply E4b; auto.
    + rewrite E1; auto. destruct (Hhid _ Hh') as [Hh|[_ Hab]].
      * apply P2a; auto.
      * unfold at_or_below in Eab. rewrite Hab, orb_true_r in Eab. discriminate.
  - (* P2b *)
    intros p Hp' Hnh'. destruct (Hpend_mono _ Hp') as [Hp Hxp].
    assert (Hne : x <> p) by (apply compare_path_lt_neq; auto).
    assert (Hnh : ~ hidden_done R p).
    { intros (q & Hr & Hab & Hd). apply Hnh'. exists q. auto. }
    pose proof (P2b _ Hp Hnh) as HD.
    destruct (at_or_below x p) eqn:Eab.
    + apply at_or_below_iff in Eab. destruct Eab as [->|Eab]; [congruence|].
      assert (Hnrr : ~ rr_at x).
      { intros (q & Hr & Eq). apply Hnh'. exists q. rewrite Eq. auto. }
      destruct (E4c _ Eab Hnrr) as [H0|H0]; [congruence|].
      destruct (E4a _ Eab) as [H1|H1]; congruence.
    + rewrite E1; auto.
  - (* P3 *)
    intros p Hd' Hu. destruct (done_or_pending R p) as [Hd|Hp].
    + rewrite Hlt_frame; [apply P3; auto|]. apply in_map_iff in Hx. destruct Hx as (y & <- & Hy). apply Hd; auto.
    + destruct (bytes_eqb p x) eqn:Epx; [apply bytes_eqb_eq in Epx; subst; auto|].
      apply bytes_eqb_neq in Epx. destruct (Hnew _ Hd' Hp Epx) as (_ & HnA & _).
      exfalso. apply HnA. destruct Hu as (a & b & Ha & _ & <- & _). apply (in_map st_path); auto.
  - (* P4 *)
    intros p Hd' Hft. destruct (done_or_pending R p) as [Hd|Hp].
    + rewrite Hlt_frame; [apply P4; auto|]. apply in_map_iff in Hx. destruct Hx as (y & <- & Hy). apply Hd; auto.
    + destruct (bytes_eqb p x) eqn:Epx; [apply bytes_eqb_eq in Epx; subst; auto|].
      apply bytes_eqb_neq in Epx. destruct (Hnew _ Hd' Hp Epx) as (_ & _ & HnB).
      exfalso. apply HnB. destruct Hft as (b & Hb & <- & _). apply (in_map st_path); auto.
  - (* P6 *)
    intros p Hd' Hlc. destruct (done_or_pending R p) as [Hd|Hp].
    + assert (Hpx : compare_path p x = Lt).
      { apply in_map_iff in Hx. destruct Hx as (y & <- & Hy). apply Hd; auto. }
      destruct (P6 p Hd Hlc) as (b & e & t & Hb & Ep & He & Ht & Hi).
      exists b, e, t. split; auto. split; auto. rewrite !Hlt_frame; auto.
      destruct Hlc as (b' & Hb' & Ep' & Hl' & _).
      assert (b' = b) by (apply (sorted_unique LB); auto; congruence). subst b'.
      eapply compare_path_trans; [|exact Hpx]. rewrite <- Ep. apply link_before; auto.
    + destruct (bytes_eqb p x) eqn:Epx; [apply bytes_eqb_eq in Epx; subst; auto|].
      apply bytes_eqb_neq in Epx. destruct (Hnew _ Hd' Hp Epx) as (_ & _ & HnB).
      exfalso. apply HnB. destruct Hlc as (b & Hb & <- & _). apply (in_map st_path); auto.
Qed.


(* ---- facts at the head of the unread suffixes ---- *)
Lemma head_pending R x : In x (paths R) -> pending R x.
Proof.
  intros Hx. apply in_map_iff in Hx. destruct Hx as (y & <- & Hy). exists y. split; auto.
  rewrite compare_path_refl. discriminate.
Qed.

Lemma done_before D R x p :
  dinv D R -> (forall y, In y R -> compare_path (st_path y) x <> Lt) ->
  compare_path p x = Lt -> In p (paths LA) \/ In p (paths LB) -> done R p.
Proof.
  intros HD Hmin Hpx Hin. destruct (dv_M _ _ HD _ Hin) as [HinR|Hd]; auto.
  apply in_map_iff in HinR. destruct HinR as (y & <- & Hy). exfalso. apply (Hmin _ Hy). exact Hpx.
Qed.

Lemma not_hidden_in_B R b : In b LB -> ~ hidden_done R (st_path b).
Proof.
  intros Hb (q & Hr & Hab & _). apply above_iff in Hab. destruct Hab as [r Er].
  eapply (removed_root_no_B idf LA LB HsB HcB Hflt); eauto.
Qed.

Lemma head_lookup D R b :
  dinv D R -> In (st_path b) (paths R) -> In b LB -> alookup (st_path b) D = alookup (st_path b) D0.
Proof.
  intros HD Hx Hb. apply (dv_P2b _ _ HD); [apply head_pending; auto|apply not_hidden_in_B; auto].
Qed.

(* a removed root exactly at the path of a (unique) entry a of the destination listing *)
Lemma rr_at_inv a : In a LA -> rr_at (st_path a) ->
  st_is_dir a = true /\ (notin LB (st_path a) \/ exists b, In b LB /\ st_path b = st_path a /\ st_is_dir b = false).
Proof.
  intros Ha (q & (Hq & Hd & Hr) & Eq). assert (q = a) by (apply (sorted_unique LA); auto). subst q. auto.
Qed.

(* the entry written for the source entry b shows b *)
Lemma new_entry_equiv b e :
  In b LB -> de_stat e = b ->
  (forall bb, In (b, bb) B -> is_reg b = true -> de_bytes e = bb) ->
  veq (Some e) (efind (st_path b) B).
Proof.
  intros Hb Es Hbytes. destruct (B_efind _ Hb) as (bb & Hin & Ef). rewrite Ef. simpl. rewrite Es.
  split; [intros _; apply same_file_refl|]. split; [reflexivity|].
  split; [intros Hr; apply Hbytes; auto|]. intros _ _ _. apply ino_meta_eq_refl.
Qed.

(* the entry written for the hard-link entry b of the source: a new name of the inode shown as t *)
Lemma link_entry_equiv b e t :
  In b LB -> is_hardlink b = true -> de_stat e = link_stat (de_stat t) b ->
  (forall bb, In (b, bb) B -> is_reg b = true -> de_bytes e = bb) ->
  (Mh -> same_file DMetadata (link_stat (de_stat t) b) b = true) ->
  (Mh -> Xh -> link_stat (de_stat t) b = b) ->
  veq (Some e) (efind (st_path b) B).
Proof.
  intros Hb Hl Es Hbytes Hkey Hexact. destruct (B_efind _ Hb) as (bb & Hin & Ef). rewrite Ef. simpl. rewrite Es.
  split; [intros [X|X]; [congruence|auto]|].
  split.
  { rewrite (link_stat_not_dir _ _ Hl). symmetry. apply is_node_not_dir. apply is_hardlink_node; auto. }
  split; [intros Hr; apply Hbytes; auto|].
  intros X Y _. rewrite (Hexact X Y). apply ino_meta_eq_refl.
Qed.

Lemma src_at b bb : In (b, bb) B -> src (st_path b) = bb.
Proof.
  intros Hin. unfold src_of. pose proof (efind_in_sorted B (b, bb) HsB Hin) as Ef. simpl in Ef. rewrite Ef. reflexivity.
Qed.

Lemma not_hardlink_wants st : is_reg st = true -> is_hardlink st = false -> wants_content st = true.
Proof.
  intros Hr H. unfold is_hardlink in H. rewrite (is_reg_is_node _ Hr) in H. unfold wants_content. rewrite Hr.
  simpl in *. apply negb_false_iff in H. exact H.
Qed.

(* the target of a hard-link entry has been written before the entry is reached; with an honest
   sender the new name shows the identity key / exactly the stat that was announced *)
Lemma link_target D R b :
  dinv D R -> (forall y, In y R -> compare_path (st_path y) (st_path b) <> Lt) ->
  In b LB -> is_hardlink b = true ->
  exists t, alookup (st_linkname b) D = Some t /\ st_is_dir (de_stat t) = false /\
            (forall bb, In (b, bb) B -> is_reg b = true -> de_bytes t = bb) /\
            (Mh -> same_file DMetadata (link_stat (de_stat t) b) b = true) /\
            (Mh -> Xh -> link_stat (de_stat t) b = b).
Proof.
  intros HD Hmin Hb Hl. destruct (B_efind _ Hb) as (bb & Hin & _).
  destruct (Hlinks _ _ Hin Hl) as (st & bt & Hint & Ep & Hlt & Hreg & Hrr & Ebt).
  assert (Hd : done R (st_path st)).
  { eapply done_before; eauto. right. apply (in_map st_path). apply (in_map fst) in Hint. exact Hint. }
  pose proof (dv_P1 _ _ HD _ Hd) as Hv.
  pose proof (efind_in_sorted B (st, bt) HsB Hint) as Ef. simpl in Ef. rewrite Ef in Hv.
  rewrite Ep in Hv. destruct (alookup (st_linkname b) D) as [t|]; [|destruct Hv].
  destruct Hv as (Hs & Hdir & Hb2 & Hmx). exists t. split; auto. split; [|split; [|split]].
  - rewrite Hdir. apply is_node_not_dir; auto.
  - intros bb' Hin' Hrb. rewrite (Hb2 (Hrr Hrb)). subst bt.
    pose proof (efind_in_sorted B (b, bb) HsB Hin) as E1. pose proof (efind_in_sorted B (b, bb') HsB Hin') as E2.
    simpl in E1, E2. congruence.
  - intros X. apply (link_stat_same_file _ st); auto.
    apply (Hmeta X b bb st bt); auto.
  - intros X Y. apply link_stat_honest. eapply ino_meta_eq_trans.
    + apply Hmx; auto. exists b, bb. auto.
    + apply (Hmeta X b bb st bt); auto.
Qed.

(* an entry that stays in place and is named by a hard-link entry of an honest source already
   shows the metadata of the source's entry *)
Lemma unchanged_meta a b :
  In a LA -> In b LB -> st_path a = st_path b -> same_file d a b = true ->
  Mh -> Xh -> is_link_target (st_path b) -> ino_meta_eq a b.
Proof.
  intros Ha Hb Ep Hs X Y (l & bl & Hl & Hhl & Eln).
  destruct (Hlinks _ _ Hl Hhl) as (st & bt & Hint & Ept & _ & Hreg & _).
  assert (st = b) by (apply (sorted_unique LB); auto; [apply (in_map fst _ _ Hint)|congruence]). subst st.
  apply in_map_iff in Ha. destruct Ha as ([a' ba] & E1 & Ha). simpl in E1. subst a'.
  pose proof (Hxkept Y l bl b bt a ba Hl Hhl Hint Ept Ha Ep Hs) as Exa.
  pose proof (same_file_DMetadata _ _ _ Hs) as Hs'.
  assert (Hda : st_is_dir a = false).
  { rewrite (same_file_is_dir _ _ _ Hs). apply is_node_not_dir; auto. }
  destruct (sf_fields _ _ Hs' Hda) as (F1 & F2 & F3 & F4 & F5 & _ & F7 & F8).
  unfold ino_meta_eq. repeat split; auto.
Qed.

Lemma min_head_A a A' B' :
  sorted (a :: A') -> (forall b, In b B' -> plt a b) ->
  forall y, In y ((a :: A') ++ B') -> compare_path (st_path y) (st_path a) <> Lt.
Proof.
  intros HS HaB y Hy. apply sorted_inv in HS. destruct HS as [_ HaA].
  simpl in Hy. destruct Hy as [<-|Hy]; [rewrite compare_path_refl; discriminate|].
  assert (plt a y) by (apply in_app_or in Hy; destruct Hy; auto).
  unfold plt in H. rewrite compare_path_opp, H. discriminate.
Qed.

Lemma lt_rest_A a A' B' :
  sorted (a :: A') -> (forall b, In b B' -> plt a b) ->
  forall y, In y (A' ++ B') -> compare_path (st_path a) (st_path y) = Lt.
Proof.
  intros HS HaB y Hy. apply sorted_inv in HS. destruct HS as [_ HaA].
  apply in_app_or in Hy. destruct Hy; [apply HaA|apply HaB]; auto.
Qed.

Lemma run_apply A' B' out : run A' B' out -> sorted A' -> sorted B' ->
  forall D next, n0 <= next -> dinv D (A' ++ B') ->
  exists D' next', apply_all src out D next = (D', next', out, false) /\ dinv D' [] /\
                   (Mh -> Xh -> honest_run src out D next = true).
Proof.
  induction 1 as [|a A' B' out Ha HnB Hh HaB R IH|a A' B' out Ha HnB Hh HaB R IH
                 |b A' B' out Hb HnA HbA R IH|a b A' B' out Ha Hb E Hs R IH|a b A' B' out Ha Hb E Hs R IH];
    intros SA SB D next Hnx HD.
  - exists D, next. split; [reflexivity|]. split; [exact HD|reflexivity].
  - (* delete suppressed: nothing is applied *)
    pose proof (min_head_A _ _ _ SA HaB) as Hmin. pose proof (lt_rest_A _ _ _ SA HaB) as Hlt.
    apply sorted_inv in SA. destruct SA as [SA _].
    apply (IH SA SB D next Hnx).
    assert (Hx : In (st_path a) (paths ((a :: A') ++ B'))) by (left; reflexivity).
    assert (Hhd : forall p, p = st_path a \/ above (st_path a) p = true ->
              pending ((a :: A') ++ B') p /\ hidden_done ((a :: A') ++ B') p).
    { intros p Hp. split.
      - exists a. split; [left; auto|]. destruct Hp as [->|Hp]; [rewrite compare_path_refl; discriminate|].
        apply above_lt in Hp. rewrite compare_path_opp, Hp. discriminate.
      - destruct Hh as (q & Hq & Hr & Hab). exists q. split; auto. split.
        + destruct Hp as [->|Hp]; auto. eapply above_trans; eauto.
        + eapply done_before; eauto; [apply above_lt; auto|]. left. apply (in_map st_path); auto. }
    apply (step_inv D D ((a :: A') ++ B') (A' ++ B') (st_path a)); auto.
    + intros y Hy. right. exact Hy.
    + intros p Hp. simpl in Hp. destruct Hp; auto.
    + destruct (Hhd (st_path a) (or_introl eq_refl)) as [H1 H2].
      rewrite (dv_P2a _ _ HD _ H1 H2), (B_notin _ HnB). exact I.
    + intros p Hp _. destruct (Hhd p (or_intror Hp)) as [H1 H2]. apply (dv_P2a _ _ HD _ H1 H2).
    + intros (a' & b' & _ & Hb' & _ & Eb' & _). exfalso. eapply HnB; eauto.
    + intros (b' & Hb' & Eb' & _). exfalso. eapply HnB; eauto.
    + intros (b' & Hb' & Eb' & _). exfalso. eapply HnB; eauto.
  - (* delete *)
    pose proof (min_head_A _ _ _ SA HaB) as Hmin. pose proof (lt_rest_A _ _ _ SA HaB) as Hlt.
    apply sorted_inv in SA. destruct SA as [SA _].
    set (D1 := aremove_if (at_or_below (st_path a)) D).
    destruct (IH SA SB D1 next Hnx) as (D' & n' & Eap & HD' & Hhon).
    { apply (step_inv D D1 ((a :: A') ++ B') (A' ++ B') (st_path a)); auto.
      - intros y Hy. right. exact Hy.
      - intros p Hp. simpl in Hp. destruct Hp; auto.
      - left. reflexivity.
      - intros p Hp. unfold D1. rewrite alookup_aremove_if, Hp. reflexivity.
      - unfold D1. rewrite alookup_aremove_if. unfold at_or_below. rewrite bytes_eqb_refl. simpl.
        rewrite (B_notin _ HnB). exact I.
      - intros p Hp. left. unfold D1. rewrite alookup_aremove_if. unfold at_or_below. rewrite Hp, orb_true_r. reflexivity.
      - intros p Hp _. unfold D1. rewrite alookup_aremove_if. unfold at_or_below. rewrite Hp, orb_true_r. reflexivity.
      - intros p Hp Hnrr. right. destruct (st_is_dir a) eqn:Ed.
        + exfalso. apply Hnrr. exists a. split; auto. split; auto.
        + eapply D0_below_nondir; eauto.
      - intros (a' & b' & _ & Hb' & _ & Eb' & _). exfalso. eapply HnB; eauto.
      - intros (b' & Hb' & Eb' & _). exfalso. eapply HnB; eauto.
      - intros (b' & Hb' & Eb' & _). exfalso. eapply HnB; eauto. }
    exists D', n'. split; [simpl; fold D1; rewrite Eap; reflexivity|]. split; [exact HD'|].
    intros X Y. unfold honest_run. cbn [honest_run_by apply_map]. fold D1. exact (Hhon X Y).
  - (* add *)
    assert (Hmin : forall y, In y (A' ++ b :: B') -> compare_path (st_path y) (st_path b) <> Lt).
    { intros y Hy. apply sorted_inv in SB. destruct SB as [_ HbB].
      apply in_app_or in Hy. destruct Hy as [Hy|[<-|Hy]]; [|rewrite compare_path_refl; discriminate|].
      - specialize (HbA _ Hy). unfold plt in HbA. rewrite compare_path_opp, HbA. discriminate.
      - specialize (HbB _ Hy). unfold plt in HbB. rewrite compare_path_opp, HbB. discriminate. }
    assert (Hlt : forall y, In y (A' ++ B') -> compare_path (st_path b) (st_path y) = Lt).
    { intros y Hy. apply sorted_inv in SB. destruct SB as [_ HbB].
      apply in_app_or in Hy. destruct Hy; [apply HbA|apply HbB]; auto. }
    assert (Hx : In (st_path b) (paths (A' ++ b :: B'))).
    { apply (in_map st_path). apply in_or_app. right. left. reflexivity. }
    assert (Hold : alookup (st_path b) D = None).
    { rewrite (head_lookup D _ b HD Hx Hb). apply D0_notin; auto. }
    (* the entry written *)
    assert (Hent : exists e n1,
              apply_map src D next (KAdd, st_path b, Some b) = Some (aset (st_path b) e D, n1) /\
              veq (Some e) (efind (st_path b) B) /\ (is_hardlink b = false -> de_stat e = b) /\
              n0 <= n1 /\ (is_hardlink b = false -> n0 <= de_ino e) /\
              (Mh -> Xh -> honest_change D (KAdd, st_path b, Some b) = true) /\
              (is_hardlink b = true -> exists t, alookup (st_linkname b) D = Some t /\ de_ino e = de_ino t /\
                                                 de_bytes e = de_bytes t /\ de_stat e = link_stat (de_stat t) b)).
    { cbn [apply_map]. rewrite Hold. destruct (is_hardlink b) eqn:Ehl.
      - destruct (link_target D _ b HD Hmin Hb Ehl) as (t & Et & Hdt & Hbt & Hkey & Hexact). rewrite Et, Hdt.
        eexists; eexists. split; [reflexivity|]. split.
        { apply (link_entry_equiv b _ t); auto. }
        split; [discriminate|]. split; [exact Hnx|]. split; [discriminate|].
        split; [intros X Y; apply (honest_change_link_intro D KAdd (st_path b) b t Et); auto|].
        intros _. exists t. auto.
      - eexists; eexists. split; [reflexivity|]. split.
        { apply new_entry_equiv; auto. simpl. intros bb Hin Hr. rewrite (not_hardlink_wants _ Hr Ehl). apply src_at; auto. }
        split; [reflexivity|]. split; [etransitivity; [exact Hnx|apply N.le_add_r]|].
        split; [intros _; exact Hnx|]. split; [intros _ _; apply honest_change_nonlink; auto|discriminate]. }
    destruct Hent as (e & n1 & Eap & Hveq & Es & Hn1 & Hino & Hhc & Hjoin).
    apply sorted_inv in SB. destruct SB as [SB _].
    destruct (IH SA SB (aset (st_path b) e D) n1 Hn1) as (D' & n' & Eall & HD' & Hhon).
    { apply (step_inv D _ (A' ++ b :: B') (A' ++ B') (st_path b)); auto.
      - intros y Hy. apply in_app_or in Hy. apply in_or_app. destruct Hy; auto. right. right. auto.
      - intros p Hp. unfold paths in Hp. rewrite map_app in Hp. apply in_app_or in Hp.
        unfold paths. rewrite map_app. destruct Hp as [Hp|[Hp|Hp]]; auto; right; apply in_or_app; auto.
      - intros p Hp. apply alookup_aset_other. intros Ep. subst p. unfold at_or_below in Hp.
        rewrite bytes_eqb_refl in Hp. discriminate.
      - rewrite alookup_aset_same. exact Hveq.
      - intros p Hp. right. apply alookup_aset_other. apply compare_path_lt_neq, above_lt; auto.
      - intros p Hp (q & (Hq & _) & Eq). exfalso. eapply HnA; eauto.
      - intros p Hp _. left. apply alookup_aset_other. apply compare_path_lt_neq, above_lt; auto.
      - intros (a' & b' & Ha' & _ & Ea' & _). exfalso. eapply HnA; eauto.
      - intros (b' & Hb' & Eb' & Hl' & _).
        assert (b' = b) by (apply (sorted_unique LB); auto). subst b'.
        exists e, b. rewrite alookup_aset_same. repeat split; auto.
      - intros (b' & Hb' & Eb' & Hl' & _).
        assert (b' = b) by (apply (sorted_unique LB); auto). subst b'.
        destruct (Hjoin Hl') as (t & Ht & Hi). exists b, e, t. split; auto. split; auto.
        rewrite alookup_aset_same. split; auto. split; auto.
        rewrite alookup_aset_other; auto. apply not_eq_sym, compare_path_lt_neq, link_before; auto. }
    exists D', n'. split; [cbn [apply_all]; rewrite Eap, Eall; reflexivity|]. split; [exact HD'|].
    intros X Y. unfold honest_run. cbn [honest_run_by]. rewrite Eap. apply andb_true_iff. split; [exact (Hhc X Y)|exact (Hhon X Y)].
  - (* unchanged *)
    assert (HaB : forall y, In y B' -> plt a y).
    { intros y Hy. apply sorted_inv in SB. destruct SB as [_ HbB]. unfold plt. rewrite E. apply HbB; auto. }
    assert (Hmin : forall y, In y ((a :: A') ++ b :: B') -> compare_path (st_path y) (st_path a) <> Lt).
    { intros y Hy. apply in_app_or in Hy. destruct Hy as [Hy|[<-|Hy]].
      - apply (min_head_A a A' B' SA HaB). apply in_or_app; auto.
      - rewrite E, compare_path_refl. discriminate.
      - apply (min_head_A a A' B' SA HaB). apply in_or_app; auto. }
    pose proof (lt_rest_A _ _ _ SA HaB) as Hlt.
    assert (Hx : In (st_path b) (paths ((a :: A') ++ b :: B'))) by (left; auto).
    pose proof (head_lookup D _ b HD Hx Hb) as Hold. rewrite <- E in Hold.
    destruct (D0_in a Ha) as (ba & i & HinA & ED0).
    apply sorted_inv in SA, SB. destruct SA as [SA _], SB as [SB _].
    apply (IH SA SB D next Hnx).
    apply (step_inv D D ((a :: A') ++ b :: B') (A' ++ B') (st_path a)); auto.
    + intros y Hy. apply in_app_or in Hy. destruct Hy; [right; apply in_or_app; auto|].
      right. apply in_or_app. right. right. auto.
    + intros p Hp. unfold paths in Hp. simpl in Hp. rewrite map_app in Hp. simpl in Hp.
      destruct Hp as [Hp|Hp]; auto. apply in_app_or in Hp. unfold paths. rewrite map_app.
      destruct Hp as [Hp|[Hp|Hp]]; [right; apply in_or_app; auto|left; congruence|right; apply in_or_app; auto].
    + left. reflexivity.
    + rewrite Hold, ED0, E. destruct (B_efind _ Hb) as (bb & HinB & Ef). rewrite Ef. simpl. split; [|split; [|split]].
      * intros _. eapply same_file_DMetadata; eauto.
      * eapply same_file_is_dir; eauto.
      * intros Hr. eapply Hfaith; eauto.
      * intros X Y Ht. apply unchanged_meta; auto.
    + intros p Hp Hrr. exfalso. destruct (rr_at_inv a Ha Hrr) as (Hd & [Hn|(b' & Hb' & Eb' & Hdb')]).
      * eapply Hn; eauto.
      * assert (b' = b) by (apply (sorted_unique LB); auto; congruence). subst b'.
        rewrite (same_file_is_dir _ _ _ Hs) in Hd. congruence.
    + intros (b' & Hb' & Eb' & _ & [Hn'|(a' & Ha' & Ea' & Hs' & _)]).
      * exfalso. eapply Hn'; eauto.
      * assert (b' = b) by (apply (sorted_unique LB); auto; congruence).
        assert (a' = a) by (apply (sorted_unique LA); auto). subst. simpl in Hs. congruence.
    + intros (b' & Hb' & Eb' & _ & [Hn'|(a' & Ha' & Ea' & Hs')]).
      * exfalso. eapply Hn'; eauto.
      * assert (b' = b) by (apply (sorted_unique LB); auto; congruence).
        assert (a' = a) by (apply (sorted_unique LA); auto). subst. simpl in Hs. congruence.
  - (* modify *)
    assert (HaB : forall y, In y B' -> plt a y).
    { intros y Hy. apply sorted_inv in SB. destruct SB as [_ HbB]. unfold plt. rewrite E. apply HbB; auto. }
    assert (Hmin : forall y, In y ((a :: A') ++ b :: B') -> compare_path (st_path y) (st_path a) <> Lt).
    { intros y Hy. apply in_app_or in Hy. destruct Hy as [Hy|[<-|Hy]].
      - apply (min_head_A a A' B' SA HaB). apply in_or_app; auto.
      - rewrite E, compare_path_refl. discriminate.
      - apply (min_head_A a A' B' SA HaB). apply in_or_app; auto. }
    pose proof (lt_rest_A _ _ _ SA HaB) as Hlt.
    assert (Hx : In (st_path b) (paths ((a :: A') ++ b :: B'))) by (left; auto).
    pose proof (head_lookup D _ b HD Hx Hb) as Hold.
    destruct (D0_in a Ha) as (ba & i & HinA & ED0). rewrite <- E, ED0 in Hold.
    assert (Hmin' : forall y, In y ((a :: A') ++ b :: B') -> compare_path (st_path y) (st_path b) <> Lt).
    { intros y Hy. rewrite <- E. auto. }
    (* what HandleChange does at this path: an entry for b is set, over D or over D minus the subtree *)
    assert (Hent : exists e n1 D1,
              apply_map src D next (KModify, st_path b, Some b) = Some (aset (st_path a) e D1, n1) /\
              veq (Some e) (efind (st_path b) B) /\ (is_hardlink b = false -> de_stat e = b) /\
              (Mh -> Xh -> honest_change D (KModify, st_path b, Some b) = true) /\
              (is_hardlink b = true -> exists t, alookup (st_linkname b) D = Some t /\ de_ino e = de_ino t /\
                                                 de_bytes e = de_bytes t /\ de_stat e = link_stat (de_stat t) b) /\
              (D1 = D \/ (D1 = aremove_if (at_or_below (st_path a)) D /\ st_is_dir a <> st_is_dir b)) /\
              (st_is_dir a = true -> st_is_dir b = false -> D1 = aremove_if (at_or_below (st_path a)) D) /\
              n0 <= n1 /\ (is_hardlink b = false -> (st_is_dir a && st_is_dir b) = false -> n0 <= de_ino e)).
    { cbn [apply_map]. rewrite <- E, Hold. cbn [de_stat de_bytes de_ino]. destruct (st_is_dir b && st_is_dir a) eqn:Edd.
      - apply andb_true_iff in Edd. destruct Edd as [Ed1 Ed2].
        assert (Ehl : is_hardlink b = false).
        { unfold is_hardlink, is_node. rewrite Ed1. reflexivity. }
        eexists; eexists; exists D. split; [reflexivity|]. split.
        { rewrite E. apply (new_entry_equiv b); auto. simpl. intros bb _ Hr. apply is_reg_not_dir in Hr. congruence. }
        split; [reflexivity|]. split; [intros _ _; apply honest_change_nonlink; auto|].
        split; [congruence|].
        split; auto. split; [intros _ Hd; congruence|]. split; [exact Hnx|].
        intros _ Hdd. rewrite Ed1, Ed2 in Hdd. discriminate.
      - assert (HD1 : forall X : dmap, (X = D \/ (X = aremove_if (at_or_below (st_path a)) D /\ st_is_dir a <> st_is_dir b)) ->
                  X = (if Bool.eqb (st_is_dir a) (st_is_dir b) then D else aremove_if (at_or_below (st_path a)) D) ->
                  (st_is_dir a = true -> st_is_dir b = false -> X = aremove_if (at_or_below (st_path a)) D)).
        { intros X _ -> H1 H2. rewrite H1, H2. reflexivity. }
        assert (HD1' : (if Bool.eqb (st_is_dir a) (st_is_dir b) then D else aremove_if (at_or_below (st_path a)) D) = D \/
                       ((if Bool.eqb (st_is_dir a) (st_is_dir b) then D else aremove_if (at_or_below (st_path a)) D)
                          = aremove_if (at_or_below (st_path a)) D /\ st_is_dir a <> st_is_dir b)).
        { destruct (st_is_dir a), (st_is_dir b); simpl; auto; right; split; auto; discriminate. }
        destruct (is_hardlink b) eqn:Ehl.
        + destruct (link_target D _ b HD Hmin' Hb Ehl) as (t & Et & Hdt & Hbt & Hkey & Hexact). rewrite Et, Hdt.
          eexists; eexists; eexists. split; [reflexivity|]. split.
          { rewrite E. apply (link_entry_equiv b _ t); auto. }
          split; [discriminate|].
          split; [intros X Y; apply (honest_change_link_intro D KModify _ b t Et); auto|].
          split; [intros _; exists t; auto|].
          split; [exact HD1'|]. split; [apply HD1; auto|]. split; [exact Hnx|discriminate].
        + eexists; eexists; eexists. split; [reflexivity|]. split.
          { rewrite E. apply (new_entry_equiv b); auto. simpl. intros bb Hin Hr. rewrite (not_hardlink_wants _ Hr Ehl). apply src_at; auto. }
          split; [reflexivity|]. split; [intros _ _; apply honest_change_nonlink; auto|].
          split; [discriminate|].
          split; [exact HD1'|]. split; [apply HD1; auto|]. split; [|intros _ _; exact Hnx].
          etransitivity; [exact Hnx|apply N.le_add_r]. }
    destruct Hent as (e & n1 & D1 & Eap & Hveq & Es & Hhc & Hjoin & HD1 & HD1rr & Hn1 & Hino).
    assert (Hrr : rr_at (st_path a) -> st_is_dir a = true /\ st_is_dir b = false).
    { intros Hr. destruct (rr_at_inv a Ha Hr) as (Hd & [Hn|(b' & Hb' & Eb' & Hdb')]).
      - exfalso. eapply Hn; eauto.
      - assert (b' = b) by (apply (sorted_unique LB); auto; congruence). subst b'. auto. }
    apply sorted_inv in SA, SB. destruct SA as [SA _], SB as [SB _].
    destruct (IH SA SB (aset (st_path a) e D1) n1 Hn1) as (D' & n' & Eall & HD' & Hhon).
    { apply (step_inv D _ ((a :: A') ++ b :: B') (A' ++ B') (st_path a)); auto.
      - intros y Hy. apply in_app_or in Hy. destruct Hy; [right; apply in_or_app; auto|].
        right. apply in_or_app. right. right. auto.
      - intros p Hp. unfold paths in Hp. simpl in Hp. rewrite map_app in Hp. simpl in Hp.
        destruct Hp as [Hp|Hp]; auto. apply in_app_or in Hp. unfold paths. rewrite map_app.
        destruct Hp as [Hp|[Hp|Hp]]; [right; apply in_or_app; auto|left; congruence|right; apply in_or_app; auto].
      - left. reflexivity.
      - intros p Hp. rewrite alookup_aset_other.
        + destruct HD1 as [->|[-> _]]; auto. rewrite alookup_aremove_if, Hp. reflexivity.
        + intros Ep. subst p. unfold at_or_below in Hp. rewrite bytes_eqb_refl in Hp. discriminate.
      - rewrite alookup_aset_same, E. exact Hveq.
      - intros p Hp. rewrite alookup_aset_other by (apply compare_path_lt_neq, above_lt; auto).
        destruct HD1 as [->|[-> _]]; auto. left. rewrite alookup_aremove_if. unfold at_or_below.
        rewrite Hp, orb_true_r. reflexivity.
      - intros p Hp Hr. destruct (Hrr Hr) as [Hd1 Hd2].
        rewrite alookup_aset_other by (apply compare_path_lt_neq, above_lt; auto).
        rewrite (HD1rr Hd1 Hd2), alookup_aremove_if. unfold at_or_below. rewrite Hp, orb_true_r. reflexivity.
      - intros p Hp Hnrr. rewrite alookup_aset_other by (apply compare_path_lt_neq, above_lt; auto).
        destruct HD1 as [->|[-> Hne]]; auto. right.
        destruct (st_is_dir a) eqn:Eda.
        + exfalso. apply Hnrr. exists a. split; auto. split; auto. split; auto. right. exists b.
          split; auto. split; auto. simpl. destruct (st_is_dir b); congruence.
        + eapply D0_below_nondir; eauto.
      - intros (a' & b' & Ha' & Hb' & Ea' & Eb' & Hs').
        assert (a' = a) by (apply (sorted_unique LA); auto).
        assert (b' = b) by (apply (sorted_unique LB); auto; congruence). subst. simpl in Hs. congruence.
      - intros (b' & Hb' & Eb' & Hl' & Hch).
        assert (b' = b) by (apply (sorted_unique LB); auto; congruence). subst b'.
        exists e, b. rewrite alookup_aset_same. split; auto. split; auto. split; auto. split; auto.
        apply Hino; auto. destruct Hch as [Hn'|(a' & Ha' & Ea' & _ & Hdd)].
        + exfalso. eapply Hn'; eauto.
        + assert (a' = a) by (apply (sorted_unique LA); auto; congruence). subst. exact Hdd.
      - intros (b' & Hb' & Eb' & Hl' & _).
        assert (b' = b) by (apply (sorted_unique LB); auto; congruence). subst b'.
        destruct (Hjoin Hl') as (t & Ht & Hi). exists b, e, t. split; auto. split; auto.
        rewrite alookup_aset_same. split; auto. split; auto.
        pose proof (link_before b Hb Hl') as Hlb.
        rewrite alookup_aset_other by (rewrite E; apply not_eq_sym, compare_path_lt_neq; exact Hlb).
        destruct HD1 as [->|[-> _]]; auto. rewrite alookup_aremove_if.
        destruct (at_or_below (st_path a) (st_linkname b)) eqn:Ab; auto.
        apply at_or_below_le in Ab. rewrite E in Ab. congruence. }
    exists D', n'. split; [cbn [apply_all]; rewrite Eap, Eall; reflexivity|]. split; [exact HD'|].
    intros X Y. unfold honest_run. cbn [honest_run_by]. rewrite Eap. apply andb_true_iff. split; [exact (Hhc X Y)|exact (Hhon X Y)].
Qed.

End Conv.

(* ================================================================ top-level theorems *)
Section Top.
Variable H : bytes -> bytes.
Variable hdr : stat -> bytes.
Variable d : differ.
Variables A B : list entry.
Notation LA := (map fst A).
Notation LB := (map fst B).
Notation idf := (fun s : stat => s).

(* what receive_abs computes, unfolded *)
Lemma receive_abs_unfold m :
  let LA' := match m with Fresh => LA | Merge => [] end in
  let cs := diff idf d LA' LB in
  forall D n dn e, apply_all (src_of B) cs (dest_of A) (N.of_nat (length A)) = (D, n, dn, e) ->
  receive_abs H hdr m d A B =
  {| ds_map := D; ds_reqs := filter_map req_of dn;
     ds_notifs := map (notif_of (src_of B) H hdr) dn; ds_changes := dn; ds_err := e |}.
Proof. intros LA' cs D n dn e E. unfold receive_abs. fold LA'. fold cs. rewrite E. reflexivity. Qed.

(* C05, part without hypotheses on the listings: whatever the listings, whatever the mode, even
   when the transfer stops on an error — provided every hard-link entry the writer applies
   carries the metadata of the inode it joins — replaying the notifications on the consumer's
   view of the old destination gives the consumer's view of the destination as the writer
   left it *)
Theorem notify_replays_any m :
  recv_honest m d A B = true ->
  let r := receive_abs H hdr m d A B in
  replay (ds_notifs r) (nview H hdr (dest_of A)) = nview H hdr (ds_map r).
Proof.
  intros Hh. cbv zeta.
  destruct (apply_all (src_of B) (diff idf d (match m with Fresh => LA | Merge => [] end) LB)
              (dest_of A) (N.of_nat (length A))) as [[[D n] dn] e] eqn:E.
  rewrite (receive_abs_unfold m D n dn e E). simpl.
  destruct (apply_all_spec _ H hdr _ _ _ _ _ _ _ E) as [_ Hr]. exact (Hr Hh).
Qed.

Hypothesis HwA : wf_listing LA.
Hypothesis HwB : wf_listing LB.
Hypothesis Hlinks : links_ok B.
Hypothesis Hfaith : identity_faithful d A B.

Section Honesty.
Variables Mh Xh : Prop.
Hypothesis Hmeta : Mh -> links_meta B.
Hypothesis Hxkept : Xh -> link_xattrs_kept d A B.

Lemma dinv_init n0 : dinv d A B n0 Mh Xh (dest_of A) (LA ++ LB).
Proof.
  destruct HwA as [HsA HcA]. destruct HwB as [HsB HcB].
  assert (Hnot : forall p, done (LA ++ LB) p -> notin LA p /\ notin LB p).
  { intros p Hd. split; intros s Hs Ep.
    - specialize (Hd s (in_or_app _ _ _ (or_introl Hs))). rewrite Ep, compare_path_refl in Hd. discriminate.
    - specialize (Hd s (in_or_app _ _ _ (or_intror Hs))). rewrite Ep, compare_path_refl in Hd. discriminate. }
  split.
  - intros p Hp. left. unfold paths. rewrite map_app. apply in_or_app. exact Hp.
  - intros p Hd. destruct (Hnot p Hd) as [HnA HnB].
    rewrite (D0_notin A p HnA), (B_notin B p HnB). exact I.
  - intros p _ (q & (Hq & _) & _ & Hd). destruct (Hnot _ Hd) as [HnA _]. exfalso. eapply HnA; eauto.
  - reflexivity.
  - intros p Hd (a & _ & Ha & _ & Ea & _). destruct (Hnot _ Hd) as [HnA _]. exfalso. eapply HnA; eauto.
  - intros p Hd (b & Hb & Eb & _). destruct (Hnot _ Hd) as [_ HnB]. exfalso. eapply HnB; eauto.
  - intros p Hd (b & Hb & Eb & _). destruct (Hnot _ Hd) as [_ HnB]. exfalso. eapply HnB; eauto.
Qed.

(* the transfer does not fail, hands exactly the diff to the writer, converges to the
   source's view — as far as the honesty of its hard-link entries is known — and leaves every
   unchanged entry literally in place; with an honest sender every hard-link change is honest *)
Theorem receive_fresh_gen :
  let r := receive_abs H hdr Fresh d A B in
  ds_err r = false /\
  ds_changes r = diff idf d LA LB /\
  (forall p, veq B Mh Xh (alookup p (ds_map r)) (efind p B)) /\
  (forall p, unchanged d A B p -> alookup p (ds_map r) = alookup p (dest_of A)) /\
  (forall p, fresh_target d A B p -> fresh_entry B (N.of_nat (length A)) p (alookup p (ds_map r))) /\
  (Mh -> Xh -> recv_honest Fresh d A B = true) /\
  (forall p, link_changed d A B p -> joined_entry B (ds_map r) p).
Proof.
  cbv zeta. destruct HwA as [HsA HcA]. destruct HwB as [HsB HcB].
  pose proof (diff_run idf d LA LB HsA HsB HcB (fun s => eq_refl)) as Hrun.
  destruct (run_apply d A B HsA HcA HsB HcB Hlinks Hfaith (N.of_nat (length A)) Mh Xh Hmeta Hxkept _ _ _ Hrun HsA HsB
              (dest_of A) (N.of_nat (length A)) (N.le_refl _) (dinv_init _))
    as (D' & n' & Eap & HD' & Hhon).
  rewrite (receive_abs_unfold Fresh D' n' _ false Eap). simpl.
  split; auto. split; auto. split; [|split; [|split; [|split]]].
  - intros p. apply (dv_P1 _ _ _ _ _ _ _ _ HD'). intros y [].
  - intros p Hu. apply (dv_P3 _ _ _ _ _ _ _ _ HD'); auto. intros y [].
  - intros p Hf. apply (dv_P4 _ _ _ _ _ _ _ _ HD'); auto. intros y [].
  - exact Hhon.
  - intros p Hl. apply (dv_P6 _ _ _ _ _ _ _ _ HD'); auto. intros y [].
Qed.

End Honesty.

(* without any hypothesis on the metadata of the hard-link entries: no claim on the identity key
   a hard-link path ends up with (AbsDest.view_equiv_w) *)
Theorem receive_fresh_weak :
  let r := receive_abs H hdr Fresh d A B in
  ds_err r = false /\
  ds_changes r = diff idf d LA LB /\
  (forall p, view_equiv_w (alookup p (ds_map r)) (efind p B)) /\
  (forall p, unchanged d A B p -> alookup p (ds_map r) = alookup p (dest_of A)) /\
  (forall p, fresh_target d A B p -> fresh_entry B (N.of_nat (length A)) p (alookup p (ds_map r))).
Proof.
  cbv zeta.
  destruct (receive_fresh_gen False False (fun X : False => match X with end) (fun X : False => match X with end))
    as (H1 & H2 & H3 & H4 & H5 & _).
  split; auto. split; auto. split; [|auto].
  intros p. specialize (H3 p). destruct (alookup p _) as [x|], (efind p B) as [[sb bb]|]; simpl in *; auto.
  destruct H3 as (K1 & K2 & K3 & _). auto.
Qed.

(* a hard-link entry that is new or changed ends up as one more name of the inode shown at the
   path it names — inode class, bytes and THAT inode's metadata — whatever it announced *)
Theorem hard_link_joins_inode_proof :
  let r := receive_abs H hdr Fresh d A B in
  forall p, link_changed d A B p -> joined_entry B (ds_map r) p.
Proof.
  cbv zeta.
  destruct (receive_fresh_gen False False (fun X : False => match X with end) (fun X : False => match X with end))
    as (_ & _ & _ & _ & _ & _ & Hj). exact Hj.
Qed.

(* honest sender (hard-link entries carry the metadata of the entry they name): every path ends
   up with the source's identity key.  (Statement of receive_fresh_proof before the hard-link
   metadata became that of the inode, plus the hypothesis [links_meta].) *)
Theorem receive_fresh_proof :
  links_meta B ->
  let r := receive_abs H hdr Fresh d A B in
  ds_err r = false /\
  ds_changes r = diff idf d LA LB /\
  (forall p, view_equiv (alookup p (ds_map r)) (efind p B)) /\
  (forall p, unchanged d A B p -> alookup p (ds_map r) = alookup p (dest_of A)) /\
  (forall p, fresh_target d A B p -> fresh_entry B (N.of_nat (length A)) p (alookup p (ds_map r))).
Proof.
  intros Hmeta. cbv zeta.
  destruct (receive_fresh_gen True False (fun _ => Hmeta) (fun X : False => match X with end))
    as (H1 & H2 & H3 & H4 & H5 & _).
  split; auto. split; auto. split; [|auto].
  intros p. specialize (H3 p). destruct (alookup p _) as [x|], (efind p B) as [[sb bb]|]; simpl in *; auto.
  destruct H3 as (K1 & _ & K3 & _). auto.
Qed.

(* ... and when moreover the link targets that stay in place have the source's xattrs, every
   hard-link change is honest: the destination shows exactly the stat that was announced *)
Theorem receive_fresh_honest :
  links_meta B -> link_xattrs_kept d A B -> recv_honest Fresh d A B = true.
Proof.
  intros Hmeta Hxk.
  destruct (receive_fresh_gen True True (fun _ => Hmeta) (fun _ => Hxk)) as (_ & _ & _ & _ & _ & Hh & _). auto.
Qed.

End Top.

(* ---------------------------------------------------------------- requests *)
Section Reqs.
Variable d : differ.
Variables LA LB : list stat.
Hypothesis HsA : sorted LA.
Notation idf := (fun s : stat => s).

Lemma run_reqs A' B' out : run idf d LA LB A' B' out ->
  filter_map req_of out = map st_path (filter (fun b => wants_content b && negb (unchanged_b d LA b)) B').
Proof.
  induction 1 as [|a A' B' out Ha HnB Hh HaB R IH|a A' B' out Ha HnB Hh HaB R IH
                 |b A' B' out Hb HnA HbA R IH|a b A' B' out Ha Hb E Hs R IH|a b A' B' out Ha Hb E Hs R IH]; auto.
  - (* add *)
    assert (Hu : unchanged_b d LA b = false).
    { unfold unchanged_b. rewrite (proj2 (lookup_none_iff _ _) HnA). reflexivity. }
    simpl. rewrite Hu. simpl. rewrite andb_true_r. destruct (wants_content b); simpl; rewrite IH; reflexivity.
  - (* unchanged *)
    assert (Hu : unchanged_b d LA b = true).
    { unfold unchanged_b. rewrite <- E, (lookup_in_sorted LA a HsA Ha). exact Hs. }
    simpl. rewrite Hu. simpl. rewrite andb_false_r. exact IH.
  - (* modify *)
    assert (Hu : unchanged_b d LA b = false).
    { unfold unchanged_b. rewrite <- E, (lookup_in_sorted LA a HsA Ha). exact Hs. }
    simpl. rewrite Hu. simpl. rewrite andb_true_r. destruct (wants_content b); simpl; rewrite IH; reflexivity.
Qed.

End Reqs.

(* ---------------------------------------------------------------- requests, notifications *)
Section Top2.
Variable H : bytes -> bytes.
Variable hdr : stat -> bytes.
Variable d : differ.
Variables A B : list entry.
Notation LA := (map fst A).
Notation LB := (map fst B).
Notation idf := (fun s : stat => s).
Notation notif_of := (notif_of (src_of B) H hdr).

(* requests and notifications are functions of the changes handed to the writer *)
Lemma receive_abs_proj m :
  let r := receive_abs H hdr m d A B in
  ds_reqs r = filter_map req_of (ds_changes r) /\ ds_notifs r = map notif_of (ds_changes r).
Proof.
  cbv zeta.
  destruct (apply_all (src_of B) (diff idf d (match m with Fresh => LA | Merge => [] end) LB)
              (dest_of A) (N.of_nat (length A))) as [[[D n] dn] e] eqn:E.
  rewrite (receive_abs_unfold H hdr d A B m D n dn e E). simpl. auto.
Qed.

Definition notif_path (n : notif) : bytes := snd (fst n).

Lemma notif_of_path c : notif_path (notif_of c) = ch_path c.
Proof. destruct c as [[k p] [st|]]; destruct k; reflexivity. Qed.

Hypothesis HwA : wf_listing LA.
Hypothesis HwB : wf_listing LB.
Hypothesis Hlinks : links_ok B.
Hypothesis Hfaith : identity_faithful d A B.

Notation r := (receive_abs H hdr Fresh d A B).

Theorem reqs_exact_proof : ds_reqs r = reqs_spec d LA LB.
Proof.
  destruct (receive_abs_proj Fresh) as [E1 _]. rewrite E1.
  destruct (receive_fresh_weak H hdr d A B HwA HwB Hlinks Hfaith) as (_ & -> & _).
  destruct HwA as [HsA HcA]. destruct HwB as [HsB HcB].
  apply (run_reqs d LA LB HsA LA LB). apply diff_run; auto.
Qed.

Theorem notify_exact_proof :
  ds_err r = false /\
  ds_notifs r = map notif_of (diff idf d LA LB) /\
  (forall n, In n (ds_notifs r) <-> exists c, spec_change idf d LA LB c /\ n = notif_of c) /\
  NoDup (map notif_path (ds_notifs r)).
Proof.
  destruct (receive_abs_proj Fresh) as [_ E2].
  destruct (receive_fresh_weak H hdr d A B HwA HwB Hlinks Hfaith) as (He & Ec & _).
  rewrite Ec in E2. destruct HwA as [HsA HcA]. destruct HwB as [HsB HcB].
  split; auto. split; auto. rewrite E2. split.
  - intros n. rewrite in_map_iff. split.
    + intros (c & <- & Hc). exists c. split; auto. apply (diff_changes_exact_proof idf d LA LB); auto.
    + intros (c & Hc & ->). exists c. split; auto. apply (diff_changes_exact_proof idf d LA LB); auto.
  - rewrite map_map. rewrite (map_ext _ ch_path notif_of_path). apply diff_nodup_proof; auto.
Qed.

(* the digest announced for a path is the hash of the header of the stat as sent followed by
   the bytes that the destination finally holds there (header only when no content is sent) *)
Theorem notify_digest_proof k p st dg :
  In (k, p, Some (st, dg)) (ds_notifs r) ->
  exists e, alookup p (ds_map r) = Some e /\
            dg = H (hdr st ++ (if wants_content st then de_bytes e else [])).
Proof.
  intros Hin. destruct notify_exact_proof as (_ & _ & Hex & _). apply Hex in Hin.
  destruct Hin as (c & Hc & En).
  destruct (receive_fresh_weak H hdr d A B HwA HwB Hlinks Hfaith) as (_ & _ & Hview & _).
  destruct HwB as [HsB HcB].
  assert (Hb : forall k', c = (k', p, Some st) -> In st LB -> st_path st = p ->
            dg = AbsDest.digest H hdr st (src_of B p) ->
            exists e, alookup p (ds_map r) = Some e /\ dg = H (hdr st ++ (if wants_content st then de_bytes e else []))).
  { intros k' _ Hst Ep Edg. specialize (Hview p). destruct (B_efind B HsB st Hst) as (bb & HinB & Ef).
    rewrite <- Ep in Hview at 2. rewrite Ef in Hview.
    destruct (alookup p (ds_map r)) as [e|]; [|destruct Hview]. destruct Hview as (_ & _ & Hbytes).
    exists e. split; auto. rewrite Edg. unfold AbsDest.digest. destruct (wants_content st) eqn:Ew; auto.
    rewrite Hbytes.
    - rewrite <- Ep. rewrite (src_at B HsB st bb HinB). reflexivity.
    - unfold wants_content in Ew. apply andb_true_iff in Ew. tauto. }
  destruct c as [[kc pc] [sc|]]; destruct kc; simpl in Hc, En; try tauto; inversion En; subst.
  - destruct Hc as (Hst & Ep & _). eapply Hb; eauto.
  - destruct Hc as (Hst & Ep & _). eapply Hb; eauto.
Qed.

End Top2.

(* a re-sync of an unchanged source: nothing requested, nothing notified, nothing touched
   (no hypothesis on the listings beyond being identity-equal entry by entry) *)
Theorem receive_resync_noop_proof H hdr A B :
  Forall2 (fun a b => st_path (fst a) = st_path (fst b) /\ same_file DMetadata (fst a) (fst b) = true) A B ->
  receive_abs H hdr Fresh DMetadata A B =
  {| ds_map := dest_of A; ds_reqs := []; ds_notifs := []; ds_changes := []; ds_err := false |}.
Proof.
  intros HF. unfold receive_abs.
  rewrite (resync_noop_gen (fun s => s) DMetadata (map fst A) (map fst B)); [reflexivity|].
  induction HF; simpl; constructor; auto.
Qed.

(* an unchanged path is not requested; with differencing disabled every regular file is *)
Lemma reqs_spec_unchanged d LA LB p :
  sorted LA -> sorted LB ->
  (exists a b, In a LA /\ In b LB /\ st_path a = p /\ st_path b = p /\ same_file d a b = true) ->
  ~ In p (reqs_spec d LA LB).
Proof.
  intros HsA HsB (a & b & Ha & Hb & Ea & Eb & Hs) Hin. unfold reqs_spec in Hin.
  apply in_map_iff in Hin. destruct Hin as (b' & Ep & Hf). apply filter_In in Hf. destruct Hf as [Hb' Hc].
  assert (b' = b) by (apply (sorted_unique LB); auto; congruence). subst b'.
  apply andb_true_iff in Hc. destruct Hc as [_ Hc]. apply negb_true_iff in Hc.
  unfold unchanged_b in Hc. rewrite Eb, <- Ea, (lookup_in_sorted LA a HsA Ha) in Hc. congruence.
Qed.

Lemma reqs_spec_none LA LB : reqs_spec DNone LA LB = map st_path (filter wants_content LB).
Proof.
  unfold reqs_spec. f_equal. apply filter_ext. intros b. unfold unchanged_b.
  destruct (lookup (st_path b) LA); simpl; rewrite andb_true_r; reflexivity.
Qed.


(* every inode class of the old destination is below |A| *)
Lemma dest_from_ino_bound : forall A i (seen : amap N) bound,
  (forall p j, alookup p seen = Some j -> j < bound) -> i + N.of_nat (length A) <= bound ->
  forall p e, alookup p (dest_from A i seen) = Some e -> de_ino e < bound.
Proof.
  induction A as [|[st bs] A IH]; intros i seen bound Hseen Hb p e He; [discriminate|].
  simpl dest_from in He. rewrite alookup_cons in He.
  set (ino := if is_hardlink st then match alookup (st_linkname st) seen with Some j => j | None => i end else i) in *.
  assert (Hino : ino < bound).
  { unfold ino. simpl length in Hb. rewrite Nat2N.inj_succ in Hb.
    destruct (is_hardlink st); [|lia]. destruct (alookup (st_linkname st) seen) as [j|] eqn:Ej; [eauto|lia]. }
  destruct (bytes_eqb (st_path st) p).
  - inversion He; subst. exact Hino.
  - eapply (IH (i + 1) ((st_path st, ino) :: seen) bound); eauto.
    + intros q j Hq. rewrite alookup_cons in Hq. destruct (bytes_eqb (st_path st) q); [inversion Hq; subst; auto|eauto].
    + simpl length in Hb. rewrite Nat2N.inj_succ in Hb. lia.
Qed.

Lemma dest_of_ino_bound A p e : alookup p (dest_of A) = Some e -> de_ino e < N.of_nat (length A).
Proof.
  apply (dest_from_ino_bound A 0 [] (N.of_nat (length A))); [discriminate|lia].
Qed.

(* ---------------------------------------------------------------- a second synchronisation *)
Lemma same_file_set_path d a p b : same_file d (set_path a p) b = same_file d a b.
Proof. destruct d; reflexivity. Qed.

Lemma Forall2_map_l {X} (R : X -> X -> Prop) (f : X -> X) l :
  (forall x, In x l -> R (f x) x) -> Forall2 R (map f l) l.
Proof.
  induction l as [|x l IH]; intros Hl; simpl; constructor.
  - apply Hl. left; auto.
  - apply IH. intros y Hy. apply Hl. right; auto.
Qed.

(* after a transfer from an honest sender the destination, listed again, shows at every path
   the identity key of the source: a second synchronisation of the unchanged source requests
   nothing, notifies nothing and touches nothing *)
Theorem resync_after_transfer_noop_proof (H : bytes -> bytes) (hdr : stat -> bytes) d A B :
  wf_listing (map fst A) -> wf_listing (map fst B) -> links_ok B -> identity_faithful d A B ->
  links_meta B ->
  let r := receive_abs H hdr Fresh d A B in
  let A' := dest_listing B (ds_map r) in
  (forall p, (exists x, alookup p (ds_map r) = Some x) <-> (exists e, In e A' /\ st_path (fst e) = p)) /\
  receive_abs H hdr Fresh DMetadata A' B =
  {| ds_map := dest_of A'; ds_reqs := []; ds_notifs := []; ds_changes := []; ds_err := false |}.
Proof.
  intros HwA HwB Hl Hf Hm. cbv zeta.
  destruct (receive_fresh_proof H hdr d A B HwA HwB Hl Hf Hm) as (_ & _ & Hv & _). cbv zeta in Hv.
  destruct HwB as [HsB HcB].
  set (R := ds_map (receive_abs H hdr Fresh d A B)) in *.
  (* what the listing holds for an entry of B *)
  assert (Hent : forall sb bb, In (sb, bb) B ->
            exists x, alookup (st_path sb) R = Some x /\ same_file DMetadata (de_stat x) sb = true).
  { intros sb bb Hin. specialize (Hv (st_path sb)).
    pose proof (efind_in_sorted B (sb, bb) HsB Hin) as Ef. simpl in Ef. rewrite Ef in Hv.
    destruct (alookup (st_path sb) R) as [x|]; [|destruct Hv]. exists x. split; auto. apply Hv. }
  assert (Hpath : forall e, In e B ->
            st_path (fst (match alookup (st_path (fst e)) R with
                          | Some x => (set_path (de_stat x) (st_path (fst e)), de_bytes x)
                          | None => e end)) = st_path (fst e)).
  { intros e _. destruct (alookup (st_path (fst e)) R); reflexivity. }
  split.
  - intros p. split.
    + intros [x Hx]. specialize (Hv p). rewrite Hx in Hv.
      destruct (efind p B) as [e|] eqn:Ef; [|destruct Hv]. apply efind_some in Ef. destruct Ef as [He Ep].
      eexists. split; [unfold dest_listing; apply in_map; exact He|]. rewrite Hpath; auto.
    + intros (e' & He' & Ep). unfold dest_listing in He'. apply in_map_iff in He'.
      destruct He' as ([sb bb] & <- & Hin). rewrite Hpath in Ep by auto. simpl in Ep. subst p.
      destruct (Hent sb bb Hin) as (x & Hx & _). eauto.
  - apply receive_resync_noop_proof. unfold dest_listing. apply Forall2_map_l.
    intros [sb bb] Hin. simpl fst. destruct (Hent sb bb Hin) as (x & Hx & Hs). rewrite Hx. cbn [fst snd].
    split; [reflexivity|]. rewrite same_file_set_path. exact Hs.
Qed.
