(* Finiteness of fault-free executions: a measure that strictly decreases on every fault-free
   step between states without error flags. *)
From Coq Require Import List Arith Bool PeanoNat Lia ZifyBool.
From FS Require Import Model.Lts Model.LtsExplore Proofs.LtsInv Proofs.LtsSafe Proofs.LtsTerm Proofs.LtsC08 Proofs.LtsTok
  Proofs.LtsContent Proofs.LtsContent2 Proofs.LtsContent3 Proofs.LtsClean1 Proofs.LtsClean2 Proofs.LtsClean3 Proofs.LtsClean4 Proofs.LtsClean5 Proofs.LtsLive2.
Import ListNotations.

Definition cmax (p : params) : nat := fold_right (fun e a => Nat.max (e_chunks e) a) 0 (p_entries p).
Lemma chunks_le_cmax : forall p i, chunks_of p i <= cmax p.
Proof.
  intros p i. unfold chunks_of, entry_at, cmax. generalize (p_entries p). intro l. revert i.
  induction l as [|a l IH]; intro i.
  - destruct i; unfold nth_error; cbn; lia.
  - destruct i.
    + unfold nth_error; cbn. lia.
    + change (nth_error (a :: l) (S i)) with (nth_error l i). specialize (IH i). cbn [fold_right].
      destruct (nth_error l i); lia.
Qed.

(* weights of the things in flight *)
Definition w_pipe (p : params) (h : nat) : nat := 5 * chunks_of p h + 8.
Definition w_preq (p : params) (h : nat) : nat := w_pipe p h + 3.
Definition w_wrmax (p : params) : nat := 5 * cmax p + 16.
Definition w_c2 (p : params) : nat := w_wrmax p + 2.
Definition w_walk (p : params) : nat := w_c2 p + 2.
Definition w_stat (p : params) : nat := w_walk p + 3.
Definition w_entry (p : params) : nat := w_stat p + 3.
Definition pw_sr (p : params) (pk : packet) : nat :=
  match pk with PStat => w_stat p | PEnd => 2 | PData _ => 2 | PDataEnd _ => 2 | PFin => 1 | _ => 1 end.
Definition pw_rs (p : params) (pk : packet) : nat :=
  match pk with PReq h => w_preq p h | PFin => 5 | _ => 2 end.

Definition rem_cost (p : params) (i : nat) : nat := (nentries p - i) * w_entry p.
Lemma rem_cost_S : forall p i, i < nentries p -> rem_cost p i = rem_cost p (S i) + w_entry p.
Proof. intros. unfold rem_cost. replace (nentries p - i) with (S (nentries p - S i)) by lia. cbn. lia. Qed.

Definition nsw (p : params) (st : state) : nat :=
  match sw_pc st with
  | SW_Next => rem_cost p (sw_i st) + 6
  | SW_Lock _ => rem_cost p (sw_i st) + 5
  | SW_Send _ => rem_cost p (sw_i st) + 4
  | SW_Done => 0
  end.
Definition nwk (p : params) (w : wkpc) : nat :=
  match w with
  | WK_Idle => 1 | WK_Ctx h => w_pipe p h | WK_Open h => 5 * chunks_of p h + 7
  | WK_Read h c => 5 * (chunks_of p h - c) + 6 | WK_Lock h c => 5 * (chunks_of p h - c) + 5
  | WK_Send h c => 5 * (chunks_of p h - c) + 4
  | WK_LockFin _ => 5 | WK_SendFin _ => 4 | WK_Done => 0
  end.
Definition nrq (p : params) (pc : rqpc) : nat :=
  match pc with
  | RQ_Top => 2 | RQ_Recv => 1 | RQ_Push h => w_pipe p h + 3 | RQ_LockFin => 5 | RQ_SendFin => 4
  | RQ_Close _ => 2 | RQ_Ret _ => 1 | RQ_Done => 0
  end.
Definition nrl (p : params) (pc : rlpc) : nat :=
  match pc with
  | RL_Recv => 2 | RL_Upd => w_walk p + 4 | RL_Push => w_walk p + 3 | RL_UpdEnd | RL_Write _ | RL_CloseP _ => 3
  | RL_Drain => 1 | RL_Done => 0
  end.
Definition nfl (p : params) (pc : flpc) : nat :=
  match pc with FL_Sel => 3 | FL_Push => w_c2 p + 4 | FL_Close _ => 2 | FL_Ret _ => 1 | FL_Done => 0 end.
Definition ndl (p : params) (pc : dlpc) : nat :=
  match pc with DL_Next => 1 | DL_Handle _ => w_wrmax p + 2 | DL_Done => 0 end.
Definition ndo (pc : dopc) : nat :=
  match pc with
  | DO_WaitDiff => 9 | DO_WaitW => 8 | DO_LockFin | DO_LockErr => 7 | DO_SendFin | DO_SendErr => 6 | DO_Done => 0
  end.
Definition nwr (p : params) (w : writer) : nat :=
  match wr_pc w with
  | WR_Start => w_preq p (wr_id w) + 5 | WR_Lock => w_preq p (wr_id w) + 4 | WR_Send => w_preq p (wr_id w) + 3
  | WR_Wait => 2 | WR_Notify => 1 | WR_Done => 0
  end.

Definition nu (p : params) (st : state) : nat :=
  nsw p st + sumf (nwk p) (wks st) + nrq p (rq_pc st) + sumf (w_pipe p) (pipe st)
  + sumf (pw_sr p) (buf_sr st) + sumf (pw_rs p) (buf_rs st)
  + nrl p (rl_pc st) + w_walk p * walk_n st + nfl p (fl_pc st) + w_c2 p * c2_n st + ndl p (dl_pc st)
  + ndo (do_pc st) + sumf (nwr p) (wrs st)
  + b2n (is_none (send_ret st)) + b2n (is_none (recv_ret st)) + b2n (negb (sr_closed st)).

Lemma sumf_cons : forall A (f : A -> nat) x l, sumf f (x :: l) = f x + sumf f l.
Proof. reflexivity. Qed.

Lemma nu_decreases : forall p st l st',
  scal st -> scal st' -> invW p st -> inv2 p st -> fault_free_label l = true -> step p st l = Some st' ->
  nu p st' < nu p st.
Proof.
  intros p st l st' HS HS' IW (_ & (_ & I2) & _) FF H.
  destruct l; try discriminate FF; clear FF; unfold_steps H; step_split H; inv_some; subst;
  repeat match goal with w : writer |- _ => destruct w; cbn in * end; subst;
  kill_by_scal HS';
  unfold nu, nsw, setw, setwr, s_fail, r_fail, d_fail, eg_fail, rl_fail, dl_fail, wr_fail; cbn;
  repeat match goal with E : ?f ?s = ?v |- _ => match type of s with state => rewrite E in * end end; cbn;
  try match goal with E : nth_error (wks ?s) ?j = Some ?w |- context [sumf ?f (set_nth ?j ?x (wks ?s))] =>
        let X := fresh "X" in pose proof (sumf_set_nth _ f (wks s) j w x E) as X; cbn [nwk] in X;
        let V := fresh "V" in pose proof (IW _ _ E) as V; cbn [wk_ok] in V end;
  try match goal with E : nth_error (wrs ?s) ?j = Some ?w |- context [sumf ?f (set_nth ?j ?x (wrs ?s))] =>
        let X := fresh "X" in pose proof (sumf_set_nth _ f (wrs s) j w x E) as X; cbn [nwr Lts.wr_pc Lts.wr_id] in X end;
  rewrite ?sumf_snoc, ?sumf_cons; cbn [pw_sr pw_rs nwr Lts.wr_pc Lts.wr_id nrq nrl nfl ndl ndo b2n];
  repeat match goal with
         | H : (?a <? ?b) = true |- _ => apply Nat.ltb_lt in H
         | H : (?a <? ?b) = false |- _ => apply Nat.ltb_ge in H
         end;
  try match goal with H : sw_i ?s < nentries p |- _ => pose proof (rem_cost_S p _ H) end;
  try match goal with |- context [w_preq p ?i] => pose proof (chunks_le_cmax p i) end;
  unfold w_preq, w_pipe, w_entry, w_stat, w_walk, w_c2, w_wrmax in *;
  try lia; try (destruct k; cbn; lia); try (destruct p0; cbn [pw_sr]; unfold w_stat, w_walk, w_c2, w_wrmax; lia).
  match goal with E : negb (sr_closed _) = true |- _ => rewrite E end. cbn. lia.
Qed.

Lemma ff_run_bounded_from : forall p ls st st', wf_params p ->
  reachable p st -> scal st -> (forall id, wq p id st) ->
  fault_free ls -> run p st ls = Some st' -> length ls + nu p st' <= nu p st.
Proof.
  induction ls; intros st st' WF R K W F H; cbn in H.
  - injection H as H. subst. cbn. lia.
  - destruct (step p st a) as [s1|] eqn:E; try discriminate.
    unfold fault_free in F. change (forallb fault_free_label (a :: ls)) with (fault_free_label a && forallb fault_free_label ls) in F.
    apply andb_prop in F. destruct F as [F1 F2].
    pose proof (inv_reachable _ _ R) as J. destruct J.
    pose proof (inv7_reachable _ _ R) as J7. destruct J7.
    assert (K1: scal s1).
    { exact (scal_step p st WF K i_1 i_2 i_3 (inv_fin_reachable _ _ R) (inv9a_reachable _ _ R)
                (inv_rs_reachable _ _ R) i_7a (tokinv_reachable _ _ R) W
                (fun id => cinv_reachable p id st R) (fun id N => ninv_reachable p id st N R) a s1 F1 E). }
    assert (D: nu p s1 < nu p st) by (exact (nu_decreases p st a s1 K K1 (invW_reachable _ _ R) i_2 F1 E)).
    assert (B: length ls + nu p st' <= nu p s1).
    { apply (IHls s1 st' WF); auto.
      + econstructor; eauto.
      + intro id. exact (wq_step p id st a s1 K K1 (inv9a_reachable _ _ R) i_1 i_3 (W id) E). }
    cbn [length]. clear - D B. lia.
Qed.

(* fault_free_completes: every fault-free execution has at most nu p (init p) steps; while it is
   not complete it can be extended by a fault-free step; when it is complete both calls have
   returned nil.  For every W >= 1 and all capacities >= 0. *)
Lemma fault_free_completes_proof : forall p ls st, wf_params p -> p_W p >= 1 -> fault_free ls ->
  run p (init p) ls = Some st ->
  length ls <= nu p (init p) /\
  (final st = false -> exists l, fault_free_label l = true /\ step p st l <> None) /\
  (final st = true -> send_ret st = Some true /\ recv_ret st = Some true).
Proof.
  intros p ls st WF HW F H. repeat split.
  - pose proof (ff_run_bounded_from p ls (init p) st WF (reach_init p) (scal_init p) (wq_init p) F H). lia.
  - intro NF. eapply LtsLive2.fault_free_progress_proof; eauto.
  - eapply fault_free_success_proof; eauto.
  - eapply fault_free_success_proof; eauto.
Qed.
