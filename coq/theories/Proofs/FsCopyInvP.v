(* C14 — the invariant behind copy_contained.

   Fixed: the initial file system f0, the destination root directory dr, b = f_next f0.
   S0 = the directories at or below dr in f0; SS = S0 plus every inode allocated since.
   [Inv f]: every older inode outside S0 still has its f0 record; kinds of old inodes never change;
   every directory entry that leads to a directory is an f0 entry between old inodes or leads to
   a new inode (and from a new directory only to a newer one); names in SS directories are unique.
   Consequences: SS is closed under real-directory entries ([chain_SS]); the directory graph
   stays acyclic ([inv_acyclic]). *)
From Coq Require Import List NArith Lia Bool ZifyN ZifyNat ZifyBool.
From FS Require Import Sx Model.Path Model.Fs Model.RootPath Model.CopyFs Model.CopyFsSpec
  Proofs.Lex Proofs.PathP Proofs.FsP Proofs.RootPathStrP Proofs.FsCopyFrameP.
Import ListNotations.
Open Scope N_scope.
Open Scope bool_scope.

(* ---------------- chains ---------------- *)
Lemma chain_start_dir f a cs e : chain f a cs e -> is_dir f a = true.
Proof.
  intros H. destruct H as [d Hd|d x i cs e Hb _ _]; auto.
  destruct (is_dir f d) eqn:E; auto. rewrite (dents_nil_not_dir _ _ E) in Hb. discriminate.
Qed.

Lemma chain_end_dir f a cs e : chain f a cs e -> is_dir f e = true.
Proof. induction 1; auto. Qed.

Lemma chain_fun f a cs e : chain f a cs e -> forall e', chain f a cs e' -> e = e'.
Proof.
  induction 1 as [d Hd|d x i cs e Hb Hi Hc IH]; intros e' H'.
  - inversion H'; subst; auto.
  - inversion H' as [|d' x' i' cs' e'' Hb' Hi' Hc']; subst.
    rewrite Hb in Hb'. inversion Hb'; subst. auto.
Qed.

Lemma chain_app f a p m s e : chain f a p m -> chain f m s e -> chain f a (p ++ s) e.
Proof. induction 1; intros H2; simpl; auto. econstructor; eauto. Qed.

Lemma chain_split f p : forall a s e, chain f a (p ++ s) e -> exists m, chain f a p m /\ chain f m s e.
Proof.
  induction p as [|x p IH]; intros a s e H.
  - exists a. split; auto. constructor. eapply chain_start_dir; eauto.
  - simpl in H. inversion H as [|d x' i cs' e' Hb Hi Hc]; subst.
    destruct (IH _ _ _ Hc) as (m & G1 & G2).
    exists m. split; auto. econstructor; eauto.
Qed.

Lemma chain_snoc f a cs d x i : chain f a cs d -> blookup x (dents f d) = Some i -> is_dir f i = true ->
  chain f a (cs ++ [x]) i.
Proof.
  intros H Hb Hi. eapply chain_app; eauto. econstructor; eauto. constructor; auto.
Qed.

(* a chain survives any change that keeps directories directories and the entries of the
   directories it looks into *)
Lemma chain_stable f f' (Q : N -> Prop) :
  (forall j, ~ Q j -> dents f' j = dents f j) ->
  (forall j, is_dir f j = true -> is_dir f' j = true) ->
  forall a cs e, chain f a cs e ->
  (forall p s m, cs = p ++ s -> s <> [] -> chain f a p m -> ~ Q m) ->
  chain f' a cs e.
Proof.
  intros Hsame Hdir. induction 1 as [d Hd|d x i cs e Hb Hi Hc IH]; intros HQ.
  - constructor; auto.
  - assert (HnQ : ~ Q d).
    { apply (HQ [] (x :: cs) d); auto; [discriminate|]. constructor.
      destruct (is_dir f d) eqn:E; auto. rewrite (dents_nil_not_dir _ _ E) in Hb. discriminate. }
    econstructor; [rewrite Hsame; eauto|auto|].
    apply IH. intros p s m E Hs Hp. apply (HQ (x :: p) s m); auto; [rewrite E; reflexivity|].
    econstructor; eauto.
Qed.

(* in an acyclic file system a change below the end of a chain cannot touch the chain *)
Lemma chain_stable_below f f' d' :
  acyclic f ->
  (forall j, j <> d' -> dents f' j = dents f j) ->
  (forall j, is_dir f j = true -> is_dir f' j = true) ->
  forall a cs e more, chain f a cs e -> chain f e more d' -> chain f' a cs e.
Proof.
  intros Hac Hsame Hdir a cs e more Hc Hmore.
  assert (H1 : forall j, ~ (fun j => j = d') j -> dents f' j = dents f j) by (intros j Hj; apply Hsame; auto).
  apply (chain_stable f f' (fun j => j = d') H1 Hdir a cs e Hc).
  intros p s m E Hs Hp Hm. subst m cs.
  destruct (chain_split f p a s e Hc) as (m & Hp' & Hs').
  rewrite (chain_fun _ _ _ _ Hp _ Hp') in *.
  apply (Hac m (s ++ more)); [destruct s; [congruence|discriminate]|].
  eapply chain_app; eauto.
Qed.

Lemma NoDup_app_snoc {A} (l : list A) x : NoDup l -> ~ In x l -> NoDup (l ++ [x]).
Proof.
  induction l as [|a l IH]; intros Hn Hx; simpl.
  - constructor; auto; constructor.
  - inversion Hn; subst. constructor.
    + intros Hin. apply in_app_or in Hin. destruct Hin as [|[->|[]]]; auto. apply Hx. left; auto.
    + apply IH; auto. intros H. apply Hx. right; auto.
Qed.

(* a proper entry name *)
Definition okn (n : bytes) : Prop := nm n /\ nonul n.

Lemma bremove_names {A} k (l : list (bytes * A)) (P : bytes -> Prop) :
  Forall P (map fst l) -> Forall P (map fst (bremove k l)).
Proof.
  induction l as [|[k' v] l IH]; simpl; intros H; auto. inversion H; subst.
  destruct (bytes_eqb k k'); auto. simpl. constructor; auto.
Qed.

Lemma blookup_bremove_sub {A} k n (v : A) l : NoDup (map fst l) -> blookup n (bremove k l) = Some v -> blookup n l = Some v.
Proof.
  intros Hn H. destruct (bytes_eqb n k) eqn:E.
  - apply bytes_eqb_eq in E. subst. rewrite blookup_bremove_same in H; auto. discriminate.
  - rewrite blookup_bremove_other in H; auto. apply bytes_eqb_neq; auto.
Qed.

Section Inv.
  Variables (f0 : fs) (dr : N).
  Let b := f_next f0.
  Definition S0 (i : N) : Prop := inside_dir f0 dr i.
  Definition SS (i : N) : Prop := S0 i \/ b <= i.

  Record Inv (f : fs) : Prop := {
    inv_frame : forall i, i < b -> ~ S0 i -> get f i = get f0 i;
    inv_next : b <= f_next f;
    inv_fresh : alloc_ok f;
    inv_tag : forall i, i < b -> itag (get f i) = itag (get f0 i);
    inv_dent : forall j name child, blookup name (dents f j) = Some child -> is_dir f child = true ->
      (b <= child /\ (b <= j -> j < child)) \/
      (j < b /\ child < b /\ blookup name (dents f0 j) = Some child);
    inv_nodup : forall j, SS j -> NoDup (map fst (dents f j));
    inv_names : forall j, Forall okn (map fst (dents f j));
    (* every entry leads to an allocated number; a directory has one parent entry *)
    inv_target : forall j name child, blookup name (dents f j) = Some child -> child < f_next f;
    inv_single : forall j1 j2 n1 n2 i, blookup n1 (dents f j1) = Some i -> blookup n2 (dents f j2) = Some i ->
                 is_dir f i = true -> j1 = j2 /\ n1 = n2
  }.

  Lemma exists_lt_next f i : alloc_ok f -> get f i <> None -> i < f_next f.
  Proof. intros Ha Hg. destruct (N.lt_ge_cases i (f_next f)) as [|H]; auto. apply Ha in H. congruence. Qed.

  Lemma is_dir_exists f i : is_dir f i = true -> get f i <> None.
  Proof. unfold is_dir, dir_of. destruct (get f i); [discriminate|discriminate]. Qed.

  Lemma dents_some_dir f j name child : blookup name (dents f j) = Some child -> is_dir f j = true.
  Proof. intros H. destruct (is_dir f j) eqn:E; auto. rewrite (dents_nil_not_dir _ _ E) in H. discriminate. Qed.

  Lemma inv_init : alloc_ok f0 -> (forall j, SS j -> NoDup (map fst (dents f0 j))) ->
    (forall j, Forall okn (map fst (dents f0 j))) ->
    (forall j name child, blookup name (dents f0 j) = Some child -> child < f_next f0) ->
    (forall j1 j2 n1 n2 i, blookup n1 (dents f0 j1) = Some i -> blookup n2 (dents f0 j2) = Some i ->
       is_dir f0 i = true -> j1 = j2 /\ n1 = n2) -> Inv f0.
  Proof.
    intros Ha Hn Hnames Htg Hsg. constructor; auto; try (unfold b; lia).
    intros j name child Hb Hd. right.
    pose proof (exists_lt_next f0 child Ha (is_dir_exists _ _ Hd)).
    pose proof (exists_lt_next f0 j Ha (is_dir_exists _ _ (dents_some_dir _ _ _ _ Hb))).
    auto.
  Qed.

  Lemma is_dir_old f i : Inv f -> i < b -> is_dir f i = is_dir f0 i.
  Proof.
    intros I Hi. pose proof (inv_tag f I i Hi) as Ht.
    destruct (is_dir f i) eqn:E1, (is_dir f0 i) eqn:E2; auto.
    - apply is_dir_tag in E1. rewrite Ht in E1. apply is_dir_tag in E1. congruence.
    - apply is_dir_tag in E2. rewrite <- Ht in E2. apply is_dir_tag in E2. congruence.
  Qed.

  Lemma dr_SS : is_dir f0 dr = true -> SS dr.
  Proof. intros H. left. exists []. constructor; auto. Qed.

  (* SS is closed under entries that lead to directories *)
  Lemma SS_closed f d x i : Inv f -> SS d -> blookup x (dents f d) = Some i -> is_dir f i = true -> SS i.
  Proof.
    intros I Hd Hb Hi. destruct (inv_dent f I d x i Hb Hi) as [[H _]|(Hj & Hc & Hb0)]; [right; auto|].
    destruct Hd as [(cs & Hcs)|Hd]; [|unfold b in *; lia].
    left. exists (cs ++ [x]). eapply chain_snoc; eauto. rewrite <- (is_dir_old f i I Hc). exact Hi.
  Qed.

  Lemma chain_SS f a cs e : Inv f -> chain f a cs e -> SS a -> SS e.
  Proof. intros I. induction 1; auto. intros Ha. apply IHchain. eapply SS_closed; eauto. Qed.

  (* from a new directory, chains lead to strictly newer ones *)
  Lemma chain_up f a cs e : Inv f -> chain f a cs e -> b <= a -> cs <> [] -> a < e.
  Proof.
    intros I. induction 1 as [d Hd|d x i cs e Hb Hi Hc IH]; intros Ha Hne; [congruence|].
    destruct (inv_dent f I d x i Hb Hi) as [[H1 H2]|(Hj & _)]; [|unfold b in *; lia].
    specialize (H2 Ha). destruct cs as [|y cs].
    - inversion Hc; subst. exact H2.
    - assert (i < e) by (apply IH; [lia|discriminate]). lia.
  Qed.

  (* a chain that ends at an old directory is an f0 chain between old directories *)
  Lemma chain_old f a cs e : Inv f -> chain f a cs e -> e < b -> a < b /\ chain f0 a cs e.
  Proof.
    intros I. induction 1 as [d Hd|d x i cs e Hb Hi Hc IH]; intros He.
    - split; auto. constructor. rewrite <- (is_dir_old f d I He). exact Hd.
    - assert (Hib : i < b).
      { destruct (N.lt_ge_cases i b) as [|Hge]; auto. exfalso.
        destruct cs as [|y cs]; [inversion Hc; subst; lia|].
        assert (i < e) by (eapply chain_up; eauto; discriminate). lia. }
      destruct (IH He) as [_ Hc0].
      destruct (inv_dent f I d x i Hb Hi) as [[H1 _]|(Hj & _ & Hb0)]; [lia|].
      split; auto. econstructor; eauto. rewrite <- (is_dir_old f i I Hib). exact Hi.
  Qed.

  Lemma inv_acyclic f : Inv f -> acyclic f0 -> acyclic f.
  Proof.
    intros I Hac i cs Hne Hc.
    destruct (N.lt_ge_cases i b) as [Hlt|Hge].
    - destruct (chain_old f i cs i I Hc Hlt) as [_ Hc0]. apply (Hac i cs Hne Hc0).
    - pose proof (chain_up f i cs i I Hc Hge Hne). lia.
  Qed.

  (* ---------------- the primitives keep the invariant ---------------- *)
  Lemma SS_not_outside i : SS i -> i < b -> ~ S0 i -> False.
  Proof. intros [H|H] Hi Hn; [auto|lia]. Qed.

  Lemma inv_create_at f r isdir k mode :
    Inv f -> SS (l_dir r) -> is_dir f (l_dir r) = true ->
    blookup (l_name r) (dents f (l_dir r)) = None -> leaf_kind k -> okn (l_name r) ->
    Inv (fst (create_at f r isdir k mode)).
  Proof.
    intros I Hs Hd Hnone Hleaf Hokn. pose proof (inv_fresh f I) as Ha. pose proof (inv_next f I) as Hn.
    pose proof (dir_lt_next f r Ha Hd) as Hlt.
    set (f' := fst (create_at f r isdir k mode)). set (nw := f_next f) in *.
    assert (Hdents := create_at_dents f r isdir k mode Ha Hd). fold f' nw in Hdents.
    assert (Hisdir := create_at_is_dir f r isdir k mode Ha Hd). fold f' nw in Hisdir.
    constructor.
    - intros i Hi Hout. unfold f'. rewrite create_at_other; [apply (inv_frame f I); auto| |fold nw; lia].
      intros ->. eapply SS_not_outside; eauto.
    - unfold f'. rewrite create_at_next. lia.
    - intros i Hi. unfold f' in *. rewrite create_at_next in Hi.
      rewrite create_at_other; [apply Ha; lia|lia|fold nw; lia].
    - intros i Hi. unfold f'. rewrite create_at_tag by (fold nw; lia). apply (inv_tag f I); auto.
    - intros j name child Hb Hc. rewrite (Hdents j Hleaf) in Hb. rewrite Hisdir in Hc.
      assert (Hjdir : is_dir f' j = true).
      { apply (dents_some_dir f' j name child). rewrite (Hdents j Hleaf). exact Hb. }
      assert (Hjlt : j <> nw -> j < nw).
      { intros Hne. rewrite Hisdir in Hjdir. apply N.eqb_neq in Hne. rewrite Hne in Hjdir.
        apply (exists_lt_next f j Ha). apply is_dir_exists; auto. }
      destruct (N.eqb_spec child nw) as [->|Hcn].
      + left. split; [lia|]. intros _. apply Hjlt. intros ->.
        rewrite N.eqb_refl in Hb. destruct (N.eqb_spec nw (l_dir r)); [lia|discriminate].
      + assert (Hold : blookup name (dents f j) = Some child).
        { destruct (N.eqb_spec j (l_dir r)) as [->|Hjd].
          - rewrite blookup_app in Hb. destruct (blookup name (dents f (l_dir r))); auto.
            simpl in Hb. destruct (bytes_eqb name (l_name r)); [|discriminate]. inversion Hb; congruence.
          - destruct (N.eqb_spec j nw); [discriminate|auto]. }
        apply (inv_dent f I j name child Hold Hc).
    - intros j Hj. rewrite (Hdents j Hleaf).
      destruct (N.eqb_spec j (l_dir r)) as [->|Hjd].
      + rewrite map_app. simpl. apply NoDup_app_snoc; [apply (inv_nodup f I); auto|].
        apply blookup_None_notin. exact Hnone.
      + destruct (N.eqb_spec j nw); [constructor|apply (inv_nodup f I); auto].
    - intros j. rewrite (Hdents j Hleaf).
      destruct (N.eqb_spec j (l_dir r)) as [->|Hjd].
      + rewrite map_app. apply Forall_app. split; [apply (inv_names f I)|]. simpl. constructor; auto.
      + destruct (N.eqb_spec j nw); [constructor|apply (inv_names f I)].
    - intros j name child Hb. unfold f'. rewrite create_at_next. rewrite (Hdents j Hleaf) in Hb.
      destruct (N.eqb_spec j (l_dir r)) as [->|Hjd].
      + rewrite blookup_app in Hb. destruct (blookup name (dents f (l_dir r))) eqn:E.
        * inversion Hb; subst. pose proof (inv_target f I _ _ _ E). lia.
        * simpl in Hb. destruct (bytes_eqb name (l_name r)); inversion Hb; subst. fold nw. lia.
      + destruct (N.eqb_spec j nw); [discriminate|]. pose proof (inv_target f I _ _ _ Hb). lia.
    - intros j1 j2 n1 n2 i H1 H2 Hi.
      assert (Hcase : forall j n, blookup n (dents f' j) = Some i ->
                      blookup n (dents f j) = Some i \/ (j = l_dir r /\ n = l_name r /\ i = nw)).
      { intros j n H. rewrite (Hdents j Hleaf) in H. destruct (N.eqb_spec j (l_dir r)) as [->|Hjd].
        - rewrite blookup_app in H. destruct (blookup n (dents f (l_dir r))); [left; auto|].
          simpl in H. destruct (bytes_eqb n (l_name r)) eqn:En; [|discriminate].
          apply bytes_eqb_eq in En. inversion H; subst. right; auto.
        - destruct (N.eqb_spec j nw); [discriminate|left; auto]. }
      assert (Hnot : forall j n, blookup n (dents f j) = Some nw -> False).
      { intros j n K. pose proof (inv_target f I _ _ _ K). unfold nw in *. lia. }
      destruct (Hcase _ _ H1) as [K1|(E1 & E2 & E3)]; destruct (Hcase _ _ H2) as [K2|(G1 & G2 & G3)].
      + rewrite Hisdir in Hi. destruct (N.eqb_spec i nw) as [->|Hin]; [exfalso; eapply Hnot; eauto|].
        apply (inv_single f I j1 j2 n1 n2 i); auto.
      + subst i. exfalso; eapply Hnot; eauto.
      + subst i. exfalso; eapply Hnot; eauto.
      + subst. auto.
  Qed.

  Lemma inv_del_ent f d name : Inv f -> SS d -> Inv (del_ent f d name).
  Proof.
    intros I Hs. destruct (is_dir f d) eqn:Hd; [|rewrite del_ent_nondir; auto].
    set (f' := del_ent f d name).
    assert (Hdents := fun j => del_ent_dents f d name j Hd). fold f' in Hdents.
    constructor.
    - intros i Hi Hout. unfold f'. rewrite del_ent_other; [apply (inv_frame f I); auto|].
      intros ->. eapply SS_not_outside; eauto.
    - unfold f'. rewrite del_ent_next. apply (inv_next f I).
    - intros i Hi. unfold f' in *. rewrite del_ent_next in Hi.
      destruct (N.eq_dec i d) as [->|Hne]; [|rewrite del_ent_other; auto; apply (inv_fresh f I); auto].
      exfalso. pose proof (exists_lt_next f d (inv_fresh f I) (is_dir_exists _ _ Hd)). lia.
    - intros i Hi. unfold f'. rewrite del_ent_tag. apply (inv_tag f I); auto.
    - intros j n child Hb Hc. unfold f' in Hc. rewrite is_dir_del_ent in Hc. rewrite Hdents in Hb.
      apply (inv_dent f I j n child); auto.
      destruct (N.eqb_spec j d) as [->|]; auto.
      destruct (bytes_eqb n name) eqn:E.
      + apply bytes_eqb_eq in E. subst n. rewrite blookup_bremove_same in Hb; [discriminate|].
        apply (inv_nodup f I); auto.
      + rewrite blookup_bremove_other in Hb; auto. apply bytes_eqb_neq; auto.
    - intros j Hj. rewrite Hdents. destruct (N.eqb_spec j d) as [->|]; [|apply (inv_nodup f I); auto].
      apply bremove_nodup. apply (inv_nodup f I); auto.
    - intros j. rewrite Hdents. destruct (N.eqb_spec j d) as [->|]; [|apply (inv_names f I)].
      apply bremove_names. apply (inv_names f I).
    - intros j n child Hb. unfold f'. rewrite del_ent_next. apply (inv_target f I j n child).
      rewrite Hdents in Hb. destruct (N.eqb_spec j d) as [->|]; auto. eapply blookup_bremove_sub; eauto.
      apply (inv_nodup f I); auto.
    - intros j1 j2 n1 n2 i H1 H2 Hi. unfold f' in Hi. rewrite is_dir_del_ent in Hi.
      rewrite Hdents in H1, H2. apply (inv_single f I j1 j2 n1 n2 i); auto.
      + destruct (N.eqb_spec j1 d) as [->|]; auto. eapply blookup_bremove_sub; eauto. apply (inv_nodup f I); auto.
      + destruct (N.eqb_spec j2 d) as [->|]; auto. eapply blookup_bremove_sub; eauto. apply (inv_nodup f I); auto.
  Qed.

  Lemma inv_add_ent f d name i :
    Inv f -> SS d -> is_dir f d = true -> is_dir f i = false -> blookup name (dents f d) = None -> okn name ->
    i < f_next f ->
    Inv (add_ent f d name i).
  Proof.
    intros I Hs Hd Hi Hnone Hokn Hilt. set (f' := add_ent f d name i).
    assert (Hdents := fun j => add_ent_dents f d name i j Hd). fold f' in Hdents.
    constructor.
    - intros j Hj Hout. unfold f'. rewrite add_ent_other; [apply (inv_frame f I); auto|].
      intros ->. eapply SS_not_outside; eauto.
    - unfold f'. rewrite add_ent_next. apply (inv_next f I).
    - intros j Hj. unfold f' in *. rewrite add_ent_next in Hj.
      destruct (N.eq_dec j d) as [->|Hne]; [|rewrite add_ent_other; auto; apply (inv_fresh f I); auto].
      exfalso. pose proof (exists_lt_next f d (inv_fresh f I) (is_dir_exists _ _ Hd)). lia.
    - intros j Hj. unfold f'. rewrite add_ent_tag. apply (inv_tag f I); auto.
    - intros j n child Hb Hc. unfold f' in Hc. rewrite is_dir_add_ent in Hc. rewrite Hdents in Hb.
      apply (inv_dent f I j n child); auto.
      destruct (N.eqb_spec j d) as [->|]; auto.
      rewrite blookup_app in Hb. destruct (blookup n (dents f d)); auto.
      simpl in Hb. destruct (bytes_eqb n name); [|discriminate]. inversion Hb; congruence.
    - intros j Hj. rewrite Hdents. destruct (N.eqb_spec j d) as [->|]; [|apply (inv_nodup f I); auto].
      rewrite map_app. simpl. apply NoDup_app_snoc; [apply (inv_nodup f I); auto|].
      apply blookup_None_notin. exact Hnone.
    - intros j. rewrite Hdents. destruct (N.eqb_spec j d) as [->|]; [|apply (inv_names f I)].
      rewrite map_app. apply Forall_app. split; [apply (inv_names f I)|]. simpl. constructor; auto.
    - intros j n child Hb. unfold f'. rewrite add_ent_next. rewrite Hdents in Hb.
      destruct (N.eqb_spec j d) as [->|]; [|apply (inv_target f I j n child); auto].
      rewrite blookup_app in Hb. destruct (blookup n (dents f d)) eqn:E.
      + inversion Hb; subst. apply (inv_target f I d n child); auto.
      + simpl in Hb. destruct (bytes_eqb n name); inversion Hb; subst. exact Hilt.
    - intros j1 j2 n1 n2 k H1 H2 Hk. unfold f' in Hk. rewrite is_dir_add_ent in Hk.
      rewrite Hdents in H1, H2.
      assert (Hcase : forall j n, blookup n (if N.eqb j d then dents f d ++ [(name, i)] else dents f j) = Some k ->
                      blookup n (dents f j) = Some k).
      { intros j n H. destruct (N.eqb_spec j d) as [->|]; auto.
        rewrite blookup_app in H. destruct (blookup n (dents f d)); auto.
        simpl in H. destruct (bytes_eqb n name); [|discriminate]. inversion H; subst. congruence. }
      apply (inv_single f I j1 j2 n1 n2 k); auto.
  Qed.

  (* any update of an SS inode that keeps its kind constructor and, for a directory, its parent
     and entries *)
  Definition same_shape (n n' : inode) : Prop :=
    match i_kind n, i_kind n' with
    | KDir p es, KDir p' es' => p = p' /\ es = es'
    | KFile _, KFile _ => True
    | KLink t, KLink t' => t = t'
    | KSpecial a b, KSpecial a' b' => a = a' /\ b = b'
    | _, _ => False
    end.

  Lemma same_shape_tag n n' : same_shape n n' -> ktag (i_kind n') = ktag (i_kind n).
  Proof. unfold same_shape. destruct (i_kind n), (i_kind n'); simpl; tauto. Qed.

  Lemma inv_put f i n n' : Inv f -> SS i -> get f i = Some n -> same_shape n n' -> Inv (put f i n').
  Proof.
    intros I Hs Hg Hsh. set (f' := put f i n').
    assert (Htag : forall j, itag (get f' j) = itag (get f j)).
    { intros j. unfold f'. destruct (N.eq_dec j i) as [->|Hne]; [|rewrite get_put_other; auto].
      rewrite get_put_same, Hg. simpl. rewrite (same_shape_tag _ _ Hsh). reflexivity. }
    assert (Hdents : forall j, dents f' j = dents f j).
    { intros j. unfold f', dents, dir_of. destruct (N.eq_dec j i) as [->|Hne]; [|rewrite get_put_other; auto].
      rewrite get_put_same, Hg. unfold same_shape in Hsh.
      destruct n as [[p es|x|t|ty rd] m], n' as [[p' es'|x'|t'|ty' rd'] m']; simpl in *; try tauto.
      destruct Hsh; subst; reflexivity. }
    assert (Hisdir : forall j, is_dir f' j = is_dir f j).
    { intros j. specialize (Htag j). destruct (is_dir f' j) eqn:E1, (is_dir f j) eqn:E2; auto.
      - apply is_dir_tag in E1. rewrite Htag in E1. apply is_dir_tag in E1. congruence.
      - apply is_dir_tag in E2. rewrite <- Htag in E2. apply is_dir_tag in E2. congruence. }
    constructor.
    - intros j Hj Hout. unfold f'. rewrite get_put_other; [apply (inv_frame f I); auto|].
      intros ->. eapply SS_not_outside; eauto.
    - apply (inv_next f I).
    - intros j Hj. unfold f' in *. rewrite next_put in Hj.
      destruct (N.eq_dec j i) as [->|Hne]; [|rewrite get_put_other; auto; apply (inv_fresh f I); auto].
      exfalso. assert (get f i <> None) by congruence.
      pose proof (exists_lt_next f i (inv_fresh f I) H). lia.
    - intros j Hj. rewrite Htag. apply (inv_tag f I); auto.
    - intros j nm0 child Hb Hc. rewrite Hdents in Hb. rewrite Hisdir in Hc. apply (inv_dent f I j nm0 child); auto.
    - intros j Hj. rewrite Hdents. apply (inv_nodup f I); auto.
    - intros j. rewrite Hdents. apply (inv_names f I).
    - intros j nm0 child Hb. unfold f'. rewrite next_put. rewrite Hdents in Hb. apply (inv_target f I j nm0 child); auto.
    - intros j1 j2 n1 n2 k H1 H2 Hk. rewrite Hdents in H1, H2. rewrite Hisdir in Hk.
      apply (inv_single f I j1 j2 n1 n2 k); auto.
  Qed.

  (* a directory below dr has one path only *)
  Lemma chain_unique f : Inv f -> acyclic f -> forall a cs1 e, chain f a cs1 e -> forall cs2, chain f a cs2 e -> cs1 = cs2.
  Proof.
    intros I Hac a cs1. induction cs1 as [|x cs1 IH] using rev_ind; intros e H1 cs2 H2.
    - inversion H1; subst. destruct cs2 as [|y cs2]; auto. exfalso. apply (Hac e (y :: cs2)); [discriminate|auto].
    - destruct cs2 as [|y cs2 _] using rev_ind.
      + inversion H2; subst. exfalso. apply (Hac e (cs1 ++ [x])); [destruct cs1; discriminate|auto].
      + destruct (chain_split f cs1 a [x] e H1) as (m1 & P1 & Q1).
        destruct (chain_split f cs2 a [y] e H2) as (m2 & P2 & Q2).
        inversion Q1 as [|? ? i1 ? ? B1 D1 R1]; subst. inversion R1; subst.
        inversion Q2 as [|? ? i2 ? ? B2 D2 R2]; subst. inversion R2; subst.
        destruct (inv_single f I m1 m2 x y e B1 B2 D1) as [-> ->].
        rewrite (IH m2 P1 cs2 P2). reflexivity.
  Qed.
End Inv.
