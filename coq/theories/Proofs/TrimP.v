(* C11 — the walk WITH the two SkipDir shortcuts (any pattern list, no hypothesis on the external
   matcher) is the walk WITHOUT shortcuts of the view from which the pruned directories have been
   removed (with everything below them).  The prune decision is a function of the path
   ([prune_at]) because the MatchInfo handed down the stack is (RefP.info_ok).  Hence the
   filtered walk is C10's reference filter of a trimmed view — which is again a well-formed
   source and a sub-sequence of the original walk. *)
From Coq Require Import List NArith Bool Lia Sorting.Sorted.
From FS Require Import Sx Model.Path Model.Stat Model.Tree Model.Pattern Model.FilterWalk
  Model.SenderView
  Proofs.Lex Proofs.PathP Proofs.PatternP Proofs.FilterP Proofs.PruneP Proofs.RefP Proofs.NaiveRefP
  Proofs.FlatRefP Proofs.RefValidP.
Import ListNotations.
Open Scope bool_scope.

Section Trim.
Variable pmatch : bytes -> bytes -> bool.
Variable mapfn : bytes -> stat -> mres * stat.
Variable c : cfg.
Notation c' := (no_prune c).

Definition chain_inc (p : bytes) : bool * list bool :=
  match c_inc c with Some pats => incr_chain pmatch pats (pcomps p) | None => (true, []) end.
Definition chain_exc (p : bytes) : bool * list bool :=
  match c_exc c with Some pats => incr_chain pmatch pats (pcomps p) | None => (false, []) end.
(* one of the two shortcuts fires at the directory p *)
Definition prune_at (p : bytes) : bool :=
  prune_inc c p true (fst (chain_inc p)) || prune_exc c p true (fst (chain_exc p)).

Fixpoint trim_node (dir : bytes) (n : node) {struct n} : list node :=
  match n with
  | Node name st ct kids =>
    let p := child_path dir name in
    if st_is_dir st && prune_at p then [] else [Node name st ct (flat_map (trim_node p) kids)]
  end.
Definition trim (view : list node) : list node := flat_map (trim_node []) view.

(* ---------- the MatchInfos on the stack are never touched ---------- *)
Definition infos (A : list vdir) : list (list bool) * list (list bool) := (map vd_inc A, map vd_exc A).

Lemma lazy_parents_infos pd : infos (fst (fst (lazy_parents mapfn pd))) = infos pd.
Proof.
  unfold lazy_parents, infos. destruct (lazy_go_infos mapfn (rev pd)) as [H1 H2].
  destruct (lazy_go mapfn (rev pd)) as [[l em] ab]. cbn [fst snd] in *.
  rewrite !map_rev, H1, H2, !map_rev, !rev_involutive. reflexivity.
Qed.

Lemma core_infos c0 pd1 p st isd : infos (r_stack (cb_core pmatch mapfn c0 pd1 p st isd)) = infos pd1.
Proof.
  destruct (pruned pmatch c0 pd1 p isd) eqn:Hp; [rewrite core_pruned by auto; reflexivity|].
  destruct (is_skip pmatch c0 pd1 p) eqn:Hs; [rewrite core_skip by auto; reflexivity|].
  rewrite core_map by auto.
  destruct (mapfn p st) as [[| |] st']; try reflexivity.
  pose proof (lazy_parents_infos pd1) as H.
  destruct (lazy_parents mapfn pd1) as [[pd2 em] ab]. cbn [fst] in H. destruct ab; exact H.
Qed.

Lemma core_push_val c0 pd1 p st isd : pruned pmatch c0 pd1 p isd = false ->
  r_push (cb_core pmatch mapfn c0 pd1 p st isd) = push_of pmatch c0 pd1 p st isd.
Proof.
  intros Hp. destruct (is_skip pmatch c0 pd1 p) eqn:Hs; [rewrite core_skip by auto; reflexivity|].
  rewrite core_map by auto.
  destruct (mapfn p st) as [[| |] st']; try reflexivity.
  destruct (lazy_parents mapfn pd1) as [[pd2 em] ab]. destruct ab; reflexivity.
Qed.

Lemma infos_tl A B : infos A = infos B -> infos (tl A) = infos (tl B).
Proof.
  unfold infos. intros H. inversion H as [[H1 H2]].
  destruct A, B; try discriminate; cbn [tl map] in *; [reflexivity|]. inversion H1. inversion H2. reflexivity.
Qed.

Lemma sw_infos_forest c0 l : Forall (fun n => forall A dir, infos (fst (fst (sw_node pmatch mapfn c0 A dir n))) = infos A) l ->
  forall A dir, infos (fst (sw_forest pmatch mapfn c0 A dir l)) = infos A.
Proof.
  induction l as [|k r IH]; intros HF A dir; [reflexivity|].
  inversion HF as [|? ? Hk Hr]; subst. cbn [sw_forest].
  specialize (Hk A dir). destruct (sw_node pmatch mapfn c0 A dir k) as [[a' e] cut]. cbn [fst] in Hk.
  destruct cut; [exact Hk|].
  specialize (IH Hr a' dir). destruct (sw_forest pmatch mapfn c0 a' dir r) as [a'' e']. cbn [fst] in *. congruence.
Qed.

Lemma sw_infos_node c0 : forall n A dir, infos (fst (fst (sw_node pmatch mapfn c0 A dir n))) = infos A.
Proof.
  induction n as [name st ct kids IH] using node_ind2. intros A dir.
  rewrite sw_node_eq. cbv zeta. set (p := child_path dir name). set (st' := set_path st p).
  pose proof (core_infos c0 A p st' (st_is_dir st)) as Hc.
  destruct (r_skip _); [exact Hc|]. destruct (st_is_dir st); [|exact Hc].
  pose proof (sw_infos_forest c0 kids IH (pushed (cb_core pmatch mapfn c0 A p st' true)) p) as Hf.
  destruct (sw_forest pmatch mapfn c0 _ p kids) as [a2 em2]. cbn [fst] in *.
  unfold pushed in Hf. destruct (r_push _) as [d|].
  - apply infos_tl in Hf. cbn [tl] in Hf. congruence.
  - congruence.
Qed.

Lemma info_ok_infos dir A B : infos A = infos B -> info_ok pmatch c dir A -> info_ok pmatch c dir B.
Proof.
  unfold infos. intros H [H1 H2]. inversion H as [[E1 E2]].
  assert (T1 : top_inc B = top_inc A) by (destruct A, B; try discriminate; cbn in *; congruence).
  assert (T2 : top_exc B = top_exc A) by (destruct A, B; try discriminate; cbn in *; congruence).
  split; intros pats Hc; [rewrite T1|rewrite T2]; auto.
Qed.

(* ---------- the prune decision is a function of the path ---------- *)
Lemma pruned_prune_at dir A name isd : info_ok pmatch c dir A -> name <> [] -> nosep name ->
  pruned pmatch c A (child_path dir name) isd = isd && prune_at (child_path dir name).
Proof.
  intros Hi Hne Hns. unfold pruned, prune_at, chain_inc, chain_exc, prune_inc, prune_exc.
  destruct (c_inc c) as [pi|] eqn:Ei; destruct (c_exc c) as [pe|] eqn:Ee;
    rewrite ?(eval_inc_chain pmatch c dir A name Hi Hne Hns pi Ei), ?(eval_exc_chain pmatch c dir A name Hi Hne Hns pe Ee);
    destruct isd; rewrite ?andb_false_r; cbn [andb orb]; reflexivity.
Qed.

(* ---------- simulation ---------- *)
Definition sim_node (n : node) : Prop := wf_node n = true -> forall A dir, info_ok pmatch c dir A ->
  sw_node pmatch mapfn c A dir n =
  match trim_node dir n with [] => (A, [], false) | n' :: _ => sw_node pmatch mapfn c' A dir n' end.

Lemma trim_node_eq dir name st ct kids :
  trim_node dir (Node name st ct kids) =
  if st_is_dir st && prune_at (child_path dir name) then []
  else [Node name st ct (flat_map (trim_node (child_path dir name)) kids)].
Proof. reflexivity. Qed.

Lemma trim_node_cases dir n : trim_node dir n = [] \/ exists n', trim_node dir n = [n'].
Proof. destruct n as [name st ct kids]. rewrite trim_node_eq. destruct (_ && _); eauto. Qed.

Lemma sim_forest l : Forall sim_node l -> forallb wf_node l = true -> forall A dir, info_ok pmatch c dir A ->
  sw_forest pmatch mapfn c A dir l = sw_forest pmatch mapfn c' A dir (flat_map (trim_node dir) l).
Proof.
  induction l as [|k r IH]; intros HF Hwf A dir Hi; [reflexivity|].
  inversion HF as [|? ? Hk Hr]; subst. cbn [forallb] in Hwf. apply andb_true_iff in Hwf. destruct Hwf as [Hw1 Hw2].
  cbn [sw_forest flat_map]. pose proof (sw_infos_node c k A dir) as Hinf.
  rewrite (Hk Hw1 A dir Hi) in Hinf |- *.
  destruct (trim_node_cases dir k) as [E|(k' & E)]; rewrite E in *.
  - cbn [app]. rewrite (IH Hr Hw2 A dir Hi).
    destruct (sw_forest pmatch mapfn c' A dir (flat_map (trim_node dir) r)) as [a'' e']. reflexivity.
  - cbn [app sw_forest]. destruct (sw_node pmatch mapfn c' A dir k') as [[a' e] cut]. cbn [fst] in Hinf.
    destruct cut; [reflexivity|].
    rewrite (IH Hr Hw2 a' dir); [reflexivity|]. eapply info_ok_infos; [symmetry; exact Hinf|exact Hi].
Qed.

Lemma sim_node_all : forall n, sim_node n.
Proof.
  induction n as [name st ct kids IH] using node_ind2. intros Hwf A dir Hi.
  apply wf_node_inv in Hwf. destruct Hwf as (Hne & Hns & Hk).
  rewrite trim_node_eq. set (p := child_path dir name).
  pose proof (pruned_prune_at dir A name (st_is_dir st) Hi Hne Hns) as Hpr. fold p in Hpr.
  rewrite <- Hpr. rewrite sw_node_eq. cbv zeta. fold p. set (st' := set_path st p).
  destruct (pruned pmatch c A p (st_is_dir st)) eqn:Ep.
  - pose proof (pruned_isdir _ _ _ _ _ Ep) as Hd. rewrite (core_pruned pmatch mapfn c) by auto.
    cbn [r_skip r_stack r_em]. rewrite Hd. reflexivity.
  - rewrite sw_node_eq. cbv zeta. fold p. fold st'.
    rewrite (core_np_eq pmatch mapfn c A p st' (st_is_dir st) Ep).
    destruct (r_skip _) eqn:Esk; [reflexivity|]. destruct (st_is_dir st) eqn:Ed; [|reflexivity].
    assert (Hpush : info_ok pmatch c p (pushed (cb_core pmatch mapfn c A p st' true))).
    { unfold pushed. rewrite (core_push_val c A p st' true Ep). unfold push_of. cbn [andb].
      destruct (use_match c) eqn:Eu.
      - apply info_ok_push; auto.
      - apply info_ok_nomatch; auto. }
    rewrite (sim_forest kids IH Hk _ p Hpush). reflexivity.
Qed.

Lemma trim_sw_walk view : FilterWalk.wf_view view = true ->
  sw_walk pmatch mapfn c view = sw_walk pmatch mapfn c' (trim view).
Proof.
  intros Hwf. unfold sw_walk, trim. rewrite (sim_forest view); auto.
  - apply Forall_forall. intros n _. apply sim_node_all.
  - apply info_ok_root.
Qed.

(* ---------- the trimmed view: a well-formed source, a sub-sequence of the walk ---------- *)
Lemma walk_forest_app dir a b : walk_forest dir (a ++ b) = walk_forest dir a ++ walk_forest dir b.
Proof. induction a as [|k a IH]; [reflexivity|]. cbn [app walk_forest]. rewrite IH, app_assoc. reflexivity. Qed.

Lemma trim_walk_forest kids : Forall (fun n => forall dir, rsub eq (walk_forest dir (trim_node dir n)) (walk_node dir n)) kids ->
  forall p, rsub eq (walk_forest p (flat_map (trim_node p) kids)) (walk_forest p kids).
Proof.
  induction kids as [|k r IH]; intros HF p; [constructor|].
  inversion HF as [|? ? Hk Hr]; subst. cbn [flat_map walk_forest]. rewrite walk_forest_app.
  apply rsub_app; auto.
Qed.

Lemma trim_walk_node : forall n dir, rsub eq (walk_forest dir (trim_node dir n)) (walk_node dir n).
Proof.
  induction n as [name st ct kids IH] using node_ind2. intros dir.
  rewrite trim_node_eq. destruct (_ && _); [apply rsub_nil_l|].
  cbn [walk_forest]. rewrite app_nil_r, !walk_node_eq.
  apply rs_keep; [reflexivity|]. apply trim_walk_forest; auto.
Qed.

Lemma trim_walk_root view : rsub eq (walk_root (trim view)) (walk_root view).
Proof.
  unfold walk_root, trim. apply trim_walk_forest. apply Forall_forall. intros n _. apply trim_walk_node.
Qed.

Lemma sorted_names_of_strong l : StronglySorted (fun a b => cmp_bytes a b = Lt) l -> sorted_names l = true.
Proof.
  induction l as [|a r IH]; intros H; [reflexivity|]. apply StronglySorted_inv in H. destruct H as [H1 H2].
  destruct r as [|b r']; [reflexivity|]. cbn [sorted_names].
  rewrite (Forall_inv H2). apply IH; auto.
Qed.

Lemma sorted_names_to_strong l : sorted_names l = true -> StronglySorted (fun a b => cmp_bytes a b = Lt) l.
Proof.
  induction l as [|a r IH]; intros H; [constructor|].
  destruct r as [|b r'].
  - constructor; constructor.
  - cbn [sorted_names] in H. destruct (cmp_bytes a b) eqn:E; try discriminate.
    specialize (IH H). constructor; auto.
    apply StronglySorted_inv in IH. destruct IH as [_ HF].
    constructor; [exact E|]. eapply Forall_impl; [|exact HF]. intros k Hk. eapply cmp_bytes_trans; eauto.
Qed.

Lemma trim_names kids p : rsub eq (map node_name (flat_map (trim_node p) kids)) (map node_name kids).
Proof.
  induction kids as [|k r IH]; [constructor|]. cbn [flat_map map]. rewrite map_app.
  change (node_name k :: map node_name r) with ([node_name k] ++ map node_name r).
  apply rsub_app; auto. destruct k as [name st ct kk]. rewrite trim_node_eq.
  destruct (_ && _); cbn [map node_name]; [apply rs_skip; constructor|apply rs_keep; [reflexivity|constructor]].
Qed.

Lemma trim_sorted_names kids p : sorted_names (map node_name kids) = true ->
  sorted_names (map node_name (flat_map (trim_node p) kids)) = true.
Proof.
  intros H. apply sorted_names_of_strong.
  rewrite <- (map_id (map node_name (flat_map (trim_node p) kids))).
  eapply (rsub_sorted eq (fun a b => cmp_bytes a b = Lt) (fun x : bytes => x) (fun x : bytes => x));
    [intros x y E; exact E|apply trim_names|].
  rewrite map_id. apply sorted_names_to_strong. exact H.
Qed.

Lemma trim_wf_forest kids : Forall (fun n => wf_source_node n = true -> forall dir, forallb wf_source_node (trim_node dir n) = true) kids ->
  forallb wf_source_node kids = true -> forall p, forallb wf_source_node (flat_map (trim_node p) kids) = true.
Proof.
  induction kids as [|k r IH]; intros HF Hwf p; [reflexivity|].
  inversion HF as [|? ? Hk Hr]; subst. cbn [forallb] in Hwf. apply andb_true_iff in Hwf. destruct Hwf as [H1 H2].
  cbn [flat_map]. rewrite forallb_app. rewrite (Hk H1 p), (IH Hr H2 p). reflexivity.
Qed.

Lemma trim_wf_node : forall n, wf_source_node n = true -> forall dir, forallb wf_source_node (trim_node dir n) = true.
Proof.
  induction n as [name st ct kids IH] using node_ind2. intros Hwf dir.
  apply wf_source_node_inv in Hwf. destruct Hwf as (Hn & Hdk & Hs & Hk).
  rewrite trim_node_eq. destruct (_ && _); [reflexivity|].
  cbn [forallb wf_source_node]. rewrite Hn, (trim_sorted_names kids _ Hs), (trim_wf_forest kids IH Hk).
  destruct Hdk as [Hd|Hd]; [rewrite Hd; reflexivity|].
  subst kids. cbn [flat_map is_nil]. rewrite orb_true_r. reflexivity.
Qed.

Lemma trim_wf_source view : wf_source view = true -> wf_source (trim view) = true.
Proof.
  unfold wf_source, trim. intros H. apply andb_true_iff in H. destruct H as [Hs Hk].
  rewrite (trim_sorted_names view [] Hs). cbn [andb]. apply trim_wf_forest; auto.
  apply Forall_forall. intros n _. apply trim_wf_node.
Qed.

(* ---------- the filtered walk is the reference filter of the trimmed view ---------- *)
Theorem filter_walk_trim_reference view : wf_source view = true ->
  filter_walk pmatch mapfn c view = reference (keep_incr pmatch c) mapfn (trim view).
Proof.
  intros Hwf. pose proof (trim_wf_source view Hwf) as Hwt.
  rewrite (filter_walk_structural pmatch mapfn c view) by (apply wf_source_wf_view; auto).
  rewrite trim_sw_walk by (apply wf_source_wf_view; auto).
  rewrite <- (filter_walk_structural pmatch mapfn c' (trim view)) by (apply wf_source_wf_view; auto).
  apply filter_walk_reference_proof. apply wf_source_wf_view; auto.
Qed.

End Trim.

Lemma rsub_trans_eq {A B} (R : A -> B -> Prop) a b cc : rsub R a b -> rsub eq b cc -> rsub R a cc.
Proof.
  intros H1 H2. revert a H1. induction H2 as [|y l' l _ IH|x y l' l E _ IH]; intros a H1.
  - exact H1.
  - apply rs_skip. auto.
  - subst y. inversion H1; subst.
    + apply rs_skip. auto.
    + apply rs_keep; auto.
Qed.
