(* C11 — the reference filter (Model/FilterWalk.reference, for ANY verdict V) of a well-formed
   source view is a well-formed listing: a sub-sequence of the canonical walk (hence strictly
   ascending in protocol order), ancestor-closed, with clean relative paths — provided the map
   function keeps path / type bits / link name and never answers Exclude for a directory.
   And: a well-formed listing with clean paths passes the order validator. *)
From Coq Require Import List NArith Bool Lia Sorting.Sorted.
From FS Require Import Sx Model.Path Model.Stat Model.Tree Model.Pattern Model.FilterWalk
  Model.Hardlinks Model.Validator Model.Diff Model.SenderView
  Proofs.Lex Proofs.PathP Proofs.PatternP Proofs.FilterP Proofs.RefP Proofs.NaiveRefP Proofs.FlatRefP
  Proofs.ValidatorP Proofs.DiffP.
From FS Require Model.Walk Proofs.WalkP.
Import ListNotations.
Open Scope bool_scope.

(* ---------- relational sub-sequences ---------- *)
Section RSub.
Context {A B : Type}.
Variable R : A -> B -> Prop.

Inductive rsub : list A -> list B -> Prop :=
| rs_nil : rsub [] []
| rs_skip y l' l : rsub l' l -> rsub l' (y :: l)
| rs_keep x y l' l : R x y -> rsub l' l -> rsub (x :: l') (y :: l).

Lemma rsub_nil_l l : rsub [] l.
Proof. induction l; constructor; auto. Qed.

Lemma rsub_app a b a' b' : rsub a b -> rsub a' b' -> rsub (a ++ a') (b ++ b').
Proof.
  intros H1 H2. induction H1; cbn [app]; auto.
  - apply rs_skip; auto.
  - apply rs_keep; auto.
Qed.

Lemma rsub_in l' l : rsub l' l -> forall x, In x l' -> exists y, In y l /\ R x y.
Proof.
  induction 1 as [|y l' l _ IH|x y l' l HR _ IH]; intros z Hz.
  - destruct Hz.
  - destruct (IH z Hz) as (w & Hw & HRw). exists w. split; [right|]; auto.
  - destruct Hz as [<-|Hz].
    + exists y. split; [left|]; auto.
    + destruct (IH z Hz) as (w & Hw & HRw). exists w. split; [right|]; auto.
Qed.

Lemma rsub_sorted {K} (lt : K -> K -> Prop) (ka : A -> K) (kb : B -> K) l' l :
  (forall x y, R x y -> ka x = kb y) -> rsub l' l ->
  StronglySorted lt (map kb l) -> StronglySorted lt (map ka l').
Proof.
  intros Hk H. induction H as [|y l' l _ IH|x y l' l HR Hs IH]; intros HS.
  - constructor.
  - cbn [map] in HS. apply StronglySorted_inv in HS. tauto.
  - cbn [map] in *. apply StronglySorted_inv in HS. destruct HS as [HS HF]. constructor; auto.
    apply Forall_forall. intros k Hin. apply in_map_iff in Hin. destruct Hin as (z & <- & Hz).
    destruct (rsub_in _ _ Hs z Hz) as (w & Hw & HRw).
    rewrite (Hk _ _ HR), (Hk _ _ HRw). rewrite Forall_forall in HF. apply HF. apply in_map. exact Hw.
Qed.
End RSub.

(* ---------- strings ---------- *)
Lemma split_child dir name q r : nosep name -> q ++ sep :: r = child_path dir name ->
  dir <> [] /\ (q = dir \/ exists r', dir = q ++ sep :: r').
Proof.
  intros Hn. destruct dir as [|a d].
  - cbn [child_path]. intros E. exfalso. apply Hn. rewrite <- E. apply in_or_app. right. left. reflexivity.
  - rewrite child_path_cons by discriminate. intros E. split; [discriminate|].
    remember (a :: d) as dir eqn:Ed. clear Ed a d. revert dir E.
    induction q as [|x q IH]; intros dir E.
    + destruct dir as [|b dir'].
      * left. reflexivity.
      * cbn [app] in E. inversion E; subst. right. exists dir'. reflexivity.
    + destruct dir as [|b dir'].
      * cbn [app] in E. inversion E as [[Ex Er]]. exfalso. apply Hn. rewrite <- Er.
        apply in_or_app. right. left. reflexivity.
      * cbn [app] in E. inversion E as [[Ex Er]]. destruct (IH _ Er) as [->|(r' & ->)].
        -- left. reflexivity.
        -- right. exists r'. reflexivity.
Qed.

Lemma child_path_joinc cs name : cs = [] \/ okc cs -> child_path (joinc cs) name = joinc (cs ++ [name]).
Proof.
  intros [->|Hok]; [reflexivity|].
  assert (Hne : cs <> []) by (destruct Hok; auto).
  rewrite child_path_cons by (apply okc_joinc_nonempty; auto).
  rewrite joinc_snoc by auto. reflexivity.
Qed.

(* ---------- source views ---------- *)
Lemma cmp_bytes_trans a b c : cmp_bytes a b = Lt -> cmp_bytes b c = Lt -> cmp_bytes a c = Lt.
Proof. rewrite <- !cmpb_is_cmp_bytes. apply cmpb_trans. Qed.

Lemma sorted_names_strong l : sorted_names (map node_name l) = true -> StronglySorted WalkP.vname_lt l.
Proof.
  induction l as [|a r IH]; intros H; [constructor|].
  destruct r as [|b r'].
  - constructor; constructor.
  - cbn [map sorted_names] in H. fold (map node_name r') in H.
    destruct (cmp_bytes (node_name a) (node_name b)) eqn:E; try discriminate.
    specialize (IH H). constructor; auto.
    apply StronglySorted_inv in IH. destruct IH as [_ HF].
    constructor; [exact E|]. eapply Forall_impl; [|exact HF].
    intros k Hk. unfold WalkP.vname_lt in *. eapply cmp_bytes_trans; eauto.
Qed.

Lemma wf_source_node_inv name st ct kids : wf_source_node (Node name st ct kids) = true ->
  name_ok name = true /\ (st_is_dir st = true \/ kids = []) /\
  sorted_names (map node_name kids) = true /\ forallb wf_source_node kids = true.
Proof.
  cbn [wf_source_node]. intros H.
  apply andb_true_iff in H. destruct H as [H H4]. apply andb_true_iff in H. destruct H as [H H3].
  apply andb_true_iff in H. destruct H as [H1 H2].
  split; [exact H1|]. split; [|split; assumption].
  apply orb_true_iff in H2. destruct H2 as [H2|H2]; [left; exact H2|].
  right. destruct kids; [reflexivity|discriminate].
Qed.

Lemma wf_source_vnode : forall n, wf_source_node n = true -> WalkP.wf_vnode n.
Proof.
  induction n as [name st ct kids IH] using node_ind2. intros H.
  apply wf_source_node_inv in H. destruct H as (Hn & _ & Hs & Hk).
  apply name_ok_inv in Hn. destruct Hn as (Hne & Hns & _).
  constructor; auto.
  - apply sorted_names_strong; auto.
  - rewrite Forall_forall in *. rewrite forallb_forall in Hk. intros k Hin. apply IH; auto.
Qed.

Lemma wf_source_walkp view : wf_source view = true -> WalkP.wf_view view.
Proof.
  unfold wf_source. intros H. apply andb_true_iff in H. destruct H as [Hs Hk]. split.
  - apply sorted_names_strong; auto.
  - apply Forall_forall. rewrite forallb_forall in Hk. intros k Hin. apply wf_source_vnode; auto.
Qed.

Lemma wf_source_strict_node : forall n, wf_source_node n = true -> wf_strict_node n = true.
Proof.
  induction n as [name st ct kids IH] using node_ind2. intros H.
  apply wf_source_node_inv in H. destruct H as (Hn & _ & _ & Hk).
  cbn [wf_strict_node]. rewrite Hn. cbn [andb]. apply forallb_forall. intros k Hin.
  rewrite Forall_forall in IH. rewrite forallb_forall in Hk. apply IH; auto.
Qed.

Lemma wf_source_strict view : wf_source view = true -> wf_strict view = true.
Proof.
  unfold wf_source, wf_strict. intros H. apply andb_true_iff in H. destruct H as [_ Hk].
  apply forallb_forall. rewrite forallb_forall in Hk. intros k Hin. apply wf_source_strict_node; auto.
Qed.

Lemma wf_source_wf_view view : wf_source view = true -> FilterWalk.wf_view view = true.
Proof. intros H. apply wf_strict_wf, wf_source_strict, H. Qed.

Notation epath := (fun e : Tree.entry => st_path (fst e)).

(* the canonical walk of a well-formed source: strictly ascending, clean relative paths *)
Lemma source_walk_sorted view : wf_source view = true ->
  StronglySorted (fun p q => compare_path p q = Lt) (map epath (walk_root view)).
Proof. intros H. exact (proj1 (WalkP.view_walk_sorted_proof view (wf_source_walkp view H))). Qed.

Lemma walk_node_okc : forall n, wf_strict_node n = true -> forall cs0, cs0 = [] \/ okc cs0 ->
  forall e, In e (walk_node (joinc cs0) n) -> exists cs, okc cs /\ epath e = joinc cs.
Proof.
  induction n as [name st ct kids IH] using node_ind2. intros Hwf cs0 Hcs e Hin.
  cbn [wf_strict_node] in Hwf. apply andb_true_iff in Hwf. destruct Hwf as [Hn Hk].
  apply name_ok_inv in Hn. destruct Hn as (Hne & Hns & Hnm).
  rewrite walk_node_eq in Hin. rewrite (child_path_joinc cs0 name Hcs) in Hin.
  assert (Hok : okc (cs0 ++ [name])) by (apply okc_child; auto).
  destruct Hin as [<-|Hin]; [exists (cs0 ++ [name]); auto|].
  clear -IH Hk Hok Hin. induction kids as [|k r IHr]; [destruct Hin|].
  cbn [walk_forest] in Hin. cbn [forallb] in Hk. apply andb_true_iff in Hk. destruct Hk as [Hk1 Hk2].
  inversion IH as [|? ? IH1 IH2]; subst.
  apply in_app_or in Hin. destruct Hin as [Hin|Hin]; [|apply IHr; auto].
  apply (IH1 Hk1 (cs0 ++ [name]) (or_intror Hok) e Hin).
Qed.

Lemma source_walk_ok_paths view : wf_source view = true ->
  forall e, In e (walk_root view) -> ok_path (epath e) = true.
Proof.
  intros H e Hin. apply wf_source_strict in H. unfold wf_strict in H. unfold walk_root in Hin.
  assert (X : exists cs, okc cs /\ epath e = joinc cs).
  { induction view as [|k r IH]; [destruct Hin|].
    cbn [walk_forest] in Hin. cbn [forallb] in H. apply andb_true_iff in H. destruct H as [H1 H2].
    apply in_app_or in Hin. destruct Hin as [Hin|Hin]; [|apply IH; auto].
    apply (walk_node_okc k H1 [] (or_introl eq_refl) e Hin). }
  destruct X as (cs & Hok & ->). apply okc_ok_path; auto.
Qed.

(* ---------- the reference: sub-sequence of the walk ---------- *)
(* what the map function is allowed to change: everything but path, type bits, link name *)
Definition keq (s' s : stat) : Prop :=
  st_path s' = st_path s /\ mode_is_dir (st_mode s') = mode_is_dir (st_mode s) /\
  mode_is_symlink (st_mode s') = mode_is_symlink (st_mode s) /\ st_linkname s' = st_linkname s.
Definition keqe (s' : stat) (e : Tree.entry) : Prop := keq s' (fst e).

Section RefSub.
Variable V : bytes -> bool.
Variable mapfn : bytes -> stat -> mres * stat.
Variable K : stat -> stat -> Prop.
Hypothesis HK : forall p s, K (snd (mapfn p s)) s.
Let Ke (s' : stat) (e : Tree.entry) : Prop := K s' (fst e).
Notation out n := (fst (fst n)).

Lemma ref_rsub_forest_gen kids : Forall (fun n => forall blocked dir,
    rsub Ke (out (ref_node V mapfn blocked dir n)) (walk_node dir n)) kids ->
  forall b p, rsub Ke (fst (ref_forest V mapfn b p kids)) (walk_forest p kids).
Proof.
  induction kids as [|k r IH]; intros HF b p; [constructor|].
  inversion HF as [|? ? Hk Hr]; subst. cbn [ref_forest walk_forest].
  specialize (Hk b p). destruct (ref_node V mapfn b p k) as [[e f] cut]. cbn [fst] in Hk.
  destruct cut.
  - cbn [fst]. rewrite <- (app_nil_r e). apply rsub_app; auto. apply rsub_nil_l.
  - specialize (IH Hr b p). destruct (ref_forest V mapfn b p r) as [e' f']. cbn [fst] in *.
    apply rsub_app; auto.
Qed.

Lemma ref_rsub_node_gen : forall n blocked dir,
  rsub Ke (out (ref_node V mapfn blocked dir n)) (walk_node dir n).
Proof.
  induction n as [name st ct kids IH] using node_ind2. intros blocked dir.
  rewrite ref_node_eq, walk_node_eq. cbv zeta.
  set (p := child_path dir name). set (st' := set_path st p).
  assert (Hb : forall b isd, rsub Ke (fst (ref_below V mapfn b isd p kids)) (walk_forest p kids)).
  { intros b isd. unfold ref_below. destruct isd; [apply ref_rsub_forest_gen; auto|apply rsub_nil_l]. }
  assert (Hhead : Ke (snd (mapfn p st')) (st', ct)) by apply HK.
  destruct (V p).
  - destruct (fst (mapfn p st')); cbn [fst].
    + destruct blocked; cbn [app]; [apply rs_skip|apply rs_keep]; auto.
    + apply rs_skip; auto.
    + apply rsub_nil_l.
  - cbn [fst].
    match goal with |- rsub _ ((if ?c then _ else _) ++ _) _ => destruct c end; cbn [app];
      [apply rs_keep|apply rs_skip]; auto.
Qed.

Lemma reference_rsub_gen view : rsub Ke (reference V mapfn view) (walk_root view).
Proof.
  unfold reference, walk_root. apply ref_rsub_forest_gen. apply Forall_forall. intros n _. apply ref_rsub_node_gen.
Qed.

End RefSub.

Section Ref.
Variable V : bytes -> bool.
Variable mapfn : bytes -> stat -> mres * stat.
Hypothesis Hshape : map_keeps_shape mapfn.
Hypothesis Hdirs : map_never_drops_dirs mapfn.

Notation out n := (fst (fst n)).

Lemma keq_map p s : keq (snd (mapfn p s)) s.
Proof. exact (Hshape p s). Qed.

Lemma reference_rsub view : rsub keqe (reference V mapfn view) (walk_root view).
Proof. exact (reference_rsub_gen V mapfn keq Hshape view). Qed.

(* ---------- nothing is reported where no candidate is reached ---------- *)
Lemma ref_nof_forest kids : Forall (fun n => forall blocked dir,
    snd (fst (ref_node V mapfn blocked dir n)) = false -> out (ref_node V mapfn blocked dir n) = []) kids ->
  forall b p, snd (ref_forest V mapfn b p kids) = false -> fst (ref_forest V mapfn b p kids) = [].
Proof.
  induction kids as [|k r IH]; intros HF b p; [reflexivity|].
  inversion HF as [|? ? Hk Hr]; subst. cbn [ref_forest].
  specialize (Hk b p). destruct (ref_node V mapfn b p k) as [[e f] cut]. cbn [fst snd] in Hk.
  destruct cut; cbn [fst snd]; [exact Hk|].
  specialize (IH Hr b p). destruct (ref_forest V mapfn b p r) as [e' f']. cbn [fst snd] in *.
  intros E. apply orb_false_iff in E. destruct E as [-> ->]. rewrite Hk, IH by reflexivity. reflexivity.
Qed.

Lemma ref_nof_node : forall n blocked dir,
  snd (fst (ref_node V mapfn blocked dir n)) = false -> out (ref_node V mapfn blocked dir n) = [].
Proof.
  induction n as [name st ct kids IH] using node_ind2. intros blocked dir.
  rewrite ref_node_eq. cbv zeta. set (p := child_path dir name). set (st' := set_path st p).
  assert (Hb : forall b isd, snd (ref_below V mapfn b isd p kids) = false -> fst (ref_below V mapfn b isd p kids) = []).
  { intros b isd. unfold ref_below. destruct isd; [apply ref_nof_forest; auto|reflexivity]. }
  destruct (V p).
  - destruct (fst (mapfn p st')); cbn [fst snd]; auto. discriminate.
  - cbn [fst snd]. intros E. rewrite E. cbn [andb app]. apply Hb; auto.
Qed.

(* ---------- ancestor closure ---------- *)
Definition crel (dir : bytes) (e : list stat) : Prop :=
  forall s, In s e -> forall q r, st_path s = q ++ sep :: r ->
    (dir <> [] /\ (q = dir \/ exists r', dir = q ++ sep :: r')) \/
    (exists t, In t e /\ st_path t = q /\ st_is_dir t = true).

Lemma crel_nil dir : crel dir [].
Proof. intros s []. Qed.

Lemma crel_app dir a b : crel dir a -> crel dir b -> crel dir (a ++ b).
Proof.
  intros Ha Hb s Hin q r E. apply in_app_or in Hin. destruct Hin as [Hin|Hin].
  - destruct (Ha s Hin q r E) as [X|(t & Ht & X)]; [left; auto|right; exists t; split; auto; apply in_or_app; auto].
  - destruct (Hb s Hin q r E) as [X|(t & Ht & X)]; [left; auto|right; exists t; split; auto; apply in_or_app; auto].
Qed.

Lemma crel_forest kids : Forall (fun n => wf_strict_node n = true -> forall blocked dir,
    crel dir (out (ref_node V mapfn blocked dir n))) kids ->
  forallb wf_strict_node kids = true ->
  forall b p, crel p (fst (ref_forest V mapfn b p kids)).
Proof.
  induction kids as [|k r IH]; intros HF Hwf b p; [apply crel_nil|].
  inversion HF as [|? ? Hk Hr]; subst. cbn [forallb] in Hwf. apply andb_true_iff in Hwf. destruct Hwf as [Hw1 Hw2].
  cbn [ref_forest]. specialize (Hk Hw1 b p). destruct (ref_node V mapfn b p k) as [[e f] cut]. cbn [fst] in Hk.
  destruct cut; [exact Hk|].
  specialize (IH Hr Hw2 b p). destruct (ref_forest V mapfn b p r) as [e' f']. cbn [fst] in *.
  apply crel_app; auto.
Qed.

(* a directory entry followed by the (closed) listing of its contents *)
Lemma crel_dir_node dir name hd e : nosep name ->
  st_path hd = child_path dir name -> (e <> [] -> st_is_dir hd = true) ->
  crel (child_path dir name) e -> crel dir (hd :: e).
Proof.
  intros Hn Hp Hd He s Hin q r E. destruct Hin as [<-|Hin].
  - left. rewrite Hp in E. symmetry in E. eapply split_child; eauto.
  - destruct (He s Hin q r E) as [[Hne [->|(r' & Er')]]|(t & Ht & X)].
    + right. exists hd. split; [left; reflexivity|]. split; auto. apply Hd. intros ->. destruct Hin.
    + left. symmetry in Er'. eapply split_child; eauto.
    + right. exists t. split; [right|]; auto.
Qed.

Lemma crel_node : forall n, wf_strict_node n = true -> forall blocked dir,
  crel dir (out (ref_node V mapfn blocked dir n)).
Proof.
  induction n as [name st ct kids IH] using node_ind2. intros Hwf blocked dir.
  cbn [wf_strict_node] in Hwf. apply andb_true_iff in Hwf. destruct Hwf as [Hn Hk].
  apply name_ok_inv in Hn. destruct Hn as (Hne & Hns & _).
  rewrite ref_node_eq. cbv zeta. set (p := child_path dir name). set (st' := set_path st p).
  assert (Hb : forall b isd, crel p (fst (ref_below V mapfn b isd p kids))).
  { intros b isd. unfold ref_below. destruct isd; [apply crel_forest; auto|apply crel_nil]. }
  assert (Hbn : forall b, fst (ref_below V mapfn b (st_is_dir st) p kids) <> [] -> st_is_dir (snd (mapfn p st')) = true).
  { intros b Hx. unfold st_is_dir at 1. rewrite (proj1 (proj2 (keq_map p st'))).
    change (mode_is_dir (st_mode st')) with (st_is_dir st).
    unfold ref_below in Hx. destruct (st_is_dir st); [reflexivity|]. exfalso. apply Hx. reflexivity. }
  assert (Hpath : st_path (snd (mapfn p st')) = p) by (rewrite (proj1 (keq_map p st')); reflexivity).
  assert (Hexcl : fst (mapfn p st') = MExclude -> forall b, fst (ref_below V mapfn b (st_is_dir st) p kids) = []).
  { intros E b. unfold ref_below. destruct (st_is_dir st) eqn:Ed; [|reflexivity].
    exfalso. apply (Hdirs p st'); auto. }
  destruct (V p).
  - destruct (fst (mapfn p st')) eqn:Er; cbn [fst].
    + destruct blocked; cbn [app].
      * unfold ref_below. destruct (st_is_dir st); [rewrite ref_blocked_forest|]; apply crel_nil.
      * apply (crel_dir_node dir name); auto; apply Hbn.
    + rewrite Hexcl by auto. apply crel_nil.
    + apply crel_nil.
  - cbn [fst].
    destruct blocked.
    + cbn [orb negb andb]. rewrite andb_false_r. cbn [andb app].
      unfold ref_below. destruct (st_is_dir st); [rewrite ref_blocked_forest|]; apply crel_nil.
    + cbn [orb negb]. rewrite andb_true_r.
      destruct (fst (mapfn p st')) eqn:Er.
      * rewrite andb_true_r.
        destruct (snd (ref_below V mapfn false (st_is_dir st) p kids)) eqn:Ef; cbn [app].
        -- apply (crel_dir_node dir name); auto; apply Hbn.
        -- assert (X : fst (ref_below V mapfn false (st_is_dir st) p kids) = []).
           { unfold ref_below in *. destruct (st_is_dir st); [|reflexivity].
             apply ref_nof_forest; auto. apply Forall_forall. intros n _. apply ref_nof_node. }
           rewrite X. apply crel_nil.
      * rewrite andb_false_r. cbn [app]. rewrite Hexcl by auto. apply crel_nil.
      * rewrite andb_false_r. cbn [app].
        unfold ref_below. destruct (st_is_dir st); [rewrite ref_blocked_forest|]; apply crel_nil.
Qed.

Lemma reference_closed view : wf_strict view = true -> closed (reference V mapfn view).
Proof.
  intros Hwf s Hin q r E. unfold reference in Hin.
  assert (X : crel [] (fst (ref_forest V mapfn false [] view))).
  { apply crel_forest; auto. apply Forall_forall. intros n _. apply crel_node. }
  destruct (X s Hin q r E) as [[Hne _]|Y]; [congruence|exact Y].
Qed.

(* ---------- the reference of a well-formed source is a well-formed listing ---------- *)
Theorem reference_wf_listing view : wf_source view = true ->
  wf_listing (reference V mapfn view) /\
  (forall s, In s (reference V mapfn view) -> ok_path (st_path s) = true).
Proof.
  intros Hwf. pose proof (reference_rsub view) as Hsub. split; [split|].
  - unfold sorted.
    assert (X : StronglySorted (fun p q => compare_path p q = Lt) (map st_path (reference V mapfn view))).
    { eapply (rsub_sorted keqe _ st_path epath); [|exact Hsub|apply source_walk_sorted; auto].
      intros x y Hxy. exact (proj1 Hxy). }
    clear -X. induction (reference V mapfn view) as [|a l IH]; [constructor|].
    cbn [map] in X. apply StronglySorted_inv in X. destruct X as [X1 X2]. constructor; auto.
    rewrite Forall_map in X2. exact X2.
  - apply reference_closed. apply wf_source_strict; auto.
  - intros s Hin. destruct (rsub_in _ _ _ Hsub s Hin) as (e & He & Hk).
    rewrite (proj1 Hk). apply (source_walk_ok_paths view Hwf e He).
Qed.

End Ref.

(* ---------- a well-formed listing with clean paths passes the order validator ---------- *)
Lemma SS_app_inv {A} (R : A -> A -> Prop) a x b : StronglySorted R (a ++ x :: b) ->
  Forall (fun y => R y x) a /\ Forall (R x) b.
Proof.
  induction a as [|y a IH]; cbn [app]; intros H; apply StronglySorted_inv in H; destruct H as [H1 H2].
  - split; auto.
  - destruct (IH H1) as [Ha Hb]. split; auto. constructor; auto.
    rewrite Forall_forall in H2. apply H2. apply in_or_app. right. left. reflexivity.
Qed.

Lemma split_last_spec p d b : split_last p = Some (d, b) -> exists q, d = q ++ [sep] /\ p = q ++ sep :: b.
Proof.
  revert d b. induction p as [|a p IH]; intros d b H; [discriminate|].
  cbn [split_last] in H. destruct (split_last p) as [[d' b']|] eqn:E.
  - inversion H; subst. destruct (IH _ _ eq_refl) as (q & -> & ->). exists (a :: q). auto.
  - destruct (N.eqb a sep) eqn:Ea; [|discriminate]. apply N.eqb_eq in Ea. inversion H; subst.
    exists []. auto.
Qed.

Lemma parent_of_spec p : parent_of p = [] \/ exists b, p = parent_of p ++ sep :: b.
Proof.
  unfold parent_of. destruct (split_last p) as [[d b]|] eqn:E; [|left; reflexivity].
  destruct (split_last_spec _ _ _ E) as (q & -> & ->). right. exists b.
  rewrite removelast_last. reflexivity.
Qed.

Lemma items_app a b : items (a ++ b) = items a ++ items b.
Proof. apply map_app. Qed.

Lemma listing_spec_run l : forall pre i,
  sorted (pre ++ l) -> closed (pre ++ l) -> (forall s, In s l -> ok_path (st_path s) = true) ->
  spec_run (items pre) (items l) i = None.
Proof.
  induction l as [|s l IH]; intros pre i HS HC Hok; [reflexivity|].
  cbn [items map spec_run]. fold (items l).
  assert (Hs : spec_ok_b (items pre) (item_of s) = true).
  { unfold spec_ok_b. cbn [item_of vpath].
    destruct (SS_app_inv _ _ _ _ HS) as [Hbefore Hafter].
    rewrite (Hok s (or_introl eq_refl)). cbn [andb].
    apply andb_true_iff. split.
    - apply forallb_forall. intros it Hit. apply in_map_iff in Hit. destruct Hit as (t & <- & Ht).
      cbn [item_of vpath]. apply path_ltb_iff. rewrite Forall_forall in Hbefore. apply Hbefore; auto.
    - destruct (parent_of_spec (st_path s)) as [->|(b & Eb)]; [reflexivity|].
      apply orb_true_iff. right.
      destruct (HC s (in_or_app _ _ _ (or_intror (in_eq _ _))) _ _ Eb) as (t & Ht & Ept & Hdt).
      assert (Hlt : compare_path (st_path t) (st_path s) = Lt).
      { apply above_lt. unfold above, rm_of. rewrite Ept. rewrite Eb at 2.
        replace (parent_of (st_path s) ++ sep :: b) with ((parent_of (st_path s) ++ [sep]) ++ b)
          by (rewrite <- app_assoc; reflexivity).
        apply has_prefix_app_r. }
      apply existsb_exists. exists (item_of t). split.
      + apply in_map. apply in_app_or in Ht. destruct Ht as [Ht|[Ht|Ht]]; auto.
        * subst t. rewrite compare_path_refl in Hlt. discriminate.
        * exfalso. rewrite Forall_forall in Hafter. specialize (Hafter t Ht). unfold plt in Hafter.
          eapply compare_path_asym; eauto.
      + cbn [item_of vpath vkind visdir vdel]. rewrite Ept, bytes_eqb_refl, Hdt. reflexivity. }
  rewrite Hs.
  replace (items pre ++ [item_of s]) with (items (pre ++ [s])) by (rewrite items_app; reflexivity).
  apply IH.
  - rewrite <- app_assoc. exact HS.
  - rewrite <- app_assoc. exact HC.
  - intros t Ht. apply Hok. right; auto.
Qed.

Theorem listing_passes_validator l :
  wf_listing l -> (forall s, In s l -> ok_path (st_path s) = true) -> run_validator (items l) = None.
Proof.
  intros [HS HC] Hok. rewrite validator_accepts_iff_spec_proof. unfold spec_first_bad.
  apply (listing_spec_run l [] 0%nat); auto.
Qed.
