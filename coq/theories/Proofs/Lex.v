(* Generic lexicographic order on lists + its instances for byte strings (cmpb)
   and component lists (lex). *)
From Coq Require Import List NArith Lia Bool.
From FS Require Import Sx Model.Path.
Import ListNotations.

Section Lex.
Variable A : Type.
Variable cmp : A -> A -> comparison.
Hypothesis cmp_eq : forall a b, cmp a b = Eq <-> a = b.
Hypothesis cmp_opp : forall a b, cmp b a = CompOpp (cmp a b).
Hypothesis cmp_trans : forall a b c, cmp a b = Lt -> cmp b c = Lt -> cmp a c = Lt.

Fixpoint lcmp (x y : list A) : comparison :=
  match x, y with
  | [], [] => Eq | [], _ => Lt | _, [] => Gt
  | a :: x', b :: y' => match cmp a b with Eq => lcmp x' y' | c => c end
  end.

Lemma lcmp_eq x y : lcmp x y = Eq <-> x = y.
Proof.
  revert y; induction x as [|a x IH]; intros [|b y]; simpl; split; intros H; try discriminate; auto.
  - destruct (cmp a b) eqn:E; try discriminate. apply cmp_eq in E. apply IH in H. congruence.
  - inversion H; subst. assert (cmp b b = Eq) by (apply cmp_eq; auto). rewrite H0. apply IH; auto.
Qed.

Lemma lcmp_refl x : lcmp x x = Eq.
Proof. apply lcmp_eq; auto. Qed.

Lemma lcmp_opp x y : lcmp y x = CompOpp (lcmp x y).
Proof.
  revert y; induction x as [|a x IH]; intros [|b y]; simpl; auto.
  rewrite (cmp_opp a b). destruct (cmp a b); simpl; auto.
Qed.

Lemma lcmp_trans x y z : lcmp x y = Lt -> lcmp y z = Lt -> lcmp x z = Lt.
Proof.
  revert y z; induction x as [|a x IH]; intros [|b y] [|c z]; simpl; auto; try discriminate.
  destruct (cmp a b) eqn:E1; try discriminate; destruct (cmp b c) eqn:E2; try discriminate; intros H1 H2.
  - apply cmp_eq in E1, E2. subst. assert (cmp c c = Eq) by (apply cmp_eq; auto). rewrite H. eauto.
  - apply cmp_eq in E1. subst. rewrite E2. auto.
  - apply cmp_eq in E2. subst. rewrite E1. auto.
  - rewrite (cmp_trans _ _ _ E1 E2). auto.
Qed.

Lemma lcmp_app_same d a b : lcmp (d ++ a) (d ++ b) = lcmp a b.
Proof. induction d as [|c d IH]; simpl; auto. assert (cmp c c = Eq) by (apply cmp_eq; auto). rewrite H. auto. Qed.

Lemma lcmp_prefix_lt d x : x <> [] -> lcmp d (d ++ x) = Lt.
Proof. intros H. rewrite <- (app_nil_r d) at 1. rewrite lcmp_app_same. destruct x; [congruence|reflexivity]. Qed.

Lemma lcmp_between d b x : lcmp d x = Lt -> lcmp x (d ++ [b]) = Lt -> exists l y, x = d ++ l :: y /\ cmp l b = Lt.
Proof.
  revert x; induction d as [|a d IH]; intros x H1 H2.
  - destruct x as [|l y]; simpl in *; try discriminate. exists l, y. split; auto.
    destruct (cmp l b) eqn:E; auto; try discriminate. destruct y; discriminate.
  - destruct x as [|c x]; simpl in *; try discriminate.
    rewrite (cmp_opp a c) in H2. destruct (cmp a c) eqn:E; simpl in *; try discriminate.
    apply cmp_eq in E. subst c. destruct (IH x H1 H2) as (l & y & -> & Hl). exists l, y. auto.
Qed.

Lemma lcmp_lt_neq x y : lcmp x y = Lt -> x <> y.
Proof. intros H E. subst. rewrite lcmp_refl in H. discriminate. Qed.

Lemma lcmp_le_lt_trans x y z : lcmp x y <> Gt -> lcmp y z = Lt -> lcmp x z = Lt.
Proof.
  intros H1 H2. destruct (lcmp x y) eqn:E; try congruence.
  - apply lcmp_eq in E. subst. auto.
  - eapply lcmp_trans; eauto.
Qed.
End Lex.

Notation name := (list N) (only parsing).
Notation cpath := (list (list N)) (only parsing).

Definition cmpb : name -> name -> comparison := lcmp N N.compare.
Definition lex : cpath -> cpath -> comparison := lcmp name cmpb.
Lemma Ncmp_eq a b : N.compare a b = Eq <-> a = b. Proof. apply N.compare_eq_iff. Qed.
Lemma Ncmp_opp a b : N.compare b a = CompOpp (N.compare a b). Proof. apply N.compare_antisym. Qed.
Lemma Ncmp_trans a b c : N.compare a b = Lt -> N.compare b c = Lt -> N.compare a c = Lt.
Proof. rewrite !N.compare_lt_iff. apply N.lt_trans. Qed.

Lemma cmpb_eq a b : cmpb a b = Eq <-> a = b. Proof. apply lcmp_eq, Ncmp_eq. Qed.
Lemma cmpb_opp a b : cmpb b a = CompOpp (cmpb a b). Proof. apply lcmp_opp, Ncmp_opp. Qed.
Lemma cmpb_trans a b c : cmpb a b = Lt -> cmpb b c = Lt -> cmpb a c = Lt.
Proof. apply lcmp_trans; [apply Ncmp_eq|apply Ncmp_trans]. Qed.

Lemma lex_eq a b : lex a b = Eq <-> a = b. Proof. apply lcmp_eq, cmpb_eq. Qed.
Lemma lex_refl a : lex a a = Eq. Proof. apply lex_eq; auto. Qed.
Lemma lex_opp a b : lex b a = CompOpp (lex a b). Proof. apply lcmp_opp, cmpb_opp. Qed.
Lemma lex_trans a b c : lex a b = Lt -> lex b c = Lt -> lex a c = Lt.
Proof. apply lcmp_trans; [apply cmpb_eq|apply cmpb_trans]. Qed.
Lemma lex_app_same d a b : lex (d ++ a) (d ++ b) = lex a b. Proof. apply lcmp_app_same, cmpb_eq. Qed.
Lemma lex_prefix_lt d x : x <> [] -> lex d (d ++ x) = Lt. Proof. apply lcmp_prefix_lt, cmpb_eq. Qed.
Lemma lex_between d b x : lex d x = Lt -> lex x (d ++ [b]) = Lt -> exists l y, x = d ++ l :: y /\ cmpb l b = Lt.
Proof. apply lcmp_between; [apply cmpb_eq|apply cmpb_opp]. Qed.
Lemma lex_le_lt_trans x y z : lex x y <> Gt -> lex y z = Lt -> lex x z = Lt.
Proof. apply lcmp_le_lt_trans; [apply cmpb_eq|apply cmpb_trans]. Qed.

Lemma cmpb_is_cmp_bytes a b : cmpb a b = cmp_bytes a b.
Proof.
  revert b; induction a as [|x a IH]; intros [|y b]; simpl; auto.
  all: try (fold cmpb; rewrite IH; reflexivity).
Qed.

Lemma lex_is_lex_cmp a b : lex a b = lex_cmp a b.
Proof.
  revert b; induction a as [|x a IH]; intros [|y b]; simpl; auto.
  all: try (fold cmpb; fold lex; rewrite cmpb_is_cmp_bytes, IH; reflexivity).
Qed.

Lemma cmpb_refl a : cmpb a a = Eq. Proof. apply cmpb_eq; auto. Qed.

Lemma bytes_eqb_eq a b : bytes_eqb a b = true <-> a = b.
Proof.
  revert b; induction a as [|x a IH]; intros [|y b]; simpl; split; intros H; try discriminate; auto.
  - apply andb_true_iff in H. destruct H as [H1 H2]. apply N.eqb_eq in H1. apply IH in H2. congruence.
  - inversion H; subst. rewrite N.eqb_refl. simpl. apply IH. auto.
Qed.

Lemma bytes_eqb_refl a : bytes_eqb a a = true. Proof. apply bytes_eqb_eq; auto. Qed.

Lemma bytes_eqb_neq a b : bytes_eqb a b = false <-> a <> b.
Proof.
  split; intros H.
  - intros E. apply bytes_eqb_eq in E. congruence.
  - destruct (bytes_eqb a b) eqn:E; auto. apply bytes_eqb_eq in E. congruence.
Qed.
