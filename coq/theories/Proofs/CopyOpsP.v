(* C13 / C15 — the kernel operations of the copier model preserve the invariant [Inv]
   (CopierP.v), each with the change it makes to the expected view; the metadata phase
   (copyFileInfo + copyXAttrs) as one inode update; xattr merging; well-formed sources. *)
From Coq Require Import List NArith Bool Lia ZifyN ZifyNat ZifyBool.
From FS Require Import Sx Model.Path Model.SymMode Model.Copier Model.CopySpec Proofs.Lex Proofs.CopierP.
Import ListNotations.
Open Scope N_scope.
Open Scope bool_scope.

(* ------------------------------------------------------------------ xattrs *)
Fixpoint xsorted (l : list (list N * list N)) : Prop :=
  match l with
  | [] => True
  | a :: r => Forall (fun b => cmp_bytes (fst a) (fst b) = Lt) r /\ xsorted r
  end.

Lemma xcb_opp a b : cmp_bytes b a = CompOpp (cmp_bytes a b).
Proof. rewrite <- !cmpb_is_cmp_bytes. apply cmpb_opp. Qed.

Lemma xattr_set_last k v acc : Forall (fun a => cmp_bytes (fst a) k = Lt) acc ->
  xattr_set k v acc = acc ++ [(k, v)].
Proof.
  induction acc as [|[k' v'] r IH]; intro H; [reflexivity|].
  inversion H as [|? ? Hk Hr]; subst. simpl in Hk. simpl xattr_set.
  rewrite xcb_opp, Hk. simpl. rewrite IH; auto.
Qed.

Lemma merge_sorted l : forall acc,
  xsorted l -> (forall b, In b l -> Forall (fun a => cmp_bytes (fst a) (fst b) = Lt) acc) ->
  merge_xattrs l acc = acc ++ l.
Proof.
  unfold merge_xattrs.
  induction l as [|[k v] r IH]; intros acc Hs Hacc; simpl; [rewrite app_nil_r; auto|].
  destruct Hs as [Hh Hs].
  rewrite xattr_set_last by (apply (Hacc (k, v)); left; auto).
  rewrite IH; auto.
  - rewrite <- app_assoc. reflexivity.
  - intros b Hb. apply Forall_app. split; [apply Hacc; right; auto|].
    constructor; [|constructor]. simpl. rewrite Forall_forall in Hh. apply Hh; auto.
Qed.

Lemma merge_nil l : xsorted l -> merge_xattrs l [] = l.
Proof. intro H. rewrite merge_sorted; auto. Qed.

(* ------------------------------------------------------------------ xattr merging is idempotent *)
Definition xfound (k v : list N) (R : list (list N * list N)) : Prop :=
  exists P Q, R = P ++ (k, v) :: Q /\ Forall (fun a => cmp_bytes (fst a) k = Lt) P.

Lemma xcb_eq a b : cmp_bytes a b = Eq <-> a = b.
Proof. rewrite <- cmpb_is_cmp_bytes. apply cmpb_eq. Qed.
Lemma xcb_trans a b c : cmp_bytes a b = Lt -> cmp_bytes b c = Lt -> cmp_bytes a c = Lt.
Proof. rewrite <- !cmpb_is_cmp_bytes. apply cmpb_trans. Qed.

Lemma xattr_set_past k v P Q : Forall (fun a => cmp_bytes (fst a) k = Lt) P ->
  xattr_set k v (P ++ Q) = P ++ xattr_set k v Q.
Proof.
  induction P as [|[k' v'] P IH]; intro H; auto. inversion H as [|? ? Hk Hr]; subst. simpl in Hk.
  simpl. rewrite xcb_opp, Hk. simpl. rewrite IH; auto.
Qed.

Lemma xfound_set k v R : xfound k v (xattr_set k v R).
Proof.
  induction R as [|[k' v'] R IH]; simpl.
  - exists [], []. split; auto.
  - destruct (cmp_bytes k k') eqn:E.
    + exists [], R. split; auto.
    + exists [], ((k', v') :: R). split; auto.
    + destruct IH as (P & Q & E1 & E2). exists ((k', v') :: P), Q. rewrite E1. split; auto.
      constructor; auto. simpl. rewrite xcb_opp, E. auto.
Qed.

Lemma xfound_keep k v k' v' R : xfound k v R -> cmp_bytes k k' = Lt -> xfound k v (xattr_set k' v' R).
Proof.
  intros (P & Q & -> & HP) Hlt. exists P, (xattr_set k' v' Q). split; auto.
  rewrite xattr_set_past.
  - simpl. rewrite xcb_opp, Hlt. auto.
  - eapply Forall_impl; [|exact HP]. intros a Ha. simpl in Ha. apply (xcb_trans _ k _); auto.
Qed.

Lemma xfound_fix k v R : xfound k v R -> xattr_set k v R = R.
Proof.
  intros (P & Q & -> & HP). rewrite xattr_set_past by auto. simpl.
  assert (cmp_bytes k k = Eq) as -> by (apply xcb_eq; auto). auto.
Qed.

Lemma fold_keep k v l : Forall (fun b => cmp_bytes k (fst b) = Lt) l ->
  forall R, xfound k v R -> xfound k v (fold_left (fun l0 kv => xattr_set (fst kv) (snd kv) l0) l R).
Proof.
  induction l as [|[k2 v2] l IH]; intros H R HR; simpl; auto.
  inversion H as [|? ? H1 H2]; subst. simpl in H1. apply IH; auto. apply xfound_keep; auto.
Qed.

Lemma merge_found l : forall R, xsorted l -> (forall kv, In kv l -> xfound (fst kv) (snd kv) (merge_xattrs l R)).
Proof.
  unfold merge_xattrs. induction l as [|[k v] l IH]; intros R Hs kv Hin; [destruct Hin|].
  destruct Hs as [Hh Hs]. simpl fold_left. destruct Hin as [<-|Hin].
  - simpl. apply fold_keep; auto. apply xfound_set.
  - apply IH; auto.
Qed.

Lemma merge_fix l R : (forall kv, In kv l -> xfound (fst kv) (snd kv) R) -> merge_xattrs l R = R.
Proof.
  unfold merge_xattrs. induction l as [|[k v] l IH]; intro H; simpl; auto.
  rewrite (xfound_fix k v R) by (apply (H (k, v)); left; auto). apply IH. intros kv Hin. apply H. right; auto.
Qed.

Lemma merge_idem l R : xsorted l -> merge_xattrs l (merge_xattrs l R) = merge_xattrs l R.
Proof. intro Hs. apply merge_fix. apply merge_found; auto. Qed.
Lemma merge_self l : xsorted l -> merge_xattrs l l = l.
Proof. intro Hs. rewrite <- (merge_nil l Hs) at 2 3. apply merge_idem; auto. Qed.

(* ------------------------------------------------------------------ well-formed sources *)
Definition wf_dent (d : dent) : Prop :=
  ftype d <> 0 /\ (is_lnk d = true -> perm12 d = 511) /\ (is_lnk d = false -> d_target d = []) /\
  xsorted (d_xattrs d).

Fixpoint wf_s (n : snode) {struct n} : Prop :=
  match n with
  | SNode _ _ d kids =>
    wf_dent d /\ (is_dir d = false -> kids = []) /\ NoDup (map sname kids) /\
    (fix all (l : list snode) : Prop := match l with [] => True | k :: r => wf_s k /\ all r end) kids
  end.

Lemma wf_s_unfold nm ino d kids :
  wf_s (SNode nm ino d kids) <->
  wf_dent d /\ (is_dir d = false -> kids = []) /\ NoDup (map sname kids) /\ Forall wf_s kids.
Proof.
  simpl. assert (E : forall l, (fix all (l : list snode) : Prop := match l with [] => True | k :: r => wf_s k /\ all r end) l <-> Forall wf_s l).
  { induction l as [|k r IH]; split; intro H; auto.
    - destruct H. constructor; auto. apply IH; auto.
    - inversion H; subst. split; auto. apply IH; auto. }
  rewrite E. tauto.
Qed.

Lemma snode_ind2 (P : snode -> Prop) :
  (forall nm ino d kids, Forall P kids -> P (SNode nm ino d kids)) -> forall n, P n.
Proof.
  intros H. fix IH 1. intros [nm ino d kids]. apply H.
  induction kids as [|k r IHr]; constructor; [apply IH|exact IHr].
Qed.

Lemma find_kid_name a l k : find_kid a l = Some k -> sname k = a.
Proof.
  induction l as [|x r IH]; simpl; [discriminate|].
  destruct (bytes_eqb (sname x) a) eqn:E; auto. intro H. inversion H; subst. apply bytes_eqb_eq; auto.
Qed.
Lemma find_kid_in a l k : find_kid a l = Some k -> In k l.
Proof.
  induction l as [|x r IH]; simpl; [discriminate|].
  destruct (bytes_eqb (sname x) a); auto. intro H. inversion H; auto.
Qed.
Lemma find_kid_none a l : ~ In a (map sname l) -> find_kid a l = None.
Proof.
  induction l as [|x r IH]; simpl; auto. intro H.
  destruct (bytes_eqb (sname x) a) eqn:E; [apply bytes_eqb_eq in E; tauto|]. apply IH. tauto.
Qed.
Lemma find_kid_head k r : find_kid (sname k) (k :: r) = Some k.
Proof. simpl. rewrite bytes_eqb_refl. auto. Qed.

(* ------------------------------------------------------------------ kernel operations *)
Section Ops.
  Variable o : copts.
  Notation Inv := (Inv o).
  Notation touch := (touch o).

  Definition new_dent (umask : N) (pd : dent) (typ m12 rdev : N) (tg ct : list N) : dent :=
    let m := andnot (N.land m12 allBits) umask in
    let m' := if N.eqb typ S_IFDIR && has_sgid pd then N.lor m S_ISGID else m in
    {| d_mode := N.lor typ m'; d_uid := 0; d_gid := if has_sgid pd then d_gid pd else 0;
       d_mtime := NOW; d_rdev := rdev; d_target := tg; d_xattrs := []; d_content := ct |}.

  Lemma k_new_unfold umask p typ m12 rdev tg ct fs : p <> [] ->
    k_new umask p typ m12 rdev tg ct fs =
    match names fs p, lstat fs (parent p) with
    | None, Some pd => if is_dir pd then Some (touch_parent p (bind_new p (new_dent umask pd typ m12 rdev tg ct) fs)) else None
    | _, _ => None
    end.
  Proof. destruct p; [congruence|reflexivity]. Qed.

  Lemma touch_xupd_comm P T v X q : P <> T -> touch P (xupd T v X) q = xupd T v (touch P X) q.
  Proof.
    intro Hne. destruct (path_dec q P) as [->|H1].
    - rewrite touch_same, !xupd_other, touch_same; auto.
    - rewrite touch_other by auto. destruct (path_dec q T) as [->|H2].
      + rewrite !xupd_same; auto.
      + rewrite !xupd_other, touch_other; auto.
  Qed.

  Lemma upd_inode_eqv i f a b : fs_eqv a b -> fs_eqv (upd_inode i f a) (upd_inode i f b).
  Proof. intros [A B C]. split; simpl; auto. intro j. rewrite !B. auto. Qed.

  Lemma inv_k_new fs X P a umask typ m12 rdev tg ct :
    Inv fs X -> X (P ++ [a]) = None -> x_isdir (X P) = true ->
    exists fs' j,
      k_new umask (P ++ [a]) typ m12 rdev tg ct fs = Some fs' /\
      names fs P = Some j /\ is_dir (inodes fs j) = true /\
      names fs' (P ++ [a]) = Some (next fs) /\
      inodes fs' (next fs) = new_dent umask (inodes fs j) typ m12 rdev tg ct /\
      (forall q, names fs' q = Some (next fs) -> q = P ++ [a]) /\
      (forall q, q <> P ++ [a] -> names fs' q = names fs q) /\
      (forall e, dm o (new_dent umask (inodes fs j) typ m12 rdev tg ct) e ->
                 (x_key e = KNew (P ++ [a]) \/ exists s, x_key e = KSrc s) ->
                 Inv fs' (xupd (P ++ [a]) (Some e) (touch P X))).
  Proof.
    intros I HT HP. set (T := P ++ [a]).
    destruct (inv_x_isdir _ _ _ _ I HP) as (j & Hj & Hd).
    assert (HnT : names fs T = None) by (eapply inv_x_none; eauto).
    assert (HPT : P <> T) by (unfold T; intro E; symmetry in E; revert E; apply snoc_ne_self).
    assert (Hjn : j < next fs) by (eapply (i_lt _ _ _ I); eauto).
    set (d := new_dent umask (inodes fs j) typ m12 rdev tg ct).
    exists (upd_inode j (set_mtime NOW) (bind_new T d fs)), j.
    assert (HnP : names (bind_new T d fs) P = Some j).
    { simpl. apply path_eqb_neq in HPT. rewrite HPT. auto. }
    split.
    { rewrite k_new_unfold by apply snoc_ne_nil. fold T. rewrite HnT. unfold lstat. unfold T at 1.
      rewrite parent_snoc, Hj, Hd. fold T d. unfold T at 1. rewrite touch_parent_snoc. fold T. rewrite HnP. auto. }
    split; auto. split; auto.
    split. { simpl. rewrite path_eqb_refl. auto. }
    split. { simpl. rewrite N.eqb_refl. assert (N.eqb (next fs) j = false) as -> by (apply N.eqb_neq; lia). auto. }
    split. { simpl. intros q. destruct (path_eqb q T) eqn:E; [intros _; apply path_eqb_eq; auto|].
             intro H. apply (i_lt _ _ _ I) in H. lia. }
    split. { simpl. intros q Hq. apply path_eqb_neq in Hq. rewrite Hq. auto. }
    intros e Hm Hk.
    assert (I1 : Inv (bind_new T d fs) (xupd T (Some e) X)) by (eapply inv_bind; eauto).
    eapply Inv_ext; [|eapply inv_touch; eauto].
    - intro q. symmetry. apply touch_xupd_comm; auto.
    - simpl. assert (N.eqb j (next fs) = false) as -> by (apply N.eqb_neq; lia). auto.
  Qed.

  Lemma is_prefix_snoc_self P a : is_prefix (P ++ [a]) P = false.
  Proof. rewrite is_prefix_strip, strip_snoc_self. auto. Qed.

  Lemma xrm_touch_comm P a X q : touch P (xrm (P ++ [a]) X) q = xrm (P ++ [a]) (touch P X) q.
  Proof.
    destruct (path_dec q P) as [->|H].
    - rewrite touch_same. unfold xrm. rewrite is_prefix_snoc_self, touch_same. auto.
    - rewrite touch_other by auto. unfold xrm. rewrite touch_other by auto. auto.
  Qed.

  (* unlink(2) of a non-directory and RemoveAll both leave: everything at and below T gone, parent touched *)
  Lemma inv_k_unlink fs X P a e :
    Inv fs X -> X (P ++ [a]) = Some e -> is_dir (x_d e) = false -> x_isdir (X P) = true ->
    exists fs', k_unlink (P ++ [a]) fs = Some fs' /\ Inv fs' (touch P (xrm (P ++ [a]) X)) /\
                (forall q, names fs' q = if is_prefix (P ++ [a]) q then None else names fs q).
  Proof.
    intros I HT Hnd HP.
    destruct (inv_x_isdir _ _ _ _ I HP) as (j & Hj & Hd).
    destruct (inv_x_some _ _ _ _ _ I HT) as (i & Hi & Hm & _).
    assert (Hdi : is_dir (inodes fs i) = false) by (rewrite (dm_is_dir _ _ _ Hm); auto).
    assert (HPT : path_eqb P (P ++ [a]) = false).
    { apply path_eqb_neq. intro E; symmetry in E; revert E; apply snoc_ne_self. }
    exists (upd_inode j (set_mtime NOW) (set_name (P ++ [a]) None fs)). split.
    - unfold k_unlink, lstat. rewrite Hi, Hdi. rewrite touch_parent_snoc. simpl names.
      rewrite HPT, Hj. auto.
    - split.
      + eapply Inv_fs_ext; [apply fs_eqv_sym, upd_inode_eqv; eapply set_name_none_eqv; eauto|].
        eapply inv_touch; [apply inv_unbind; eauto| |]; simpl.
        * rewrite is_prefix_snoc_self. auto.
        * auto.
      + intro q. simpl names. apply (fe_names _ _ (set_name_none_eqv o _ _ _ _ I Hi Hdi)).
  Qed.

  Lemma inv_k_remove_all fs X P a e :
    Inv fs X -> X (P ++ [a]) = Some e -> x_isdir (X P) = true ->
    Inv (k_remove_all (P ++ [a]) fs) (touch P (xrm (P ++ [a]) X)).
  Proof.
    intros I HT HP.
    destruct (inv_x_isdir _ _ _ _ I HP) as (j & Hj & Hd).
    destruct (inv_x_some _ _ _ _ _ I HT) as (i & Hi & _).
    unfold k_remove_all. rewrite Hi.
    change {| names := fun q => if is_prefix (P ++ [a]) q then None else names fs q; inodes := inodes fs; next := next fs; dom := dom fs |}
      with (unbind (P ++ [a]) fs (dom fs)).
    rewrite touch_parent_snoc. simpl names. rewrite is_prefix_snoc_self, Hj.
    eapply inv_touch; [apply inv_unbind; eauto| |]; simpl; auto.
    rewrite is_prefix_snoc_self. auto.
  Qed.

  Lemma k_remove_all_names fs T q : names fs T <> None ->
    names (k_remove_all T fs) q = if is_prefix T q then None else names fs q.
  Proof.
    intro H. unfold k_remove_all. destruct (names fs T) eqn:E; [|congruence].
    assert (Htp : forall fs1 p, names (touch_parent p fs1) q = names fs1 q).
    { intros fs1 p. unfold touch_parent. destruct p; auto. destruct (names fs1 (parent (l :: p))); auto. }
    rewrite Htp. reflexivity.
  Qed.

  (* link(2): a second name for a non-directory inode none of whose names carries a per-path key *)
  Lemma inv_k_link fs X P a l id e :
    Inv fs X -> X (P ++ [a]) = None -> x_isdir (X P) = true ->
    names fs l = Some id -> is_dir (inodes fs id) = false -> dm o (inodes fs id) e ->
    (exists s, x_key e = KSrc s) ->
    (forall p e0, names fs p = Some id -> X p = Some e0 -> exists s, x_key e0 = KSrc s) ->
    exists fs', k_link l (P ++ [a]) fs = Some fs' /\
      (forall q, names fs' q = if path_eqb q (P ++ [a]) then Some id else names fs q) /\
      Inv fs' (xupd (P ++ [a]) (Some e) (touch P X)).
  Proof.
    intros I HT HP Hl Hnd Hm (s0 & Hk) Hsrc. set (T := P ++ [a]) in *.
    destruct (inv_x_isdir _ _ _ _ I HP) as (j & Hj & Hd).
    assert (HnT : names fs T = None) by (eapply inv_x_none; eauto).
    assert (HPT : path_eqb P T = false).
    { apply path_eqb_neq. unfold T. intro E; symmetry in E; revert E; apply snoc_ne_self. }
    exists (upd_inode j (set_mtime NOW) (set_name T (Some id) fs)).
    split.
    { unfold k_link. destruct T as [|t0 T0] eqn:ET; [exfalso; eapply snoc_ne_nil; eauto|]. rewrite <- ET in *.
      rewrite Hl, HnT. unfold lstat. unfold T at 1. rewrite parent_snoc, Hj, Hd, Hnd. cbn [andb negb].
      unfold T at 1. rewrite touch_parent_snoc. simpl names. rewrite HPT, Hj. rewrite ET. auto. }
    split; [intro q; reflexivity|].
    assert (I1 : Inv (set_name T (Some id) fs) (xupd T (Some e) X)).
    { assert (Hnm : forall p i, names (set_name T (Some id) fs) p = Some i ->
                      (p = T /\ i = id) \/ (p <> T /\ names fs p = Some i)).
      { intros p i. simpl. destruct (path_eqb p T) eqn:E.
        - apply path_eqb_eq in E. intro H. inversion H. auto.
        - apply path_eqb_neq in E. auto. }
      split.
      - intros p i H. simpl next. destruct (Hnm _ _ H) as [[_ ->]|[_ H1]]; eapply (i_lt _ _ _ I); eauto.
      - intros p b i H. destruct (Hnm _ _ H) as [[E _]|[Hne H1]].
        + unfold T in E. apply app_inj_tail in E as [-> ->]. exists j. simpl. rewrite HPT. auto.
        + destruct (i_par _ _ _ I _ _ _ H1) as (k & K1 & K2). exists k. simpl.
          assert (path_eqb p T = false) as ->; auto.
          apply path_eqb_neq. intro; subst p. congruence.
      - intros p q i H1 H2 H3. simpl inodes in H3.
        destruct (Hnm _ _ H1) as [[-> ->]|[Hp H1']]; destruct (Hnm _ _ H2) as [[E2 E3]|[Hq H2']]; subst; auto; try congruence.
        eapply (i_diru _ _ _ I); eauto.
      - intros p. simpl. destruct (path_eqb p T) eqn:E; [discriminate|]. intro H.
        apply path_eqb_neq in E. rewrite xupd_other; auto. apply (i_none _ _ _ I); auto.
      - intros p i H. destruct (Hnm _ _ H) as [[-> ->]|[Hp H1]].
        + exists e. rewrite xupd_same. split; [auto|split; [auto|]]. rewrite Hk. exact Logic.I.
        + destruct (i_some _ _ _ I _ _ H1) as (e0 & E1 & E2 & E3). exists e0. rewrite xupd_other by auto.
          split; [auto|split; [auto|]].
          destruct (x_key e0) eqn:Ek0; simpl in *; auto. destruct E3 as [E3 E4]. split; auto.
          intros p' H'. destruct (Hnm _ _ H') as [[-> ->]|[_ H2]]; auto.
          destruct (Hsrc _ _ H1 E1) as (s1 & Hs1). congruence. }
    eapply Inv_ext; [|eapply inv_touch; eauto].
    - intro q. symmetry. apply touch_xupd_comm. apply path_eqb_neq; auto.
    - simpl. rewrite HPT. auto.
  Qed.

  (* ---- metadata phase ---- *)
  Variable ms : option (list bitcmd).

  Definition finfo (sd d : dent) : dent :=
    let d1 := set_owner (fst (info_owner o sd)) (snd (info_owner o sd)) d in
    let d2 := if is_lnk sd then d1 else set_perm (info_mode o ms sd) d1 in
    let d3 := set_mtime (info_time o sd) d2 in
    set_xattrs (merge_xattrs (d_xattrs sd) (d_xattrs d3)) d3.

  Lemma ftype_finfo sd d : ftype (finfo sd d) = ftype d.
  Proof.
    unfold finfo. rewrite ftype_set_xattrs, ftype_set_mtime. destruct (is_lnk sd); auto.
    rewrite ftype_set_perm. auto.
  Qed.

  Lemma upd_path_some fs p i f : names fs p = Some i -> upd_path p f fs = Some (upd_inode i f fs).
  Proof. unfold upd_path. intros ->. auto. Qed.

  Lemma meta_phase sd T st i :
    names (c_fs st) T = Some i ->
    exists fs', (s5 <~ copy_file_info o ms sd T st ;; copy_xattrs sd T s5) = (with_fs st fs', None) /\
                fs_eqv fs' (upd_inode i (finfo sd) (c_fs st)).
  Proof.
    intros H. unfold copy_file_info, copy_xattrs, copy_file_timestamp.
    destruct (info_owner o sd) as [u g] eqn:Eo.
    rewrite (upd_path_some _ _ _ _ H). cbn [sys bind ok with_fs c_fs].
    destruct (is_lnk sd) eqn:El.
    - cbn [bind ok]. cbn [c_fs with_fs]. rewrite (upd_path_some _ _ i) by (simpl; auto).
      cbn [sys bind ok with_fs c_fs]. rewrite (upd_path_some _ _ i) by (simpl; auto).
      cbn [sys bind ok with_fs c_fs]. eexists. split; [reflexivity|].
      split; simpl; auto. intro j. unfold finfo. rewrite El, Eo. simpl fst; simpl snd.
      destruct (N.eqb j i); auto.
    - rewrite (upd_path_some _ _ i) by (simpl; auto).
      cbn [sys bind ok with_fs c_fs]. rewrite (upd_path_some _ _ i) by (simpl; auto).
      cbn [sys bind ok with_fs c_fs]. rewrite (upd_path_some _ _ i) by (simpl; auto).
      cbn [sys bind ok with_fs c_fs]. eexists. split; [reflexivity|].
      split; simpl; auto. intro j. unfold finfo. rewrite El, Eo. simpl fst; simpl snd.
      destruct (N.eqb j i); auto.
  Qed.

  Lemma time_phase sd T st i :
    names (c_fs st) T = Some i ->
    copy_file_timestamp o sd T st = (with_fs st (upd_inode i (set_mtime (info_time o sd)) (c_fs st)), None).
  Proof. intros H. unfold copy_file_timestamp. rewrite (upd_path_some _ _ _ _ H). reflexivity. Qed.
End Ops.
