(* fs.go: the IsDir method of StatInfo (the os.FileInfo view of a types.Stat handed to archive/tar's
   FileInfoHeader and to change callbacks), as translated from /repo on this run, is the model's st_is_dir (Mode().IsDir()). *)
From Coq Require Import NArith.
From FS Require Import Model.Stat Src.Prims.
From FSGen Require SrcFns.

Theorem StatInfo_IsDir_src_eq : forall s, SrcFns.StatInfo_IsDir s = st_is_dir (SrcFns.StatInfo_Stat s).
Proof. intros s. reflexivity. Qed.
