(* fs.go: the Size method of StatInfo (the os.FileInfo view of a types.Stat handed to archive/tar's
   FileInfoHeader and to change callbacks), as translated from /repo on this run, is Stat.Size (int64, two's complement). *)
From Coq Require Import NArith.
From FS Require Import Model.Stat Src.Prims.
From FSGen Require SrcFns.

Theorem StatInfo_Size_src_eq : forall s, SrcFns.StatInfo_Size s = st_size (SrcFns.StatInfo_Stat s).
Proof. intros s. reflexivity. Qed.
