(* diff_containerd.go pathChange, as translated from /repo on this run (nil pointers = None; the
   ChangeKind iota constants read from the source; the call of ComparePath through its own translation),
   is the case distinction of the merge step of the hand model Diff.diff_loop:
     only upper -> add upper; only lower -> delete lower; both -> by compare_path: Lt delete lower,
     Gt add upper, Eq modify upper;  both nil -> panic (no result), which diff_loop never asks for.
   [diff_loop_step] restates the model's loop through that case distinction. *)
From Coq Require Import List NArith ZArith Bool Lia.
From FS Require Import Sx Model.Path Model.Stat Model.Diff Src.Prims.
From FS Require Proofs.Src.ComparePathEq.
From FSGen Require SrcFns.
Import ListNotations.

Definition kind_code (k : ckind) : Z := match k with KAdd => 0 | KModify => 1 | KDelete => 2 end.

Definition merge_step (pa pb : option bytes) : option (ckind * bytes) :=
  match pa, pb with
  | None, None => None
  | None, Some b => Some (KAdd, b)
  | Some a, None => Some (KDelete, a)
  | Some a, Some b =>
    Some (match compare_path a b with Lt => (KDelete, a) | Gt => (KAdd, b) | Eq => (KModify, b) end)
  end.

Theorem pathChange_src_eq : forall lo up,
  SrcFns.pathChange lo up =
  option_map (fun kp => (kind_code (fst kp), snd kp))
             (merge_step (option_map SrcFns.currentPath_path lo) (option_map SrcFns.currentPath_path up)).
Proof.
  intros [lo|] [up|]; cbn [SrcFns.pathChange option_map merge_step]; try reflexivity.
  pose proof (ComparePathEq.ComparePath_src_eq (SrcFns.currentPath_path lo) (SrcFns.currentPath_path up)) as H.
  destruct (SrcFns.ComparePath (SrcFns.currentPath_path lo) (SrcFns.currentPath_path up)) as [i|]; [|discriminate].
  cbn [option_map] in H. injection H as H. unfold ComparePathEq.sign in H. rewrite <- H.
  destruct (Z.compare_spec i 0) as [E|E|E]; cbn [fst snd kind_code].
  - subst. reflexivity.
  - destruct (Z.ltb_spec i 0); [reflexivity|lia].
  - destruct (Z.ltb_spec i 0); [lia|]. destruct (Z.ltb_spec 0 i); [reflexivity|lia].
Qed.

(* the same statement with the case distinction written out *)
Corollary pathChange_src_eq_cases : forall lo up,
  SrcFns.pathChange lo up =
  match option_map SrcFns.currentPath_path lo, option_map SrcFns.currentPath_path up with
  | None, None => None
  | None, Some b => Some (kind_code KAdd, b)
  | Some a, None => Some (kind_code KDelete, a)
  | Some a, Some b =>
    Some (match compare_path a b with
          | Lt => (kind_code KDelete, a)
          | Gt => (kind_code KAdd, b)
          | Eq => (kind_code KModify, b)
          end)
  end.
Proof.
  intros lo up. rewrite pathChange_src_eq.
  destruct lo, up; cbn; try reflexivity. destruct (compare_path _ _); reflexivity.
Qed.

(* the model's merge loop, read through the same case distinction on the heads of the two listings *)
Lemma diff_loop_step : forall flt d f rm A B,
  diff_loop flt d (S f) rm A B =
  match merge_step (option_map st_path (hd_error A)) (option_map st_path (hd_error B)), A, B with
  | None, _, _ => Some []
  | Some (KAdd, _), _, b :: B' => let '(o, r) := step_add b in emit o (diff_loop flt d f r A B')
  | Some (KDelete, _), a :: A', _ => let '(o, r) := step_del rm a in emit o (diff_loop flt d f r A' B)
  | Some (KModify, _), a :: A', b :: B' => let '(o, r) := step_mod flt d a b in emit o (diff_loop flt d f r A' B')
  | _, _, _ => Some []
  end.
Proof.
  intros flt d f rm [|a A] [|b B]; cbn [diff_loop hd_error option_map merge_step]; try reflexivity.
  destruct (compare_path (st_path a) (st_path b)); reflexivity.
Qed.
