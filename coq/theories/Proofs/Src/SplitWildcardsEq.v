(* copy/copy.go splitWildcards, as translated from /repo on this run (strings.Split, filepath.Join with
   the meanings of Src/Prims.v, bridged to Path.comps / Path.clean in PrimsP; the call of containsWildcards
   through its own translation), computes exactly what the copy model's resolve_wild computes:
   components of Clean(p) ("" for an empty p, an empty component standing for "/"), split before the
   first wildcard component by the escape-aware Copier.split_wild_e, each half joined and cleaned ("" for an
   empty half) — for ALL p; on backslash-free p that is the escape-free split_wild (corollary). *)
From Coq Require Import List NArith ZArith Bool Lia.
From FS Require Import Sx Model.Path Src.Prims Proofs.Src.PrimsP.
From FS Require Model.Copier Proofs.Src.CopyContainsWildcardsEq.
From FSGen Require SrcFns.
Import ListNotations.

Definition fixc (c : bytes) : bytes := match c with [] => [sep] | _ => c end.
Definition comps0 (p : bytes) : list bytes := match p with [] => [[]] | _ => comps (clean p) end.
Definition jn (l : list bytes) : bytes := match l with [] => [] | _ => clean (joinc l) end.
Definition no_bsl (c : bytes) : bool := negb (existsb (N.eqb Copier.ch_bsl) c).

Lemma has_wild_e_fixc : forall c, Copier.has_wild_e (fixc c) = Copier.has_wild_e c.
Proof. destruct c; reflexivity. Qed.

Lemma loop_found : forall l p1 p2,
  SrcFns.splitWildcards_loop1 l p1 p2 true = Done (p1, p2 ++ map fixc l, true).
Proof.
  induction l as [|c l IH]; intros p1 p2.
  - cbn. now rewrite app_nil_r.
  - cbn [SrcFns.splitWildcards_loop1 map].
    rewrite CopyContainsWildcardsEq.copy_containsWildcards_src_eq.
    cbn [negb andb]. destruct c as [|x c]; cbn [Prims.bytes_eqb fixc negb];
      rewrite IH; rewrite <- app_assoc; reflexivity.
Qed.

Lemma loop_spec : forall l p1 p2,
  exists f, SrcFns.splitWildcards_loop1 l p1 p2 false =
            Done (p1 ++ fst (Copier.split_wild_e (map fixc l)), p2 ++ snd (Copier.split_wild_e (map fixc l)), f).
Proof.
  induction l as [|c l IH]; intros p1 p2.
  - exists false. cbn. now rewrite !app_nil_r.
  - cbn [SrcFns.splitWildcards_loop1 map Copier.split_wild_e].
    rewrite CopyContainsWildcardsEq.copy_containsWildcards_src_eq.
    rewrite has_wild_e_fixc. cbn [negb andb].
    destruct (Copier.has_wild_e c) eqn:Hw.
    + (* first wildcard component: everything from here on goes to p2 *)
      exists true. cbn [fst snd]. rewrite app_nil_r.
      destruct c as [|x c]; cbn [Prims.bytes_eqb fixc negb];
        rewrite loop_found; rewrite <- app_assoc; reflexivity.
    + destruct (IH (p1 ++ [fixc c]) p2) as [f Hf]. exists f.
      destruct (Copier.split_wild_e (map fixc l)) as [a b] eqn:E. cbn [fst snd] in *.
      destruct c as [|x c]; cbn [Prims.bytes_eqb fixc negb] in *; refine (eq_trans Hf _); rewrite <- app_assoc; reflexivity.
Qed.

Lemma split_wild_e_nonempty : forall cs, forallb nonempty_b cs = true ->
  forallb nonempty_b (fst (Copier.split_wild_e cs)) = true /\ forallb nonempty_b (snd (Copier.split_wild_e cs)) = true.
Proof.
  induction cs as [|c cs IH]; intros H; [split; reflexivity|].
  cbn [Copier.split_wild_e]. destruct (Copier.has_wild_e c).
  - split; [reflexivity|exact H].
  - cbn [forallb] in H. apply andb_true_iff in H. destruct H as [Hc Hl]. destruct (IH Hl) as [Ha Hb].
    destruct (Copier.split_wild_e cs) as [a b]. cbn [fst snd forallb] in *. now rewrite Hc, Ha.
Qed.

Lemma map_fixc_nonempty : forall l, forallb nonempty_b (map fixc l) = true.
Proof. induction l as [|c l IH]; [reflexivity|]. cbn [map forallb]. rewrite IH. destruct c; reflexivity. Qed.

(* for ALL inputs: the escape-aware split of the copy model's resolve_wild *)
Theorem splitWildcards_src_eq : forall p,
  SrcFns.splitWildcards p =
  Some (jn (fst (Copier.split_wild_e (map fixc (comps0 p)))), jn (snd (Copier.split_wild_e (map fixc (comps0 p))))).
Proof.
  intros p. unfold SrcFns.splitWildcards. cbv zeta.
  assert (Hparts : Prims.strings_Split (Prims.filepath_Join [p]) [Prims.filepath_Separator] = comps0 p).
  { rewrite strings_Split_sep. unfold comps0, Prims.filepath_Join. destruct p; [reflexivity|].
    cbn [filter Prims.clean_joinc]. rewrite filepath_Clean_bridge. reflexivity. }
  rewrite Hparts.
  destruct (loop_spec (comps0 p) [] []) as [f Hf]. rewrite Hf. cbn [app].
  destruct (split_wild_e_nonempty (map fixc (comps0 p)) (map_fixc_nonempty _)) as [Ha Hb].
  rewrite !filepath_Join_nonempty by assumption. reflexivity.
Qed.

(* the earlier statement (escape-free split_wild on the backslash-free domain) as a corollary *)
From FS Require Proofs.CopyWildP.
Corollary splitWildcards_backslash_free : forall p,
  forallb no_bsl (comps0 p) = true ->
  SrcFns.splitWildcards p =
  Some (jn (fst (Copier.split_wild (map fixc (comps0 p)))), jn (snd (Copier.split_wild (map fixc (comps0 p))))).
Proof.
  intros p H. rewrite splitWildcards_src_eq.
  rewrite (CopyWildP.split_wild_e_plain (map fixc (comps0 p))); [reflexivity|].
  rewrite forallb_forall in *. intros c Hc. apply in_map_iff in Hc. destruct Hc as [c0 [<- Hc0]].
  specialize (H c0 Hc0). unfold no_bsl in H. destruct c0; [reflexivity|exact H].
Qed.
