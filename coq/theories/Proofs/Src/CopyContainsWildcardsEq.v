(* copy/copy.go containsWildcards (a separate copy of the followlinks.go function), as translated from /repo on
   this run (Linux: runtime.GOOS = "linux"): its loop never runs out of fuel and, for ALL inputs, it computes
   the copy model's escape-aware has_wild_e (a byte after a backslash is skipped); on backslash-free inputs that is
   the escape-free has_wild (corollary, through CopyWildP.has_wild_e_plain). *)
From Coq Require Import List NArith ZArith Bool Lia.
From FS Require Import Sx Model.FollowLinks Src.Prims.
From FS Require Model.Copier.
From FSGen Require SrcFns.
Import ListNotations.

Lemma idx_at : forall pre a p n, n = length pre -> Prims.idx (pre ++ a :: p) (Z.of_nat n) = a.
Proof.
  intros pre a p n ->. unfold Prims.idx.
  destruct (Z.ltb_spec (Z.of_nat (length pre)) 0); [lia|].
  rewrite Nat2Z.id. rewrite app_nth2 by lia. rewrite Nat.sub_diag. reflexivity.
Qed.

Lemma len_app : forall a b, Prims.len (a ++ b) = (Prims.len a + Prims.len b)%Z.
Proof. intros. unfold Prims.len. rewrite app_length. lia. Qed.

(* past the end (a trailing backslash makes i = len + 1): the loop stops *)
Lemma loop_past_end : forall fuel name w i,
  (Prims.len name <= i)%Z -> exists j, SrcFns.copy_containsWildcards_loop1 (S fuel) name w i = Done j.
Proof.
  intros fuel name w i H. cbn [SrcFns.copy_containsWildcards_loop1].
  destruct (Z.ltb_spec i (Prims.len name)); [lia|]. now exists i.
Qed.

Lemma loop_spec : forall n s pre fuel,
  (length s <= n)%nat -> (fuel > length s)%nat ->
  match SrcFns.copy_containsWildcards_loop1 fuel (pre ++ s) false (Z.of_nat (length pre)) with
  | OutOfFuel => False
  | Ret r => r = true /\ contains_wildcards s = true
  | Done _ => contains_wildcards s = false
  end.
Proof.
  induction n as [|n IH]; intros s pre fuel Hn Hf.
  - destruct s; [|cbn in Hn; lia]. destruct fuel; [lia|].
    destruct (loop_past_end fuel (pre ++ []) false (Z.of_nat (length pre))) as [j ->]; [|reflexivity].
    rewrite app_nil_r. unfold Prims.len. lia.
  - destruct s as [|ch r].
    + destruct fuel; [lia|].
      destruct (loop_past_end fuel (pre ++ []) false (Z.of_nat (length pre))) as [j ->]; [|reflexivity].
      rewrite app_nil_r. unfold Prims.len. lia.
    + destruct fuel as [|fuel]; [lia|]. cbn [length] in Hn, Hf.
      cbn [SrcFns.copy_containsWildcards_loop1].
      match goal with |- context [Z.ltb ?x ?y] => destruct (Z.ltb_spec x y) as [Hlt|Hge] end.
      2:{ rewrite len_app in Hge. unfold Prims.len in Hge. cbn [length] in Hge. lia. }
      rewrite idx_at by reflexivity. cbn [contains_wildcards negb]. rewrite andb_true_r.
      destruct (N.eqb ch 92).
      * (* backslash: skip the next byte *)
        replace (Z.of_nat (length pre) + 1 + 1)%Z with (Z.of_nat (length pre + 2)) by lia.
        destruct r as [|c r'].
        -- destruct fuel; [cbn in Hf; lia|].
           destruct (loop_past_end fuel (pre ++ [ch]) false (Z.of_nat (length pre + 2))) as [j ->]; [|reflexivity].
           rewrite len_app. unfold Prims.len. cbn [length]. lia.
        -- specialize (IH r' (pre ++ [ch; c]) fuel).
           rewrite <- app_assoc in IH. cbn [app] in IH. rewrite app_length in IH. cbn [length] in IH, Hn, Hf.
           apply IH; lia.
      * destruct (N.eqb ch 42 || N.eqb ch 63 || N.eqb ch 91).
        -- split; reflexivity.
        -- replace (Z.of_nat (length pre) + 1)%Z with (Z.of_nat (length pre + 1)) by lia.
           specialize (IH r (pre ++ [ch]) fuel).
           rewrite <- app_assoc in IH. cbn [app] in IH. rewrite app_length in IH. cbn [length] in IH.
           apply IH; lia.
Qed.

Theorem copy_containsWildcards_scan :
  forall s, SrcFns.copy_containsWildcards s = Some (contains_wildcards s).
Proof.
  intros s. unfold SrcFns.copy_containsWildcards.
  match goal with |- context [Prims.bytes_eqb Prims.runtime_GOOS ?w] =>
    change (Prims.bytes_eqb Prims.runtime_GOOS w) with false end.
  cbv zeta.
  pose proof (loop_spec (length s) s [] (S (Z.to_nat (Prims.len s - 0))) (le_n _)) as H.
  cbn [app length] in H. change (Z.of_nat 0) with 0%Z in H.
  destruct (SrcFns.copy_containsWildcards_loop1 _ s false 0%Z) as [|r|i].
  - exfalso. apply H. unfold Prims.len. lia.
  - destruct H as [-> ->]; [unfold Prims.len; lia|]. reflexivity.
  - rewrite H by (unfold Prims.len; lia). reflexivity.
Qed.

(* the escape-aware scan of the copy model is that same function *)
Lemma scan_is_has_wild_e : forall c, contains_wildcards c = Copier.has_wild_e c.
Proof.
  assert (H : forall n c, (length c <= n)%nat -> contains_wildcards c = Copier.has_wild_e c).
  { induction n as [|n IH]; intros c Hn.
    - destruct c; [reflexivity|cbn in Hn; lia].
    - destruct c as [|x c]; [reflexivity|]. cbn [contains_wildcards Copier.has_wild_e]. cbn [length] in Hn.
      unfold Copier.ch_bsl, Copier.ch_star, Copier.ch_qm, Copier.ch_lbr.
      destruct (N.eqb x 92).
      + destruct c as [|y c]; [reflexivity|]. apply IH. cbn [length] in Hn. lia.
      + destruct (N.eqb x 42 || N.eqb x 63 || N.eqb x 91); [reflexivity|]. apply IH. lia. }
  intros c. apply (H (length c)). lia.
Qed.

(* for ALL inputs: the copy model's escape-aware has_wild_e *)
Theorem copy_containsWildcards_src_eq :
  forall c, SrcFns.copy_containsWildcards c = Some (Copier.has_wild_e c).
Proof. intros c. rewrite copy_containsWildcards_scan, scan_is_has_wild_e. reflexivity. Qed.

(* the earlier statement (escape-free has_wild on the backslash-free domain) as a corollary *)
From FS Require Proofs.CopyWildP.
Corollary copy_containsWildcards_backslash_free :
  forall c, existsb (N.eqb Copier.ch_bsl) c = false ->
    SrcFns.copy_containsWildcards c = Some (Copier.has_wild c).
Proof. intros c H. rewrite copy_containsWildcards_src_eq, (CopyWildP.has_wild_e_plain c H). reflexivity. Qed.
