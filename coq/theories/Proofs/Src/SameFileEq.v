(* diff_containerd.go sameFile, as translated from /repo on this run, equals the hand model
   Diff.same_file for the two differs the model covers (DiffMetadata = 0, DiffNone = 1: the values of
   the iota group in receive.go, read by the translator), whatever compareFileContent does; and for
   every other differ value (DiffContent) it is the metadata comparison followed, only when that one
   says "same", by compareFileContent on the two paths.  The error result is always nil unless
   compareFileContent returns one. *)
From Coq Require Import List NArith ZArith Bool.
From FS Require Import Sx Model.Stat Model.Diff Src.Prims Proofs.Src.PrimsP.
From FS Require Proofs.Src.CompareStatEq Proofs.Src.StatIsDirEq.
From FSGen Require SrcFns.
Import ListNotations.

Definition differ_code (d : differ) : Z := match d with DMetadata => 0%Z | DNone => 1%Z end.

Theorem sameFile_src_eq :
  forall cmp f1 f2 d,
    SrcFns.sameFile cmp f1 f2 (differ_code d) =
    (same_file d (SrcFns.currentPath_stat f1) (SrcFns.currentPath_stat f2), None).
Proof.
  intros cmp f1 f2 d. unfold SrcFns.sameFile.
  rewrite StatIsDirEq.Stat_IsDir_src_eq, !CompareStatEq.compareStat_src_eq.
  destruct d; cbn [differ_code same_file Z.eqb Pos.eqb err_is_nil negb orb].
  - rewrite !orb_true_r.
    destruct (negb (st_is_dir (SrcFns.currentPath_stat f1)));
      repeat match goal with |- context [if ?c then _ else _] => destruct c end; reflexivity.
  - reflexivity.
Qed.

(* DiffContent (any other value): metadata first, then the content comparison *)
Theorem sameFile_content_src_eq :
  forall cmp f1 f2 z, z <> 0%Z -> z <> 1%Z ->
    SrcFns.sameFile cmp f1 f2 z =
    if same_file DMetadata (SrcFns.currentPath_stat f1) (SrcFns.currentPath_stat f2)
    then cmp (SrcFns.currentPath_path f1) (SrcFns.currentPath_path f2)
    else (false, None).
Proof.
  intros cmp f1 f2 z H0 H1. unfold SrcFns.sameFile.
  rewrite StatIsDirEq.Stat_IsDir_src_eq, !CompareStatEq.compareStat_src_eq.
  apply Z.eqb_neq in H0. apply Z.eqb_neq in H1. rewrite H0, H1.
  cbn [same_file err_is_nil negb orb]. rewrite !orb_false_r.
  destruct (compare_stat (SrcFns.currentPath_stat f1) (SrcFns.currentPath_stat f2));
  destruct (st_is_dir (SrcFns.currentPath_stat f1));
  destruct (N.eqb (st_size (SrcFns.currentPath_stat f1)) (st_size (SrcFns.currentPath_stat f2)));
  destruct (N.eqb (st_mtime (SrcFns.currentPath_stat f1)) (st_mtime (SrcFns.currentPath_stat f2)));
  reflexivity.
Qed.
