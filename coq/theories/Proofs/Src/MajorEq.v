(* stat_unix.go major, as translated from /repo on this run, is the kernel's new_decode_dev major
   (Model/DevNum.v), for every uint64 (indeed every natural number). *)
From Coq Require Import NArith.
From FS Require Import Model.DevNum.
From FSGen Require SrcFns.
Open Scope N_scope.

Theorem major_src_eq : forall d, SrcFns.major d = dev_major d.
Proof.
  intros d. unfold SrcFns.major, dev_major.
  change 4095 with (N.ones 12). rewrite N.land_ones, N.shiftr_div_pow2. reflexivity.
Qed.
