(* types/stat.go: the IsDir method of Stat (pointer receiver), as translated from /repo on this run, equals the hand model Stat.st_is_dir. *)
From Coq Require Import List NArith ZArith Bool.
From FS Require Import Sx Model.Stat Src.Prims.
From FSGen Require SrcFns.

Theorem Stat_IsDir_src_eq : forall s, SrcFns.Stat_IsDir s = st_is_dir s.
Proof. intros s. reflexivity. Qed.
