(* fs.go: the Mode method of StatInfo (the os.FileInfo view of a types.Stat handed to archive/tar's
   FileInfoHeader and to change callbacks), as translated from /repo on this run, is os.FileMode(Stat.Mode). *)
From Coq Require Import NArith.
From FS Require Import Model.Stat Src.Prims.
From FSGen Require SrcFns.

Theorem StatInfo_Mode_src_eq : forall s, SrcFns.StatInfo_Mode s = st_mode (SrcFns.StatInfo_Stat s).
Proof. intros s. reflexivity. Qed.
