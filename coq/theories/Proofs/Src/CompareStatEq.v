(* diff_containerd.go compareStat, as translated from /repo on this run, equals the hand model
   Diff.compare_stat (the six compared fields, in any order of evaluation) and never returns an error. *)
From Coq Require Import List NArith ZArith Bool.
From FS Require Import Sx Model.Stat Model.Diff Src.Prims Proofs.Src.PrimsP.
From FSGen Require SrcFns.
Import ListNotations.

Theorem compareStat_src_eq :
  forall a b, SrcFns.compareStat a b = (compare_stat a b, None).
Proof.
  intros a b. unfold SrcFns.compareStat, compare_stat. rewrite bytes_eqb_bridge. reflexivity.
Qed.
