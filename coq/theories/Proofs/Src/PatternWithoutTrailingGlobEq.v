(* filter.go patternWithoutTrailingGlob, as translated from /repo on this run, equals the hand model
   Pattern.without_trailing_glob (a pattern being represented by its String()). *)
From Coq Require Import List NArith ZArith Bool.
From FS Require Import Sx Model.Path Model.Pattern Src.Prims Proofs.Src.PrimsP.
From FSGen Require SrcFns.
Import ListNotations.

Theorem patternWithoutTrailingGlob_src_eq :
  forall p, SrcFns.patternWithoutTrailingGlob p = without_trailing_glob p.
Proof.
  intros p. unfold SrcFns.patternWithoutTrailingGlob, without_trailing_glob, Prims.Pattern_String.
  rewrite !trim_suffix_bridge, bytes_eqb_bridge. reflexivity.
Qed.
