(* stat_unix.go minor, as translated from /repo on this run, is the kernel's new_decode_dev minor
   (Model/DevNum.v) for every device number that fits the kernel's 32-bit encoding, and in general
   the arithmetic formula dev mod 256 + ((dev / 2^20) mod 2^12) * 256. *)
From Coq Require Import NArith Lia.
From FS Require Import Model.DevNum.
From FSGen Require SrcFns.
Open Scope N_scope.

Lemma land_shiftl_r : forall a b n, N.land a (N.shiftl b n) = N.shiftl (N.land (N.shiftr a n) b) n.
Proof.
  intros a b n. apply N.bits_inj. intros m. rewrite N.land_spec.
  destruct (N.lt_ge_cases m n) as [H|H].
  - rewrite !N.shiftl_spec_low by exact H. apply Bool.andb_false_r.
  - rewrite !N.shiftl_spec_high' by exact H. rewrite N.land_spec, N.shiftr_spec'.
    replace (m - n + n) with m by lia. reflexivity.
Qed.

Lemma lor_low_high : forall x y, x < 256 -> N.lor x (N.shiftl y 8) = x + y * 256.
Proof.
  intros x y Hx. rewrite N.shiftl_mul_pow2. change (2 ^ 8) with 256.
  rewrite <- N.lxor_lor, <- N.add_nocarry_lxor; try reflexivity.
  all: apply N.bits_inj; intros m; rewrite N.land_spec, N.bits_0;
    destruct (N.lt_ge_cases m 8) as [H|H].
  all: try (change 256 with (2 ^ 8); rewrite N.mul_pow2_bits_low by exact H; apply Bool.andb_false_r).
  all: replace x with (x mod 2 ^ 8) by (apply N.mod_small; exact Hx);
       rewrite N.mod_pow2_bits_high by exact H; reflexivity.
Qed.

Theorem minor_src_eq : forall d, SrcFns.minor d = dev_minor d.
Proof.
  intros d. unfold SrcFns.minor, dev_minor.
  change 1048320 with (N.shiftl (N.ones 12) 8). change 255 with (N.ones 8).
  rewrite land_shiftl_r, N.shiftr_shiftr, !N.land_ones, N.shiftr_div_pow2.
  change (2 ^ 8) with 256. change (2 ^ (12 + 8)) with 1048576. change (2 ^ 12) with 4096.
  apply lor_low_high. apply N.mod_lt. discriminate.
Qed.
