(* hardlinks.go, method HandleChange of Hardlinks (pointer receiver) — the receiver's hard-link validator — as
   translated from /repo on this run into a state transformer (the map[string]struct{} seenFiles as the list of the
   keys stored so far: only membership is observable; the type assertion fi.Sys().( *types.Stat ) as the Sys field
   of the FileInfo record), equals one step of the hand model Model/Hardlinks.v (hl_step) when the FileInfo is
   the StatInfo view of the stat (IsDir/Mode as computed by the translated StatInfo methods) and p is its path;
   deletions and changes without stat info behave as the Go text says; folded over a listing it is hl_run. *)
From Coq Require Import List NArith ZArith Bool Lia.
From FS Require Import Sx Model.Path Model.Stat Model.Hardlinks Src.Prims.
From FSGen Require SrcFns.
Import ListNotations.

Definition mkh (seen : list (list N)) : SrcFns.Hardlinks := {| SrcFns.Hardlinks_seenFiles := seen |}.

(* the os.FileInfo the receiver hands over: &StatInfo{stat} *)
Definition statinfo_fi (s : stat) : Prims.FileInfo stat :=
  {| Prims.fi_IsDir := SrcFns.StatInfo_IsDir {| SrcFns.StatInfo_Stat := s |};
     Prims.fi_Mode := SrcFns.StatInfo_Mode {| SrcFns.StatInfo_Stat := s |};
     Prims.fi_Sys := Some s |}.

Lemma set_mem_bridge : forall k m, Prims.set_mem k m = mem_bytes k m.
Proof. intros k m. induction m as [|x m IH]; [reflexivity|]. cbn [Prims.set_mem existsb mem_bytes]. fold (Prims.set_mem k m). now rewrite IH. Qed.

Lemma has_link_bridge : forall s, (0 <? Prims.len (st_linkname s))%Z = has_link s.
Proof. intros s. unfold has_link, Prims.len. destruct (st_linkname s); reflexivity. Qed.

Lemma plain_bridge : forall s,
  (Prims.fi_IsDir (statinfo_fi s) || negb (N.eqb (N.land (Prims.fi_Mode (statinfo_fi s)) Prims.os_ModeSymlink) 0))%bool
  = negb (hl_plain s).
Proof.
  intros s. unfold hl_plain. cbn [statinfo_fi Prims.fi_IsDir Prims.fi_Mode].
  change (SrcFns.StatInfo_IsDir {| SrcFns.StatInfo_Stat := s |}) with (mode_is_dir (st_mode s)).
  change (SrcFns.StatInfo_Mode {| SrcFns.StatInfo_Stat := s |}) with (st_mode s).
  change (negb (N.eqb (N.land (st_mode s) Prims.os_ModeSymlink) 0)) with (mode_is_symlink (st_mode s)).
  destruct (mode_is_dir (st_mode s)), (mode_is_symlink (st_mode s)); reflexivity.
Qed.

Theorem Hardlinks_HandleChange_src_eq : forall v kind s, kind <> 2%Z ->
  SrcFns.Hardlinks_HandleChange v kind (st_path s) (statinfo_fi s) None =
  match hl_step (SrcFns.Hardlinks_seenFiles v) s with
  | Some seen' => (mkh seen', None)
  | None => (mkh (SrcFns.Hardlinks_seenFiles v), Prims.some_error)
  end.
Proof.
  intros [seen] kind s Hk. unfold SrcFns.Hardlinks_HandleChange, hl_step. cbn [SrcFns.Hardlinks_seenFiles Prims.err_is_nil negb].
  apply Z.eqb_neq in Hk. rewrite Hk.
  change (Prims.fi_Sys (statinfo_fi s)) with (Some s).
  rewrite !plain_bridge, !has_link_bridge, !set_mem_bridge.
  destruct seen as [|x seen]; cbn [Prims.map_is_nil];
    destruct (negb (hl_plain s)); try reflexivity;
    destruct (has_link s); try reflexivity;
    destruct (mem_bytes (st_linkname s) _); reflexivity.
Qed.

(* deletions are accepted without a look at fi; an incoming error is handed back; a change without stat info is rejected *)
Theorem Hardlinks_HandleChange_other : forall v p fi,
  SrcFns.Hardlinks_HandleChange v 2 p fi None = (mkh (SrcFns.Hardlinks_seenFiles v), None) /\
  (forall m kind, SrcFns.Hardlinks_HandleChange v kind p fi (Some m) = (v, Some m)) /\
  (forall kind, kind <> 2%Z -> Prims.fi_Sys fi = None ->
     SrcFns.Hardlinks_HandleChange v kind p fi None = (mkh (SrcFns.Hardlinks_seenFiles v), Prims.some_error)).
Proof.
  intros [seen] p fi. repeat split.
  - unfold SrcFns.Hardlinks_HandleChange. cbn. destruct seen; reflexivity.
  - intros kind Hk Hs. unfold SrcFns.Hardlinks_HandleChange. cbn [SrcFns.Hardlinks_seenFiles Prims.err_is_nil negb].
    apply Z.eqb_neq in Hk. rewrite Hk, Hs. destruct seen; reflexivity.
Qed.

(* the translated method folded over a listing of added/modified entries: index of the first rejected one *)
Fixpoint run_hl (v : SrcFns.Hardlinks) (l : list stat) (i : nat) : option nat :=
  match l with
  | [] => None
  | s :: r =>
    match SrcFns.Hardlinks_HandleChange v 0 (st_path s) (statinfo_fi s) None with
    | (v', None) => run_hl v' r (S i)
    | (_, Some _) => Some i
    end
  end.

Lemma run_hl_gen : forall l v i, run_hl v l i = hl_run (SrcFns.Hardlinks_seenFiles v) l i.
Proof.
  induction l as [|s r IH]; intros v i; [reflexivity|]. cbn [run_hl hl_run].
  rewrite Hardlinks_HandleChange_src_eq by discriminate.
  destruct (hl_step (SrcFns.Hardlinks_seenFiles v) s) as [seen'|]; [|reflexivity]. apply IH.
Qed.

Theorem run_hl_is_hardlink_check : forall l, run_hl SrcFns.Hardlinks_zero l 0 = hardlink_check l.
Proof. intros l. apply run_hl_gen. Qed.

(* C11's reset_links_valid, for the translated validator *)
From FS Require Proofs.HardlinksP.
Corollary translated_reset_links_valid :
  forall l, wf_links l = true -> run_hl SrcFns.Hardlinks_zero (hardlink_reset l) 0 = None.
Proof. intros l H. rewrite run_hl_is_hardlink_check. apply HardlinksP.reset_links_valid_proof. exact H. Qed.
