(* followlinks.go dedupePaths (two nested range loops, `continue loop` from the inner one), as translated
   from /repo on this run, equals the hand model FollowLinks.dedupe_paths.  Go's nil slice (returned when
   "." is met) and the empty slice are both the empty list in the translation; the model's None is that nil. *)
From Coq Require Import List NArith ZArith Bool Lia.
From FS Require Import Sx Model.Path Model.FollowLinks Src.Prims Proofs.Src.PrimsP.
From FSGen Require SrcFns.
Import ListNotations.

Lemma existsb_snoc {A} (f : A -> bool) l x : existsb f (l ++ [x]) = existsb f l || f x.
Proof. rewrite existsb_app. cbn. now rewrite orb_false_r. Qed.

Lemma existsb_rev {A} (f : A -> bool) l : existsb f (rev l) = existsb f l.
Proof.
  induction l as [|a l IH]; [reflexivity|]. cbn [rev existsb]. rewrite existsb_snoc, IH. apply orb_comm.
Qed.

Lemma inner_spec : forall s out,
  SrcFns.dedupePaths_loop2 s out =
  if existsb (fun o => inside o s) out then Ret NLCont else Done tt.
Proof.
  intros s out. induction out as [|o out IH]; [reflexivity|].
  cbn [SrcFns.dedupePaths_loop2 existsb]. rewrite has_prefix_bridge.
  change [47%N] with [sep]. unfold inside at 1.
  destruct (has_prefix (o ++ [sep]) s); [reflexivity|]. exact IH.
Qed.

Lemma outer_spec : forall l out,
  SrcFns.dedupePaths_loop1 l out =
  match dedupe_from (rev out) l with
  | None => Ret []
  | Some res => Done (out ++ res)
  end.
Proof.
  induction l as [|s l IH]; intros out.
  - cbn. now rewrite app_nil_r.
  - cbn [SrcFns.dedupePaths_loop1 dedupe_from]. rewrite bytes_eqb_bridge.
    change [46%N] with s_dot.
    destruct (Sx.bytes_eqb s s_dot); [reflexivity|].
    rewrite inner_spec, existsb_rev.
    destruct (existsb (fun o => inside o s) out).
    + apply IH.
    + rewrite IH. rewrite rev_app_distr. cbn [rev app].
      destruct (dedupe_from (s :: rev out) l); cbn [option_map]; [|reflexivity].
      now rewrite <- app_assoc.
Qed.

Theorem dedupePaths_src_eq :
  forall l, SrcFns.dedupePaths l = Some (match dedupe_paths l with Some r => r | None => [] end).
Proof.
  intros l. unfold SrcFns.dedupePaths, dedupe_paths. cbv zeta. rewrite outer_spec. cbn [rev].
  destruct (dedupe_from [] l); reflexivity.
Qed.
