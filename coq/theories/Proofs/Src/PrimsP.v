(* Bridges between the translator's trusted primitives (Src/Prims.v, self-contained) and the
   helper functions the hand models use for the same Go library calls.  Independent of gen/SrcFns.v. *)
From Coq Require Import List NArith ZArith Bool Lia.
From FS Require Import Sx Model.Path Model.Pattern Src.Prims Proofs.Lex Proofs.PatternP.
Import ListNotations.

Lemma bytes_eqb_bridge : forall a b, Prims.bytes_eqb a b = Sx.bytes_eqb a b.
Proof. induction a as [|x a IH]; destruct b; cbn; try reflexivity; try now rewrite IH. Qed.

(* strings.HasPrefix(s, pre): the models' has_prefix takes the prefix first *)
Lemma has_prefix_bridge : forall pre s, Prims.strings_HasPrefix s pre = has_prefix pre s.
Proof. induction pre as [|a pre IH]; destruct s; cbn; try reflexivity; try now rewrite IH. Qed.

Lemma prims_has_prefix_iff : forall pre s, Prims.strings_HasPrefix s pre = true <-> exists r, s = pre ++ r.
Proof. intros. rewrite has_prefix_bridge. apply PatternP.has_prefix_iff. Qed.

Lemma has_suffix_iff : forall suf s, Prims.strings_HasSuffix s suf = true <-> exists pre, s = pre ++ suf.
Proof.
  intros suf s. unfold Prims.strings_HasSuffix. rewrite prims_has_prefix_iff. split.
  - intros [r H]. exists (rev r). apply (f_equal (@rev N)) in H. rewrite rev_involutive, rev_app_distr, rev_involutive in H. exact H.
  - intros [pre H]. exists (rev pre). subst. now rewrite rev_app_distr.
Qed.

(* strings.TrimSuffix *)
Lemma trim_suffix_bridge : forall s suf, Prims.strings_TrimSuffix s suf = Pattern.trim_suffix s suf.
Proof.
  intros s suf. unfold Prims.strings_TrimSuffix, Pattern.trim_suffix.
  destruct (strip_suffix suf s) as [pre|] eqn:E.
  - apply strip_suffix_spec in E. subst s.
    replace (Prims.strings_HasSuffix (pre ++ suf) suf) with true by (symmetry; apply has_suffix_iff; now exists pre).
    rewrite app_length. replace (length pre + length suf - length suf)%nat with (length pre + 0)%nat by lia.
    rewrite firstn_app_2. cbn. now rewrite app_nil_r.
  - destruct (Prims.strings_HasSuffix s suf) eqn:H; [|reflexivity].
    apply has_suffix_iff in H. destruct H as [pre H].
    apply (proj1 (strip_suffix_none suf s)) with (pre := pre) in E. contradiction.
Qed.
