(* Bridges between the translator's trusted primitives (Src/Prims.v, self-contained) and the
   helper functions the hand models use for the same Go library calls.  Independent of gen/SrcFns.v. *)
From Coq Require Import List NArith ZArith Bool Lia.
From FS Require Import Sx Model.Path Model.Pattern Src.Prims Proofs.Lex Proofs.PatternP.
Import ListNotations.

Lemma bytes_eqb_bridge : forall a b, Prims.bytes_eqb a b = Sx.bytes_eqb a b.
Proof. induction a as [|x a IH]; destruct b; cbn; try reflexivity; try now rewrite IH. Qed.

(* strings.HasPrefix(s, pre): the models' has_prefix takes the prefix first *)
Lemma has_prefix_bridge : forall pre s, Prims.strings_HasPrefix s pre = has_prefix pre s.
Proof. induction pre as [|a pre IH]; destruct s; cbn; try reflexivity; try now rewrite IH. Qed.

Lemma prims_has_prefix_iff : forall pre s, Prims.strings_HasPrefix s pre = true <-> exists r, s = pre ++ r.
Proof. intros. rewrite has_prefix_bridge. apply PatternP.has_prefix_iff. Qed.

Lemma has_suffix_iff : forall suf s, Prims.strings_HasSuffix s suf = true <-> exists pre, s = pre ++ suf.
Proof.
  intros suf s. unfold Prims.strings_HasSuffix. rewrite prims_has_prefix_iff. split.
  - intros [r H]. exists (rev r). apply (f_equal (@rev N)) in H. rewrite rev_involutive, rev_app_distr, rev_involutive in H. exact H.
  - intros [pre H]. exists (rev pre). subst. now rewrite rev_app_distr.
Qed.

(* strings.TrimSuffix *)
Lemma trim_suffix_bridge : forall s suf, Prims.strings_TrimSuffix s suf = Pattern.trim_suffix s suf.
Proof.
  intros s suf. unfold Prims.strings_TrimSuffix, Pattern.trim_suffix.
  destruct (strip_suffix suf s) as [pre|] eqn:E.
  - apply strip_suffix_spec in E. subst s.
    replace (Prims.strings_HasSuffix (pre ++ suf) suf) with true by (symmetry; apply has_suffix_iff; now exists pre).
    rewrite app_length. replace (length pre + length suf - length suf)%nat with (length pre + 0)%nat by lia.
    rewrite firstn_app_2. cbn. now rewrite app_nil_r.
  - destruct (Prims.strings_HasSuffix s suf) eqn:H; [|reflexivity].
    apply has_suffix_iff in H. destruct H as [pre H].
    apply (proj1 (strip_suffix_none suf s)) with (pre := pre) in E. contradiction.
Qed.

(* ---- filepath.Clean / Join, strings.Split with the separator ---- *)
Lemma clean_comps_bridge : forall p, Prims.clean_comps p = comps p.
Proof. intros p. reflexivity. Qed.

Lemma clean_joinc_bridge : forall cs, Prims.clean_joinc cs = joinc cs.
Proof. intros cs. reflexivity. Qed.

Lemma clean_step_bridge : forall r stk c, Prims.clean_step r stk c = cstep r stk c.
Proof.
  intros r stk c. reflexivity.
Qed.

Lemma filepath_Clean_bridge : forall p, Prims.filepath_Clean p = clean p.
Proof. intros p. reflexivity. Qed.

Lemma has_prefix_nil : forall s, Prims.strings_HasPrefix s [] = true.
Proof. destruct s; reflexivity. Qed.

Lemma split_fuel_sep : forall n s, (length s <= n)%nat -> Prims.split_fuel n s [Prims.filepath_Separator] = comps s.
Proof.
  induction n as [|n IH]; intros s H.
  - destruct s; [reflexivity|cbn in H; lia].
  - destruct s as [|a s]; [reflexivity|]. cbn [Prims.split_fuel Prims.strings_HasPrefix comps length skipn].
    rewrite has_prefix_nil, andb_true_r. unfold Prims.filepath_Separator at 1. fold sep. rewrite N.eqb_sym.
    cbn [length] in H. destruct (N.eqb a sep).
    + rewrite IH by lia. reflexivity.
    + rewrite IH by lia. destruct (comps s); reflexivity.
Qed.

Lemma strings_Split_sep : forall s, Prims.strings_Split s [Prims.filepath_Separator] = comps s.
Proof. intros s. unfold Prims.strings_Split. apply split_fuel_sep. lia. Qed.

Definition nonempty_b (e : list N) : bool := match e with [] => false | _ => true end.

Lemma filepath_Join_nonempty : forall l, forallb nonempty_b l = true ->
  Prims.filepath_Join l = match l with [] => [] | _ => clean (joinc l) end.
Proof.
  intros l H. unfold Prims.filepath_Join.
  replace (filter (fun e => match e with [] => false | _ => true end) l) with l.
  - destruct l; [reflexivity|]. rewrite filepath_Clean_bridge, clean_joinc_bridge. reflexivity.
  - induction l as [|e l IH]; [reflexivity|]. cbn [forallb] in H. apply andb_true_iff in H. destruct H as [He Hl].
    cbn [filter]. destruct e; [discriminate|]. rewrite <- IH by exact Hl. reflexivity.
Qed.
