(* fs.go: the ModTime method of StatInfo, as translated from /repo on this run — the pair (sec, nsec)
   handed to time.Unix, computed with Go's truncating / and % on the signed int64 — denotes exactly the
   instant Stat.ModTime nanoseconds after the epoch, which is what Model/TarHdr.v (h_mtime, round_ns)
   and the C05 notification model take a FileInfo's time to be.  Moreover nsec is a proper remainder
   (|nsec| < 1e9, sign of the dividend), for every int64. *)
From Coq Require Import NArith ZArith Lia.
From FS Require Import Model.Stat Model.TarHdr Src.Prims.
From FSGen Require SrcFns.

Lemma sint64_is_sint : forall n, (n < 18446744073709551616)%N -> Prims.sint64 n = sint n.
Proof.
  intros n H. unfold Prims.sint64, Prims.u_to_int, Prims.wrap, sint, two63, two64.
  change (2 ^ 64)%N with 18446744073709551616%N. rewrite N.mod_small by exact H.
  destruct (N.ltb_spec n 9223372036854775808); destruct (Z.ltb_spec (Z.of_N n) 9223372036854775808); lia.
Qed.

Lemma sint64_range : forall n, (- 9223372036854775808 <= Prims.sint64 n < 9223372036854775808)%Z.
Proof.
  intros n. unfold Prims.sint64, Prims.u_to_int, Prims.wrap. change (2 ^ 64)%N with 18446744073709551616%N.
  pose proof (N.mod_upper_bound n 18446744073709551616 ltac:(discriminate)) as H.
  set (r := (n mod 18446744073709551616)%N) in *.
  destruct (Z.ltb_spec (Z.of_N r) 9223372036854775808); lia.
Qed.

Lemma sint64_of_sint64 : forall z, (- 9223372036854775808 <= z < 9223372036854775808)%Z ->
  Prims.sint64 (Prims.of_sint64 z) = z.
Proof.
  intros z H. unfold Prims.sint64, Prims.u_to_int, Prims.of_sint64, Prims.wrap.
  change (2 ^ 64)%N with 18446744073709551616%N.
  pose proof (Z.mod_pos_bound z 18446744073709551616 ltac:(lia)) as Hm.
  rewrite N.mod_small by lia. rewrite Z2N.id by lia.
  destruct (Z.ltb_spec (z mod 18446744073709551616) 9223372036854775808) as [Hl|Hl].
  - destruct (Z.le_gt_cases 0 z); [rewrite Z.mod_small in * by lia; lia|].
    replace z with (z + 18446744073709551616 - 1 * 18446744073709551616)%Z in Hl by lia.
    rewrite Zminus_mod, Z_mod_mult, Z.sub_0_r, Zmod_mod, Z.mod_small in Hl by lia. lia.
  - destruct (Z.le_gt_cases 0 z); [rewrite Z.mod_small in * by lia; lia|].
    replace z with (z + 18446744073709551616 - 1 * 18446744073709551616)%Z at 1 by lia.
    rewrite Zminus_mod, Z_mod_mult, Z.sub_0_r, Zmod_mod, Z.mod_small by lia. lia.
Qed.

Theorem StatInfo_ModTime_src_eq : forall s,
  let t := SrcFns.StatInfo_ModTime s in
  let m := Prims.sint64 (st_mtime (SrcFns.StatInfo_Stat s)) in
  Prims.time_ns t = m /\
  (Z.abs (Prims.sint64 (snd t)) < 1000000000)%Z /\ (0 <= Prims.sint64 (snd t) * m)%Z.
Proof.
  intros s t m. unfold t, SrcFns.StatInfo_ModTime, Prims.time_Unix, Prims.time_ns, Prims.i64_quot, Prims.i64_rem.
  cbn [fst snd]. fold m.
  change (Prims.sint64 1000000000) with 1000000000%Z.
  pose proof (sint64_range (st_mtime (SrcFns.StatInfo_Stat s))) as Hr. fold m in Hr.
  pose proof (Z.quot_rem' m 1000000000) as Hqr.
  pose proof (Z.rem_bound_abs m 1000000000) as Hb.
  assert (Hrem : (Z.abs (Z.rem m 1000000000) < 1000000000)%Z).
  { specialize (Hb ltac:(lia)). lia. }
  assert (Hsign : (0 <= Z.rem m 1000000000 * m)%Z) by (apply Z.rem_sign_mul; lia).
  assert (Hq : (Z.abs (Z.quot m 1000000000) <= Z.abs m)%Z).
  { rewrite <- Z.quot_abs by lia. apply Z.quot_le_upper_bound; lia. }
  rewrite !sint64_of_sint64 by lia. repeat split; lia.
Qed.

(* the same, in the vocabulary of Model/TarHdr.v, for a field value as it travels (below 2^64) *)
Corollary StatInfo_ModTime_is_model_instant : forall s,
  (st_mtime (SrcFns.StatInfo_Stat s) < 18446744073709551616)%N ->
  Prims.time_ns (SrcFns.StatInfo_ModTime s) = sint (st_mtime (SrcFns.StatInfo_Stat s)).
Proof.
  intros s H. rewrite <- sint64_is_sint by exact H. apply (StatInfo_ModTime_src_eq s).
Qed.
