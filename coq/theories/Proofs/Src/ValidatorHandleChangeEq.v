(* validator.go, method HandleChange of Validator (pointer receiver) — the centre of C12 — as translated from /repo on this run into a
   state transformer  Validator -> kind -> path -> FileInfo -> error -> option (Validator * error)
   (state = the parentDirs slice as a list of generated records, bottom first; sort.Search = Go's binary search
   transcribed in Src/Prims.v with the func literal as its predicate; ComparePath through its own translation),
   equals one step of the hand model Model/Validator.v (vstep) on every state that satisfies the
   representation invariant [vinv] (directories strictly descending from the top of the stack under
   compare_path, bottom directory ""), which every state reachable from the zero Validator satisfies.
   Folding it over a list of changes equals run_validator, so validator_accepts_iff_spec transfers. *)
From Coq Require Import List NArith ZArith Bool Lia Sorting.Sorted.
From FS Require Model.Stat.
From FS Require Import Sx Model.Path Model.Validator Src.Prims Proofs.Lex Proofs.PathP Proofs.ValidatorP.
From FS Require Proofs.Src.ComparePathEq Proofs.Src.SortSearchP Proofs.Src.PrimsP.
From FSGen Require SrcFns.
Import ListNotations.

Notation parent := SrcFns.parent.
Notation pdir := SrcFns.parent_dir.
Notation plast := SrcFns.parent_last.
Definition mk (l : list parent) : SrcFns.Validator := {| SrcFns.Validator_parentDirs := l |}.
Definition norm (l : list parent) : list parent := match l with [] => [SrcFns.parent_zero] | _ => l end.

(* ---------------- phase 1: the generated text, with its duplicated continuations folded back ---------------- *)
Definition hc_pred (l : list parent) (d : list N) (i : Z) : option bool :=
  match SrcFns.ComparePath (pdir (Prims.nth_d l (Prims.slen l - 1 - i)%Z SrcFns.parent_zero)) d with
  | None => None
  | Some c => Some (c <=? 0)%Z
  end.

Definition hc_compact (l0 : list parent) (kind : Z) (p : list N) (fi : Prims.FileInfo Stat.stat) : option (SrcFns.Validator * Prims.error) :=
  let l := norm l0 in
  if negb (Prims.bytes_eqb p (Prims.filepath_Clean p)) then Some (mk l, Prims.some_error) else
  if Prims.filepath_IsAbs p then Some (mk l, Prims.some_error) else
  let d := if Prims.bytes_eqb (Prims.filepath_Dir p) [46]%N then [] else Prims.filepath_Dir p in
  let b := Prims.filepath_Base p in
  if (((Prims.bytes_eqb p [46]%N || Prims.bytes_eqb p [46; 46]%N) || Prims.bytes_eqb d [46; 46]%N)
      || Prims.strings_HasPrefix p (Prims.filepath_FromSlash [46; 46; 47]%N))%bool
  then Some (mk l, Prims.some_error) else
  match Prims.sort_Search (Prims.slen l) (hc_pred l d) with
  | None => None
  | Some k =>
    let i := (Prims.slen l - 1 - k)%Z in
    let l1 := if negb (i =? Prims.slen l - 1)%Z then Prims.lslice_to l (i + 1)%Z else l in
    if (negb (Prims.bytes_eqb d (pdir (Prims.nth_d l1 (Prims.slen l1 - 1)%Z SrcFns.parent_zero)))
        || Prims.bytes_leb b (plast (Prims.nth_d l1 i SrcFns.parent_zero)))%bool
    then Some (mk l1, Prims.some_error) else
    let l2 := Prims.list_set l1 i (SrcFns.parent_set_last (Prims.nth_d l1 i SrcFns.parent_zero) b) in
    Some (mk (if (negb (kind =? 2)%Z && Prims.fi_IsDir fi)%bool
              then l2 ++ [{| SrcFns.parent_dir := Prims.filepath_Join [d; b]; SrcFns.parent_last := [] |}]
              else l2), None)
  end.

Lemma generated_is_compact : forall v kind p fi,
  SrcFns.Validator_HandleChange v kind p fi None = hc_compact (SrcFns.Validator_parentDirs v) kind p fi.
Proof.
  intros [l0] kind p fi. unfold SrcFns.Validator_HandleChange, hc_compact, mk. cbn [SrcFns.Validator_parentDirs Prims.err_is_nil negb].
  fold (hc_pred (norm l0)).
  destruct l0 as [|e0 l0]; cbn [Prims.slice_is_nil norm]; change (Prims.make_slice 1 SrcFns.parent_zero) with [SrcFns.parent_zero];
  destruct (negb (Prims.bytes_eqb p (Prims.filepath_Clean p))); try reflexivity;
  destruct (Prims.filepath_IsAbs p); try reflexivity;
  destruct (Prims.bytes_eqb (Prims.filepath_Dir p) [46]%N); cbv zeta;
  match goal with |- context [if ?c then Some (_, Prims.some_error) else _] => destruct c end; try reflexivity.
  all: try (unfold hc_pred; match goal with |- context [Prims.sort_Search ?n ?f] => destruct (Prims.sort_Search n f) as [k|] end; [|reflexivity]).
  all: try match goal with |- context [negb (?a - 1 - ?k =? ?b)%Z] => destruct (negb (a - 1 - k =? b)%Z) end.
  all: try (match goal with |- context [if ?c then Some (_, Prims.some_error) else _] => destruct c end; try reflexivity).
  all: try (match goal with |- context [if ?c then _ else _] => destruct c end; reflexivity).
Qed.

(* ---------------- phase 2: the compact form against the model ---------------- *)
Definition ent (e : parent) : ventry := (pdir e, plast e).
Definition absl (l : list parent) : list ventry := rev (map ent l).          (* the model's stack: top first *)
Definition abs_state (v : SrcFns.Validator) : list ventry := absl (norm (SrcFns.Validator_parentDirs v)).
Definition desc (stk : list ventry) : Prop :=
  StronglySorted (fun a b => compare_path (fst b) (fst a) = Lt) stk.
Definition vinv (stk : list ventry) : Prop := desc stk /\ exists r l0, stk = r ++ [([], l0)].
Definition fi_dir (b : bool) : Prims.FileInfo Stat.stat := {| Prims.fi_IsDir := b; Prims.fi_Mode := 0; Prims.fi_Sys := None |}.
Definition item_of (kind : Z) (p : list N) (fi : Prims.FileInfo Stat.stat) : vitem :=
  {| vkind := Z.to_N kind; vpath := p; visdir := Prims.fi_IsDir fi |}.

Definition hc_tail (l : list parent) (kind : Z) (fi : Prims.FileInfo Stat.stat) (d b : list N) : option (SrcFns.Validator * Prims.error) :=
  match Prims.sort_Search (Prims.slen l) (hc_pred l d) with
  | None => None
  | Some k =>
    let i := (Prims.slen l - 1 - k)%Z in
    let l1 := if negb (i =? Prims.slen l - 1)%Z then Prims.lslice_to l (i + 1)%Z else l in
    if (negb (Prims.bytes_eqb d (pdir (Prims.nth_d l1 (Prims.slen l1 - 1)%Z SrcFns.parent_zero)))
        || Prims.bytes_leb b (plast (Prims.nth_d l1 i SrcFns.parent_zero)))%bool
    then Some (mk l1, Prims.some_error) else
    let l2 := Prims.list_set l1 i (SrcFns.parent_set_last (Prims.nth_d l1 i SrcFns.parent_zero) b) in
    Some (mk (if (negb (kind =? 2)%Z && Prims.fi_IsDir fi)%bool
              then l2 ++ [{| SrcFns.parent_dir := Prims.filepath_Join [d; b]; SrcFns.parent_last := [] |}]
              else l2), None)
  end.

Lemma compact_split : forall l0 kind p fi,
  hc_compact l0 kind p fi =
  match vsplit p with
  | None => Some (mk (norm l0), Prims.some_error)
  | Some (d, b) => hc_tail (norm l0) kind fi d b
  end.
Proof.
  intros l0 kind p fi. unfold hc_compact, vsplit, hc_tail. rewrite PrimsP.has_prefix_bridge.
  change Prims.filepath_FromSlash with (fun x : list N => x). cbv beta.
  change Prims.bytes_eqb with Sx.bytes_eqb. change Prims.filepath_Clean with clean.
  change Prims.filepath_IsAbs with is_abs. change Prims.filepath_Dir with dir. change Prims.filepath_Base with base.
  change [46; 46; 47]%N with s_dotdotsep. change [46; 46]%N with s_dotdot. change [46]%N with s_dot.
  destruct (negb (Sx.bytes_eqb p (clean p))); [reflexivity|].
  destruct (is_abs p); [reflexivity|]. cbv zeta.
  destruct (Sx.bytes_eqb p s_dot || Sx.bytes_eqb p s_dotdot
            || Sx.bytes_eqb (if Sx.bytes_eqb (dir p) s_dot then [] else dir p) s_dotdot || has_prefix s_dotdotsep p); reflexivity.
Qed.

(* ---- list facts ---- *)
Lemma slen_nat : forall (l : list parent), Prims.slen l = Z.of_nat (length l).
Proof. reflexivity. Qed.

Lemma nth_d_last : forall (m : list parent) x, Prims.nth_d (m ++ [x]) (Z.of_nat (length m)) SrcFns.parent_zero = x.
Proof.
  intros m x. unfold Prims.nth_d. destruct (Z.ltb_spec (Z.of_nat (length m)) 0); [lia|].
  rewrite Nat2Z.id, app_nth2 by lia. rewrite Nat.sub_diag. reflexivity.
Qed.

Lemma list_set_last : forall (m : list parent) x y, Prims.list_set (m ++ [x]) (Z.of_nat (length m)) y = m ++ [y].
Proof.
  intros m x y. unfold Prims.list_set. destruct (Z.ltb_spec (Z.of_nat (length m)) 0); [lia|].
  rewrite Nat2Z.id. clear. induction m as [|a m IH]; [reflexivity|]. cbn [length app Prims.list_set_nat]. now rewrite IH.
Qed.

Lemma absl_snoc : forall m x, absl (m ++ [x]) = ent x :: absl m.
Proof. intros. unfold absl. rewrite map_app, rev_app_distr. reflexivity. Qed.

Lemma absl_firstn : forall l k, (k <= length l)%nat -> absl (firstn (length l - k) l) = skipn k (absl l).
Proof.
  intros l k Hk. unfold absl. rewrite <- firstn_map. rewrite <- (map_length ent l).
  rewrite skipn_rev. reflexivity.
Qed.

Lemma absl_nth : forall l i, (i < length l)%nat ->
  nth i (absl l) (ent SrcFns.parent_zero) = ent (nth (length l - S i) l SrcFns.parent_zero).
Proof.
  intros l i Hi. unfold absl. rewrite rev_nth by (rewrite map_length; exact Hi).
  rewrite map_length. apply (map_nth ent).
Qed.

(* ---- the predicate of the search ---- *)
Definition gpred (stk : list ventry) (d : list N) (i : Z) : bool :=
  match compare_path (fst (nth (Z.to_nat i) stk (ent SrcFns.parent_zero))) d with Gt => false | _ => true end.

Lemma hc_pred_total : forall l d i, (0 <= i < Z.of_nat (length l))%Z ->
  hc_pred l d i = Some (gpred (absl l) d i).
Proof.
  intros l d i Hi. unfold hc_pred, gpred.
  rewrite absl_nth by lia. cbn [ent fst].
  replace (Prims.nth_d l (Prims.slen l - 1 - i) SrcFns.parent_zero) with (nth (length l - S (Z.to_nat i)) l SrcFns.parent_zero).
  2:{ unfold Prims.nth_d. rewrite slen_nat. destruct (Z.ltb_spec (Z.of_nat (length l) - 1 - i) 0); [lia|].
      f_equal. lia. }
  pose proof (ComparePathEq.ComparePath_src_eq (pdir (nth (length l - S (Z.to_nat i)) l SrcFns.parent_zero)) d) as H.
  destruct (SrcFns.ComparePath _ d) as [c|]; [|discriminate].
  cbn [option_map] in H. injection H as H. rewrite <- H. unfold ComparePathEq.sign.
  reflexivity.
Qed.

Lemma desc_mono : forall stk d x y, desc stk -> (x <= y)%nat -> (y < length stk)%nat ->
  compare_path (fst (nth x stk (ent SrcFns.parent_zero))) d <> Gt ->
  compare_path (fst (nth y stk (ent SrcFns.parent_zero))) d <> Gt.
Proof.
  intros stk d x y Hs Hxy Hy Hx. destruct (Nat.eq_dec x y) as [->|Hne]; [exact Hx|].
  assert (Hlt : compare_path (fst (nth y stk (ent SrcFns.parent_zero))) (fst (nth x stk (ent SrcFns.parent_zero))) = Lt).
  { clear Hx. revert x y Hxy Hy Hne. induction Hs as [|a stk Hs IH Hall]; intros x y Hxy Hy Hne; [cbn in Hy; lia|].
    destruct y as [|y]; [lia|]. destruct x as [|x].
    - cbn [nth]. rewrite Forall_forall in Hall. apply Hall. apply nth_In. cbn in Hy. lia.
    - cbn [nth]. apply IH; cbn in Hy; lia. }
  intro Hgt. apply Hx.
  (* y < x-entry <= ... : if y-entry > d then x-entry > d *)
  pose proof (compare_path_opp (fst (nth x stk (ent SrcFns.parent_zero))) d) as Ho.
  destruct (compare_path (fst (nth x stk (ent SrcFns.parent_zero))) d) eqn:E; try reflexivity; exfalso.
  - apply compare_path_eq in E. rewrite E in Hlt. rewrite Hlt in Hgt. discriminate.
  - pose proof (compare_path_trans _ _ _ Hlt E) as Ht. rewrite Ht in Hgt. discriminate.
Qed.

Lemma vpop_skipn : forall d stk k, (k <= length stk)%nat ->
  (forall i, (i < k)%nat -> compare_path (fst (nth i stk (ent SrcFns.parent_zero))) d = Gt) ->
  ((k < length stk)%nat -> compare_path (fst (nth k stk (ent SrcFns.parent_zero))) d <> Gt) ->
  vpop d stk = skipn k stk.
Proof.
  intros d stk. induction stk as [|[d' l] stk IH]; intros k Hk Hlo Hat.
  - destruct k; reflexivity.
  - destruct k as [|k].
    + cbn [vpop skipn]. specialize (Hat ltac:(cbn; lia)). cbn [nth fst] in Hat.
      destruct (compare_path d' d); try reflexivity. congruence.
    + cbn [vpop skipn]. pose proof (Hlo 0%nat ltac:(lia)) as H0. cbn [nth fst] in H0. rewrite H0.
      apply IH; [cbn in Hk; lia| |].
      * intros i Hi. apply (Hlo (S i)). lia.
      * intros Hl. apply Hat. cbn. lia.
Qed.

Lemma leb_geb_bridge : forall a b, Prims.bytes_leb a b = bytes_geb b a.
Proof.
  intros a b. unfold Prims.bytes_leb, bytes_geb.
  assert (H : forall x y, Prims.bytes_cmp x y = CompOpp (cmp_bytes y x)).
  { induction x as [|u x IH]; destruct y as [|w y]; try reflexivity. cbn [Prims.bytes_cmp cmp_bytes].
    rewrite (N.compare_antisym u w). destruct (N.compare u w); cbn [CompOpp]; try reflexivity. apply IH. }
  rewrite H. destruct (cmp_bytes b a); reflexivity.
Qed.

Lemma join2_bridge : forall d b, Prims.filepath_Join [d; b] = join2 d b.
Proof. intros [|x d] [|y b]; reflexivity. Qed.

Lemma vdel_bridge : forall kind p fi, vdel (item_of kind p fi) = (kind =? 2)%Z.
Proof. intros [|q|q] p fi; reflexivity. Qed.

Lemma bottom_pred : forall stk d r l0, stk = r ++ [([], l0)] ->
  gpred stk d (Z.of_nat (length stk) - 1) = true.
Proof.
  intros stk d r l0 ->. unfold gpred. rewrite app_length. cbn [length].
  replace (Z.to_nat (Z.of_nat (length r + 1) - 1)) with (length r) by lia.
  rewrite app_nth2 by lia. rewrite Nat.sub_diag. cbn [nth fst]. destruct d; reflexivity.
Qed.

(* the part of the model's step after the admission checks *)
Definition vtail (stk : list ventry) (it : vitem) (d b : list N) : option (list ventry) :=
  match vpop d stk with
  | [] => None
  | (d', l) :: rest =>
    if negb (Sx.bytes_eqb d d') || bytes_geb l b then None
    else
      let stk' := (d', b) :: rest in
      Some (if negb (vdel it) && visdir it then (join2 d b, []) :: stk' else stk')
  end.

Lemma tail_spec : forall l kind p fi d b, l <> [] -> vinv (absl l) ->
  match hc_tail l kind fi d b with
  | None => False
  | Some (v', e) =>
    match vtail (absl l) (item_of kind p fi) d b with
    | Some stk' => e = None /\ SrcFns.Validator_parentDirs v' <> [] /\ absl (SrcFns.Validator_parentDirs v') = stk'
    | None => e <> None
    end
  end.
Proof.
  intros l kind p fi d b Hne [Hdesc [r [l0 Hbot]]].
  set (stk := absl l) in *. set (n := length l).
  assert (Hlen : length stk = n) by (unfold stk, absl; now rewrite rev_length, map_length).
  assert (Hn : (1 <= n)%nat) by (destruct l; [congruence|cbn; lia]).
  destruct (SortSearchP.sort_Search_spec (gpred stk d) (hc_pred l d) (Z.of_nat n) ltac:(lia)) as [k [Hs [Hk [Hlo Hhi]]]].
  { intros x Hx. apply hc_pred_total. exact Hx. }
  { intros x y Hxy Hy. unfold gpred. intros Hx.
    pose proof (desc_mono stk d (Z.to_nat x) (Z.to_nat y) Hdesc ltac:(lia) ltac:(lia)) as Hm.
    destruct (compare_path (fst (nth (Z.to_nat x) stk (ent SrcFns.parent_zero))) d) eqn:Ex; try discriminate;
      (destruct (compare_path (fst (nth (Z.to_nat y) stk (ent SrcFns.parent_zero))) d); try reflexivity; exfalso; apply Hm; congruence). }
  assert (Hkn : (k < Z.of_nat n)%Z).
  { destruct (Z.eq_dec k (Z.of_nat n)) as [E|]; [|lia]. exfalso.
    pose proof (bottom_pred stk d r l0 Hbot) as Hb.
    assert (Hx : (0 <= Z.of_nat (length stk) - 1 < k)%Z) by (rewrite Hlen; lia).
    exact (eq_true_false_abs _ Hb (Hlo _ Hx)). }
  unfold hc_tail. rewrite slen_nat. fold n. rewrite Hs.
  set (kn := Z.to_nat k).
  (* the model's pop *)
  assert (Hpop : vpop d stk = skipn kn stk).
  { apply vpop_skipn; [lia| |].
    - intros i Hi. specialize (Hlo (Z.of_nat i) ltac:(lia)). unfold gpred in Hlo. rewrite Nat2Z.id in Hlo.
      destruct (compare_path (fst (nth i stk (ent SrcFns.parent_zero))) d); try discriminate. reflexivity.
    - intros _. specialize (Hhi k ltac:(lia)). unfold gpred in Hhi. fold kn in Hhi.
      destruct (compare_path (fst (nth kn stk (ent SrcFns.parent_zero))) d); try discriminate; congruence. }
  (* the truncated slice *)
  set (l1 := if negb (Z.of_nat n - 1 - k =? Z.of_nat n - 1)%Z then Prims.lslice_to l (Z.of_nat n - 1 - k + 1) else l).
  assert (Hl1 : l1 = firstn (n - kn) l).
  { unfold l1. destruct (Z.eqb_spec (Z.of_nat n - 1 - k) (Z.of_nat n - 1)) as [E|E]; cbn [negb].
    - replace (n - kn)%nat with n by lia. unfold n. now rewrite firstn_all.
    - unfold Prims.lslice_to. f_equal. lia. }
  assert (Habs1 : absl l1 = skipn kn stk) by (rewrite Hl1; apply absl_firstn; lia).
  assert (Hlen1 : length l1 = (n - kn)%nat) by (rewrite Hl1, firstn_length; lia).
  destruct (exists_last (l := l1)) as [m [x Hmx]]; [intro E; rewrite E in Hlen1; cbn in Hlen1; lia|].
  assert (Hm : Z.of_nat (length m) = (Z.of_nat n - 1 - k)%Z).
  { rewrite Hmx, app_length in Hlen1. cbn [length] in Hlen1. lia. }
  assert (Hsl : (Prims.slen l1 - 1)%Z = Z.of_nat (length m)).
  { rewrite slen_nat, Hlen1. lia. }
  rewrite Hsl. rewrite <- Hm. rewrite Hmx. rewrite !nth_d_last, list_set_last.
  unfold vtail. rewrite Hpop, <- Habs1, Hmx, absl_snoc. cbn [ent].
  change Prims.bytes_eqb with Sx.bytes_eqb. rewrite leb_geb_bridge.
  destruct (negb (Sx.bytes_eqb d (pdir x)) || bytes_geb (plast x) b); [discriminate|].
  rewrite vdel_bridge, join2_bridge. cbn [visdir item_of].
  destruct (negb (kind =? 2)%Z && Prims.fi_IsDir fi); cbn [mk SrcFns.Validator_parentDirs].
  - split; [reflexivity|]. split; [destruct m; discriminate|]. rewrite absl_snoc, absl_snoc. reflexivity.
  - split; [reflexivity|]. split; [destruct m; discriminate|]. rewrite absl_snoc. reflexivity.
Qed.

Lemma vstep_tail : forall stk it,
  vstep stk it = match vsplit (vpath it) with None => None | Some (d, b) => vtail stk it d b end.
Proof. intros. reflexivity. Qed.

Lemma norm_nonempty : forall l, norm l <> [].
Proof. destruct l; discriminate. Qed.

Lemma norm_id : forall l, l <> [] -> norm l = l.
Proof. destruct l; [congruence|reflexivity]. Qed.

(* an error handed in is handed back, the state untouched *)
Theorem HandleChange_err_passthrough : forall v kind p fi m,
  SrcFns.Validator_HandleChange v kind p fi (Some m) = Some (v, Some m).
Proof. intros [l] kind p fi m. reflexivity. Qed.

(* one step: the translated method against the model's vstep, on every state satisfying the invariant *)
Theorem HandleChange_src_eq : forall v kind p fi, vinv (abs_state v) ->
  match SrcFns.Validator_HandleChange v kind p fi None with
  | None => False
  | Some (v', e) =>
    match vstep (abs_state v) (item_of kind p fi) with
    | Some stk' => e = None /\ abs_state v' = stk'
    | None => e <> None
    end
  end.
Proof.
  intros v kind p fi Hinv. rewrite generated_is_compact, compact_split, vstep_tail. cbn [vpath item_of].
  destruct (vsplit p) as [[d b]|]; [|discriminate].
  pose proof (tail_spec (norm (SrcFns.Validator_parentDirs v)) kind p fi d b (norm_nonempty _) Hinv) as H.
  destruct (hc_tail _ kind fi d b) as [[v' e]|]; [|exact H].
  unfold abs_state at 1. destruct (vtail _ _ d b) as [stk'|]; [|exact H].
  destruct H as [He [Hne Habs]]. split; [exact He|]. unfold abs_state. now rewrite norm_id.
Qed.

(* ---------------- phase 3: every reachable state satisfies the invariant; whole sequences ---------------- *)
Definition good (s : list ventry) : Prop := R s /\ exists acc, Inv (map ce s) (map citem_of acc).

Lemma good_init : good vinit.
Proof. split; [repeat constructor|]. exists []. apply inv_init. Qed.

Lemma good_step : forall s it s', good s -> vstep s it = Some s' -> good s'.
Proof.
  intros s it s' [HR [acc HI]] Hs.
  destruct (ok_path (vpath it)) eqn:Hok.
  - pose proof (vstep_refines s it HR Hok) as Href. rewrite Hs in Href. destruct Href as [Hcv HR'].
    destruct (cvstep_sound _ _ _ _ HI (okitem_names it Hok) Hcv) as [_ HI'].
    split; [exact HR'|]. exists (acc ++ [it]). rewrite map_app. exact HI'.
  - unfold vstep in Hs. rewrite (vsplit_bad _ Hok) in Hs. discriminate.
Qed.

Definition Rl (a b : entry) : Prop := lex (fst b) (fst a) = Lt.

Lemma chain_sorted : forall cs, chain cs -> Sorted Rl cs.
Proof.
  induction 1 as [l|d l rest l' Hc IH Hl].
  - repeat constructor.
  - constructor; [exact IH|]. constructor. unfold Rl. cbn [fst]. apply lex_prefix_lt. discriminate.
Qed.

Lemma chain_bottom : forall cs, chain cs -> exists r l0, cs = r ++ [([], l0)].
Proof.
  induction 1 as [l|d l rest l' Hc IH Hl].
  - exists [], l. reflexivity.
  - destruct IH as [r [l0 E]]. exists ((d ++ [l], l') :: r), l0. rewrite E. reflexivity.
Qed.

Lemma pcomps_nil : forall p, pcomps p = [] -> p = [].
Proof.
  intros [|a p]; [reflexivity|]. unfold pcomps. cbn [comps].
  destruct (N.eqb a sep); [discriminate|]. destruct (comps p); discriminate.
Qed.

Lemma good_vinv : forall s, good s -> vinv s.
Proof.
  intros s [_ [acc HI]]. pose proof (inv_chain _ _ HI) as Hc. split.
  - assert (Hss : StronglySorted Rl (map ce s)).
    { apply Sorted_StronglySorted; [|apply chain_sorted; exact Hc].
      intros a b c Hab Hbc. unfold Rl in *. eapply lex_trans; eassumption. }
    clear Hc HI. unfold desc. induction s as [|e s IH]; [constructor|].
    cbn [map] in Hss. inversion Hss as [|? ? Hs' Hall]; subst. constructor; [apply IH; exact Hs'|].
    rewrite Forall_map in Hall. eapply Forall_impl; [|exact Hall].
    intros b Hb. unfold Rl, ce in Hb. cbn [fst] in Hb. rewrite compare_path_pcomps. exact Hb.
  - destruct (chain_bottom _ Hc) as [r [l0 E]].
    destruct (exists_last (l := s)) as [s0 [e Es]]; [intro E0; rewrite E0 in E; destruct r; discriminate|].
    rewrite Es, map_app in E. cbn [map] in E. apply app_inj_tail in E. destruct E as [_ E].
    unfold ce in E. injection E as E1 E2. apply pcomps_nil in E1.
    exists s0, (snd e). rewrite Es. destruct e as [d l]. cbn [fst snd] in *. now subst.
Qed.

(* the translated method folded over a sequence of changes: index of the first rejected change *)
Fixpoint run_go (v : SrcFns.Validator) (its : list vitem) (i : nat) : option (option nat) :=
  match its with
  | [] => Some None
  | it :: r =>
    match SrcFns.Validator_HandleChange v (Z.of_N (vkind it)) (vpath it) (fi_dir (visdir it)) None with
    | None => None                                  (* no result: out of fuel *)
    | Some (v', None) => run_go v' r (S i)
    | Some (_, Some _) => Some (Some i)
    end
  end.

Lemma item_of_it : forall it, item_of (Z.of_N (vkind it)) (vpath it) (fi_dir (visdir it)) = it.
Proof. intros [k p dflag]. unfold item_of. cbn. now rewrite N2Z.id. Qed.

Lemma run_go_gen : forall its v i, good (abs_state v) -> run_go v its i = Some (vrun (abs_state v) its i).
Proof.
  induction its as [|it r IH]; intros v i Hg; [reflexivity|]. cbn [run_go vrun].
  pose proof (HandleChange_src_eq v (Z.of_N (vkind it)) (vpath it) (fi_dir (visdir it)) (good_vinv _ Hg)) as H.
  rewrite item_of_it in H.
  destruct (SrcFns.Validator_HandleChange v _ _ _ None) as [[v' e]|]; [|contradiction].
  destruct (vstep (abs_state v) it) as [stk'|] eqn:Es.
  - destruct H as [-> Habs]. rewrite <- Habs. apply IH. rewrite Habs. eapply good_step; eassumption.
  - destruct e; [reflexivity|congruence].
Qed.

Theorem run_go_is_run_validator : forall its,
  run_go SrcFns.Validator_zero its 0 = Some (run_validator its).
Proof. intros its. apply (run_go_gen its SrcFns.Validator_zero 0). exact good_init. Qed.

(* C12's main theorem, for the translated code *)
Corollary translated_validator_accepts_iff_spec : forall its,
  run_go SrcFns.Validator_zero its 0 = Some (spec_first_bad its).
Proof. intros its. rewrite run_go_is_run_validator, validator_accepts_iff_spec_proof. reflexivity. Qed.
