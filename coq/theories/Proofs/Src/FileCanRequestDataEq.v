(* send.go fileCanRequestData (the predicate sender and receiver must agree on), as translated from
   /repo on this run, equals the hand model Stat.mode_is_regular. *)
From Coq Require Import List NArith ZArith Bool.
From FS Require Import Sx Model.Stat Src.Prims.
From FSGen Require SrcFns.

Lemma os_ModeType_is_model : Prims.os_ModeType = Stat.ModeType.
Proof. vm_compute. reflexivity. Qed.

Theorem fileCanRequestData_src_eq :
  forall m, SrcFns.fileCanRequestData m = mode_is_regular m.
Proof.
  intros m. unfold SrcFns.fileCanRequestData, mode_is_regular. rewrite os_ModeType_is_model. reflexivity.
Qed.
