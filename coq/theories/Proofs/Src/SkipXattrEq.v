(* stat_unix.go skipXattr (with the constant xattrApplePrefix of that file), as translated from /repo on
   this run, equals the test the hand model Walk.load_xattr filters with. *)
From Coq Require Import List NArith ZArith Bool.
From FS Require Import Sx Model.Path Model.Walk Src.Prims Proofs.Src.PrimsP.
From FSGen Require SrcFns.
Import ListNotations.

Theorem skipXattr_src_eq :
  forall k, SrcFns.skipXattr k = has_prefix xattr_apple_prefix k.
Proof.
  intros k. unfold SrcFns.skipXattr. rewrite has_prefix_bridge.
  change [99; 111; 109; 46; 97; 112; 112; 108; 101; 46]%N with xattr_apple_prefix.
  destruct (has_prefix xattr_apple_prefix k); reflexivity.
Qed.

Corollary load_xattr_src_eq :
  forall xs, load_xattr xs = filter (fun kv => negb (SrcFns.skipXattr (fst kv))) xs.
Proof.
  intros xs. unfold load_xattr. apply filter_ext. intros kv. now rewrite skipXattr_src_eq.
Qed.
