(* Prims.sort_Search (Go's binary search, transcribed) on a total predicate that is monotone on [0, n)
   (false ... false true ... true) returns the least index at which it is true, n if there is none; it never
   runs out of its fuel.  Independent of gen/SrcFns.v. *)
From Coq Require Import List ZArith Bool Lia.
From FS Require Import Src.Prims.

Lemma half_bounds : forall i j, (0 <= i < j)%Z -> (i <= Z.shiftr (i + j) 1 < j)%Z.
Proof.
  intros i j H. rewrite Z.shiftr_div_pow2 by lia. change (2 ^ 1)%Z with 2%Z.
  pose proof (Z.div_mod (i + j) 2 ltac:(lia)). pose proof (Z.mod_pos_bound (i + j) 2 ltac:(lia)). lia.
Qed.

Lemma search_loop_spec : forall (g : Z -> bool) (f : Z -> option bool) n,
  (forall x, (0 <= x < n)%Z -> f x = Some (g x)) ->
  (forall x y, (0 <= x <= y)%Z -> (y < n)%Z -> g x = true -> g y = true) ->
  forall fuel i j, (0 <= i <= j)%Z -> (j <= n)%Z -> (Z.of_nat fuel > j - i)%Z ->
  (forall x, (0 <= x < i)%Z -> g x = false) ->
  (forall x, (j <= x < n)%Z -> g x = true) ->
  exists k, Prims.sort_Search_loop fuel f i j = Some k /\ (i <= k <= j)%Z /\
            (forall x, (0 <= x < k)%Z -> g x = false) /\ (forall x, (k <= x < n)%Z -> g x = true).
Proof.
  intros g f n Hf Hmono. induction fuel as [|fuel IH]; intros i j Hij Hjn Hfuel Hlo Hhi; [lia|].
  cbn [Prims.sort_Search_loop]. destruct (Z.ltb_spec i j) as [Hlt|Hge].
  - pose proof (half_bounds i j ltac:(lia)) as Hh. set (h := Z.shiftr (i + j) 1) in *.
    rewrite Hf by lia. destruct (g h) eqn:Egh; cbn [negb].
    + destruct (IH i h ltac:(lia) ltac:(lia) ltac:(lia) Hlo) as [k [Hk [Hr [H1 H2]]]].
      { intros x Hx. apply (Hmono h x); [lia|lia|exact Egh]. }
      exists k. repeat split; try assumption; lia.
    + destruct (IH (h + 1)%Z j ltac:(lia) ltac:(lia) ltac:(lia)) as [k [Hk [Hr [H1 H2]]]].
      { intros x Hx. destruct (g x) eqn:Egx; [|reflexivity].
        assert (g h = true) by (apply (Hmono x h); [lia|lia|exact Egx]). congruence. }
      { exact Hhi. }
      exists k. repeat split; try assumption; lia.
  - exists i. repeat split; try assumption; try lia. intros x Hx. apply Hhi. lia.
Qed.

Theorem sort_Search_spec : forall (g : Z -> bool) (f : Z -> option bool) n, (0 <= n)%Z ->
  (forall x, (0 <= x < n)%Z -> f x = Some (g x)) ->
  (forall x y, (0 <= x <= y)%Z -> (y < n)%Z -> g x = true -> g y = true) ->
  exists k, Prims.sort_Search n f = Some k /\ (0 <= k <= n)%Z /\
            (forall x, (0 <= x < k)%Z -> g x = false) /\ (forall x, (k <= x < n)%Z -> g x = true).
Proof.
  intros g f n Hn Hf Hmono. unfold Prims.sort_Search.
  apply (search_loop_spec g f n Hf Hmono); try lia.
Qed.
