(* The Gallina definition generated from validator.go's ComparePath (gen/SrcFns.v, regenerated from
   /repo on every run) equals the hand model Path.compare_path the C12/C09/... theorems are about.
   Go returns an int of which every caller uses only the sign; the model returns that sign as a
   [comparison].  The statement also says that the loop never runs out of the fuel the translator
   computed (result is [Some]). *)
From Coq Require Import List NArith ZArith Bool Lia.
From FS Require Import Sx Model.Path Src.Prims.
From FSGen Require SrcFns.
Import ListNotations.

Definition sign (z : Z) : comparison := Z.compare z 0.

Lemma min_is_Zmin : forall x y, SrcFns.min x y = Z.min x y.
Proof.
  intros x y. unfold SrcFns.min. destruct (Z.ltb_spec x y); lia.
Qed.

Lemma idx_at : forall pre a p, Prims.idx (pre ++ a :: p) (Z.of_nat (length pre)) = a.
Proof.
  intros pre a p. unfold Prims.idx.
  destruct (Z.ltb_spec (Z.of_nat (length pre)) 0); [lia|].
  rewrite Nat2Z.id. rewrite app_nth2 by lia. rewrite Nat.sub_diag. reflexivity.
Qed.

Lemma idx_at' : forall pre a p n, n = length pre -> Prims.idx (pre ++ a :: p) (Z.of_nat n) = a.
Proof. intros; subst; apply idx_at. Qed.

Lemma len_app : forall a b, Prims.len (a ++ b) = (Prims.len a + Prims.len b)%Z.
Proof. intros. unfold Prims.len. rewrite app_length. lia. Qed.

(* the loop, started after equal-length prefixes, on the remaining suffixes p and q *)
Lemma loop_spec : forall p q pre1 pre2 fuel,
  length pre1 = length pre2 ->
  (fuel > Nat.min (length p) (length q))%nat ->
  match SrcFns.ComparePath_loop1 fuel (pre1 ++ p) (pre2 ++ q)
          (Z.min (Prims.len (pre1 ++ p)) (Prims.len (pre2 ++ q))) (Z.of_nat (length pre1)) with
  | OutOfFuel => False
  | Ret r => sign r = compare_path p q
  | Done _ => compare_path p q = Z.compare (Prims.len p) (Prims.len q)
  end.
Proof.
  induction p as [|a p IH]; intros q pre1 pre2 fuel Hl Hf.
  - destruct fuel as [|fuel]; [simpl in Hf; lia|].
    cbn [SrcFns.ComparePath_loop1].
    rewrite !len_app. unfold Prims.len at 1 2 3. cbn [length app].
    destruct (Z.ltb_spec (Z.of_nat (length pre1))
                (Z.min (Z.of_nat (length pre1) + Z.of_nat 0) (Z.of_nat (length pre2) + Prims.len q))); [lia|].
    destruct q; cbn [compare_path]; unfold Prims.len; cbn [length]; [reflexivity|].
    symmetry. apply Z.compare_lt_iff. lia.
  - destruct q as [|b q].
    + destruct fuel as [|fuel]; [simpl in Hf; lia|].
      cbn [SrcFns.ComparePath_loop1].
      rewrite !len_app. unfold Prims.len. cbn [length].
      destruct (Z.ltb_spec (Z.of_nat (length pre1))
                  (Z.min (Z.of_nat (length pre1) + Z.of_nat (S (length p))) (Z.of_nat (length pre2) + Z.of_nat 0))); [lia|].
      cbn [compare_path]. symmetry. apply Z.compare_gt_iff. lia.
    + destruct fuel as [|fuel]; [simpl in Hf; lia|].
      cbn [SrcFns.ComparePath_loop1].
      match goal with |- context [Z.ltb ?x ?y] => destruct (Z.ltb_spec x y) as [Hlt|Hge] end.
      2:{ rewrite !len_app in Hge. unfold Prims.len in Hge. cbn [length] in Hge. lia. }
      rewrite idx_at. rewrite (idx_at' pre2 b q (length pre1)) by exact Hl.
      cbn [compare_path]. unfold Prims.filepath_Separator. fold sep.
      destruct (N.eqb a b) eqn:Eab.
      * (* continue *)
        specialize (IH q (pre1 ++ [a]) (pre2 ++ [b]) fuel).
        rewrite <- !app_assoc in IH. cbn [app] in IH.
        rewrite app_length in IH. cbn [length] in IH.
        replace (Z.of_nat (length pre1 + 1)) with (Z.of_nat (length pre1) + 1)%Z in IH by lia.
        assert (H1 : (length pre1 + 1)%nat = length (pre2 ++ [b])) by (rewrite !app_length; cbn [length]; lia).
        assert (H2 : (fuel > Nat.min (length p) (length q))%nat) by (cbn [length] in Hf; lia).
        specialize (IH H1 H2).
        destruct (SrcFns.ComparePath_loop1 fuel _ _ _ _); try exact IH.
        rewrite IH. unfold Prims.len. cbn [length]. rewrite !Nat2Z.inj_succ. rewrite <- !Z.add_1_l.
        rewrite Z.add_compare_mono_l. reflexivity.
      * destruct ((negb (N.eqb b sep) && N.ltb a b) || N.eqb a sep); reflexivity.
Qed.

Theorem ComparePath_src_eq :
  forall a b, option_map sign (SrcFns.ComparePath a b) = Some (compare_path a b).
Proof.
  intros a b. unfold SrcFns.ComparePath. rewrite min_is_Zmin.
  pose proof (loop_spec a b [] [] (S (Z.to_nat (Z.min (Prims.len a) (Prims.len b) - 0))) eq_refl) as H.
  cbn [app length] in H. change (Z.of_nat 0) with 0%Z in H.
  destruct (SrcFns.ComparePath_loop1 _ a b _ 0%Z) as [|r|i].
  - exfalso. apply H. unfold Prims.len. lia.
  - cbn [option_map]. f_equal. apply H. unfold Prims.len. lia.
  - cbn [option_map]. f_equal. rewrite H by (unfold Prims.len; lia). unfold sign. symmetry. apply Z.compare_sub.
Qed.
