(* C14 — witnesses: fs.RootPath is NOT the resolution a process chroot-ed into root performs,
   and its result can depend on symlinks outside root.  Both confirmed on the real code
   (corpus/C14/rootpath-not-chroot.case, rootpath-reads-outside.case; kind 1403 compares the
   real fs.RootPath and the kernel's chroot+chdir+getcwd with the models used here). *)
From Coq Require Import List NArith Bool.
From FS Require Import Sx Model.Path Model.Fs Model.RootPath.
Import ListNotations.
Open Scope N_scope.

Definition w_mkdir (f : fs) (p : bytes) : fs := fst (sys_mkdir ctx_init f p 493).
Definition w_symlink (f : fs) (t p : bytes) : fs := fst (sys_symlink ctx_init f t p).
Definition w_file (f : fs) (p : bytes) : fs := fst (sys_open_wronly ctx_init f p true 420).

(* "/j" is the root.  Inside: directories p, r, r/s; p/y -> /r/s; p/a -> y/.. *)
Definition wj : bytes := [47;106].
Definition wA : fs :=
  let f := w_mkdir fs_init wj in
  let f := w_mkdir f (wj ++ [47;112]) in                      (* /j/p *)
  let f := w_mkdir f (wj ++ [47;114]) in                      (* /j/r *)
  let f := w_mkdir f (wj ++ [47;114;47;115]) in               (* /j/r/s *)
  let f := w_symlink f [47;114;47;115] (wj ++ [47;112;47;121]) in   (* /j/p/y -> /r/s *)
  w_symlink f [121;47;46;46] (wj ++ [47;112;47;97]).          (* /j/p/a -> y/.. *)
Definition wA_path : bytes := [112;47;97].                    (* "p/a" *)

(* chroot: p/a = p/y/.. = /r/s/.. = /r.  RootPath: Join("/p", "y/..") cancels "y/.." lexically
   without ever looking at y: /p.  (Both copy.rootPath and fs.RootPath.) *)
Lemma rootpath_is_chroot_resolution_refuted_proof :
  exists (f : fs) (rcs : list bytes) (dr : N) (p out : bytes) (r1 r2 : lres),
    forallb name_ok rcs = true /\ plain_dir f (c_root ctx_init) rcs = Some dr /\
    root_path ctx_init f (render rcs) p = inl out /\
    copy_root_path ctx_init f (render rcs) p true = inl out /\
    resolve {| c_root := dr; c_cwd := dr |} f p true = inl r1 /\
    resolve ctx_init f out true = inl r2 /\
    l_ino r1 <> l_ino r2.
Proof.
  exists wA, [[106]], 2, wA_path, (wj ++ [47;112]),
         {| l_dir := 4; l_name := []; l_ino := Some 4 |}, {| l_dir := 2; l_name := [112]; l_ino := Some 3 |}.
  vm_compute. repeat split; try reflexivity. discriminate.
Qed.

(* Inside "/j": a -> x/y, x -> /o, directory o/y with a regular file b.  Outside: /o/y/b is a
   symlink "zzz" in wB, a regular file in wB'.  RootPath("/j", "a/b") Lstat-s "/j/x/y/b": the kernel
   follows x -> "/o" to the REAL /o, finds the outside link and RootPath substitutes its target. *)
Definition wB_common : fs :=
  let f := w_mkdir fs_init wj in
  let f := w_mkdir f (wj ++ [47;111]) in                      (* /j/o *)
  let f := w_mkdir f (wj ++ [47;111;47;121]) in               (* /j/o/y *)
  let f := w_file f (wj ++ [47;111;47;121;47;98]) in          (* /j/o/y/b *)
  let f := w_symlink f [120;47;121] (wj ++ [47;97]) in        (* /j/a -> x/y *)
  let f := w_symlink f [47;111] (wj ++ [47;120]) in           (* /j/x -> /o *)
  let f := w_mkdir f [47;111] in                              (* /o *)
  w_mkdir f [47;111;47;121].                                  (* /o/y *)
Definition wB : fs := w_symlink wB_common [122;122;122] [47;111;47;121;47;98].   (* /o/y/b -> zzz *)
Definition wB' : fs := w_file wB_common [47;111;47;121;47;98].                    (* /o/y/b regular *)
Definition wB_path : bytes := [97;47;98].                     (* "a/b" *)

Lemma rootpath_reads_outside_root_refuted_proof :
  exists (f f' : fs) (rcs : list bytes) (dr : N) (p : bytes),
    forallb name_ok rcs = true /\
    plain_dir f (c_root ctx_init) rcs = Some dr /\ plain_dir f' (c_root ctx_init) rcs = Some dr /\
    get f dr = get f' dr /\ tree_below 64 f dr [] = tree_below 64 f' dr [] /\
    root_path ctx_init f (render rcs) p <> root_path ctx_init f' (render rcs) p.
Proof.
  exists wB, wB', [[106]], 2, wB_path.
  vm_compute. repeat split; try reflexivity. discriminate.
Qed.
