(* C14 — a concrete run of the copier model (non-vacuity of copy_contained) and the two
   dest-symlink facts. *)
From Coq Require Import List Arith NArith Lia Bool ZifyN ZifyNat ZifyBool.
From FS Require Import Sx Model.Path Model.Fs Model.RootPath Model.CopyFs Model.CopyFsSpec
  Proofs.Lex Proofs.PathP Proofs.FsP Proofs.RootPathStrP Proofs.FsCopyFrameP Proofs.FsCopyInvP
  Proofs.FsCopySafeP Proofs.FsCopyLinksP Proofs.FsCopySysP Proofs.CopyFsP Proofs.CopyRecP Proofs.CopyFsTopP
  Proofs.CopyContainedP Proofs.RootPathWitnessP.
Import ListNotations.
Open Scope N_scope.
Open Scope bool_scope.

Definition w_link (f : fs) (o p : bytes) : fs := fst (sys_link ctx_init f o p).
Definition w_write (f : fs) (p d : bytes) : fs :=
  match sys_open_wronly ctx_init f p true 420 with (f1, RFd i) => fst (fd_pwrite f1 i 0 d) | (f1, _) => f1 end.
Definition w_chmod (f : fs) (p : bytes) (m : N) : fs := fst (sys_chmod ctx_init f p m).

(* the witness of the hard-link-path escape: /o/h (0600) outside; /s/p/h with two links (also
   /s/r/g); /s/q/h -> /o/h; /d the empty destination root *)
Definition wC : fs :=
  let f := w_mkdir fs_init [47;111] in
  let f := w_write f [47;111;47;104] [83] in
  let f := w_chmod f [47;111;47;104] 384 in
  let f := w_mkdir f [47;115] in
  let f := w_mkdir f [47;100] in
  let f := w_mkdir f [47;115;47;112] in
  let f := w_write f [47;115;47;112;47;104] [120] in
  let f := w_mkdir f [47;115;47;113] in
  let f := w_symlink f [47;111;47;104] [47;115;47;113;47;104] in
  let f := w_mkdir f [47;115;47;114] in
  w_link f [47;115;47;112;47;104] [47;115;47;114;47;103].
Definition wC_opts : copts :=
  {| o_follow := false; o_always_replace := false; o_dir_contents := false; o_chown := None; o_utime := None; o_mode := None |}.
(* Copy(srcRoot "/s", "?/?", dstRoot "/d", "/") with the matches p/h, q/h, r/g *)
Definition wC_run : cst * (unit + N) :=
  copy_top 16 ctx_init wC_opts [47;115] [63;47;63] [47;100] [47]
    (Some [[112;47;104]; [113;47;104]; [114;47;103]]) (cst_init wC).

(* ---- a symlink met at a target name ---- *)
Section DestLink.
  Variables (c : ctx) (f0 : fs) (dr : N) (dcs cs : list bytes) (x : bytes) (d i : N) (t : bytes) (m : meta).
  Hypothesis W : fs_wf f0.
  Hypothesis Hdn : forallb name_ok dcs = true.
  Hypothesis Hdc : chain f0 (c_root c) dcs dr.
  Hypothesis Hdl : (length dcs < rfuel)%nat.
  Hypothesis Hcn : forallb name_ok cs = true.
  Hypothesis Hxn : name_ok x = true.
  Hypothesis Hc : chain f0 dr cs d.
  Hypothesis Hb : blookup x (dents f0 d) = Some i.
  Hypothesis Hi : get f0 i = Some {| i_kind := KLink t; i_meta := m |}.

  Lemma dl_tgt : Tgt c f0 dr dcs (s_fs (cst_init f0)) cs d x.
  Proof.
    pose proof (wf_ctx c f0 dr dcs W Hdn Hdc Hdl) as C.
    apply forallb_name_ok in Hcn. destruct Hcn as [Hc1 Hc2].
    assert (G : forallb name_ok [x] = true) by (simpl; rewrite Hxn; reflexivity).
    apply forallb_name_ok in G. destruct G as [G1 G2].
    inversion G1 as [|? ? Hx1 _]. inversion G2 as [|? ? Hx2 _].
    constructor; auto.
  Qed.

  (* ensureEmptyFileTarget: the link is unlinked (never followed), or the error is reported *)
  Lemma dest_symlink_unlinked s' r :
    ensure_empty_file_target c (render (dcs ++ cs ++ [x])) (cst_init f0) = (s', r) ->
    r = inl tt -> blookup x (dents (s_fs s') d) = None /\ get (s_fs s') i = get f0 i.
  Proof.
    intros H ->. pose proof dl_tgt as T. unfold ensure_empty_file_target in H. rewrite bind_run in H.
    change (render (dcs ++ cs ++ [x])) with (tpath dcs cs x) in H.
    destruct (lstat_opt c (tpath dcs cs x) (cst_init f0)) as [s1 [o|e]] eqn:E1; [|inversion H].
    destruct (lstat_opt_spec c f0 dr dcs _ s1 _ cs d x T E1) as (F1 & L1 & P1).
    destruct o as [[j n]|].
    - destruct P1 as [Pb Pg]. cbn [s_fs cst_init] in Pb, Pg. rewrite Hb in Pb. inversion Pb; subst j.
      rewrite Hi in Pg. inversion Pg; subst n. cbn [kind_is_dir i_kind] in H.
      assert (T1 : Tgt c f0 dr dcs (s_fs s1) cs d x) by (rewrite F1; exact T).
      assert (Hf1 : forgotten s1 (tpath dcs cs x)) by (intros e He; rewrite L1 in He; destruct He).
      destruct (os_remove_spec c f0 dr dcs s1 s' _ cs d x T1 Hf1 H) as ((C' & _) & _ & P2).
      split; [apply P2; reflexivity|].
      (* the link inode itself is not a directory below dstRoot: untouched *)
      assert (Hlt : i < f_next f0).
      { apply (exists_lt_next f0 i (wf_alloc f0 W)). rewrite Hi. discriminate. }
      apply (inv_frame f0 dr (s_fs s') (cx_inv _ _ _ _ _ C')); auto.
      intros (cs' & Hc'). apply chain_end_dir in Hc'. unfold is_dir, dir_of in Hc'. rewrite Hi in Hc'. discriminate.
    - exfalso. unfold absent in P1. cbn [s_fs cst_init] in P1. rewrite Hb, Hi in P1. discriminate.
  Qed.

  (* copyDirectoryOnly: "cannot copy to non-directory" — reported, nothing touched *)
  Lemma dest_symlink_reported fi ow s' r :
    copy_directory_only c (render (dcs ++ cs ++ [x])) fi ow (cst_init f0) = (s', r) ->
    (exists e, r = inr e) /\ s_fs s' = f0.
  Proof.
    intros H. pose proof dl_tgt as T. unfold copy_directory_only in H. rewrite bind_run in H.
    change (render (dcs ++ cs ++ [x])) with (tpath dcs cs x) in H.
    destruct (lstat_opt c (tpath dcs cs x) (cst_init f0)) as [s1 [o|e]] eqn:E1.
    - destruct (lstat_opt_spec c f0 dr dcs _ s1 _ cs d x T E1) as (F1 & L1 & P1).
      destruct o as [[j n]|].
      + destruct P1 as [Pb Pg]. cbn [s_fs cst_init] in Pb, Pg. rewrite Hb in Pb. inversion Pb; subst j.
        rewrite Hi in Pg. inversion Pg; subst n. cbn [kind_is_dir i_kind negb] in H. unfold fail in H. inversion H; subst.
        split; eauto.
      + exfalso. unfold absent in P1. cbn [s_fs cst_init] in P1. rewrite Hb, Hi in P1. discriminate.
    - destruct (lstat_opt_spec c f0 dr dcs _ s1 _ cs d x T E1) as (F1 & _ & _).
      inversion H; subst. split; eauto.
  Qed.
End DestLink.
