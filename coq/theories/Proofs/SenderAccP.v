(* Proofs about the sender acceptor (Model/SenderAcc.v): invariants that tie the acceptor
   state to the trace read so far, and the C06 statements derived from them. *)
From Coq Require Import List Arith NArith Bool Lia Sorted.
From FS Require Import Sx Model.Path Model.Stat Model.Tree Model.AccEvents Model.SenderAcc Proofs.AccEventsP.
Import ListNotations.
Open Scope N_scope.

(* destructs every match / if in the hypothesis (an equation "step = Some s'") *)
Ltac step_inv H :=
  repeat match type of H with
         | context [match ?x with _ => _ end] => destruct x eqn:?; try discriminate H
         end;
  try (injection H as H; subst).

Ltac bool_hyps :=
  repeat match goal with
         | X : (_ && _)%bool = true |- _ => apply andb_true_iff in X; destruct X
         | X : negb _ = true |- _ => apply negb_true_iff in X
         end.

(* ---- the hard-link reset only rewrites Linkname ---- *)
Lemma hl_entry_same : forall seen e seen' e',
  hl_entry seen e = (seen', e') -> set_linkname (fst e') [] = set_linkname (fst e) [] /\ snd e' = snd e.
Proof.
  intros seen [st c] seen' e' H. unfold hl_entry in H. simpl in H.
  destruct (mode_is_dir (st_mode st) || mode_is_symlink (st_mode st))%bool.
  - inversion H; subst. auto.
  - destruct (st_linkname st) eqn:El.
    + inversion H; subst. auto.
    + destruct (blookup (n :: l) seen).
      * destruct (bytes_eqb l0 (st_path st)); inversion H; subst; simpl; auto.
      * inversion H; subst; simpl; auto.
Qed.

Lemma hl_reset_from_same : forall l seen,
  Forall2 (fun e e' => set_linkname (fst e') [] = set_linkname (fst e) [] /\ snd e' = snd e) l (hl_reset_from seen l).
Proof.
  induction l as [|e l IH]; intros seen; simpl; [constructor|].
  destruct (hl_entry seen e) as [seen' e'] eqn:E. constructor; [eapply hl_entry_same; eauto|apply IH].
Qed.

Lemma set_linkname_nil_fields : forall a b, set_linkname a [] = set_linkname b [] ->
  st_path a = st_path b /\ st_mode a = st_mode b /\ st_uid a = st_uid b /\ st_gid a = st_gid b /\
  st_size a = st_size b /\ st_mtime a = st_mtime b /\ st_devmajor a = st_devmajor b /\
  st_devminor a = st_devminor b /\ st_xattrs a = st_xattrs b.
Proof. intros a b H. unfold set_linkname in H. inversion H. repeat split; assumption. Qed.

Lemma sender_entries_same : forall view served,
  Forall2 (fun e e' => set_linkname (fst e') [] = set_linkname (fst e) [] /\ snd e' = served (fst e', snd e))
          (walk_root view) (sender_entries view served).
Proof.
  intros view served. unfold sender_entries, hl_reset.
  generalize (hl_reset_from_same (walk_root view) []).
  generalize (hl_reset_from [] (walk_root view)). generalize (walk_root view).
  induction l as [|e l IH]; intros l' H; inversion H; subst; simpl; constructor.
  - destruct H2 as [H2 H2']. simpl. split; [assumption|]. rewrite <- H2'. destruct y; reflexivity.
  - apply IH. assumption.
Qed.

Section SenderP.
  Variable exp : list entry.
  Notation step := (sender_acc exp).

  (* ---- on_req touches only the request table and the latches ---- *)
  Lemma on_req_frame : forall s n,
    let s' := on_req exp s n in
    s_k s' = s_k s /\ s_endm s' = s_endm s /\ s_fin_in s' = s_fin_in s /\ s_fin_out s' = s_fin_out s /\
    s_prog s' = s_prog s /\ s_final s' = s_final s /\ s_ret s' = s_ret s /\
    (s_err s = true -> s_err s' = true).
  Proof.
    intros s n. unfold on_req.
    repeat match goal with |- context [match ?x with _ => _ end] => destruct x end; simpl; repeat split; auto.
  Qed.

  (* ================= A. the STAT sequence ================= *)
  Definition stats_inv (tr : list event) (s : sstate) : Prop :=
    (s_endm s = false /\ (s_k s <= length exp)%nat /\
     stats_out tr = map (fun e => Some (fst e)) (firstn (s_k s) exp))
    \/ (s_endm s = true /\ s_k s = length exp /\ stats_out tr = full_stats exp).

  Lemma stats_inv_step : forall tr s e s',
    stats_inv tr s -> step s e = Some s' -> stats_inv (tr ++ [e]) s'.
  Proof.
    intros tr s e s' I H. unfold stats_inv in *. rewrite stats_out_app.
    unfold sender_acc in H.
    destruct (s_ret s); [discriminate|].
    destruct (s_final s).
    { destruct e; try discriminate. destruct ok;
        (match type of H with (if ?c then _ else _) = _ => destruct c; [|discriminate] end);
        inversion H; subst; simpl; rewrite app_nil_r; exact I. }
    destruct e as [p|p| | |n l|ok]; try discriminate.
    - (* Out *)
      destruct p as [[st|]|id|id d| |msg]; try discriminate.
      + (* STAT st *)
        destruct (s_endm s) eqn:Ee; [discriminate|].
        destruct (nth_error exp (s_k s)) as [en|] eqn:En; [|discriminate].
        destruct (stat_eqb st (fst en)) eqn:Es; [|discriminate].
        inversion H; subst; clear H. cbn [set_k s_k s_endm].
        change (stats_out [Out (PStat (Some st))]) with [Some st].
        destruct I as [[_ [Hk Hs]]|[C _]]; [|congruence].
        left. split; [assumption|]. apply stat_eqb_eq in Es. subst st.
        split; [apply nth_error_lt in En; lia|].
        rewrite Hs. rewrite (firstn_snoc_nth _ _ _ _ En). rewrite map_app. reflexivity.
      + (* empty STAT *)
        destruct (s_endm s) eqn:Ee; [discriminate|].
        destruct (Nat.eqb (s_k s) (length exp)) eqn:Ek; [|discriminate].
        inversion H; subst; clear H. simpl. apply Nat.eqb_eq in Ek.
        destruct I as [[_ [Hk Hs]]|[C _]]; [|congruence].
        right. split; [reflexivity|]. split; [assumption|].
        rewrite Hs, Ek, firstn_all. reflexivity.
      + (* DATA *)
        simpl. rewrite app_nil_r. step_inv H; simpl; exact I.
      + (* FIN *)
        simpl. rewrite app_nil_r. step_inv H; simpl; exact I.
      + (* ERR *)
        simpl. rewrite app_nil_r. step_inv H; simpl; exact I.
    - (* Inp *)
      simpl. rewrite app_nil_r.
      destruct (s_rdclosed s); [discriminate|].
      destruct p; inversion H; subst; clear H; simpl; try exact I.
      destruct (on_req_frame s id) as [Hk [He _]]. rewrite Hk, He. exact I.
    - simpl. rewrite app_nil_r. destruct (s_rdclosed s); [discriminate|]. inversion H; subst. exact I.
    - simpl. rewrite app_nil_r. inversion H; subst. exact I.
    - simpl. rewrite app_nil_r. destruct (N.leb (s_prog s) n); [|discriminate]. inversion H; subst. exact I.
  Qed.

  Lemma stats_inv_run : forall tr s, sender_run exp tr = Some s -> stats_inv tr s.
  Proof.
    intros tr s H. unfold sender_run in H.
    eapply (run_invariant step stats_inv sinit); [| |exact H].
    - left. simpl. split; [reflexivity|]. split; [lia|reflexivity].
    - intros. eapply stats_inv_step; eauto.
  Qed.

  (* ================= B. DATA per requested id ================= *)
  Definition nonempty (d : bytes) : Prop := d <> [].

  Definition data_inv (tr : list event) (s : sstate) : Prop :=
    forall n,
      match nlookup n (s_req s) with
      | None => data_out n tr = []
      | Some (Sending rem) =>
        exists c, regular_at exp (N.to_nat n) = Some c /\ Forall nonempty (data_out n tr) /\
                  concat (data_out n tr) ++ rem = c
      | Some Done =>
        exists c cs, regular_at exp (N.to_nat n) = Some c /\ data_out n tr = cs ++ [[]] /\
                     Forall nonempty cs /\ concat cs = c
      end.

  (* what on_req does to the request table *)
  Lemma on_req_table : forall s n,
    s_req (on_req exp s n) = s_req s \/
    (nlookup n (s_req s) = None /\ exists c, regular_at exp (N.to_nat n) = Some c /\
     s_req (on_req exp s n) = (n, Sending c) :: s_req s).
  Proof.
    intros s n. unfold on_req.
    destruct (nlookup n (s_req s)) eqn:El; [left; reflexivity|].
    destruct (N.ltb n (N.of_nat (s_k s))) eqn:E1.
    - destruct (regular_at exp (N.to_nat n)) eqn:Er; [|left; reflexivity].
      right. split; [reflexivity|]. exists l. auto.
    - destruct (N.eqb n (N.of_nat (s_k s))) eqn:E2; [|left; reflexivity].
      destruct (regular_at exp (s_k s)) eqn:Er; [|left; reflexivity].
      right. split; [reflexivity|]. exists l. apply N.eqb_eq in E2. subst n. rewrite Nat2N.id. auto.
  Qed.

  Lemma data_out_single_other : forall n e,
    (forall d, e <> Out (PData n d)) -> data_out n [e] = [].
  Proof.
    intros n e H. unfold data_out. simpl. destruct e as [p| | | | |]; try reflexivity.
    destruct p; try reflexivity. destruct (N.eqb id n) eqn:E; [|reflexivity].
    apply N.eqb_eq in E. subst. exfalso. eapply H. reflexivity.
  Qed.

  Lemma data_inv_frame : forall tr s e s',
    data_inv tr s -> s_req s' = s_req s -> (forall n d, e <> Out (PData n d)) -> data_inv (tr ++ [e]) s'.
  Proof.
    intros tr s e s' I Hr He n. rewrite Hr, data_out_app, data_out_single_other, app_nil_r by (intros; apply He).
    apply I.
  Qed.

  Lemma data_inv_step : forall tr s e s',
    data_inv tr s -> step s e = Some s' -> data_inv (tr ++ [e]) s'.
  Proof.
    intros tr s e s' I H. unfold sender_acc in H.
    destruct (s_ret s); [discriminate|].
    destruct (s_final s).
    { destruct e; try discriminate. destruct ok;
        (match type of H with (if ?c then _ else _) = _ => destruct c; [|discriminate] end);
        inversion H; subst; (eapply data_inv_frame; [exact I|reflexivity|discriminate]). }
    destruct e as [p|p| | |n l|ok]; try discriminate.
    - (* Out *)
      destruct p as [[st|]|id|id d| |msg]; try discriminate.
      + step_inv H. eapply data_inv_frame; [exact I|reflexivity|discriminate].
      + step_inv H. eapply data_inv_frame; [exact I|reflexivity|discriminate].
      + (* DATA id d *)
        destruct (nlookup id (s_req s)) as [[rem|]|] eqn:El; try discriminate.
        assert (Hid := I id). rewrite El in Hid. destruct Hid as [c [Hc [Hne Hcat]]].
        destruct d as [|b d].
        * (* terminator *)
          destruct (is_nil rem) eqn:En; [|discriminate]. apply is_nil_true in En. subst rem.
          injection H as H; subst s'. intros n. cbn [s_req set_req].
          destruct (N.eq_dec n id) as [->|Hn].
          -- rewrite nlookup_nupdate_same by congruence.
             exists c, (data_out id tr). rewrite data_out_app. unfold data_out at 2. simpl. rewrite N.eqb_refl.
             rewrite app_nil_r in Hcat. auto.
          -- rewrite nlookup_nupdate_other by assumption. rewrite data_out_app.
             unfold data_out at 2. simpl. destruct (N.eqb id n) eqn:E; [apply N.eqb_eq in E; congruence|].
             rewrite app_nil_r. apply I.
        * destruct (strip_prefix (b :: d) rem) as [rem'|] eqn:Es; [|discriminate].
          apply strip_prefix_some in Es. injection H as H; subst s'. intros n. cbn [s_req set_req].
          destruct (N.eq_dec n id) as [->|Hn].
          -- rewrite nlookup_nupdate_same by congruence.
             exists c. split; [assumption|].
             assert (Hd : data_out id [Out (PData id (b :: d))] = [b :: d]).
             { unfold data_out. simpl. rewrite N.eqb_refl. reflexivity. }
             rewrite data_out_app, Hd. split.
             ++ apply Forall_app. split; [assumption|]. constructor; [discriminate|constructor].
             ++ rewrite concat_app. simpl. rewrite app_nil_r. rewrite <- app_assoc. rewrite <- Es. exact Hcat.
          -- rewrite nlookup_nupdate_other by assumption. rewrite data_out_app.
             unfold data_out at 2. simpl. destruct (N.eqb id n) eqn:E; [apply N.eqb_eq in E; congruence|].
             rewrite app_nil_r. apply I.
      + step_inv H. eapply data_inv_frame; [exact I|reflexivity|discriminate].
      + step_inv H. eapply data_inv_frame; [exact I|reflexivity|discriminate].
    - (* Inp *)
      destruct (s_rdclosed s); [discriminate|].
      destruct p; inversion H; subst; clear H;
        try (eapply data_inv_frame; [exact I|reflexivity|discriminate]).
      destruct (on_req_table s id) as [Hsame|[Hnone [c [Hc Hnew]]]].
      + eapply data_inv_frame; [exact I|exact Hsame|discriminate].
      + intros n. rewrite Hnew. rewrite data_out_app, data_out_single_other, app_nil_r by discriminate.
        simpl. destruct (N.eqb n id) eqn:E.
        * apply N.eqb_eq in E. subst n. assert (Hid := I id). rewrite Hnone in Hid.
          exists c. rewrite Hid. simpl. auto.
        * apply I.
    - destruct (s_rdclosed s); [discriminate|]. inversion H; subst.
      eapply data_inv_frame; [exact I|reflexivity|discriminate].
    - inversion H; subst. eapply data_inv_frame; [exact I|reflexivity|discriminate].
    - destruct (N.leb (s_prog s) n); [|discriminate]. inversion H; subst.
      eapply data_inv_frame; [exact I|reflexivity|discriminate].
  Qed.

  Lemma data_inv_run : forall tr s, sender_run exp tr = Some s -> data_inv tr s.
  Proof.
    intros tr s H. unfold sender_run in H.
    eapply (run_invariant step data_inv sinit); [| |exact H].
    - intros n. reflexivity.
    - intros. eapply data_inv_step; eauto.
  Qed.

  (* ================= C. requests, latches, FIN ================= *)
  Lemma on_req_cases : forall s n,
    on_req exp s n = set_fail s \/
    (nlookup n (s_req s) = None /\ exists c, regular_at exp (N.to_nat n) = Some c /\ n <= N.of_nat (s_k s) /\
     (on_req exp s n = set_req s ((n, Sending c) :: s_req s) \/
      on_req exp s n = set_soft (set_req s ((n, Sending c) :: s_req s)))).
  Proof.
    intros s n. unfold on_req.
    destruct (nlookup n (s_req s)) eqn:El; [left; reflexivity|].
    destruct (N.ltb n (N.of_nat (s_k s))) eqn:E1.
    - destruct (regular_at exp (N.to_nat n)) eqn:Er; [|left; reflexivity].
      right. split; [reflexivity|]. exists l. apply N.ltb_lt in E1. repeat split; auto. lia.
    - destruct (N.eqb n (N.of_nat (s_k s))) eqn:E2; [|left; reflexivity].
      destruct (regular_at exp (s_k s)) eqn:Er; [|left; reflexivity].
      right. split; [reflexivity|]. exists l. apply N.eqb_eq in E2. subst n. rewrite Nat2N.id.
      repeat split; auto. lia.
  Qed.

  Lemma on_req_bad : forall s n,
    nlookup n (s_req s) <> None \/ N.of_nat (s_k s) < n \/ regular_at exp (N.to_nat n) = None ->
    on_req exp s n = set_fail s.
  Proof.
    intros s n H. unfold on_req.
    destruct (nlookup n (s_req s)) eqn:El; [reflexivity|].
    destruct H as [H|[H|H]]; [congruence| |].
    - destruct (N.ltb n (N.of_nat (s_k s))) eqn:E1; [apply N.ltb_lt in E1; lia|].
      destruct (N.eqb n (N.of_nat (s_k s))) eqn:E2; [apply N.eqb_eq in E2; lia|reflexivity].
    - destruct (N.ltb n (N.of_nat (s_k s))) eqn:E1; [rewrite H; reflexivity|].
      destruct (N.eqb n (N.of_nat (s_k s))) eqn:E2; [|reflexivity].
      apply N.eqb_eq in E2. subst n. rewrite Nat2N.id in H. rewrite H. reflexivity.
  Qed.

  (* monotone facts *)
  Lemma step_mono : forall s e s', step s e = Some s' ->
    (s_err s = true -> s_err s' = true) /\
    (s_rdclosed s = true -> s_rdclosed s' = true /\ is_in e = false) /\
    (s_fin_out s = true -> s_fin_out s' = true /\ e <> Out PFin) /\
    (s_fin_in s = true -> s_fin_in s' = true) /\
    (forall n, nlookup n (s_req s) <> None -> nlookup n (s_req s') <> None).
  Proof.
    intros s e s' H. unfold sender_acc in H. step_inv H; simpl; bool_hyps;
      try (solve [repeat split; auto; try discriminate; try congruence;
                  intros; try (apply nlookup_nupdate_keys; assumption)]).
    (* Inp (PReq id) *)
    destruct (on_req_frame s id) as [_ [_ [Hfi [Hfo [_ [_ [_ Herr]]]]]]].
    repeat split; auto; try congruence; try discriminate.
    intros n Hn. destruct (on_req_table s id) as [Hs|[_ [c [_ Hs]]]]; rewrite Hs; [assumption|].
    simpl. destruct (N.eqb n id); [discriminate|assumption].
  Qed.

  (* requested ids come from REQ events, and every REQ event is either recorded or fatal *)
  Definition req_inv (tr : list event) (s : sstate) : Prop :=
    (forall n, nlookup n (s_req s) <> None -> List.In (Inp (PReq n)) tr) /\
    (forall n, List.In (Inp (PReq n)) tr -> nlookup n (s_req s) <> None \/ (s_err s = true /\ s_rdclosed s = true)) /\
    (s_fin_in s = true <-> List.In (Inp PFin) tr) /\
    (s_fin_out s = true <-> List.In (Out PFin) tr).

  Lemma step_req_keys : forall s e s' n, step s e = Some s' ->
    nlookup n (s_req s') <> None -> nlookup n (s_req s) <> None \/ e = Inp (PReq n).
  Proof.
    intros s e s' n H. unfold sender_acc in H. step_inv H; simpl; auto;
      try (intros Hn; left; apply nlookup_nupdate_keys in Hn; assumption).
    destruct (on_req_table s id) as [Hs|[_ [c [_ Hs]]]]; rewrite Hs; [auto|].
    simpl. destruct (N.eqb n id) eqn:E; [|auto]. apply N.eqb_eq in E. subst. auto.
  Qed.

  Lemma step_fin_flags : forall s e s', step s e = Some s' ->
    (s_fin_in s' = true <-> s_fin_in s = true \/ e = Inp PFin) /\
    (s_fin_out s' = true <-> s_fin_out s = true \/ e = Out PFin).
  Proof.
    intros s e s' H. unfold sender_acc in H. step_inv H; simpl;
      try (split; split; intros; auto; repeat match goal with X : _ \/ _ |- _ => destruct X end;
           try assumption; try discriminate; try congruence; fail).
    destruct (on_req_frame s id) as [_ [_ [Hfi [Hfo _]]]]. rewrite Hfi, Hfo.
    split; split; intros; auto; repeat match goal with X : _ \/ _ |- _ => destruct X end;
      try assumption; try discriminate.
  Qed.

  Lemma req_inv_step : forall tr s e s',
    req_inv tr s -> step s e = Some s' -> req_inv (tr ++ [e]) s'.
  Proof.
    intros tr s e s' [I1 [I2 [I3 I4]]] H.
    destruct (step_mono _ _ _ H) as [Merr [Mrd [_ [_ Mreq]]]].
    destruct (step_fin_flags _ _ _ H) as [Ffi Ffo].
    repeat split.
    - intros n Hn. apply in_or_app. destruct (step_req_keys _ _ _ n H Hn) as [Hk|He]; [left; auto|right; subst; simpl; auto].
    - intros n Hin. apply in_app_or in Hin. destruct Hin as [Hin|Hin].
      + destruct (I2 n Hin) as [Hk|[He Hr]]; [left; auto|]. right. split; [auto|]. apply Mrd. assumption.
      + simpl in Hin. destruct Hin as [Hin|[]]. subst e.
        unfold sender_acc in H. destruct (s_ret s); [discriminate|]. destruct (s_final s); [discriminate|].
        destruct (s_rdclosed s); [discriminate|]. injection H as H. subst s'.
        destruct (on_req_cases s n) as [Hs|[_ [c [_ [_ [Hs|Hs]]]]]]; rewrite Hs; simpl.
        * right. auto.
        * left. rewrite N.eqb_refl. discriminate.
        * left. rewrite N.eqb_refl. discriminate.
    - intros Hf. apply in_or_app. apply Ffi in Hf. destruct Hf as [Hf|Hf]; [left; apply I3; assumption|right; subst; simpl; auto].
    - intros Hin. apply Ffi. apply in_app_or in Hin. destruct Hin as [Hin|Hin]; [left; apply I3; assumption|].
      simpl in Hin. destruct Hin as [Hin|[]]. auto.
    - intros Hf. apply in_or_app. apply Ffo in Hf. destruct Hf as [Hf|Hf]; [left; apply I4; assumption|right; subst; simpl; auto].
    - intros Hin. apply Ffo. apply in_app_or in Hin. destruct Hin as [Hin|Hin]; [left; apply I4; assumption|].
      simpl in Hin. destruct Hin as [Hin|[]]. auto.
  Qed.

  Lemma req_inv_run : forall tr s, sender_run exp tr = Some s -> req_inv tr s.
  Proof.
    intros tr s H. unfold sender_run in H.
    eapply (run_invariant step req_inv sinit); [| |exact H].
    - unfold req_inv. simpl. repeat split; intros; try contradiction; try discriminate; try congruence.
    - intros. eapply req_inv_step; eauto.
  Qed.

  (* what a successful return certifies about the final state *)
  Definition ret_inv (s : sstate) : Prop :=
    (s_ret s = Some true ->
     s_err s = false /\ s_fin_in s = true /\ s_fin_out s = true /\ s_endm s = true /\ all_done (s_req s) = true) /\
    (s_ret s = Some false -> s_err s = true \/ s_soft s = true).

  Lemma ret_inv_step : forall s e s', step s e = Some s' -> ret_inv s -> ret_inv s'.
  Proof.
    intros s e s' H _. unfold sender_acc in H. unfold ret_inv.
    step_inv H; simpl; try (solve [split; intros; congruence]).
    - (* Return true *)
      split; [intros _|intros; discriminate].
      repeat match goal with X : (_ && _)%bool = true |- _ => apply andb_true_iff in X; destruct X end.
      repeat split; auto. apply negb_true_iff. assumption.
    - split; [intros; discriminate|intros _]. apply orb_true_iff. assumption.
    - destruct (on_req_frame s id) as [_ [_ [_ [_ [_ [_ [Hr _]]]]]]]. rewrite Hr. split; intros; congruence.
  Qed.

  Lemma ret_inv_run : forall tr s, sender_run exp tr = Some s -> ret_inv s.
  Proof.
    intros tr s H. unfold sender_run in H.
    eapply (run_preserves step ret_inv); [|exact H|].
    - intros. eapply ret_inv_step; eauto.
    - split; simpl; intros; discriminate.
  Qed.

  Lemma all_done_lookup : forall r n st, all_done r = true -> nlookup n r = Some st -> st = Done.
  Proof.
    induction r as [|[k v] r IH]; simpl; intros n st H Hl; [discriminate|].
    destruct v; [discriminate|]. destruct (N.eqb n k); [congruence|eauto].
  Qed.

  (* number of STATs sent = the counter *)
  Definition nstats (tr : list event) : nat := length (some_stats (stats_out tr)).

  Lemma some_stats_map_some : forall (l : list entry), some_stats (map (fun e => Some (fst e)) l) = map fst l.
  Proof. induction l; simpl; [reflexivity|]. f_equal. assumption. Qed.

  Lemma nstats_k : forall tr s, sender_run exp tr = Some s -> nstats tr = s_k s.
  Proof.
    intros tr s H. apply stats_inv_run in H. unfold nstats.
    destruct H as [[_ [Hk Hs]]|[_ [Hk Hs]]]; rewrite Hs.
    - rewrite some_stats_map_some, map_length, firstn_length. lia.
    - unfold full_stats. rewrite some_stats_app, some_stats_map_some. simpl. rewrite app_nil_r, map_length. auto.
  Qed.

  (* ================= D. progress ================= *)
  Lemma ssorted_snoc : forall (l : list N) x,
    StronglySorted N.le l -> Forall (fun y => y <= x) l -> StronglySorted N.le (l ++ [x]).
  Proof.
    induction l as [|a l IH]; intros x Hs Hf; simpl.
    - constructor; constructor.
    - inversion Hs; subst. inversion Hf; subst. constructor; [apply IH; assumption|].
      apply Forall_app. split; [assumption|]. constructor; [assumption|constructor].
  Qed.

  Definition prog_inv (tr : list event) (s : sstate) : Prop :=
    StronglySorted N.le (map fst (progress_of tr)) /\
    Forall (fun v => v <= s_prog s) (map fst (progress_of tr)) /\
    (s_final s = false -> s_ret s = None /\ Forall (fun p => snd p = false) (progress_of tr)) /\
    (s_final s = true ->
     exists tr0 n, Forall (fun p => snd p = false) (progress_of tr0) /\
       ((s_ret s = None /\ tr = tr0 ++ [Progress n true]) \/
        (exists b, s_ret s = Some b /\ tr = tr0 ++ [Progress n true; Return b]))).

  Lemma step_prog_frame : forall s e s', step s e = Some s' ->
    match e with
    | Progress n l => s_final s = false /\ s_prog s <= n /\ s_prog s' = n /\ s_final s' = l /\ s_ret s' = s_ret s /\ s_ret s = None
    | Return b => s_final s = true /\ s_ret s = None /\ s_ret s' = Some b /\ s_final s' = true /\ s_prog s' = s_prog s
    | _ => s_final s = false /\ s_prog s' = s_prog s /\ s_final s' = s_final s /\ s_ret s' = s_ret s /\ s_ret s = None
    end.
  Proof.
    intros s e s' H. unfold sender_acc in H. step_inv H; simpl; try (solve [repeat split; auto]);
      try (solve [repeat split; auto; apply N.leb_le; assumption]).
    destruct (on_req_frame s id) as [_ [_ [_ [_ [Hp [Hf [Hr _]]]]]]]. rewrite Hp, Hf, Hr. repeat split; auto.
  Qed.

  Lemma prog_inv_step : forall tr s e s',
    prog_inv tr s -> step s e = Some s' -> prog_inv (tr ++ [e]) s'.
  Proof.
    intros tr s e s' [I1 [I2 [I3 I4]]] H. apply step_prog_frame in H. unfold prog_inv. rewrite progress_of_app.
    destruct e as [p|p| | |n l|b];
      try (simpl progress_of; rewrite app_nil_r; destruct H as [Hf [Hp [Hf' [Hr Hn]]]];
           rewrite Hp, Hf', Hr; split; [assumption|]; split; [assumption|]; split; [exact I3|intros C; congruence]).
    - (* Progress *)
      destruct H as [Hf [Hle [Hp [Hf' [Hr Hn]]]]]. change (progress_of [Progress n l]) with [(n, l)].
      rewrite map_app. simpl map. rewrite Hp, Hf', Hr.
      assert (Hall : Forall (fun y => y <= n) (map fst (progress_of tr))).
      { eapply Forall_impl; [|exact I2]. simpl. intros. lia. }
      destruct (I3 Hf) as [_ Hnf].
      split; [|split; [|split]].
      + apply ssorted_snoc; assumption.
      + apply Forall_app. split; [assumption|]. constructor; [lia|constructor].
      + intros ->. split; [assumption|].
        apply Forall_app. split; [assumption|]. constructor; [reflexivity|constructor].
      + intros ->. exists tr, n. split; [assumption|]. left. auto.
    - (* Return *)
      destruct H as [Hf [Hn [Hr [Hf' Hp]]]]. simpl progress_of. rewrite app_nil_r. rewrite Hp, Hf', Hr.
      split; [assumption|]. split; [assumption|]. split; [intros C; congruence|].
      intros _. destruct (I4 Hf) as [tr0 [n [H0 [[_ Ht]|[b' [C _]]]]]]; [|congruence].
      exists tr0, n. split; [assumption|]. right. exists b. split; [reflexivity|].
      rewrite Ht, <- app_assoc. reflexivity.
  Qed.

  Lemma prog_inv_run : forall tr s, sender_run exp tr = Some s -> prog_inv tr s.
  Proof.
    intros tr s H. unfold sender_run in H.
    eapply (run_invariant step prog_inv sinit); [| |exact H].
    - unfold prog_inv. simpl. repeat split; auto; try constructor. intros; discriminate.
    - intros. eapply prog_inv_step; eauto.
  Qed.

  (* ================= E. the C06 statements ================= *)
  Lemma firstn_full_prefix : forall k, (k <= length exp)%nat ->
    map (fun e => Some (fst e)) (firstn k exp) = firstn k (full_stats exp).
  Proof.
    intros k Hk. unfold full_stats. rewrite firstn_app, map_length. unfold entry in *.
    match goal with |- context [firstn ?x [None]] => replace x with 0%nat by lia end.
    rewrite firstn_O, app_nil_r, firstn_map. reflexivity.
  Qed.

  Lemma stat_sequence_proof : forall tr s, sender_run exp tr = Some s ->
    (exists m, stats_out tr = firstn m (full_stats exp)) /\
    (s_ret s = Some true -> stats_out tr = full_stats exp).
  Proof.
    intros tr s H. pose proof (ret_inv_run _ _ H) as [Rok _]. apply stats_inv_run in H.
    destruct H as [[He [Hk Hs]]|[He [Hk Hs]]].
    - split.
      + exists (s_k s). rewrite Hs. apply firstn_full_prefix. assumption.
      + intros Hr. destruct (Rok Hr) as [_ [_ [_ [C _]]]]. congruence.
    - split; [|intros _; assumption]. exists (length (full_stats exp)). rewrite firstn_all. assumption.
  Qed.

  Lemma on_req_good : forall s n c,
    nlookup n (s_req s) = None -> regular_at exp (N.to_nat n) = Some c -> n <= N.of_nat (s_k s) ->
    s_req (on_req exp s n) = (n, Sending c) :: s_req s.
  Proof.
    intros s n c Hl Hr Hle. unfold on_req. rewrite Hl.
    destruct (N.ltb n (N.of_nat (s_k s))) eqn:E1; [rewrite Hr; reflexivity|].
    apply N.ltb_ge in E1. assert (n = N.of_nat (s_k s)) by lia. subst n.
    rewrite N.eqb_refl. rewrite Nat2N.id in Hr. rewrite Hr. reflexivity.
  Qed.

  Lemma step_in_req : forall s n s', step s (Inp (PReq n)) = Some s' ->
    s_rdclosed s = false /\ s' = on_req exp s n.
  Proof.
    intros s n s' H. unfold sender_acc in H. destruct (s_ret s); [discriminate|].
    destruct (s_final s); [discriminate|]. destruct (s_rdclosed s); [discriminate|].
    injection H as H. auto.
  Qed.

  Lemma data_out_split : forall n pre m post,
    data_out n (pre ++ Inp (PReq m) :: post) = data_out n pre ++ data_out n post.
  Proof. intros. rewrite data_out_app. reflexivity. Qed.

  Lemma data_per_request_proof : forall tr s pre n post c,
    sender_run exp tr = Some s -> tr = pre ++ Inp (PReq n) :: post ->
    regular_at exp (N.to_nat n) = Some c -> n <= N.of_nat (nstats pre) -> ~ List.In (Inp (PReq n)) pre ->
    data_out n pre = [] /\
    exists cs, Forall nonempty cs /\
      ((data_out n post = cs /\ exists rem, concat cs ++ rem = c) \/
       (data_out n post = cs ++ [[]] /\ concat cs = c)) /\
      (s_ret s = Some true -> data_out n post = cs ++ [[]] /\ concat cs = c).
  Proof.
    intros tr s pre n post c H Htr Hreg Hle Hfresh. subst tr.
    pose proof (data_inv_run _ _ H) as Dfull. pose proof (ret_inv_run _ _ H) as [Rok _].
    unfold sender_run in H. apply run_split in H. destruct H as [s1 [s2 [H1 [H2 H3]]]].
    pose proof (data_inv_run _ _ H1) as D1. pose proof (req_inv_run _ _ H1) as [Q1 _].
    pose proof (nstats_k _ _ H1) as Hk. rewrite Hk in Hle.
    assert (Hnone : nlookup n (s_req s1) = None).
    { destruct (nlookup n (s_req s1)) eqn:E; [|reflexivity]. exfalso. apply Hfresh. apply Q1. congruence. }
    assert (Hpre : data_out n pre = []). { specialize (D1 n). rewrite Hnone in D1. exact D1. }
    split; [assumption|].
    apply step_in_req in H2. destruct H2 as [_ H2]. subst s2.
    assert (Hin2 : nlookup n (s_req (on_req exp s1 n)) <> None).
    { rewrite (on_req_good _ _ _ Hnone Hreg Hle). simpl. rewrite N.eqb_refl. discriminate. }
    assert (Hend : nlookup n (s_req s) <> None).
    { eapply (run_preserves step (fun st => nlookup n (s_req st) <> None)); [|exact H3|exact Hin2].
      intros st e st' Hst. apply (step_mono _ _ _ Hst). }
    specialize (Dfull n). rewrite data_out_split, Hpre in Dfull. simpl in Dfull.
    destruct (nlookup n (s_req s)) as [[rem|]|] eqn:El; [| |congruence].
    - destruct Dfull as [c0 [Hc0 [Hne Hcat]]]. rewrite Hreg in Hc0. injection Hc0 as <-.
      exists (data_out n post). split; [assumption|]. split.
      + left. split; [reflexivity|]. exists rem. assumption.
      + intros Hr. destruct (Rok Hr) as [_ [_ [_ [_ Hd]]]].
        pose proof (all_done_lookup _ _ _ Hd El). discriminate.
    - destruct Dfull as [c0 [cs [Hc0 [Hd [Hne Hcat]]]]]. rewrite Hreg in Hc0. injection Hc0 as <-.
      exists cs. split; [assumption|]. split; [right; auto|auto].
  Qed.

  Lemma bad_ids_fail_proof : forall tr s pre n post,
    sender_run exp tr = Some s -> tr = pre ++ Inp (PReq n) :: post ->
    (List.In (Inp (PReq n)) pre \/ N.of_nat (nstats pre) < n \/ regular_at exp (N.to_nat n) = None) ->
    s_err s = true /\ s_ret s <> Some true /\ Forall (fun e => is_in e = false) post.
  Proof.
    intros tr s pre n post H Htr Hbad. subst tr.
    pose proof (ret_inv_run _ _ H) as [Rok _].
    unfold sender_run in H. apply run_split in H. destruct H as [s1 [s2 [H1 [H2 H3]]]].
    pose proof (req_inv_run _ _ H1) as [_ [Q2 _]]. pose proof (nstats_k _ _ H1) as Hk. rewrite Hk in Hbad.
    apply step_in_req in H2. destruct H2 as [Hrd H2].
    assert (Hfail : s2 = set_fail s1).
    { subst s2. apply on_req_bad. destruct Hbad as [Hb|[Hb|Hb]]; auto.
      destruct (Q2 n Hb) as [Hq|[_ Hq]]; [auto|congruence]. }
    assert (P2 : s_err s2 = true /\ s_rdclosed s2 = true) by (rewrite Hfail; simpl; auto).
    destruct (run_forall step (fun st => s_err st = true /\ s_rdclosed st = true) (fun e => is_in e = false)) with (tr := post) (s := s2) (s' := s)
      as [Hall [He _]]; [|exact H3|exact P2|].
    - intros st e st' Hst [Pe Pr]. destruct (step_mono _ _ _ Hst) as [Me [Mr _]].
      destruct (Mr Pr) as [Mr1 Mr2]. auto.
    - split; [assumption|]. split; [|assumption]. intros Hr. destruct (Rok Hr) as [C _]. congruence.
  Qed.

  Lemma fin_echo_proof : forall tr s, sender_run exp tr = Some s -> s_ret s = Some true ->
    List.In (Inp PFin) tr /\ List.In (Out PFin) tr /\
    (forall n, List.In (Inp (PReq n)) tr ->
       exists c cs, regular_at exp (N.to_nat n) = Some c /\ data_out n tr = cs ++ [[]] /\
                    Forall nonempty cs /\ concat cs = c).
  Proof.
    intros tr s H Hr. pose proof (ret_inv_run _ _ H) as [Rok _].
    destruct (Rok Hr) as [He [Hfi [Hfo [_ Hd]]]].
    pose proof (req_inv_run _ _ H) as [_ [Q2 [Q3 Q4]]]. pose proof (data_inv_run _ _ H) as D.
    split; [apply Q3; assumption|]. split; [apply Q4; assumption|].
    intros n Hin. destruct (Q2 n Hin) as [Hq|[C _]]; [|congruence].
    specialize (D n). destruct (nlookup n (s_req s)) as [st|] eqn:El; [|congruence].
    pose proof (all_done_lookup _ _ _ Hd El). subst st. exact D.
  Qed.

  Lemma fin_order_proof : forall tr s pre post,
    sender_run exp tr = Some s -> tr = pre ++ Out PFin :: post ->
    List.In (Inp PFin) pre /\ ~ List.In (Out PFin) pre /\ ~ List.In (Out PFin) post.
  Proof.
    intros tr s pre post H Htr. subst tr.
    unfold sender_run in H. apply run_split in H. destruct H as [s1 [s2 [H1 [H2 H3]]]].
    pose proof (req_inv_run _ _ H1) as [_ [_ [Q3 Q4]]].
    unfold sender_acc in H2. destruct (s_ret s1); [discriminate|]. destruct (s_final s1); [discriminate|].
    destruct (s_fin_in s1 && negb (s_fin_out s1))%bool eqn:E; [|discriminate].
    apply andb_true_iff in E. destruct E as [E1 E2]. apply negb_true_iff in E2. injection H2 as H2. subst s2.
    split; [apply Q3; assumption|]. split; [intros C; apply Q4 in C; congruence|].
    destruct (run_forall step (fun st => s_fin_out st = true) (fun e => e <> Out PFin)) with (tr := post) (s := set_fin_out s1) (s' := s)
      as [Hall _]; [|exact H3|reflexivity|].
    - intros st e st' Hst P. destruct (step_mono _ _ _ Hst) as [_ [_ [Mf _]]]. destruct (Mf P). auto.
    - intros C. rewrite Forall_forall in Hall. apply (Hall _ C). reflexivity.
  Qed.

  Lemma progress_proof : forall tr s b, sender_run exp tr = Some s -> s_ret s = Some b ->
    StronglySorted N.le (map fst (progress_of tr)) /\
    exists tr0 n, tr = tr0 ++ [Progress n true; Return b] /\ Forall (fun p => snd p = false) (progress_of tr0).
  Proof.
    intros tr s b H Hr. apply prog_inv_run in H. destruct H as [I1 [_ [I3 I4]]].
    split; [assumption|].
    destruct (s_final s) eqn:Ef.
    - destruct (I4 eq_refl) as [tr0 [n [H0 [[C _]|[b' [Hb Ht]]]]]]; [congruence|].
      exists tr0, n. rewrite Hr in Hb. injection Hb as <-. auto.
    - destruct (I3 eq_refl) as [C _]. congruence.
  Qed.

  Lemma return_false_latched : forall tr s, sender_run exp tr = Some s -> s_ret s = Some false ->
    s_err s = true \/ s_soft s = true.
  Proof. intros tr s H Hr. pose proof (ret_inv_run _ _ H) as [_ R]. auto. Qed.
End SenderP.
